/-
  Helper lemmas for Properties/MonSoundG.lean (soundness of the round-9 monitors with respect to the model):
  what an accepted direct ExpandPosition / emergency exit does to the weight histories, lifted through the runtime
  for every fault position.
-/
import MantraDex.Model.System
import MantraDex.Model.HistMon
import MantraDex.Properties.C03
import MantraDex.Properties.C04
import MantraDex.Properties.C08Tx
import MantraDex.Properties.C10
import MantraDex.Properties.C10Sys
import MantraDex.Properties.C12Sys
import MantraDex.Proofs.MonSoundBLemmas
import MantraDex.Proofs.MonSoundELemmas
import MantraDex.Proofs.FarmTxWithdraw

set_option linter.unusedSimpArgs false
set_option linter.unusedVariables false

namespace MantraDex.MonSoundGL
open MantraDex

/-! ### `update_weights` from a state whose histories are those of a state satisfying `C10Sys.WInv` -/

/-- the latest weights after `update_weights`, when the histories (and the epoch-manager pointer) of `s` are those of a
    state `s0` whose histories are ascending and lie at most one epoch ahead: the entry written at `cur + 1` IS the last
    change point of both histories -/
theorem update_latest {s0 s s' : FmState} {env : FmEnv} {recv : Addr} {lp : Denom} {amount unl : Nat} {fill : Bool}
    (hh : s.hist = s0.hist) (hc : s.config.epochManager = s0.config.epochManager)
    (hsorted : ∀ a lp, C10H.Sorted (s0.hist a lp))
    (hbounded : ∀ a lp, ∀ x ∈ s0.hist a lp, ∃ cur, fmCurrentEpoch s0 env = .ok cur ∧ x.1 ≤ cur + 1)
    (hne : recv ≠ env.self)
    (h : updateWeights s env recv lp amount unl fill = .ok s') :
    ∃ wgt, calculateWeight amount unl = .ok wgt ∧
      (fill = true →
        latestWeight (s'.hist recv lp) = latestWeight (s0.hist recv lp) + wgt ∧
        latestWeight (s'.hist env.self lp) = latestWeight (s0.hist env.self lp) + wgt) ∧
      (fill = false →
        latestWeight (s'.hist recv lp) = latestWeight (s0.hist recv lp) - min wgt (latestWeight (s0.hist recv lp)) ∧
        latestWeight (s'.hist env.self lp) =
          latestWeight (s0.hist env.self lp) - min wgt (latestWeight (s0.hist recv lp))) ∧
      (∀ a d, (a, d) ≠ (recv, lp) → (a, d) ≠ (env.self, lp) → s'.hist a d = s0.hist a d) := by
  have hce : fmCurrentEpoch s env = fmCurrentEpoch s0 env := WSys.fmCurrentEpoch_congr env hc
  have hcur : ∀ cur, fmCurrentEpoch s env = .ok cur →
      (∀ x ∈ s.hist recv lp, x.1 ≤ cur + 1) ∧ (∀ x ∈ s.hist env.self lp, x.1 ≤ cur + 1) := by
    intro cur hcur
    rw [hce] at hcur
    rw [hh]
    constructor
    · intro x hx
      obtain ⟨c, h1, h2⟩ := hbounded recv lp x hx
      rw [hcur] at h1; cases h1; exact h2
    · intro x hx
      obtain ⟨c, h1, h2⟩ := hbounded env.self lp x hx
      rw [hcur] at h1; cases h1; exact h2
  have := C10H.update_weights_same_delta hne (by rw [hh]; exact hsorted _ _) (by rw [hh]; exact hsorted _ _) hcur h
  rw [hh] at this
  exact this

/-! ### ExpandPosition -/

/-- the handler: one non-zero coin of the position's denom, and the state is `update_weights` (fill) of the store with the
    amount raised -/
theorem expandPosition_weights {s s' : FmState} {env : FmEnv} {sender : Addr} {funds : List Coin}
    {id : String} {r : Response} {p : Position} (hp : s.getPosition id = some p)
    (h : expandPosition s env sender funds id = .ok (s', r)) :
    ∃ c, funds = [c] ∧ c.amount ≠ 0 ∧ c.denom = p.lpDenom ∧
      updateWeights (s.savePosition { p with amount := p.amount + c.amount }) env p.receiver c.denom c.amount
        p.unlocking true = .ok s' ∧ r.msgs = [] := by
  unfold expandPosition at h
  rw [hp] at h
  simp only [bind_ok, error_bind, pure_bind', ite_error_ok, ckAdd_ok, pure_ok, Prod.mk.injEq] at h
  obtain ⟨c, hc, _, hden, hopen, hauth, a, ⟨_, rfl⟩, s2, h2, rfl, rfl⟩ := h
  obtain ⟨hf, hnz⟩ : funds = [c] ∧ c.amount ≠ 0 := by
    unfold oneCoin at hc
    split at hc
    · split at hc
      · cases hc
      · next hne => simp only [Except.ok.injEq] at hc; subst hc; exact ⟨rfl, hne⟩
    · cases hc
  refine ⟨c, hf, hnz, ?_, h2, rfl⟩
  have : p.lpDenom = c.denom := by simpa using hden
  exact this.symm

/-- the same through the runtime, for every fault position -/
theorem expand_position_weights_tx {w w' : World} {u : Addr} {id : String} {funds : List Coin} {k : Option Nat}
    {p : Position} (hp : w.fm.getPosition id = some p)
    (h : runTx w (.exec u FM (.fm (.expandPosition id)) funds) k = .ok w') :
    ∃ c, funds = [c] ∧ c.amount ≠ 0 ∧ c.denom = p.lpDenom ∧
      updateWeights (w.fm.savePosition { p with amount := p.amount + c.amount }) w.fmEnv p.receiver c.denom c.amount
        p.unlocking true = .ok w'.fm := by
  obtain ⟨b, s, r, hb, hx, rfl⟩ := PosTx.fm_nomsg_run h (by
    intro s r hx
    simp only [fmExecute] at hx
    obtain ⟨_, _, _, _, _, hr⟩ := expandPosition_weights hp hx
    exact hr)
  simp only [fmExecute] at hx
  obtain ⟨c, hf, hnz, hden, hu, _⟩ := expandPosition_weights hp hx
  exact ⟨c, hf, hnz, hden, hu⟩

/-! ### emergency exit with an open position -/

/-- `reconcile_user_state` either clears the user's history in the LP token or leaves it; every other history stays -/
theorem reconcile_hist {s s' : FmState} {env : FmEnv} {recv : Addr} {lp : Denom}
    (h : reconcileUserState s env recv lp = .ok s') :
    (s'.hist recv lp = [] ∨ s'.hist recv lp = s.hist recv lp) ∧
    (∀ a d, (a, d) ≠ (recv, lp) → s'.hist a d = s.hist a d) := by
  refine ⟨?_, (C10H.reconcile_clears h).2.2⟩
  unfold reconcileUserState at h
  simp only at h
  generalize hs1 : (if (s.positionsBy recv true).isEmpty = true then
      ({ s with lastClaimed := fun a => if a = recv then none else s.lastClaimed a } : FmState) else s) = s1 at h
  have hh : s1.hist = s.hist := by subst hs1; split <;> rfl
  split at h
  next hc =>
    simp only [bind_ok] at h
    obtain ⟨cur, _, h⟩ := h
    have := C10H.syncHistory_false_ok h
    subst this
    exact Or.inl (by simp [FmState.setHist])
  next hc =>
    simp only [pure_ok] at h
    subst h
    exact Or.inr (by rw [hh])

/-- the handler in the emergency branch with an OPEN position: only the owner may call; `update_weights` (close) with the
    whole amount, then the position is removed and the user reconciled -/
theorem withdraw_emergency_weights {s s' : FmState} {env : FmEnv} {sender : Addr} {p : Position} {r : Response}
    (hp : s.getPosition p.id = some p) (hopen : p.open_ = true)
    (hnot : (⟨p.amount, p.unlocking, p.expiringAt⟩ : PosView).isExpired env.nowS = false)
    (h : withdrawPosition s env sender [] p.id (some true) = .ok (s', r)) :
    sender = p.receiver ∧
    ∃ s1, updateWeights s env sender p.lpDenom p.amount p.unlocking false = .ok s1 ∧
      reconcileUserState (s1.removePosition p.id) env sender p.lpDenom = .ok s' := by
  unfold withdrawPosition at h
  rw [hp] at h
  simp only [bind_ok, error_bind, pure_bind', ite_error_ok] at h
  obtain ⟨_, _, hauth, h⟩ := h
  have hs : sender = p.receiver := by
    have : ¬ p.receiver ≠ sender := by simpa using hauth
    exact (Classical.not_not.mp this).symm
  have hcond : (some true == some true &&
      !(⟨p.amount, p.unlocking, p.expiringAt⟩ : PosView).isExpired env.nowS) = true := by
    rw [hnot]; rfl
  rw [if_pos hcond] at h
  simp only [bind_ok] at h
  obtain ⟨rate, hrate, cur, hcur, active, hact, sp, hsp, h⟩ := h
  rw [hopen] at h
  simp only [if_true, bind_ok, pure_ok, Prod.mk.injEq] at h
  obtain ⟨s1, h1, x, h3, rfl, rfl⟩ := h
  exact ⟨hs, s1, h1, h3⟩

/-- the same through the runtime, for every fault position: the farm manager's state after the transaction is the
    handler's (the messages are bank sends) -/
theorem emergency_exit_weights_tx {w w' : World} {u : Addr} {p : Position} {k : Option Nat}
    (hp : w.fm.getPosition p.id = some p) (hopen : p.open_ = true)
    (hnot : (⟨p.amount, p.unlocking, p.expiringAt⟩ : PosView).isExpired w.fmEnv.nowS = false)
    (h : runTx w (.exec u FM (.fm (.withdrawPosition p.id (some true))) []) k = .ok w') :
    u = p.receiver ∧
    ∃ s1, updateWeights w.fm w.fmEnv u p.lpDenom p.amount p.unlocking false = .ok s1 ∧
      reconcileUserState (s1.removePosition p.id) w.fmEnv u p.lpDenom = .ok w'.fm := by
  unfold runTx at h
  simp only at h
  have h64 : FUEL = 63 + 1 := rfl
  rw [h64] at h
  obtain ⟨b, s, r, hb, hx, hsubs⟩ := FarmTx.execMsg_fm_any h
  simp only [fmExecute] at hx
  have hx' : withdrawPosition w.fm w.fmEnv u [] p.id (some true) = .ok (s, r) := hx
  obtain ⟨hu, s1, h1, h3⟩ := withdraw_emergency_weights hp hopen hnot hx'
  obtain ⟨_, rate, active, sp, _, _, _, _, _, hr⟩ := FarmTx.withdraw_emergency_inv hp hnot hx'
  rw [hr] at hsubs
  have hfuel := execSubs_leaf_fuel _ _ _ _ _ hsubs
  rw [execSubs_leaf _ 63 _ FM (FarmTx.emMsgs_leaf _ _ _ _) hfuel] at hsubs
  obtain ⟨b3, hrun, hw'⟩ := bind_ok.mp hsubs
  simp only [pure_ok] at hw'
  subst hw'
  exact ⟨hu, s1, h1, h3⟩

/-! ### the ordinary branch of `withdraw_position` taken with an OPEN position (an expiry in the past — not a reachable state) -/

/-- an OPEN position whose recorded expiry has passed: whatever the emergency flag says the ordinary branch runs — the
    weights are NOT updated, the position is removed and the user reconciled -/
theorem withdraw_expired_open {s s' : FmState} {env : FmEnv} {sender : Addr} {p : Position} {r : Response}
    {em : Option Bool} (hp : s.getPosition p.id = some p) (hopen : p.open_ = true)
    (hexp : (⟨p.amount, p.unlocking, p.expiringAt⟩ : PosView).isExpired env.nowS = true)
    (h : withdrawPosition s env sender [] p.id em = .ok (s', r)) :
    sender = p.receiver ∧ reconcileUserState (s.removePosition p.id) env sender p.lpDenom = .ok s' ∧
      r.msgs = (withdrawMsgs p).map mkSub := by
  unfold withdrawPosition at h
  rw [hp] at h
  simp only [bind_ok, error_bind, pure_bind', ite_error_ok] at h
  obtain ⟨_, _, hauth, h⟩ := h
  have hs : sender = p.receiver := by
    have : ¬ p.receiver ≠ sender := by simpa using hauth
    exact (Classical.not_not.mp this).symm
  have hcond : ¬ ((em == some true &&
      !(⟨p.amount, p.unlocking, p.expiringAt⟩ : PosView).isExpired env.nowS) = true) := by
    rw [hexp]; simp
  rw [if_neg hcond] at h
  simp only [hexp, hopen, bind_ok, error_bind, pure_bind', ite_error_ok, pure_ok, if_true, Prod.mk.injEq] at h
  obtain ⟨_, _, a, h3, rfl, rfl⟩ := h
  exact ⟨hs, h3, rfl⟩

/-- the same through the runtime, for every fault position -/
theorem expired_open_exit_tx {w w' : World} {u : Addr} {p : Position} {k : Option Nat} {em : Option Bool}
    (hp : w.fm.getPosition p.id = some p) (hopen : p.open_ = true)
    (hexp : (⟨p.amount, p.unlocking, p.expiringAt⟩ : PosView).isExpired w.fmEnv.nowS = true)
    (h : runTx w (.exec u FM (.fm (.withdrawPosition p.id em)) []) k = .ok w') :
    u = p.receiver ∧ reconcileUserState (w.fm.removePosition p.id) w.fmEnv u p.lpDenom = .ok w'.fm := by
  unfold runTx at h
  simp only at h
  have h64 : FUEL = 63 + 1 := rfl
  rw [h64] at h
  obtain ⟨b, s, r, hb, hx, hsubs⟩ := FarmTx.execMsg_fm_any h
  simp only [fmExecute] at hx
  have hx' : withdrawPosition w.fm w.fmEnv u [] p.id em = .ok (s, r) := hx
  obtain ⟨hu, h3, hr⟩ := withdraw_expired_open hp hopen hexp hx'
  rw [hr] at hsubs
  have hfuel := execSubs_leaf_fuel _ _ _ _ _ hsubs
  rw [execSubs_leaf _ 63 _ FM (withdrawMsgs_leaf p) hfuel] at hsubs
  obtain ⟨b3, hrun, hw'⟩ := bind_ok.mp hsubs
  simp only [pure_ok] at hw'
  subst hw'
  exact ⟨hu, h3⟩

/-- `withdraw_position` is refused for everybody but the position's owner -/
theorem withdraw_only_owner {s s' : FmState} {env : FmEnv} {sender : Addr} {funds : List Coin} {p : Position}
    {r : Response} {em : Option Bool} (hp : s.getPosition p.id = some p)
    (h : withdrawPosition s env sender funds p.id em = .ok (s', r)) : sender = p.receiver := by
  unfold withdrawPosition at h
  rw [hp] at h
  simp only [bind_ok, error_bind, pure_bind', ite_error_ok] at h
  obtain ⟨_, _, hauth, h⟩ := h
  have : ¬ p.receiver ≠ sender := by simpa using hauth
  exact (Classical.not_not.mp this).symm

theorem withdraw_only_owner_tx {w w' : World} {u : Addr} {p : Position} {em : Option Bool} {funds : List Coin}
    {k : Option Nat} (hp : w.fm.getPosition p.id = some p)
    (h : runTx w (.exec u FM (.fm (.withdrawPosition p.id em)) funds) k = .ok w') : u = p.receiver := by
  unfold runTx at h
  simp only at h
  have h64 : FUEL = 63 + 1 := rfl
  rw [h64] at h
  obtain ⟨b, s, r, hb, hx, hsubs⟩ := FarmTx.execMsg_fm_any h
  simp only [fmExecute] at hx
  exact withdraw_only_owner hp hx

/-! ### the total's latest weight covers every user's -/

theorem exists_bound (h : List (Nat × Nat)) : ∃ e, ∀ x ∈ h, x.1 ≤ e := by
  induction h with
  | nil => exact ⟨0, fun x hx => by cases hx⟩
  | cons y ys ih =>
    obtain ⟨e, he⟩ := ih
    refine ⟨max y.1 e, ?_⟩
    intro x hx
    rcases List.mem_cons.1 hx with rfl | hx
    · exact Nat.le_max_left _ _
    · exact Nat.le_trans (he x hx) (Nat.le_max_right _ _)

/-- `C10Sys.Covers` read at an epoch beyond every snapshot of both histories -/
theorem latest_covered {w : World} (hc : C10Sys.Covers w) {a : Addr} (ha : a ≠ FM) (lp : Denom) :
    latestWeight (w.fm.hist a lp) ≤ latestWeight (w.fm.hist FM lp) := by
  obtain ⟨e1, h1⟩ := exists_bound (w.fm.hist a lp)
  obtain ⟨e2, h2⟩ := exists_bound (w.fm.hist FM lp)
  have := hc lp [a] (by simp) (by simpa using fun e => ha e.symm) (max e1 e2)
  rw [WSys.weightAt_eq_latest h2 (Nat.le_max_right _ _)] at this
  have hs : C10Sys.sumOver [a] (fun u => Spec.weightAt (w.fm.hist u lp) (max e1 e2)) =
      Spec.weightAt (w.fm.hist a lp) (max e1 e2) := by
    simp [C10Sys.sumOver]
  rw [hs, WSys.weightAt_eq_latest h1 (Nat.le_max_left _ _)] at this
  exact this

/-- a monitor with a single failing clause raises an alarm -/
theorem firstFail_false (t : String) : firstFail [(false, t)] ≠ none := by
  unfold firstFail
  simp

end MantraDex.MonSoundGL
