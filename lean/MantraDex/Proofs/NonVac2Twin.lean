/-
  Helper for `Properties/NonVacuity2.lean`: the kernel-evaluable twin of `runTx` of `Proofs/NonVacTwin.lean`
  (`NonVac.runTxK`), extended by the one further handler on the paths used there that splits the LP denom string:
  `withdrawLiquidity` (`isFactoryToken lp`).  Same recipe: verbatim copies with the callee replaced by its twin,
  each proved EQUAL to the original (`runTxK2_eq : @runTxK2 = @runTx`); proof devices only.

  `of_eval`: from an evaluation (`decide +kernel`) of an observation of the twin's result to the existence of an
  accepted run of `runTx` with that observation.
-/
import MantraDex.Model.System
import MantraDex.Proofs.NonVacTwin

set_option linter.unusedSimpArgs false
set_option linter.unusedVariables false

namespace MantraDex.NonVac2
open MantraDex MantraDex.NonVac

def withdrawLiquidityK (s : PmState) (env : PmEnv) (sender : Addr) (funds : List Coin)
    (poolId : String) : R (PmState × Response) := do
  let pool ← s.getPool poolId
  if !pool.status.withdrawals then .error .disabled
  let lp := pool.lpDenom
  let amount ← mustPay funds lp
  if !isFactoryTokenK lp then .error .other
  let total := env.supply lp
  let ratio ← orPanic (decFromRatio U256_MAX amount total)
  if ratio > ONE18 then .error .invalidInput
  let refunds ← pool.assets.mapM fun a => do
    let r ← mulRatio U128_MAX a.amount amount total
    pure (⟨a.denom, r⟩ : Coin)
  let refunds := refunds.filter (·.amount > 0)
  let assets' ← refunds.foldlM (fun as r => do
    let i ← match findIdx (fun c : Coin => c.denom == r.denom) as with
      | some i => pure i | none => .error .mismatch
    let c ← getD? as i
    let a ← ckSub c.amount r.amount
    pure (setAmount as i a)) pool.assets
  let pool' := { pool with assets := assets' }
  pure (s.savePool pool', Response.ofMsgs [.bankSend sender refunds, .tfBurn ⟨lp, amount⟩] [
    ("action", "withdraw_liquidity"), ("withdrawn_shares", toString amount),
    ("pool_reserves", reservesAttr pool')])

theorem withdrawLiquidityK_eq : @withdrawLiquidityK = @withdrawLiquidity := by
  funext s env sender funds pid
  unfold withdrawLiquidityK withdrawLiquidity
  rw [isFactoryTokenK_eq] <;> rfl

def pmExecuteK2 (s : PmState) (env : PmEnv) (sender : Addr) (funds : List Coin) (m : PmMsg) :
    R (PmState × Response) :=
  match m with
  | .withdrawLiquidity pid => withdrawLiquidityK s env sender funds pid
  | m => pmExecuteK s env sender funds m

theorem pmExecuteK2_eq : @pmExecuteK2 = @pmExecute := by
  funext s env sender funds m
  unfold pmExecuteK2
  cases m <;> simp only [pmExecuteK_eq, withdrawLiquidityK_eq] <;> rfl

def callExecuteK2 (w : World) (c : Addr) (sender : Addr) (funds : List Coin) (m : ContractMsg) :
    R (World × Response) :=
  match m with
  | .pm pm => if c != PM then .error .other else do
      let (s, r) ← pmExecuteK2 w.pm w.pmEnv sender funds pm
      pure ({ w with pm := s }, r)
  | m => callExecuteK w c sender funds m

theorem callExecuteK2_eq : @callExecuteK2 = @callExecute := by
  funext w c sender funds m
  unfold callExecuteK2
  cases m <;> simp only [callExecuteK_eq, pmExecuteK2_eq] <;> rfl

mutual
def execMsgK2 (fuel : Nat) (w : World) (sender : Addr) (m : Msg) : R World :=
  match fuel with
  | 0 => .error .other
  | fuel + 1 =>
    match m with
    | .bankSend to coins => do
      let b ← w.bank.send sender to coins
      pure { w with bank := b }
    | .bankBurn coins => do
      let b ← w.bank.burn sender coins
      pure { w with bank := b }
    | .tfCreateDenom _ => do
      let b ← w.bank.burn sender w.tfFees
      pure { w with bank := b }
    | .tfMint coin to => do
      let b ← w.bank.mint to [coin]
      pure { w with bank := b }
    | .tfBurn coin => do
      let b ← w.bank.burn sender [coin]
      pure { w with bank := b }
    | .wasmExec c msg funds =>
      if !isContract c then .error .other else do
      let w1 ← if funds.isEmpty then pure w else do
        let b ← w.bank.send sender c funds
        pure { w with bank := b }
      let (w2, resp) ← callExecuteK2 w1 c sender funds msg
      execSubsK2 fuel w2 c resp.msgs

def execSubsK2 (fuel : Nat) (w : World) (contract : Addr) (subs : List SubMsg) : R World :=
  match fuel with
  | 0 => .error .other
  | fuel + 1 =>
    match subs with
    | [] => .ok w
    | sm :: rest =>
      match execMsgK2 fuel w contract sm.msg with
      | .ok w' =>
        if sm.replyOn.onSuccess then do
          let (w'', resp) ← callReply w' contract sm.id
          let w3 ← execSubsK2 fuel w'' contract resp.msgs
          execSubsK2 fuel w3 contract rest
        else execSubsK2 fuel w' contract rest
      | .error e =>
        if sm.replyOn.onError then do
          let wr := { w with bank := { w.bank with calls := w.bank.calls + sm.msg.callsWhenFailed } }
          let (w'', resp) ← callReply wr contract sm.id
          let w3 ← execSubsK2 fuel w'' contract resp.msgs
          execSubsK2 fuel w3 contract rest
        else .error e
end

def runTxK2 (w : World) (tx : Tx) (failAt : Option Nat := none) : R World :=
  let w0 := { w with bank := { w.bank with calls := 0, failAt := failAt } }
  match tx with
  | .exec sender c msg funds => execMsgK2 FUEL w0 sender (.wasmExec c msg funds)
  | .send frm to coins => execMsgK2 FUEL w0 frm (.bankSend to coins)
  | .advance ns => .ok { w with nowNs := w.nowNs + ns }

def stepK2 (w : World) (tx : Tx) (failAt : Option Nat := none) : World :=
  match runTxK2 w tx failAt with
  | .ok w' => w'
  | .error _ => w

theorem execK2_eq (n : Nat) :
    (∀ w sender m, execMsgK2 n w sender m = execMsg n w sender m) ∧
    (∀ w c subs, execSubsK2 n w c subs = execSubs n w c subs) := by
  induction n with
  | zero =>
    constructor
    · intro w sender m; rw [execMsgK2, execMsg]
    · intro w c subs; rw [execSubsK2, execSubs]
  | succ n ih =>
    obtain ⟨ihM, ihS⟩ := ih
    constructor
    · intro w sender m
      cases m <;> rw [execMsgK2, execMsg] <;> simp only [callExecuteK2_eq, ihS] <;> try rfl
    · intro w c subs
      cases subs <;> rw [execSubsK2, execSubs] <;> simp only [ihM, ihS] <;> try rfl

theorem runTxK2_eq : @runTxK2 = @runTx := by
  funext w tx k
  unfold runTxK2 runTx
  cases tx <;> simp only [(execK2_eq FUEL).1] <;> try rfl

theorem stepK2_eq : @stepK2 = @step := by
  funext w tx k
  unfold stepK2 step
  rw [runTxK2_eq] <;> rfl

/-- from an evaluation of an observation `f` on the twin to an accepted run of `runTx` with that observation -/
theorem of_eval {α : Type} {w : World} {tx : Tx} {k : Option Nat} {f : World → α} {v : α}
    (h : ((runTxK2 w tx k).toOption.map f) = some v) :
    ∃ w', runTx w tx k = .ok w' ∧ f w' = v := by
  rw [runTxK2_eq] at h
  cases hr : runTx w tx k with
  | error e => rw [hr] at h; cases h
  | ok w' =>
    rw [hr] at h
    simp only [Except.toOption, Option.map_some, Option.some.injEq] at h
    exact ⟨w', rfl, h⟩

/-- the error of a refused computation -/
def errOf {α : Type} : R α → Option Err
  | .error e => some e
  | .ok _ => none

theorem errOf_some {α : Type} {r : R α} {e : Err} (h : errOf r = some e) : r = .error e := by
  cases r with
  | error e' => simp only [errOf, Option.some.injEq] at h; rw [h]
  | ok a => cases h

/-- from an evaluation on the twin to a refusal of `runTx` -/
theorem refused_of_eval {w : World} {tx : Tx} {k : Option Nat} {e : Err}
    (h : errOf (runTxK2 w tx k) = some e) : runTx w tx k = .error e := by
  rw [runTxK2_eq] at h
  exact errOf_some h

/-- an observation of a pool of a world: the fields the theorems speak about -/
def poolView (w : World) (pid : String) : Option (Denom × List Coin × PoolType) :=
  (w.pm.getPool pid).toOption.map fun p => (p.lpDenom, p.assets, p.ptype)

theorem poolView_some {w : World} {pid : String} {lp : Denom} {as : List Coin} {pt : PoolType}
    (h : poolView w pid = some (lp, as, pt)) :
    ∃ p, w.pm.getPool pid = .ok p ∧ p.lpDenom = lp ∧ p.assets = as ∧ p.ptype = pt := by
  unfold poolView at h
  cases hg : w.pm.getPool pid with
  | error e => rw [hg] at h; cases h
  | ok p =>
    rw [hg] at h
    simp only [Except.toOption, Option.map_some, Option.some.injEq, Prod.mk.injEq] at h
    exact ⟨p, rfl, h.1, h.2.1, h.2.2⟩

end MantraDex.NonVac2
