/-
  `assertOperations` gives consecutive denoms; the fold of `simulateSwapOpsFull` succeeds whenever the chain of
  simulations does; its five fee lists only mention the hops' output denoms, so that `aggregateCoins` cannot
  overflow when no denom is produced twice.
-/
import MantraDex.Model.System
import MantraDex.Model.Queries
import MantraDex.Proofs.NumLemmas
import MantraDex.Proofs.ProvideLemmas
import MantraDex.Proofs.QSysQuery
import MantraDex.Properties.C12

set_option linter.unusedSimpArgs false
set_option linter.unusedVariables false

namespace MantraDex.QSys
open MantraDex

/-! ### `assert_operations` -/

theorem assertGo_chain (ops : List SwapOp) : ∀ (prev : Denom), assertOperations.go prev ops = .ok () →
    (match ops with | [] => True | op :: _ => op.tokenIn = prev) ∧
    (∀ i, ∀ h : i + 1 < ops.length, (ops[i]'(by omega)).tokenOut = (ops[i + 1]'h).tokenIn) := by
  induction ops with
  | nil =>
    intro prev _
    exact ⟨trivial, fun i h => by simp at h⟩
  | cons x xs ih =>
    intro prev h
    unfold assertOperations.go at h
    split at h
    · cases h
    · rename_i hne
      have hx : x.tokenIn = prev := by simpa using hne
      obtain ⟨h1, h2⟩ := ih x.tokenOut h
      refine ⟨hx, ?_⟩
      intro i hi
      cases i with
      | zero =>
        cases xs with
        | nil => simp at hi
        | cons y ys => simpa using h1.symm
      | succ j =>
        have := h2 j (by simp only [List.length_cons] at hi; omega)
        simpa using this

theorem assertOperations_chain {ops : List SwapOp} (h : assertOperations ops = .ok ()) :
    ∀ i, ∀ h : i + 1 < ops.length, (ops[i]'(by omega)).tokenOut = (ops[i + 1]'h).tokenIn := by
  unfold assertOperations at h
  cases ops with
  | nil => cases h
  | cons o rest => exact (assertGo_chain _ _ h).2

/-! ### the fold succeeds when the chain does -/

theorem simFold_of_chain (s : PmState) (ops : List SwapOp) (acc : RouteSim) (n : Nat)
    (h : C12.simChain s ops acc.amount = .ok n) :
    ∃ r0, ops.foldlM (simStep s) acc = .ok r0 ∧ r0.amount = n := by
  induction ops generalizing acc with
  | nil =>
    rw [C12.simChain] at h
    cases h
    exact ⟨acc, rfl, rfl⟩
  | cons op ops ih =>
    rw [C12.simChain] at h
    obtain ⟨c, hc, h⟩ := bind_ok.mp h
    obtain ⟨r0, h0, hr⟩ := ih
      { amount := c.ret, slippage := pushPos acc.slippage c.slippage op.tokenOut,
        swapFees := pushPos acc.swapFees c.swapFee op.tokenOut,
        protocolFees := pushPos acc.protocolFees c.protocolFee op.tokenOut,
        burnFees := pushPos acc.burnFees c.burnFee op.tokenOut,
        extraFees := pushPos acc.extraFees c.extraFees op.tokenOut } h
    refine ⟨r0, ?_, hr⟩
    simp only [List.foldlM_cons]
    have : simStep s acc op = .ok
      { amount := c.ret, slippage := pushPos acc.slippage c.slippage op.tokenOut,
        swapFees := pushPos acc.swapFees c.swapFee op.tokenOut,
        protocolFees := pushPos acc.protocolFees c.protocolFee op.tokenOut,
        burnFees := pushPos acc.burnFees c.burnFee op.tokenOut,
        extraFees := pushPos acc.extraFees c.extraFees op.tokenOut } := by
      unfold simStep
      rw [hc]
      rfl
    rw [this]
    exact h0

/-- `simulateSwapOpsFull` in terms of the un-aggregated fold -/
def aggregateSim (r : RouteSim) : R RouteSim := do
  let a ← aggregateCoins r.slippage
  let b ← aggregateCoins r.swapFees
  let c ← aggregateCoins r.protocolFees
  let d ← aggregateCoins r.burnFees
  let e ← aggregateCoins r.extraFees
  pure { r with slippage := a, swapFees := b, protocolFees := c, burnFees := d, extraFees := e }

theorem simulateSwapOpsFull_eq (s : PmState) (amount : Nat) (ops : List SwapOp) (r0 : RouteSim)
    (hne : ops ≠ [])
    (h0 : ops.foldlM (simStep s)
      { amount := amount, slippage := [], swapFees := [], protocolFees := [], burnFees := [], extraFees := [] }
      = .ok r0) :
    simulateSwapOpsFull s amount ops = aggregateSim r0 := by
  unfold simulateSwapOpsFull
  have he : ops.isEmpty = false := by
    cases ops with
    | nil => exact absurd rfl hne
    | cons _ _ => rfl
  simp only [he, Bool.false_eq_true, if_false]
  show (List.foldlM (simStep s) _ ops >>= _) = _
  rw [h0]
  rfl

/-! ### `aggregateCoins` on pairwise distinct denoms cannot fail -/

theorem insertCoin_fresh_ex {c : Coin} {xs : List Coin} (hc : c.denom ∉ xs.map (·.denom)) :
    ∃ r, insertCoin c xs = .ok r := by
  induction xs with
  | nil => exact ⟨[c], rfl⟩
  | cons x xs ih =>
    simp only [List.map_cons, List.mem_cons, not_or] at hc
    unfold insertCoin
    have hne : (c.denom == x.denom) = false := by simpa using hc.1
    simp only [hne, Bool.false_eq_true, ↓reduceIte]
    split
    · exact ⟨_, rfl⟩
    · obtain ⟨r, hr⟩ := ih hc.2
      rw [hr]
      exact ⟨_, rfl⟩

theorem foldlM_insertCoin_ex (cs : List Coin) {acc : List Coin}
    (hnd : (cs.map (·.denom)).Nodup) (hacc : ∀ c ∈ cs, c.denom ∉ acc.map (·.denom)) :
    ∃ r, cs.foldlM (fun acc c => insertCoin c acc) acc = .ok r := by
  induction cs generalizing acc with
  | nil => exact ⟨acc, rfl⟩
  | cons c cs ih =>
    simp only [List.map_cons, List.nodup_cons] at hnd
    obtain ⟨a1, ha1⟩ := insertCoin_fresh_ex (hacc c (List.mem_cons_self ..))
    obtain ⟨_, h2⟩ := insertCoin_fresh (hacc c (List.mem_cons_self ..)) ha1
    obtain ⟨r, hr⟩ := ih (acc := a1) hnd.2 (by
      intro c' hc'
      rw [h2]
      rintro (h | h)
      · exact hnd.1 (h ▸ List.mem_map_of_mem hc')
      · exact hacc c' (List.mem_cons_of_mem _ hc') h)
    refine ⟨r, ?_⟩
    simp only [List.foldlM_cons, ha1]
    exact hr

theorem aggregateCoins_nodup_ex {cs : List Coin} (hnd : (cs.map (·.denom)).Nodup) :
    ∃ r, aggregateCoins cs = .ok r :=
  foldlM_insertCoin_ex cs hnd (by simp)

/-! ### the fee lists of the fold only mention output denoms, in hop order -/

theorem pushPos_denoms (l : List Coin) (a : Nat) (d : Denom) :
    (pushPos l a d).map (·.denom) = l.map (·.denom) ++ (if a > 0 then [d] else []) := by
  unfold pushPos
  split <;> simp

theorem fold_field (s : PmState) (f : RouteSim → List Coin)
    (hf : ∀ acc op acc1, simStep s acc op = .ok acc1 → ∃ a, f acc1 = pushPos (f acc) a op.tokenOut)
    (ops : List SwapOp) (acc r : RouteSim) (h : ops.foldlM (simStep s) acc = .ok r) :
    ∃ l, l.Sublist (ops.map (·.tokenOut)) ∧ (f r).map (·.denom) = (f acc).map (·.denom) ++ l := by
  induction ops generalizing acc with
  | nil =>
    simp only [List.foldlM_nil, pure_ok] at h
    subst h
    exact ⟨[], List.Sublist.slnil, by simp⟩
  | cons op ops ih =>
    simp only [List.foldlM_cons] at h
    obtain ⟨acc1, h1, h⟩ := bind_ok.mp h
    obtain ⟨a, ha⟩ := hf acc op acc1 h1
    obtain ⟨l, hl, he⟩ := ih acc1 h
    rw [he, ha, pushPos_denoms, List.append_assoc]
    refine ⟨_, ?_, rfl⟩
    simp only [List.map_cons]
    split
    · exact List.Sublist.cons_cons _ hl
    · exact List.Sublist.cons _ hl

theorem simStep_inv {s : PmState} {acc acc1 : RouteSim} {op : SwapOp} (h : simStep s acc op = .ok acc1) :
    ∃ c : SwapComputation, acc1 =
      { amount := c.ret, slippage := pushPos acc.slippage c.slippage op.tokenOut,
        swapFees := pushPos acc.swapFees c.swapFee op.tokenOut,
        protocolFees := pushPos acc.protocolFees c.protocolFee op.tokenOut,
        burnFees := pushPos acc.burnFees c.burnFee op.tokenOut,
        extraFees := pushPos acc.extraFees c.extraFees op.tokenOut } := by
  unfold simStep at h
  obtain ⟨c, _, h⟩ := bind_ok.mp h
  simp only [pure_ok] at h
  exact ⟨c, h⟩

theorem aggregateSim_nodup_ex (s : PmState) (amount : Nat) (ops : List SwapOp) (r0 : RouteSim)
    (hnd : (ops.map (·.tokenOut)).Nodup)
    (h0 : ops.foldlM (simStep s)
      { amount := amount, slippage := [], swapFees := [], protocolFees := [], burnFees := [], extraFees := [] }
      = .ok r0) :
    ∃ r, aggregateSim r0 = .ok r ∧ r.amount = r0.amount := by
  have key : ∀ (f : RouteSim → List Coin),
      (∀ acc op acc1, simStep s acc op = .ok acc1 → ∃ a, f acc1 = pushPos (f acc) a op.tokenOut) →
      f { amount := amount, slippage := [], swapFees := [], protocolFees := [], burnFees := [], extraFees := [] } = [] →
      ∃ r, aggregateCoins (f r0) = .ok r := by
    intro f hf hinit
    obtain ⟨l, hl, he⟩ := fold_field s f hf ops _ r0 h0
    rw [hinit] at he
    simp only [List.map_nil, List.nil_append] at he
    apply aggregateCoins_nodup_ex
    rw [he]
    exact List.Nodup.sublist hl hnd
  obtain ⟨a, ha⟩ := key (·.slippage) (by
    intro acc op acc1 h; obtain ⟨c, rfl⟩ := simStep_inv h; exact ⟨_, rfl⟩) rfl
  obtain ⟨b, hb⟩ := key (·.swapFees) (by
    intro acc op acc1 h; obtain ⟨c, rfl⟩ := simStep_inv h; exact ⟨_, rfl⟩) rfl
  obtain ⟨c, hc⟩ := key (·.protocolFees) (by
    intro acc op acc1 h; obtain ⟨c, rfl⟩ := simStep_inv h; exact ⟨_, rfl⟩) rfl
  obtain ⟨d, hd⟩ := key (·.burnFees) (by
    intro acc op acc1 h; obtain ⟨c, rfl⟩ := simStep_inv h; exact ⟨_, rfl⟩) rfl
  obtain ⟨e, he⟩ := key (·.extraFees) (by
    intro acc op acc1 h; obtain ⟨c, rfl⟩ := simStep_inv h; exact ⟨_, rfl⟩) rfl
  refine ⟨{ r0 with slippage := a, swapFees := b, protocolFees := c, burnFees := d, extraFees := e }, ?_, rfl⟩
  unfold aggregateSim
  rw [ha, hb, hc, hd, he]
  rfl

end MantraDex.QSys
