/-
  The transaction tree of an accepted multi-asset, unlocked `ProvideLiquidity` (C16Tx): funds move, the
  handler adds them to the reserves, then the locked minimum (first deposit only) and the shares are minted.
-/
import MantraDex.Proofs.PoolTxLemmas
import MantraDex.Proofs.ProvideLemmas
import MantraDex.Proofs.LpSysHandlers

set_option linter.unusedSimpArgs false
set_option linter.unusedVariables false

namespace MantraDex.PoolTx
open MantraDex
open MantraDex.C01 (coinsOf amt coinsOf_cons coinsOf_nil)
open MantraDex.LpSys (Covers)

theorem mints_zero {b : Bank} {to : Addr} {coin : Coin} (h0 : coin.amount = 0) : Mints b b to [coin] := by
  refine ⟨fun x d => ?_, fun d => ?_, rfl⟩
  · rw [coinsOf_zero_amount h0]; simp
  · rw [coinsOf_zero_amount h0]; simp

/-- a successful mint of one coin mints a non-zero amount -/
theorem mint_one_ne_zero {b b' : Bank} {to : Addr} {coin : Coin} (h : b.mint to [coin] = .ok b') :
    coin.amount ≠ 0 := by
  obtain ⟨⟨r, hn⟩, _⟩ := mint_spec h
  intro h0
  simp [normalizeCoins, h0] at hn

/-- the handler's outcome in the multi-asset, unlocked branch -/
theorem provide_inv {s s' : PmState} {env : PmEnv} {sender : Addr} {funds : List Coin}
    {ls ss : Option Nat} {rc : Option Addr} {pid : String} {r : Response} {pool : PoolInfo}
    (hfunds : (funds.map (·.denom)).Nodup) (h2 : 2 ≤ funds.length) (hp : s.getPool pid = .ok pool)
    (h : provideLiquidity s env sender funds ls ss rc pid none none = .ok (s', r)) :
    ∃ (shares locked : Nat) (assets' : List Coin) (ms : List Msg),
      (∀ d, coinsOf assets' d = coinsOf pool.assets d + coinsOf funds d) ∧
      s' = s.savePool { pool with assets := assets' } ∧ r.msgs = ms.map mkSub ∧
      ((env.supply pool.lpDenom ≠ 0 ∧ locked = 0 ∧
          ms = [Msg.tfMint ⟨pool.lpDenom, shares⟩ (addrOrDefault env rc sender)]) ∨
       (env.supply pool.lpDenom = 0 ∧
          ms = [Msg.tfMint ⟨pool.lpDenom, locked⟩ env.self,
                Msg.tfMint ⟨pool.lpDenom, shares⟩ (addrOrDefault env rc sender)])) := by
  obtain ⟨deps, hagg, _⟩ := pl_agg h
  have hlen : deps.length ≠ 1 := by rw [aggregateCoins_length hfunds hagg]; omega
  obtain ⟨pool', shares, msgs0, hp', _, hfirst, htail⟩ := LpSys.pl_multi_full hagg hlen h
  rw [hp] at hp'
  cases hp'
  obtain ⟨assets', msgs1, hfold, hs', hr, hshare⟩ := LpSys.plTail_full htail
  have hcoins : ∀ d, coinsOf assets' d = coinsOf pool.assets d + coinsOf funds d := by
    intro d
    rw [C01.depositFold_coins hfold d, C01.aggregateCoins_coins hagg d]
  have hm1 : msgs1 = [Msg.tfMint ⟨pool.lpDenom, shares⟩ (addrOrDefault env rc sender)] := by
    rcases hshare with ⟨_, hm⟩ | ⟨hu, _⟩
    · exact hm
    · cases hu
  subst hm1
  by_cases h0 : env.supply pool.lpDenom = 0
  · obtain ⟨mn, _, hm0⟩ := hfirst.1 h0
    subst hm0
    exact ⟨shares, mn, assets', _, hcoins, hs', hr, Or.inr ⟨h0, rfl⟩⟩
  · have hm0 := hfirst.2 h0
    subst hm0
    exact ⟨shares, 0, assets', _, hcoins, hs', hr, Or.inl ⟨h0, rfl, rfl⟩⟩

/-- the transaction tree of an accepted multi-asset, unlocked `ProvideLiquidity` -/
theorem provide_run {w w' : World} {u : Addr} {ls ss : Option Nat} {rc : Option Addr} {pid : String}
    {funds : List Coin} {pool : PoolInfo}
    (hcov : Covers w.bank) (hfunds : (funds.map (·.denom)).Nodup) (h2 : 2 ≤ funds.length)
    (hp : w.pm.getPool pid = .ok pool)
    (h : runTx w (.exec u PM (.pm (.provideLiquidity ls ss rc pid none none)) funds) = .ok w') :
    ∃ (shares locked : Nat) (pool' : PoolInfo) (b1 b2 : Bank),
      w'.pm.getPool pid = .ok pool' ∧ pool'.denoms = pool.denoms ∧ pool'.lpDenom = pool.lpDenom ∧
      (∀ d, coinsOf pool'.assets d = coinsOf pool.assets d + coinsOf funds d) ∧
      (w.bank.supply pool.lpDenom ≠ 0 → locked = 0) ∧ shares ≠ 0 ∧ w'.fm = w.fm ∧
      Moves { w.bank with calls := 0, failAt := none } b1 u PM funds ∧
      (∀ d, b1.supply d = w.bank.supply d) ∧
      Mints b1 b2 PM [⟨pool.lpDenom, locked⟩] ∧
      Mints b2 w'.bank (addrOrDefault w.pmEnv rc u) [⟨pool.lpDenom, shares⟩] := by
  obtain ⟨b1, s, r, ms, b3, hb, hx, hms, hrun, rfl⟩ := pm_leaf_run h (by
    intro b s r hx
    simp only [pmExecute] at hx
    obtain ⟨_, _, _, ms, _, _, hr, hcase⟩ := provide_inv hfunds h2 hp hx
    refine ⟨ms, hr, ?_⟩
    intro x hx
    rcases hcase with ⟨_, _, rfl⟩ | ⟨_, rfl⟩
    · simp only [List.mem_cons, List.not_mem_nil, or_false] at hx
      subst hx; trivial
    · simp only [List.mem_cons, List.not_mem_nil, or_false] at hx
      rcases hx with rfl | rfl <;> trivial)
  simp only [pmExecute] at hx
  obtain ⟨shares, locked, assets', ms', hcoins, hs', hr, hcase⟩ := provide_inv hfunds h2 hp hx
  rw [hr] at hms
  have := map_mkSub_inj hms
  subst this
  obtain ⟨mv0, c1, sup1⟩ := funds_moved (covers_reset none hcov) hb
  have hsupeq : ({ w with bank := b1 } : World).pmEnv.supply pool.lpDenom = w.bank.supply pool.lpDenom :=
    sup1 pool.lpDenom
  rw [hsupeq] at hcase
  have hid : pool.id = pid := C17.getPool_id hp
  have hget : s.getPool pid = .ok { pool with assets := assets' } := by
    rw [hs', ← hid]
    exact C17.getPool_savePool_self _ _
  rcases hcase with ⟨hne, rfl, rfl⟩ | ⟨h0, rfl⟩
  · simp only [bankRun, bankStep] at hrun
    obtain ⟨b2, hm, hrun⟩ := bind_ok.mp hrun
    cases hrun
    exact ⟨shares, 0, _, b1, b1, hget, rfl, rfl, hcoins, fun _ => rfl, mint_one_ne_zero hm, rfl, mv0, sup1,
      mints_zero rfl, (mint_spec hm).2⟩
  · simp only [bankRun, bankStep] at hrun
    obtain ⟨b2, hm1, hrun⟩ := bind_ok.mp hrun
    obtain ⟨b3', hm2, hrun⟩ := bind_ok.mp hrun
    cases hrun
    exact ⟨shares, locked, _, b1, b2, hget, rfl, rfl, hcoins, fun hne => absurd h0 hne, mint_one_ne_zero hm2, rfl,
      mv0, sup1, (mint_spec hm1).2, (mint_spec hm2).2⟩

end MantraDex.PoolTx
