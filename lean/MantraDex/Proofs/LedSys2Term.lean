/-
  C07Sys, part 8 (entry-free): completeness of the terms of `calculate_rewards` — every epoch of the window
  that lies in a listed farm's life and has a non-zero total produces its term (`term_mem`), and the window
  start that produced a term (`term_startFrom`).
-/
import MantraDex.Proofs.LedSys2Err

set_option linter.unusedSimpArgs false
set_option linter.unusedVariables false

namespace MantraDex.LedSys
open MantraDex

/-- a farm that has started is always processed -/
theorem crStep_ok2 {s : FmState} {env : FmEnv} {lp : Denom} {recv : Addr} {u : Nat} {last : Option Nat}
    {acc acc' : C05.CrAcc} {f : Farm} (hns : ¬ f.startEpoch > u)
    (h : FH.crStep s env lp recv u last acc f = .ok acc') :
    ∃ startFrom uw cw terms, StartFrom s recv f last startFrom ∧
      computeAddressWeights (s.hist recv lp) startFrom u = .ok uw ∧
      computeContractWeights (s.hist env.self lp) startFrom u = .ok cw ∧
      farmRewardTerms f uw cw startFrom u = .ok terms ∧
      acc'.2.2 = acc.2.2 ++ terms.map fun (t : Nat × Nat) => (f.id, t.1, t.2) := by
  unfold FH.crStep at h
  rw [if_neg hns] at h
  cases last with
  | some l =>
    simp only [pure_bind, bind_ok, pure_ok] at h
    obtain ⟨uw, huw, cw, hcw, terms, hterms, sum, hsum, rfl⟩ := h
    exact ⟨l + 1, uw, cw, terms, Or.inl ⟨l, rfl, rfl⟩, huw, hcw, hterms, rfl⟩
  | none =>
    simp only at h
    cases he : histEarliest (s.hist recv f.lpDenom) with
    | none => rw [he] at h; simp only [FH.error_bind] at h; cases h
    | some p =>
      obtain ⟨e0, w0⟩ := p
      rw [he] at h
      simp only [pure_bind, bind_ok, pure_ok] at h
      obtain ⟨uw, huw, cw, hcw, terms, hterms, sum, hsum, rfl⟩ := h
      exact ⟨e0, uw, cw, terms, Or.inr ⟨rfl, w0, he⟩, huw, hcw, hterms, rfl⟩

theorem crStep_terms_mono {s : FmState} {env : FmEnv} {lp : Denom} {recv : Addr} {u : Nat} {last : Option Nat}
    {acc acc' : C05.CrAcc} {f : Farm} (h : FH.crStep s env lp recv u last acc f = .ok acc') :
    ∀ t ∈ acc.2.2, t ∈ acc'.2.2 := by
  rcases crStep_ok h with rfl | ⟨_, _, _, _, _, _, _, _, _, _, rfl⟩
  · exact fun t ht => ht
  · exact fun t ht => List.mem_append_left _ ht

theorem crFold_terms_mono {s : FmState} {env : FmEnv} {lp : Denom} {recv : Addr} {u : Nat} {last : Option Nat} :
    ∀ (fs : List Farm) (acc acc' : C05.CrAcc), fs.foldlM (FH.crStep s env lp recv u last) acc = .ok acc' →
    ∀ t ∈ acc.2.2, t ∈ acc'.2.2 := by
  intro fs
  induction fs with
  | nil => intro acc acc' h; simp only [List.foldlM_nil, pure_ok] at h; subst h; exact fun t ht => ht
  | cons f fs ih =>
    intro acc acc' h t ht
    simp only [List.foldlM_cons, bind_ok] at h
    obtain ⟨a1, h1, h2⟩ := h
    exact ih a1 acc' h2 t (crStep_terms_mono h1 t ht)

theorem startFrom_unique {s : FmState} {recv : Addr} {f : Farm} {last : Option Nat} {a b : Nat}
    (ha : StartFrom s recv f last a) (hb : StartFrom s recv f last b) : a = b := by
  rcases ha with ⟨l, h1, rfl⟩ | ⟨h1, w, h2⟩ <;> rcases hb with ⟨l', h3, rfl⟩ | ⟨h3, w', h4⟩
  · rw [h1] at h3; cases h3; rfl
  · rw [h1] at h3; cases h3
  · rw [h1] at h3; cases h3
  · rw [h2] at h4; cases h4; rfl

/-- one farm: the term of an epoch of the window -/
theorem crStep_term_mem {s : FmState} {env : FmEnv} {lp : Denom} {recv : Addr} {u : Nat} {last : Option Nat}
    {acc acc' : C05.CrAcc} {f : Farm} (hlp : f.lpDenom = lp)
    (hsu : Farm.Asc (s.hist recv lp)) (hst : Farm.Asc (s.hist env.self lp))
    (hcomp : ∀ l, last = some l → ∀ x ∈ s.hist recv lp, l ≤ x.1)
    (h : FH.crStep s env lp recv u last acc f = .ok acc') {sf e : Nat} (hsf : StartFrom s recv f last sf)
    (h1 : sf ≤ e) (h2 : e ≤ u) (h3 : f.startEpoch ≤ e) (h4 : e < f.endEpoch)
    (hT : Spec.weightAt (s.hist env.self lp) e ≠ 0) :
    (f.id, e, f.emissionRate * Spec.weightAt (s.hist recv lp) e / Spec.weightAt (s.hist env.self lp) e) ∈ acc'.2.2 := by
  obtain ⟨sf', uw, cw, terms, hsf', huw, hcw, hterms, hacc⟩ := crStep_ok2 (by omega) h
  have := startFrom_unique hsf hsf'
  subst this
  have hno : ∀ x ∈ s.hist recv lp, sf - 1 ≤ x.1 := by
    rcases hsf with ⟨l, hl, rfl⟩ | ⟨hl, w, he⟩
    · intro x hx; have := hcomp l hl x hx; omega
    · rw [hlp] at he
      obtain ⟨xs, hxs⟩ := Farm.histGet_head he
      rw [hxs] at hsu ⊢
      intro x hx
      simp only [List.mem_cons] at hx
      rcases hx with rfl | hx
      · simp only; omega
      · have := (List.pairwise_cons.1 hsu).1 x hx; omega
  have hu := Farm.address_scan hsu hno huw e (by omega) h2
  have hc := Farm.contract_scan hst hcw e h1 h2
  obtain ⟨untilF, k1, k2, k3, k4, hterms', _⟩ := Farm.farmRewardTerms_ok hterms
  rw [hacc]
  apply List.mem_append_right
  apply List.mem_map.2
  refine ⟨(e, f.emissionRate * Spec.weightAt (s.hist recv lp) e / Spec.weightAt (s.hist env.self lp) e), ?_, rfl⟩
  rw [hterms']
  apply List.mem_filterMap.2
  have hle : e ≤ untilF := by
    by_cases hh : f.endEpoch ≤ u
    · have := k3 hh; omega
    · have := k4 (by omega); omega
  refine ⟨e - sf, List.mem_range.2 (by omega), ?_⟩
  unfold Farm.termOf
  have hes : sf + (e - sf) = e := by omega
  simp only [hes]
  rw [if_neg (by omega), hu]
  simp only
  rw [hc, if_neg hT]

/-- completeness: every listed farm contributes the term of every epoch of the window inside its life
    with a non-zero total -/
theorem term_mem {s : FmState} {env : FmEnv} {lp : Denom} {recv : Addr} {u : Nat} {rc : RewardsCalc}
    (hsu : Farm.Asc (s.hist recv lp)) (hst : Farm.Asc (s.hist env.self lp))
    (hcomp : ∀ l, s.lastClaimed recv = some l → ∀ x ∈ s.hist recv lp, l ≤ x.1)
    (h : calculateRewards s env lp recv u = .ok rc) (hne : ∀ l, s.lastClaimed recv = some l → l ≠ u)
    {f : Farm} (hf : f ∈ s.farmsByLp lp s.config.maxConcurrentFarms) {sf e : Nat}
    (hsf : StartFrom s recv f (s.lastClaimed recv) sf)
    (h1 : sf ≤ e) (h2 : e ≤ u) (h3 : f.startEpoch ≤ e) (h4 : e < f.endEpoch)
    (hT : Spec.weightAt (s.hist env.self lp) e ≠ 0) :
    (f.id, e, f.emissionRate * Spec.weightAt (s.hist recv lp) e / Spec.weightAt (s.hist env.self lp) e) ∈ rc.terms := by
  have hnotearly : ∃ r agg,
      (s.farmsByLp lp s.config.maxConcurrentFarms).foldlM
        (FH.crStep s env lp recv u (s.lastClaimed recv)) ([], [], []) = .ok r ∧ rc = ⟨agg, r.2.1, r.2.2⟩ := by
    rw [FH.calculateRewards_eq] at h
    simp only at h
    have tail : ∀ (early : Bool), (if early = true then (pure ⟨[], [], []⟩ : R RewardsCalc) else do
        let r ← (s.farmsByLp lp s.config.maxConcurrentFarms).foldlM
          (FH.crStep s env lp recv u (s.lastClaimed recv)) ([], [], [])
        let agg ← aggregateCoins r.1
        pure ⟨agg, r.2.1, r.2.2⟩) = .ok rc → early = false → ∃ r agg,
        (s.farmsByLp lp s.config.maxConcurrentFarms).foldlM
          (FH.crStep s env lp recv u (s.lastClaimed recv)) ([], [], []) = .ok r ∧ rc = ⟨agg, r.2.1, r.2.2⟩ := by
      intro early h he
      subst he
      simp only [Bool.false_eq_true, if_false, bind_ok, pure_ok] at h
      obtain ⟨r, hr, agg, _, rfl⟩ := h
      exact ⟨r, agg, hr, rfl⟩
    cases hl : s.lastClaimed recv with
    | none =>
      rw [hl] at h tail
      simp only [pure_bind] at h
      exact tail _ h rfl
    | some l =>
      rw [hl] at h tail
      simp only at h
      split at h
      · simp only [FH.error_bind] at h; cases h
      · simp only [pure_bind] at h
        have : (u == l) = false := by
          have := hne l hl
          simp; exact fun e => this e.symm
        exact tail _ h this
  obtain ⟨r, agg, hr, rfl⟩ := hnotearly
  simp only
  -- split the farm list at `f`
  have key : ∀ (fs : List Farm) (acc acc' : C05.CrAcc), (∀ g ∈ fs, g.lpDenom = lp) → f ∈ fs →
      fs.foldlM (FH.crStep s env lp recv u (s.lastClaimed recv)) acc = .ok acc' →
      (f.id, e, f.emissionRate * Spec.weightAt (s.hist recv lp) e / Spec.weightAt (s.hist env.self lp) e) ∈ acc'.2.2 := by
    intro fs
    induction fs with
    | nil => intro _ _ _ hm; cases hm
    | cons g fs ih =>
      intro acc acc' hlps hm hfold
      simp only [List.foldlM_cons, bind_ok] at hfold
      obtain ⟨a1, hg, hrest⟩ := hfold
      rcases List.mem_cons.1 hm with rfl | hm'
      · exact crFold_terms_mono fs a1 acc' hrest _
          (crStep_term_mem (hlps f List.mem_cons_self) hsu hst hcomp hg hsf h1 h2 h3 h4 hT)
      · exact ih a1 acc' (fun g' hg' => hlps g' (List.mem_cons_of_mem _ hg')) hm' hrest
  exact key _ _ _ (fun g hg => (farmsByLp_mem hg).2) hf hr

/-- the window start behind a term -/
theorem term_startFrom {s : FmState} {env : FmEnv} {lp : Denom} {recv : Addr} {u : Nat} {rc : RewardsCalc}
    (h : calculateRewards s env lp recv u = .ok rc) :
    ∀ t ∈ rc.terms, ∃ f ∈ s.farmsByLp lp s.config.maxConcurrentFarms, f.id = t.1 ∧
      ∃ sf, StartFrom s recv f (s.lastClaimed recv) sf ∧ sf ≠ 0 ∧ sf ≤ t.2.1 ∧
        (∀ l, s.lastClaimed recv = some l → l ≠ u) := by
  have hneq : rc.terms ≠ [] → ∀ l, s.lastClaimed recv = some l → l ≠ u := by
    intro hne l hl e
    subst e
    rw [(Farm.reclaim (env := env) (lp := lp) hl).1] at h
    cases h
    exact hne rfl
  rcases (calculateRewards_ok h).2 with rfl | ⟨r, agg, hr, _, rfl⟩
  · intro t ht; cases ht
  · simp only at hneq ⊢
    intro t ht
    have hne := hneq (by intro e; rw [e] at ht; cases ht)
    have := foldlM_inv_mem (fun (acc : C05.CrAcc) => ∀ t ∈ acc.2.2,
        ∃ f ∈ s.farmsByLp lp s.config.maxConcurrentFarms, f.id = t.1 ∧
          ∃ sf, StartFrom s recv f (s.lastClaimed recv) sf ∧ sf ≠ 0 ∧ sf ≤ t.2.1) _ _ (by
      intro b f b' hf hb hstep
      rcases crStep_ok hstep with rfl | ⟨sf, uw, cw, terms, sum, hsf, huw, _, hterms, _, rfl⟩
      · exact hb
      · intro t ht
        simp only [List.mem_append, List.mem_map] at ht
        rcases ht with ht | ⟨t0, ht0, rfl⟩
        · exact hb t ht
        · refine ⟨f, hf, rfl, sf, hsf, ?_, (Farm.farm_terms_shape hterms t0 ht0).1⟩
          intro h0
          subst h0
          unfold computeAddressWeights at huw
          simp [bind, Except.bind] at huw) _ _ (by intro t ht; cases ht) hr t ht
    obtain ⟨f, hf, hid, sf, a, b, c⟩ := this
    exact ⟨f, hf, hid, sf, a, b, c, hne⟩

end MantraDex.LedSys
