/-
  Who the farm manager's bank sends go to: the sender of the call, the farm manager's fee collector, or
  the owner of a stored farm.  Used by C02Sys (`pm_lp_balance_step_partial`): if none of these is the pool
  manager, a call of the farm manager never changes the pool manager's balances.
-/
import MantraDex.Model.System
import MantraDex.Proofs.NumLemmas
import MantraDex.Proofs.PmSysLemmas
import MantraDex.Proofs.LpSysRun

set_option linter.unusedSimpArgs false
set_option linter.unusedVariables false
set_option linter.tactic.unusedName false

namespace MantraDex.LpSys
open MantraDex

/-- not a bank send to the pool manager -/
def NotToPm (m : Msg) : Prop := ∀ to cs, m = .bankSend to cs → to ≠ PM

theorem notToPm_send {to : Addr} {cs : List Coin} (h : to ≠ PM) : NotToPm (.bankSend to cs) := by
  intro to' cs' e
  cases e
  exact h

/-! ### list helpers -/

theorem filterAuxM_mem {α : Type} (f : α → R Bool) : ∀ (as acc r : List α),
    List.filterAuxM f as acc = .ok r → ∀ x ∈ r, x ∈ as ∨ x ∈ acc := by
  intro as
  induction as with
  | nil =>
    intro acc r h x hx
    simp only [List.filterAuxM, pure_ok] at h
    subst h
    exact Or.inr hx
  | cons a as ih =>
    intro acc r h x hx
    simp only [List.filterAuxM] at h
    obtain ⟨b, hb, h⟩ := bind_ok.mp h
    rcases ih _ _ h x hx with h1 | h1
    · exact Or.inl (List.mem_cons_of_mem _ h1)
    · cases b with
      | false => exact Or.inr h1
      | true =>
        rcases List.mem_cons.1 h1 with rfl | h1
        · exact Or.inl (List.mem_cons_self ..)
        · exact Or.inr h1

theorem filterM_mem {α : Type} {f : α → R Bool} {as r : List α} (h : as.filterM f = .ok r) :
    ∀ x ∈ r, x ∈ as := by
  unfold List.filterM at h
  obtain ⟨r', hr', h⟩ := bind_ok.mp h
  simp only [pure_ok] at h
  subst h
  intro x hx
  rcases filterAuxM_mem f as [] r' hr' x (List.mem_reverse.1 hx) with h1 | h1
  · exact h1
  · cases h1

theorem uniqueOwners_fold (fs : List Farm) : ∀ (acc : List Addr) (o : Addr),
    o ∈ fs.foldl (fun acc f => if acc.contains f.owner then acc else acc ++ [f.owner]) acc →
    o ∈ acc ∨ ∃ f ∈ fs, f.owner = o := by
  induction fs with
  | nil => intro acc o h; exact Or.inl h
  | cons f fs ih =>
    intro acc o h
    rw [List.foldl_cons] at h
    rcases ih _ o h with h1 | ⟨g, hg, hgo⟩
    · split at h1
      · exact Or.inl h1
      · rcases List.mem_append.1 h1 with h1 | h1
        · exact Or.inl h1
        · simp only [List.mem_singleton] at h1
          exact Or.inr ⟨f, List.mem_cons_self .., h1.symm⟩
    · exact Or.inr ⟨g, List.mem_cons_of_mem _ hg, hgo⟩

theorem uniqueOwners_mem {fs : List Farm} {o : Addr} (h : o ∈ uniqueOwners fs) : ∃ f ∈ fs, f.owner = o := by
  unfold uniqueOwners at h
  rw [List.mem_mergeSort] at h
  rcases uniqueOwners_fold fs [] o h with h1 | h1
  · cases h1
  · exact h1

theorem farmsByLp_sub {s : FmState} {lp : Denom} {n : Nat} {f : Farm} (h : f ∈ s.farmsByLp lp n) : f ∈ s.farms := by
  unfold FmState.farmsByLp at h
  exact (List.mem_filter.1 (List.mem_of_mem_take h)).1

theorem getFarm_mem {s : FmState} {id : String} {f : Farm} (h : s.getFarm id = .ok f) : f ∈ s.farms := by
  unfold FmState.getFarm at h
  split at h
  · rename_i g hg
    cases h
    exact List.mem_of_find?_eq_some hg
  · cases h

/-! ### the handlers -/

theorem closeFarms_to (s : FmState) (fs : List Farm) (hown : ∀ f ∈ fs, f.owner ≠ PM) :
    ∀ sm ∈ (closeFarms s fs).2, NotToPm sm.msg := by
  intro sm hsm
  have h1 := (FH.closeFarms_spec s fs).1
  have : sm.msg ∈ (closeFarms s fs).2.map (·.msg) := List.mem_map_of_mem hsm
  rw [h1] at this
  obtain ⟨f, hf, hfe⟩ := List.mem_map.1 this
  rw [← hfe]
  exact notToPm_send (hown f (List.mem_filter.1 hf).1)

abbrev GoodNo {σ : Type} (x : R (σ × Response)) : Prop := C20.Good (fun _ => False) x

theorem goodNo_expandFarm {s env sender funds p} : GoodNo (expandFarm s env sender funds p) := by
  unfold expandFarm; repeat' pstep
theorem goodNo_closePosition {s env sender funds a b} : GoodNo (closePosition s env sender funds a b) := by
  unfold closePosition; repeat' pstep
theorem goodNo_fmUpdateConfig {s env sender u} : GoodNo (fmUpdateConfig s env sender u) := by
  unfold fmUpdateConfig; repeat' pstep

theorem ofMsgs_to {ms : List Msg} {attrs} (h : ∀ m ∈ ms, NotToPm m) :
    ∀ sm ∈ (Response.ofMsgs ms attrs).msgs, NotToPm sm.msg := by
  intro sm hsm
  simp only [Response.ofMsgs, List.mem_map] at hsm
  obtain ⟨m, hm, rfl⟩ := hsm
  exact h m hm

open FH in
theorem closeFarm_to {s s' : FmState} {sender funds id} {r : Response}
    (hown : ∀ f ∈ s.farms, f.owner ≠ PM)
    (h : closeFarm s sender funds id = .ok (s', r)) : ∀ sm ∈ r.msgs, NotToPm sm.msg := by
  unfold closeFarm at h
  simp only [error_bind, FH.ite_err_ok, bind_ok, pure_ok, Prod.mk.injEq] at h
  obtain ⟨_, hnp, f, hf, _, rfl, rfl⟩ := h
  apply closeFarms_to
  intro g hg
  simp only [List.mem_singleton] at hg
  subst hg
  exact hown g (getFarm_mem hf)

open FH in
theorem createFarm_to {s s' : FmState} {env sender funds p} {r : Response}
    (hs : sender ≠ PM) (hfc : s.config.feeCollector ≠ PM) (hown : ∀ f ∈ s.farms, f.owner ≠ PM)
    (h : createFarm s env sender funds p = .ok (s', r)) : ∀ sm ∈ r.msgs, NotToPm sm.msg := by
  obtain ⟨cur, flags, feeMsgs, start, end_, rate, -, -, -, -, hfm, -, -, -, -, -, rfl⟩ := createFarm_inv h
  intro sm hsm
  simp only [List.mem_append, List.mem_map] at hsm
  rcases hsm with ⟨m, hm, rfl⟩ | hsm
  · show NotToPm m
    by_cases hfee : s.config.createFarmFee.amount ≠ 0
    · rw [if_pos hfee] at hfm
      obtain ⟨paid, -, -, rfl⟩ := C11.farm_fee_messages hfee hfm
      simp only [List.mem_append, List.mem_singleton] at hm
      rcases hm with hm | rfl
      · split at hm
        · cases hm
        · simp only [List.mem_singleton] at hm
          subst hm
          exact notToPm_send hs
      · exact notToPm_send hfc
    · rw [if_neg hfee] at hfm
      simp only [pure_ok] at hfm
      subst hfm
      cases hm
  · refine closeFarms_to _ _ ?_ sm hsm
    intro f hf
    unfold cfExpired at hf
    obtain ⟨⟨g, b⟩, hgb, rfl⟩ := List.mem_map.1 hf
    have hg : g ∈ cfFarms s p := (List.of_mem_zip (List.mem_filter.1 hgb).1).1
    exact hown g (farmsByLp_sub hg)

open FH in
theorem fmClaim_to {s s' : FmState} {env sender funds u} {r : Response} (hs : sender ≠ PM)
    (h : fmClaim s env sender funds u = .ok (s', r)) : ∀ sm ∈ r.msgs, NotToPm sm.msg := by
  rw [fmClaim_eq] at h
  simp only [error_bind, FH.ite_err_ok, bind_ok, pure_ok, Prod.mk.injEq] at h
  obtain ⟨_, -, -, cur, -, ue, -, ⟨s1, total⟩, -, h⟩ := h
  split at h
  · cases h
    apply ofMsgs_to
    intro m hm
    cases hm
  · simp only [bind_ok, pure_ok, Prod.mk.injEq] at h
    obtain ⟨agg, -, msgs, rfl, rfl, rfl⟩ := h
    apply ofMsgs_to
    intro m hm
    simp only [List.mem_singleton] at hm
    subst hm
    exact notToPm_send hs

theorem payout_to (msgs : List Msg) (hm : ∀ m ∈ msgs, NotToPm m) (a : Nat) (recv : Addr) (lp : Denom)
    (hr : recv ≠ PM) :
    ∀ m ∈ msgs ++ (if a ≠ 0 then [Msg.bankSend recv [⟨lp, a⟩]] else []), NotToPm m := by
  intro m h
  rcases List.mem_append.1 h with h | h
  · exact hm m h
  · split at h
    · simp only [List.mem_singleton] at h; subst h; exact notToPm_send hr
    · cases h

open FH in
theorem withdrawPosition_to {s s' : FmState} {env sender funds id em} {r : Response}
    (hs : sender ≠ PM) (hfc : s.config.feeCollector ≠ PM) (hown : ∀ f ∈ s.farms, f.owner ≠ PM)
    (h : withdrawPosition s env sender funds id em = .ok (s', r)) : ∀ sm ∈ r.msgs, NotToPm sm.msg := by
  unfold withdrawPosition at h
  simp only [error_bind, FH.ite_err_ok, bind_ok, pure_ok] at h
  obtain ⟨_, hnp, h⟩ := h
  cases hg : s.getPosition id with
  | none => simp [hg, bind, Except.bind] at h
  | some p =>
    simp only [hg, error_bind, FH.ite_err_ok, bind_ok, pure_ok, fit_ok, Prod.mk.injEq] at h
    obtain ⟨q, hq, hrecv, h⟩ := h
    cases hq
    have hpr : p.receiver ≠ PM := by
      have : p.receiver = sender := by simpa using hrecv
      rw [this]; exact hs
    split at h
    · simp only [bind_ok] at h
      obtain ⟨rate, _, cur, _, active, hact, sp, hsp, h⟩ := h
      have hms : ∀ m ∈ ((if sp.nFarmOwners = 0 then []
                    else
                      List.map (fun o => Msg.bankSend o [{ denom := p.lpDenom, amount := sp.perFarmOwner }])
                        (uniqueOwners active)) ++
                    if sp.feeCollector > 0 then
                      [Msg.bankSend s.config.feeCollector [{ denom := p.lpDenom, amount := sp.feeCollector }]]
                    else []), NotToPm m := by
        intro m hm
        rcases List.mem_append.1 hm with hm | hm
        · split at hm
          · cases hm
          · obtain ⟨o, ho, rfl⟩ := List.mem_map.1 hm
            obtain ⟨f, hf, rfl⟩ := uniqueOwners_mem ho
            exact notToPm_send (hown f (farmsByLp_sub (filterM_mem hact f hf)))
        · split at hm
          · simp only [List.mem_singleton] at hm; subst hm; exact notToPm_send hfc
          · cases hm
      by_cases hopen : p.open_ = true
      · simp only [hopen, if_true, bind_ok, pure_ok, Prod.mk.injEq] at h
        obtain ⟨s1, hw, x, rfl, s3, hrec, rfl, rfl⟩ := h
        exact ofMsgs_to (payout_to _ hms _ _ _ hpr)
      · simp only [hopen, if_false, Bool.false_eq_true, bind_ok, pure_ok, Prod.mk.injEq] at h
        obtain ⟨s1, rfl, x, rfl, s3, rfl, rfl, rfl⟩ := h
        exact ofMsgs_to (payout_to _ hms _ _ _ hpr)
    · simp only [error_bind, FH.ite_err_ok] at h
      obtain ⟨_, _, h⟩ := h
      have hms : ∀ m ∈ ([] : List Msg), NotToPm m := by intro m hm; cases hm
      by_cases hopen : p.open_ = true
      · simp only [hopen, if_true, bind_ok, pure_ok, Prod.mk.injEq] at h
        obtain ⟨x, rfl, s3, hrec, rfl, rfl⟩ := h
        exact ofMsgs_to (payout_to _ hms _ _ _ hpr)
      · simp only [hopen, if_false, Bool.false_eq_true, bind_ok, pure_ok, Prod.mk.injEq] at h
        obtain ⟨x, rfl, s3, rfl, rfl, rfl⟩ := h
        exact ofMsgs_to (payout_to _ hms _ _ _ hpr)

theorem no_msgs_to {r : Response} (h : ∀ sm ∈ r.msgs, False) : ∀ sm ∈ r.msgs, NotToPm sm.msg :=
  fun sm hsm => (h sm hsm).elim

/-- no bank send of the farm manager goes to the pool manager, if the caller, the farm manager's fee collector
    and the owners of the stored farms are not the pool manager -/
theorem fmExecute_to {s s' : FmState} {env : FmEnv} {sender : Addr} {funds : List Coin}
    {m : FmMsg} {r : Response} (hs : sender ≠ PM) (hfc : s.config.feeCollector ≠ PM)
    (hown : ∀ f ∈ s.farms, f.owner ≠ PM) (h : fmExecute s env sender funds m = .ok (s', r)) :
    ∀ sm ∈ r.msgs, NotToPm sm.msg := by
  cases m with
  | createFarm p => exact createFarm_to hs hfc hown h
  | expandFarm p => exact no_msgs_to (goodNo_expandFarm.out _ h)
  | closeFarm id => exact closeFarm_to hown h
  | claim u => exact fmClaim_to hs h
  | createPosition id u rc => exact no_msgs_to (goodN_createPosition.out _ h)
  | expandPosition id => exact no_msgs_to (goodN_expandPosition.out _ h)
  | closePosition id lp => exact no_msgs_to (goodNo_closePosition.out _ h)
  | withdrawPosition id e => exact withdrawPosition_to hs hfc hown h
  | updateConfig u =>
    simp only [fmExecute, bind_ok] at h
    obtain ⟨_, _, h⟩ := h
    exact no_msgs_to (goodNo_fmUpdateConfig.out _ h)
  | updateOwnership a =>
    simp only [fmExecute, bind_ok, pure_ok, Prod.mk.injEq] at h
    obtain ⟨_, _, o, _, rfl, rfl⟩ := h
    intro sm hsm
    cases hsm

end MantraDex.LpSys
