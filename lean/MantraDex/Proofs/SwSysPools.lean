/-
  C17Sys, third part: what one pool-manager handler does to the stored pools — a pool whose swaps are disabled
  is left alone by swaps and routes, other handlers touch only the pool they name, a configuration change keeps
  every pool's reserves, and the only pool ever added is the fresh one of `createPool`.
-/
import MantraDex.Model.System
import MantraDex.Proofs.NumLemmas
import MantraDex.Proofs.SwSysTree

set_option linter.unusedSimpArgs false
set_option linter.unusedVariables false
set_option linter.tactic.unusedName false

namespace MantraDex.SwSys
open MantraDex MantraDex.LpSys

theorem getPool_of_mem {s : PmState} (hids : (s.pools.map (·.id)).Nodup) {p : PoolInfo} (hp : p ∈ s.pools) :
    s.getPool p.id = .ok p := by
  unfold PmState.getPool
  cases hf : s.pools.find? (·.id == p.id) with
  | none =>
    have := List.find?_eq_none.1 hf p hp
    simp at this
  | some q =>
    have hq : q ∈ s.pools := List.mem_of_find?_eq_some hf
    have hid : q.id = p.id := by simpa using List.find?_some hf
    rw [C16.eq_of_nodup_ids hids q hq p hp hid]

/-- a swap on another pool keeps `p` -/
theorem performSwap_other {s s' : PmState} {offer : Coin} {ask : Denom} {pid : String} {b ms : Option Nat}
    {r : SwapResult} (h : performSwap s offer ask pid b ms = .ok (s', r)) {p : PoolInfo} (hp : p ∈ s.pools)
    (hne : p.id ≠ pid) : p ∈ s'.pools := by
  obtain ⟨pool, c, oi, ai, xx, yy, hq, -, -, -, -, -, -, -, hrp, hs', -⟩ := C04.performSwap_ok h
  obtain ⟨-, hqid⟩ := getPool_ok hq
  have hid : r.pool.id = pool.id := by rw [hrp]
  rw [hs']
  exact savePool_other_mem hq hid hp (by rw [hqid]; exact hne)

/-- a direct swap never touches a pool whose swaps are disabled -/
theorem swap_frozen {s s' : PmState} {env : PmEnv} {sender : Addr} {funds : List Coin} {ask : Denom}
    {b ms : Option Nat} {rc : Option Addr} {pid : String} {r : Response}
    (hids : (s.pools.map (·.id)).Nodup) {p : PoolInfo} (hp : p ∈ s.pools) (hoff : p.status.swaps = false)
    (h : swapHandler s env sender funds ask b ms rc pid = .ok (s', r)) : p ∈ s'.pools ∧ pid ≠ p.id := by
  have hne : pid ≠ p.id := by
    intro e
    subst e
    rw [C17.swap_disabled_direct (getPool_of_mem hids hp) hoff] at h
    cases h
  obtain ⟨offer, sr, -, hps, -⟩ := C04.swapHandler_messages h
  exact ⟨performSwap_other hps hp (fun e => hne e.symm), hne⟩

/-- … nor does any hop of a route -/
theorem route_frozen {ms : Option Nat} (ops : List SwapOp) :
    ∀ (s s' : PmState) (prev out : Coin) (fees fees' : List Msg), (s.pools.map (·.id)).Nodup →
      routeHops s ms ops prev fees = .ok (s', out, fees') →
      ∀ p ∈ s.pools, p.status.swaps = false → p ∈ s'.pools := by
  induction ops with
  | nil =>
    intro s s' prev out fees fees' _ h p hp _
    rw [routeHops] at h
    simp only [Except.ok.injEq, Prod.mk.injEq] at h
    obtain ⟨rfl, -, -⟩ := h
    exact hp
  | cons op ops ih =>
    intro s s' prev out fees fees' hids h p hp hoff
    obtain ⟨q, hq, hon⟩ := C17.route_requires_enabled (op :: ops) s s' prev out fees fees' h op (List.mem_cons_self ..)
    obtain ⟨s1, r, hps, h1⟩ := C04.routeHops_cons h
    have hne : p.id ≠ op.poolId := by
      intro e
      rw [← e, getPool_of_mem hids hp] at hq
      cases hq
      rw [hoff] at hon
      cases hon
    have hids1 : (s1.pools.map (·.id)).Nodup := by rw [(performSwap_step hps).ids]; exact hids
    exact ih s1 s' _ out _ fees' hids1 h1 p (performSwap_other hps hp hne) hoff

/-- a multi-asset deposit touches only the pool it names -/
theorem provide_other {s s' : PmState} {env : PmEnv} {sender : Addr} {funds : List Coin}
    {ls ss : Option Nat} {rc : Option Addr} {pid : String} {u : Option Nat} {l : Option String} {r : Response}
    (hfunds : (funds.map (·.denom)).Nodup) (hns : 2 ≤ funds.length)
    (h : provideLiquidity s env sender funds ls ss rc pid u l = .ok (s', r))
    {p : PoolInfo} (hp : p ∈ s.pools) (hne : p.id ≠ pid) : p ∈ s'.pools := by
  obtain ⟨deps, hagg, -⟩ := pl_agg h
  have hlen : deps.length ≠ 1 := by rw [aggregateCoins_length hfunds hagg]; omega
  obtain ⟨q, sh, m0, hq, -, -, htail⟩ := pl_multi_full hagg hlen h
  obtain ⟨assets', msgs1, -, hs', -, -⟩ := plTail_full htail
  obtain ⟨-, hqid⟩ := getPool_ok hq
  rw [hs']
  exact savePool_other_mem hq rfl hp (by rw [hqid]; exact hne)

/-- a withdrawal touches only the pool it names -/
theorem withdraw_other {s s' : PmState} {env : PmEnv} {sender : Addr} {funds : List Coin} {pid : String}
    {r : Response} (h : withdrawLiquidity s env sender funds pid = .ok (s', r))
    {p : PoolInfo} (hp : p ∈ s.pools) (hne : p.id ≠ pid) : p ∈ s'.pools := by
  obtain ⟨q, amount, refunds, assets', hq, -, -, hs', -⟩ := withdraw_ok h
  obtain ⟨-, hqid⟩ := getPool_ok hq
  rw [hs']
  exact savePool_other_mem hq rfl hp (by rw [hqid]; exact hne)

/-- configuration and ownership changes keep every pool's identifier and reserves -/
theorem config_assets {s s' : PmState} {env : PmEnv} {sender : Addr} {funds : List Coin} {m : PmMsg}
    {r : Response} (hm : (∃ fc fm fee t, m = .updateConfig fc fm fee t) ∨ (∃ a, m = .updateOwnership a))
    (hids : (s.pools.map (·.id)).Nodup) (h : pmExecute s env sender funds m = .ok (s', r))
    {p : PoolInfo} (hp : p ∈ s.pools) : ∃ p' ∈ s'.pools, p'.id = p.id ∧ p'.assets = p.assets := by
  obtain ⟨-, -, -, hpools⟩ := pmExecute_config_ok hm h
  rcases hpools with hpl | ⟨pid, q, st, hq, hpl⟩
  · exact ⟨p, by rw [hpl]; exact hp, rfl, rfl⟩
  · obtain ⟨hqm, -⟩ := getPool_ok hq
    by_cases hpq : p.id = q.id
    · have : p = q := C16.eq_of_nodup_ids hids p hp q hqm hpq
      subst this
      exact ⟨{ p with status := st }, by rw [hpl]; exact savePool_self_mem hq rfl, rfl, rfl⟩
    · exact ⟨p, by rw [hpl]; exact savePool_other_mem hq rfl hp hpq, rfl, rfl⟩

/-- a pool as `createPool` stores it: everything enabled, no reserves -/
def FreshPool (p : PoolInfo) : Prop :=
  p.status.swaps = true ∧ p.status.deposits = true ∧ p.status.withdrawals = true ∧ ∀ a ∈ p.assets, a.amount = 0

theorem ids_back {s s' : PmState} (h : s'.pools.map (·.id) = s.pools.map (·.id)) :
    ∀ p' ∈ s'.pools, ∃ p ∈ s.pools, p.id = p'.id := by
  intro p' hp'
  have : p'.id ∈ s'.pools.map (·.id) := List.mem_map_of_mem hp'
  rw [h] at this
  obtain ⟨p, hp, hpe⟩ := List.mem_map.1 this
  exact ⟨p, hp, hpe⟩

/-- the only pool a handler can add is the fresh pool of `createPool` -/
theorem handler_fresh {s s' : PmState} {env : PmEnv} {sender : Addr} {funds : List Coin} {m : PmMsg} {r : Response}
    (h : pmExecute s env sender funds m = .ok (s', r)) :
    ∀ p' ∈ s'.pools, (∃ p ∈ s.pools, p.id = p'.id) ∨ FreshPool p' := by
  rcases pmExecute_cases h with hs | ⟨dn, dc, f, pt, id, rfl, hc⟩ | ⟨s1, cfg, _, hs, rfl⟩ | ⟨o, _, rfl⟩
  · exact fun p' hp' => Or.inl (ids_back hs.ids p' hp')
  · obtain ⟨p, hfresh, hpools, -, -, hpe⟩ := createPool_pools hc
    intro p' hp'
    rw [hpools] at hp'
    rcases mem_insertPoolSorted.1 hp' with rfl | hp'
    · right
      rw [hpe]
      refine ⟨rfl, rfl, rfl, ?_⟩
      intro a ha
      obtain ⟨d, -, rfl⟩ := List.mem_map.1 ha
      rfl
    · exact Or.inl ⟨p', hp', rfl⟩
  · exact fun p' hp' => Or.inl (ids_back (s := s) (s' := { s1 with config := cfg }) hs.ids p' hp')
  · exact fun p' hp' => Or.inl ⟨p', hp', rfl⟩

end MantraDex.SwSys
