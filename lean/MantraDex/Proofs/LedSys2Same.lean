/-
  C07Sys, part 9 (entry-free): a transaction signed by `s` never touches the weight histories or the claim
  cursor of another account `u` (`sameU_step`).  Handler level: every handler only writes the histories of the
  resolved receiver / the sender and of the farm manager itself; runtime level: the authorisation lift of
  `AuthSysPos` (the pool manager only locks on behalf of the signer).
-/
import MantraDex.Proofs.LedSysFm
import MantraDex.Proofs.LedSysFold
import MantraDex.Proofs.AuthSysPos
import MantraDex.Proofs.WSysStep
import MantraDex.Properties.C15Sys

set_option linter.unusedSimpArgs false
set_option linter.unusedVariables false

namespace MantraDex.LedSys
open MantraDex MantraDex.WSys

/-- histories and cursor of `u` are the same -/
def SameU (u : Addr) (st st' : FmState) : Prop :=
  (∀ lp, st'.hist u lp = st.hist u lp) ∧ st'.lastClaimed u = st.lastClaimed u

theorem SameU.refl (u : Addr) (st : FmState) : SameU u st st := ⟨fun _ => rfl, rfl⟩
theorem SameU.trans {u : Addr} {a b c : FmState} (h1 : SameU u a b) (h2 : SameU u b c) : SameU u a c :=
  ⟨fun lp => (h2.1 lp).trans (h1.1 lp), h2.2.trans h1.2⟩

theorem sameU_of_eq {u : Addr} {st st' : FmState} (hh : st'.hist = st.hist) (hl : st'.lastClaimed = st.lastClaimed) :
    SameU u st st' := ⟨fun lp => by rw [hh], by rw [hl]⟩

theorem sameU_updateWeights {s s' : FmState} {env : FmEnv} {recv : Addr} {lp : Denom} {amount unlocking : Nat}
    {fill : Bool} {u : Addr} (hu : u ≠ env.self) (hr : u ≠ recv)
    (h : updateWeights s env recv lp amount unlocking fill = .ok s') : SameU u s s' :=
  ⟨fun lp' => updateWeights_frame_hist h u lp' hu (fun e => hr (by cases e; rfl)),
    by rw [updateWeights_last h]⟩

theorem sameU_reconcile {s s' : FmState} {env : FmEnv} {recv : Addr} {lp : Denom} {u : Addr} (hr : u ≠ recv)
    (h : reconcileUserState s env recv lp = .ok s') : SameU u s s' := by
  refine ⟨?_, ?_⟩
  · intro lp'
    rcases reconcile_hist h with e | e
    · rw [e]
    · rw [e, setHist_hist, if_neg (fun hh => hr hh.1)]
  · rcases reconcile_last h u with e | ⟨e, _⟩
    · exact e
    · exact absurd e hr

/-! ### position handlers -/

theorem create_core_same {s s1 s3 : FmState} {env : FmEnv} {recv : Addr} {p : Position} {lpd : Denom}
    {amt un : Nat} {u : Addr} (hu : u ≠ env.self) (hr : u ≠ recv)
    (hw : updateWeights (s1.savePosition p) env recv lpd amt un true = .ok s3)
    (h2 : s1.hist = s.hist) (h4 : s1.lastClaimed = s.lastClaimed) : SameU u s s3 :=
  (sameU_of_eq (st := s) (st' := s1.savePosition p) (by rw [savePosition_hist, h2])
    (by rw [savePosition_last, h4])).trans (sameU_updateWeights hu hr hw)

theorem createPosition_same {s s' : FmState} {env : FmEnv} {sender : Addr} {funds : List Coin}
    {id : Option String} {un : Nat} {recv : Option Addr} {r : Response} {u : Addr} (hu : u ≠ env.self)
    (hs : u ≠ sender)
    (hrc : ∀ rc, recv = some rc → (sender = s.config.poolManager ∨ sender = rc) → u ≠ rc)
    (h : createPosition s env sender funds id un recv = .ok (s', r)) : SameU u s s' := by
  unfold createPosition at h
  cases recv <;> cases id <;>
    simp only [bind_ok, error_bind, pure_bind', ite_error_ok, pure_ok, Prod.mk.injEq] at h
  · obtain ⟨lp, hlp, _, _, _, _, hnone, hlim, s3, h3, rfl, rfl⟩ := h
    exact create_core_same hu hs h3 rfl rfl
  · obtain ⟨lp, hlp, _, _, _, _, hnone, hlim, s3, h3, rfl, rfl⟩ := h
    exact create_core_same hu hs h3 rfl rfl
  · rename_i rc
    obtain ⟨lp, hlp, _, _, _, hauth, _, _, hnone, hlim, s3, h3, rfl, rfl⟩ := h
    have : sender = s.config.poolManager ∨ sender = rc := by
      simp only [Bool.not_eq_true', Bool.or_eq_false_iff, beq_eq_false_iff_ne, ne_eq, not_and,
        Decidable.not_not] at hauth
      by_cases hpm : sender = s.config.poolManager
      · exact Or.inl hpm
      · exact Or.inr (hauth hpm)
    exact create_core_same hu (hrc rc rfl this) h3 rfl rfl
  · rename_i rc _
    obtain ⟨lp, hlp, _, _, _, hauth, _, _, hnone, hlim, s3, h3, rfl, rfl⟩ := h
    have : sender = s.config.poolManager ∨ sender = rc := by
      simp only [Bool.not_eq_true', Bool.or_eq_false_iff, beq_eq_false_iff_ne, ne_eq, not_and,
        Decidable.not_not] at hauth
      by_cases hpm : sender = s.config.poolManager
      · exact Or.inl hpm
      · exact Or.inr (hauth hpm)
    exact create_core_same hu (hrc rc rfl this) h3 rfl rfl

theorem expandPosition_same {s s' : FmState} {env : FmEnv} {sender : Addr} {funds : List Coin}
    {id2 : String} {r : Response} {u : Addr} (hu : u ≠ env.self)
    (hp : ∀ p, s.getPosition id2 = some p → (p.receiver = sender ∨ sender = s.config.poolManager) → u ≠ p.receiver)
    (h : expandPosition s env sender funds id2 = .ok (s', r)) : SameU u s s' := by
  unfold expandPosition at h
  cases hg : s.getPosition id2 with
  | none => rw [hg] at h; simp [error_bind] at h
  | some p2 =>
    rw [hg] at h
    simp only [bind_ok, error_bind, pure_bind', ite_error_ok, ckAdd_ok, pure_ok, Prod.mk.injEq] at h
    obtain ⟨c, hc, _, hden, hopen, hauth, a, ⟨_, rfl⟩, s2, h2, rfl, rfl⟩ := h
    have hauth' : p2.receiver = sender ∨ sender = s.config.poolManager := by
      simp only [Bool.not_eq_true', Bool.or_eq_false_iff, beq_eq_false_iff_ne, ne_eq, not_and,
        Decidable.not_not] at hauth
      by_cases hr : p2.receiver = sender
      · exact Or.inl hr
      · exact Or.inr (hauth hr)
    exact create_core_same (s1 := s) hu (hp p2 hg hauth') h2 rfl rfl

theorem close_tail_same {s s1 s2 s4 : FmState} {env : FmEnv} {sender : Addr} {p p' : Position} {amt : Nat}
    {u : Addr} (hu : u ≠ env.self) (hs : u ≠ sender)
    (hw : updateWeights s1 env sender p.lpDenom amt p.unlocking false = .ok s2)
    (hrec : reconcileUserState (s2.savePosition p') env sender p.lpDenom = .ok s4)
    (h2 : s1.hist = s.hist) (h4 : s1.lastClaimed = s.lastClaimed) : SameU u s s4 :=
  (((sameU_of_eq h2 h4).trans (sameU_updateWeights hu hs hw)).trans
    (sameU_of_eq (savePosition_hist _ _) (savePosition_last _ _))).trans (sameU_reconcile hs hrec)

theorem closePosition_same {s s' : FmState} {env : FmEnv} {sender : Addr} {funds : List Coin}
    {id2 : String} {lp : Option Coin} {r : Response} {u : Addr} (hu : u ≠ env.self) (hs : u ≠ sender)
    (h : closePosition s env sender funds id2 lp = .ok (s', r)) : SameU u s s' := by
  unfold closePosition at h
  cases hg : s.getPosition id2 with
  | none =>
    rw [hg] at h
    simp only [bind_ok, error_bind] at h
    obtain ⟨_, _, _, _, h⟩ := h
    split at h <;> simp at h
  | some p2 =>
    rw [hg] at h
    simp only [bind_ok, error_bind, pure_bind', ite_error_ok, fit_ok] at h
    obtain ⟨_, _, _, _, _, hauth, hopen, a, ⟨_, rfl⟩, b, ⟨_, rfl⟩, _, h⟩ := h
    have full : ∀ {q : Position} {R : Response},
        (updateWeights s env sender p2.lpDenom p2.amount p2.unlocking false >>= fun s2 =>
          reconcileUserState (s2.savePosition q) env sender p2.lpDenom >>= fun s4 =>
          pure (s4, R)) = Except.ok (s', r) → SameU u s s' := by
      intro q R h
      simp only [bind_ok, pure_ok, Prod.mk.injEq] at h
      obtain ⟨s2, h2, s4, h4, rfl, rfl⟩ := h
      exact close_tail_same hu hs h2 h4 rfl rfl
    cases lp with
    | none => exact full h
    | some c =>
      simp only [ite_error_ok] at h
      obtain ⟨_, h⟩ := h
      split at h
      · exact full h
      · simp only [ite_ok_error, ite_error_ok, bind_ok, pure_ok, Prod.mk.injEq] at h
        obtain ⟨_, _, s2, h2, s4, h4, rfl, rfl⟩ := h
        exact close_tail_same hu hs h2 h4 (by rw [savePosition_hist]) (by rw [savePosition_last])

theorem withdrawPosition_same {s s' : FmState} {env : FmEnv} {sender : Addr} {funds : List Coin}
    {id2 : String} {em : Option Bool} {r : Response} {u : Addr} (hu : u ≠ env.self) (hs : u ≠ sender)
    (h : withdrawPosition s env sender funds id2 em = .ok (s', r)) : SameU u s s' := by
  unfold withdrawPosition at h
  cases hg : s.getPosition id2 with
  | none => rw [hg] at h; simp [error_bind, bind_ok] at h
  | some p2 =>
    rw [hg] at h
    simp only [bind_ok, error_bind, pure_bind', ite_error_ok] at h
    obtain ⟨_, _, hauth, h⟩ := h
    have tailOpen : ∀ (s1 s3 : FmState), SameU u s s1 →
        reconcileUserState (s1.removePosition id2) env sender p2.lpDenom = .ok s3 → SameU u s s3 := by
      intro s1 s3 e1 h3
      exact (e1.trans (sameU_of_eq (st := s1) (st' := s1.removePosition id2) rfl rfl)).trans
        (sameU_reconcile hs h3)
    split at h
    · simp only [bind_ok] at h
      obtain ⟨rate, _, cur, _, active, _, sp, _, h⟩ := h
      split at h
      next hopen =>
        simp only [bind_ok, pure_ok, Prod.mk.injEq] at h
        obtain ⟨s1, h1, x, h3, rfl, rfl⟩ := h
        exact tailOpen s1 _ (sameU_updateWeights hu hs h1) h3
      next hopen =>
        simp only [bind_ok, pure_ok, Prod.mk.injEq] at h
        obtain ⟨rfl, rfl⟩ := h
        exact sameU_of_eq (st := s) rfl rfl
    · simp only [ite_error_ok] at h
      obtain ⟨_, _, h⟩ := h
      split at h
      next hopen =>
        simp only [bind_ok, pure_ok, Prod.mk.injEq] at h
        obtain ⟨x, h3, rfl, rfl⟩ := h
        exact tailOpen s _ (SameU.refl _ _) h3
      next hopen =>
        simp only [bind_ok, pure_ok, Prod.mk.injEq] at h
        obtain ⟨rfl, rfl⟩ := h
        exact sameU_of_eq (st := s) rfl rfl

theorem fmClaim_same {s s' : FmState} {env : FmEnv} {sender : Addr} {funds : List Coin} {un : Option Nat}
    {r : Response} {u : Addr} (hn : (s.farms.map (·.id)).Nodup) (hs : u ≠ sender)
    (h : fmClaim s env sender funds un = .ok (s', r)) : SameU u s s' := by
  obtain ⟨cur, untilE, sF, total, _, _, _, _, hmid, rfl, _⟩ := claim_run hn h
  refine ⟨fun lp => hmid.histOther u lp (Or.inl hs), ?_⟩
  show (if u = sender then some untilE else sF.lastClaimed u) = _
  rw [if_neg hs, hmid.last]

/-! ### all handlers -/

theorem fmExecute_same {s : Addr} {st st' : FmState} {env : FmEnv} {sender : Addr} {funds : List Coin}
    {m : FmMsg} {r : Response} {u : Addr} (hn : (st.farms.map (·.id)).Nodup) (hu : u ≠ env.self) (hus : u ≠ s)
    (hupm : u ≠ st.config.poolManager)
    (h : fmExecute st env sender funds m = .ok (st', r)) (ha : AuthSys.AuthFm s st sender m) :
    SameU u st st' := by
  have hsu : u ≠ sender := by
    rcases ha with ⟨rfl, _⟩ | ⟨rfl, _⟩
    · exact hus
    · exact hupm
  cases m with
  | createFarm fp =>
    have hf := createFarm_frameL h
    exact sameU_of_eq hf.hist hf.last
  | expandFarm fp =>
    have hf := expandFarm_keepsL _ _ h
    exact sameU_of_eq hf.hist hf.last
  | closeFarm fid =>
    have hf := closeFarm_keepsL _ _ h
    exact sameU_of_eq hf.hist hf.last
  | claim un => exact fmClaim_same hn hsu h
  | updateConfig c =>
    unfold fmExecute at h
    simp only [bind_ok] at h
    obtain ⟨_, _, h⟩ := h
    exact sameU_of_eq (fmUpdateConfig_frame' h).1 (fmUpdateConfig_last h)
  | updateOwnership a =>
    unfold fmExecute at h
    simp only [bind_ok, pure_ok, Prod.mk.injEq] at h
    obtain ⟨_, _, o, _, rfl, _⟩ := h
    exact sameU_of_eq (st := st) rfl rfl
  | createPosition i un rcv =>
    refine createPosition_same hu hsu ?_ h
    intro rc hrc hor
    subst hrc
    rcases ha with ⟨rfl, hnpm⟩ | ⟨_, hl⟩
    · rcases hor with h1 | h1
      · exact absurd h1 hnpm
      · rw [← h1]; exact hus
    · have : rc = s := hl
      rw [this]; exact hus
  | expandPosition id2 =>
    refine expandPosition_same hu ?_ h
    intro p hg hor
    rcases ha with ⟨rfl, hnpm⟩ | ⟨_, hl⟩
    · rcases hor with h1 | h1
      · rw [h1]; exact hus
      · exact absurd h1 hnpm
    · rw [hl p hg]; exact hus
  | closePosition id2 lp => exact closePosition_same hu hsu h
  | withdrawPosition id2 em => exact withdrawPosition_same hu hsu h

/-! ### the runtime -/

def G2 (s u : Addr) (w w' : World) : Prop := AuthSys.PG s w w' ∧ SameU u w.fm w'.fm

theorem same_lift (s u : Addr) (hs : isContract s = false) (hu : isContract u = false) (hus : u ≠ s) :
    AuthSys.Lift (AuthSys.PInv s) (G2 s u) (AuthSys.POk s) where
  refl := fun w => ⟨AuthSys.PosRel.refl s _, SameU.refl u _⟩
  trans := fun h1 h2 => ⟨AuthSys.PosRel.trans h1.1 h2.1, h1.2.trans h2.2⟩
  bank := fun w b h => ⟨((AuthSys.pos_lift s hs).bank w b h).1, AuthSys.PosRel.refl s _, SameU.refl u _⟩
  stable := fun g h => AuthSys.pok_stable g.1 h
  exec := by
    intro w w2 c sender funds msg resp hinv hok hce
    obtain ⟨i, g, hm⟩ := (AuthSys.pos_lift s hs).exec hinv hok hce
    refine ⟨i, ⟨g, ?_⟩, hm⟩
    have hsPM : s ≠ PM := AuthSys.ne_pm_of_not_contract hs
    obtain ⟨huFM, huPM⟩ := ext_ne hu
    rcases AuthSys.callExecute_cases hce with ⟨m, st, rfl, rfl, hx, rfl⟩ | ⟨m, st, rfl, rfl, hx, rfl⟩ |
        ⟨m, st, rfl, rfl, -, rfl, hr⟩ | ⟨a, o, rfl, rfl, -, -, rfl, hr⟩
    · exact SameU.refl u _
    · have hauth : AuthSys.AuthFm s w.fm sender m := by
        rcases hok with ⟨rfl, -⟩ | ⟨rfl, hemit⟩
        · exact Or.inl ⟨rfl, by rw [hinv.pmAddr]; exact hsPM⟩
        · exact Or.inr ⟨hinv.pmAddr.symm, hemit⟩
      exact fmExecute_same hinv.wf.farmNodup huFM hus (by rw [hinv.pmAddr]; exact huPM) hx hauth
    · exact SameU.refl u _
    · exact SameU.refl u _
  reply := by
    intro w w2 c id resp hinv hcr
    obtain ⟨i, g, hm⟩ := (AuthSys.pos_lift s hs).reply hinv hcr
    refine ⟨i, ⟨g, ?_⟩, hm⟩
    rcases AuthSys.callReply_cases hcr with ⟨rfl, st, hx, rfl⟩ | ⟨-, rfl, hr⟩
    · exact SameU.refl u _
    · exact SameU.refl u _

/-- a transaction not signed by `u` leaves `u`'s weight histories and claim cursor alone -/
theorem sameU_step (w : World) (tx : Tx) (k : Option Nat) (u : Addr) (hu : isContract u = false)
    (hext : C05Sys.External tx) (hsig : C15Sys.signer tx ≠ some u)
    (hv : ∀ s, C15Sys.signer tx = some s → w.validAddr s = true)
    (hwf : FmSys.FmWF w.fm) (hb : w.pm.buffer = none) (hpm : w.fm.config.poolManager = PM) :
    SameU u w.fm (step w tx k).fm := by
  cases tx with
  | exec s c msg funds =>
    have hus : u ≠ s := fun e => hsig (by rw [e]; rfl)
    unfold step
    cases hr : runTx w (.exec s c msg funds) k with
    | error e => exact SameU.refl u _
    | ok w' =>
      show SameU u w.fm w'.fm
      simp only [runTx] at hr
      by_cases hm : ∀ c', msg ≠ .fm (.updateConfig c')
      · have hinv : AuthSys.PInv s { w with bank := { w.bank with calls := 0, failAt := k } } :=
          ⟨hwf, hpm, hv s rfl, fun b hb' => by rw [hb] at hb'; cases hb'⟩
        obtain ⟨_, g⟩ := (AuthSys.run_lift (same_lift s u hext.1 hu hus) FUEL).1 _ _ _ _ hr hinv
          (Or.inl ⟨rfl, hm⟩)
        exact g.2
      · have : ∃ c', msg = .fm (.updateConfig c') := by
          apply Classical.byContradiction
          intro hn
          exact hm (fun c' e => hn ⟨c', e⟩)
        obtain ⟨c', rfl⟩ := this
        rw [show FUEL = 63 + 1 from rfl] at hr
        obtain ⟨w1, w2, resp, hw1, hce, hsubs⟩ := SysPools.wasm_inv hr
        have hfm1 : w1.fm = w.fm := by
          split at hw1
          · simp only [pure_ok] at hw1; subst hw1; rfl
          · obtain ⟨b, hb, hw1⟩ := bind_ok.mp hw1
            simp only [pure_ok] at hw1; subst hw1; rfl
        rcases AuthSys.callExecute_cases hce with ⟨m, st, he, -⟩ | ⟨m, st, he, -, hx, rfl⟩ | ⟨m, st, he, -⟩ |
            ⟨a, o, he, -⟩
        · cases he
        · cases he
          rw [hfm1] at hx
          obtain ⟨h1, h2, h3, -⟩ := C05.config_conserves (Or.inl ⟨c', rfl⟩) hx
          rw [h3] at hsubs
          have := execSubs_nil hsubs
          subst this
          unfold fmExecute at hx
          simp only [bind_ok] at hx
          obtain ⟨_, _, hx⟩ := hx
          exact sameU_of_eq (fmUpdateConfig_frame' hx).1 (fmUpdateConfig_last hx)
        · cases he
        · cases he
  | send frm to coins => rw [AuthSys.step_fm_send]; exact SameU.refl u _
  | advance ns => exact SameU.refl u _

end MantraDex.LedSys
