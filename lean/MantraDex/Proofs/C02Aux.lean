/-
  Auxiliary lemmas for C02: peeling of `do` blocks in `R`, and "which messages can a pool-manager
  handler emit" facts (no `tfMint` / `tfBurn` outside provide/withdraw liquidity).
-/
import MantraDex.Model.System
import MantraDex.Proofs.NumLemmas

set_option linter.unusedSimpArgs false

namespace MantraDex.C02
open MantraDex

/-! ### `mapM` / payment helpers -/

theorem mapM_ok_eq_map {α β : Type} (f : α → R β) (g : α → β)
    (hf : ∀ a b, f a = .ok b → b = g a) :
    ∀ (l : List α) (bs : List β), l.mapM f = .ok bs → bs = l.map g := by
  intro l
  induction l with
  | nil => intro bs h; simp only [List.mapM_nil, pure_ok] at h; simp [h]
  | cons a l ih =>
    intro bs h
    simp only [List.mapM_cons, bind_ok, pure_ok] at h
    obtain ⟨b, hb, bs', hbs, rfl⟩ := h
    rw [hf a b hb, ih bs' hbs, List.map_cons]

theorem oneCoin_ok {funds : List Coin} {c : Coin} (h : oneCoin funds = .ok c) :
    funds = [c] ∧ c.amount ≠ 0 := by
  unfold oneCoin at h
  split at h
  · split at h
    · simp at h
    · next hne => simp only [Except.ok.injEq] at h; subst h; exact ⟨rfl, hne⟩
  · simp at h

theorem mustPay_ok {funds : List Coin} {d : Denom} {a : Nat} (h : mustPay funds d = .ok a) :
    funds = [⟨d, a⟩] ∧ a ≠ 0 := by
  unfold mustPay at h
  simp only [bind_ok] at h
  obtain ⟨c, hc, h⟩ := h
  obtain ⟨rfl, hne⟩ := oneCoin_ok hc
  split at h
  · simp at h
  · next hd =>
    simp only [pure_ok] at h
    subst h
    have : c.denom = d := by simpa using hd
    subst this
    exact ⟨rfl, hne⟩

/-! ### messages emitted by the handlers -/

def noMint : Msg → Bool | .tfMint _ _ => false | _ => true
def noBurn : Msg → Bool | .tfBurn _ => false | _ => true
def noMB (m : Msg) : Bool := noMint m && noBurn m

theorem ofMsgs_all {f : Msg → Bool} {L : List Msg} {attrs : List (String × String)}
    (h : L.all f = true) : ∀ sm ∈ (Response.ofMsgs L attrs).msgs, f sm.msg = true := by
  intro sm hsm
  simp only [Response.ofMsgs, List.mem_map] at hsm
  obtain ⟨m, hm, rfl⟩ := hsm
  exact List.all_eq_true.1 h m hm

theorem err_bind {α β : Type} (e : Err) (f : α → R β) :
    ((Except.error e : R α) >>= f) = Except.error e := rfl

set_option hygiene false in
/-- normalise a handler body in `h`: error branches lose their (duplicated) continuation first, so
    inlining the join points stays linear -/
macro "do_norm" : tactic => `(tactic| ((try simp -zeta only [err_bind, pure_bind] at h); (try dsimp only at h)))

theorem err_ok_false {α : Type} {e : Err} {y : α} : (Except.error e : R α) = .ok y ↔ False := by
  simp

theorem ite_err_ok {c : Prop} [Decidable c] {β : Type} {e : Err} {x : R β} {y : β} :
    (if c then Except.error e else x) = .ok y ↔ ¬ c ∧ x = .ok y := by
  split <;> simp_all

set_option hygiene false in
/-- peel one step of a `do` block in hypothesis `h`, closing error branches; a final `pure` is
    turned into `hfin : result = value` -/
macro "peel_step" : tactic => `(tactic| first
    | (rw [pure_ok] at h; have hfin := h; clear h)
    | (rw [bind_ok] at h; obtain ⟨_, _, h⟩ := h)
    | (rw [ite_err_ok] at h; obtain ⟨_, h⟩ := h)
    | (split at h <;> try (rw [err_ok_false] at h; exact h.elim)))

theorem swap_msgs {s s' : PmState} {env : PmEnv} {sender : Addr} {funds : List Coin} {ask : Denom}
    {b ms : Option Nat} {rc : Option Addr} {pid : String} {r : Response}
    (h : swapHandler s env sender funds ask b ms rc pid = .ok (s', r)) :
    ∀ sm ∈ r.msgs, noMB sm.msg = true := by
  unfold swapHandler at h
  do_norm
  repeat' peel_step
  simp only [Prod.mk.injEq] at hfin
  obtain ⟨-, rfl⟩ := hfin
  apply ofMsgs_all
  repeat' split
  all_goals rfl

theorem create_msgs {s s' : PmState} {env : PmEnv} {funds : List Coin} {denoms : List Denom}
    {decimals : List Nat} {fees : PoolFee} {ptype : PoolType} {id : Option String} {r : Response}
    (h : createPool s env funds denoms decimals fees ptype id = .ok (s', r)) :
    ∀ sm ∈ r.msgs, noMB sm.msg = true := by
  unfold createPool at h
  do_norm
  peel_step
  cases ptype
  all_goals dsimp only at h
  all_goals repeat' peel_step
  all_goals
    simp only [Prod.mk.injEq] at hfin
    obtain ⟨-, rfl⟩ := hfin
    apply ofMsgs_all
    repeat' split
  all_goals rfl

theorem withdraw_msgs {s s' : PmState} {env : PmEnv} {sender : Addr} {funds : List Coin}
    {pid : String} {r : Response}
    (h : withdrawLiquidity s env sender funds pid = .ok (s', r)) :
    ∀ sm ∈ r.msgs, noMint sm.msg = true := by
  unfold withdrawLiquidity at h
  do_norm
  repeat' peel_step
  simp only [Prod.mk.injEq] at hfin
  obtain ⟨-, rfl⟩ := hfin
  apply ofMsgs_all
  rfl

theorem updateConfig_msgs {s s' : PmState} {env : PmEnv} {sender : Addr} {fc fm : Option Addr}
    {cf : Option Coin} {t : Option FeatureToggle} {r : Response}
    (h : pmUpdateConfig s env sender fc fm cf t = .ok (s', r)) :
    r.msgs = [] := by
  unfold pmUpdateConfig at h
  do_norm
  repeat' peel_step
  all_goals
    simp only [Prod.mk.injEq] at hfin
    obtain ⟨-, rfl⟩ := hfin
    rfl

theorem routeHops_msgs (maxSlip : Option Nat) :
    ∀ (ops : List SwapOp) (s : PmState) (prev : Coin) (fees : List Msg) (s' : PmState) (out : Coin)
      (fees' : List Msg), routeHops s maxSlip ops prev fees = .ok (s', out, fees') →
      fees.all noMB = true → fees'.all noMB = true := by
  intro ops
  induction ops with
  | nil =>
    intro s prev fees s' out fees' h hf
    simp only [routeHops, Except.ok.injEq, Prod.mk.injEq] at h
    obtain ⟨-, -, rfl⟩ := h
    exact hf
  | cons op ops ih =>
    intro s prev fees s' out fees' h hf
    unfold routeHops at h
    do_norm
    peel_step
    peel_step
    peel_step
    refine ih _ _ _ _ _ _ h ?_
    simp only [List.all_append, Bool.and_eq_true]
    refine ⟨⟨hf, ?_⟩, ?_⟩
    · split <;> rfl
    · split <;> rfl

theorem execSwapOps_msgs {s s' : PmState} {env : PmEnv} {sender : Addr} {funds : List Coin}
    {ops : List SwapOp} {mr : Option Nat} {rc : Option Addr} {ms : Option Nat} {r : Response}
    (h : execSwapOps s env sender funds ops mr rc ms = .ok (s', r)) :
    ∀ sm ∈ r.msgs, noMB sm.msg = true := by
  unfold execSwapOps at h
  do_norm
  repeat' peel_step
  all_goals
    have hr := routeHops_msgs _ _ _ _ _ _ _ _ ‹routeHops _ _ _ _ _ = Except.ok _› rfl
    simp only [Prod.mk.injEq] at hfin
    obtain ⟨-, rfl⟩ := hfin
    apply ofMsgs_all
    simp only [List.all_append, Bool.and_eq_true]
    refine ⟨?_, hr⟩
    split <;> rfl

theorem cpShares_msgs {self : Addr} {lp : Denom} {dep pa : List Coin} {ts : Nat} {x : Nat × List Msg}
    (h : cpShares self lp dep pa ts = .ok x) : x.2.all noBurn = true := by
  unfold cpShares at h
  generalize C.MINIMUM_LIQUIDITY_AMOUNT = M at h
  do_norm
  repeat' peel_step
  all_goals
    subst hfin
    rfl

theorem provide_msgs {s s' : PmState} {env : PmEnv} {sender : Addr} {funds : List Coin}
    {ls ss : Option Nat} {rc : Option Addr} {pid : String} {u : Option Nat} {l : Option String}
    {r : Response}
    (h : provideLiquidity s env sender funds ls ss rc pid u l = .ok (s', r)) :
    ∀ sm ∈ r.msgs, noBurn sm.msg = true := by
  unfold provideLiquidity at h
  do_norm
  repeat' peel_step
  all_goals
    simp only [Prod.mk.injEq] at hfin
    obtain ⟨-, rfl⟩ := hfin
    first
      | (apply ofMsgs_all
         first
           | rfl
           | (simp only [List.all_append, Bool.and_eq_true]
              exact ⟨cpShares_msgs ‹cpShares _ _ _ _ _ = Except.ok _›, rfl⟩))
      | (intro sm hsm
         simp only [List.mem_singleton] at hsm
         subst hsm
         rfl)

theorem noMB_absurd_mint {m : Msg} {c : Coin} {to : Addr} (h : noMB m = true) (e : m = .tfMint c to) :
    False := by
  subst e; simp [noMB, noMint] at h

theorem noMB_absurd_burn {m : Msg} {c : Coin} (h : noMB m = true) (e : m = .tfBurn c) : False := by
  subst e; simp [noMB, noMint, noBurn] at h

end MantraDex.C02
