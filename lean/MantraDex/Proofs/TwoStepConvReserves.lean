/-
  An accepted swap (no belief price) on a two-asset pool implies that neither reserve is empty — so the
  "no empty reserve" check of the single-asset deposit is passed whenever the swap of the two-step route is.

  Constant product: the spot rate `ask reserve / offer reserve` divides by the offer reserve; the gross output is
  `⌊Y·o/(X+o)⌋`, zero on an empty ask reserve.  Stableswap: with one empty reserve and one non-empty reserve the
  first Newton step for `D` divides by zero; with both decimal amounts zero the gross output is zero.  A zero return
  is refused (100 % slippage).
-/
import MantraDex.Model.System
import MantraDex.Proofs.NumLemmas
import MantraDex.Proofs.SwapLemmas
import MantraDex.Proofs.ProvideLemmas

set_option linter.unusedSimpArgs false
set_option linter.unusedVariables false

namespace MantraDex.TwoStepConv
open MantraDex

/-! ### generic list facts -/

theorem mapM_getElem {α β : Type} (f : α → R β) : ∀ (l : List α) (bs : List β), l.mapM f = .ok bs →
    ∀ (i : Nat) (x : α), l[i]? = some x → ∃ y, f x = .ok y ∧ bs[i]? = some y := by
  intro l
  induction l with
  | nil => intro bs _ i x hx; simp at hx
  | cons a l ih =>
    intro bs h i x hx
    rw [List.mapM_cons] at h
    simp only [bind_ok, pure_ok] at h
    obtain ⟨b, hb, bs', hbs, rfl⟩ := h
    cases i with
    | zero =>
      simp only [List.getElem?_cons_zero, Option.some.injEq] at hx
      subst hx
      exact ⟨b, hb, rfl⟩
    | succ i =>
      simp only [List.getElem?_cons_succ] at hx ⊢
      exact ih bs' hbs i x hx

theorem sum_zero {M : Nat} : ∀ (xs : List Nat) (s : Nat),
    xs.foldlM (fun acc a => ckAdd M acc a) s = .ok 0 → s = 0 ∧ ∀ a ∈ xs, a = 0 := by
  intro xs
  induction xs with
  | nil => intro s h; simp only [List.foldlM_nil, pure_ok] at h; exact ⟨h.symm, by simp⟩
  | cons x xs ih =>
    intro s h
    simp only [List.foldlM_cons, bind_ok, ckAdd_ok] at h
    obtain ⟨s', ⟨_, rfl⟩, h⟩ := h
    obtain ⟨h0, hall⟩ := ih _ h
    refine ⟨by omega, ?_⟩
    intro a ha
    simp only [List.mem_cons] at ha
    rcases ha with rfl | ha
    · omega
    · exact hall a ha

theorem foldlM_fail {α β : Type} (f : β → α → R β) (a : α) (hf : ∀ acc r, f acc a ≠ .ok r) :
    ∀ (xs : List α), a ∈ xs → ∀ acc r, xs.foldlM f acc ≠ .ok r := by
  intro xs
  induction xs with
  | nil => intro ha; cases ha
  | cons x xs ih =>
    intro ha acc r h
    simp only [List.foldlM_cons, bind_ok] at h
    obtain ⟨acc', h1, h2⟩ := h
    simp only [List.mem_cons] at ha
    rcases ha with rfl | ha
    · exact hf acc acc' h1
    · exact ih ha acc' r h2

/-! ### decimals -/

theorem decWithPrecision_zero (d : Nat) : decWithPrecision 0 d = .ok 0 := by
  unfold decWithPrecision decFromAtomics
  split
  · simp [fit]
  · split
    · rfl
    · simp

theorem decToUint_zero {d y : Nat} (h : decToUintWithPrecision 0 d = .ok y) : y = 0 := by
  unfold decToUintWithPrecision at h
  split at h
  · cases h
  · simp only [Except.ok.injEq] at h
    subst h
    simp

theorem poolDecAmounts_get {p : PoolInfo} {amounts : List Nat} (h : poolDecAmounts p = .ok amounts)
    {i : Nat} {c : Coin} {d : Nat} (hc : p.assets[i]? = some c) (hd : p.decimals[i]? = some d) :
    ∃ y, decWithPrecision c.amount d = .ok y ∧ amounts[i]? = some y := by
  unfold poolDecAmounts at h
  have hz : (p.assets.zipIdx)[i]? = some (c, i) := by
    simp [List.getElem?_zipIdx, hc]
  obtain ⟨y, hy, hget⟩ := mapM_getElem _ _ _ h i (c, i) hz
  refine ⟨y, ?_, hget⟩
  simp only [getD?, hd, ok_bind] at hy
  exact hy

/-! ### the `D` of the swap path -/

theorem stableDStep_fail {amounts : List Nat} {nDec ann sumPools cur : Nat} (h0 : 0 ∈ amounts) :
    ∀ r, stableDStep amounts nDec ann sumPools cur ≠ .ok r := by
  intro r h
  unfold stableDStep at h
  obtain ⟨newD, hfold, -⟩ := bind_ok.mp h
  refine foldlM_fail _ 0 ?_ amounts h0 cur newD hfold
  intro acc r' hr
  simp only [bind_ok, decMul_ok, decMulRatio, mulRatio_ok] at hr
  obtain ⟨mp, ⟨_, rfl⟩, hne, _⟩ := hr
  simp at hne

/-- an accepted `D` computation: either all decimal amounts are zero or none is -/
theorem stableD_inv {p : PoolInfo} {n amp dDec : Nat} (h : calculateStableswapD p n amp = .ok dDec) :
    ∃ amounts, poolDecAmounts p = .ok amounts ∧ ((∀ a ∈ amounts, a = 0) ∨ (0 ∉ amounts)) := by
  unfold calculateStableswapD at h
  simp only [bind_ok] at h
  obtain ⟨nDec, -, amounts, hamts, sumPools, hsum, h⟩ := h
  refine ⟨amounts, hamts, ?_⟩
  split at h
  · rename_i hz
    have : sumPools = 0 := by simpa using hz
    subst this
    exact Or.inl (sum_zero _ _ hsum).2
  · right
    intro h0
    obtain ⟨prod, -, h⟩ := bind_ok.mp h
    obtain ⟨ann, -, h⟩ := bind_ok.mp h
    split at h
    · obtain ⟨maxP, -, h⟩ := bind_ok.mp h
      obtain ⟨thr, -, h⟩ := bind_ok.mp h
      have hN : C.NEWTON_ITERATIONS = 254 + 1 := rfl
      rw [hN] at h
      unfold newtonIter at h
      obtain ⟨nxt, hstep, -⟩ := bind_ok.mp h
      exact stableDStep_fail h0 nxt hstep
    · simp only [↓err_bind_ok] at h

theorem stableY_inv {p : PoolInfo} {od ad : String} {apd ofd amp : Nat} {dir : Direction} {y : Nat}
    (h : calculateStableswapY p od ad apd ofd amp dir = .ok y) :
    ∃ amounts, poolDecAmounts p = .ok amounts ∧ ((∀ a ∈ amounts, a = 0) ∨ (0 ∉ amounts)) := by
  unfold calculateStableswapY at h
  obtain ⟨ann, -, h⟩ := bind_ok.mp h
  split at h
  · obtain ⟨maxPrec, -, h⟩ := bind_ok.mp h
    obtain ⟨dDec, hD, -⟩ := bind_ok.mp h
    exact stableD_inv hD
  · simp only [↓err_bind_ok] at h

/-! ### the swap computation -/

/-- the pieces of an accepted stableswap computation that matter here -/
theorem computeSwapStable_inv {p : PoolInfo} {amp : Nat} {oc ac : Coin} {op ap offer : Nat}
    {c : SwapComputation} (h : computeSwapStable p amp oc ac op ap offer = .ok c) :
    ∃ (apd : Nat) (y : Nat × Nat) (askAmt newPool gross sl : Nat) (fc : FeesComputation), decWithPrecision ac.amount ap = .ok apd ∧
      calculateStableswapY p oc.denom ac.denom apd y.1 amp .simulate = .ok y.2 ∧
      decToUintWithPrecision apd ap = .ok askAmt ∧ ckSub askAmt newPool = .ok gross ∧
      getSwapComputation gross sl fc = .ok c := by
  unfold computeSwapStable at h
  simp only [bind_ok] at h
  obtain ⟨apd, hapd, od, hod, h⟩ := h
  split at h
  · simp only [bind_ok, pure_ok] at h
    obtain ⟨_, _, y, hy, h⟩ := h
    split at h
    all_goals
      simp only [bind_ok, pure_ok] at h
    · obtain ⟨_, _, newPool, _, askAmt, haa, gross, hg, _, _, _, _, _, _, _, _, _, _, _, _, fc, _, h⟩ := h
      exact ⟨apd, (od, y), askAmt, _, gross, _, fc, hapd, hy, haa, hg, h⟩
    · obtain ⟨newPool, _, askAmt, haa, gross, hg, _, _, _, _, _, _, _, _, _, _, fc, _, h⟩ := h
      exact ⟨apd, (od, y), askAmt, _, gross, _, fc, hapd, hy, haa, hg, h⟩
  · simp [bind, Except.bind] at h

theorem ret_le_gross {gross sl : Nat} {fc : FeesComputation} {c : SwapComputation}
    (h : getSwapComputation gross sl fc = .ok c) : c.ret ≤ gross := by
  have := getSwapComputation_sum h
  omega

/-- stableswap: a non-zero return needs both reserves non-empty -/
theorem stable_reserves_ne_zero {p : PoolInfo} {amp : Nat} {oc ac : Coin} {oi ai od ad offer : Nat}
    {c : SwapComputation} (h : computeSwapStable p amp oc ac od ad offer = .ok c)
    (hoc : p.assets[oi]? = some oc) (hac : p.assets[ai]? = some ac)
    (hod : p.decimals[oi]? = some od) (had : p.decimals[ai]? = some ad) (hret : c.ret ≠ 0) :
    oc.amount ≠ 0 ∧ ac.amount ≠ 0 := by
  obtain ⟨apd, y, askAmt, newPool, gross, sl, fc, hapd, hy, haa, hg, hgs⟩ := computeSwapStable_inv h
  have hle := ret_le_gross hgs
  simp only [ckSub_ok] at hg
  -- a zero decimal ask amount gives a zero return
  have hapd0 : apd ≠ 0 := by
    intro e
    subst e
    have := decToUint_zero haa
    omega
  have hac0 : ac.amount ≠ 0 := by
    intro e
    rw [e, decWithPrecision_zero] at hapd
    simp only [Except.ok.injEq] at hapd
    exact hapd0 hapd.symm
  refine ⟨?_, hac0⟩
  intro e
  obtain ⟨amounts, hamts, hcase⟩ := stableY_inv hy
  obtain ⟨yo, hyo, hgo⟩ := poolDecAmounts_get hamts hoc hod
  obtain ⟨ya, hya, hga⟩ := poolDecAmounts_get hamts hac had
  rw [e, decWithPrecision_zero] at hyo
  simp only [Except.ok.injEq] at hyo
  subst hyo
  rw [hapd] at hya
  simp only [Except.ok.injEq] at hya
  subst hya
  rcases hcase with hall | hnone
  · exact hapd0 (hall _ (List.mem_of_getElem? hga))
  · exact hnone (List.mem_of_getElem? hgo)

/-- constant product: a non-zero return needs both reserves non-empty -/
theorem cp_reserves_ne_zero {p : PoolInfo} {X Y o : Nat} {c : SwapComputation}
    (h : computeSwapCP p X Y o = .ok c) (hret : c.ret ≠ 0) : X ≠ 0 ∧ Y ≠ 0 := by
  obtain ⟨_, slip, fc, _, hgs⟩ := computeSwapCP_inv h
  have hle := ret_le_gross hgs
  unfold computeSwapCP at h
  simp only [bind_ok, ckMul_ok, ckAdd_ok, orPanic_ok, decFromRatio_ok] at h
  obtain ⟨num, _, den, _, q, _, rate, ⟨hX, _⟩, -⟩ := h
  refine ⟨hX, ?_⟩
  intro e
  subst e
  simp at hle
  exact hret hle

/-- `getAssetIndexes`, everything it returns -/
theorem getAssetIndexes_full {p : PoolInfo} {od ad : String} {oc ac : Coin} {oi ai d1 d2 : Nat}
    (h : getAssetIndexes p od ad = .ok (oc, ac, oi, ai, d1, d2)) :
    oi ≠ ai ∧ p.assets[oi]? = some oc ∧ p.assets[ai]? = some ac ∧
    p.decimals[oi]? = some d1 ∧ p.decimals[ai]? = some d2 := by
  unfold getAssetIndexes at h
  cases hi : findIdx (fun c : Coin => c.denom == od) p.assets with
  | none => rw [hi] at h; simp only [↓err_bind_ok] at h
  | some i =>
    cases hj : findIdx (fun c : Coin => c.denom == ad) p.assets with
    | none => rw [hi, hj] at h; simp only [↓pure_bind', ↓err_bind_ok] at h
    | some j =>
      rw [hi, hj] at h
      simp only [↓pure_bind'] at h
      split at h
      · cases h
      · rename_i hne
        simp only [bind_ok, pure_ok, getD?_ok', Prod.mk.injEq] at h
        obtain ⟨oc', h1, ac', h2, d1', h3, d2', h4, rfl, rfl, rfl, rfl, rfl, rfl⟩ := h
        exact ⟨by simpa using hne, h1, h2, h3, h4⟩

/-- an accepted swap computation with a non-zero return on a two-asset pool: no reserve is empty -/
theorem computeSwap_no_empty_reserve {pool : PoolInfo} {offer : Coin} {ask : Denom} {c : SwapComputation}
    (hlen : pool.assets.length = 2) (h : computeSwap pool offer ask = .ok c) (hret : c.ret ≠ 0) :
    pool.assets.any (·.amount == 0) = false := by
  unfold computeSwap at h
  obtain ⟨⟨oc, ac, oi, ai, od, ad⟩, hidx, h⟩ := bind_ok.mp h
  simp only at h
  obtain ⟨hne, hoc, hac, hod, had⟩ := getAssetIndexes_full hidx
  have hboth : oc.amount ≠ 0 ∧ ac.amount ≠ 0 := by
    cases hpt : pool.ptype with
    | cp => rw [hpt] at h; exact cp_reserves_ne_zero h hret
    | stable amp => rw [hpt] at h; exact stable_reserves_ne_zero h hoc hac hod had hret
  match hpa : pool.assets, hlen with
  | [a0, a1], _ =>
    rw [hpa] at hoc hac
    have hcases : (oi = 0 ∧ ai = 1) ∨ (oi = 1 ∧ ai = 0) := by
      rcases oi with _ | _ | oi
      · rcases ai with _ | _ | ai
        · exact absurd rfl hne
        · exact Or.inl ⟨rfl, rfl⟩
        · simp at hac
      · rcases ai with _ | _ | ai
        · exact Or.inr ⟨rfl, rfl⟩
        · exact absurd rfl hne
        · simp at hac
      · simp at hoc
    rcases hcases with ⟨rfl, rfl⟩ | ⟨rfl, rfl⟩
    · simp only [List.getElem?_cons_zero, List.getElem?_cons_succ, Option.some.injEq] at hoc hac
      subst hoc hac
      simp [hboth.1, hboth.2]
    · simp only [List.getElem?_cons_zero, List.getElem?_cons_succ, Option.some.injEq] at hoc hac
      subst hoc hac
      simp [hboth.1, hboth.2]

end MantraDex.TwoStepConv
