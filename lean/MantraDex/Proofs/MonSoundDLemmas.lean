/-
  MonSoundD helpers (soundness of the claim monitor `monClaim` with respect to the model).

  * `bump`, `farms_fold`, `claim_farms`: the evolving state of the claim loop, farm side — after the LP tokens `done` every
    farm of an LP token in `done` has had its `claimed` amount raised by exactly the ledger's entitlement
    (`Split.claimOwed` = `Spec.spanReward` from the cursor / entry epoch up to `until`), every other farm is untouched
    (extends `LedSys.Mid`, which does not follow `claimed`);
  * `claim_outflow`: the coins of the payout message, per denom, as a sum of ledger entitlements;
  * `claim_tx`: the transaction tree of an accepted top-level claim, with the farm manager's post-state;
  * `monClaim_quiet`: the monitor is quiet when every clause holds (glue);
  * `spanReward_le_ofUsers`: the ledger's entitlement never exceeds the user's share of his own weight when the total
    weight covers the user's.
-/
import MantraDex.Model.System
import MantraDex.Model.HistMon
import MantraDex.Proofs.QueryClaim
import MantraDex.Proofs.SplitLemmas
import MantraDex.Proofs.PosTxClaim

set_option linter.unusedSimpArgs false
set_option linter.unusedVariables false

namespace MantraDex.MonSoundDL
open MantraDex

/-! ### sums selected by a farm identifier -/

theorem dsum_id_not {fs : List Farm} {id : String} (h : ∀ g ∈ fs, g.id ≠ id) (δ : Farm → Nat) :
    Split.dsum fs (·.id == id) δ = 0 := by
  unfold Split.dsum
  apply Split.sum_map_zero
  intro g hg
  have : (g.id == id) = false := by simpa using h g hg
  simp only [this, Bool.false_eq_true, if_false]

theorem dsum_id_mem : ∀ {fs : List Farm}, (fs.map (·.id)).Nodup → ∀ {q : Farm}, q ∈ fs → ∀ (δ : Farm → Nat),
    Split.dsum fs (·.id == q.id) δ = δ q := by
  intro fs
  induction fs with
  | nil => intro _ q hq; cases hq
  | cons g fs ih =>
    intro hn q hq δ
    simp only [List.map_cons, List.nodup_cons] at hn
    obtain ⟨hg, hn'⟩ := hn
    rw [Split.dsum_cons]
    rcases List.mem_cons.1 hq with rfl | hq'
    · rw [dsum_id_not (fs := fs) (id := q.id) (by
        intro g' hg' e
        exact hg (e ▸ List.mem_map_of_mem (f := fun x => x.id) hg'))]
      simp
    · have hne : (g.id == q.id) = false := by
        have : g.id ≠ q.id := fun e => hg (e ▸ List.mem_map_of_mem (f := fun x => x.id) hq')
        simpa using this
      simp only [hne, Bool.false_eq_true, if_false, Nat.zero_add]
      exact ih hn' hq' δ

/-! ### the farm side of the claim loop -/

/-- a farm after the claim loop handled the LP tokens `done`: `claimed` is raised by the ledger's entitlement if the farm's
    LP token was handled -/
def bump (s : FmState) (env : FmEnv) (sender : Addr) (u : Nat) (done : List Denom) (q : Farm) : Farm :=
  { q with claimed := q.claimed + if q.lpDenom ∈ done then Split.claimOwed s env sender q.lpDenom u q else 0 }

theorem bump_id (s : FmState) (env : FmEnv) (sender : Addr) (u : Nat) (done : List Denom) (q : Farm) :
    (bump s env sender u done q).id = q.id := rfl

theorem bump_nil (s : FmState) (env : FmEnv) (sender : Addr) (u : Nat) (q : Farm) : bump s env sender u [] q = q := by
  unfold bump
  simp only [List.not_mem_nil, if_false, Nat.add_zero]

theorem setClaimed_congr (q : Farm) {a b : Nat} (h : a = b) : ({ q with claimed := a } : Farm) = { q with claimed := b } := by
  rw [h]

theorem filter_lp_nodup {s : FmState} (hn : (s.farms.map (·.id)).Nodup) (lp : Denom) :
    ((s.farms.filter (·.lpDenom == lp)).map (·.id)).Nodup :=
  ((List.filter_sublist).map _).nodup hn

/-- one LP token more -/
theorem farms_step {s : FmState} {env : FmEnv} {sender : Addr} {untilE : Nat} {done : List Denom}
    {st st' : FmState × List Coin} {lp : Denom} (hn : (s.farms.map (·.id)).Nodup)
    (hall : ∀ lp, s.farmsByLp lp s.config.maxConcurrentFarms = s.farms.filter (·.lpDenom == lp))
    (hsorted : ∀ a lp, Farm.Asc (s.hist a lp))
    (hcomp : ∀ l, s.lastClaimed sender = some l → ∀ lp, ∀ x ∈ s.hist sender lp, l ≤ x.1)
    (hm : LedSys.Mid s env sender untilE done st) (hlp : lp ∉ done)
    (hf : st.1.farms = s.farms.map (bump s env sender untilE done))
    (h : Farm.claimStep env sender untilE st lp = .ok st') :
    st'.1.farms = s.farms.map (bump s env sender untilE (done ++ [lp])) := by
  have hcalc := QueryClaim.mid_calc (env := env) hm hlp
  unfold Farm.claimStep at h
  simp only [bind_ok, pure_ok] at h
  obtain ⟨rc, hrc, s1, hs1, s2, hs2, rfl⟩ := h
  have hn1 : (st.1.farms.map (·.id)).Nodup := by rw [hm.ids]; exact hn
  have hs1' : rc.modified.foldlM Farm.modStep st.1 = .ok s1 := hs1
  obtain ⟨m1, m2, _, _, _⟩ := Split.modFold_char _ hn1 hs1'
  rw [hcalc] at hrc
  have hne : s.hist sender lp ≠ [] := by
    have := (LedSys.sync_true_cases2 hs2).1
    rw [m2, hm.histOther sender lp (Or.inr hlp)] at this
    exact this
  obtain ⟨_, _, c3⟩ := Split.calculateRewards_char (hsorted sender lp) (hsorted env.self lp) hne
    (fun l hl x hx => hcomp l hl lp x hx) hrc
  show s2.farms = _
  rw [(Farm.sync_frame hs2).1, m1, hf, List.map_map]
  apply List.map_congr_left
  intro q hq
  simp only [Function.comp, Split.addC, bump_id]
  rw [c3 q.id, hall lp]
  unfold bump
  simp only [Nat.add_assoc]
  apply setClaimed_congr
  congr 1
  by_cases hql : q.lpDenom = lp
  · have hqf : q ∈ s.farms.filter (·.lpDenom == lp) := List.mem_filter.2 ⟨hq, by simpa using hql⟩
    rw [dsum_id_mem (filter_lp_nodup hn lp) hqf]
    have h1 : ¬ q.lpDenom ∈ done := by rw [hql]; exact hlp
    have h2 : q.lpDenom ∈ done ++ [lp] := by rw [hql]; simp
    simp only [h1, h2, if_false, if_true, Nat.zero_add]
    unfold Split.claimOwed
    rw [hql]
  · rw [dsum_id_not (by
      intro g hg e
      obtain ⟨hg1, hg2⟩ := List.mem_filter.1 hg
      have := FH.nodup_key_inj Farm.id s.farms hn g hg1 q hq e
      subst this
      exact hql (by simpa using hg2))]
    have h2 : q.lpDenom ∈ done ++ [lp] ↔ q.lpDenom ∈ done := by
      simp only [List.mem_append, List.mem_singleton, hql, or_false]
    simp only [h2, Nat.add_zero]

theorem farms_fold {s : FmState} {env : FmEnv} {sender : Addr} {untilE : Nat} (hn : (s.farms.map (·.id)).Nodup)
    (hall : ∀ lp, s.farmsByLp lp s.config.maxConcurrentFarms = s.farms.filter (·.lpDenom == lp))
    (hsorted : ∀ a lp, Farm.Asc (s.hist a lp))
    (hcomp : ∀ l, s.lastClaimed sender = some l → ∀ lp, ∀ x ∈ s.hist sender lp, l ≤ x.1) :
    ∀ (rest done : List Denom) (st st' : FmState × List Coin), (done ++ rest).Nodup →
    LedSys.Mid s env sender untilE done st → st.1.farms = s.farms.map (bump s env sender untilE done) →
    rest.foldlM (Farm.claimStep env sender untilE) st = .ok st' →
    st'.1.farms = s.farms.map (bump s env sender untilE (done ++ rest)) := by
  intro rest
  induction rest with
  | nil =>
    intro done st st' _ _ hf h
    simp only [List.foldlM_nil, pure_ok] at h
    subst h
    rw [List.append_nil]; exact hf
  | cons lp rest ih =>
    intro done st st' hnd hm hf h
    simp only [List.foldlM_cons, bind_ok] at h
    obtain ⟨st1, h1, h2⟩ := h
    have hlp : lp ∉ done := by
      intro hx
      rw [List.nodup_append] at hnd
      exact hnd.2.2 lp hx lp List.mem_cons_self rfl
    have := ih (done ++ [lp]) st1 st' (by rw [List.append_assoc]; exact hnd) (LedSys.mid_step hn hm hlp h1)
      (farms_step hn hall hsorted hcomp hm hlp hf h1) h2
    rw [List.append_assoc] at this
    exact this

/-- the farms after an accepted claim -/
theorem claim_farms {s s' : FmState} {env : FmEnv} {sender : Addr} {funds : List Coin} {un : Option Nat} {r : Response}
    {cur untilE : Nat} (hn : (s.farms.map (·.id)).Nodup)
    (hall : ∀ lp, s.farmsByLp lp s.config.maxConcurrentFarms = s.farms.filter (·.lpDenom == lp))
    (hsorted : ∀ a lp, Farm.Asc (s.hist a lp))
    (hcomp : ∀ l, s.lastClaimed sender = some l → ∀ lp, ∀ x ∈ s.hist sender lp, l ≤ x.1)
    (hcur : fmCurrentEpoch s env = .ok cur) (hun : untilEpochOrCurrent un cur = .ok untilE)
    (h : fmClaim s env sender funds un = .ok (s', r)) :
    s'.farms = s.farms.map (bump s env sender untilE (uniqueDenoms (s.positionsBy sender true))) := by
  obtain ⟨cur', untilE', sF, total, msgs, _, hop, hcur', hun', hfold, rfl, rfl, hm⟩ := Farm.fmClaim_ok h
  rw [hcur] at hcur'; cases hcur'
  rw [hun] at hun'; cases hun'
  have := farms_fold (env := env) (sender := sender) (untilE := untilE) hn hall hsorted hcomp _ [] _ _
    (by rw [List.nil_append]; exact LedSys.uniqueDenoms_nodup _) (LedSys.mid_init s env sender untilE)
    (by
      show s.farms = _
      rw [List.map_congr_left (fun q _ => bump_nil s env sender untilE q), List.map_id']) hfold
  rw [List.nil_append] at this
  exact this

/-- the coins of the payout message of an accepted claim, per denom: the ledger's entitlements of the farms paying that
    denom, LP token by LP token -/
theorem claim_outflow {s s' : FmState} {env : FmEnv} {sender : Addr} {funds : List Coin} {un : Option Nat} {r : Response}
    {cur untilE : Nat} (hn : (s.farms.map (·.id)).Nodup)
    (hall : ∀ lp, s.farmsByLp lp s.config.maxConcurrentFarms = s.farms.filter (·.lpDenom == lp))
    (hsorted : ∀ a lp, Farm.Asc (s.hist a lp))
    (hcomp : ∀ l, s.lastClaimed sender = some l → ∀ lp, ∀ x ∈ s.hist sender lp, l ≤ x.1)
    (hcur : fmCurrentEpoch s env = .ok cur) (hun : untilEpochOrCurrent un cur = .ok untilE)
    (h : fmClaim s env sender funds un = .ok (s', r)) (d : Denom) :
    C05.outflow r.msgs d = ((uniqueDenoms (s.positionsBy sender true)).map fun lp =>
      Split.dsum (s.farms.filter (·.lpDenom == lp)) (·.assetDenom == d) (Split.claimOwed s env sender lp untilE)).sum := by
  obtain ⟨cur', untilE', sF, total, hop, hcur', hun', hle, hmid, hs', hout⟩ := LedSys.claim_run hn h
  rw [hcur] at hcur'; cases hcur'
  rw [hun] at hun'; cases hun'
  rw [hout d, hmid.coins d]
  congr 1
  apply List.map_congr_left
  intro lp hlp
  obtain ⟨rc, hrc⟩ := hmid.calcOk lp hlp
  rw [LedSys.lpRewards_of_ok hrc]
  obtain ⟨_, c2, _⟩ := Split.calculateRewards_char (hsorted sender lp) (hsorted env.self lp) (hmid.histDone lp hlp).1
    (fun l hl x hx => hcomp l hl lp x hx) hrc
  rw [c2 d, hall lp]
  rfl

/-! ### the transaction tree of an accepted top-level claim (as `PosTx.claim_run`, keeping the farm manager's state) -/

open MantraDex.C01 (coinsOf) in
theorem claim_tx {w w' : World} {u : Addr} {un : Option Nat} {funds : List Coin} {k : Option Nat}
    (h : runTx w (.exec u FM (.fm (.claim un)) funds) k = .ok w') :
    ∃ s r agg, fmClaim w.fm w.fmEnv u funds un = .ok (s, r) ∧ w'.fm = s ∧
      Moves { w.bank with calls := 0, failAt := k } w'.bank FM u agg ∧
      ∀ d, coinsOf agg d = C05.outflow r.msgs d := by
  unfold runTx at h
  simp only at h
  have h64 : FUEL = 63 + 1 := rfl
  rw [h64] at h
  obtain ⟨b, s, r, hb, hx, hsubs⟩ := FarmTx.execMsg_fm_any h
  simp only [fmExecute] at hx
  have hx' : fmClaim w.fm w.fmEnv u funds un = .ok (s, r) := hx
  obtain ⟨hfunds, hshape⟩ := PosTx.fmClaim_shape hx'
  subst hfunds
  have hb' : b = { w.bank with calls := 0, failAt := k } := by
    rcases hb with ⟨_, hb⟩ | ⟨hne, _⟩
    · exact hb
    · exact absurd rfl hne
  subst hb'
  rcases hshape with hr | ⟨agg, hr⟩
  · rw [hr] at hsubs
    have := FarmTx.execSubs_nil hsubs
    subst this
    refine ⟨s, r, [], hx', rfl, PosTx.moves_nil _ _ _, ?_⟩
    intro d
    rw [hr]
    rfl
  · rw [hr] at hsubs
    have hsubs' : execSubs 63 _ FM ([Msg.bankSend u agg].map mkSub) = .ok w' := hsubs
    rw [execSubs_leaf [Msg.bankSend u agg] 63 _ FM (by
      intro m hm; simp only [List.mem_singleton] at hm; subst hm; trivial) (by simp)] at hsubs'
    obtain ⟨b2, hrun, hw'⟩ := bind_ok.mp hsubs'
    simp only [pure_ok] at hw'
    subst hw'
    rw [bankRun_single] at hrun
    refine ⟨s, r, agg, hx', rfl, (send_spec hrun).2, ?_⟩
    intro d
    rw [hr]
    simp [C05.outflow_eq, mkSub, C05.msgOut, C05.coinsOf_eq, C01.coinsOf, C01.sumNat, List.sum_eq_foldl]

/-! ### the ledger's entitlement against the user's share of his own weight -/

theorem sum_map_le {α : Type} (l : List α) (f g : α → Nat) (h : ∀ a ∈ l, f a ≤ g a) : (l.map f).sum ≤ (l.map g).sum := by
  induction l with
  | nil => exact Nat.le_refl _
  | cons a l ih =>
    simp only [List.map_cons, List.sum_cons]
    exact Nat.add_le_add (h a List.mem_cons_self) (ih (fun b hb => h b (List.mem_cons_of_mem _ hb)))

theorem spanReward_le_ofUsers (rate start end_ : Nat) (uh th : List (Nat × Nat)) (first until_ : Nat)
    (hcov : ∀ e, Spec.weightAt uh e ≤ Spec.weightAt th e) :
    Spec.spanReward ⟨rate, start, end_⟩ uh th first until_ ≤ spanRewardOfUsers rate start end_ uh [] first until_ := by
  unfold Spec.spanReward spanRewardOfUsers
  rw [Farm.foldl_add_eq_sum, Farm.foldl_add_eq_sum]
  apply Nat.add_le_add_left
  apply sum_map_le
  intro i _
  unfold Spec.epochShare
  simp only [List.map_nil, List.foldl_nil, Nat.add_zero]
  split
  · by_cases ht : Spec.weightAt th (first + i) = 0
    · simp only [ht, if_true]; exact Nat.zero_le _
    · simp only [ht, if_false]
      by_cases hu : Spec.weightAt uh (first + i) = 0
      · simp only [hu, if_true, Nat.mul_zero, Nat.zero_div]; exact Nat.le_refl _
      · simp only [hu, if_false]
        exact Nat.div_le_div_left (hcov _) (Nat.pos_of_ne_zero hu)
  · exact Nat.le_refl _

/-! ### the monitor, clause by clause -/

/-- no clause fails ⇒ no alarm (as `MonSoundL.firstFail_none`) -/
theorem firstFail_none (xs : List (Bool × String)) (h : ∀ x ∈ xs, x.1 = true) : firstFail xs = none := by
  have hf : xs.filter (fun x => !x.1) = [] := by
    rw [List.filter_eq_nil_iff]
    intro x hx
    simp [h x hx]
  unfold firstFail
  simp only [hf, List.map_nil, List.foldl_nil]

/-- the monitor's list of (reward denom, ledger entitlement, observed increase of `claimed`) -/
def perFarm (until_ : Nat) (cursor : Option Nat) (lps : List ClaimLp) : List (String × Nat × Nat) :=
  lps.flatMap fun l =>
    l.farms.map fun (rate, start, end_, denom, cd) =>
      (denom, Spec.spanReward ⟨rate, start, end_⟩ l.uh l.th (Spec.firstEpoch cursor l.entry) until_, cd)

/-- the monitor's expected payment in one denom -/
def expectedOf (until_ : Nat) (cursor : Option Nat) (lps : List ClaimLp) (d : String) : Nat :=
  (((perFarm until_ cursor lps).filter (·.1 == d)).map (·.2.1)).foldl (· + ·) 0

theorem monClaim_quiet (until_ : Nat) (cursor : Option Nat) (lps : List ClaimLp) (paid : List (String × Int × Int))
    (hfarm : ∀ l ∈ lps, ∀ t ∈ l.farms,
      t.2.2.2.2 = Spec.spanReward ⟨t.1, t.2.1, t.2.2.1⟩ l.uh l.th (Spec.firstEpoch cursor l.entry) until_ ∧
      t.2.2.2.2 ≤ spanRewardOfUsers t.1 t.2.1 t.2.2.1 l.uh l.others (Spec.firstEpoch cursor l.entry) until_)
    (hpaid : ∀ x ∈ paid, x.2.1 = (expectedOf until_ cursor lps x.1 : Int) ∧ x.2.1 = x.2.2) :
    monClaim until_ cursor lps paid none = none := by
  unfold monClaim
  apply firstFail_none
  intro x hx
  simp only [List.mem_append, List.mem_map, List.mem_flatMap, List.not_mem_nil, or_false] at hx
  rcases hx with ((⟨a, ⟨l, hl, t, ht, rfl⟩, rfl⟩ | ⟨a, ⟨l, hl, t, ht, rfl⟩, rfl⟩) | ⟨a, ha, hx⟩) | ⟨l, hl, t, ht, rfl⟩
  · have := (hfarm l hl t ht).1
    simp only [decide_eq_true_eq]
    exact Nat.le_of_eq this
  · have := (hfarm l hl t ht).1
    simp only [decide_eq_true_eq]
    exact Nat.le_of_eq this.symm
  · obtain ⟨h1, h2⟩ := hpaid a ha
    unfold expectedOf perFarm at h1
    simp only [List.mem_cons, List.not_mem_nil, or_false] at hx
    rcases hx with rfl | rfl | rfl
    · simp only [decide_eq_true_eq]
      rw [h1]
      exact Int.le_refl _
    · simp only [decide_eq_true_eq]
      rw [h1]
      exact Int.le_refl _
    · simp only [beq_iff_eq]
      exact h2
  · simp only [decide_eq_true_eq]
    exact (hfarm l hl t ht).2

/-! ### reading a farm back after the claim -/

theorem find_map_id {l : List Farm} (hn : (l.map (·.id)).Nodup) {f : Farm} (hf : f ∈ l) (g : Farm → Farm)
    (hg : ∀ q, (g q).id = q.id) : (l.map g).find? (·.id == f.id) = some (g f) := by
  rw [List.find?_map]
  have hc : ((fun (x : Farm) => x.id == f.id) ∘ g) = (fun (x : Farm) => x.id == f.id) := by
    funext q
    simp only [Function.comp, hg]
  rw [hc]
  cases hfind : l.find? (·.id == f.id) with
  | none =>
    rw [List.find?_eq_none] at hfind
    exact absurd (by simp) (hfind f hf)
  | some f' =>
    have hm := List.mem_of_find?_eq_some hfind
    have hid : f'.id = f.id := by simpa using List.find?_some hfind
    rw [FH.nodup_key_inj Farm.id l hn f' hm f hf hid]
    rfl

theorem sum_filter_map {α : Type} (l : List α) (p : α → Bool) (δ : α → Nat) :
    ((l.filter p).map δ).sum = (l.map fun a => if p a then δ a else 0).sum := by
  induction l with
  | nil => rfl
  | cons a l ih =>
    rw [List.filter_cons]
    cases hp : p a with
    | true => simp only [if_true, List.map_cons, List.sum_cons, hp, ih]
    | false => simp only [Bool.false_eq_true, if_false, List.map_cons, List.sum_cons, hp, ih, Nat.zero_add]

end MantraDex.MonSoundDL
