/-
  Counterexample to `close_position_tx_effect` as first written (C08Tx): a partial close with a ZERO amount is
  accepted and stores a closed position of amount 0, so the conjunct `part.amount ≠ 0` is false.  Kernel-checked.
-/
import MantraDex.Model.System
import MantraDex.Proofs.SysLemmas
import MantraDex.Properties.C05Sys

set_option linter.unusedSimpArgs false
set_option linter.unusedVariables false

namespace MantraDex.PosTx.Cx
open MantraDex

def lp : Denom := "factory/pm/p.LP"

/-- `alice`'s open position of 100 LP -/
def pos0 : Position :=
  { id := "u-a", lpDenom := lp, amount := 100, unlocking := 86400, open_ := true, expiringAt := none,
    receiver := "alice" }

def w0 : World := {
  bank := { bal := fun a d => if a = FM ∧ d = lp then 100 else 0, supply := fun d => if d = lp then 100 else 0 }
  pm := { config := ⟨FC, FM, ⟨"uom", 0⟩⟩, owner := { owner := some "o" } }
  fm := { config := ⟨FC, EM, PM, ⟨"uom", 0⟩, 1, 14, 86400, 31556926, 2629746, 0⟩, positions := [pos0],
          owner := { owner := some "o" } }
  em := { cfg := ⟨86400, 0⟩, owner := { owner := some "o" } }
  fc := { owner := some "o" }, nowNs := 86400 * 2 * 1000000000, tfFees := [], validAddr := fun _ => true }

/-- `alice` closes ZERO of her 100 LP -/
def tx0 : Tx := .exec "alice" FM (.fm (.closePosition "u-a" (some ⟨lp, 0⟩))) []

/-- the closed part: amount 0 -/
def part0 : Position :=
  { id := "p-1", lpDenom := lp, amount := 0, unlocking := 86400, open_ := false, expiringAt := some (86400 * 3),
    receiver := "alice" }

theorem run0 : (runTx w0 tx0).toOption.map (fun w' => w'.fm.positions) = some [part0, pos0] := by
  decide +kernel

/-- the world satisfies the custody invariant -/
theorem inv0 : C05Sys.FmInv w0 := by
  refine ⟨?_, by decide, by decide, ?_, ?_⟩
  · intro d
    show C05.liability w0.fm d ≤ (if FM = FM ∧ d = lp then 100 else 0)
    unfold C05.liability
    by_cases hd : d = lp
    · subst hd
      decide
    · have h1 : (lp == d) = false := by simpa using fun e => hd e.symm
      simp [w0, pos0, h1, C05.sumNat]
  · intro f hf
    cases hf
  · intro n hn
    have hne := Sys.auto_ne_explicit n "a"
    have he : C.EXPLICIT_POSITION_ID_PREFIX ++ "a" = "u-a" := by decide
    rw [he] at hne
    unfold FmState.getPosition
    have : (("u-a" : String) == C.AUTO_POSITION_ID_PREFIX ++ toString n) = false := by
      simpa using fun e => hne e.symm
    show List.find? (fun x => x.id == C.AUTO_POSITION_ID_PREFIX ++ toString n) [pos0] = none
    rw [List.find?_cons]
    have : (pos0.id == C.AUTO_POSITION_ID_PREFIX ++ toString n) = false := this
    rw [this]
    rfl

/-- the original conclusion of `close_position_tx_effect` fails for this accepted transaction: the position
    "u-a" is still open (so the full-close disjunct is false) and the only closed position has amount 0 (so no
    `part` with `part.open_ = false ∧ part.amount ≠ 0` exists) -/
theorem close_zero_counterexample :
    C05Sys.FmInv w0 ∧ isContract "alice" = false ∧ w0.fm.getPosition "u-a" = some pos0 ∧
    ∃ w', runTx w0 tx0 = .ok w' ∧ w'.fm.getPosition "u-a" = some pos0 ∧ pos0.open_ = true ∧
      ∀ q ∈ w'.fm.positions, q.open_ = false → q.amount = 0 := by
  refine ⟨inv0, by decide, by decide, ?_⟩
  have h := run0
  cases hr : runTx w0 tx0 with
  | error e => rw [hr] at h; cases h
  | ok w' =>
    rw [hr] at h
    simp only [Except.toOption, Option.map_some, Option.some.injEq] at h
    refine ⟨w', rfl, ?_, rfl, ?_⟩
    · unfold FmState.getPosition
      rw [h]
      decide
    · rw [h]
      decide

end MantraDex.PosTx.Cx
