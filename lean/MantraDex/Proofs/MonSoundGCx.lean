/-
  MonSoundG: the concrete, kernel-evaluated history behind `MonSoundG.monExitWeight_quiet_on_clamped_owner`.

  A fresh deployment in which `alice` holds 3 LP and `bob` 1 LP; unlocking duration 80 days, for which the weight
  multiplier is 1.889…: `calculate_weight(1) = 1`, `calculate_weight(2) = 3` (strictly super-additive).

    bob    CreatePosition 1 LP                 total 1
    alice  CreatePosition 1 LP  ("u-a")        alice 1, total 2
    alice  ExpandPosition +1 LP                alice 2, total 3
    alice  ExpandPosition +1 LP                alice 3, total 4      (the position holds 3 LP)
    alice  ClosePosition 2 LP of "u-a"         removes min(calculate_weight(2), 3) = 3:  alice 0, total 1
                                               — "u-a" stays OPEN with 1 LP and a recorded weight of ZERO
    alice  WithdrawPosition "u-a" emergency    removes min(calculate_weight(1), 0) = 0:  alice 0, total 1 (unchanged)

  The state before the last transaction satisfies `C10Sys.WInv` and `C05Sys.FmInv` (it is reached from a fresh deployment by
  account-signed transactions); the exit is accepted; the total's latest weight is 1 before and after.

  Evaluation uses the kernel-evaluable twins of `Proofs/NonVacTwin.lean` (`stepK = step`, `runTxK = runTx`) and of
  `Proofs/ExactWCx.lean` (`stepExpandK` for a top-level ExpandPosition).  Proof devices only.
-/
import MantraDex.Model.System
import MantraDex.Model.HistMon
import MantraDex.Proofs.NonVacTwin
import MantraDex.Proofs.ExactWCx
import MantraDex.Properties.C05Sys
import MantraDex.Properties.C10Sys
import MantraDex.Proofs.MonSoundGNoExp

set_option linter.unusedSimpArgs false
set_option linter.unusedVariables false

namespace MantraDex.MonSoundGL.Cx
open MantraDex

def lp : Denom := "factory/pm/p.LP"

/-- a fresh deployment; `alice` holds 3 LP, `bob` 1 LP; emergency penalty 0 -/
def w0 : World := {
  bank := { bal := fun a d => if a = "alice" ∧ d = lp then 3 else if a = "bob" ∧ d = lp then 1 else 0,
            supply := fun d => if d = lp then 4 else 0 }
  pm := { config := ⟨FC, FM, ⟨"uom", 0⟩⟩, owner := { owner := some "o" } }
  fm := { config := ⟨FC, EM, PM, ⟨"uom", 0⟩, 1, 14, 86400, 31556926, 2629746, 0⟩,
          owner := { owner := some "o" } }
  em := { cfg := ⟨86400, 0⟩, owner := { owner := some "o" } }
  fc := { owner := some "o" }, nowNs := 86400 * 2 * 1000000000, tfFees := [], validAddr := fun _ => true }

/-- 80 days: the weight multiplier is 1.889…, `calculate_weight(1) = 1`, `calculate_weight(2) = 3` -/
def d80 : Nat := 86400 * 80

def tBob : Tx := .exec "bob" FM (.fm (.createPosition (some "b") d80 none)) [⟨lp, 1⟩]
def tCreate : Tx := .exec "alice" FM (.fm (.createPosition (some "a") d80 none)) [⟨lp, 1⟩]
def tExpand : Tx := .exec "alice" FM (.fm (.expandPosition "u-a")) [⟨lp, 1⟩]
def tClose2 : Tx := .exec "alice" FM (.fm (.closePosition "u-a" (some ⟨lp, 2⟩))) []
def tExit : Tx := .exec "alice" FM (.fm (.withdrawPosition "u-a" (some true))) []

def w1 : World := step w0 tBob none
def w2 : World := step w1 tCreate none
def w3 : World := step w2 tExpand none
def w4 : World := step w3 tExpand none
/-- the state in which `alice` owns the open position "u-a" of 1 LP with a recorded weight of zero -/
def w5 : World := step w4 tClose2 none
def w6 : World := step w5 tExit none

/-- the position `alice` exits with -/
def pA : Position := ⟨"u-a", lp, 1, d80, true, none, "alice"⟩

def latestK (h : List (Nat × Nat)) : Nat := (h.getLast?.map (·.2)).getD 0

/-- what stays fixed along the history (for `C10Sys.EpochStable` and `hpm` of `C10Sys.winv_step`) -/
def fixedOk (w : World) : Bool :=
  decide (w.em.cfg = w0.em.cfg) && decide (w.fm.config.epochManager = w0.fm.config.epochManager) &&
  decide (w.nowNs ≤ U64_MAX) && decide (w.fm.config.poolManager = PM)

/-- everything the counterexample needs, evaluated by the kernel in one go -/
theorem evaluated :
    fixedOk w1 = true ∧ fixedOk w2 = true ∧ fixedOk w3 = true ∧ fixedOk w4 = true ∧ fixedOk w5 = true ∧
    w5.fm.getPosition "u-a" = some pA ∧
    (match runTx w5 tExit none with | .ok _ => true | .error _ => false) = true ∧
    (latestK (w5.fm.hist "alice" lp), latestK (w6.fm.hist "alice" lp),
      latestK (w5.fm.hist FM lp), latestK (w6.fm.hist FM lp)) = (0, 0, 1, 1) := by
  unfold w6 w5 w4 w3 w2 w1
  simp only [tExpand, ExactW.Cx.step_expand_eq]
  rw [← NonVac.stepK_eq, ← NonVac.runTxK_eq]
  decide +kernel

theorem external : C05Sys.External tBob ∧ C05Sys.External tCreate ∧ C05Sys.External tExpand ∧
    C05Sys.External tClose2 := by
  refine ⟨⟨by decide, by decide⟩, ⟨by decide, by decide⟩, ⟨by decide, by decide⟩, ⟨by decide, by decide⟩⟩

theorem fixed_of {w : World} (h : fixedOk w = true) :
    w.em.cfg = w0.em.cfg ∧ w.fm.config.epochManager = w0.fm.config.epochManager ∧ w.nowNs ≤ U64_MAX ∧
    w.fm.config.poolManager = PM := by
  unfold fixedOk at h
  simp only [Bool.and_eq_true, decide_eq_true_eq] at h
  exact ⟨h.1.1.1, h.1.1.2, h.1.2, h.2⟩

/-- the state before the exit satisfies both invariants (it is reachable) -/
theorem invariants : C10Sys.WInv w5 ∧ C05Sys.FmInv w5 := by
  obtain ⟨f1, f2, f3, f4, f5, _⟩ := evaluated
  obtain ⟨a1, b1, c1, d1⟩ := fixed_of f1
  obtain ⟨a2, b2, c2, d2⟩ := fixed_of f2
  obtain ⟨a3, b3, c3, d3⟩ := fixed_of f3
  obtain ⟨a4, b4, c4, d4⟩ := fixed_of f4
  obtain ⟨a5, b5, c5, d5⟩ := fixed_of f5
  obtain ⟨x1, x2, x3, x4⟩ := external
  have i0 : C10Sys.WInv w0 := C10Sys.winv_init w0 rfl rfl rfl
  have i1 : C10Sys.WInv w1 := C10Sys.winv_step w0 tBob none x1 ⟨a1, b1, c1⟩ rfl i0
  have i2 : C10Sys.WInv w2 :=
    C10Sys.winv_step w1 tCreate none x2 ⟨a2.trans a1.symm, b2.trans b1.symm, c2⟩ d1 i1
  have i3 : C10Sys.WInv w3 :=
    C10Sys.winv_step w2 tExpand none x3 ⟨a3.trans a2.symm, b3.trans b2.symm, c3⟩ d2 i2
  have i4 : C10Sys.WInv w4 :=
    C10Sys.winv_step w3 tExpand none x3 ⟨a4.trans a3.symm, b4.trans b3.symm, c4⟩ d3 i3
  have i5 : C10Sys.WInv w5 :=
    C10Sys.winv_step w4 tClose2 none x4 ⟨a5.trans a4.symm, b5.trans b4.symm, c5⟩ d4 i4
  have j0 : C05Sys.FmInv w0 := C05Sys.fm_inv_init w0 rfl rfl
  have j5 : C05Sys.FmInv w5 :=
    C05Sys.fm_inv_step w4 tClose2 none x4 (C05Sys.fm_inv_step w3 tExpand none x3 (C05Sys.fm_inv_step w2 tExpand none x3
      (C05Sys.fm_inv_step w1 tCreate none x2 (C05Sys.fm_inv_step w0 tBob none x1 j0))))
  exact ⟨i5, j5⟩

/-- open positions have no expiry time in the state before the exit (it is reachable) -/
theorem noExp : NoExp w5 :=
  noExp_step w4 tClose2 none (noExp_step w3 tExpand none (noExp_step w2 tExpand none
    (noExp_step w1 tCreate none (noExp_step w0 tBob none (noExp_init w0 rfl)))))

/-- the exit is accepted, and leads to `w6` -/
theorem exit_accepted : runTx w5 tExit none = .ok w6 := by
  have h := evaluated.2.2.2.2.2.2.1
  unfold w6 step
  cases hr : runTx w5 tExit none with
  | ok w' => rfl
  | error e => rw [hr] at h; cases h

end MantraDex.MonSoundGL.Cx
