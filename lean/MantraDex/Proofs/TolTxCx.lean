/-
  Counterexample to `C13Tx.provide_tx_tolerance_above_one_refused` as first written (without the hypothesis
  `pool.assets.length = 2`): a *three*-asset "constant-product" pool with one empty reserve and an existing LP
  supply.  Such a pool is not reachable (`create_pool` insists on two assets for the constant-product type,
  `C02Sys.LpInv.shape` / `aligned`), but the statement quantifies over all worlds.

  A deposit of the two non-empty assets with a tolerance of 200 % is ACCEPTED: `assert_slippage_tolerance`
  returns early because a reserve is zero (so the `> 100 %` refusal is never reached), and the share
  computation only divides by the reserves of the deposited denoms.

  The three handler pieces are kernel-checked below.  The whole transaction cannot be (the handler splits the
  LP denom string in `isFactoryToken`, which the kernel does not reduce — same situation as in
  `Proofs/PoolTxCx.lean`); its `#eval` result is recorded.
-/
import MantraDex.Model.System
import MantraDex.Proofs.PoolTxCx
import MantraDex.Proofs.ProvideLemmas

namespace MantraDex.TolTx.Cx
open MantraDex MantraDex.PoolTx.Cx

def pool3 : PoolInfo := { id := "p", denoms := ["x","y","z"], lpDenom := lp, decimals := [6,6,6],
                          assets := [⟨"x",0⟩,⟨"y",100⟩,⟨"z",100⟩], ptype := .cp, fees := fee0, status := {} }

/-- the pool manager holds the reserves and 1000 LP (supply 1000: the pool is "funded"); `alice` holds 50 `y`, 50 `z` -/
def w3 : World := mkW
  (fun a d => if a = "alice" ∧ (d = "y" ∨ d = "z") then 50 else if a = PM ∧ (d = "y" ∨ d = "z") then 100
              else if a = PM ∧ d = lp then 1000 else 0)
  (fun d => if d = lp then 1000 else if d = "y" ∨ d = "z" then 150 else 0) ⟨"uom",0⟩ [] [pool3]

def tx3 : Tx :=
  .exec "alice" PM (.pm (.provideLiquidity (some (2 * ONE18)) none none "p" none none)) [⟨"y",10⟩,⟨"z",10⟩]

/-- the hypotheses of the original statement hold -/
theorem hyps : w3.pm.getPool "p" = .ok pool3 ∧ pool3.ptype = .cp ∧ w3.bank.supply pool3.lpDenom ≠ 0 ∧
    2 ≤ ([⟨"y",10⟩,⟨"z",10⟩] : List Coin).length ∧ ONE18 < 2 * ONE18 := by
  exact ⟨rfl, rfl, by decide +kernel, by decide, by decide⟩

/-- the tolerance check is skipped: a reserve is zero -/
theorem check_skipped :
    assertSlippageTolerance (some (2 * ONE18)) [⟨"y",10⟩,⟨"z",10⟩] pool3.assets pool3.ptype = .ok pool3.assets := by
  decide +kernel

/-- the share computation only touches the reserves of the deposited denoms -/
theorem shares_ok : (cpShares PM lp [⟨"y",10⟩,⟨"z",10⟩] pool3.assets 1000).toOption.map (·.1) = some 100 := by
  decide +kernel

/-- the rest of the handler (check, receiver, reserves update) accepts: one mint message, reserves 0 / 110 / 110 -/
theorem tail_ok :
    ((plTail w3.pm w3.pmEnv "alice" pool3 [⟨"y",10⟩,⟨"z",10⟩] (some (2 * ONE18)) "alice" none none 100 []).toOption.map
      fun x => (x.1.pools.map (·.assets), x.2.msgs.length)) =
    some ([[⟨"x",0⟩,⟨"y",110⟩,⟨"z",110⟩]], 1) := by
  decide +kernel

/-  #eval (runTx w3 tx3).toOption.map fun w' => (w'.bank.bal "alice" lp, w'.bank.supply lp, w'.pm.pools.map (·.assets))
      -- some (100, 1100, [[{ denom := "x", amount := 0 }, { denom := "y", amount := 110 }, { denom := "z", amount := 110 }]])
    the transaction with a tolerance of 200 % is accepted: `alice` receives 100 LP. -/

end MantraDex.TolTx.Cx
