/-
  The transaction tree of an accepted `Claim` (C08Tx): no funds, positions untouched, at most one payout
  message, whose coins are the claim's ledger entries per denom.
-/
import MantraDex.Proofs.PosTxLemmas
import MantraDex.Properties.C06Sys

set_option linter.unusedSimpArgs false
set_option linter.unusedVariables false

namespace MantraDex.PosTx
open MantraDex
open MantraDex.C01 (coinsOf amt coinsOf_cons coinsOf_nil)

theorem moves_nil (b : Bank) (frm to : Addr) : Moves b b frm to [] := by
  refine ⟨fun d => ?_, fun x d => ?_, fun d => ?_, rfl⟩ <;> simp

theorem fmClaim_shape {s s' : FmState} {env : FmEnv} {sender : Addr} {funds : List Coin}
    {u : Option Nat} {r : Response} (h : fmClaim s env sender funds u = .ok (s', r)) :
    funds = [] ∧ (r.msgs = [] ∨ ∃ agg, r.msgs = [mkSub (.bankSend sender agg)]) := by
  rw [FH.fmClaim_eq] at h
  simp only [FH.error_bind, FH.ite_err_ok, bind_ok, pure_ok] at h
  obtain ⟨_, hnp, _, cur, _, untilE, _, ⟨s1, total⟩, hfold, h⟩ := h
  refine ⟨FH.nonpayable_ok hnp, ?_⟩
  simp only at h
  split at h
  · simp only [bind_ok, pure_ok, Prod.mk.injEq] at h
    obtain ⟨msgs, rfl, rfl, rfl⟩ := h
    exact Or.inl rfl
  · simp only [bind_ok, pure_ok, Prod.mk.injEq] at h
    obtain ⟨agg, _, msgs, rfl, rfl, rfl⟩ := h
    exact Or.inr ⟨agg, rfl⟩

/-- the transaction tree of an accepted `claim` -/
theorem claim_run {w w' : World} {u : Addr} {un : Option Nat} {funds : List Coin} {k : Option Nat}
    (hnd : (w.fm.farms.map (·.id)).Nodup)
    (h : runTx w (.exec u FM (.fm (.claim un)) funds) k = .ok w') :
    funds = [] ∧ w'.fm.positions = w.fm.positions ∧ w'.pm = w.pm ∧
    ∃ agg : List Coin, Moves { w.bank with calls := 0, failAt := k } w'.bank FM u agg ∧
      ∀ d, coinsOf agg d =
        C06Sys.sumRewards ((C06Sys.claimEntries w.fm w.fmEnv u un).filter (·.denom == d)) := by
  unfold runTx at h
  simp only at h
  have h64 : FUEL = 63 + 1 := rfl
  rw [h64] at h
  obtain ⟨b, s, r, hb, hx, hsubs⟩ := FarmTx.execMsg_fm_any h
  simp only [fmExecute] at hx
  have hx' : fmClaim w.fm w.fmEnv u funds un = .ok (s, r) := hx
  obtain ⟨hfunds, hshape⟩ := fmClaim_shape hx'
  subst hfunds
  have hpos := fmClaim_positions hx'
  have hpay := C06Sys.claim_pays_entries hnd hx'
  have hb' : b = { w.bank with calls := 0, failAt := k } := by
    rcases hb with ⟨_, hb⟩ | ⟨hne, _⟩
    · exact hb
    · exact absurd rfl hne
  subst hb'
  rcases hshape with hr | ⟨agg, hr⟩
  · rw [hr] at hsubs
    have := FarmTx.execSubs_nil hsubs
    subst this
    refine ⟨rfl, hpos, rfl, [], moves_nil _ _ _, ?_⟩
    intro d
    rw [← hpay d, hr]
    rfl
  · rw [hr] at hsubs
    have hsubs' : execSubs 63 _ FM ([Msg.bankSend u agg].map mkSub) = .ok w' := hsubs
    rw [execSubs_leaf [Msg.bankSend u agg] 63 _ FM (by
      intro m hm; simp only [List.mem_singleton] at hm; subst hm; trivial) (by simp)] at hsubs'
    obtain ⟨b2, hrun, hw'⟩ := bind_ok.mp hsubs'
    simp only [pure_ok] at hw'
    subst hw'
    rw [bankRun_single] at hrun
    refine ⟨rfl, hpos, rfl, agg, (send_spec hrun).2, ?_⟩
    intro d
    rw [← hpay d, hr]
    simp [C05.outflow_eq, mkSub, C05.msgOut, C05.coinsOf_eq, C01.coinsOf, C01.sumNat, List.sum_eq_foldl]

end MantraDex.PosTx
