/-
  C01Exact, transaction level: for a denom `d` that is not a token-factory denom, the EXACT effect of a whole
  transaction on   balance of the pool manager in d  −  reserves recorded for d:

  * a call of the pool manager that is not a single-asset deposit: none (`leaf_exact`),
  * the single-asset deposit tree: the odd unit of the deposited coin (`single_exact`),
  * a call of another contract: none (`other_exact`), a plain transfer: the coins sent to the pool manager
    (`transfer_exact`).
-/
import MantraDex.Model.System
import MantraDex.Proofs.NumLemmas
import MantraDex.Proofs.ExcessTxHandlers
import MantraDex.Proofs.AllSysTx
import MantraDex.Proofs.LpSysFm

set_option linter.unusedSimpArgs false
set_option linter.unusedVariables false
set_option linter.tactic.unusedName false

namespace MantraDex.ExcessTx
open MantraDex MantraDex.LpSys
open MantraDex.C01 (coinsOf amt coinsOf_cons coinsOf_nil coinsOf_singleton reserves outflow)
open MantraDex.AllSys (Pre single_tree_full outflow_eq_total swap_isLeaf)

/-- balance minus reserves moves by exactly `gain` -/
def TxExact (w w' : World) (d : Denom) (gain : Nat) : Prop :=
  w'.bank.bal PM d + reserves w.pm d = w.bank.bal PM d + reserves w'.pm d + gain

/-- the message names no receiver that is the pool manager -/
def RecvNotPm : PmMsg → Prop
  | .swap _ _ _ rc _ => rc ≠ some PM
  | .execSwapOps _ _ rc _ => rc ≠ some PM
  | _ => True

theorem recvOk_of {env : PmEnv} {sender : Addr} {m : PmMsg} (hs : sender ≠ PM) (h : RecvNotPm m) :
    RecvOk env sender m := by
  cases m <;> first | exact addrOrDefault_ne hs h | trivial

/-- a call that is not a single-asset deposit, by an external account -/
theorem leaf_exact {n : Nat} {w w' : World} {sender c : Addr} {m : PmMsg} {funds : List Coin} {d : Denom}
    (hd : isFactoryToken d = false) (hs : sender ≠ PM) (hfunds : (funds.map (·.denom)).Nodup)
    (hns : SysPm.NotSingle m funds) (hpre : Pre w) (hfc : w.pm.config.feeCollector ≠ PM) (hrc : RecvNotPm m)
    (h : execMsg (n + 1) w sender (.wasmExec c (.pm m) funds) = .ok w') : TxExact w w' d 0 := by
  obtain ⟨-, w1, s', r, fi, hpe, hpm, -, -, -, -, hbal⟩ := pm_call hfunds hns hpre.cov h
  obtain ⟨law, hin⟩ := handler_exact (env := w1.pmEnv) (d := d) hd rfl hpre.wf
    (by show (w1.tfFees.map (·.denom)).Nodup; rw [fi.tf]; exact hpre.tfNodup)
    (by show ∀ f ∈ w1.tfFees, _; rw [fi.tf]; exact hpre.tfSmall) hpre.fee hfunds hns hpe
  have hin0 := hin hs hfc (recvOk_of hs hrc)
  have hb1 := fi.bal d
  simp only [hs, if_false] at hb1
  have e : w1.pmEnv.tfFees = w.tfFees := fi.tf
  rw [e] at law
  have hb := hbal d
  unfold TxExact
  rw [hpm]
  omega

theorem odd_split (coin : Coin) (d : Denom) :
    coinsOf [coin] d =
      2 * amt ⟨coin.denom, coin.amount / 2⟩ d + (if coin.denom = d then coin.amount % 2 else 0) := by
  rw [coinsOf_singleton]
  unfold amt
  by_cases h : coin.denom = d
  · simp only [h, beq_self_eq_true, if_true]
    omega
  · have : (coin.denom == d) = false := by simpa using h
    simp only [this, h, if_false, Bool.false_eq_true]

/-- a single-asset deposit by an external account -/
theorem single_exact {w w' : World} {sender c : Addr} {coin : Coin} {ls ss : Option Nat} {rc : Option Addr}
    {pid : String} {u : Option Nat} {l : Option String} {d : Denom} (hd : isFactoryToken d = false)
    (hs : sender ≠ PM) (hpre : Pre w) (hfc : w.pm.config.feeCollector ≠ PM)
    (hr : execMsg FUEL w sender (.wasmExec c (.pm (.provideLiquidity ls ss rc pid u l)) [coin]) = .ok w') :
    c = PM ∧ TxExact w w' d (if coin.denom = d then coin.amount % 2 else 0) := by
  have hcPM : c = PM := by
    rw [show FUEL = 63 + 1 from rfl] at hr
    obtain ⟨w1, w2, resp, hw1, hce, hsubs⟩ := SysPm.wasm_inv hr
    simp only [callExecute] at hce
    split at hce
    · cases hce
    rename_i hcc
    simpa using hcc
  refine ⟨hcPM, ?_⟩
  obtain ⟨w1, w3, buf, ask, pool, sim, fi, hp, hsim, hoh, hea, hne, -, -, -, -, hswap, hbuf3, hsecond⟩ :=
    single_tree_full hs hpre.cov hr
  -- the self-swap
  obtain ⟨-, w1a, s3, r3, fi2, hpe3, hpm3, htf3, -, hcov3, -, hbal3⟩ :=
    pm_call (n := 61) (w := { w1 with pm := { w.pm with buffer := some buf } }) (funds := [buf.offerHalf])
      (m := .swap ask none ss none pid) (by simp) trivial fi.cov hswap
  have hsw := hpe3
  simp only [pmExecute] at hsw
  have hwf2 : C01.WF ({ w.pm with buffer := some buf } : PmState) := SysPm.wf_of_pools rfl hpre.wf
  obtain ⟨hcons3, hin3⟩ := swap_exact (d := d) hwf2 hsw
  have hR2 : reserves ({ w.pm with buffer := some buf } : PmState) d = reserves w.pm d :=
    SysPm.reserves_of_pools rfl d
  rw [hR2] at hcons3
  obtain ⟨offer, sr, hoff, hps, hin3⟩ := (hin3 hfc).2 rfl
  have hoff' : offer = buf.offerHalf := by simpa using hoff.symm
  subst hoff'
  -- the proceeds go to the pool manager itself and are what the first leg simulated
  obtain ⟨pool', c', oi, ai, x, y, hp', hc', -, -, -, -, -, -, -, -, hret, -, -, -, -⟩ := C04.performSwap_ok hps
  have hgp : ({ w.pm with buffer := some buf } : PmState).getPool pid = w.pm.getPool pid := rfl
  rw [hgp, hp] at hp'
  cases hp'
  rw [hoh, hsim] at hc'
  cases hc'
  have hretE : sr.ret = buf.expectedAsk := by rw [hret, hea]
  rw [hretE] at hin3
  -- the second leg
  have hnd : (([buf.offerHalf, buf.expectedAsk] : List Coin).map (·.denom)).Nodup := by
    rw [hoh, hea]
    simp [hne]
  obtain ⟨-, w3a, s5, r5, fi4, hpe5, hpm5, -, -, -, -, hbal5⟩ :=
    pm_call (n := 60) (w := { w3 with pm := { w3.pm with buffer := none } })
      (funds := [buf.offerHalf, buf.expectedAsk])
      (m := .provideLiquidity buf.liqSlip buf.swapSlip (some buf.receiver) buf.poolId buf.unlocking buf.lockId)
      hnd (Nat.le_refl 2) hcov3 hsecond
  have hwf3 : C01.WF s3 := SysPm.performSwap_wf hwf2 hps
  have hwf4 : C01.WF ({ w3.pm with buffer := none } : PmState) := SysPm.wf_of_pools (s := s3) (by rw [hpm3]) hwf3
  have htf4 : w3a.tfFees = w.tfFees := by
    rw [fi4.tf]
    show w3.tfFees = w.tfFees
    rw [htf3]
    exact fi.tf
  have hpl5 := hpe5
  simp only [pmExecute] at hpl5
  obtain ⟨law5, hin5⟩ := provide_exact (env := w3a.pmEnv) hd rfl hwf4 hnd (Nat.le_refl 2) hpl5
  have hR4 : reserves ({ w3.pm with buffer := none } : PmState) d = reserves s3 d :=
    SysPm.reserves_of_pools (by rw [hpm3]) d
  have e5 : w3a.pmEnv.tfFees = w.tfFees := htf4
  rw [e5, hR4] at law5
  -- the arithmetic
  have hb1 := fi.bal d
  simp only [hs, if_false] at hb1
  have hb2 : w1a.bank.bal PM d = w1.bank.bal PM d := by
    have := fi2.bal d
    simpa using this
  have hb4 : w3a.bank.bal PM d = w3.bank.bal PM d := by
    have := fi4.bal d
    simpa using this
  have hb3 := hbal3 d
  have hb5 := hbal5 d
  have htfa : ({ w1 with pm := { w.pm with buffer := some buf } } : World).tfFees = w.tfFees := fi.tf
  have htfb : ({ w3 with pm := { w3.pm with buffer := none } } : World).tfFees = w.tfFees := by
    show w3.tfFees = _
    rw [htf3]; exact fi.tf
  rw [htfa] at hb3
  rw [htfb] at hb5
  have e3 : w1a.pmEnv.tfFees = w.tfFees := by
    show w1a.tfFees = _
    rw [fi2.tf]; exact fi.tf
  rw [e3, coinsOf_singleton] at hcons3
  have hF5 : coinsOf [buf.offerHalf, buf.expectedAsk] d = amt buf.offerHalf d + amt buf.expectedAsk d := by
    rw [coinsOf_cons, coinsOf_singleton]
  have hodd := odd_split coin d
  rw [← hoh] at hodd
  unfold TxExact
  rw [hpm5]
  omega

/-- the bank sends of a contract other than the pool manager, none of which goes to the pool manager -/
theorem callExecute_fm {w w2 : World} {c sender : Addr} {funds : List Coin} {m : FmMsg} {resp : Response}
    (h : callExecute w c sender funds (.fm m) = .ok (w2, resp)) :
    ∃ s, fmExecute w.fm w.fmEnv sender funds m = .ok (s, resp) := by
  simp only [callExecute] at h
  split at h
  · cases h
  · obtain ⟨⟨s, r⟩, hr, h⟩ := bind_ok.mp h
    simp only [pure_ok, Prod.mk.injEq] at h
    obtain ⟨rfl, rfl⟩ := h
    exact ⟨s, hr⟩

theorem callExecute_quiet {w w2 : World} {c sender : Addr} {funds : List Coin} {msg : ContractMsg}
    {resp : Response} (hm : (∃ m, msg = .em m) ∨ (∃ m, msg = .fc m))
    (h : callExecute w c sender funds msg = .ok (w2, resp)) : resp.msgs = [] := by
  rcases hm with ⟨m, rfl⟩ | ⟨m, rfl⟩
  · simp only [callExecute] at h
    split at h
    · cases h
    · obtain ⟨s, hr, h⟩ := bind_ok.mp h
      simp only [pure_ok, Prod.mk.injEq] at h
      obtain ⟨rfl, rfl⟩ := h
      rfl
  · cases m with
    | updateOwnership a =>
      simp only [callExecute] at h
      split at h
      · cases h
      · obtain ⟨_, _, h⟩ := bind_ok.mp h
        obtain ⟨o, hr, h⟩ := bind_ok.mp h
        simp only [pure_ok, Prod.mk.injEq] at h
        obtain ⟨rfl, rfl⟩ := h
        rfl

/-- a call of another contract by an external account: the farm manager pays its fee collector, farm owners and the
    caller, the others pay nobody -/
theorem other_exact {n : Nat} {w w' : World} {sender c : Addr} {msg : ContractMsg} {funds : List Coin}
    (hs : sender ≠ PM) (hm : ∀ pm, msg ≠ .pm pm) (hc : Covers w.bank)
    (hfc : w.fm.config.feeCollector ≠ PM) (hown : ∀ f ∈ w.fm.farms, f.owner ≠ PM)
    (h : execMsg (n + 1) w sender (.wasmExec c msg funds) = .ok w') (d : Denom) : TxExact w w' d 0 := by
  obtain ⟨f, w1, w2, resp, hce, hfm, hb⟩ := foreign_call hs hm hc h
  have hto : ∀ sm ∈ resp.msgs, ∀ to cs, sm.msg = .bankSend to cs → to ≠ PM := by
    cases msg with
    | pm m => exact absurd rfl (hm m)
    | fm m =>
      obtain ⟨s, hfe⟩ := callExecute_fm hce
      exact fmExecute_to hs (by rw [hfm]; exact hfc) (by rw [hfm]; exact hown) hfe
    | em m =>
      rw [callExecute_quiet (Or.inl ⟨m, rfl⟩) hce]
      intro sm hsm; cases hsm
    | fc m =>
      rw [callExecute_quiet (Or.inr ⟨m, rfl⟩) hce]
      intro sm hsm; cases hsm
  unfold TxExact
  rw [f.pm, hb hto d]
  omega

/-- a plain bank transfer by an external account -/
theorem transfer_exact {n : Nat} {w w' : World} {frm to : Addr} {cs : List Coin} (hs : frm ≠ PM)
    (hc : Covers w.bank) (h : execMsg n w frm (.bankSend to cs) = .ok w') (d : Denom) :
    TxExact w w' d (if to = PM then coinsOf cs d else 0) := by
  cases n with
  | zero => rw [execMsg] at h; cases h
  | succ n =>
    rw [execMsg] at h
    obtain ⟨b, hb, h⟩ := bind_ok.mp h
    simp only [pure_ok] at h; subst h
    obtain ⟨-, -, b1⟩ := foreign_send hs hb hc
    unfold TxExact
    show b.bal PM d + reserves w.pm d = w.bank.bal PM d + reserves w.pm d + _
    rw [b1 d]
    omega

/-- every transaction sent to the pool manager by an external account that is not a single-coin deposit -/
theorem pm_exact {w w' : World} {sender c : Addr} {m : PmMsg} {funds : List Coin} {d : Denom}
    (hd : isFactoryToken d = false) (hs : sender ≠ PM) (hfunds : (funds.map (·.denom)).Nodup) (hpre : Pre w)
    (hfc : w.pm.config.feeCollector ≠ PM) (hrc : RecvNotPm m)
    (hr : execMsg FUEL w sender (.wasmExec c (.pm m) funds) = .ok w') :
    (SysPm.NotSingle m funds ∧ TxExact w w' d 0) ∨
    (∃ ls ss rc pid u l coin, m = .provideLiquidity ls ss rc pid u l ∧ funds = [coin] ∧ c = PM ∧
      TxExact w w' d (if coin.denom = d then coin.amount % 2 else 0)) := by
  by_cases hns : SysPm.NotSingle m funds
  · rw [show FUEL = 63 + 1 from rfl] at hr
    exact Or.inl ⟨hns, leaf_exact hd hs hfunds hns hpre hfc hrc hr⟩
  · cases m with
    | provideLiquidity ls ss rc pid u l =>
      match funds, hns, hr with
      | [], _, hr => exact (C01Sys.no_funds_tx (n := 63) hr).elim
      | [coin], _, hr =>
        obtain ⟨hc, t⟩ := single_exact hd hs hpre hfc hr
        exact Or.inr ⟨ls, ss, rc, pid, u, l, coin, rfl, rfl, hc, t⟩
      | _ :: _ :: _, hns, _ => exact absurd (by simp [SysPm.NotSingle]) hns
    | _ => exact absurd trivial hns

end MantraDex.ExcessTx
