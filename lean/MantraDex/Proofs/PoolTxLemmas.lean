/-
  Explicit transaction trees of the pool manager's liquidity-side transactions (C16Tx): a call into the
  pool manager with or without funds, the leaf messages as a bank fold with the exact supply effect under
  `LpSys.Covers`, and the tree of an accepted `WithdrawLiquidity`.
-/
import MantraDex.Model.System
import MantraDex.Proofs.NumLemmas
import MantraDex.Proofs.BankLemmas
import MantraDex.Proofs.TwoStepLemmas
import MantraDex.Proofs.SwapTxLemmas
import MantraDex.Proofs.HandlerLemmas
import MantraDex.Proofs.LpSysBank
import MantraDex.Properties.C02
import MantraDex.Properties.C17

set_option linter.unusedSimpArgs false
set_option linter.unusedVariables false

namespace MantraDex.PoolTx
open MantraDex
open MantraDex.C01 (coinsOf amt coinsOf_cons coinsOf_nil)
open MantraDex.LpSys (Covers)

/-! ### runtime -/

/-- a call into the pool manager, with or without funds: the bank after the funds moved -/
theorem execMsg_pm_any {n : Nat} {w w' : World} {sender : Addr} {m : PmMsg} {funds : List Coin}
    (h : execMsg (n + 1) w sender (.wasmExec PM (.pm m) funds) = .ok w') :
    ∃ b s r, ((funds = [] ∧ b = w.bank) ∨ (funds ≠ [] ∧ w.bank.send sender PM funds = .ok b)) ∧
      pmExecute w.pm ({ w with bank := b } : World).pmEnv sender funds m = .ok (s, r) ∧
      execSubs n { w with bank := b, pm := s } PM r.msgs = .ok w' := by
  cases funds with
  | nil =>
    have hc : isContract PM = true := by decide
    simp only [execMsg, hc, List.isEmpty_nil, Bool.not_true, Bool.false_eq_true, if_false, if_true, callExecute,
      bne_self_eq_false, bind_assoc, pure_bind] at h
    obtain ⟨⟨s, r⟩, h1, h2⟩ := bind_ok.mp h
    exact ⟨w.bank, s, r, Or.inl ⟨rfl, rfl⟩, h1, h2⟩
  | cons c cs =>
    rw [execMsg_pm_eq n w sender m (c :: cs) rfl] at h
    obtain ⟨b, hb, h⟩ := bind_ok.mp h
    obtain ⟨⟨s, r⟩, h1, h2⟩ := bind_ok.mp h
    exact ⟨b, s, r, Or.inr ⟨by simp, hb⟩, h1, h2⟩

theorem map_mkSub_inj {ms ms' : List Msg} (h : ms.map mkSub = ms'.map mkSub) : ms = ms' := by
  have := congrArg (List.map SubMsg.msg) h
  simp only [List.map_map] at this
  have e : (SubMsg.msg ∘ mkSub) = id := rfl
  rw [e, List.map_id, List.map_id] at this
  exact this

theorem moves_nil (b : Bank) (frm to : Addr) : Moves b b frm to [] := by
  refine ⟨fun d => ?_, fun x d => ?_, fun d => ?_, rfl⟩
  · simp
  · simp
  · simp

/-- the funds of a top-level call moved: exact balances, the supply is untouched -/
theorem funds_moved {b0 b : Bank} {u to : Addr} {funds : List Coin} (hcov : Covers b0)
    (h : (funds = [] ∧ b = b0) ∨ (funds ≠ [] ∧ b0.send u to funds = .ok b)) :
    Moves b0 b u to funds ∧ Covers b ∧ ∀ d, b.supply d = b0.supply d := by
  rcases h with ⟨rfl, rfl⟩ | ⟨_, hs⟩
  · exact ⟨moves_nil _ _ _, hcov, fun _ => rfl⟩
  · obtain ⟨c, hsup⟩ := LpSys.send_covers hs hcov
    exact ⟨(send_spec hs).2, c, hsup⟩

theorem covers_reset {b : Bank} (k : Option Nat) (h : Covers b) :
    Covers { b with calls := 0, failAt := k } := LpSys.covers_of_eq rfl rfl h

/-- the tree of a pool-manager transaction whose response consists of leaf messages only -/
theorem pm_leaf_run {w w' : World} {u : Addr} {m : PmMsg} {funds : List Coin}
    (h : runTx w (.exec u PM (.pm m) funds) = .ok w')
    (hleaf : ∀ b s r, pmExecute w.pm ({ w with bank := b } : World).pmEnv u funds m = .ok (s, r) →
      ∃ ms : List Msg, r.msgs = ms.map mkSub ∧ ∀ x ∈ ms, IsLeaf x) :
    ∃ b1 s r ms b2,
      ((funds = [] ∧ b1 = { w.bank with calls := 0, failAt := none }) ∨
        (funds ≠ [] ∧ ({ w.bank with calls := 0, failAt := none } : Bank).send u PM funds = .ok b1)) ∧
      pmExecute w.pm ({ w with bank := b1 } : World).pmEnv u funds m = .ok (s, r) ∧
      r.msgs = ms.map mkSub ∧ bankRun w.tfFees b1 PM ms = .ok b2 ∧
      w' = { w with bank := b2, pm := s } := by
  unfold runTx at h
  simp only at h
  have h64 : FUEL = 63 + 1 := rfl
  rw [h64] at h
  obtain ⟨b1, s, r, hb, hx, hsubs⟩ := execMsg_pm_any h
  have hx' : pmExecute w.pm ({ w with bank := b1 } : World).pmEnv u funds m = .ok (s, r) := hx
  obtain ⟨ms, hms, hl⟩ := hleaf b1 s r hx'
  rw [hms] at hsubs
  have hfuel := execSubs_leaf_fuel ms _ _ _ _ hsubs
  rw [execSubs_leaf ms 63 _ PM hl hfuel] at hsubs
  obtain ⟨b2, hrun, hw'⟩ := bind_ok.mp hsubs
  simp only [pure_ok] at hw'
  exact ⟨b1, s, r, ms, b2, hb, hx', hms, hrun, hw'⟩

/-! ### `withdraw_liquidity` -/

/-- the handler's outcome, with the refunds in closed form -/
theorem withdraw_inv {s s' : PmState} {env : PmEnv} {sender : Addr} {funds : List Coin}
    {pid : String} {r : Response} {pool : PoolInfo} (hp : s.getPool pid = .ok pool)
    (h : withdrawLiquidity s env sender funds pid = .ok (s', r)) :
    ∃ amount assets', funds = [⟨pool.lpDenom, amount⟩] ∧ amount ≠ 0 ∧ env.supply pool.lpDenom ≠ 0 ∧
      ((pool.assets.map fun a => (⟨a.denom, a.amount * amount / env.supply pool.lpDenom⟩ : Coin)).filter
        (·.amount > 0)).foldlM withdrawStep pool.assets = .ok assets' ∧
      s' = s.savePool { pool with assets := assets' } ∧
      r.msgs = [Msg.bankSend sender ((pool.assets.map fun a =>
          (⟨a.denom, a.amount * amount / env.supply pool.lpDenom⟩ : Coin)).filter (·.amount > 0)),
        Msg.tfBurn ⟨pool.lpDenom, amount⟩].map mkSub := by
  obtain ⟨amount, hfunds, hne, hsup, hmsgs⟩ := C02.withdraw_refunds_are_floor hp h
  obtain ⟨pool', amount', refunds, assets', hp', hfunds', hfold, hs', hr⟩ := withdraw_ok h
  rw [hp] at hp'
  cases hp'
  rw [hfunds] at hfunds'
  simp only [List.cons.injEq, Coin.mk.injEq, true_and, and_true] at hfunds'
  subst hfunds'
  rw [hr] at hmsgs
  simp only [List.map_cons, List.map_nil, List.cons.injEq, Msg.bankSend.injEq, true_and, and_true] at hmsgs
  subst hmsgs
  exact ⟨amount, assets', hfunds, hne, hsup, hfold, hs', hr⟩

/-- the transaction tree of an accepted `WithdrawLiquidity` -/
theorem withdraw_run {w w' : World} {u : Addr} {pid : String} {funds : List Coin} {pool : PoolInfo}
    (hcov : Covers w.bank) (hp : w.pm.getPool pid = .ok pool)
    (h : runTx w (.exec u PM (.pm (.withdrawLiquidity pid)) funds) = .ok w') :
    ∃ (amount : Nat) (refunds : List Coin) (pool' : PoolInfo) (b1 b2 : Bank), funds = [⟨pool.lpDenom, amount⟩] ∧ amount ≠ 0 ∧
      w.bank.supply pool.lpDenom ≠ 0 ∧
      refunds = (pool.assets.map fun a =>
        (⟨a.denom, a.amount * amount / w.bank.supply pool.lpDenom⟩ : Coin)).filter (·.amount > 0) ∧
      w'.pm.getPool pid = .ok pool' ∧ pool'.denoms = pool.denoms ∧ pool'.lpDenom = pool.lpDenom ∧
      (∀ d, coinsOf pool'.assets d + coinsOf refunds d = coinsOf pool.assets d) ∧
      w'.fm = w.fm ∧
      Moves { w.bank with calls := 0, failAt := none } b1 u PM [⟨pool.lpDenom, amount⟩] ∧
      Moves b1 b2 PM u refunds ∧ Burns b2 w'.bank PM [⟨pool.lpDenom, amount⟩] ∧
      (∀ d, w'.bank.supply d + coinsOf [(⟨pool.lpDenom, amount⟩ : Coin)] d = w.bank.supply d) := by
  obtain ⟨b1, s, r, ms, b3, hb, hx, hms, hrun, rfl⟩ := pm_leaf_run h (by
    intro b s r hx
    simp only [pmExecute] at hx
    obtain ⟨_, _, _, _, _, _, _, hr⟩ := withdraw_inv hp hx
    refine ⟨_, hr, ?_⟩
    intro x hx
    simp only [List.mem_cons, List.not_mem_nil, or_false] at hx
    rcases hx with rfl | rfl <;> trivial)
  simp only [pmExecute] at hx
  obtain ⟨amount, assets', hfunds, hne, hsup, hfold, hs', hr⟩ := withdraw_inv hp hx
  subst hfunds
  obtain ⟨mv0, c1, sup1⟩ := funds_moved (covers_reset none hcov) hb
  have hsupeq : ({ w with bank := b1 } : World).pmEnv.supply pool.lpDenom = w.bank.supply pool.lpDenom :=
    sup1 pool.lpDenom
  rw [hsupeq] at hsup hfold hr
  rw [hr] at hms
  have hms' : ms = [Msg.bankSend u ((pool.assets.map fun a =>
          (⟨a.denom, a.amount * amount / w.bank.supply pool.lpDenom⟩ : Coin)).filter (·.amount > 0)),
        Msg.tfBurn ⟨pool.lpDenom, amount⟩] := by
    exact (map_mkSub_inj hms).symm
  subst hms'
  simp only [bankRun, bankStep] at hrun
  obtain ⟨b2, h2, hrun⟩ := bind_ok.mp hrun
  obtain ⟨b3', h3, hrun⟩ := bind_ok.mp hrun
  cases hrun
  obtain ⟨c2, sup2⟩ := LpSys.send_covers h2 c1
  obtain ⟨c3, sup3⟩ := LpSys.burn_covers h3 c2
  have hid : pool.id = pid := C17.getPool_id hp
  refine ⟨amount, _, { pool with assets := assets' }, b1, b2, rfl, hne, hsup, rfl, ?_, rfl, rfl,
    C01.withdrawFold_coins hfold, rfl, mv0, (send_spec h2).2, (burn_spec h3).2, ?_⟩
  · show s.getPool pid = _
    rw [hs', ← hid]
    exact C17.getPool_savePool_self _ _
  · intro d
    have := sup3 d
    rw [sup2 d, sup1 d] at this
    exact this

end MantraDex.PoolTx
