/-
  C07Sys, part 6: the budget bound.  For a stored farm and a user `u`: what the farm has paid so far plus what
  `u` would be paid now for any set of epochs `u` has not been paid for stays within emission rate × the number
  of the farm's epochs that have begun, hence within the farm's budget (`claimed_plus_new_le`).
-/
import MantraDex.Proofs.LedSys2Farm

set_option linter.unusedSimpArgs false
set_option linter.unusedVariables false

namespace MantraDex.LedSys
open MantraDex MantraDex.C06Sys MantraDex.WSys

/-! ### sums over an initial segment of the epochs -/

def isum (N : Nat) (g : Nat → Nat) : Nat := ((List.range N).map g).sum

theorem isum_zero (g : Nat → Nat) : isum 0 g = 0 := rfl

theorem isum_succ (N : Nat) (g : Nat → Nat) : isum (N + 1) g = isum N g + g N := by
  unfold isum
  rw [List.range_succ, List.map_append, List.sum_append]
  simp

theorem isum_le {N : Nat} {g h : Nat → Nat} (hle : ∀ j, j < N → g j ≤ h j) : isum N g ≤ isum N h := by
  induction N with
  | zero => exact Nat.le_refl _
  | succ N ih =>
    rw [isum_succ, isum_succ]
    have := ih (fun j hj => hle j (by omega))
    have := hle N (by omega)
    omega

theorem isum_add (N : Nat) (g h : Nat → Nat) : isum N (fun j => g j + h j) = isum N g + isum N h := by
  induction N with
  | zero => rfl
  | succ N ih => rw [isum_succ, isum_succ, isum_succ, ih]; omega

theorem isum_single (N e c : Nat) : isum N (fun j => if j = e then c else 0) = if e < N then c else 0 := by
  induction N with
  | zero => rfl
  | succ N ih =>
    rw [isum_succ, ih]
    by_cases h1 : e < N
    · have h2 : ¬ N = e := by omega
      have h3 : e < N + 1 := by omega
      simp only [h1, h2, h3, if_true, if_false, Nat.add_zero]
    · by_cases h2 : N = e
      · subst h2
        simp
      · have h3 : ¬ e < N + 1 := by omega
        simp only [h1, h2, h3, if_false]

theorem isum_interval (N a b c : Nat) :
    isum N (fun j => if a ≤ j ∧ j < b then c else 0) = c * (min N b - a) := by
  induction N with
  | zero => simp [isum_zero]
  | succ N ih =>
    rw [isum_succ, ih]
    by_cases h : a ≤ N ∧ N < b
    · rw [if_pos h]
      have e1 : min N b - a = N - a := by omega
      have e2 : min (N + 1) b - a = (N - a) + 1 := by omega
      rw [e1, e2, Nat.mul_succ]
    · rw [if_neg h, Nat.add_zero]
      have e1 : min (N + 1) b - a = min N b - a := by omega
      rw [e1]

/-- distinct epochs below `N`: the sum over them is part of the sum over the whole segment -/
theorem sum_nodup_le_isum (N : Nat) : ∀ (es : List Nat) (g : Nat → Nat), es.Nodup → (∀ e ∈ es, e < N) →
    (es.map g).sum ≤ isum N g := by
  intro es
  induction es with
  | nil => intro g _ _; exact Nat.zero_le _
  | cons e es ih =>
    intro g hnd hlt
    obtain ⟨hni, hnd'⟩ := List.nodup_cons.1 hnd
    have h1 := ih (fun j => if j = e then 0 else g j) hnd' (fun x hx => hlt x (List.mem_cons_of_mem _ hx))
    have h2 : es.map (fun j => if j = e then 0 else g j) = es.map g := by
      apply List.map_congr_left
      intro x hx
      have hxe : ¬ x = e := fun h => hni (by rw [← h]; exact hx)
      simp only [hxe, if_false]
    rw [h2] at h1
    have h3 : isum N g = isum N (fun j => if j = e then 0 else g j) + isum N (fun j => if j = e then g e else 0) := by
      rw [← isum_add]
      congr 1
      funext j
      by_cases hj : j = e
      · simp [hj]
      · simp [hj]
    rw [isum_single, if_pos (hlt e List.mem_cons_self)] at h3
    simp only [List.map_cons, List.sum_cons]
    omega

/-- the rewards of a list of entries, epoch by epoch -/
theorem sumRewards_by_epoch (N : Nat) : ∀ (E : List Entry), (∀ x ∈ E, x.epoch < N) →
    sumRewards E = isum N (fun j => sumRewards (E.filter fun x => x.epoch == j)) := by
  intro E
  induction E with
  | nil =>
    intro _
    have : isum N (fun j => sumRewards (([] : List Entry).filter fun x => x.epoch == j)) = isum N (fun _ => 0) := rfl
    rw [this]
    have h0 : ∀ M, isum M (fun _ => 0) = 0 := by
      intro M; induction M with
      | zero => rfl
      | succ M ih => rw [isum_succ, ih]
    rw [h0]; rfl
  | cons a E ih =>
    intro h
    have iht := ih (fun x hx => h x (List.mem_cons_of_mem _ hx))
    have hfun : (fun j => sumRewards ((a :: E).filter fun x => x.epoch == j)) =
        fun j => (if j = a.epoch then a.reward else 0) + sumRewards (E.filter fun x => x.epoch == j) := by
      funext j
      rw [List.filter_cons]
      by_cases hj : j = a.epoch
      · subst hj
        simp only [beq_self_eq_true, if_true]
        rw [sumRewards_eq, sumRewards_eq, List.map_cons, List.sum_cons]
      · have : (a.epoch == j) = false := by simp; exact fun h => hj h.symm
        simp only [this, Bool.false_eq_true, if_false, hj, Nat.zero_add]
    rw [hfun, isum_add, isum_single, if_pos (h a List.mem_cons_self), ← iht]
    rw [sumRewards_eq, sumRewards_eq, List.map_cons, List.sum_cons]

theorem floor_sum_le (r T : Nat) (ws : List Nat) (h : ws.sum ≤ T) : (ws.map fun w => r * w / T).sum ≤ r := by
  refine Nat.le_trans (Split.sum_map_div_le ws (fun w => r * w) T) ?_
  rw [Split.sum_map_mul_left ws r (fun w => w), List.map_id']
  exact mul_div_le_of_le h

/-! ### one epoch of one farm -/

/-- what the farm `f` has paid for epoch `e` -/
def paidAt (L : List Entry) (f : Farm) (e : Nat) : Nat :=
  sumRewards (L.filter fun x => x.farm == f.id && x.epoch == e)

/-- the payments of `f` for epoch `e` plus a further share of weight `w` stay within the emission of the epoch,
    when `w` is 0 or the weight in effect of a user that has no entry at (LP token, `e`) -/
theorem paid_plus_new_le {D : Prop} {s : FmState} {env : FmEnv} {L : List Entry} (hl : LInv D s env L)
    (hfl : FL s L) {f : Farm} (hf : f ∈ s.farms) {e : Nat} (hse : f.startEpoch ≤ e) {u : Addr} {w : Nat}
    (hu : u ≠ env.self)
    (hw : w = 0 ∨ (w = Spec.weightAt (s.hist u f.lpDenom) e ∧
      ∀ x ∈ L, x.user = u → x.lp = f.lpDenom → x.epoch = e → False)) :
    paidAt L f e + f.emissionRate * w / Spec.weightAt (s.hist env.self f.lpDenom) e ≤ f.emissionRate := by
  unfold paidAt
  generalize hE : L.filter (fun x => x.farm == f.id && x.epoch == e) = E
  have hEmem : ∀ x ∈ E, x ∈ L ∧ x.lp = f.lpDenom ∧ x.rate = f.emissionRate ∧ x.epoch = e := by
    intro x hx
    rw [← hE] at hx
    obtain ⟨h1, h2⟩ := List.mem_filter.1 hx
    simp only [Bool.and_eq_true, beq_iff_eq] at h2
    obtain ⟨a, b, _⟩ := hfl.own f hf x h1 h2.1 (by rw [h2.2]; exact hse)
    exact ⟨h1, a, b, h2.2⟩
  rw [sumRewards_filter_of_zero (fun x => x.uw != 0) E (by
    intro x hx hq
    have hz : x.uw = 0 := by simpa using hq
    rw [(hl.entries x (hEmem x hx).1).reward, hz, Nat.mul_zero, Nat.zero_div])]
  generalize hE1 : E.filter (fun x => x.uw != 0) = E1
  have hE1mem : ∀ x ∈ E1, x ∈ L ∧ x.farm = f.id ∧ x.lp = f.lpDenom ∧ x.rate = f.emissionRate ∧ x.epoch = e ∧
      x.uw ≠ 0 := by
    intro x hx
    rw [← hE1] at hx
    obtain ⟨h1, h2⟩ := List.mem_filter.1 hx
    obtain ⟨a, b, c, d⟩ := hEmem x h1
    have hfarm : x.farm = f.id := by
      rw [← hE] at h1
      have := (List.mem_filter.1 h1).2
      simp only [Bool.and_eq_true, beq_iff_eq] at this
      exact this.1
    exact ⟨a, hfarm, b, c, d, by simpa using h2⟩
  have hsub : E1.Sublist L := by
    rw [← hE1, ← hE]
    exact List.filter_sublist.trans List.filter_sublist
  have hpw : E1.Pairwise (fun x y => x.user ≠ y.user) := by
    have hp := hl.uniq.sublist hsub
    have hp2 : E1.Pairwise (fun x y => x ∈ E1 ∧ y ∈ E1) := by
      rw [List.pairwise_iff_forall_sublist]
      intro a b hab
      have := hab.subset
      exact ⟨this (by simp), this (by simp)⟩
    refine (hp.and hp2).imp ?_
    intro x y ⟨hR, hx, hy⟩ hu'
    obtain ⟨_, a1, a2, _, a4, _⟩ := hE1mem x hx
    obtain ⟨_, b1, b2, _, b4, b5⟩ := hE1mem y hy
    exact hR b5 ⟨hu', a2.trans b2.symm, a1.trans b1.symm, a4.trans b4.symm⟩
  generalize hT : Spec.weightAt (s.hist env.self f.lpDenom) e = T
  have hrew : ∀ x ∈ E1, x.reward = f.emissionRate * x.uw / T := by
    intro x hx
    obtain ⟨a, _, a2, a3, a4, _⟩ := hE1mem x hx
    have e' := hl.entries x a
    rw [e'.reward, e'.totalEq, a2, a3, a4, hT]
  have hchoice : ∀ p ∈ E1.map (fun x => (x.user, x.uw)), Choice s L f.lpDenom e p.1 p.2 := by
    intro p hp
    obtain ⟨x, hx, rfl⟩ := List.mem_map.1 hp
    obtain ⟨a, _, a2, _, a4, _⟩ := hE1mem x hx
    exact Or.inr ⟨x, a, rfl, a2, a4, rfl⟩
  have hnoself : env.self ∉ (E1.map fun x => (x.user, x.uw)).map (·.1) := by
    rw [List.map_map]
    intro hm
    obtain ⟨x, hx, hxe⟩ := List.mem_map.1 hm
    exact (hl.entries x (hE1mem x hx).1).notSelf hxe
  have hnd : ((E1.map fun x => (x.user, x.uw)).map (·.1)).Nodup := by
    rw [List.map_map]; exact List.pairwise_map.2 hpw
  rw [sumRewards_eq, List.map_congr_left hrew]
  have hmm : E1.map (fun x => f.emissionRate * x.uw / T) =
      (E1.map (·.uw)).map (fun w => f.emissionRate * w / T) := by rw [List.map_map]; rfl
  rcases hw with rfl | ⟨hw, hno⟩
  · rw [Nat.mul_zero, Nat.zero_div, Nat.add_zero, hmm]
    apply floor_sum_le
    have := hl.gcov f.lpDenom e _ hnd hnoself hchoice
    rw [List.map_map, hT] at this
    exact this
  · have hcov := hl.gcov f.lpDenom e ((u, w) :: E1.map fun x => (x.user, x.uw))
      (by
        simp only [List.map_cons, List.nodup_cons]
        refine ⟨?_, hnd⟩
        rw [List.map_map]
        intro hm
        obtain ⟨x, hx, hxe⟩ := List.mem_map.1 hm
        obtain ⟨a, _, a2, _, a4, _⟩ := hE1mem x hx
        exact hno x a hxe a2 a4)
      (by
        simp only [List.map_cons, List.mem_cons, not_or]
        exact ⟨fun h => hu h.symm, hnoself⟩)
      (by
        intro p hp
        rcases List.mem_cons.1 hp with rfl | hp
        · exact Or.inl hw
        · exact hchoice p hp)
    rw [hT] at hcov
    simp only [List.map_cons, List.sum_cons, List.map_map] at hcov
    have := floor_sum_le f.emissionRate T (w :: E1.map (·.uw)) (by
      simp only [List.sum_cons]
      exact hcov)
    simp only [List.map_cons, List.sum_cons] at this
    rw [hmm]
    omega

/-! ### all epochs of one farm -/

/-- the share `u` would be paid by `f` for epoch `j` (0 outside the farm's life) -/
def newAt (s : FmState) (env : FmEnv) (f : Farm) (u : Addr) (j : Nat) : Nat :=
  if f.startEpoch ≤ j ∧ j < f.endEpoch then
    f.emissionRate * Spec.weightAt (s.hist u f.lpDenom) j / Spec.weightAt (s.hist env.self f.lpDenom) j
  else 0

/-- `u` has not been paid for (LP token, `e`), or has no weight there -/
def FreshAt (s : FmState) (L : List Entry) (u : Addr) (lp : Denom) (e : Nat) : Prop :=
  Spec.weightAt (s.hist u lp) e = 0 ∨ ∀ x ∈ L, x.user = u → x.lp = lp → x.epoch = e → False

theorem claimed_eq_isum {D : Prop} {s : FmState} {env : FmEnv} {L : List Entry} (hl : LInv D s env L)
    (hfl : FL s L) {f : Farm} (hf : f ∈ s.farms) {cur : Nat} (hcur : fmCurrentEpoch s env = .ok cur) :
    f.claimed = isum (cur + 1) (fun j => if f.startEpoch ≤ j then paidAt L f j else 0) := by
  rw [hfl.claimed f hf]
  unfold ledSum
  rw [sumRewards_by_epoch (cur + 1) _ (by
    intro x hx
    have := entries_le_cur hl.entries hcur x (List.mem_filter.1 hx).1
    omega)]
  congr 1
  funext j
  unfold paidAt
  rw [List.filter_filter]
  by_cases hj : f.startEpoch ≤ j
  · rw [if_pos hj]
    congr 1
    apply List.filter_congr
    intro x _
    by_cases he : x.epoch = j
    · subst he; simp [hj]
    · have : (x.epoch == j) = false := by simpa using he
      simp [this]
  · rw [if_neg hj]
    have : L.filter (fun x => (x.epoch == j) && (x.farm == f.id && decide (f.startEpoch ≤ x.epoch))) = [] := by
      rw [List.filter_eq_nil_iff]
      intro x _ hq
      simp only [Bool.and_eq_true, beq_iff_eq, decide_eq_true_eq] at hq
      omega
    rw [this]; rfl

/-- the budget bound: paid so far + the shares of `u` for any window of epochs `u` has not been paid for -/
theorem claimed_plus_new_le {D : Prop} {s : FmState} {env : FmEnv} {L : List Entry} (hl : LInv D s env L)
    (hfl : FL s L) {f : Farm} (hf : f ∈ s.farms) {cur : Nat} (hcur : fmCurrentEpoch s env = .ok cur)
    {u : Addr} (hu : u ≠ env.self) (win : Nat → Bool)
    (hwin : ∀ j, win j = true → j ≤ cur → FreshAt s L u f.lpDenom j) :
    f.claimed + isum (cur + 1) (fun j => if win j = true then newAt s env f u j else 0) ≤
      f.emissionRate * (min (cur + 1) f.endEpoch - f.startEpoch) := by
  rw [claimed_eq_isum hl hfl hf hcur, ← isum_add, ← isum_interval]
  apply isum_le
  intro j hj
  show (if f.startEpoch ≤ j then paidAt L f j else 0) + (if win j = true then newAt s env f u j else 0) ≤
    (if f.startEpoch ≤ j ∧ j < f.endEpoch then f.emissionRate else 0)
  by_cases h1 : f.startEpoch ≤ j
  · by_cases h2 : j < f.endEpoch
    · simp only [h1, h2, and_self, if_true]
      by_cases hw : win j = true
      · simp only [hw, if_true]
        unfold newAt
        rw [if_pos ⟨h1, h2⟩]
        rcases hwin j hw (by omega) with h0 | hno
        · rw [h0]
          exact paid_plus_new_le hl hfl hf h1 hu (Or.inl rfl)
        · exact paid_plus_new_le hl hfl hf h1 hu (Or.inr ⟨rfl, hno⟩)
      · simp only [hw, if_false, Bool.false_eq_true]
        have := paid_plus_new_le (w := 0) hl hfl hf h1 hu (Or.inl rfl)
        rw [Nat.mul_zero, Nat.zero_div] at this
        exact this
    · have hp : paidAt L f j = 0 := by
        unfold paidAt
        have : L.filter (fun x => x.farm == f.id && x.epoch == j) = [] := by
          rw [List.filter_eq_nil_iff]
          intro x hx hq
          simp only [Bool.and_eq_true, beq_iff_eq] at hq
          have := (hfl.own f hf x hx hq.1 (by rw [hq.2]; exact h1)).2.2
          omega
        rw [this]; rfl
      have hn : newAt s env f u j = 0 := by unfold newAt; rw [if_neg (fun h => h2 h.2)]
      simp only [h1, h2, hp, hn, and_false, if_true, if_false, ite_self, Nat.add_zero, Nat.le_refl]
  · have hn : newAt s env f u j = 0 := by unfold newAt; rw [if_neg (fun h => h1 h.1)]
    simp only [h1, hn, false_and, if_false, ite_self, Nat.add_zero, Nat.le_refl]

end MantraDex.LedSys
