/-
  C07Sys, part 4: the farm side of the ledger invariant along whole histories (`fl_reach`).
-/
import MantraDex.Proofs.LedSys2Farm

set_option linter.unusedSimpArgs false
set_option linter.unusedVariables false

namespace MantraDex.LedSys
open MantraDex MantraDex.C06Sys MantraDex.WSys

variable {D : Prop}

theorem fl_lift {w w' : World} {sender : Addr} {m : Msg} {k : Option Nat} {L : List Entry}
    (h : WCore w) (hl : LInv D w.fm w.fmEnv L) (hfl : FL w.fm L) (hpm : w.fm.config.poolManager = PM)
    (hok : MsgOk2 sender m)
    (hx : execMsg FUEL { w with bank := { w.bank with calls := 0, failAt := k } } sender m = .ok w') :
    FL w'.fm L := by
  have hI : LS2 w.fmEnv (fun s => LInv D s w.fmEnv L ∧ FL s L)
      { w with bank := { w.bank with calls := 0, failAt := k } } :=
    ⟨⟨rfl, hpm, h.finv, h.wf, h.buf⟩, hl, hfl⟩
  exact (ls2_exec (carried2_fl D w.fmEnv L) hI hok hx).p.2

theorem fl_claim_tx {w w' : World} {sender c : Addr} {u : Option Nat} {funds : List Coin} {k : Option Nat}
    {L : List Entry} (hs : isContract sender = false) (h : WCore w) (hl : LInv D w.fm w.fmEnv L)
    (hfl : FL w.fm L) (hpm : w.fm.config.poolManager = PM) (hD : D → u = none)
    (hx : execMsg FUEL { w with bank := { w.bank with calls := 0, failAt := k } } sender
      (.wasmExec c (.fm (.claim u)) funds) = .ok w') :
    FL w'.fm (L ++ claimEntries w.fm w.fmEnv sender u) := by
  rw [FUEL_succ] at hx
  obtain ⟨w1, w2, resp, hw1, hce, hsub⟩ := SysPools.wasm_inv hx
  obtain ⟨b, rfl⟩ := fundsMove_bank hw1
  obtain ⟨hsf, _⟩ := ext_ne hs
  rcases AuthSys.callExecute_cases hce with ⟨m, s, hm, -, -, -⟩ | ⟨m, s, hm, hc, hxx, rfl⟩ |
      ⟨m, s, hm, -, -, -, -⟩ | ⟨a, o, hm, -, -, -, -, -⟩
  · cases hm
  · cases hm
    have hclaim : fmClaim w.fm w.fmEnv sender funds u = .ok (s, resp) := hxx
    have hsenv : sender ≠ w.fmEnv.self := hsf
    obtain ⟨k1, k2, k3, k4⟩ := fmClaim_inv h.finv hsenv hclaim
    have hled := linv_claim h.finv k1 hl hfl.nodup hsenv hD hclaim
    have hfl' := fl_claim h.finv hl hfl hclaim
    have hI : LS2 w.fmEnv (fun s => LInv D s w.fmEnv (L ++ claimEntries w.fm w.fmEnv sender u) ∧
        FL s (L ++ claimEntries w.fm w.fmEnv sender u))
        { ({ w with bank := b } : World) with fm := s } :=
      ⟨⟨rfl, by show s.config.poolManager = PM; rw [k2]; exact hpm, k1, FmSys.poswf_congr k3 k4 h.wf, h.buf⟩,
        hled, hfl'⟩
    exact (ls2_subs (carried2_fl D w.fmEnv _) hI
      (fun sm hsm => msgOk2_of_send (SysPm.fmExecute_sends hxx sm hsm)) hsub).p.2
  · cases hm
  · cases hm

theorem top_fm_config_farms {w w' : World} {sender c : Addr} {u : FmConfigUpdate} {funds : List Coin} {n : Nat}
    (h : execMsg (n + 1) w sender (.wasmExec c (.fm (.updateConfig u)) funds) = .ok w') :
    w'.fm.farms = w.fm.farms := by
  obtain ⟨w1, w2, resp, hw1, hce, hx⟩ := SysPools.wasm_inv h
  obtain ⟨b, rfl⟩ := fundsMove_bank hw1
  simp only [callExecute] at hce
  split at hce
  · cases hce
  · obtain ⟨⟨s, r⟩, hr, hce⟩ := bind_ok.mp hce
    simp only [pure_ok, Prod.mk.injEq] at hce
    obtain ⟨rfl, rfl⟩ := hce
    have hf := (C05.config_conserves (Or.inl ⟨u, rfl⟩) hr).2.1
    unfold fmExecute at hr
    simp only [bind_ok] at hr
    obtain ⟨_, _, hr⟩ := hr
    obtain ⟨_, _, _, h4⟩ := fmUpdateConfig_frame' hr
    rw [h4] at hx
    have := execSubs_nil hx
    subst this
    exact hf

theorem fl_exec {w w' : World} {sender c : Addr} {msg : ContractMsg} {funds : List Coin} {k : Option Nat}
    {L : List Entry} (hs : isContract sender = false) (h : WCore w) (hl : LInv D w.fm w.fmEnv L)
    (hfl : FL w.fm L) (hpm : w.fm.config.poolManager = PM)
    (hD : D → ∀ u, msg = .fm (.claim u) → u = none)
    (hx : execMsg FUEL { w with bank := { w.bank with calls := 0, failAt := k } } sender
      (.wasmExec c msg funds) = .ok w')
    (hr : runTx w (.exec sender c msg funds) k = .ok w') :
    FL w'.fm (L ++ ledgerStep w (.exec sender c msg funds) k) := by
  by_cases hclaim : ∃ u, msg = .fm (.claim u)
  · obtain ⟨u, rfl⟩ := hclaim
    obtain ⟨hc, _⟩ := led_claim hs h hl hpm hfl.nodup (fun hd => hD hd u rfl) hx
    have : ledgerStep w (.exec sender c (.fm (.claim u)) funds) k = claimEntries w.fm w.fmEnv sender u := by
      unfold ledgerStep
      simp only
      rw [hr]
      simp only [hc, if_true]
    rw [this]
    exact fl_claim_tx hs h hl hfl hpm (fun hd => hD hd u rfl) hx
  · have hnc : ∀ u, msg ≠ .fm (.claim u) := fun u e => hclaim ⟨u, e⟩
    rw [ledgerStep_nonclaim hnc, List.append_nil]
    by_cases h1 : ∃ u, msg = .fm (.updateConfig u)
    · obtain ⟨u, rfl⟩ := h1
      rw [FUEL_succ] at hx
      exact fl_of_farms_eq (top_fm_config_farms hx) hfl
    · by_cases h2 : ∃ m, msg = .em m
      · obtain ⟨m, rfl⟩ := h2
        rw [FUEL_succ] at hx
        obtain ⟨_, hfm⟩ := top_em hx
        exact fl_of_farms_eq (by rw [hfm]) hfl
      · have hok : MsgOk sender (.wasmExec c msg funds) :=
          msgOk_external hs (fun u e => h1 ⟨u, e⟩) (fun m e => h2 ⟨m, e⟩)
        have hok2 : MsgOk2 sender (.wasmExec c msg funds) := by
          refine ⟨hok, ?_⟩
          cases msg with
          | fm m =>
            cases m with
            | claim u => exact absurd rfl (hnc u)
            | _ => trivial
          | _ => trivial
        exact fl_lift h hl hfl hpm hok2 hx

theorem fl_step (w : World) (tx : Tx) (k : Option Nat) (L : List Entry) (hext : C05Sys.External tx)
    (hpm : w.fm.config.poolManager = PM)
    (hD : D → ∀ s c u f, tx = .exec s c (.fm (.claim u)) f → u = none) (h : JInv D L w) (hfl : FL w.fm L) :
    FL (step w tx k).fm (L ++ ledgerStep w tx k) := by
  unfold step
  cases hr : runTx w tx k with
  | error e =>
    rw [ledgerStep_error hr, List.append_nil]
    exact hfl
  | ok w' =>
    simp only
    cases tx with
    | exec sender c msg funds =>
      exact fl_exec hext.1 h.core h.led hfl hpm (fun hd u hu => hD hd sender c u funds (by rw [hu])) hr hr
    | send frm to coins =>
      have : ledgerStep w (.send frm to coins) k = [] := rfl
      rw [this, List.append_nil]
      simp only [runTx] at hr
      exact fl_lift (m := .bankSend to coins) h.core h.led hfl hpm ⟨trivial, trivial⟩ hr
    | advance ns =>
      have : ledgerStep w (.advance ns) k = [] := rfl
      rw [this, List.append_nil]
      simp only [runTx, Except.ok.injEq] at hr
      subst hr
      exact hfl

/-- every prefix of a history: the ledger invariant and its farm side -/
theorem fl_reach (w0 : World) (h0 : Fresh w0) (txs : List (Tx × Option Nat))
    (hext : ∀ t ∈ txs, C05Sys.External t.1) (hst : Stable w0 txs) (hD : D → DefaultUntil txs) (n : Nat) :
    JInv D (ledger w0 (txs.take n)) ((txs.take n).foldl (fun w t => step w t.1 t.2) w0) ∧
    FL ((txs.take n).foldl (fun w t => step w t.1 t.2) w0).fm (ledger w0 (txs.take n)) := by
  induction n with
  | zero =>
    refine ⟨jinv_init w0 h0, ?_⟩
    show FL w0.fm []
    refine ⟨by rw [h0.farms]; exact List.nodup_nil, ?_, ?_, ?_, ?_⟩ <;>
      (intro f hf; rw [h0.farms] at hf; cases hf)
  | succ n ih =>
    have hj := (jinv_reach w0 h0 txs hext hst hD (n + 1)).1
    refine ⟨hj, ?_⟩
    rw [List.take_add_one, List.foldl_append, ledger_append]
    cases ht : txs[n]? with
    | none =>
      simp only [Option.toList, List.foldl_nil, ledger, List.append_nil]
      exact ih.2
    | some t =>
      have hmem : t ∈ txs := List.mem_of_getElem? ht
      obtain ⟨_, a4⟩ := hst n
      simp only [Option.toList, List.foldl_cons, List.foldl_nil, ledger, List.append_nil]
      exact fl_step _ t.1 t.2 _ (hext t hmem) a4 (fun hd => hD hd t hmem) ih.1 ih.2

end MantraDex.LedSys
