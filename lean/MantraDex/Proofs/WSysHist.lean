/-
  C10Sys, part 1: pure facts about weight histories (`histSet`, `Spec.weightAt`, `latestWeight`) when
  every snapshot lies at or before the epoch being written, and sums of weights over user lists.
-/
import MantraDex.Model.System
import MantraDex.Spec.Ledger
import MantraDex.Proofs.NumLemmas
import MantraDex.Proofs.FarmLemmas
import MantraDex.Properties.C10H

set_option linter.unusedSimpArgs false
set_option linter.unusedVariables false

namespace MantraDex.WSys
open MantraDex

abbrev Sorted := C10H.Sorted

theorem weightAt_nil (e : Nat) : Spec.weightAt [] e = 0 := rfl

/-- when no snapshot lies after `e`, the weight in effect from `e` on is the latest weight -/
theorem weightAt_eq_latest {h : List (Nat × Nat)} {e e' : Nat} (hb : ∀ x ∈ h, x.1 ≤ e) (he : e ≤ e') :
    Spec.weightAt h e' = latestWeight h := by
  unfold Spec.weightAt latestWeight histLatest
  have : h.filter (·.1 ≤ e') = h := by
    rw [List.filter_eq_self]
    intro x hx
    have := hb x hx
    simp only [decide_eq_true_eq]; omega
  rw [this]

theorem histSet_bound {h : List (Nat × Nat)} {e v : Nat} (hb : ∀ x ∈ h, x.1 ≤ e) :
    ∀ x ∈ histSet h e v, x.1 ≤ e := by
  intro x hx
  rcases Farm.mem_histSet hx with rfl | hx
  · exact Nat.le_refl _
  · exact hb x hx

theorem weightAt_histSet_before (h : List (Nat × Nat)) (e v e' : Nat) (hlt : e' < e) :
    Spec.weightAt (histSet h e v) e' = Spec.weightAt h e' :=
  Farm.wAtD_histSet_before 0 h e v e' hlt

theorem weightAt_histSet_after {h : List (Nat × Nat)} (hs : Sorted h) {e v e' : Nat}
    (hb : ∀ x ∈ h, x.1 ≤ e) (he : e ≤ e') : Spec.weightAt (histSet h e v) e' = v := by
  rw [weightAt_eq_latest (histSet_bound hb) he, C10H.latest_after_set hs hb]

theorem histSet_sorted {h : List (Nat × Nat)} (hs : Sorted h) (e v : Nat) : Sorted (histSet h e v) :=
  Farm.histSet_asc hs e v

/-- writing the same epoch twice keeps only the second value -/
theorem histSet_histSet_same (h : List (Nat × Nat)) (e v v' : Nat) :
    histSet (histSet h e v) e v' = histSet h e v' := by
  induction h with
  | nil => simp [histSet]
  | cons x xs ih =>
    obtain ⟨k, w⟩ := x
    by_cases h1 : e < k
    · simp [histSet, h1]
    · by_cases h2 : e = k
      · subst h2; simp [histSet]
      · simp only [histSet, h1, h2, if_false]
        rw [ih]

/-! ### compaction -/

/-- the compacted history: one snapshot at `ep` carrying the weight in effect there, then the later ones -/
def compact (h : List (Nat × Nat)) (ep : Nat) : List (Nat × Nat) :=
  (ep, Spec.weightAt h ep) :: h.filter (·.1 > ep)

theorem compact_sorted {h : List (Nat × Nat)} (hs : Sorted h) (ep : Nat) : Sorted (compact h ep) := by
  unfold compact
  refine List.pairwise_cons.2 ⟨?_, hs.filter _⟩
  intro x hx
  have := (List.mem_filter.1 hx).2
  simpa using this

theorem compact_mem {h : List (Nat × Nat)} {ep : Nat} {x : Nat × Nat} (hx : x ∈ compact h ep) :
    x.1 = ep ∨ x ∈ h := by
  unfold compact at hx
  rcases List.mem_cons.1 hx with rfl | hx
  · exact Or.inl rfl
  · exact Or.inr (List.mem_filter.1 hx).1

theorem compact_le {h : List (Nat × Nat)} (hs : Sorted h) (ep e : Nat) :
    Spec.weightAt (compact h ep) e ≤ Spec.weightAt h e := by
  by_cases he : ep ≤ e
  · have := Farm.wAtD_filter_gt hs 0 ep e he
    unfold compact
    rw [Farm.weightAt_eq, Farm.weightAt_eq, Farm.wAtD_cons, if_pos he, Farm.weightAt_eq, this]
    exact Nat.le_refl _
  · have : Spec.weightAt (compact h ep) e = 0 := by
      rw [Farm.weightAt_eq]
      apply Farm.wAtD_of_forall_gt
      intro x hx
      unfold compact at hx
      rcases List.mem_cons.1 hx with rfl | hx
      · simp only; omega
      · have := (List.mem_filter.1 hx).2
        simp only [decide_eq_true_eq] at this
        omega
    rw [this]; exact Nat.zero_le _

/-! ### sums over user lists -/

/-- Σ_{u ∈ us} f u -/
def sumU (us : List Addr) (f : Addr → Nat) : Nat := (us.map f).foldl (· + ·) 0

theorem sumU_cons (f : Addr → Nat) (u : Addr) (us : List Addr) : sumU (u :: us) f = f u + sumU us f :=
  C10H.sumW_cons f u us

theorem sumU_congr {f g : Addr → Nat} {us : List Addr} (h : ∀ a ∈ us, f a = g a) : sumU us f = sumU us g :=
  C10H.sumW_congr h

theorem sumU_mono {f g : Addr → Nat} {us : List Addr} (h : ∀ a ∈ us, f a ≤ g a) : sumU us f ≤ sumU us g := by
  induction us with
  | nil => exact Nat.le_refl _
  | cons u us ih =>
    rw [sumU_cons, sumU_cons]
    have := h u (by simp)
    have := ih (fun a ha => h a (List.mem_cons_of_mem _ ha))
    omega

theorem sumU_update {f g : Addr → Nat} {us : List Addr} {r : Addr} (hnd : us.Nodup) (hr : r ∈ us)
    (h : ∀ a ∈ us, a ≠ r → f a = g a) : sumU us f + g r = sumU us g + f r :=
  C10H.sumW_update hnd hr h

theorem sumU_ge_of_mem (f : Addr → Nat) {us : List Addr} {r : Addr} (hr : r ∈ us) : f r ≤ sumU us f :=
  C10H.sumW_ge_of_mem f hr

/-! ### the covering inequality under the two kinds of history updates (one LP token)

  `H a` is the history of address `a`, `t` the address carrying the total. -/

/-- the total's weight in effect covers the users' at every epoch -/
def Cov (H : Addr → List (Nat × Nat)) (t : Addr) : Prop :=
  ∀ us : List Addr, us.Nodup → t ∉ us → ∀ e, sumU us (fun u => Spec.weightAt (H u) e) ≤ Spec.weightAt (H t) e

/-- lowering (or keeping) users' weights keeps the covering -/
theorem cov_lower {H H' : Addr → List (Nat × Nat)} {t : Addr} (hc : Cov H t) (ht : H' t = H t)
    (hle : ∀ a e, Spec.weightAt (H' a) e ≤ Spec.weightAt (H a) e) : Cov H' t := by
  intro us hnd hself e
  rw [ht]
  exact Nat.le_trans (sumU_mono (fun a _ => hle a e)) (hc us hnd hself e)

/-- a fill or close written at epoch `e0`, when no snapshot of the total or of the receiver lies after `e0`:
    the total moves from `cw` to `cw'`, the receiver from `uw` to `uw'`, with
    fill: both `+ w`; close: both `- r` with `r ≤ uw` -/
theorem cov_update {H H' : Addr → List (Nat × Nat)} {t recv : Addr} {e0 cw' uw' : Nat}
    (hc : Cov H t) (hst : Sorted (H t)) (hsr : Sorted (H recv))
    (hbt : ∀ x ∈ H t, x.1 ≤ e0) (hbr : ∀ x ∈ H recv, x.1 ≤ e0)
    (hT : H' t = histSet (H t) e0 cw')
    (hR : recv ≠ t → H' recv = histSet (H recv) e0 uw')
    (hO : ∀ a, a ≠ t → a ≠ recv → H' a = H a)
    (hdelta : (∃ w, cw' = latestWeight (H t) + w ∧ (recv ≠ t → uw' = latestWeight (H recv) + w)) ∨
      (recv ≠ t ∧ ∃ r, r ≤ latestWeight (H recv) ∧ cw' = latestWeight (H t) - r ∧
        uw' = latestWeight (H recv) - r)) : Cov H' t := by
  intro us hnd hself e
  by_cases he : e < e0
  · -- nothing changes before the written epoch
    have hsame : ∀ a, Spec.weightAt (H' a) e = Spec.weightAt (H a) e := by
      intro a
      by_cases hat : a = t
      · subst hat; rw [hT, weightAt_histSet_before _ _ _ _ he]
      · by_cases har : a = recv
        · subst har; rw [hR hat, weightAt_histSet_before _ _ _ _ he]
        · rw [hO a hat har]
    rw [hsame t, sumU_congr (fun a _ => hsame a)]
    exact hc us hnd hself e
  · have he' : e0 ≤ e := Nat.le_of_not_lt he
    have hTn : Spec.weightAt (H' t) e = cw' := by rw [hT, weightAt_histSet_after hst hbt he']
    have hTo : Spec.weightAt (H t) e = latestWeight (H t) := weightAt_eq_latest hbt he'
    have hRo : Spec.weightAt (H recv) e = latestWeight (H recv) := weightAt_eq_latest hbr he'
    have hold := hc us hnd hself e
    rw [hTn]
    rw [hTo] at hold
    by_cases hrt : recv = t
    · -- the receiver is the total's own address: users untouched, the total can only have grown
      have hsame : ∀ a ∈ us, Spec.weightAt (H' a) e = Spec.weightAt (H a) e := by
        intro a ha
        have hat : a ≠ t := fun e => hself (e ▸ ha)
        rw [hO a hat (fun e => hat (e.trans hrt))]
      rw [sumU_congr hsame]
      rcases hdelta with ⟨w, h1, _⟩ | ⟨hne, _⟩
      · omega
      · exact absurd hrt hne
    · have hRn : Spec.weightAt (H' recv) e = uw' := by rw [hR hrt, weightAt_histSet_after hsr hbr he']
      have hoth : ∀ a ∈ us, a ≠ recv → Spec.weightAt (H' a) e = Spec.weightAt (H a) e := by
        intro a ha har
        rw [hO a (fun e => hself (e ▸ ha)) har]
      by_cases hin : recv ∈ us
      · have hupd := sumU_update (f := fun u => Spec.weightAt (H' u) e)
          (g := fun u => Spec.weightAt (H u) e) hnd hin hoth
        have hge := sumU_ge_of_mem (fun u => Spec.weightAt (H u) e) hin
        try simp only at hupd hge
        rw [hRn, hRo] at hupd
        rw [hRo] at hge
        rcases hdelta with ⟨w, h1, h2⟩ | ⟨_, r, h0, h1, h2⟩
        · have := h2 hrt; omega
        · omega
      · have hsame : sumU us (fun u => Spec.weightAt (H' u) e) = sumU us (fun u => Spec.weightAt (H u) e) :=
          sumU_congr (fun a ha => hoth a ha (fun e => hin (e ▸ ha)))
        rw [hsame]
        rcases hdelta with ⟨w, h1, _⟩ | ⟨_, r, h0, h1, h2⟩
        · omega
        · have hcons := hc (recv :: us) (List.nodup_cons.2 ⟨hin, hnd⟩)
            (by simp only [List.mem_cons, not_or]; exact ⟨fun e => hrt e.symm, hself⟩) e
          rw [sumU_cons, hRo, hTo] at hcons
          omega

end MantraDex.WSys

