/-
  C10Eq, part 6: concrete evaluated histories (non-vacuity and necessity of the whole-position condition).

  The kernel cannot evaluate `String.splitOn` (used by `validateLpDenom`); `Proofs/NonVacTwin.lean` provides a
  kernel-evaluable twin `stepK = step` whose `create_position` goes through a fuelled splitter.  Its twin of
  `fmExecute` does not cover `expand_position`, so a top-level `expand_position` gets its own twin here
  (`stepExpandK`, proved equal to `step` on such a transaction).  Proof devices only.
-/
import MantraDex.Model.System
import MantraDex.Proofs.NonVacTwin
import MantraDex.Proofs.WSysStep

set_option linter.unusedSimpArgs false
set_option linter.unusedVariables false

namespace MantraDex.ExactW.Cx
open MantraDex

/-- verbatim copy of `expandPosition` with `validateLpDenom` replaced by its kernel-evaluable twin -/
def expandPositionK (s : FmState) (env : FmEnv) (sender : Addr) (funds : List Coin) (id : String) :
    R (FmState × Response) := do
  let p ← match s.getPosition id with | some p => pure p | none => .error .notFound
  let lp ← oneCoin funds
  if !NonVac.validateLpDenomK lp.denom s.config.poolManager then .error .mismatch
  if p.lpDenom != lp.denom then .error .mismatch
  if !p.open_ then .error .invalidInput
  if !(p.receiver == sender || sender == s.config.poolManager) then .error .unauthorized
  let a ← ckAdd U128_MAX p.amount lp.amount
  let s1 := s.savePosition { p with amount := a }
  let s2 ← updateWeights s1 env p.receiver lp.denom lp.amount p.unlocking true
  pure (s2, { attrs := [("action", "expand_position")] })

theorem expandPositionK_eq : @expandPositionK = @expandPosition := by
  funext s env sender funds id
  unfold expandPositionK expandPosition
  rw [NonVac.validateLpDenomK_eq] <;> rfl

/-- a top-level `expand_position`, with the kernel-evaluable twin of the handler -/
def stepExpandK (w : World) (sender : Addr) (id : String) (funds : List Coin) (k : Option Nat) : World :=
  let w0 : World := { w with bank := { w.bank with calls := 0, failAt := k } }
  match (do
      let w1 ← if funds.isEmpty then pure w0 else do
        let b ← w0.bank.send sender FM funds
        pure { w0 with bank := b }
      let (w2, resp) ← (do
        let (s, r) ← expandPositionK w1.fm w1.fmEnv sender funds id
        pure ({ w1 with fm := s }, r) : R (World × Response))
      execSubs 63 w2 FM resp.msgs : R World) with
  | .ok w' => w'
  | .error _ => w

theorem step_expand_eq (w : World) (sender : Addr) (id : String) (funds : List Coin) (k : Option Nat) :
    step w (.exec sender FM (.fm (.expandPosition id)) funds) k = stepExpandK w sender id funds k := by
  unfold stepExpandK
  rw [expandPositionK_eq]
  simp only [step, runTx]
  rw [WSys.FUEL_succ, execMsg]
  have h1 : (!isContract FM) = false := by decide
  have h2 : (FM != FM) = false := by decide
  simp only [h1, callExecute, h2, fmExecute, Bool.false_eq_true, if_false]
  rfl

/-! ### the deployment and the transactions -/

def lp : Denom := "factory/pm/p.LP"

/-- a fresh deployment; `alice` holds 5 LP -/
def w0 : World := {
  bank := { bal := fun a d => if a = "alice" ∧ d = lp then 5 else 0, supply := fun d => if d = lp then 5 else 0 }
  pm := { config := ⟨FC, FM, ⟨"uom", 0⟩⟩, owner := { owner := some "o" } }
  fm := { config := ⟨FC, EM, PM, ⟨"uom", 0⟩, 1, 14, 86400, 31556926, 2629746, 0⟩,
          owner := { owner := some "o" } }
  em := { cfg := ⟨86400, 0⟩, owner := { owner := some "o" } }
  fc := { owner := some "o" }, nowNs := 86400 * 2 * 1000000000, tfFees := [], validAddr := fun _ => true }

/-- 100 days: the weight multiplier is 2.2…, `calculate_weight(1) = 2`, `calculate_weight(5) = 11` -/
def d100 : Nat := 86400 * 100

def create (n : Nat) : Tx := .exec "alice" FM (.fm (.createPosition (some "a") d100 none)) [⟨lp, n⟩]
def expand1 : Tx := .exec "alice" FM (.fm (.expandPosition "u-a")) [⟨lp, 1⟩]
def closePart : Tx := .exec "alice" FM (.fm (.closePosition "u-a" (some ⟨lp, 1⟩))) []
def closeAll : Tx := .exec "alice" FM (.fm (.closePosition "u-a" none)) []

def run (txs : List Tx) : World := txs.foldl (fun w t => step w t none) w0

/-- what the examples look at: latest total, latest weight of `alice`, (amount, open) of the positions, and the
    sum of `calculate_weight(amount, unlocking)` over the open positions in the LP token -/
def view (w : World) : Nat × Nat × List (Nat × Bool) × List (Option Nat) :=
  (latestWeight (w.fm.hist FM lp), latestWeight (w.fm.hist "alice" lp),
   w.fm.positions.map (fun p => (p.amount, p.open_)),
   (w.fm.positions.filter fun p => p.open_ && p.lpDenom == lp).map
     fun p => (calculateWeight p.amount p.unlocking).toOption)

/-- opened whole: recorded 11 = `calculate_weight(5)` -/
theorem run_whole : view (run [create 5]) = (11, 11, [(5, true)], [some 11]) := by
  unfold run
  rw [← NonVac.stepK_eq]
  decide +kernel

/-- opened whole and closed in full: everything returns to zero -/
theorem run_whole_closed : view (run [create 5, closeAll]) = (0, 0, [(5, false)], []) := by
  unfold run
  rw [← NonVac.stepK_eq]
  decide +kernel

/-- topped up in pieces: recorded 5 · `calculate_weight(1)` = 10, the position is worth `calculate_weight(5)` = 11 -/
theorem run_pieces :
    view (run [create 1, expand1, expand1, expand1, expand1]) = (10, 10, [(5, true)], [some 11]) := by
  unfold run
  simp only [List.foldl, expand1, step_expand_eq]
  rw [← NonVac.stepK_eq]
  decide +kernel

/-- closed in pieces: 11 − 4 · 2 − min(2, 3) = 1 stays in the total with no open position left, while the
    user's history is cleared -/
theorem run_partial :
    view (run [create 5, closePart, closePart, closePart, closePart, closeAll]) =
      (1, 0, [(1, false), (1, false), (1, false), (1, false), (1, false)], []) := by
  unfold run
  rw [← NonVac.stepK_eq]
  decide +kernel

/-- the hypotheses of `exact_step` about the environment hold for the first transaction -/
theorem run_whole_stable :
    (step w0 (create 5) none).em.cfg = w0.em.cfg ∧
    (step w0 (create 5) none).fm.config.epochManager = w0.fm.config.epochManager ∧
    (step w0 (create 5) none).nowNs ≤ U64_MAX := by
  rw [← NonVac.stepK_eq]
  decide +kernel

end MantraDex.ExactW.Cx
