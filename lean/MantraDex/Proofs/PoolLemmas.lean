/-
  How the pool-manager handlers change the state: every handler except `createPool` and the two
  privileged ones only rewrites the reserves of pools found by `getPool` (or the single-side
  buffer).  Used by C15 (config/ownership frame) and C16 (uniqueness/immutability of pools).
-/
import MantraDex.Proofs.DoLemmas

set_option linter.unusedSimpArgs false

namespace MantraDex
open MantraDex

theorem setAmount_denoms (cs : List Coin) (i a : Nat) :
    (setAmount cs i a).map (·.denom) = cs.map (·.denom) := by
  unfold setAmount
  rw [List.map_map]
  have : ((fun x : Coin => x.denom) ∘ fun (x : Coin × Nat) =>
      match x with | (c, j) => if (j == i) = true then { c with amount := a } else c)
      = (fun x : Coin => x.denom) ∘ Prod.fst := by
    funext ⟨c, j⟩
    simp only [Function.comp]
    split <;> rfl
  rw [this, ← List.map_map, List.zipIdx_map_fst]

theorem foldlM_inv_pl {α β : Type} {f : β → α → R β} (P : β → Prop)
    (hstep : ∀ b a b', P b → f b a = .ok b' → P b') :
    ∀ (l : List α) (b0 b' : β), P b0 → l.foldlM f b0 = .ok b' → P b' := by
  intro l
  induction l with
  | nil => intro b0 b' h0 h; simp only [List.foldlM, pure_ok] at h; subst h; exact h0
  | cons x xs ih =>
    intro b0 b' h0 h
    simp only [List.foldlM, bind_ok] at h
    obtain ⟨b1, h1, h2⟩ := h
    exact ih b1 b' (hstep _ _ _ h0 h1) h2

theorem getPool_ok {s : PmState} {id : String} {p : PoolInfo} (h : s.getPool id = .ok p) :
    p ∈ s.pools ∧ p.id = id := by
  unfold PmState.getPool at h
  split at h
  · next q hq =>
    cases h
    exact ⟨List.mem_of_find?_eq_some hq, by simpa using List.find?_some hq⟩
  · cases h

theorem assertSlippageTolerance_ok_pl {tol : Option Nat} {deposits poolAssets : List Coin}
    {pt : PoolType} {x : List Coin}
    (h : assertSlippageTolerance tol deposits poolAssets pt = .ok x) : x = poolAssets := by
  unfold assertSlippageTolerance at h
  split at h
  · simpa using h
  · split at h
    · simpa using h
    · simp only [ite_err_ok] at h
      obtain ⟨_, h⟩ := h
      split at h
      · simp only [bind_ok, ite_err_ok, pure_ok] at h
        obtain ⟨_, _, _, _, _, _, _, _, _, _, _, rfl⟩ := h
        rfl
      · simp only [bind_ok, ite_err_ok, pure_ok] at h
        obtain ⟨_, _, _, _, _, _, _, _, _, _, _, _, _, _, _, _, rfl⟩ := h
        rfl

/-! ### reserve-only handlers -/

/-- the fields of a pool that never change (same conjunction as `C16.StaticEq`) -/
def SameStatic (p q : PoolInfo) : Prop :=
  p.id = q.id ∧ p.denoms = q.denoms ∧ p.decimals = q.decimals ∧ p.ptype = q.ptype ∧
  p.fees = q.fees ∧ p.lpDenom = q.lpDenom

/-- what the non-creating handlers can do to the state: overwrite a pool found by `getPool` with
    one that has the same static fields and the same reserve denoms (in the same order), or set
    the single-side buffer -/
inductive PmStep : PmState → PmState → Prop
  | refl (s : PmState) : PmStep s s
  | save (s : PmState) (pid : String) (p p' : PoolInfo) :
      s.getPool pid = .ok p → SameStatic p p' →
      p'.assets.map (·.denom) = p.assets.map (·.denom) → PmStep s (s.savePool p')
  | buffer (s : PmState) (b : Option SingleSideBuffer) : PmStep s { s with buffer := b }
  | trans {a b c : PmState} : PmStep a b → PmStep b c → PmStep a c

theorem PmStep.assets (s : PmState) (pid : String) (p : PoolInfo) (as' : List Coin)
    (hp : s.getPool pid = .ok p) (h : as'.map (·.denom) = p.assets.map (·.denom)) :
    PmStep s (s.savePool { p with assets := as' }) :=
  PmStep.save s pid p _ hp ⟨rfl, rfl, rfl, rfl, rfl, rfl⟩ h

theorem PmStep.status (s : PmState) (pid : String) (p : PoolInfo) (st : PoolStatus)
    (hp : s.getPool pid = .ok p) : PmStep s (s.savePool { p with status := st }) :=
  PmStep.save s pid p _ hp ⟨rfl, rfl, rfl, rfl, rfl, rfl⟩ rfl

theorem performSwap_step {s s' : PmState} {offer : Coin} {ask : Denom} {pid : String}
    {b ms : Option Nat} {r : SwapResult} (h : performSwap s offer ask pid b ms = .ok (s', r)) :
    PmStep s s' := by
  unfold performSwap at h
  simp only [↓err_bind, bind_ok, pure_ok, ite_err_ok] at h
  obtain ⟨pool, hp, ⟨oc, ac, oi, ai, od, ad⟩, hidx, h⟩ := h
  simp only [↓err_bind, bind_ok, pure_ok, ite_err_ok, Prod.mk.injEq] at h
  obtain ⟨_, _, _, _, _, _, _, _, _, _, _, _, _, _, _, _, rfl, _⟩ := h
  exact PmStep.assets s pid pool _ hp (by rw [setAmount_denoms, setAmount_denoms])

theorem swapHandler_step {s s' : PmState} {env : PmEnv} {sender : Addr} {funds : List Coin}
    {ask : Denom} {b ms : Option Nat} {recv : Option Addr} {pid : String} {r : Response}
    (h : swapHandler s env sender funds ask b ms recv pid = .ok (s', r)) : PmStep s s' := by
  unfold swapHandler at h
  simp only [↓err_bind, bind_ok, pure_ok, ite_err_ok] at h
  obtain ⟨pool, hp, _, offer, _, _, _, ⟨s1, r1⟩, hps, h⟩ := h
  simp only [Prod.mk.injEq] at h
  obtain ⟨rfl, _⟩ := h
  exact performSwap_step hps

theorem routeHops_step {ms : Option Nat} (ops : List SwapOp) :
    ∀ (s s' : PmState) (prev out : Coin) (fees fees' : List Msg),
      routeHops s ms ops prev fees = .ok (s', out, fees') → PmStep s s' := by
  induction ops with
  | nil =>
    intro s s' prev out fees fees' h
    simp only [routeHops] at h
    cases h; exact PmStep.refl _
  | cons op ops ih =>
    intro s s' prev out fees fees' h
    simp only [routeHops, ↓err_bind, bind_ok, pure_ok, ite_err_ok] at h
    obtain ⟨pool, hp, _, ⟨s1, r1⟩, hps, h⟩ := h
    exact PmStep.trans (performSwap_step hps) (ih _ _ _ _ _ _ h)

theorem execSwapOps_step {s s' : PmState} {env : PmEnv} {sender : Addr} {funds : List Coin}
    {ops : List SwapOp} {mr : Option Nat} {recv : Option Addr} {ms : Option Nat} {r : Response}
    (h : execSwapOps s env sender funds ops mr recv ms = .ok (s', r)) : PmStep s s' := by
  unfold execSwapOps at h
  simp only [↓err_bind, pure_bind] at h
  split at h
  · split at h
    · simp only [↓err_bind, pure_bind, bind_ok, pure_ok, ite_err_ok] at h
      obtain ⟨amount, _, _, _, ⟨s1, out, fm⟩, hr, h⟩ := h
      have : s1 = s' := by
        simp only [] at h
        split at h
        · simp only [ite_err_ok, pure_ok, Prod.mk.injEq] at h
          exact h.2.1.symm
        · simp only [pure_ok, Prod.mk.injEq] at h
          exact h.1.symm
      subst this
      exact routeHops_step _ _ _ _ _ _ _ hr
    · cases h
  · cases h

theorem withdrawLiquidity_step {s s' : PmState} {env : PmEnv} {sender : Addr} {funds : List Coin}
    {pid : String} {r : Response}
    (h : withdrawLiquidity s env sender funds pid = .ok (s', r)) : PmStep s s' := by
  unfold withdrawLiquidity at h
  simp only [↓err_bind, pure_bind, bind_ok, pure_ok, ite_err_ok, Prod.mk.injEq] at h
  obtain ⟨pool, hp, _, amount, _, _, ratio, _, _, refunds, _, assets', hfold, rfl, _⟩ := h
  refine PmStep.assets s pid pool assets' hp ?_
  refine foldlM_inv_pl (fun as => as.map (·.denom) = pool.assets.map (·.denom)) ?_ _ _ _ rfl hfold
  intro as r as' ih hstep
  split at hstep
  · simp only [bind_ok, pure_ok] at hstep
    obtain ⟨_, _, _, _, rfl⟩ := hstep
    rw [setAmount_denoms]; exact ih
  · cases hstep

theorem addFold_denoms {as0 as' deposits : List Coin}
    (h : List.foldlM (fun as (d : Coin) =>
            match findIdx (fun c : Coin => c.denom == d.denom) as with
            | some i => do
              let c ← getD? as i
              let a ← ckAdd U128_MAX c.amount d.amount
              pure (setAmount as i a)
            | none => Except.error Err.mismatch) as0 deposits = .ok as') :
    as'.map (·.denom) = as0.map (·.denom) := by
  refine foldlM_inv_pl (fun as => as.map (·.denom) = as0.map (·.denom)) ?_ _ _ _ rfl h
  intro as r as' ih hstep
  split at hstep
  · simp only [bind_ok, pure_ok] at hstep
    obtain ⟨_, _, _, _, rfl⟩ := hstep
    rw [setAmount_denoms]; exact ih
  · cases hstep

theorem provide_leaf {s s' : PmState} {pool : PoolInfo} {pid : String} {ls : Option Nat}
    {deposits a1 a2 : List Coin} (hp : s.getPool pid = .ok pool)
    (h1 : assertSlippageTolerance ls deposits pool.assets pool.ptype = .ok a1)
    (h2 : List.foldlM (fun as (d : Coin) =>
            match findIdx (fun c : Coin => c.denom == d.denom) as with
            | some i => do
              let c ← getD? as i
              let a ← ckAdd U128_MAX c.amount d.amount
              pure (setAmount as i a)
            | none => Except.error Err.mismatch) a1 deposits = .ok a2)
    (h3 : s' = s.savePool { pool with assets := a2 }) : PmStep s s' := by
  subst h3
  refine PmStep.assets s pid pool a2 hp ?_
  rw [addFold_denoms h2, assertSlippageTolerance_ok_pl h1]

theorem provideLiquidity_step {s s' : PmState} {env : PmEnv} {sender : Addr} {funds : List Coin}
    {ls ss : Option Nat} {recv : Option Addr} {pid : String} {u : Option Nat} {l : Option String}
    {r : Response}
    (h : provideLiquidity s env sender funds ls ss recv pid u l = .ok (s', r)) : PmStep s s' := by
  unfold provideLiquidity at h
  simp only [↓err_bind, pure_bind, bind_ok, pure_ok, ite_err_ok, Prod.mk.injEq] at h
  obtain ⟨pool, hp, _, deposits, _, _, _, h⟩ := h
  split at h
  · simp only [↓err_bind, pure_bind, bind_ok, pure_ok, ite_err_ok, Prod.mk.injEq] at h
    obtain ⟨_, _, _, dep, _, h⟩ := h
    split at h
    · simp only [↓err_bind, pure_bind, bind_ok, pure_ok, ite_err_ok, Prod.mk.injEq] at h
      obtain ⟨_, _, _, _, _, rfl, _⟩ := h
      exact PmStep.buffer s _
    · cases h
  · simp only [ite_err_ok] at h
    obtain ⟨_, h⟩ := h
    repeat' (split at h <;> try simp only [↓err_bind, pure_bind, bind_ok, pure_ok, ite_err_ok, Prod.mk.injEq, reduceCtorEq] at h)
    all_goals (repeat (obtain ⟨_, h⟩ := h))
    all_goals exact provide_leaf hp ‹_› ‹_› ‹_›


/-! ### `create_pool` and `update_config` -/

/-- identifier and counter chosen by `create_pool` -/
def newPoolIdent (s : PmState) (id : Option String) : String :=
  match id with
  | some i => C.EXPLICIT_POOL_ID_PREFIX ++ i
  | none => C.AUTO_POOL_ID_PREFIX ++ toString (s.counter + 1)

def newPoolCounter (s : PmState) (id : Option String) : Nat :=
  match id with
  | some _ => s.counter
  | none => s.counter + 1

theorem createPool_inv {s s' : PmState} {env : PmEnv} {funds : List Coin} {denoms : List Denom}
    {decimals : List Nat} {fees : PoolFee} {pt : PoolType} {id : Option String} {r : Response}
    (h : createPool s env funds denoms decimals fees pt id = .ok (s', r)) :
    ∃ total,
      C.MIN_ASSETS_PER_POOL ≤ denoms.length ∧ denoms.length = decimals.length ∧
      (pt = .cp → denoms.length = 2) ∧ (∀ amp, pt = .stable amp → amp ≠ 0) ∧
      denoms.length ≤ C.MAX_ASSETS_PER_POOL ∧
      validateFeesArePaid s.config.creationFee env.tfFees funds = .ok total ∧
      validateNoAdditionalFunds funds total = .ok () ∧
      hasDuplicates denoms = false ∧ poolFeeValid fees = true ∧
      validatePoolIdentifier (newPoolIdent s id) = true ∧
      s.pools.any (·.id == newPoolIdent s id) = false ∧
      s' = ({ s with counter := newPoolCounter s id }).savePool
        { id := newPoolIdent s id, denoms := denoms, lpDenom := lpDenomOf env.self (newPoolIdent s id),
          decimals := decimals, assets := denoms.map fun d => ⟨d, 0⟩, ptype := pt, fees := fees,
          status := {} } ∧
      r = Response.ofMsgs
        ((if s.config.creationFee.amount ≠ 0
            then [Msg.bankSend s.config.feeCollector [s.config.creationFee]] else []) ++
          [Msg.tfCreateDenom (newPoolIdent s id ++ "." ++ C.LP_SYMBOL)]) := by
  unfold createPool at h
  cases id <;> cases pt <;>
    simp only [↓err_bind, pure_bind, bind_ok, pure_ok, ite_err_ok, Prod.mk.injEq] at h <;>
    obtain ⟨h0, hpt, hmax, total, hfees, ⟨⟩, hnoadd, hdup, hfee, hctr, hvalid, hany, hfact, rfl, rfl⟩ := h <;>
    simp only [Bool.or_eq_true, not_or, decide_eq_true_eq, bne_iff_ne, ne_eq, Decidable.not_not,
      Bool.not_eq_true, Bool.not_eq_eq_eq_not, Bool.not_true, Bool.not_false, Bool.not_not] at h0 hpt hdup hfee hvalid hany <;>
    refine ⟨total, by omega, h0.2, ?_, ?_, by omega, hfees, hnoadd, by simpa using hdup, by simpa using hfee, by simpa [newPoolIdent] using hvalid,
      by simpa [newPoolIdent] using hany, rfl, rfl⟩ <;>
    simp_all

theorem pmUpdateConfig_inv {s s' : PmState} {env : PmEnv} {sender : Addr} {fc fm : Option Addr}
    {cf : Option Coin} {t : Option FeatureToggle} {r : Response}
    (h : pmUpdateConfig s env sender fc fm cf t = .ok (s', r)) :
    s.owner.owner = some sender ∧ ∃ s1 cfg, s' = { s1 with config := cfg } ∧
      (s1 = s ∨ ∃ pid p st, s.getPool pid = .ok p ∧ s1 = s.savePool { p with status := st }) := by
  unfold pmUpdateConfig at h
  simp only [↓err_bind, pure_bind, bind_ok, pure_ok, ite_err_ok, Prod.mk.injEq, assertOwner_ok] at h
  obtain ⟨_, ho, h⟩ := h
  refine ⟨ho, ?_⟩
  repeat' (split at h <;> try simp only [↓err_bind, pure_bind, bind_ok, pure_ok, ite_err_ok, Prod.mk.injEq, reduceCtorEq] at h)
  all_goals first
    | (obtain ⟨p, hp, rfl, _⟩ := h; exact ⟨_, _, rfl, Or.inr ⟨_, p, _, hp, rfl⟩⟩)
    | (obtain ⟨rfl, _⟩ := h; exact ⟨s, _, rfl, Or.inl rfl⟩)


/-! ### `savePool` / `insertPoolSorted` -/

theorem savePool_config (s : PmState) (p : PoolInfo) : (s.savePool p).config = s.config := by
  unfold PmState.savePool; split <;> rfl

theorem savePool_owner (s : PmState) (p : PoolInfo) : (s.savePool p).owner = s.owner := by
  unfold PmState.savePool; split <;> rfl

theorem savePool_pools_of_getPool {s : PmState} {pid : String} {p p' : PoolInfo}
    (hp : s.getPool pid = .ok p) (hid : p.id = p'.id) :
    (s.savePool p').pools = s.pools.map fun q => if q.id == p'.id then p' else q := by
  obtain ⟨hmem, _⟩ := getPool_ok hp
  have : s.pools.any (·.id == p'.id) = true :=
    List.any_eq_true.2 ⟨p, hmem, by simp [hid]⟩
  unfold PmState.savePool
  rw [if_pos this]

theorem savePool_pools_of_fresh {s : PmState} {p : PoolInfo}
    (h : s.pools.any (·.id == p.id) = false) :
    (s.savePool p).pools = insertPoolSorted p s.pools := by
  unfold PmState.savePool
  rw [if_neg (by simp [h])]

theorem insertPoolSorted_perm (p : PoolInfo) (xs : List PoolInfo) :
    (insertPoolSorted p xs).Perm (p :: xs) := by
  induction xs with
  | nil => exact List.Perm.refl _
  | cons x xs ih =>
    unfold insertPoolSorted
    split
    · exact List.Perm.refl _
    · exact (List.Perm.cons x ih).trans (List.Perm.swap p x xs)

theorem mem_insertPoolSorted {p p' : PoolInfo} {xs : List PoolInfo} :
    p' ∈ insertPoolSorted p xs ↔ p' = p ∨ p' ∈ xs := by
  rw [(insertPoolSorted_perm p xs).mem_iff, List.mem_cons]

theorem insertPoolSorted_nodup {p : PoolInfo} {xs : List PoolInfo}
    (hfresh : ∀ q ∈ xs, q.id ≠ p.id) (h : (xs.map (·.id)).Nodup) :
    ((insertPoolSorted p xs).map (·.id)).Nodup := by
  rw [((insertPoolSorted_perm p xs).map _).nodup_iff, List.map_cons, List.nodup_cons]
  refine ⟨?_, h⟩
  intro hm
  obtain ⟨q, hq, hqe⟩ := List.mem_map.1 hm
  exact hfresh q hq hqe

theorem map_replace_ids (ps : List PoolInfo) (p' : PoolInfo) :
    (ps.map fun q => if q.id == p'.id then p' else q).map (·.id) = ps.map (·.id) := by
  rw [List.map_map]
  apply List.map_congr_left
  intro q _
  simp only [Function.comp]
  split
  · next h => exact (by simpa using h : q.id = p'.id).symm
  · rfl

/-! ### consequences of `PmStep` -/

theorem PmStep.config_owner {s s' : PmState} (h : PmStep s s') :
    s'.config = s.config ∧ s'.owner = s.owner := by
  induction h with
  | refl s => exact ⟨rfl, rfl⟩
  | save s pid p p' hp _ _ => exact ⟨savePool_config _ _, savePool_owner _ _⟩
  | buffer s b => exact ⟨rfl, rfl⟩
  | trans _ _ ih1 ih2 => exact ⟨ih2.1.trans ih1.1, ih2.2.trans ih1.2⟩

theorem PmStep.ids {s s' : PmState} (h : PmStep s s') :
    s'.pools.map (·.id) = s.pools.map (·.id) := by
  induction h with
  | refl s => rfl
  | save s pid p p' hp hs _ => rw [savePool_pools_of_getPool hp hs.1, map_replace_ids]
  | buffer s b => rfl
  | trans _ _ ih1 ih2 => exact ih2.trans ih1

theorem pmUpdateConfig_step {s s' : PmState} {env : PmEnv} {sender : Addr} {fc fm : Option Addr}
    {cf : Option Coin} {t : Option FeatureToggle} {r : Response}
    (h : pmUpdateConfig s env sender fc fm cf t = .ok (s', r)) :
    ∃ s1 cfg, PmStep s s1 ∧ s' = { s1 with config := cfg } := by
  obtain ⟨_, s1, cfg, rfl, h1 | ⟨pid, p, st, hp, rfl⟩⟩ := pmUpdateConfig_inv h
  · subst h1; exact ⟨_, cfg, PmStep.refl _, rfl⟩
  · exact ⟨_, cfg, PmStep.status s pid p st hp, rfl⟩

theorem createPool_pools {s s' : PmState} {env : PmEnv} {funds : List Coin} {denoms : List Denom}
    {decimals : List Nat} {fees : PoolFee} {pt : PoolType} {id : Option String} {r : Response}
    (h : createPool s env funds denoms decimals fees pt id = .ok (s', r)) :
    ∃ p : PoolInfo, (∀ q ∈ s.pools, q.id ≠ p.id) ∧ s'.pools = insertPoolSorted p s.pools ∧
      s'.config = s.config ∧ s'.owner = s.owner ∧
      p = { id := newPoolIdent s id, denoms := denoms, lpDenom := lpDenomOf env.self (newPoolIdent s id),
            decimals := decimals, assets := denoms.map fun d => ⟨d, 0⟩, ptype := pt, fees := fees,
            status := {} } := by
  obtain ⟨total, _, _, _, _, _, _, _, _, _, _, hany, rfl, _⟩ := createPool_inv h
  refine ⟨_, ?_, savePool_pools_of_fresh hany, savePool_config _ _, savePool_owner _ _, rfl⟩
  intro q hq hqe
  have := List.any_eq_false.1 hany q hq
  simp [hqe] at this

/-- the four ways `execute` changes the state -/
theorem pmExecute_cases {s s' : PmState} {env : PmEnv} {sender : Addr} {funds : List Coin}
    {m : PmMsg} {r : Response} (h : pmExecute s env sender funds m = .ok (s', r)) :
    PmStep s s' ∨
    (∃ denoms decimals fees pt id, m = .createPool denoms decimals fees pt id ∧
        createPool s env funds denoms decimals fees pt id = .ok (s', r)) ∨
    (∃ s1 cfg, (∃ fc fm fee t, m = .updateConfig fc fm fee t) ∧ PmStep s s1 ∧ s' = { s1 with config := cfg }) ∨
    (∃ o, (∃ a, m = .updateOwnership a) ∧ s' = { s with owner := o }) := by
  cases m with
  | createPool d dc f pt id => exact Or.inr (Or.inl ⟨d, dc, f, pt, id, rfl, h⟩)
  | provideLiquidity ls ss rc pid u l => exact Or.inl (provideLiquidity_step h)
  | swap ask b ms rc pid => exact Or.inl (swapHandler_step h)
  | withdrawLiquidity pid => exact Or.inl (withdrawLiquidity_step h)
  | execSwapOps ops mr rc ms => exact Or.inl (execSwapOps_step h)
  | updateConfig fc fm cf t =>
    simp only [pmExecute, bind_ok] at h
    obtain ⟨_, _, h⟩ := h
    obtain ⟨s1, cfg, hs, rfl⟩ := pmUpdateConfig_step h
    exact Or.inr (Or.inr (Or.inl ⟨s1, cfg, ⟨fc, fm, cf, t, rfl⟩, hs, rfl⟩))
  | updateOwnership a =>
    simp only [pmExecute, bind_ok, pure_ok, Prod.mk.injEq] at h
    obtain ⟨_, _, o, _, rfl, _⟩ := h
    exact Or.inr (Or.inr (Or.inr ⟨o, ⟨a, rfl⟩, rfl⟩))


end MantraDex
