/-
  Which messages the four contracts can emit (used by `Properties/C15Sys.lean`):
  * everything but a deposit emits only bank / token-factory messages (`Leaf`);
  * a single-asset deposit emits the self-`Swap`, a multi-asset deposit emits mints and at most one
    position message for the farm manager, on behalf of the receiver (`pl_shape`);
  * the reply emits the second-leg self-`ProvideLiquidity` with the buffered options (`pmReply_shape`);
  * no contract ever emits a privileged message or a farm message (`Emitted`).
-/
import MantraDex.Proofs.AuthSysLift
import MantraDex.Proofs.PmSysLemmas
import MantraDex.Proofs.PoolLemmas
import MantraDex.Properties.C14

set_option linter.unusedSimpArgs false
set_option linter.unusedVariables false

namespace MantraDex.AuthSys
open MantraDex SysPm

/-- not a contract call -/
def Leaf : Msg → Prop
  | .wasmExec .. => False
  | _ => True

theorem leaf_of_send {m : Msg} (h : IsSend m) : Leaf m := by
  obtain ⟨to, cs, rfl⟩ := h; trivial

theorem leaf_mk {ms : List Msg} (h : ∀ m ∈ ms, Leaf m) :
    ∀ sm ∈ ms.map (fun m => ({ msg := m } : SubMsg)), Leaf sm.msg := by
  intro sm hsm
  obtain ⟨m, hm, rfl⟩ := List.mem_map.1 hsm
  exact h m hm

theorem leaf_opt {c : Prop} [Decidable c] {m : Msg} (hm : Leaf m) :
    ∀ m' ∈ (if c then [m] else []), Leaf m' := by
  intro m' h
  split at h
  · simp only [List.mem_singleton] at h; subst h; exact hm
  · cases h

theorem leaf_append {xs ys : List Msg} (hx : ∀ m ∈ xs, Leaf m) (hy : ∀ m ∈ ys, Leaf m) :
    ∀ m ∈ xs ++ ys, Leaf m := by
  intro m h
  rcases List.mem_append.1 h with h | h
  · exact hx m h
  · exact hy m h

theorem leaf_nil {l : List SubMsg} (h : l = []) : ∀ sm ∈ l, Leaf sm.msg := by
  subst h; intro sm hsm; cases hsm

/-- every pool-manager message except a deposit emits only bank / token-factory messages -/
theorem pmExecute_leaf {s s' : PmState} {env : PmEnv} {sender : Addr} {funds : List Coin} {m : PmMsg}
    {r : Response} (h : pmExecute s env sender funds m = .ok (s', r))
    (hm : ∀ ls ss rc pid u l, m ≠ .provideLiquidity ls ss rc pid u l) : ∀ sm ∈ r.msgs, Leaf sm.msg := by
  cases m with
  | createPool denoms decimals fees pt id =>
    simp only [pmExecute] at h
    obtain ⟨counter, pool, lpSym, totalFees, -, -, -, -, -, hmsgs⟩ := createPool_ok h
    rw [hmsgs]
    apply leaf_mk
    apply leaf_append (leaf_opt (by trivial))
    intro m hm
    simp only [List.mem_singleton] at hm
    subst hm; trivial
  | provideLiquidity ls ss rc pid u l => exact absurd rfl (hm ls ss rc pid u l)
  | swap ask b ms rc pid =>
    simp only [pmExecute] at h
    obtain ⟨offer, sr, -, -, hmsgs⟩ := C04.swapHandler_messages h
    rw [hmsgs]
    apply leaf_mk
    exact leaf_append (leaf_append (leaf_opt trivial) (leaf_opt trivial)) (leaf_opt trivial)
  | withdrawLiquidity pid =>
    simp only [pmExecute] at h
    obtain ⟨pool, amount, refunds, assets', -, -, -, -, hmsgs⟩ := withdraw_ok h
    rw [hmsgs]
    apply leaf_mk
    intro m hm
    simp only [List.mem_cons, List.mem_singleton, List.not_mem_nil, or_false] at hm
    rcases hm with rfl | rfl <;> trivial
  | execSwapOps ops mr rc ms =>
    simp only [pmExecute] at h
    obtain ⟨first, last, amount, out, fm, -, -, -, hroute, hmsgs⟩ := execSwapOps_ok h
    rw [hmsgs]
    apply leaf_mk
    apply leaf_append (leaf_opt (by trivial))
    intro m hm
    have := (C04.routeHops_fee_msgs (by intro m hm; cases hm) trivial hroute).2 m hm
    rcases this with ⟨cs, rfl⟩ | ⟨cs, rfl⟩ <;> trivial
  | updateConfig fc fm cf t =>
    exact leaf_nil (pmExecute_config_ok (Or.inl ⟨_, _, _, _, rfl⟩) h).2.1
  | updateOwnership a =>
    exact leaf_nil (pmExecute_config_ok (Or.inr ⟨_, rfl⟩) h).2.1

/-- every farm-manager message emits only bank sends -/
theorem fmExecute_leaf {s s' : FmState} {env : FmEnv} {sender : Addr} {funds : List Coin}
    {m : FmMsg} {r : Response} (h : fmExecute s env sender funds m = .ok (s', r)) :
    ∀ sm ∈ r.msgs, Leaf sm.msg := fun sm hsm => leaf_of_send (fmExecute_sends h sm hsm)

/-! ### deposits -/

/-- a message a multi-asset deposit may emit: a mint, or the one position message for the farm manager,
    always for the receiver `recv` of the deposit -/
def PlMsg (env : PmEnv) (fmAddr recv : Addr) (u : Option Nat) (m : Msg) : Prop :=
  Leaf m ∨
  (∃ id uu fs, u = some uu ∧ m = .wasmExec fmAddr (.fm (.createPosition id uu (some recv))) fs) ∨
  (∃ lid fs, u.isSome ∧ env.fmPosition lid = some (lid, recv) ∧
    m = .wasmExec fmAddr (.fm (.expandPosition lid)) fs)

theorem plTail_shape {s s' : PmState} {env : PmEnv} {sender : Addr} {pool : PoolInfo} {deposits : List Coin}
    {ls : Option Nat} {recv : Addr} {u : Option Nat} {l : Option String} {shares : Nat}
    {msgs0 : List Msg} {r : Response} (hm0 : ∀ m ∈ msgs0, Leaf m)
    (h : plTail s env sender pool deposits ls recv u l shares msgs0 = .ok (s', r)) :
    ∀ sm ∈ r.msgs, PlMsg env s.config.farmManager recv u sm.msg := by
  unfold plTail at h
  simp only [] at h
  obtain ⟨pa', hpa, h⟩ := bind_ok.mp h
  clear hpa
  have mk : ∀ ms : List Msg, (∀ m ∈ ms, PlMsg env s.config.farmManager recv u m) →
      ∀ sm ∈ (Response.ofMsgs ms [("action", "provide_liquidity"), ("added_shares", toString shares),
        ("pool_reserves", reservesAttr { pool with assets := pa' })]).msgs,
        PlMsg env s.config.farmManager recv u sm.msg := by
    intro ms hms sm hsm
    simp only [Response.ofMsgs, List.mem_map] at hsm
    obtain ⟨m, hm, rfl⟩ := hsm
    exact hms m hm
  cases u with
  | none =>
    simp only [↓ite_err_bind_ok, ↓pure_bind'] at h
    obtain ⟨hv, h⟩ := h
    obtain ⟨as', has, h⟩ := bind_ok.mp h
    simp only [pure_ok, Prod.mk.injEq] at h
    obtain ⟨rfl, rfl⟩ := h
    intro sm hsm
    simp only [Response.ofMsgs, List.mem_map] at hsm
    obtain ⟨m, hm, rfl⟩ := hsm
    rcases List.mem_append.1 hm with hm | hm
    · exact Or.inl (hm0 m hm)
    · simp only [List.mem_singleton] at hm
      subst hm; exact Or.inl trivial
  | some uu =>
    simp only [↓ite_err_bind_ok] at h
    obtain ⟨hauth, h⟩ := h
    have hfin : ∀ lockMsg, PlMsg env s.config.farmManager recv (some uu) lockMsg →
        ∀ m ∈ msgs0 ++ [Msg.tfMint ⟨pool.lpDenom, shares⟩ env.self, lockMsg],
          PlMsg env s.config.farmManager recv (some uu) m := by
      intro lockMsg hl m hm
      rcases List.mem_append.1 hm with hm | hm
      · exact Or.inl (hm0 m hm)
      · simp only [List.mem_cons, List.mem_singleton, List.not_mem_nil, or_false] at hm
        rcases hm with rfl | rfl
        · exact Or.inl trivial
        · exact hl
    have fin2 : ∀ lockMsg as', PlMsg env s.config.farmManager recv (some uu) lockMsg →
        ∀ sm ∈ (Response.ofMsgs (msgs0 ++ [Msg.tfMint ⟨pool.lpDenom, shares⟩ env.self, lockMsg])
          [("action", "provide_liquidity"), ("added_shares", toString shares),
            ("pool_reserves", reservesAttr { pool with assets := as' })]).msgs,
          PlMsg env s.config.farmManager recv (some uu) sm.msg := by
      intro lockMsg as' hl sm hsm
      simp only [Response.ofMsgs, List.mem_map] at hsm
      obtain ⟨m, hm, rfl⟩ := hsm
      exact hfin lockMsg hl m hm
    cases l with
    | none =>
      simp only [↓pure_bind'] at h
      obtain ⟨as', has, h⟩ := bind_ok.mp h
      simp only [pure_ok, Prod.mk.injEq] at h
      obtain ⟨rfl, rfl⟩ := h
      exact fin2 _ _ (Or.inr (Or.inl ⟨_, _, _, rfl, rfl⟩))
    | some lid =>
      simp only [] at h
      cases hfm : env.fmPosition lid with
      | none =>
        rw [hfm] at h
        simp only [↓pure_bind'] at h
        obtain ⟨as', has, h⟩ := bind_ok.mp h
        simp only [pure_ok, Prod.mk.injEq] at h
        obtain ⟨rfl, rfl⟩ := h
        exact fin2 _ _ (Or.inr (Or.inl ⟨_, _, _, rfl, rfl⟩))
      | some pos =>
        obtain ⟨pid', pr⟩ := pos
        rw [hfm] at h
        simp only [↓ite_err_bind_ok, ↓pure_bind'] at h
        obtain ⟨hown, h⟩ := h
        obtain ⟨as', has, h⟩ := bind_ok.mp h
        simp only [pure_ok, Prod.mk.injEq] at h
        obtain ⟨rfl, rfl⟩ := h
        have hown' : pid' = lid ∧ pr = recv := by simpa using hown
        obtain ⟨rfl, rfl⟩ := hown'
        exact fin2 _ _ (Or.inr (Or.inr ⟨_, _, rfl, hfm, rfl⟩))

theorem mints_leaf {ms : List Msg} (h : ∀ m ∈ ms, IsMint m) : ∀ m ∈ ms, Leaf m := by
  intro m hm
  obtain ⟨c, a, rfl⟩ := h m hm
  trivial

/-- the two shapes of a deposit: first leg of a single-asset deposit (buffer + self-swap), or a
    multi-asset deposit (buffer untouched, mints and at most one position message for the receiver) -/
theorem pl_shape {s s' : PmState} {env : PmEnv} {sender : Addr} {funds : List Coin}
    {ls ss : Option Nat} {rc : Option Addr} {pid : String} {u : Option Nat} {l : Option String}
    {r : Response} (h : provideLiquidity s env sender funds ls ss rc pid u l = .ok (s', r)) :
    (∃ buf ask half, s' = { s with buffer := some buf } ∧ buf.receiver = addrOrDefault env rc sender ∧
      buf.unlocking = u ∧ (u.isSome → addrOrDefault env rc sender = sender) ∧
      r.msgs = [{ msg := .wasmExec env.self (.pm (.swap ask none ss none pid)) [half],
                  replyOn := .success, id := C.SINGLE_SIDE_REPLY_ID }]) ∨
    (s'.buffer = s.buffer ∧ s'.config = s.config ∧
      (u.isSome → addrOrDefault env rc sender = sender ∨ sender = env.self) ∧
      ∀ sm ∈ r.msgs, PlMsg env s.config.farmManager (addrOrDefault env rc sender) u sm.msg) := by
  obtain ⟨deps, hagg, hne⟩ := pl_agg h
  by_cases hlen : deps.length = 1
  · left
    obtain ⟨c, rfl⟩ : ∃ c, deps = [c] := by
      match deps, hlen with
      | [c], _ => exact ⟨c, rfl⟩
    obtain ⟨pool', ask, sim, -, hu, -, -, -, hs, hr⟩ := pl_single hagg h
    refine ⟨_, ask, _, hs, rfl, rfl, ?_, hr⟩
    intro hsome
    rw [hsome] at hu
    simpa using hu
  · right
    obtain ⟨pool, sh, m0, hp, hm0, ht⟩ := pl_multi hagg hlen h
    have hshape := plTail_shape (mints_leaf hm0) ht
    obtain ⟨as', m1, -, hs, -, -, hauth, -⟩ := plTail_ok ht
    refine ⟨by rw [hs]; exact savePool_buffer _ _, by rw [hs]; exact savePool_config _ _, ?_, hshape⟩
    intro hsome
    have := hauth hsome
    simpa using this

/-- the reply: the buffer is consumed and the second leg is emitted with the buffered options -/
theorem pmReply_shape {s s' : PmState} {env : PmEnv} {id : Nat} {r : Response}
    (h : pmReply s env id = .ok (s', r)) :
    ∃ b, s.buffer = some b ∧ s' = { s with buffer := none } ∧
      r.msgs = [{ msg := C14.secondLegMsg env.self b }] := by
  cases hb : s.buffer with
  | none =>
    unfold pmReply at h
    rw [hb] at h
    split at h <;> cases h
  | some b =>
    obtain ⟨-, -, hs, hr⟩ := C14.reply_shape hb h
    exact ⟨b, rfl, hs, hr⟩

/-! ### what can be emitted at all -/

/-- the only contract calls ever emitted: the pool manager's self-calls `Swap` / `ProvideLiquidity` and its
    `CreatePosition` / `ExpandPosition` calls of the farm manager -/
def Emitted : Msg → Prop
  | .wasmExec _ (.pm (.swap ..)) _ => True
  | .wasmExec _ (.pm (.provideLiquidity ..)) _ => True
  | .wasmExec _ (.fm (.createPosition ..)) _ => True
  | .wasmExec _ (.fm (.expandPosition _)) _ => True
  | .wasmExec .. => False
  | _ => True

theorem emitted_of_leaf {m : Msg} (h : Leaf m) : Emitted m := by
  cases m <;> first | trivial | exact h.elim

theorem emitted_of_plMsg {env : PmEnv} {a recv : Addr} {u : Option Nat} {m : Msg}
    (h : PlMsg env a recv u m) : Emitted m := by
  rcases h with h | ⟨id, uu, fs, -, rfl⟩ | ⟨lid, fs, -, -, rfl⟩
  · exact emitted_of_leaf h
  · trivial
  · trivial

theorem pmExecute_emitted {s s' : PmState} {env : PmEnv} {sender : Addr} {funds : List Coin} {m : PmMsg}
    {r : Response} (h : pmExecute s env sender funds m = .ok (s', r)) : ∀ sm ∈ r.msgs, Emitted sm.msg := by
  by_cases hm : ∀ ls ss rc pid u l, m ≠ .provideLiquidity ls ss rc pid u l
  · exact fun sm hsm => emitted_of_leaf (pmExecute_leaf h hm sm hsm)
  · have : ∃ ls ss rc pid u l, m = .provideLiquidity ls ss rc pid u l := by
      cases m with
      | provideLiquidity ls ss rc pid u l => exact ⟨_, _, _, _, _, _, rfl⟩
      | _ => exact absurd (fun _ _ _ _ _ _ => PmMsg.noConfusion) hm
    obtain ⟨ls, ss, rc, pid, u, l, rfl⟩ := this
    simp only [pmExecute] at h
    rcases pl_shape h with ⟨buf, ask, half, -, -, -, -, hr⟩ | ⟨-, -, -, hms⟩
    · rw [hr]
      intro sm hsm
      simp only [List.mem_singleton] at hsm
      subst hsm; trivial
    · exact fun sm hsm => emitted_of_plMsg (hms sm hsm)

theorem callExecute_emitted {w w2 : World} {c sender : Addr} {funds : List Coin} {msg : ContractMsg}
    {resp : Response} (h : callExecute w c sender funds msg = .ok (w2, resp)) :
    ∀ sm ∈ resp.msgs, Emitted sm.msg := by
  rcases callExecute_cases h with ⟨m, s, -, -, hx, -⟩ | ⟨m, s, -, -, hx, -⟩ | ⟨m, s, -, -, -, -, hr⟩ |
      ⟨a, o, -, -, -, -, -, hr⟩
  · exact pmExecute_emitted hx
  · exact fun sm hsm => emitted_of_leaf (fmExecute_leaf hx sm hsm)
  · rw [hr]; intro sm hsm; cases hsm
  · rw [hr]; intro sm hsm; cases hsm

theorem callReply_emitted {w w2 : World} {c : Addr} {id : Nat} {resp : Response}
    (h : callReply w c id = .ok (w2, resp)) : ∀ sm ∈ resp.msgs, Emitted sm.msg := by
  rcases callReply_cases h with ⟨-, s, hx, -⟩ | ⟨-, -, hr⟩
  · obtain ⟨b, -, -, hr⟩ := pmReply_shape hx
    rw [hr]
    intro sm hsm
    simp only [List.mem_singleton] at hsm
    subst hsm; trivial
  · rw [hr]; intro sm hsm; cases hsm

/-- the lift specialised to a state-independent condition `Q` on contract messages that every emitted
    contract call satisfies -/
theorem lift_simple {Inv : World → Prop} {G : World → World → Prop} {Q : ContractMsg → Prop}
    (hQ : ∀ c msg funds, Emitted (.wasmExec c msg funds) → Q msg)
    (refl : ∀ w, G w w) (trans : ∀ {a b c}, G a b → G b c → G a c)
    (bank : ∀ (w : World) (b : Bank), Inv w → Inv { w with bank := b } ∧ G w { w with bank := b })
    (exec : ∀ {w w2 : World} {c sender : Addr} {funds : List Coin} {msg : ContractMsg} {resp : Response},
      Inv w → Q msg → callExecute w c sender funds msg = .ok (w2, resp) → Inv w2 ∧ G w w2)
    (reply : ∀ {w w2 : World} {c : Addr} {id : Nat} {resp : Response},
      Inv w → callReply w c id = .ok (w2, resp) → Inv w2 ∧ G w w2) :
    Lift Inv G (fun _ _ m => ∀ c msg funds, m = .wasmExec c msg funds → Q msg) where
  refl := refl
  trans := trans
  bank := bank
  stable := fun _ h => h
  exec := by
    intro w w2 c sender funds msg resp hinv hok hce
    obtain ⟨i, g⟩ := exec hinv (hok _ _ _ rfl) hce
    refine ⟨i, g, ?_⟩
    intro sm hsm c' msg' funds' he
    have := callExecute_emitted hce sm hsm
    rw [he] at this
    exact hQ _ _ _ this
  reply := by
    intro w w2 c id resp hinv hcr
    obtain ⟨i, g⟩ := reply hinv hcr
    refine ⟨i, g, ?_⟩
    intro sm hsm c' msg' funds' he
    have := callReply_emitted hcr sm hsm
    rw [he] at this
    exact hQ _ _ _ this

end MantraDex.AuthSys
