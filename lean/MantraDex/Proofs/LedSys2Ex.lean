/-
  C07Sys, part 7: in a state satisfying the ledger invariant and its farm side, no claim is refused with
  `exhausted` (`claim_ne_exhausted_inv`), and the bounds on `claimed_amount` (`claimed_le_inv`).
-/
import MantraDex.Proofs.LedSys2Bound
import MantraDex.Proofs.LedSys2Err

set_option linter.unusedSimpArgs false
set_option linter.unusedVariables false

namespace MantraDex.LedSys
open MantraDex MantraDex.C06Sys MantraDex.WSys

theorem isum_const_zero (N : Nat) : isum N (fun _ => 0) = 0 := by
  induction N with
  | zero => rfl
  | succ N ih => rw [isum_succ, ih]

theorem claimed_le_inv {D : Prop} {s : FmState} {env : FmEnv} {L : List Entry} (hl : LInv D s env L)
    (hfl : FL s L) (hi : FInv s env) {f : Farm} (hf : f ∈ s.farms) {cur : Nat}
    (hcur : fmCurrentEpoch s env = .ok cur) :
    f.claimed ≤ f.emissionRate * (min (cur + 1) f.endEpoch - f.startEpoch) := by
  -- any non-contract address will do as the (absent) extra user
  have := claimed_plus_new_le (u := env.self ++ "x") hl hfl hf hcur (by
      intro h
      have := congrArg String.length h
      simp at this) (fun _ => false)
    (fun j hw _ => by cases hw)
  simp only [Bool.false_eq_true, if_false] at this
  rw [isum_const_zero, Nat.add_zero] at this
  exact this

/-- not paid before: from the cursor discipline of the ledger invariant -/
theorem freshAt_of {D : Prop} {s : FmState} {env : FmEnv} {L : List Entry} (hl : LInv D s env L)
    {u : Addr} {lp : Denom} {e : Nat} (hafter : ∀ l, s.lastClaimed u = some l → l < e)
    (hfirst : s.lastClaimed u = none → ∃ sn ∈ s.hist u lp, sn.1 ≤ e) : FreshAt s L u lp e := by
  by_cases hex : ∃ x ∈ L, x.user = u ∧ x.lp = lp ∧ x.epoch = e
  · obtain ⟨x, hx, rfl, rfl, rfl⟩ := hex
    rcases (hl.entries x hx).disc with ⟨l, hl1, hl2⟩ | h2
    · have := hafter l hl1
      omega
    · cases hlc : s.lastClaimed x.user with
      | none =>
        obtain ⟨sn, hsn, hle⟩ := hfirst hlc
        have := h2 sn hsn
        omega
      | some l =>
        left
        rw [Farm.weightAt_eq]
        exact Farm.wAtD_of_forall_gt 0 h2
  · right
    intro x hx h1 h2 h3
    exact hex ⟨x, hx, h1, h2, h3⟩

theorem freshAt_of_startFrom {D : Prop} {s : FmState} {env : FmEnv} {L : List Entry} (hl : LInv D s env L)
    {u : Addr} {f : Farm} {sf e : Nat} (hsf : StartFrom s u f (s.lastClaimed u) sf) (he : sf ≤ e) :
    FreshAt s L u f.lpDenom e := by
  apply freshAt_of hl
  · intro l hl'
    rcases hsf with ⟨l', h1, rfl⟩ | ⟨h1, _⟩
    · rw [hl'] at h1; cases h1; omega
    · rw [hl'] at h1; cases h1
  · intro hnone
    rcases hsf with ⟨l', h1, _⟩ | ⟨_, w, h1⟩
    · rw [hnone] at h1; cases h1
    · obtain ⟨xs, hxs⟩ := Farm.histGet_head h1
      exact ⟨(sf, w), by rw [hxs]; exact List.mem_cons_self, he⟩

theorem budget_chain {s : FmState} {L : List Entry} (hfl : FL s L) {f : Farm} (hf : f ∈ s.farms) (cur : Nat) :
    f.emissionRate * (min (cur + 1) f.endEpoch - f.startEpoch) ≤ f.assetAmount :=
  Nat.le_trans (Nat.mul_le_mul_left _ (by omega)) (hfl.budget f hf)

/-- one more term of `u` fits into the budget of the farm -/
theorem term_le_budget {D : Prop} {s : FmState} {env : FmEnv} {L : List Entry} (hl : LInv D s env L)
    (hfl : FL s L) {u : Addr} (hu : u ≠ env.self) {cur : Nat}
    (hcur : fmCurrentEpoch s env = .ok cur) {f : Farm} (hfm : f ∈ s.farms) {sf e : Nat}
    (hsf : StartFrom s u f (s.lastClaimed u) sf) (h1 : sf ≤ e) (h2 : e ≤ cur) (h3 : f.startEpoch ≤ e)
    (h4 : e < f.endEpoch) :
    f.emissionRate * Spec.weightAt (s.hist u f.lpDenom) e / Spec.weightAt (s.hist env.self f.lpDenom) e + f.claimed ≤
      f.assetAmount := by
  have hfresh : FreshAt s L u f.lpDenom e := freshAt_of_startFrom hl hsf h1
  have hb := claimed_plus_new_le hl hfl hfm hcur hu (fun j => j == e)
    (fun j hw _ => by
      have : j = e := by simpa using hw
      rw [this]; exact hfresh)
  have hfun : (fun j => if (j == e) = true then newAt s env f u j else 0) =
      fun j => if j = e then newAt s env f u e else 0 := by
    funext j
    by_cases hj : j = e
    · subst hj; simp
    · simp [hj]
  rw [hfun, isum_single, if_pos (by omega)] at hb
  have hn : newAt s env f u e =
      f.emissionRate * Spec.weightAt (s.hist u f.lpDenom) e / Spec.weightAt (s.hist env.self f.lpDenom) e := by
    unfold newAt
    rw [if_pos ⟨h3, h4⟩]
  rw [hn] at hb
  have := budget_chain hfl hfm cur
  omega

/-- the term loop of `calculate_rewards` is never `exhausted` -/
theorem calc_ne_exhausted {D : Prop} {s : FmState} {env : FmEnv} {L : List Entry} (hl : LInv D s env L)
    (hfl : FL s L) (hi : FInv s env) {u : Addr} (hu : u ≠ env.self) {cur untilE : Nat}
    (hcur : fmCurrentEpoch s env = .ok cur) (hle : untilE ≤ cur) (lp : Denom) :
    ErrIn (fun e => e ≠ .exhausted) (calculateRewards s env lp u untilE) := by
  refine errIn_calculateRewards (by decide) (Or.inl (by decide)) ?_
  intro f hf acc
  obtain ⟨hfm, hlp⟩ := farmsByLp_mem hf
  refine errIn_crStep hlp (hi.hist.sorted u lp) (hi.hist.sorted env.self lp)
    (fun l hl' x hx => hl.cursorSnap u l hl' lp x hx) (by decide) (Or.inl (by decide)) (Or.inl (by decide))
    (Or.inl (by decide)) (Or.inr ?_)
  intro sf hsf e h1 h2 h3 h4 hT
  have := term_le_budget hl hfl hu hcur hfm hsf h1 (by omega) h3 h4
  rw [hlp] at this
  exact this

theorem sum_le_single {α : Type} [DecidableEq α] (g : α → Nat) (a0 : α) : ∀ (l : List α), l.Nodup →
    (∀ a ∈ l, a ≠ a0 → g a = 0) → (l.map g).sum ≤ g a0 := by
  intro l
  induction l with
  | nil => intro _ _; exact Nat.zero_le _
  | cons a l ih =>
    intro hnd hz
    obtain ⟨hni, hnd'⟩ := List.nodup_cons.1 hnd
    simp only [List.map_cons, List.sum_cons]
    by_cases ha : a = a0
    · subst ha
      have : (l.map g).sum = 0 := by
        apply Split.sum_map_zero
        intro x hx
        exact hz x (List.mem_cons_of_mem _ hx) (fun h => hni (h ▸ hx))
      omega
    · have h1 := hz a List.mem_cons_self ha
      have h2 := ih hnd' (fun x hx => hz x (List.mem_cons_of_mem _ hx))
      omega

/-- the bookkeeping of `claim` is never `exhausted`: paid so far + everything this claim adds to a farm -/
theorem doneSum_le_budget {D : Prop} {s : FmState} {env : FmEnv} {L : List Entry} (hl : LInv D s env L)
    (hfl : FL s L) (hi : FInv s env) {u : Addr} (hu : u ≠ env.self) {cur untilE : Nat}
    (hcur : fmCurrentEpoch s env = .ok cur) (hle : untilE ≤ cur) {lps : List Denom} (hnd : lps.Nodup)
    {q : Farm} (hq : q ∈ s.farms) :
    q.claimed + doneSum s env u untilE lps q.id ≤ q.assetAmount := by
  have hn := hfl.nodup
  have hok : ∀ lp, ∀ t ∈ lpTerms s env lp u untilE, TermOk s env lp u untilE t := fun lp =>
    lpTerms_ok (hi.hist.sorted u lp) (hi.hist.sorted env.self lp)
      (fun l hl' x hx => hl.cursorSnap u l hl' lp x hx)
  -- only the farm's own LP token contributes
  have h1 : doneSum s env u untilE lps q.id ≤ tsumId q.id (lpTerms s env q.lpDenom u untilE) := by
    unfold doneSum
    apply sum_le_single (fun lp => tsumId q.id (lpTerms s env lp u untilE)) q.lpDenom lps hnd
    intro lp _ hne
    unfold tsumId
    have : (lpTerms s env lp u untilE).filter (fun t => t.1 == q.id) = [] := by
      rw [List.filter_eq_nil_iff]
      intro t ht hid
      obtain ⟨f0, hf0, hid0, hlp0, _⟩ := (hok lp t ht).farm
      have hid' : t.1 = q.id := by simpa using hid
      have := FH.nodup_key_inj Farm.id s.farms hn f0 hf0 q hq (hid0.trans hid')
      subst this
      exact hne hlp0.symm
    rw [this]; rfl
  -- its terms are the shares of distinct fresh epochs
  generalize hts : (lpTerms s env q.lpDenom u untilE).filter (fun t => t.1 == q.id) = ts at *
  have htmem : ∀ t ∈ ts, t ∈ lpTerms s env q.lpDenom u untilE ∧ t.1 = q.id := by
    intro t ht
    rw [← hts] at ht
    obtain ⟨a, b⟩ := List.mem_filter.1 ht
    exact ⟨a, by simpa using b⟩
  have hval : ∀ t ∈ ts, t.2.2 = newAt s env q u t.2.1 ∧ t.2.1 ≤ cur ∧ FreshAt s L u q.lpDenom t.2.1 := by
    intro t ht
    obtain ⟨a, b⟩ := htmem t ht
    have ok := hok q.lpDenom t a
    obtain ⟨f0, hf0, hid0, _, c1, c2, c3⟩ := ok.farm
    have := FH.nodup_key_inj Farm.id s.farms hn f0 hf0 q hq (hid0.trans b)
    subst this
    refine ⟨?_, Nat.le_trans ok.le hle, freshAt_of hl ok.after ok.first⟩
    unfold newAt
    rw [if_pos ⟨c1, c2⟩]
    exact c3
  have hesnd : (ts.map (·.2.1)).Nodup := by
    have hk := lpTerms_nodup (env := env) (lp := q.lpDenom) (recv := u) (u := untilE) hn
    have hk2 : (ts.map tkey).Nodup := by
      rw [← hts]
      exact (List.filter_sublist.map _).nodup hk
    rw [List.Nodup, List.pairwise_map] at hk2 ⊢
    have hp2 : ts.Pairwise (fun x y => x ∈ ts ∧ y ∈ ts) := by
      rw [List.pairwise_iff_forall_sublist]
      intro a b hab
      have := hab.subset
      exact ⟨this (by simp), this (by simp)⟩
    refine (hk2.and hp2).imp ?_
    intro a b ⟨hne, ha, hb⟩ he
    apply hne
    show (a.1, a.2.1) = (b.1, b.2.1)
    rw [(htmem a ha).2, (htmem b hb).2, he]
  have h2 : tsumId q.id (lpTerms s env q.lpDenom u untilE) =
      ((ts.map (·.2.1)).map fun j => if decide (j ∈ ts.map (·.2.1)) = true then newAt s env q u j else 0).sum := by
    unfold tsumId
    rw [hts, List.map_map]
    congr 1
    apply List.map_congr_left
    intro t ht
    simp only [Function.comp]
    rw [if_pos (decide_eq_true (List.mem_map.2 ⟨t, ht, rfl⟩))]
    exact (hval t ht).1
  have h3 := sum_nodup_le_isum (cur + 1) (ts.map (·.2.1))
    (fun j => if decide (j ∈ ts.map (·.2.1)) = true then newAt s env q u j else 0) hesnd (by
      intro e he
      obtain ⟨t, ht, rfl⟩ := List.mem_map.1 he
      have := (hval t ht).2.1
      omega)
  have hb := claimed_plus_new_le hl hfl hq hcur hu (fun j => decide (j ∈ ts.map (·.2.1)))
    (fun j hw _ => by
      have hm : j ∈ ts.map (·.2.1) := of_decide_eq_true hw
      obtain ⟨t, ht, rfl⟩ := List.mem_map.1 hm
      exact (hval t ht).2.2)
  have := budget_chain hfl hq cur
  omega

/-- no claim is refused with `exhausted` -/
theorem claim_ne_exhausted_inv {D : Prop} {s : FmState} {env : FmEnv} {L : List Entry} (hl : LInv D s env L)
    (hfl : FL s L) (hi : FInv s env) {u : Addr} (hu : u ≠ env.self) (funds : List Coin) (un : Option Nat) :
    fmClaim s env u funds un ≠ .error .exhausted :=
  fmClaim_ne_exhausted hfl.nodup
    (fun cur untilE hcur hle lp => calc_ne_exhausted hl hfl hi hu hcur hle lp)
    (fun cur untilE hcur hle q hq => doneSum_le_budget hl hfl hi hu hcur hle (uniqueDenoms_nodup _) hq)

end MantraDex.LedSys
