/-
  A plain `WithdrawPosition` transaction through the runtime: the handler's outcome in the plain
  branch (accepted once expired, refused before), and the shape of a call into the farm manager.
-/
import MantraDex.Model.System
import MantraDex.Proofs.NumLemmas
import MantraDex.Proofs.BankLemmas
import MantraDex.Proofs.FmLemmas
import MantraDex.Proofs.TwoStepLemmas
import MantraDex.Proofs.SwapTxLemmas

set_option linter.unusedSimpArgs false
set_option linter.unusedVariables false

namespace MantraDex
open MantraDex.C01 (coinsOf amt coinsOf_cons coinsOf_nil)

/-- a call into the farm manager without funds -/
theorem execMsg_fm_eq (n : Nat) (w : World) (sender : Addr) (m : FmMsg) :
    execMsg (n + 1) w sender (.wasmExec FM (.fm m) []) =
      (fmExecute w.fm w.fmEnv sender [] m >>= fun sr =>
          execSubs n { w with fm := sr.1 } FM sr.2.msgs) := by
  have hc : isContract FM = true := by decide
  simp only [execMsg, hc, List.isEmpty_nil, Bool.not_true, Bool.false_eq_true, if_false, if_true, callExecute,
    bne_self_eq_false, bind_assoc, pure_bind]

def withdrawMsgs (p : Position) : List Msg :=
  if p.amount ≠ 0 then [.bankSend p.receiver [⟨p.lpDenom, p.amount⟩]] else []

theorem withdraw_plain_ok {s : FmState} {env : FmEnv} {p : Position}
    (hp : s.getPosition p.id = some p) (hclosed : p.open_ = false)
    (hexp : (⟨p.amount, p.unlocking, p.expiringAt⟩ : PosView).isExpired env.nowS = true) :
    withdrawPosition s env p.receiver [] p.id none =
      .ok (s.removePosition p.id, Response.ofMsgs (withdrawMsgs p) [("action", "withdraw_position")]) := by
  have hsome : p.expiringAt.isNone = false := by
    unfold PosView.isExpired at hexp
    cases he : p.expiringAt with
    | none => simp [he] at hexp
    | some t => rfl
  unfold withdrawPosition
  have hne : ¬ p.expiringAt = none := by
    intro h; rw [h] at hsome; cases hsome
  simp [nonpayable, hp, hclosed, hexp, hsome, hne, withdrawMsgs]
  rfl

theorem withdraw_plain_refused {s : FmState} {env : FmEnv} {p : Position} (sender : Addr) (funds : List Coin)
    (hp : s.getPosition p.id = some p)
    (hnot : (⟨p.amount, p.unlocking, p.expiringAt⟩ : PosView).isExpired env.nowS = false)
    {e : Option Bool} (he : e = none ∨ e = some false) :
    ∃ err, withdrawPosition s env sender funds p.id e = .error err := by
  have hbr : (e == some true) = false := by rcases he with rfl | rfl <;> rfl
  unfold withdrawPosition
  cases hf : nonpayable funds with
  | error err => exact ⟨err, rfl⟩
  | ok _ =>
    simp only [hp, ok_bind, pure_bind']
    by_cases hs : (p.receiver != sender) = true
    · simp only [hs, if_true]; exact ⟨_, rfl⟩
    · simp only [hs, Bool.false_eq_true, if_false, pure_bind', hbr, Bool.false_and, hnot, Bool.not_false, if_true]
      by_cases hn : p.expiringAt.isNone = true
      · simp only [hn, if_true]; exact ⟨_, rfl⟩
      · simp only [hn, Bool.false_eq_true, if_false, pure_bind']; exact ⟨_, rfl⟩

theorem withdrawMsgs_leaf (p : Position) : ∀ m ∈ withdrawMsgs p, IsLeaf m := by
  intro m hm
  unfold withdrawMsgs at hm
  split at hm
  · simp only [List.mem_singleton] at hm; subst hm; trivial
  · cases hm

theorem withdrawMsgs_length (p : Position) : (withdrawMsgs p).length ≤ 1 := by
  unfold withdrawMsgs
  split <;> simp

/-- the accepted plain withdrawal, run as a transaction -/
theorem withdraw_run {w : World} {p : Position}
    (hp : w.fm.getPosition p.id = some p) (hclosed : p.open_ = false)
    (hexp : (⟨p.amount, p.unlocking, p.expiringAt⟩ : PosView).isExpired w.fmEnv.nowS = true)
    (hbal : p.amount ≤ w.bank.bal FM p.lpDenom) :
    ∃ b', Moves { w.bank with calls := 0, failAt := none } b' FM p.receiver [⟨p.lpDenom, p.amount⟩] ∧
      runTx w (.exec p.receiver FM (.fm (.withdrawPosition p.id none)) []) =
        .ok { w with bank := b', fm := w.fm.removePosition p.id } := by
  obtain ⟨b', hb'⟩ := optSend_ex (tf := w.tfFees) (b := { w.bank with calls := 0, failAt := none }) (c := FM)
    (to := p.receiver) (coin := ⟨p.lpDenom, p.amount⟩) rfl (by
      intro d
      rw [coinsOf_single]
      simp only
      split
      · rename_i hd; subst hd; exact hbal
      · exact Nat.zero_le _)
  refine ⟨b', optSend_spec hb', ?_⟩
  unfold runTx
  simp only
  have h64 : FUEL = 63 + 1 := rfl
  rw [h64, execMsg_fm_eq]
  simp only [fmExecute]
  have hw := withdraw_plain_ok (s := w.fm) (env := w.fmEnv) hp hclosed hexp
  have hw' : withdrawPosition w.fm
      ({ w with bank := { w.bank with calls := 0, failAt := none } } : World).fmEnv p.receiver [] p.id none = _ := hw
  rw [hw']
  simp only [ok_bind, ofMsgs_msgs]
  rw [execSubs_leaf _ 63 _ FM (withdrawMsgs_leaf p)
    (Nat.le_trans (Nat.succ_le_succ (withdrawMsgs_length p)) (by decide))]
  have hb2 : bankRun w.tfFees { w.bank with calls := 0, failAt := none } FM (withdrawMsgs p) = .ok b' := hb'
  simp only [hb2, ok_bind]
  rfl

end MantraDex
