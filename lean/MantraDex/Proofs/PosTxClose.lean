/-
  The transaction tree of an accepted `ClosePosition` (C08Tx): no funds, no messages; a full close rewrites
  the position in place, a partial close stores the closed part under the next generated identifier and
  shrinks the open remainder.
-/
import MantraDex.Proofs.PosTxLemmas
import MantraDex.Properties.C05Sys

set_option linter.unusedSimpArgs false
set_option linter.unusedVariables false

namespace MantraDex.PosTx
open MantraDex

/-- the closed part a partial close stores -/
def closedPart (s : FmState) (p : Position) (c : Coin) (exp : Nat) : Position :=
  { id := C.AUTO_POSITION_ID_PREFIX ++ toString (s.posCounter + 1), lpDenom := c.denom, amount := c.amount,
    unlocking := p.unlocking, open_ := false, expiringAt := some exp, receiver := p.receiver }

/-- a fully closed position -/
def closedFull (p : Position) (exp : Nat) : Position := { p with open_ := false, expiringAt := some exp }

/-- the open remainder of a partial close -/
def remainder (p : Position) (c : Coin) : Position := { p with amount := p.amount - c.amount }

/-- the two outcomes of `close_position` on the position store -/
def CloseOut (s s' : FmState) (lp : Option Coin) (p : Position) (exp : Nat) : Prop :=
  (∃ s2, SameStore s s2 ∧ SameStore (s2.savePosition (closedFull p exp)) s') ∨
  (∃ c s2, lp = some c ∧ c.amount < p.amount ∧ c.denom = p.lpDenom ∧
    SameStore (({ s with posCounter := s.posCounter + 1 } : FmState).savePosition (closedPart s p c exp)) s2 ∧
    SameStore (s2.savePosition (remainder p c)) s')

theorem closePosition_inv {s s' : FmState} {env : FmEnv} {sender : Addr} {funds : List Coin}
    {id : String} {lp : Option Coin} {r : Response} {p : Position} (hp : s.getPosition id = some p)
    (h : closePosition s env sender funds id lp = .ok (s', r)) :
    funds = [] ∧ p.receiver = sender ∧ p.open_ = true ∧ r.msgs = [] ∧
      CloseOut s s' lp p ((env.nowNs + p.unlocking * NANOS) / NANOS) := by
  unfold closePosition at h
  rw [hp] at h
  simp only [bind_ok, error_bind, pure_bind', ite_error_ok, fit_ok] at h
  obtain ⟨_, hnp, _, _, _, hauth, hopen, a, ⟨_, rfl⟩, b, ⟨_, rfl⟩, _, h⟩ := h
  have hrecv : p.receiver = sender := by simpa using hauth
  have hopen' : p.open_ = true := by simpa using hopen
  refine ⟨FH.nonpayable_ok hnp, hrecv, hopen', ?_⟩
  have full : ∀ {R : Response}, R.msgs = [] →
      (updateWeights s env sender p.lpDenom p.amount p.unlocking false >>= fun s2 =>
        reconcileUserState (s2.savePosition (closedFull p ((env.nowNs + p.unlocking * NANOS) / NANOS)))
          env sender p.lpDenom >>= fun s4 => pure (s4, R)) = Except.ok (s', r) →
      r.msgs = [] ∧ CloseOut s s' lp p ((env.nowNs + p.unlocking * NANOS) / NANOS) := by
    intro R hR h
    simp only [bind_ok, pure_ok, Prod.mk.injEq] at h
    obtain ⟨s2, h2, s4, h4, rfl, rfl⟩ := h
    exact ⟨hR, Or.inl ⟨s2, updateWeights_sameStore h2, reconcileUserState_sameStore h4⟩⟩
  cases lp with
  | none => exact full rfl h
  | some c =>
    simp only [ite_error_ok] at h
    obtain ⟨hden, h⟩ := h
    split at h
    · exact full rfl h
    · simp only [ite_ok_error, ite_error_ok, bind_ok, pure_ok, Prod.mk.injEq] at h
      obtain ⟨hlt, _, s2, h2, s4, h4, rfl, rfl⟩ := h
      refine ⟨rfl, Or.inr ⟨c, s2, rfl, hlt, by simpa using hden, updateWeights_sameStore h2,
        reconcileUserState_sameStore h4⟩⟩

/-- the transaction tree of an accepted `close_position` -/
theorem close_position_run {w w' : World} {u : Addr} {id : String} {lp : Option Coin} {funds : List Coin}
    {k : Option Nat} {p : Position} (hinv : C05Sys.FmInv w) (hp : w.fm.getPosition id = some p)
    (h : runTx w (.exec u FM (.fm (.closePosition id lp)) funds) k = .ok w') :
    funds = [] ∧ p.receiver = u ∧ p.open_ = true ∧
    (∀ a d, w'.bank.bal a d = w.bank.bal a d) ∧ w'.pm = w.pm ∧ w'.fm.farms = w.fm.farms ∧
    (∀ q ∈ w.fm.positions, q.id ≠ id → q ∈ w'.fm.positions) ∧
    ((∃ p', w'.fm.getPosition id = some p' ∧ p'.open_ = false ∧ p'.amount = p.amount ∧ p'.receiver = u ∧
        p'.lpDenom = p.lpDenom ∧ p'.expiringAt = some ((w.nowNs + p.unlocking * NANOS) / NANOS) ∧
        (∀ q ∈ w'.fm.positions, q.id ≠ id → q ∈ w.fm.positions)) ∨
     (∃ rem part, w'.fm.getPosition id = some rem ∧ part ∈ w'.fm.positions ∧ (∀ q ∈ w.fm.positions, q.id ≠ part.id) ∧
        rem.open_ = true ∧ part.open_ = false ∧ rem.amount + part.amount = p.amount ∧
        (∃ c, lp = some c ∧ part.amount = c.amount) ∧ rem.amount ≠ 0 ∧
        rem.receiver = u ∧ part.receiver = u ∧ rem.lpDenom = p.lpDenom ∧ part.lpDenom = p.lpDenom ∧
        part.expiringAt = some ((w.nowNs + p.unlocking * NANOS) / NANOS) ∧
        (∀ q ∈ w'.fm.positions, q.id ≠ id → q = part ∨ q ∈ w.fm.positions))) := by
  obtain ⟨b, s, r, hb, hx, rfl⟩ := fm_nomsg_run h (by
    intro s r hx
    simp only [fmExecute] at hx
    exact (closePosition_inv hp hx).2.2.2.1)
  simp only [fmExecute] at hx
  have hfarms := (FarmTx.closePosition_frame hx).1
  obtain ⟨hfunds, hrecv, hopen, _, hout⟩ := closePosition_inv hp hx
  subst hfunds
  have hb' : b = { w.bank with calls := 0, failAt := k } := by
    rcases hb with ⟨_, hb⟩ | ⟨hne, _⟩
    · exact hb
    · exact absurd rfl hne
  subst hb'
  have hid : p.id = id := C08.getPosition_id hp
  have hpmem : p ∈ w.fm.positions := (FH.getPosition_some hp).1
  have hnow : w.fmEnv.nowNs = w.nowNs := rfl
  rw [hnow] at hout
  refine ⟨rfl, hrecv, hopen, fun _ _ => rfl, rfl, hfarms, ?_⟩
  rcases hout with ⟨s2, hs2, hs⟩ | ⟨c, s2, rfl, hlt, hden, h12, h34⟩
  · -- full close
    have hany : s2.positions.any (·.id == (closedFull p ((w.nowNs + p.unlocking * NANOS) / NANOS)).id) = true := by
      show s2.positions.any (·.id == p.id) = true
      rw [hs2.1, hid]; exact any_of_get hp
    have hmem : ∀ q, q ∈ s.positions ↔
        q = closedFull p ((w.nowNs + p.unlocking * NANOS) / NANOS) ∨ (q ∈ w.fm.positions ∧ q.id ≠ p.id) := by
      intro q
      rw [hs.1, mem_save_existing hany, hs2.1]
      rfl
    refine ⟨fun q hq hne => (hmem q).2 (Or.inr ⟨hq, by rw [hid]; exact hne⟩), Or.inl ⟨closedFull p ((w.nowNs + p.unlocking * NANOS) / NANOS), ?_, rfl, rfl, hrecv, rfl, rfl, ?_⟩⟩
    · have := C08.getPosition_after_save hs
      rw [← hid]; exact this
    · intro q hq hne
      rcases (hmem q).1 hq with rfl | ⟨hq2, _⟩
      · exact absurd hid hne
      · exact hq2
  · -- partial close
    have hfresh : w.fm.getPosition (closedPart w.fm p c ((w.nowNs + p.unlocking * NANOS) / NANOS)).id = none :=
      hinv.autoFresh (w.fm.posCounter + 1) (Nat.lt_succ_self _)
    have hnpid : (closedPart w.fm p c ((w.nowNs + p.unlocking * NANOS) / NANOS)).id ≠ p.id := by
      intro e
      exact notin_of_get_none hfresh p hpmem e.symm
    have hnew : (({ w.fm with posCounter := w.fm.posCounter + 1 } : FmState).positions.any
        (·.id == (closedPart w.fm p c ((w.nowNs + p.unlocking * NANOS) / NANOS)).id)) = false :=
      FH.getPosition_none hfresh
    have hmem2 : ∀ q, q ∈ s2.positions ↔
        q = closedPart w.fm p c ((w.nowNs + p.unlocking * NANOS) / NANOS) ∨ q ∈ w.fm.positions := by
      intro q
      rw [h12.1, mem_save_new hnew]
    have hany : s2.positions.any (·.id == (remainder p c).id) = true :=
      List.any_eq_true.2 ⟨p, (hmem2 p).2 (Or.inr hpmem), by simp [remainder]⟩
    have hmem : ∀ q, q ∈ s.positions ↔ q = remainder p c ∨ (q ∈ s2.positions ∧ q.id ≠ p.id) := by
      intro q
      rw [h34.1, mem_save_existing hany]
      rfl
    refine ⟨fun q hq hne => (hmem q).2 (Or.inr ⟨(hmem2 q).2 (Or.inr hq), by rw [hid]; exact hne⟩),
      Or.inr ⟨remainder p c, closedPart w.fm p c ((w.nowNs + p.unlocking * NANOS) / NANOS), ?_, ?_,
        notin_of_get_none hfresh, hopen, rfl, ?_, ?_, ?_, hrecv, hrecv, rfl, hden, rfl, ?_⟩⟩
    · have := C08.getPosition_after_save h34
      rw [← hid]; exact this
    · exact (hmem _).2 (Or.inr ⟨(hmem2 _).2 (Or.inl rfl), hnpid⟩)
    · show p.amount - c.amount + c.amount = p.amount
      omega
    · exact ⟨c, rfl, rfl⟩
    · show p.amount - c.amount ≠ 0
      omega
    · intro q hq hne
      rcases (hmem q).1 hq with rfl | ⟨hq2, _⟩
      · exact absurd hid hne
      · exact (hmem2 q).1 hq2

end MantraDex.PosTx
