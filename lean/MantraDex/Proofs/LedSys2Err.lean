/-
  C07Sys, part 5 (entry-free): which errors a computation can end in (`ErrIn S x`: every error of `x` lies in
  `S`), compositionally, and the error classes of the reward computation: `farmRewardTerms`, one farm of
  `calculate_rewards`, `calculate_rewards`, the bookkeeping of `claim`.
-/
import MantraDex.Proofs.LedSys2Claim

set_option linter.unusedSimpArgs false
set_option linter.unusedVariables false

namespace MantraDex.LedSys
open MantraDex

/-- every error `x` can end in lies in `S` -/
def ErrIn {α : Type} (S : Err → Prop) (x : R α) : Prop := ∀ e, x = .error e → S e

theorem errIn_ok {α : Type} {S : Err → Prop} (a : α) : ErrIn S (Except.ok a : R α) := by
  intro e h; cases h

theorem errIn_pure {α : Type} {S : Err → Prop} (a : α) : ErrIn S (pure a : R α) := errIn_ok a

theorem errIn_error {α : Type} {S : Err → Prop} {e : Err} (h : S e) : ErrIn S (Except.error e : R α) := by
  intro e' h'; cases h'; exact h

theorem errIn_bind {α β : Type} {S : Err → Prop} {x : R α} {f : α → R β} (hx : ErrIn S x)
    (hf : ∀ a, x = .ok a → ErrIn S (f a)) : ErrIn S (x >>= f) := by
  cases x with
  | error e => intro e' h'; cases h'; exact hx e rfl
  | ok a => exact hf a rfl

theorem errIn_ite {α : Type} {S : Err → Prop} {c : Prop} [Decidable c] {x y : R α}
    (hx : c → ErrIn S x) (hy : ¬ c → ErrIn S y) : ErrIn S (if c then x else y) := by
  split
  · exact hx ‹_›
  · exact hy ‹_›

theorem errIn_fit {S : Err → Prop} {m x : Nat} {e : Err} (h : S e) : ErrIn S (fit m x e) := by
  unfold fit; split
  · exact errIn_ok _
  · exact errIn_error h

theorem errIn_ckAdd {S : Err → Prop} {m a b : Nat} (h : S .overflow) : ErrIn S (ckAdd m a b) :=
  errIn_fit h

theorem errIn_mulFloorFrac {S : Err → Prop} {m a n d : Nat} (h : S .overflow) (hd : d ≠ 0) :
    ErrIn S (mulFloorFrac m a n d) := by
  unfold mulFloorFrac mulRatio
  rw [if_neg hd]
  exact errIn_fit h

theorem errIn_foldlM {α β : Type} {S : Err → Prop} (I : β → Prop) (f : β → α → R β) : ∀ (l : List α),
    (∀ b a, a ∈ l → I b → ErrIn S (f b a) ∧ ∀ b', f b a = .ok b' → I b') → ∀ b, I b → ErrIn S (l.foldlM f b) := by
  intro l
  induction l with
  | nil => intro _ b _; exact errIn_pure b
  | cons a l ih =>
    intro h b hb
    rw [List.foldlM_cons]
    obtain ⟨h1, h2⟩ := h b a List.mem_cons_self hb
    exact errIn_bind h1 (fun b' hb' => ih (fun b a' ha' => h b a' (List.mem_cons_of_mem _ ha')) b' (h2 b' hb'))

theorem errIn_mono {α : Type} {S T : Err → Prop} {x : R α} (h : ∀ e, S e → T e) (hx : ErrIn S x) : ErrIn T x :=
  fun e he => h e (hx e he)

/-! ### coin aggregation and the cheap sums: only `overflow` -/

theorem errIn_insertCoin {S : Err → Prop} (h : S .overflow) (c : Coin) : ∀ l, ErrIn S (insertCoin c l) := by
  intro l
  induction l with
  | nil => unfold insertCoin; exact errIn_pure _
  | cons x xs ih =>
    unfold insertCoin
    split
    · exact errIn_bind (errIn_ckAdd h) (fun _ _ => errIn_pure _)
    · split
      · exact errIn_pure _
      · exact errIn_bind ih (fun _ _ => errIn_pure _)

theorem errIn_aggregateCoins {S : Err → Prop} (h : S .overflow) (cs : List Coin) : ErrIn S (aggregateCoins cs) := by
  unfold aggregateCoins
  exact errIn_foldlM (fun _ => True) _ cs (fun b a _ _ => ⟨errIn_insertCoin h a b, fun _ _ => trivial⟩) [] trivial

theorem errIn_sumFold {S : Err → Prop} (h : S .overflow) (terms : List (Nat × Nat)) (a0 : Nat) :
    ErrIn S (terms.foldlM (fun a (t : Nat × Nat) => ckAdd U128_MAX a t.2) a0) :=
  errIn_foldlM (fun _ => True) _ terms (fun b a _ _ => ⟨errIn_ckAdd h, fun _ _ => trivial⟩) a0 trivial

/-! ### `farm_reward_terms` -/

theorem errIn_termStep {S : Err → Prop} {f : Farm} {uw cw : List (Nat × Nat)} {sf i : Nat}
    {acc : List (Nat × Nat)} (hov : S .overflow)
    (hpan : S .panic ∨ lookupW uw (sf + i) ≠ none)
    (hb : S .exhausted ∨ (f.startEpoch ≤ sf + i → ∀ uwv, lookupW uw (sf + i) = some uwv →
      (lookupW cw (sf + i)).getD 0 ≠ 0 →
      f.emissionRate * uwv / (lookupW cw (sf + i)).getD 0 + f.claimed ≤ f.assetAmount)) :
    ErrIn S (Farm.termStep f uw cw sf acc i) := by
  unfold Farm.termStep
  simp only []
  by_cases h1 : f.startEpoch > sf + i
  · simp only [h1, if_true]
    exact errIn_pure _
  · simp only [h1, if_false]
    cases hu : lookupW uw (sf + i) with
    | none =>
      rcases hpan with hp | hp
      · exact errIn_bind (errIn_error hp) (fun _ h => by cases h)
      · exact absurd hu hp
    | some uwv =>
      simp only [pure_bind]
      by_cases h2 : (lookupW cw (sf + i)).getD 0 = 0
      · simp only [h2, if_true]
        exact errIn_pure _
      · simp only [h2, if_false]
        refine errIn_bind (errIn_mulFloorFrac hov h2) ?_
        intro reward hrw
        refine errIn_bind (errIn_ckAdd hov) ?_
        intro chk hchk
        simp only [mulFloorFrac_ok] at hrw
        simp only [ckAdd_ok] at hchk
        obtain ⟨_, _, rfl⟩ := hrw
        obtain ⟨_, rfl⟩ := hchk
        by_cases hex : f.emissionRate * uwv / (lookupW cw (sf + i)).getD 0 + f.claimed > f.assetAmount
        · rcases hb with hb | hb
          · rw [if_pos hex]
            exact errIn_bind (errIn_error hb) (fun _ h => by cases h)
          · have := hb (by omega) uwv hu h2
            omega
        · rw [if_neg hex]
          exact errIn_pure _

/-- errors of the term loop: a panic (end epoch 0, or a weight missing from the user scan), an overflow, or
    `exhausted` — as far as the hypotheses allow them -/
theorem errIn_farmRewardTerms {S : Err → Prop} {f : Farm} {uw cw : List (Nat × Nat)} {sf until_ : Nat}
    (hov : S .overflow)
    (hpan : S .panic ∨ (f.endEpoch ≠ 0 ∧ ∀ e, sf ≤ e → e ≤ until_ → lookupW uw e ≠ none))
    (hb : S .exhausted ∨ ∀ e, sf ≤ e → e ≤ until_ → f.startEpoch ≤ e → e < f.endEpoch → ∀ uwv, lookupW uw e = some uwv →
      (lookupW cw e).getD 0 ≠ 0 →
      f.emissionRate * uwv / (lookupW cw e).getD 0 + f.claimed ≤ f.assetAmount) :
    ErrIn S (farmRewardTerms f uw cw sf until_) := by
  have loop : ∀ untilF, untilF ≤ until_ → untilF < f.endEpoch →
      ErrIn S ((List.range (untilF + 1 - sf)).foldlM (Farm.termStep f uw cw sf) []) := by
    intro untilF h1 h2
    refine errIn_foldlM (fun _ => True) _ _ ?_ [] trivial
    intro acc i hi _
    have hi' := List.mem_range.1 hi
    refine ⟨errIn_termStep hov ?_ ?_, fun _ _ => trivial⟩
    · rcases hpan with hp | ⟨_, hp⟩
      · exact Or.inl hp
      · exact Or.inr (hp (sf + i) (by omega) (by omega))
    · rcases hb with hb | hb
      · exact Or.inl hb
      · exact Or.inr (fun hst => hb (sf + i) (by omega) (by omega) hst (by omega))
  unfold farmRewardTerms
  by_cases h1 : f.endEpoch ≤ until_
  · by_cases h2 : f.endEpoch = 0
    · rcases hpan with hp | ⟨hp, _⟩
      · intro e he
        simp [h1, h2, bind, Except.bind] at he
        rw [← he]; exact hp
      · exact absurd h2 hp
    · simp only [h1, h2, if_true, if_false, pure_bind]
      exact loop (f.endEpoch - 1) (by omega) (by omega)
  · simp only [h1, if_false, pure_bind]
    exact loop until_ (Nat.le_refl _) (by omega)

/-! ### the two scans -/

theorem errIn_computeAddressWeights {S : Err → Prop} {h : List (Nat × Nat)} {sf u : Nat}
    (hp : S .panic ∨ sf ≠ 0) : ErrIn S (computeAddressWeights h sf u) := by
  intro e he
  unfold computeAddressWeights at he
  by_cases h0 : sf = 0
  · rcases hp with hp | hp
    · simp [h0, bind, Except.bind] at he
      rw [← he]; exact hp
    · exact absurd h0 hp
  · simp [h0, bind, Except.bind, pure, Except.pure] at he

theorem errIn_computeContractWeights {S : Err → Prop} {h : List (Nat × Nat)} {sf u : Nat}
    (hp : S .unauthorized ∨ h ≠ []) : ErrIn S (computeContractWeights h sf u) := by
  intro e he
  unfold computeContractWeights at he
  cases hg : histGet h sf with
  | some w => simp [hg, bind, Except.bind, pure, Except.pure] at he
  | none =>
    cases hE : histEarliest h with
    | none =>
      rcases hp with hp | hp
      · simp [hg, hE, bind, Except.bind] at he
        rw [← he]; exact hp
      · exfalso
        apply hp
        cases h with
        | nil => rfl
        | cons x xs => simp [histEarliest] at hE
    | some p =>
      obtain ⟨e0, w⟩ := p
      simp [hg, hE, bind, Except.bind, pure, Except.pure] at he

/-! ### one farm of `calculate_rewards` -/

/-- the first epoch a claim pays for farm `f` -/
def StartFrom (s : FmState) (recv : Addr) (f : Farm) (last : Option Nat) (sf : Nat) : Prop :=
  (∃ l, last = some l ∧ sf = l + 1) ∨ (last = none ∧ ∃ w, histEarliest (s.hist recv f.lpDenom) = some (sf, w))

theorem errIn_crStep {S : Err → Prop} {s : FmState} {env : FmEnv} {lp : Denom} {recv : Addr} {u : Nat}
    {last : Option Nat} {acc : C05.CrAcc} {f : Farm} (hlp : f.lpDenom = lp)
    (hsu : Farm.Asc (s.hist recv lp)) (hst : Farm.Asc (s.hist env.self lp))
    (hcomp : ∀ l, last = some l → ∀ x ∈ s.hist recv lp, l ≤ x.1)
    (hov : S .overflow)
    (hnf : S .notFound ∨ (last = none → s.hist recv lp ≠ []))
    (hpan : S .panic ∨ ((∀ sf, StartFrom s recv f last sf → sf ≠ 0) ∧ f.endEpoch ≠ 0))
    (hun : S .unauthorized ∨ s.hist env.self lp ≠ [])
    (hb : S .exhausted ∨ ∀ sf, StartFrom s recv f last sf → ∀ e, sf ≤ e → e ≤ u → f.startEpoch ≤ e → e < f.endEpoch →
      Spec.weightAt (s.hist env.self lp) e ≠ 0 →
      f.emissionRate * Spec.weightAt (s.hist recv lp) e / Spec.weightAt (s.hist env.self lp) e + f.claimed ≤
        f.assetAmount) :
    ErrIn S (FH.crStep s env lp recv u last acc f) := by
  have tail : ∀ sf, StartFrom s recv f last sf → (∀ x ∈ s.hist recv lp, sf - 1 ≤ x.1) →
      ErrIn S (do
        let uw ← computeAddressWeights (s.hist recv lp) sf u
        let cw ← computeContractWeights (s.hist env.self lp) sf u
        let terms ← farmRewardTerms f uw cw sf u
        let coins := (terms.filter (fun (t : Nat × Nat) => t.2 > 0)).map fun (t : Nat × Nat) => (⟨f.assetDenom, t.2⟩ : Coin)
        let sum ← terms.foldlM (fun a (t : Nat × Nat) => ckAdd U128_MAX a t.2) 0
        let modified := if terms.isEmpty then acc.2.1 else acc.2.1 ++ [(f.id, sum)]
        (pure (acc.1 ++ coins, modified, acc.2.2 ++ terms.map fun (t : Nat × Nat) => (f.id, t.1, t.2)) : R C05.CrAcc)) := by
    intro sf hsf hno
    refine errIn_bind (errIn_computeAddressWeights ?_) ?_
    · rcases hpan with hp | ⟨hp, _⟩
      · exact Or.inl hp
      · exact Or.inr (hp sf hsf)
    intro uw huw
    refine errIn_bind (errIn_computeContractWeights hun) ?_
    intro cw hcw
    have hu := Farm.address_scan hsu hno huw
    have hc := Farm.contract_scan hst hcw
    refine errIn_bind (errIn_farmRewardTerms hov ?_ ?_) ?_
    · rcases hpan with hp | ⟨_, hp⟩
      · exact Or.inl hp
      · refine Or.inr ⟨hp, ?_⟩
        intro e h1 h2
        rw [hu e (by omega) h2]
        exact fun h => by cases h
    · rcases hb with hb | hb
      · exact Or.inl hb
      · refine Or.inr ?_
        intro e h1 h2 h3 h4 uwv huv htot
        rw [hu e (by omega) h2] at huv
        cases huv
        rw [hc e h1 h2] at htot ⊢
        exact hb sf hsf e h1 h2 h3 h4 htot
    · intro terms _
      exact errIn_bind (errIn_sumFold hov terms 0) (fun _ _ => errIn_pure _)
  unfold FH.crStep
  split
  · exact errIn_pure _
  · cases last with
    | some l =>
      simp only [pure_bind]
      exact tail (l + 1) (Or.inl ⟨l, rfl, rfl⟩) (fun x hx => by have := hcomp l rfl x hx; omega)
    | none =>
      simp only
      cases he : histEarliest (s.hist recv f.lpDenom) with
      | none =>
        rcases hnf with hp | hp
        · exact errIn_bind (errIn_error hp) (fun _ h => by cases h)
        · exfalso
          apply hp rfl
          rw [hlp] at he
          cases hh : s.hist recv lp with
          | nil => rfl
          | cons x xs => rw [hh] at he; simp [histEarliest] at he
      | some p =>
        obtain ⟨e0, w0⟩ := p
        simp only [pure_bind]
        refine tail e0 (Or.inr ⟨rfl, w0, he⟩) ?_
        rw [hlp] at he
        obtain ⟨xs, hxs⟩ := Farm.histGet_head he
        rw [hxs] at hsu ⊢
        intro x hx
        simp only [List.mem_cons] at hx
        rcases hx with rfl | hx
        · simp only; omega
        · have := (List.pairwise_cons.1 hsu).1 x hx; omega

/-! ### `calculate_rewards` -/

theorem errIn_calculateRewards {S : Err → Prop} {s : FmState} {env : FmEnv} {lp : Denom} {recv : Addr} {u : Nat}
    (hov : S .overflow)
    (hinv : S .invalidInput ∨ ∀ l, s.lastClaimed recv = some l → l ≤ u)
    (hfarm : ∀ f ∈ s.farmsByLp lp s.config.maxConcurrentFarms, ∀ acc,
      ErrIn S (FH.crStep s env lp recv u (s.lastClaimed recv) acc f)) :
    ErrIn S (calculateRewards s env lp recv u) := by
  have tail : ∀ (early : Bool), ErrIn S (if early = true then (pure ⟨[], [], []⟩ : R RewardsCalc) else do
      let r ← (s.farmsByLp lp s.config.maxConcurrentFarms).foldlM
        (FH.crStep s env lp recv u (s.lastClaimed recv)) ([], [], [])
      let agg ← aggregateCoins r.1
      pure ⟨agg, r.2.1, r.2.2⟩) := by
    intro early
    refine errIn_ite (fun _ => errIn_pure _) (fun _ => ?_)
    refine errIn_bind ?_ ?_
    · exact errIn_foldlM (fun _ => True) _ _ (fun b f hf _ => ⟨hfarm f hf b, fun _ _ => trivial⟩) _ trivial
    · intro r _
      exact errIn_bind (errIn_aggregateCoins hov _) (fun _ _ => errIn_pure _)
  rw [FH.calculateRewards_eq]
  simp only
  cases hl : s.lastClaimed recv with
  | none =>
    rw [hl] at tail
    simp only [pure_bind]
    exact tail _
  | some l =>
    rw [hl] at tail
    simp only
    by_cases hlt : u < l
    · rcases hinv with hp | hp
      · rw [if_pos hlt]
        exact errIn_bind (errIn_error hp) (fun _ h => by cases h)
      · have := hp l hl; omega
    · rw [if_neg hlt]
      simp only [pure_bind]
      exact tail _

/-! ### the bookkeeping of `claim` -/

theorem modTotal_le_append (a b : List (String × Nat)) (id : String) :
    Split.modTotal a id ≤ Split.modTotal (a ++ b) id := by
  rw [Split.modTotal_append]; exact Nat.le_add_right _ _

theorem errIn_modFold {S : Err → Prop} {base : List Farm} (hn : (base.map (·.id)).Nodup)
    (hnf : S .notFound) (hov : S .overflow) : ∀ (mods pre : List (String × Nat)) (s1 : FmState),
    s1.farms = base.map (Split.addC (Split.modTotal pre)) →
    (S .exhausted ∨ ∀ q ∈ base, q.claimed + Split.modTotal (pre ++ mods) q.id ≤ q.assetAmount) →
    ErrIn S (mods.foldlM Farm.modStep s1) := by
  intro mods
  induction mods with
  | nil => intro pre s1 _ _; exact errIn_pure _
  | cons m ms ih =>
    intro pre s1 hs1 hb
    rw [List.foldlM_cons]
    have hn1 : (s1.farms.map (·.id)).Nodup := by rw [hs1, Split.map_addC_ids]; exact hn
    refine errIn_bind ?_ ?_
    · unfold Farm.modStep
      refine errIn_bind ?_ ?_
      · intro e he
        unfold FmState.getFarm at he
        split at he
        · cases he
        · cases he; exact hnf
      · intro f hf
        refine errIn_bind (errIn_ckAdd hov) ?_
        intro c hc
        simp only [ckAdd_ok] at hc
        obtain ⟨_, rfl⟩ := hc
        by_cases hex : f.claimed + m.2 > f.assetAmount
        · rcases hb with hb | hb
          · rw [if_pos hex]
            exact errIn_bind (errIn_error hb) (fun _ h => by cases h)
          · exfalso
            obtain ⟨hmem, hid⟩ := FH.getFarm_ok hf
            rw [hs1] at hmem
            obtain ⟨q, hq, rfl⟩ := List.mem_map.1 hmem
            have h1 := hb q hq
            have h2 : Split.modTotal (pre ++ [m]) q.id ≤ Split.modTotal (pre ++ m :: ms) q.id := by
              have := modTotal_le_append (pre ++ [m]) ms q.id
              rw [List.append_assoc] at this
              exact this
            rw [Split.modTotal_append, Split.modTotal_cons, Split.modTotal_nil] at h2
            have hid' : m.1 = q.id := hid.symm
            simp only [hid', beq_self_eq_true, if_true, Nat.add_zero] at h2
            have hc1 : (Split.addC (Split.modTotal pre) q).claimed = q.claimed + Split.modTotal pre q.id := rfl
            have hc2 : (Split.addC (Split.modTotal pre) q).assetAmount = q.assetAmount := rfl
            rw [hc1, hc2] at hex
            omega
        · rw [if_neg hex]
          exact errIn_pure _
    · intro s2 hs2
      obtain ⟨m1, _⟩ := Split.modStep_char hn1 hs2
      refine ih (pre ++ [m]) s2 ?_ ?_
      · rw [m1, hs1, List.map_map]
        apply List.map_congr_left
        intro q _
        simp only [Function.comp, Split.addC, Split.modTotal_append, Split.modTotal_cons, Split.modTotal_nil,
          Nat.add_zero, Nat.add_assoc]
        rfl
      · rw [List.append_assoc]
        exact hb

theorem errIn_syncHistory {S : Err → Prop} (hnf : S .notFound) {s : FmState} {a : Addr} {lp : Denom} {ep : Nat}
    {save : Bool} : ErrIn S (syncHistory s a lp ep save) := by
  intro e he
  unfold syncHistory at he
  by_cases hem : (s.hist a lp).isEmpty = true
  · simp [hem, bind, Except.bind] at he
    rw [← he]; exact hnf
  · cases save
    · simp [hem, bind, Except.bind, pure, Except.pure] at he
    · simp only [hem, Bool.false_eq_true, if_false, Bool.not_true] at he
      split at he <;> simp [bind, Except.bind, pure, Except.pure] at he

theorem doneSum_append (s : FmState) (env : FmEnv) (sender : Addr) (untilE : Nat) (a b : List Denom) (id : String) :
    doneSum s env sender untilE (a ++ b) id =
      doneSum s env sender untilE a id + doneSum s env sender untilE b id := by
  unfold doneSum; rw [List.map_append, List.sum_append]

/-- the loop of `claim` over the LP tokens -/
theorem errIn_claimFold {S : Err → Prop} {s : FmState} {env : FmEnv} {sender : Addr} {untilE : Nat}
    (hn : (s.farms.map (·.id)).Nodup) (hnf : S .notFound) (hov : S .overflow)
    (hcalc : ∀ lp, ErrIn S (calculateRewards s env lp sender untilE)) :
    ∀ (rest done : List Denom) (st : FmState × List Coin), (done ++ rest).Nodup →
    Mid2 s env sender untilE done st →
    (S .exhausted ∨ ∀ q ∈ s.farms, q.claimed + doneSum s env sender untilE (done ++ rest) q.id ≤ q.assetAmount) →
    ErrIn S (rest.foldlM (Farm.claimStep env sender untilE) st) := by
  intro rest
  induction rest with
  | nil => intro done st _ _ _; exact errIn_pure _
  | cons lp rest ih =>
    intro done st hnd hm hb
    rw [List.foldlM_cons]
    have hlp : lp ∉ done := by
      intro hx
      rw [List.nodup_append] at hnd
      exact hnd.2.2 lp hx lp List.mem_cons_self rfl
    refine errIn_bind ?_ ?_
    · unfold Farm.claimStep
      refine errIn_bind (by rw [mid_calc hm.mid hlp]; exact hcalc lp) ?_
      intro rc hrc
      have hcalc' : calculateRewards s env lp sender untilE = .ok rc := by
        rw [← mid_calc hm.mid hlp]; exact hrc
      refine errIn_bind ?_ (fun s1 _ => errIn_bind (errIn_syncHistory hnf) (fun _ _ => errIn_pure _))
      have hn1 : (st.1.farms.map (·.id)).Nodup := by rw [hm.mid.ids]; exact hn
      refine errIn_modFold (base := st.1.farms) hn1 hnf hov rc.modified [] st.1 ?_ ?_
      · have : ∀ l : List Farm, l.map (Split.addC (Split.modTotal [])) = l := fun l =>
          (List.map_congr_left (fun q _ => rfl)).trans (List.map_id l)
        exact (this _).symm
      · rcases hb with hb | hb
        · exact Or.inl hb
        · refine Or.inr ?_
          intro q' hq'
          rw [hm.farms] at hq'
          obtain ⟨q, hq, rfl⟩ := List.mem_map.1 hq'
          have h1 := hb q hq
          rw [show done ++ lp :: rest = (done ++ [lp]) ++ rest by rw [List.append_assoc]; rfl,
            doneSum_append, doneSum_append] at h1
          have h2 : doneSum s env sender untilE [lp] q.id = Split.modTotal rc.modified q.id := by
            unfold doneSum
            simp only [List.map_cons, List.map_nil, List.sum_cons, List.sum_nil, Nat.add_zero]
            rw [lpTerms_of_ok hcalc', ← calculateRewards_modTotal hcalc' q.id]
          rw [h2] at h1
          show q.claimed + doneSum s env sender untilE done q.id + Split.modTotal ([] ++ rc.modified) q.id ≤
            q.assetAmount
          rw [List.nil_append]
          omega
    · intro st1 hst1
      refine ih (done ++ [lp]) st1 (by rw [List.append_assoc]; exact hnd) (mid2_step hn hm hlp hst1) ?_
      rw [List.append_assoc]
      exact hb

/-! ### `claim` -/

theorem errIn_queryEpoch {S : Err → Prop} (hov : S .overflow) (hp : S .panic) (cfg : EpochConfig) (id : Nat) :
    ErrIn S (queryEpoch cfg id) := by
  unfold queryEpoch
  exact errIn_bind (errIn_fit hov) (fun _ _ => errIn_bind (errIn_ckAdd hov) (fun _ _ =>
    errIn_bind (errIn_fit hp) (fun _ _ => errIn_pure _)))

theorem errIn_fmCurrentEpoch {S : Err → Prop} (hov : S .overflow) (hp : S .panic) (hdz : S .divZero)
    (hother : S .other) (hinv : S .invalidInput) (s : FmState) (env : FmEnv) : ErrIn S (fmCurrentEpoch s env) := by
  unfold fmCurrentEpoch
  split
  · exact errIn_error hother
  · refine errIn_bind ?_ (fun _ _ => errIn_pure _)
    unfold currentEpoch
    refine errIn_ite (fun _ => ?_) (fun _ => errIn_error hinv)
    refine errIn_bind ?_ (fun _ _ => errIn_queryEpoch hov hp _ _)
    unfold divFloorFrac mulRatio
    exact errIn_ite (fun _ => errIn_error hdz) (fun _ => errIn_fit hov)

/-- `claim` is never refused with `exhausted` when neither the term loop nor the bookkeeping can be -/
theorem fmClaim_ne_exhausted {s : FmState} {env : FmEnv} {sender : Addr} {funds : List Coin} {un : Option Nat}
    (hn : (s.farms.map (·.id)).Nodup)
    (hcalc : ∀ cur untilE, fmCurrentEpoch s env = .ok cur → untilE ≤ cur → ∀ lp,
      ErrIn (fun e => e ≠ .exhausted) (calculateRewards s env lp sender untilE))
    (hb : ∀ cur untilE, fmCurrentEpoch s env = .ok cur → untilE ≤ cur → ∀ q ∈ s.farms,
      q.claimed + doneSum s env sender untilE (uniqueDenoms (s.positionsBy sender true)) q.id ≤ q.assetAmount) :
    fmClaim s env sender funds un ≠ .error .exhausted := by
  intro h
  have key : ErrIn (fun e => e ≠ .exhausted) (fmClaim s env sender funds un) := by
    rw [FH.fmClaim_eq]
    refine errIn_bind ?_ ?_
    · intro e he
      unfold nonpayable at he
      split at he
      · cases he
      · cases he; exact fun h => by cases h
    intro _ _
    simp only
    refine errIn_ite (fun _ => errIn_bind (errIn_error (fun h => by cases h)) (fun _ h => by cases h)) (fun _ => ?_)
    refine errIn_bind (errIn_fmCurrentEpoch (by decide) (by decide) (by decide) (by decide) (by decide) s env) ?_
    intro cur hcur
    refine errIn_bind ?_ ?_
    · intro e he
      unfold untilEpochOrCurrent at he
      split at he
      · split at he
        · cases he
        · cases he; exact fun h => by cases h
      · cases he
    intro untilE hun
    have hle := (Farm.untilEpochOrCurrent_ok hun).1
    refine errIn_bind ?_ ?_
    · have := errIn_claimFold (S := fun e => e ≠ .exhausted) hn (by decide) (by decide)
        (hcalc cur untilE hcur hle) (uniqueDenoms (s.positionsBy sender true)) [] (s, [])
        (by rw [List.nil_append]; exact uniqueDenoms_nodup _)
        ⟨mid_init s env sender untilE, by
          show s.farms = _
          have : ∀ l : List Farm, l.map (Split.addC (doneSum s env sender untilE [])) = l := fun l =>
            (List.map_congr_left (fun q _ => rfl)).trans (List.map_id l)
          exact (this _).symm⟩
        (Or.inr (by rw [List.nil_append]; exact hb cur untilE hcur hle))
      exact this
    · intro st _
      obtain ⟨s', total⟩ := st
      simp only
      refine errIn_ite (fun _ => errIn_bind (errIn_pure _) (fun _ _ => errIn_pure _)) (fun _ => ?_)
      exact errIn_bind (errIn_aggregateCoins (by decide) _)
        (fun _ _ => errIn_bind (errIn_pure _) (fun _ _ => errIn_pure _))
  exact key _ h rfl

end MantraDex.LedSys
