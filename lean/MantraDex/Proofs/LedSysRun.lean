/-
  C06Sys, part 5 (entry-free): lifting through the runtime.  A predicate `P` on the farm-manager state that
  every handler other than `claim` / `update_config` preserves (given the C10 invariant before and after and
  the `HEvo` description of the step) holds across `execMsg` / `execSubs` for every message that is admissible
  for C10 (`MsgOk`) and not a `claim`; no contract ever emits a `claim`.
-/
import MantraDex.Proofs.LedSysFm
import MantraDex.Proofs.WSysStep
import MantraDex.Proofs.AuthSysShapes

set_option linter.unusedSimpArgs false
set_option linter.unusedVariables false

namespace MantraDex.LedSys
open MantraDex MantraDex.WSys

/-- not a `claim` call -/
def NoClaim : Msg → Prop
  | .wasmExec _ (.fm (.claim _)) _ => False
  | _ => True

theorem noClaim_of_emitted {m : Msg} (h : AuthSys.Emitted m) : NoClaim m := by
  cases m with
  | wasmExec c cm f =>
    cases cm with
    | fm fmm =>
      cases fmm <;> first | trivial | exact h.elim
    | _ => trivial
  | _ => trivial

def MsgOk2 (sender : Addr) (m : Msg) : Prop := MsgOk sender m ∧ NoClaim m

/-- what a predicate on the farm-manager state must satisfy to be carried through the runtime -/
def Carried (env0 : FmEnv) (P : FmState → Prop) : Prop :=
  ∀ s s', P s → FInv s env0 → FInv s' env0 → HEvo env0 s s' →
    s'.config.epochManager = s.config.epochManager → P s'

structure LS (env0 : FmEnv) (P : FmState → Prop) (w : World) : Prop where
  sinv : SInv env0 w
  p : P w.fm

theorem ls_lift (env0 : FmEnv) {P : FmState → Prop} (hP : Carried env0 P) : Lift (LS env0 P) MsgOk2 := by
  refine ⟨?_, ?_, ?_⟩
  · intro w b h
    exact ⟨(sinv_lift env0).bank w b h.sinv, h.p⟩
  · intro w w2 c sender funds msg resp hI hok hce
    obtain ⟨hs2, hm2⟩ := (sinv_lift env0).exec hI.sinv hok.1 hce
    refine ⟨⟨hs2, ?_⟩, fun sm hsm => ⟨hm2 sm hsm, noClaim_of_emitted (AuthSys.callExecute_emitted hce sm hsm)⟩⟩
    rcases AuthSys.callExecute_cases hce with ⟨m, s, rfl, -, hx, rfl⟩ | ⟨m, s, rfl, -, hx, rfl⟩ |
        ⟨m, s, rfl, -, -, rfl, -⟩ | ⟨a, o, rfl, -, -, -, rfl, -⟩
    · exact hI.p
    · show P s
      have hself := hI.sinv.self_eq
      rw [hI.sinv.env] at hx
      have hnc : ∀ u, m ≠ .claim u := by
        intro u e; subst e; exact hok.2
      have hnu : ∀ u, m ≠ .updateConfig u := by
        intro u e; subst e; exact hok.1.2
      have hcfg : s.config = w.fm.config := by
        have hcall : FmCallOk env0.self w.fm sender m := by
          cases m with
          | createPosition id u rc =>
            cases rc with
            | none => trivial
            | some rc =>
              intro hp
              rw [hself]
              exact hok.1.2 (by rw [hp, hI.sinv.pmAddr])
          | _ => trivial
        exact (fmExecute_inv hI.sinv.finv hI.sinv.wf (by rw [hself]; exact hok.1.1) hcall
          (fun ⟨u, hu⟩ => absurd hu (hnu u)) hx).2.2 hnu
      exact hP _ _ hI.p hI.sinv.finv hs2.finv
        (fmExecute_hevo (by rw [hself]; exact hok.1.1) hnc hnu hx) (by rw [hcfg])
    · exact hI.p
    · exact hI.p
  · intro w w2 c id resp hI hcr
    obtain ⟨hs2, hm2⟩ := (sinv_lift env0).reply hI.sinv hcr
    refine ⟨⟨hs2, ?_⟩, fun sm hsm => ⟨hm2 sm hsm, noClaim_of_emitted (AuthSys.callReply_emitted hcr sm hsm)⟩⟩
    rcases AuthSys.callReply_cases hcr with ⟨-, s, -, rfl⟩ | ⟨-, rfl, -⟩
    · exact hI.p
    · exact hI.p

theorem ls_exec {env0 : FmEnv} {P : FmState → Prop} (hP : Carried env0 P) {w w' : World} {sender : Addr}
    {m : Msg} {fuel : Nat} (hI : LS env0 P w) (hok : MsgOk2 sender m) (h : execMsg fuel w sender m = .ok w') :
    LS env0 P w' :=
  (lift_run (ls_lift env0 hP) fuel).1 _ _ _ _ h hI hok

theorem ls_subs {env0 : FmEnv} {P : FmState → Prop} (hP : Carried env0 P) {w w' : World} {c : Addr}
    {subs : List SubMsg} {fuel : Nat} (hI : LS env0 P w) (hok : ∀ sm ∈ subs, MsgOk2 c sm.msg)
    (h : execSubs fuel w c subs = .ok w') : LS env0 P w' :=
  (lift_run (ls_lift env0 hP) fuel).2 _ _ _ _ h hI hok

theorem msgOk2_of_send {c : Addr} {m : Msg} (h : SysPm.IsSend m) : MsgOk2 c m := by
  obtain ⟨to, cs, rfl⟩ := h
  exact ⟨trivial, trivial⟩

end MantraDex.LedSys
