/-
  Glue lemmas for `Properties/MonSound.lean`: `firstFail` on all-true clause lists, the post-state custody
  of an accepted transaction, per-asset facts about `coinsOf` on lists with distinct denoms, and the share amount
  of a later deposit into a funded constant-product pool exposed at handler and at transaction level.
-/
import MantraDex.Model.System
import MantraDex.Model.HistMon
import MantraDex.Properties.C01Exact
import MantraDex.Properties.C16Tx
import MantraDex.Properties.C02
import MantraDex.Proofs.LivePool
import MantraDex.Proofs.PoolTxProvide
import MantraDex.Proofs.PoolTxCx
import MantraDex.Proofs.NonVacTwin

set_option linter.unusedSimpArgs false
set_option linter.unusedVariables false

namespace MantraDex.MonSoundL
open MantraDex

/-- no clause fails ⇒ no alarm -/
theorem firstFail_none (xs : List (Bool × String)) (h : ∀ x ∈ xs, x.1 = true) : firstFail xs = none := by
  have hf : xs.filter (fun x => !x.1) = [] := by
    rw [List.filter_eq_nil_iff]
    intro x hx
    simp [h x hx]
  unfold firstFail
  simp only [hf, List.map_nil, List.foldl_nil]

theorem step_ok {w w' : World} {tx : Tx} {k : Option Nat} (h : runTx w tx k = .ok w') : step w tx k = w' := by
  unfold step; rw [h]

/-- the refund list of a withdrawal (zero refunds filtered out), read per asset -/
theorem coinsOf_refunds (assets : List Coin) (g : Coin → Nat) (hnd : (assets.map (·.denom)).Nodup) (a : Coin)
    (ha : a ∈ assets) :
    C01.coinsOf ((assets.map fun a => (⟨a.denom, g a⟩ : Coin)).filter (·.amount > 0)) a.denom = g a := by
  rw [Live.coinsOf_filter_pos]
  have hnd' : ((assets.map fun a => (⟨a.denom, g a⟩ : Coin)).map (·.denom)).Nodup := by
    rw [List.map_map]
    exact hnd
  have hm : (⟨a.denom, g a⟩ : Coin) ∈ assets.map fun a => (⟨a.denom, g a⟩ : Coin) := List.mem_map_of_mem ha
  exact Live.coinsOf_nodup hnd' hm

/-! ### later deposit into a funded constant-product pool: the minted amount -/

theorem coinsOf_two (n0 n1 : Denom) (a b : Nat) (hne : n0 ≠ n1) :
    C01.coinsOf [⟨n0, a⟩, ⟨n1, b⟩] n0 = a ∧ C01.coinsOf [⟨n0, a⟩, ⟨n1, b⟩] n1 = b := by
  have h1 : (n0 == n1) = false := by simpa using hne
  have h2 : (n1 == n0) = false := by simpa using fun e => hne e.symm
  simp [C01.coinsOf_cons, C01.amt, h1, h2]

theorem coinsOf_two_other (n0 n1 d : Denom) (a b : Nat) (h0 : d ≠ n0) (h1 : d ≠ n1) :
    C01.coinsOf [⟨n0, a⟩, ⟨n1, b⟩] d = 0 := by
  apply C01.coinsOf_eq_zero
  intro g hg
  simp only [List.mem_cons, List.not_mem_nil, or_false] at hg
  rcases hg with rfl | rfl
  · exact fun e => h0 e.symm
  · exact fun e => h1 e.symm



theorem agg_two {n0 n1 : Denom} {dx dy : Nat} (hne : n0 ≠ n1) {deps : List Coin}
    (h : aggregateCoins [⟨n0, dx⟩, ⟨n1, dy⟩] = .ok deps) :
    deps = [⟨n0, dx⟩, ⟨n1, dy⟩] ∨ deps = [⟨n1, dy⟩, ⟨n0, dx⟩] := by
  have hne' : (n1 == n0) = false := by simpa using fun e => hne e.symm
  unfold aggregateCoins at h
  simp only [List.foldlM_cons, List.foldlM_nil, insertCoin, pure_bind', ok_bind, hne', Bool.false_eq_true, if_false] at h
  by_cases hlt : n1 < n0
  · simp only [hlt, if_true, pure_ok, pure_bind', ok_bind] at h
    right; cases h; rfl
  · simp only [hlt, if_false, pure_ok, pure_bind', ok_bind] at h
    left; cases h; rfl

/-- `cp_mint_formula` with the deposits in the other order (the handler looks every deposit up in the pool) -/
theorem cp_mint_formula_swapped {self : Addr} {lp : Denom} {d0 d1 x y S shares : Nat} {n0 n1 : Denom}
    {msgs : List Msg} (hS : S ≠ 0) (hne : n0 ≠ n1)
    (h : cpShares self lp [⟨n1, d1⟩, ⟨n0, d0⟩] [⟨n0, x⟩, ⟨n1, y⟩] S = .ok (shares, msgs)) :
    shares = min (d0 * S / x) (d1 * S / y) ∧ msgs = [] ∧ x ≠ 0 ∧ y ≠ 0 := by
  unfold cpShares at h
  rw [if_neg hS] at h
  have hne' : (n0 == n1) = false := by simpa using hne
  simp only [List.mapM_cons, List.mapM_nil, findIdx, beq_self_eq_true, hne', if_true, if_false,
    Bool.false_eq_true, Option.map, bind_ok, pure_ok, getD?, List.getElem?_cons_zero,
    List.getElem?_cons_succ, orPanic_ok, mulRatio_ok, Nat.zero_add] at h
  obtain ⟨l, ⟨s0, ⟨_, rfl, c0, hc0, hx, _, rfl⟩, l1, ⟨s1, ⟨_, rfl, c1, hc1, hy, _, rfl⟩, _, rfl, rfl⟩, rfl⟩,
    a1, ha1, a2, ha2, hres⟩ := h
  simp only [List.getElem?_cons_zero, List.getElem?_cons_succ, Except.ok.injEq] at hc0 hc1 ha1 ha2
  subst hc0 hc1 ha1 ha2
  simp only [Prod.mk.injEq] at hres
  exact ⟨by rw [Nat.min_comm]; exact hres.1, hres.2, hy, hx⟩

/-- the multi-asset branch of a deposit into a constant-product pool, with the share computation exposed -/
theorem pl_multi_cp {s s' : PmState} {env : PmEnv} {sender : Addr} {funds deposits : List Coin}
    {ls ss : Option Nat} {recv : Option Addr} {pid : String} {u : Option Nat} {l : Option String}
    {r : Response} {pool : PoolInfo} (hp : s.getPool pid = .ok pool) (hpt : pool.ptype = .cp)
    (hagg : aggregateCoins funds = .ok deposits) (hlen : deposits.length ≠ 1)
    (h : provideLiquidity s env sender funds ls ss recv pid u l = .ok (s', r)) :
    ∃ shares msgs0,
      cpShares env.self pool.lpDenom deposits pool.assets (env.supply pool.lpDenom) = .ok (shares, msgs0) ∧
      plTail s env sender pool deposits ls (addrOrDefault env recv sender) u l shares msgs0 = .ok (s', r) := by
  unfold provideLiquidity at h
  simp only [hagg, ↓ok_bind, ↓ite_err_bind_ok, ↓bind_ok, ↓err_bind_ok, List.length_singleton, ↓reduceIte, pure_ok, getD?_ok',
    ↓pure_bind', Except.ok.injEq] at h
  obtain ⟨pool0, hp0, hst, d, hd, -, hall, h⟩ := h
  rw [hp] at hp0
  cases hp0
  cases hd
  simp only [hlen, ↓ite_err_bind_ok, ↓reduceIte] at h
  obtain ⟨-, h⟩ := h
  rw [hpt] at h
  simp only [] at h
  obtain ⟨⟨sh, m0⟩, hcp, h⟩ := bind_ok.mp h
  simp only [] at h
  rw [← hpt] at h
  exact ⟨sh, m0, hcp, h⟩


/-- later deposit of both assets into a funded constant-product pool: the response is one mint of
    min(⌊dx·S/x⌋, ⌊dy·S/y⌋) LP to the receiver (whatever the order in which the two coins are attached) -/
theorem provide_cp_msgs {s s' : PmState} {env : PmEnv} {sender : Addr} {ls ss : Option Nat} {rc : Option Addr}
    {pid : String} {r : Response} {pool : PoolInfo} {n0 n1 : Denom} {x y dx dy : Nat}
    (hp : s.getPool pid = .ok pool) (hpt : pool.ptype = .cp) (hassets : pool.assets = [⟨n0, x⟩, ⟨n1, y⟩])
    (hne : n0 ≠ n1) (hS : env.supply pool.lpDenom ≠ 0)
    (h : provideLiquidity s env sender [⟨n0, dx⟩, ⟨n1, dy⟩] ls ss rc pid none none = .ok (s', r)) :
    r.msgs = [Msg.tfMint ⟨pool.lpDenom, min (dx * env.supply pool.lpDenom / x) (dy * env.supply pool.lpDenom / y)⟩
      (addrOrDefault env rc sender)].map mkSub ∧ x ≠ 0 ∧ y ≠ 0 := by
  have hfunds : (([⟨n0, dx⟩, ⟨n1, dy⟩] : List Coin).map (·.denom)).Nodup := by
    simp only [List.map_cons, List.map_nil, List.nodup_cons, List.mem_cons, List.not_mem_nil, or_false,
      not_false_eq_true, List.nodup_nil, and_true]
    exact hne
  obtain ⟨deps, hagg, _⟩ := pl_agg h
  have hlen : deps.length ≠ 1 := by rw [aggregateCoins_length hfunds hagg]; simp
  obtain ⟨shares, msgs0, hcp, htail⟩ := pl_multi_cp hp hpt hagg hlen h
  obtain ⟨assets', msgs1, hfold, hs', hr, hshare⟩ := LpSys.plTail_full htail
  have hm1 : msgs1 = [Msg.tfMint ⟨pool.lpDenom, shares⟩ (addrOrDefault env rc sender)] := by
    rcases hshare with ⟨_, hm⟩ | ⟨hu, _⟩
    · exact hm
    · cases hu
  subst hm1
  rw [hassets] at hcp
  have hform : shares = min (dx * env.supply pool.lpDenom / x) (dy * env.supply pool.lpDenom / y) ∧ msgs0 = [] ∧
      x ≠ 0 ∧ y ≠ 0 := by
    rcases agg_two hne hagg with rfl | rfl
    · exact C02.cp_mint_formula hS hne hcp
    · exact cp_mint_formula_swapped hS hne hcp
  obtain ⟨rfl, rfl, hx0, hy0⟩ := hform
  rw [hr]
  exact ⟨rfl, hx0, hy0⟩

open MantraDex.PoolTx in
/-- … through the runtime: the LP supply grows by exactly that amount -/
theorem provide_cp_supply {w w' : World} {u : Addr} {ls ss : Option Nat} {rc : Option Addr} {pid : String}
    {pool : PoolInfo} {n0 n1 : Denom} {x y dx dy : Nat}
    (hcov : LpSys.Covers w.bank) (hp : w.pm.getPool pid = .ok pool) (hpt : pool.ptype = .cp)
    (hassets : pool.assets = [⟨n0, x⟩, ⟨n1, y⟩]) (hne : n0 ≠ n1) (hS : w.bank.supply pool.lpDenom ≠ 0)
    (h : runTx w (.exec u PM (.pm (.provideLiquidity ls ss rc pid none none)) [⟨n0, dx⟩, ⟨n1, dy⟩]) = .ok w') :
    w'.bank.supply pool.lpDenom = w.bank.supply pool.lpDenom +
      min (dx * w.bank.supply pool.lpDenom / x) (dy * w.bank.supply pool.lpDenom / y) ∧ x ≠ 0 ∧ y ≠ 0 := by
  have key : ∀ (b : Bank) s r, (∀ d, b.supply d = w.bank.supply d) →
      pmExecute w.pm ({ w with bank := b } : World).pmEnv u [⟨n0, dx⟩, ⟨n1, dy⟩]
        (.provideLiquidity ls ss rc pid none none) = .ok (s, r) →
      r.msgs = [Msg.tfMint ⟨pool.lpDenom, min (dx * w.bank.supply pool.lpDenom / x) (dy * w.bank.supply pool.lpDenom / y)⟩
        (addrOrDefault ({ w with bank := b } : World).pmEnv rc u)].map mkSub ∧ x ≠ 0 ∧ y ≠ 0 := by
    intro b s r hsup hx
    simp only [pmExecute] at hx
    have hsupeq : ({ w with bank := b } : World).pmEnv.supply pool.lpDenom = w.bank.supply pool.lpDenom :=
      hsup pool.lpDenom
    have := provide_cp_msgs hp hpt hassets hne (by rw [hsupeq]; exact hS) hx
    rw [hsupeq] at this
    exact this
  obtain ⟨b1, s, r, ms, b3, hb, hx, hms, hrun, rfl⟩ := pm_leaf_run h (by
    intro b s r hx
    simp only [pmExecute] at hx
    obtain ⟨_, _, _, ms, _, _, hr, hcase⟩ := provide_inv (by
      simp only [List.map_cons, List.map_nil, List.nodup_cons, List.mem_cons, List.not_mem_nil, or_false,
        not_false_eq_true, List.nodup_nil, and_true]
      exact hne) (by simp) hp hx
    refine ⟨ms, hr, ?_⟩
    intro x hx
    rcases hcase with ⟨_, _, rfl⟩ | ⟨_, rfl⟩
    · simp only [List.mem_cons, List.not_mem_nil, or_false] at hx
      subst hx; trivial
    · simp only [List.mem_cons, List.not_mem_nil, or_false] at hx
      rcases hx with rfl | rfl <;> trivial)
  obtain ⟨mv0, c1, sup1⟩ := funds_moved (covers_reset none hcov) hb
  obtain ⟨hmsgs, hx0, hy0⟩ := key b1 s r sup1 hx
  rw [hmsgs] at hms
  have := map_mkSub_inj hms
  subst this
  simp only [bankRun, bankStep] at hrun
  obtain ⟨b2, hm, hrun⟩ := bind_ok.mp hrun
  cases hrun
  have hsp := (mint_spec hm).2.sup pool.lpDenom
  rw [coinsOf_single] at hsp
  simp only [if_true] at hsp
  have hs1 : b1.supply pool.lpDenom = w.bank.supply pool.lpDenom := sup1 pool.lpDenom
  refine ⟨?_, hx0, hy0⟩
  show b3.supply pool.lpDenom = _
  rw [hsp, hs1]
end MantraDex.MonSoundL

/-! ### counterexample to `MonSound.monCpDeposit_sound` as first stated (receiver of the LP tokens = pool manager)

  Evaluated by the kernel on the twin `NonVac.runTxK = runTx` (see `Proofs/NonVacTwin.lean`). -/

namespace MantraDex.MonSoundL.Cx
open MantraDex

def lp : Denom := "factory/pm/p.LP"
def poolX : PoolInfo := { id := "p", denoms := ["x","y"], lpDenom := lp, decimals := [6,6],
                          assets := [⟨"x",100⟩,⟨"y",100⟩], ptype := .cp, fees := ⟨0, 0, 0, []⟩, status := {} }
/-- a funded pool (reserves 100 / 100, LP supply 100); `alice` holds 1000 `x` and 1000 `y` -/
def wX : World := PoolTx.Cx.mkW
  (fun a d => if a = "alice" ∧ (d = "x" ∨ d = "y") then 1000 else if a = PM ∧ (d = "x" ∨ d = "y") then 100 else 0)
  (fun d => if d = lp then 100 else if d = "x" ∨ d = "y" then 2000 else 0) ⟨"uom",0⟩ [] [poolX]
/-- `alice` deposits 10 / 10 and names the pool manager as receiver of the LP tokens -/
def txX : Tx := .exec "alice" PM (.pm (.provideLiquidity none none (some PM) "p" none none)) [⟨"x",10⟩,⟨"y",10⟩]

theorem wX_covers : LpSys.Covers wX.bank := by
  apply PoolTx.Cx.covers_two "alice" PM (fun d => if d = "x" ∨ d = "y" then 1000 else 0)
    (fun d => if d = "x" ∨ d = "y" then 100 else 0)
  · intro a d
    show (if a = "alice" ∧ (d = "x" ∨ d = "y") then 1000 else if a = PM ∧ (d = "x" ∨ d = "y") then 100 else 0) = _
    have hne : ("alice" : Addr) ≠ PM := by decide
    by_cases h1 : a = "alice"
    · subst h1
      simp only [true_and, hne, false_and, if_false]
      split <;> simp
    · by_cases h2 : a = PM
      · subst h2
        simp [h1]
      · simp [h1, h2]
  · intro d
    show _ ≤ (if d = lp then 100 else if d = "x" ∨ d = "y" then 2000 else 0)
    by_cases h : d = "x" ∨ d = "y"
    · have : d ≠ lp := by rcases h with rfl | rfl <;> decide
      simp [h, this]
    · simp [h]

theorem eval :
    ((NonVac.runTxK wX txX).toOption.map fun w' =>
      ((w'.pm.getPool "p").toOption.map (·.assets), w'.bank.supply lp, w'.bank.bal PM lp)) =
    some (some [⟨"x",110⟩,⟨"y",110⟩], 110, 10) := by decide +kernel


theorem run :
    ∃ w' pool', runTx wX txX = .ok w' ∧ w'.pm.getPool "p" = .ok pool' ∧ pool'.assets = [⟨"x",110⟩,⟨"y",110⟩] ∧
      w'.bank.supply lp = 110 ∧ w'.bank.bal PM lp = 10 := by
  have h := eval
  rw [NonVac.runTxK_eq] at h
  cases hr : runTx wX txX with
  | error e => rw [hr] at h; cases h
  | ok w' =>
    rw [hr] at h
    simp only [Except.toOption, Option.map_some, Option.some.injEq, Prod.mk.injEq] at h
    obtain ⟨h1, h2, h3⟩ := h
    cases hg : w'.pm.getPool "p" with
    | error e => rw [hg] at h1; cases h1
    | ok pool' =>
      rw [hg] at h1
      simp only [Option.map_some, Option.some.injEq] at h1
      exact ⟨w', pool', rfl, hg, h1, h2, h3⟩

theorem verdict : monCpDeposit 100 100 10 10 100 (110 - 100) (10 - 0) 110 110 = some "C01-lp-held" := by decide

end MantraDex.MonSoundL.Cx
