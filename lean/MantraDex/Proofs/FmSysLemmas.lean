/-
  Farm-manager lemmas for the system-level custody invariant (C05Sys):
  * well-formedness of the position / farm stores is preserved by every handler,
  * every message the farm manager emits is a bank send,
  * the custody inequality is preserved by the message-execution semantics (`execMsg` / `execSubs`).
-/
import MantraDex.Proofs.SysLemmas
import MantraDex.Proofs.FmLemmas
set_option linter.unusedSimpArgs false
set_option linter.unusedVariables false
namespace MantraDex.FmSys
open MantraDex MantraDex.C05 MantraDex.Sys

def autoId (n : Nat) : String := C.AUTO_POSITION_ID_PREFIX ++ toString n

/-- positions have distinct identifiers and generated identifiers beyond the counter are unused -/
structure PosWF (s : FmState) : Prop where
  nodup : (s.positions.map (·.id)).Nodup
  fresh : ∀ n, s.posCounter < n → s.getPosition (C.AUTO_POSITION_ID_PREFIX ++ toString n) = none

theorem poswf_congr {s s' : FmState} (hp : s'.positions = s.positions) (hc : s'.posCounter = s.posCounter)
    (h : PosWF s) : PosWF s' := by
  refine ⟨by rw [hp]; exact h.nodup, fun n hn => ?_⟩
  rw [getPosition_congr hp]; exact h.fresh n (by omega)

theorem poswf_sameStore {s s' : FmState} (hs : SameStore s s') (h : PosWF s) : PosWF s' :=
  poswf_congr hs.1 hs.2.2.1 h

theorem savePosition_ids_existing {s : FmState} {p : Position}
    (h : s.positions.any (·.id == p.id) = true) :
    (s.savePosition p).positions.map (·.id) = s.positions.map (·.id) := by
  unfold FmState.savePosition
  rw [if_pos h]
  simp only [List.map_map]
  apply List.map_congr_left
  intro q _
  simp only [Function.comp]
  split
  next hq => exact (by simpa using hq : q.id = p.id).symm
  next => rfl

theorem any_of_getPosition {s : FmState} {id : String} {q : Position} (h : s.getPosition id = some q) :
    s.positions.any (·.id == id) = true := by
  obtain ⟨hm, hid⟩ := FH.getPosition_some h
  exact List.any_eq_true.2 ⟨q, hm, by simp [hid]⟩

theorem poswf_save_existing {s : FmState} {p q : Position} (h : PosWF s)
    (hg : s.getPosition p.id = some q) : PosWF (s.savePosition p) := by
  refine ⟨by rw [savePosition_ids_existing (any_of_getPosition hg)]; exact h.nodup, fun n hn => ?_⟩
  rw [savePosition_posCounter] at hn
  have hf := h.fresh n hn
  have hne : C.AUTO_POSITION_ID_PREFIX ++ toString n ≠ p.id := by
    intro e; rw [e, hg] at hf; cases hf
  rw [getPosition_save_other _ _ hne]; exact hf

theorem nodup_save_new {s : FmState} {p : Position} (hn : (s.positions.map (·.id)).Nodup)
    (hg : s.getPosition p.id = none) : ((s.savePosition p).positions.map (·.id)).Nodup := by
  rw [((FH.savePosition_perm_new hg).map _).nodup_iff]
  simp only [List.map_cons, List.nodup_cons]
  exact ⟨FH.getPosition_none_notin hg, hn⟩

theorem poswf_save_auto {s : FmState} {np : Position} (h : PosWF s)
    (hid : np.id = C.AUTO_POSITION_ID_PREFIX ++ toString (s.posCounter + 1)) :
    PosWF (({ s with posCounter := s.posCounter + 1 } : FmState).savePosition np) := by
  have hg : ({ s with posCounter := s.posCounter + 1 } : FmState).getPosition np.id = none := by
    rw [hid]; exact h.fresh _ (by omega)
  refine ⟨nodup_save_new h.nodup hg, fun n hn => ?_⟩
  rw [savePosition_posCounter] at hn
  have hn' : s.posCounter + 1 < n := hn
  have hne : C.AUTO_POSITION_ID_PREFIX ++ toString n ≠ np.id := by
    rw [hid]; intro e; have := auto_id_inj e; omega
  rw [getPosition_save_other _ _ hne]
  exact h.fresh n (by omega)

theorem poswf_save_explicit {s : FmState} {p : Position} {i : String} (h : PosWF s)
    (hid : p.id = C.EXPLICIT_POSITION_ID_PREFIX ++ i) (hg : s.getPosition p.id = none) :
    PosWF (s.savePosition p) := by
  refine ⟨nodup_save_new h.nodup hg, fun n hn => ?_⟩
  rw [savePosition_posCounter] at hn
  have hne : C.AUTO_POSITION_ID_PREFIX ++ toString n ≠ p.id := by
    rw [hid]; exact auto_ne_explicit n i
  rw [getPosition_save_other _ _ hne]
  exact h.fresh n hn

theorem poswf_remove {s : FmState} (id : String) (h : PosWF s) : PosWF (s.removePosition id) := by
  refine ⟨?_, fun n hn => ?_⟩
  · unfold FmState.removePosition
    exact (List.filter_sublist.map _).nodup h.nodup
  · have hn' : s.posCounter < n := hn
    by_cases e : C.AUTO_POSITION_ID_PREFIX ++ toString n = id
    · rw [e]; exact getPosition_remove_same s id
    · rw [getPosition_remove_other _ e]; exact h.fresh n hn'



def IsSend (m : Msg) : Prop := ∃ to cs, m = .bankSend to cs
def Sends (l : List Msg) : Prop := ∀ m ∈ l, IsSend m
def AllSend (l : List SubMsg) : Prop := ∀ sm ∈ l, IsSend sm.msg

theorem sends_nil : Sends [] := fun _ h => by cases h
theorem sends_single (to : Addr) (cs : List Coin) : Sends [Msg.bankSend to cs] := by
  intro m hm; simp only [List.mem_singleton] at hm; subst hm; exact ⟨_, _, rfl⟩
theorem sends_append {a b : List Msg} (ha : Sends a) (hb : Sends b) : Sends (a ++ b) := by
  intro m hm; rcases List.mem_append.1 hm with h | h
  · exact ha m h
  · exact hb m h
theorem sends_ite {c : Prop} [Decidable c] {a b : List Msg} (ha : Sends a) (hb : Sends b) :
    Sends (if c then a else b) := by split <;> assumption
theorem sends_map {α : Type} (l : List α) (f : α → Msg) (hf : ∀ x, IsSend (f x)) : Sends (l.map f) := by
  intro m hm; obtain ⟨x, _, rfl⟩ := List.mem_map.1 hm; exact hf x

theorem allSend_nil : AllSend [] := fun _ h => by cases h
theorem allSend_append {a b : List SubMsg} (ha : AllSend a) (hb : AllSend b) : AllSend (a ++ b) := by
  intro m hm; rcases List.mem_append.1 hm with h | h
  · exact ha m h
  · exact hb m h
theorem allSend_map {ms : List Msg} (h : Sends ms) : AllSend (ms.map fun m => ({ msg := m } : SubMsg)) := by
  intro sm hm; obtain ⟨m, hm', rfl⟩ := List.mem_map.1 hm; exact h m hm'
theorem allSend_ofMsgs {ms : List Msg} (attrs : List (String × String)) (h : Sends ms) :
    AllSend (Response.ofMsgs ms attrs).msgs := allSend_map h
theorem allSend_of_map_msg {l : List SubMsg} (h : Sends (l.map (·.msg))) : AllSend l := by
  intro sm hm; exact h sm.msg (List.mem_map_of_mem hm)

/-! ### farm handlers -/

theorem saveFarm_posCounter (s : FmState) (f : Farm) : (s.saveFarm f).posCounter = s.posCounter := by
  unfold FmState.saveFarm; split <;> rfl

theorem closeFarms_posCounter (s : FmState) (fs : List Farm) :
    (closeFarms s fs).1.posCounter = s.posCounter := by
  rw [FH.closeFarms_eq]
  suffices ∀ st : FmState × List SubMsg, (fs.foldl FH.closeStep st).1.posCounter = st.1.posCounter from
    this (s, [])
  induction fs with
  | nil => intro st; rfl
  | cons f fs ih =>
    intro st
    rw [List.foldl_cons, ih]
    unfold FH.closeStep; split <;> rfl

theorem cfIdState_posCounter (s1 : FmState) (p : FarmParams) :
    (FH.cfIdState s1 p).2.posCounter = s1.posCounter := by
  unfold FH.cfIdState; split <;> rfl

theorem closeFarms_allSend (s : FmState) (fs : List Farm) : AllSend (closeFarms s fs).2 := by
  apply allSend_of_map_msg
  rw [(FH.closeFarms_spec s fs).1]
  exact sends_map _ _ fun f => ⟨_, _, rfl⟩

theorem closeFarms_nodup {s : FmState} (fs : List Farm) (hn : (s.farms.map (·.id)).Nodup) :
    ((closeFarms s fs).1.farms.map (·.id)).Nodup := by
  rw [(FH.closeFarms_spec s fs).2.1]
  exact (List.filter_sublist.map _).nodup hn

/-- the part of the state the farm handlers leave alone -/
def PosSame (s s' : FmState) : Prop := s'.positions = s.positions ∧ s'.posCounter = s.posCounter

/-- `create_farm`: conservation without the `Nodup` assumption on the funds (not needed) -/
theorem createFarm_wf {s s' : FmState} {env : FmEnv} {sender : Addr} {funds : List Coin}
    {p : FarmParams} {r : Response} (hc : ClaimedOk s) (hu : (s.farms.map (·.id)).Nodup)
    (h : createFarm s env sender funds p = .ok (s', r)) :
    Conserves s s' funds r ∧ ClaimedOk s' ∧ (s'.farms.map (·.id)).Nodup ∧ PosSame s s' ∧
      AllSend r.msgs := by
  obtain ⟨cur, flags, feeMsgs, start, end_, rate, hcur, hflags, _, _, hfm, hassert, _, _, hany,
    rfl, rfl⟩ := FH.createFarm_inv h
  have hsub : (FH.cfExpired s p flags).Sublist s.farms := by
    unfold FH.cfExpired FH.cfFarms FmState.farmsByLp
    exact ((FH.zip_filter_sublist _ _ _).trans (List.take_sublist _ _)).trans List.filter_sublist
  obtain ⟨_, _, hpos, _, _⟩ := FH.closeFarms_spec s (FH.cfExpired s p flags)
  refine ⟨?_, ?_, ?_, ⟨?_, ?_⟩, ?_⟩
  · intro d
    have h1 := closeFarms_conserve hsub hu d
    have h2 := fee_funds_bound hfm hassert d
    rw [liability_eq, liability_eq, FH.saveFarm_positions, FH.cfIdState_positions, hpos,
      farmSum_save_new hany, FH.cfIdState_farms]
    simp only
    rw [outflow_append, outflow_ofMsgs]
    simp only [Nat.sub_zero]
    omega
  · intro g hg
    have := (FH.saveFarm_perm_new hany).mem_iff.1 hg
    rcases List.mem_cons.1 this with rfl | hg'
    · exact Nat.zero_le _
    · rw [FH.cfIdState_farms] at hg'
      exact hc g (closeFarms_mem hg')
  · rw [((FH.saveFarm_perm_new hany).map _).nodup_iff]
    simp only [List.map_cons, List.nodup_cons]
    refine ⟨?_, by rw [FH.cfIdState_farms]; exact closeFarms_nodup _ hu⟩
    intro hm
    obtain ⟨g, hg, hgid⟩ := List.mem_map.1 hm
    have := List.any_eq_false.1 hany g hg
    simp [hgid] at this
  · rw [FH.saveFarm_positions, FH.cfIdState_positions, hpos]
  · rw [saveFarm_posCounter, cfIdState_posCounter, closeFarms_posCounter]
  · apply allSend_append
    · apply allSend_map
      by_cases hfee : s.config.createFarmFee.amount ≠ 0
      · rw [if_pos hfee] at hfm
        obtain ⟨paid, _, _, rfl⟩ := C11.farm_fee_messages hfee hfm
        exact sends_append (sends_ite sends_nil (sends_single _ _)) (sends_single _ _)
      · rw [if_neg hfee] at hfm
        simp only [pure_ok] at hfm; subst hfm
        exact sends_nil
    · exact closeFarms_allSend _ _

theorem expandFarm_wf {s s' : FmState} {env : FmEnv} {sender : Addr} {funds : List Coin}
    {p : FarmParams} {r : Response} (hu : (s.farms.map (·.id)).Nodup)
    (h : expandFarm s env sender funds p = .ok (s', r)) :
    (s'.farms.map (·.id)).Nodup ∧ PosSame s s' ∧ r.msgs = [] := by
  unfold expandFarm at h
  cases hid : p.farmId with
  | none => simp [hid, bind, Except.bind] at h
  | some fid =>
    simp only [hid, FH.error_bind, FH.ite_err_ok, bind_ok, pure_ok, fit_ok, ckAdd_ok, Prod.mk.injEq] at h
    obtain ⟨fid', hfid', f, hf, _, cur, hcur, hlt, ex, _, _, _, reward, hone, hrw, hden, hrate, hmod, total,
      ⟨_, rfl⟩, extra, ⟨_, rfl⟩, newEnd, ⟨_, rfl⟩, rfl, rfl⟩ := h
    cases hfid'
    obtain ⟨hmem, _⟩ := FH.getFarm_ok hf
    refine ⟨?_, ⟨FH.saveFarm_positions _ _, saveFarm_posCounter _ _⟩, rfl⟩
    have e := FH.saveFarm_replace_map (fun x : Farm => x.id) (s := s) (f0 := f)
      (f := { f with assetAmount := f.assetAmount + reward.amount,
                     endEpoch := f.endEpoch + p.asset.amount / f.emissionRate }) hmem rfl (fun q _ hq => hq.symm)
    rw [e]; exact hu

theorem closeFarm_wf {s s' : FmState} {sender : Addr} {funds : List Coin} {id : String}
    {r : Response} (hu : (s.farms.map (·.id)).Nodup)
    (h : closeFarm s sender funds id = .ok (s', r)) :
    (s'.farms.map (·.id)).Nodup ∧ PosSame s s' ∧ AllSend r.msgs := by
  unfold closeFarm at h
  simp only [FH.error_bind, FH.ite_err_ok, bind_ok, pure_ok, Prod.mk.injEq] at h
  obtain ⟨_, hnp, f, hf, _, rfl, rfl⟩ := h
  exact ⟨closeFarms_nodup _ hu, ⟨(FH.closeFarms_spec s [f]).2.2.1, closeFarms_posCounter _ _⟩,
    closeFarms_allSend _ _⟩

theorem claimModStep_posCounter {s1 s2 : FmState} {m : String × Nat} (h : FH.claimModStep s1 m = .ok s2) :
    s2.posCounter = s1.posCounter := by
  unfold FH.claimModStep at h
  simp only [FH.error_bind, FH.ite_err_ok, bind_ok, pure_ok, ckAdd_ok] at h
  obtain ⟨f, hf, c, ⟨_, rfl⟩, hle, rfl⟩ := h
  exact saveFarm_posCounter _ _

theorem claimStep_posCounter {env : FmEnv} {sender : Addr} {u : Nat} {st st' : FmState × List Coin}
    {lp : Denom} (h : FH.claimStep env sender u st lp = .ok st') : st'.1.posCounter = st.1.posCounter := by
  unfold FH.claimStep at h
  simp only [bind_ok, pure_ok] at h
  obtain ⟨rc, hrc, s1, hfold, s2, hsync, rfl⟩ := h
  have h1 : s1.posCounter = st.1.posCounter :=
    foldlM_inv (fun (x : FmState) => x.posCounter = st.1.posCounter) _
      (fun b m b' hb hm => by rw [claimModStep_posCounter hm]; exact hb) _ _ _ rfl hfold
  show s2.posCounter = st.1.posCounter
  rw [(syncHistory_sameStore hsync).2.2.1, h1]

theorem fmClaim_wf {s s' : FmState} {env : FmEnv} {sender : Addr} {funds : List Coin}
    {u : Option Nat} {r : Response} (hc : ClaimedOk s) (hu : (s.farms.map (·.id)).Nodup)
    (h : fmClaim s env sender funds u = .ok (s', r)) :
    (s'.farms.map (·.id)).Nodup ∧ PosSame s s' ∧ AllSend r.msgs := by
  rw [FH.fmClaim_eq] at h
  simp only [FH.error_bind, FH.ite_err_ok, bind_ok, pure_ok] at h
  obtain ⟨_, hnp, _, cur, _, untilE, _, ⟨s1, total⟩, hfold, h⟩ := h
  have hnk : ((KD s.farms).map (·.1)).Nodup := by rw [KD_ids]; exact hu
  obtain ⟨b1, b2, b3, b4⟩ := claimFold_spec hnk _ _ _ rfl hc hfold
  have hpc : s1.posCounter = s.posCounter :=
    foldlM_inv (fun (x : FmState × List Coin) => x.1.posCounter = s.posCounter) _
      (fun b m b' hb hm => by rw [claimStep_posCounter hm]; exact hb) _ _ _ rfl hfold
  simp only at b1 b2 b3 b4 h
  have hids : (s1.farms.map (·.id)).Nodup := by rw [← KD_ids, b1, KD_ids]; exact hu
  split at h
  · simp only [bind_ok, pure_ok, Prod.mk.injEq] at h
    obtain ⟨msgs, rfl, rfl, rfl⟩ := h
    exact ⟨hids, ⟨b3, hpc⟩, allSend_ofMsgs _ sends_nil⟩
  · simp only [bind_ok, pure_ok, Prod.mk.injEq] at h
    obtain ⟨agg, _, msgs, rfl, rfl, rfl⟩ := h
    exact ⟨hids, ⟨b3, hpc⟩, allSend_ofMsgs _ (sends_single _ _)⟩

theorem fmUpdateConfig_posCounter {s s' : FmState} {env : FmEnv} {sender : Addr} {u : FmConfigUpdate}
    {r : Response} (h : fmUpdateConfig s env sender u = .ok (s', r)) :
    s'.posCounter = s.posCounter := by
  unfold fmUpdateConfig at h
  simp only [bind_ok, pure_ok] at h
  obtain ⟨_, _, fc, _, em, _, pm, _, h⟩ := h
  iterate 10 (all_goals (try (split at h <;> try simp only [pure_bind, FH.error_bind, reduceCtorEq] at h)))
  all_goals simp only [pure_ok, Prod.mk.injEq] at h
  all_goals obtain ⟨rfl, rfl⟩ := h
  all_goals rfl


/-! ### position handlers -/


theorem sameStore_save_farms {s1 s' : FmState} {p : Position} (h : SameStore (s1.savePosition p) s') :
    s'.farms = s1.farms := by rw [h.2.1, savePosition_farms]

theorem createPosition_wf {s s' : FmState} {env : FmEnv} {sender : Addr} {funds : List Coin}
    {id : Option String} {u : Nat} {recv : Option Addr} {r : Response} (hwf : PosWF s)
    (h : createPosition s env sender funds id u recv = .ok (s', r)) :
    PosWF s' ∧ s'.farms = s.farms ∧ r.msgs = [] := by
  unfold createPosition at h
  cases recv <;> cases id <;>
    simp only [bind_ok, error_bind, pure_bind', ite_error_ok, pure_ok, Prod.mk.injEq] at h
  · obtain ⟨lp, hlp, _, _, _, _, hnone, _, s3, h3, rfl, rfl⟩ := h
    have hs := updateWeights_sameStore h3
    exact ⟨poswf_sameStore hs (poswf_save_auto hwf rfl), (by have := sameStore_save_farms hs; exact this), rfl⟩
  · obtain ⟨lp, hlp, _, _, _, _, hnone, _, s3, h3, rfl, rfl⟩ := h
    have hs := updateWeights_sameStore h3
    exact ⟨poswf_sameStore hs (poswf_save_explicit hwf rfl (Option.not_isSome_iff_eq_none.mp hnone)),
      sameStore_save_farms hs, rfl⟩
  · obtain ⟨lp, hlp, _, _, _, _, _, _, hnone, _, s3, h3, rfl, rfl⟩ := h
    have hs := updateWeights_sameStore h3
    exact ⟨poswf_sameStore hs (poswf_save_auto hwf rfl), (by have := sameStore_save_farms hs; exact this), rfl⟩
  · obtain ⟨lp, hlp, _, _, _, _, _, _, hnone, _, s3, h3, rfl, rfl⟩ := h
    have hs := updateWeights_sameStore h3
    exact ⟨poswf_sameStore hs (poswf_save_explicit hwf rfl (Option.not_isSome_iff_eq_none.mp hnone)),
      sameStore_save_farms hs, rfl⟩

theorem expandPosition_wf {s s' : FmState} {env : FmEnv} {sender : Addr} {funds : List Coin}
    {id2 : String} {r : Response} (hwf : PosWF s)
    (h : expandPosition s env sender funds id2 = .ok (s', r)) :
    PosWF s' ∧ s'.farms = s.farms ∧ r.msgs = [] := by
  unfold expandPosition at h
  cases hg : s.getPosition id2 with
  | none => rw [hg] at h; simp [error_bind] at h
  | some p2 =>
    have hid := (FH.getPosition_some hg).2
    rw [hg] at h
    simp only [bind_ok, error_bind, pure_bind', ite_error_ok, ckAdd_ok, pure_ok, Prod.mk.injEq] at h
    obtain ⟨c, hc, _, hden, hopen, hauth, a, ⟨_, rfl⟩, s2, h2, rfl, rfl⟩ := h
    have hs := updateWeights_sameStore h2
    refine ⟨poswf_sameStore hs (poswf_save_existing (q := p2) hwf ?_), sameStore_save_farms hs, rfl⟩
    show s.getPosition p2.id = some p2
    rw [hid]; exact hg

theorem closePosition_wf {s s' : FmState} {env : FmEnv} {sender : Addr} {funds : List Coin}
    {id2 : String} {lp : Option Coin} {r : Response} (hwf : PosWF s)
    (h : closePosition s env sender funds id2 lp = .ok (s', r)) :
    PosWF s' ∧ s'.farms = s.farms ∧ r.msgs = [] := by
  unfold closePosition at h
  cases hg : s.getPosition id2 with
  | none =>
    rw [hg] at h
    simp only [bind_ok, error_bind] at h
    obtain ⟨_, _, _, _, h⟩ := h
    split at h <;> simp at h
  | some p2 =>
    have hid := (FH.getPosition_some hg).2
    rw [hg] at h
    simp only [bind_ok, error_bind, pure_bind', ite_error_ok, fit_ok] at h
    obtain ⟨_, _, _, _, _, hauth, _, a, ⟨_, rfl⟩, b, ⟨_, rfl⟩, _, h⟩ := h
    have full : ∀ {q : Position} {R : Response}, R.msgs = [] →
        (updateWeights s env sender p2.lpDenom p2.amount p2.unlocking false >>= fun s2 =>
          reconcileUserState (s2.savePosition q) env sender p2.lpDenom >>= fun s4 =>
          pure (s4, R)) = Except.ok (s', r) → q.id = p2.id →
        PosWF s' ∧ s'.farms = s.farms ∧ r.msgs = [] := by
      intro q R hR h hq
      simp only [bind_ok, pure_ok, Prod.mk.injEq] at h
      obtain ⟨s2, h2, s4, h4, rfl, rfl⟩ := h
      have hs2 := updateWeights_sameStore h2
      have hs4 := reconcileUserState_sameStore h4
      refine ⟨poswf_sameStore hs4 (poswf_save_existing (q := p2) (poswf_sameStore hs2 hwf) ?_), ?_, hR⟩
      · rw [hs2.getPosition, hq, hid]; exact hg
      · rw [sameStore_save_farms hs4, hs2.2.1]
    cases lp with
    | none => exact full rfl h rfl
    | some c =>
      simp only [ite_error_ok] at h
      obtain ⟨_, h⟩ := h
      split at h
      · exact full rfl h rfl
      · simp only [ite_ok_error, ite_error_ok, bind_ok, pure_ok, Prod.mk.injEq] at h
        obtain ⟨_, _, s2, h2, s4, h4, rfl, rfl⟩ := h
        have hs2 := updateWeights_sameStore h2
        have hs4 := reconcileUserState_sameStore h4
        have hfr := hwf.fresh (s.posCounter + 1) (by omega)
        have hne : id2 ≠ C.AUTO_POSITION_ID_PREFIX ++ toString (s.posCounter + 1) := by
          intro e; rw [← e, hg] at hfr; cases hfr
        refine ⟨poswf_sameStore hs4 (poswf_save_existing (q := p2)
          (poswf_sameStore hs2 (poswf_save_auto hwf rfl)) ?_), ?_, rfl⟩
        · rw [hs2.getPosition]
          show (FmState.savePosition _ _).getPosition p2.id = some p2
          rw [getPosition_save_other _ _ (by rw [hid]; exact hne)]
          rw [hid]; exact hg
        · rw [sameStore_save_farms hs4, hs2.2.1, savePosition_farms]

theorem withdrawPosition_wf {s s' : FmState} {env : FmEnv} {sender : Addr} {funds : List Coin}
    {id2 : String} {em : Option Bool} {r : Response} (hwf : PosWF s)
    (h : withdrawPosition s env sender funds id2 em = .ok (s', r)) :
    PosWF s' ∧ s'.farms = s.farms ∧ AllSend r.msgs := by
  unfold withdrawPosition at h
  cases hg : s.getPosition id2 with
  | none => rw [hg] at h; simp [error_bind, bind_ok] at h
  | some p2 =>
    rw [hg] at h
    simp only [bind_ok, error_bind, pure_bind', ite_error_ok] at h
    obtain ⟨_, _, hauth, h⟩ := h
    have tail : ∀ (s1 s3 : FmState) (ms : List Msg) (amt : Nat), SameStore s s1 → Sends ms →
        SameStore (s1.removePosition id2) s3 →
        PosWF s3 ∧ s3.farms = s.farms ∧ AllSend (Response.ofMsgs (ms ++ if amt ≠ 0 then
                [Msg.bankSend p2.receiver [{ denom := p2.lpDenom, amount := amt }]] else [])
              [("action", "withdraw_position")]).msgs := by
      intro s1 s3 ms amt hs1 hms hs3
      have hrm : PosWF (s1.removePosition id2) := poswf_remove id2 (poswf_sameStore hs1 hwf)
      have hrf : (s1.removePosition id2).farms = s.farms := hs1.2.1
      exact ⟨poswf_sameStore hs3 hrm, by rw [hs3.2.1, hrf],
        allSend_ofMsgs _ (sends_append hms (sends_ite (sends_single _ _) sends_nil))⟩
    have hem : ∀ (sp : PenaltySplit) (active : List Farm), Sends ((if sp.nFarmOwners = 0 then []
            else List.map (fun o => Msg.bankSend o [{ denom := p2.lpDenom, amount := sp.perFarmOwner }])
                (uniqueOwners active)) ++
            if sp.feeCollector > 0 then
              [Msg.bankSend s.config.feeCollector [{ denom := p2.lpDenom, amount := sp.feeCollector }]]
            else []) := fun sp active =>
      sends_append (sends_ite sends_nil (sends_map _ _ fun o => ⟨_, _, rfl⟩))
          (sends_ite (sends_single _ _) sends_nil)
    split at h
    · simp only [bind_ok] at h
      obtain ⟨rate, _, cur, _, active, _, sp, _, h⟩ := h
      split at h
      · simp only [bind_ok, pure_ok, Prod.mk.injEq] at h
        obtain ⟨s1, h1, x, h3, rfl, rfl⟩ := h
        exact tail s1 _ _ _ (updateWeights_sameStore h1) (hem sp active) (reconcileUserState_sameStore h3)
      · simp only [bind_ok, pure_ok, Prod.mk.injEq] at h
        obtain ⟨rfl, rfl⟩ := h
        exact tail s _ _ _ (SameStore.refl s) (hem sp active) (SameStore.refl _)
    · simp only [ite_error_ok] at h
      obtain ⟨_, _, h⟩ := h
      split at h
      · simp only [bind_ok, pure_ok, Prod.mk.injEq] at h
        obtain ⟨x, h3, rfl, rfl⟩ := h
        exact tail s _ _ _ (SameStore.refl s) sends_nil (reconcileUserState_sameStore h3)
      · simp only [bind_ok, pure_ok, Prod.mk.injEq] at h
        obtain ⟨rfl, rfl⟩ := h
        exact tail s _ _ _ (SameStore.refl s) sends_nil (SameStore.refl _)


/-! ### all handlers -/

/-- the well-formedness carried along with the custody inequality -/
structure FmWF (s : FmState) : Prop where
  pos : PosWF s
  farmNodup : (s.farms.map (·.id)).Nodup
  claimedOk : ClaimedOk s

theorem conserves_of_same {s s' : FmState} {funds : List Coin} {r : Response}
    (hp : s'.positions = s.positions) (hf : s'.farms = s.farms) (hm : r.msgs = []) :
    Conserves s s' funds r := by
  apply conserves_of_eq hm
  intro d
  unfold liability
  rw [hp, hf]
  omega

theorem claimedOk_congr {s s' : FmState} (hf : s'.farms = s.farms) (h : ClaimedOk s) : ClaimedOk s' := by
  intro f hm; rw [hf] at hm; exact h f hm

theorem allSend_of_nil {l : List SubMsg} (h : l = []) : AllSend l := by rw [h]; exact allSend_nil

/-- every farm-manager message: the conservation law of C05, the well-formedness is kept, and only
    bank sends are emitted -/
theorem fmExecute_ok {s s' : FmState} {env : FmEnv} {sender : Addr} {funds : List Coin} {m : FmMsg}
    {r : Response} (hwf : FmWF s) (h : fmExecute s env sender funds m = .ok (s', r)) :
    FmWF s' ∧ Conserves s s' funds r ∧ AllSend r.msgs := by
  obtain ⟨hpos, hu, hc⟩ := hwf
  cases m with
  | createFarm p =>
    obtain ⟨h1, h2, h3, h4, h5⟩ := createFarm_wf hc hu h
    exact ⟨⟨poswf_congr h4.1 h4.2 hpos, h3, h2⟩, h1, h5⟩
  | expandFarm p =>
    obtain ⟨h1, h2⟩ := expand_farm_conserves hc hu h
    obtain ⟨h3, h4, h5⟩ := expandFarm_wf hu h
    exact ⟨⟨poswf_congr h4.1 h4.2 hpos, h3, h2⟩, h1, allSend_of_nil h5⟩
  | closeFarm id =>
    obtain ⟨h1, h2⟩ := close_farm_conserves hc hu h
    obtain ⟨h3, h4, h5⟩ := closeFarm_wf hu h
    exact ⟨⟨poswf_congr h4.1 h4.2 hpos, h3, h2⟩, h1, h5⟩
  | claim u =>
    obtain ⟨h1, h2⟩ := claim_conserves hc hu h
    obtain ⟨h3, h4, h5⟩ := fmClaim_wf hc hu h
    exact ⟨⟨poswf_congr h4.1 h4.2 hpos, h3, h2⟩, h1, h5⟩
  | createPosition id u rc =>
    obtain ⟨h3, h4, h5⟩ := createPosition_wf hpos h
    exact ⟨⟨h3, by rw [h4]; exact hu, claimedOk_congr h4 hc⟩, create_position_conserves h, allSend_of_nil h5⟩
  | expandPosition id =>
    obtain ⟨h3, h4, h5⟩ := expandPosition_wf hpos h
    exact ⟨⟨h3, by rw [h4]; exact hu, claimedOk_congr h4 hc⟩, expand_position_conserves hpos.nodup h,
      allSend_of_nil h5⟩
  | closePosition id lp =>
    obtain ⟨h3, h4, h5⟩ := closePosition_wf hpos h
    exact ⟨⟨h3, by rw [h4]; exact hu, claimedOk_congr h4 hc⟩,
      close_position_conserves hpos.nodup (hpos.fresh _ (by omega)) h, allSend_of_nil h5⟩
  | withdrawPosition id e =>
    obtain ⟨h3, h4, h5⟩ := withdrawPosition_wf hpos h
    exact ⟨⟨h3, by rw [h4]; exact hu, claimedOk_congr h4 hc⟩, withdraw_position_conserves hpos.nodup h, h5⟩
  | updateConfig u =>
    obtain ⟨h1, h2, h3, _⟩ := config_conserves (Or.inl ⟨u, rfl⟩) h
    have hpc : s'.posCounter = s.posCounter := by
      unfold fmExecute at h
      simp only [bind_ok] at h
      obtain ⟨_, _, h⟩ := h
      exact fmUpdateConfig_posCounter h
    exact ⟨⟨poswf_congr h1 hpc hpos, by rw [h2]; exact hu, claimedOk_congr h2 hc⟩,
      conserves_of_same h1 h2 h3, allSend_of_nil h3⟩
  | updateOwnership a =>
    obtain ⟨h1, h2, h3, _⟩ := config_conserves (Or.inr ⟨a, rfl⟩) h
    have hpc : s'.posCounter = s.posCounter := by
      unfold fmExecute at h
      simp only [bind_ok, pure_ok, Prod.mk.injEq] at h
      obtain ⟨_, _, o, _, rfl, _⟩ := h
      rfl
    exact ⟨⟨poswf_congr h1 hpc hpos, by rw [h2]; exact hu, claimedOk_congr h2 hc⟩,
      conserves_of_same h1 h2 h3, allSend_of_nil h3⟩

/-! ### the runtime: custody with a reserve for pending messages is preserved by `execMsg` / `execSubs` -/

/-- what the sub-messages still to be run by contract `c` may take out of the farm manager -/
def cst (c : Addr) (subs : List SubMsg) (d : Denom) : Nat := if c = FM then outflow subs d else 0
/-- what one message sent by `sender` may take out of the farm manager -/
def cost (sender : Addr) (m : Msg) (d : Denom) : Nat := if sender = FM then msgOut d m else 0

/-- custody with a reserve `P` for the not-yet-executed messages -/
def Cov (w : World) (P : Denom → Nat) : Prop := ∀ d, liability w.fm d + P d ≤ w.bank.bal FM d

theorem outflow_cons (sm : SubMsg) (rest : List SubMsg) (d : Denom) :
    outflow (sm :: rest) d = msgOut d sm.msg + outflow rest d := by
  simp only [outflow_eq, List.map_cons, List.sum_cons]

theorem cst_nil (c : Addr) (d : Denom) : cst c [] d = 0 := by
  unfold cst; split
  · exact outflow_nil d
  · rfl

theorem cst_cons (c : Addr) (sm : SubMsg) (rest : List SubMsg) (d : Denom) :
    cst c (sm :: rest) d = cost c sm.msg d + cst c rest d := by
  unfold cst cost; split
  · exact outflow_cons sm rest d
  · rfl

theorem exec_inv (fuel : Nat) :
    (∀ (w : World) (sender : Addr) (m : Msg) (w' : World) (P : Denom → Nat),
      execMsg fuel w sender m = .ok w' → FmWF w.fm → (sender = FM → IsSend m) →
      Cov w (fun d => P d + cost sender m d) → FmWF w'.fm ∧ Cov w' P) ∧
    (∀ (w : World) (c : Addr) (subs : List SubMsg) (w' : World) (P : Denom → Nat),
      execSubs fuel w c subs = .ok w' → FmWF w.fm → (c = FM → AllSend subs) →
      Cov w (fun d => P d + cst c subs d) → FmWF w'.fm ∧ Cov w' P) := by
  induction fuel with
  | zero =>
    constructor
    · intro w sender m w' P h; rw [execMsg] at h; cases h
    · intro w c subs w' P h; rw [execSubs] at h; cases h
  | succ fuel ih =>
    obtain ⟨ihM, ihS⟩ := ih
    constructor
    · intro w sender m w' P h hwf hsend hcov
      cases m with
      | bankSend to cs =>
        rw [execMsg] at h
        simp only [bind_ok, pure_ok] at h
        obtain ⟨b, hb, rfl⟩ := h
        refine ⟨hwf, fun d => ?_⟩
        have h1 := send_bal_ge hb FM d
        have h2 := hcov d
        simp only [cost, msgOut] at h2
        show liability w.fm d + P d ≤ b.bal FM d
        split at h1 <;> rename_i hs
        · rw [if_pos hs] at h2; omega
        · rw [if_neg hs] at h2; omega
      | bankBurn cs =>
        have hs : sender ≠ FM := by
          intro hs; obtain ⟨_, _, h⟩ := hsend hs; cases h
        rw [execMsg] at h
        simp only [bind_ok, pure_ok] at h
        obtain ⟨b, hb, rfl⟩ := h
        refine ⟨hwf, fun d => ?_⟩
        have h1 := burn_bal_ge hb FM d
        have h2 := hcov d
        simp only [cost] at h2
        rw [if_neg hs] at h1 h2
        show liability w.fm d + P d ≤ b.bal FM d
        omega
      | tfCreateDenom sub =>
        have hs : sender ≠ FM := by
          intro hs; obtain ⟨_, _, h⟩ := hsend hs; cases h
        rw [execMsg] at h
        simp only [bind_ok, pure_ok] at h
        obtain ⟨b, hb, rfl⟩ := h
        refine ⟨hwf, fun d => ?_⟩
        have h1 := burn_bal_ge hb FM d
        have h2 := hcov d
        simp only [cost] at h2
        rw [if_neg hs] at h1 h2
        show liability w.fm d + P d ≤ b.bal FM d
        omega
      | tfMint coin to =>
        have hs : sender ≠ FM := by
          intro hs; obtain ⟨_, _, h⟩ := hsend hs; cases h
        rw [execMsg] at h
        simp only [bind_ok, pure_ok] at h
        obtain ⟨b, hb, rfl⟩ := h
        refine ⟨hwf, fun d => ?_⟩
        have h1 := mint_bal_ge hb FM d
        have h2 := hcov d
        simp only [cost] at h2
        rw [if_neg hs] at h2
        show liability w.fm d + P d ≤ b.bal FM d
        omega
      | tfBurn coin =>
        have hs : sender ≠ FM := by
          intro hs; obtain ⟨_, _, h⟩ := hsend hs; cases h
        rw [execMsg] at h
        simp only [bind_ok, pure_ok] at h
        obtain ⟨b, hb, rfl⟩ := h
        refine ⟨hwf, fun d => ?_⟩
        have h1 := burn_bal_ge hb FM d
        have h2 := hcov d
        simp only [cost] at h2
        rw [if_neg hs] at h1 h2
        show liability w.fm d + P d ≤ b.bal FM d
        omega
      | wasmExec c msg funds =>
        have hs : sender ≠ FM := by
          intro hs; obtain ⟨_, _, h⟩ := hsend hs; cases h
        rw [execMsg] at h
        split at h
        · cases h
        -- the funds move first
        have hfunds : ∃ w1 : World, w1.fm = w.fm ∧
            (∀ d, w.bank.bal FM d + (if c = FM then coinsOf funds d else 0) ≤ w1.bank.bal FM d) ∧
            ∃ a, callExecute w1 c sender funds msg = .ok a ∧ execSubs fuel a.1 c a.2.msgs = .ok w' := by
          simp only at h
          split at h
          next hemp =>
            have : funds = [] := by simpa using hemp
            subst this
            simp only [bind_ok, pure_ok] at h
            obtain ⟨w1, rfl, h⟩ := h
            refine ⟨w1, rfl, fun d => ?_, h⟩
            rw [coinsOf_nil]; split <;> omega
          next =>
            simp only [bind_ok, pure_ok] at h
            obtain ⟨b, hb, w1, rfl, h⟩ := h
            exact ⟨{ w with bank := b }, rfl, fun d => send_bal_recv hb FM hs d, h⟩
        clear h
        obtain ⟨w1, hfm1, hbal1, ⟨w2, resp⟩, hcall, hx⟩ := hfunds
        simp only at hx
        obtain ⟨hbank2, hcase⟩ := callExecute_inv hcall
        rcases hcase with ⟨hfm2, hc⟩ | ⟨hc, fm, rfl, hexec⟩
        · apply ihS w2 c resp.msgs w' P hx (by rw [hfm2, hfm1]; exact hwf) (fun e => absurd e hc)
          intro d
          have h2 := hcov d
          have h3 := hbal1 d
          simp only [cost, cst] at h2 ⊢
          rw [if_neg hs] at h2
          rw [if_neg hc] at h3 ⊢
          rw [hfm2, hfm1, hbank2]
          omega
        · rw [hfm1] at hexec
          obtain ⟨hwf2, hcons, hall⟩ := fmExecute_ok hwf hexec
          apply ihS w2 c resp.msgs w' P hx hwf2 (fun _ => hall)
          intro d
          have h2 := hcov d
          have h3 := hbal1 d
          have h4 := hcons d
          simp only [cost, cst] at h2 ⊢
          rw [if_neg hs] at h2
          rw [if_pos hc] at h3 ⊢
          rw [hbank2]
          omega
    · intro w c subs w' P h hwf hall hcov
      cases subs with
      | nil =>
        rw [execSubs] at h
        cases h
        refine ⟨hwf, fun d => ?_⟩
        have := hcov d
        simp only [cst_nil] at this
        omega
      | cons sm rest =>
        rw [execSubs] at h
        have hall' : c = FM → AllSend rest := fun e sm' hm => hall e sm' (List.mem_cons_of_mem _ hm)
        -- continuation after the reply handler
        have cont : ∀ (wa : World), FmWF wa.fm → Cov wa (fun d => P d + cst c rest d) →
            (do let __x ← callReply wa c sm.id
                match __x with
                  | (w'', resp) => do
                    let w3 ← execSubs fuel w'' c resp.msgs
                    execSubs fuel w3 c rest) = .ok w' → FmWF w'.fm ∧ Cov w' P := by
          intro wa hwa hca h
          simp only [bind_ok] at h
          obtain ⟨⟨w'', resp⟩, hrep, w3, h3, h⟩ := h
          obtain ⟨r1, r2, r3⟩ := callReply_inv hrep
          have hc'' : Cov w'' (fun d => (P d + cst c rest d) + cst c resp.msgs d) := by
            intro d
            have := hca d
            have h0 : cst c resp.msgs d = 0 := by
              unfold cst; split
              · rename_i e; rw [r3 e]; exact outflow_nil d
              · rfl
            show liability w''.fm d + ((P d + cst c rest d) + cst c resp.msgs d) ≤ w''.bank.bal FM d
            rw [r1, r2, h0]; simp only at this; omega
          obtain ⟨hw3, hc3⟩ := ihS w'' c resp.msgs w3 _ h3 (by rw [r2]; exact hwa)
            (fun e => by rw [r3 e]; intro _ hm; cases hm) hc''
          exact ihS w3 c rest w' P h hw3 hall' hc3
        split at h
        next w1 hm =>
          have hc1 : Cov w (fun d => (P d + cst c rest d) + cost c sm.msg d) := by
            intro d
            have := hcov d
            simp only [cst_cons] at this ⊢
            omega
          obtain ⟨hw1, hcv1⟩ := ihM w c sm.msg w1 _ hm hwf
            (fun e => hall e sm (List.mem_cons_self)) hc1
          split at h
          · exact cont w1 hw1 hcv1 h
          · exact ihS w1 c rest w' P h hw1 hall' hcv1
        next e hm =>
          split at h
          · dsimp only at h
            refine cont _ ?_ ?_ h
            · exact hwf
            intro d
            show liability w.fm d + (P d + cst c rest d) ≤ w.bank.bal FM d
            have := hcov d
            simp only [cst_cons] at this ⊢
            omega
          · cases h


end MantraDex.FmSys
