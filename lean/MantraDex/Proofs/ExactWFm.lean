/-
  C10Eq, part 2: every farm-manager handler preserves the exactness predicate `ExactF`, provided positions are
  kept whole (`WholeFm`: no `expand_position`, a `close_position` names no amount or the whole amount).
-/
import MantraDex.Proofs.ExactWBase

set_option linter.unusedSimpArgs false
set_option linter.unusedVariables false

namespace MantraDex.ExactW
open MantraDex MantraDex.WSys

/-! ### `create_position` -/

theorem create_core_exact {s s1 s3 : FmState} {env : FmEnv} {recv : Addr} {p : Position} {lpd : Denom}
    {amt u : Nat} (hw : updateWeights (s1.savePosition p) env recv lpd amt u true = .ok s3)
    (hi : FInv s env) (hx : ExactF s env.self) (h1 : s1.positions = s.positions) (h2 : s1.hist = s.hist)
    (h3 : s1.config = s.config)
    (hnone : ¬ (s1.getPosition p.id).isSome = true)
    (hlim : ¬ (s1.positionsBy recv true).length ≥ C.MAX_POSITIONS_LIMIT) (hrecv : recv ≠ env.self)
    (hp : p.receiver = recv ∧ p.lpDenom = lpd ∧ p.open_ = true)
    (hp2 : p.amount = amt ∧ p.unlocking = u ∧ p.expiringAt = none) :
    ExactF s3 env.self := by
  have hi1 : FInv s1 env := finv_of_eq h2 h1 (by rw [h3]) hi
  have hnone' := getPosition_none_of_not_isSome hnone
  have hi2 : FInv (s1.savePosition p) env :=
    finv_save_new hi1 hnone' (by rw [hp.1]; exact hrecv) (fun _ => by rw [hp.1]; exact positionsBy_lt hlim)
  obtain ⟨w, hcw, hT, hU⟩ := uw_fill hi2.hist hrecv hw
  have hpw : posW p = w := by unfold posW; rw [hp2.1, hp2.2.1, hcw]
  have hperm : s3.positions.Perm (p :: s.positions) := by
    rw [(updateWeights_sameStore hw).1, ← h1]
    exact FH.savePosition_perm_new hnone'
  have hh : (s1.savePosition p).hist = s.hist := by rw [savePosition_hist, h2]
  refine ⟨?_, ?_, ?_⟩
  · intro lp'
    rw [hT lp', hh, hx.total lp', S_perm _ hperm, S_cons, inLp_eq hp.2.2, hp.2.1]
    by_cases hl : lp' = lpd
    · simp [hl, hpw]; omega
    · simp [hl]
  · intro a lp' ha
    rw [hU a lp' ha, hh, hx.user a lp' ha, S_perm _ hperm, S_cons, ofU_eq hp.2.2, hp.2.1, hp.1]
    by_cases hl : a = recv ∧ lp' = lpd
    · simp [hl, hpw]; omega
    · simp [hl]
  · intro q hq ho
    rcases List.mem_cons.1 (hperm.mem_iff.1 hq) with rfl | hq
    · exact hp2.2.2
    · exact hx.noExp q hq ho

theorem createPosition_exact {s s' : FmState} {env : FmEnv} {sender : Addr} {funds : List Coin}
    {id : Option String} {u : Nat} {recv : Option Addr} {r : Response} (hi : FInv s env)
    (hx : ExactF s env.self) (hs : sender ≠ env.self)
    (hrecv : ∀ rc, recv = some rc → sender = s.config.poolManager → rc ≠ env.self)
    (h : createPosition s env sender funds id u recv = .ok (s', r)) : ExactF s' env.self := by
  unfold createPosition at h
  cases recv <;> cases id <;>
    simp only [bind_ok, error_bind, pure_bind', ite_error_ok, pure_ok, Prod.mk.injEq] at h
  · obtain ⟨lp, hlp, _, _, _, _, hnone, hlim, s3, h3, rfl, rfl⟩ := h
    exact create_core_exact h3 hi hx rfl rfl rfl hnone hlim hs ⟨rfl, rfl, rfl⟩ ⟨rfl, rfl, rfl⟩
  · obtain ⟨lp, hlp, _, _, _, _, hnone, hlim, s3, h3, rfl, rfl⟩ := h
    exact create_core_exact h3 hi hx rfl rfl rfl hnone hlim hs ⟨rfl, rfl, rfl⟩ ⟨rfl, rfl, rfl⟩
  · rename_i rc
    obtain ⟨lp, hlp, _, _, _, hauth, _, _, hnone, hlim, s3, h3, rfl, rfl⟩ := h
    have hrc : rc ≠ env.self := by
      simp only [Bool.not_eq_true', Bool.or_eq_false_iff, beq_eq_false_iff_ne, ne_eq, not_and,
        Decidable.not_not] at hauth
      by_cases hpm : sender = s.config.poolManager
      · exact hrecv rc rfl hpm
      · rw [← hauth hpm]; exact hs
    exact create_core_exact h3 hi hx rfl rfl rfl hnone hlim hrc ⟨rfl, rfl, rfl⟩ ⟨rfl, rfl, rfl⟩
  · rename_i rc _
    obtain ⟨lp, hlp, _, _, _, hauth, _, _, hnone, hlim, s3, h3, rfl, rfl⟩ := h
    have hrc : rc ≠ env.self := by
      simp only [Bool.not_eq_true', Bool.or_eq_false_iff, beq_eq_false_iff_ne, ne_eq, not_and,
        Decidable.not_not] at hauth
      by_cases hpm : sender = s.config.poolManager
      · exact hrecv rc rfl hpm
      · rw [← hauth hpm]; exact hs
    exact create_core_exact h3 hi hx rfl rfl rfl hnone hlim hrc ⟨rfl, rfl, rfl⟩ ⟨rfl, rfl, rfl⟩

/-! ### an open position's weight is part of what its receiver holds -/

theorem posW_le_user {s : FmState} {me : Addr} {p : Position} (hx : ExactF s me)
    (hn : (s.positions.map (·.id)).Nodup) (hp : p ∈ s.positions) (ho : p.open_ = true)
    (hr : p.receiver ≠ me) : posW p ≤ latestWeight (s.hist p.receiver p.lpDenom) := by
  have hold := FH.perm_cons_filter_key Position.id s.positions p hn hp
  rw [hx.user _ _ hr, S_perm _ hold, S_cons_true]
  · omega
  · rw [ofU_eq ho]; simp

/-! ### removing the weight of a whole open position -/

/-- after `update_weights(…, fill = false)` with the whole amount of the open position `p`, and any change of
    the position list that removes `p` and adds only closed positions, the state is exact -/
theorem close_core_exact {s1 s2 s3 : FmState} {env : FmEnv} {sender : Addr} {p : Position}
    {extra : List Position}
    (hw : updateWeights s1 env sender p.lpDenom p.amount p.unlocking false = .ok s2)
    (hi : FInv s1 env) (hx : ExactF s1 env.self) (hs : sender ≠ env.self) (hp : p ∈ s1.positions)
    (hrecv : p.receiver = sender) (hopen : p.open_ = true)
    (hh : s3.hist = s2.hist)
    (hperm : s3.positions.Perm (extra ++ s1.positions.filter (·.id != p.id)))
    (hcl : ∀ q ∈ extra, q.open_ = false) : ExactF s3 env.self := by
  have hn := hi.pos.posNodup
  have hold := FH.perm_cons_filter_key Position.id s1.positions p hn hp
  obtain ⟨w, hcw, himp⟩ := uw_close hi.hist hs hw
  have hpw : posW p = w := by unfold posW; rw [hcw]
  have hle : w ≤ latestWeight (s1.hist sender p.lpDenom) := by
    have := posW_le_user hx hn hp hopen (by rw [hrecv]; exact hs)
    rw [hrecv, hpw] at this; exact this
  obtain ⟨hT, hU⟩ := himp hle
  have hextra : ∀ (q : Position → Bool), (∀ x, x.open_ = false → q x = false) →
      S q s3.positions = S q (s1.positions.filter (·.id != p.id)) := by
    intro q hq
    rw [S_perm q hperm]
    unfold S
    rw [List.filter_append, sumW_append]
    have : extra.filter q = [] := by
      rw [List.filter_eq_nil_iff]
      intro x hx' hqx
      rw [hq x (hcl x hx')] at hqx
      cases hqx
    rw [this, sumW_nil, Nat.zero_add]
  refine ⟨?_, ?_, ?_⟩
  · intro lp'
    rw [hh, hT lp', hx.total lp', S_perm _ hold, S_cons, inLp_eq hopen,
      hextra _ (fun x hx' => inLp_closed hx')]
    by_cases hl : lp' = p.lpDenom
    · simp [hl, hpw]
    · simp [hl]
  · intro a lp' ha
    rw [hh, hU a lp' ha, hx.user a lp' ha, S_perm _ hold, S_cons, ofU_eq hopen, hrecv,
      hextra _ (fun x hx' => ofU_closed hx')]
    by_cases hl : a = sender ∧ lp' = p.lpDenom
    · simp [hl, hpw]
    · simp [hl]
  · intro q hq ho
    rcases List.mem_append.1 (hperm.mem_iff.1 hq) with hq | hq
    · rw [hcl q hq] at ho; cases ho
    · exact hx.noExp q (List.mem_filter.1 hq).1 ho

/-! ### `close_position` in full -/

theorem close_tail_exact {s1 s2 s4 : FmState} {env : FmEnv} {sender : Addr} {p p' : Position}
    (hw : updateWeights s1 env sender p.lpDenom p.amount p.unlocking false = .ok s2)
    (hrec : reconcileUserState (s2.savePosition p') env sender p.lpDenom = .ok s4)
    (hi : FInv s1 env) (hx : ExactF s1 env.self) (hs : sender ≠ env.self) (hp : p ∈ s1.positions)
    (hrecv : p.receiver = sender) (hopen : p.open_ = true) (hid : p'.id = p.id)
    (hrc : p'.receiver = p.receiver) (hlp : p'.lpDenom = p.lpDenom) (hcl : p'.open_ = false) :
    ExactF s4 env.self := by
  have hst := updateWeights_sameStore hw
  have hi2 : FInv s2 env := uw_inv hi (fun _ => hs) ⟨p, hp, hrecv, rfl, hopen⟩ hw
  have hp2 : p ∈ s2.positions := by rw [hst.1]; exact hp
  obtain ⟨_, hpi, _⟩ := save_replace_inv (p0 := p) (p := p') hi2 hp2 hid hrc hlp
    (fun h => by rw [hcl] at h; cases h)
  have hperm := FH.savePosition_perm_replace (p := p') hi2.pos.posNodup hp2 hid
  rw [hst.1] at hperm
  have hx3 : ExactF (s2.savePosition p') env.self :=
    close_core_exact (extra := [p']) hw hi hx hs hp hrecv hopen (savePosition_hist _ _) hperm
      (by intro q hq; simp only [List.mem_singleton] at hq; subst hq; exact hcl)
  exact reconcile_exact hx3 hpi hs hrec

/-- positions kept whole: no top-up, and a close names no amount or the whole amount of the position -/
def WholeFm (s : FmState) : FmMsg → Prop
  | .expandPosition _ => False
  | .closePosition id lp => lp = none ∨ ∃ p, s.getPosition id = some p ∧ lp = some ⟨p.lpDenom, p.amount⟩
  | _ => True

theorem closePosition_exact {s s' : FmState} {env : FmEnv} {sender : Addr} {funds : List Coin}
    {id2 : String} {lp : Option Coin} {r : Response} (hi : FInv s env) (hx : ExactF s env.self)
    (hs : sender ≠ env.self) (hwh : WholeFm s (.closePosition id2 lp))
    (h : closePosition s env sender funds id2 lp = .ok (s', r)) : ExactF s' env.self := by
  unfold closePosition at h
  cases hg : s.getPosition id2 with
  | none =>
    rw [hg] at h
    simp only [bind_ok, error_bind] at h
    obtain ⟨_, _, _, _, h⟩ := h
    split at h <;> simp at h
  | some p2 =>
    obtain ⟨hmem, hid⟩ := FH.getPosition_some hg
    rw [hg] at h
    simp only [bind_ok, error_bind, pure_bind', ite_error_ok, fit_ok] at h
    obtain ⟨_, _, _, _, _, hauth, hopen, a, ⟨_, rfl⟩, b, ⟨_, rfl⟩, _, h⟩ := h
    have hrecv : p2.receiver = sender := by simpa using hauth
    have hopen' : p2.open_ = true := by simpa using hopen
    have full : ∀ {q : Position} {R : Response},
        (updateWeights s env sender p2.lpDenom p2.amount p2.unlocking false >>= fun s2 =>
          reconcileUserState (s2.savePosition q) env sender p2.lpDenom >>= fun s4 =>
          pure (s4, R)) = Except.ok (s', r) → q.id = p2.id → q.receiver = p2.receiver →
          q.lpDenom = p2.lpDenom → q.open_ = false → ExactF s' env.self := by
      intro q R h hq1 hq2 hq3 hq4
      simp only [bind_ok, pure_ok, Prod.mk.injEq] at h
      obtain ⟨s2, h2, s4, h4, rfl, rfl⟩ := h
      exact close_tail_exact h2 h4 hi hx hs hmem hrecv hopen' hq1 hq2 hq3 hq4
    cases lp with
    | none => exact full h rfl rfl rfl rfl
    | some c =>
      simp only [ite_error_ok] at h
      obtain ⟨_, h⟩ := h
      split at h
      · exact full h rfl rfl rfl rfl
      · rename_i hne
        rcases hwh with hw | ⟨p, hgp, hw⟩
        · cases hw
        · rw [hg] at hgp
          cases hgp
          cases hw
          exact absurd rfl hne

/-! ### `withdraw_position` -/

theorem withdrawPosition_exact {s s' : FmState} {env : FmEnv} {sender : Addr} {funds : List Coin}
    {id2 : String} {em : Option Bool} {r : Response} (hi : FInv s env) (hx : ExactF s env.self)
    (hs : sender ≠ env.self)
    (h : withdrawPosition s env sender funds id2 em = .ok (s', r)) : ExactF s' env.self := by
  unfold withdrawPosition at h
  cases hg : s.getPosition id2 with
  | none => rw [hg] at h; simp [error_bind, bind_ok] at h
  | some p2 =>
    obtain ⟨hmem, hid⟩ := FH.getPosition_some hg
    subst hid
    rw [hg] at h
    simp only [bind_ok, error_bind, pure_bind', ite_error_ok] at h
    obtain ⟨_, _, hauth, h⟩ := h
    have hrecv : p2.receiver = sender := by simpa using hauth
    have hn := hi.pos.posNodup
    have hold := FH.perm_cons_filter_key Position.id s.positions p2 hn hmem
    have tailClosed : p2.open_ = false → ExactF (s.removePosition p2.id) env.self := by
      intro hcl
      refine ⟨?_, ?_, ?_⟩
      · intro lp'
        show latestWeight (s.hist env.self lp') = S (inLp lp') (s.positions.filter (·.id != p2.id))
        rw [hx.total lp', S_perm _ hold, S_cons_false _ _ (inLp_closed hcl)]
      · intro a lp' ha
        show latestWeight (s.hist a lp') = S (ofU a lp') (s.positions.filter (·.id != p2.id))
        rw [hx.user a lp' ha, S_perm _ hold, S_cons_false _ _ (ofU_closed hcl)]
      · intro q hq ho
        exact hx.noExp q (List.mem_filter.1 hq).1 ho
    split at h
    · simp only [bind_ok] at h
      obtain ⟨rate, _, cur, _, active, _, sp, _, h⟩ := h
      split at h
      next hopen =>
        simp only [bind_ok, pure_ok, Prod.mk.injEq] at h
        obtain ⟨s1, h1, x, h3, rfl, rfl⟩ := h
        have hst := updateWeights_sameStore h1
        have hi1 : FInv s1 env := uw_inv hi (fun _ => hs) ⟨p2, hmem, hrecv, rfl, hopen⟩ h1
        obtain ⟨_, hpi, _, _⟩ := remove_inv (p0 := p2) hi1 (by rw [hst.1]; exact hmem)
        have hx3 : ExactF (s1.removePosition p2.id) env.self :=
          close_core_exact (extra := []) h1 hi hx hs hmem hrecv hopen rfl
            (by show (s1.positions.filter (·.id != p2.id)).Perm _
                rw [hst.1]; exact List.Perm.refl _)
            (by intro q hq; cases hq)
        exact reconcile_exact hx3 hpi hs h3
      next hopen =>
        simp only [bind_ok, pure_ok, Prod.mk.injEq] at h
        obtain ⟨rfl, rfl⟩ := h
        exact tailClosed (by simpa using hopen)
    · simp only [ite_error_ok] at h
      obtain ⟨hexp, _, h⟩ := h
      split at h
      next hopen =>
        -- an open position has no expiry, so the ordinary withdrawal is refused
        have := hx.noExp p2 hmem hopen
        rw [this] at hexp
        simp at hexp
      next hopen =>
        simp only [bind_ok, pure_ok, Prod.mk.injEq] at h
        obtain ⟨rfl, rfl⟩ := h
        exact tailClosed (by simpa using hopen)

/-! ### `claim` -/

theorem claimStep_exact {env : FmEnv} {sender : Addr} {untilE cur : Nat} {st st' : FmState × List Coin}
    {lp : Denom} (hi : FInv st.1 env) (hx : ExactF st.1 env.self) (hs : sender ≠ env.self)
    (hcur : fmCurrentEpoch st.1 env = .ok cur)
    (hep : untilE ≤ cur) (h : Farm.claimStep env sender untilE st lp = .ok st') :
    ExactF st'.1 env.self := by
  unfold Farm.claimStep at h
  simp only [bind_ok, pure_ok] at h
  obtain ⟨rc, hrc, s1, h1, s2, h2, rfl⟩ := h
  have hf1 : Frame st.1 s1 := by
    refine foldlM_inv (fun (x : FmState) => Frame st.1 x) _ ?_ _ _ _ (Frame.refl _) h1
    intro b m b' hb hm
    simp only [bind_ok, error_bind, ite_error_ok, pure_ok, ckAdd_ok] at hm
    obtain ⟨f, _, c, _, _, rfl⟩ := hm
    exact hb.trans (frame_saveFarm _ _)
  have hcur1 : fmCurrentEpoch s1 env = .ok cur := by
    rw [fmCurrentEpoch_congr (s := st.1) (s' := s1) env (by rw [hf1.config])]; exact hcur
  exact sync_exact (Frame.exactF hf1 hx) (hf1.finv hi).hist hs hcur1 hep h2

theorem fmClaim_exact {s s' : FmState} {env : FmEnv} {sender : Addr} {funds : List Coin}
    {u : Option Nat} {r : Response} (hi : FInv s env) (hx : ExactF s env.self) (hs : sender ≠ env.self)
    (h : fmClaim s env sender funds u = .ok (s', r)) : ExactF s' env.self := by
  obtain ⟨cur, untilE, sF, total, msgs, _, hop, hcur, hun, hfold, rfl, _, _⟩ := Farm.fmClaim_ok h
  obtain ⟨hle, _⟩ := Farm.untilEpochOrCurrent_ok hun
  have key := foldlM_inv
    (fun (st : FmState × List Coin) => FInv st.1 env ∧ ExactF st.1 env.self ∧ st.1.config = s.config) _
    (fun st lp st' hst hstep => by
      obtain ⟨h1, h2, h3⟩ := hst
      have hc : fmCurrentEpoch st.1 env = .ok cur := by
        rw [fmCurrentEpoch_congr (s := s) (s' := st.1) env (by rw [h3])]; exact hcur
      obtain ⟨k1, k2, _, _⟩ := claimStep_inv h1 hs hc hle hstep
      exact ⟨k1, claimStep_exact h1 h2 hs hc hle hstep, k2.trans h3⟩) _ _ _ ⟨hi, hx, rfl⟩ hfold
  exact exactF_of_eq (s := sF) rfl rfl key.2.1

/-! ### all handlers -/

theorem fmExecute_exact {s s' : FmState} {env : FmEnv} {sender : Addr} {funds : List Coin} {m : FmMsg}
    {r : Response} (hi : FInv s env) (hx : ExactF s env.self) (hs : sender ≠ env.self)
    (hok : FmCallOk env.self s sender m) (hwh : WholeFm s m)
    (h : fmExecute s env sender funds m = .ok (s', r)) : ExactF s' env.self := by
  cases m with
  | createFarm p => exact Frame.exactF (createFarm_frame h) hx
  | expandFarm p => exact Frame.exactF (expandFarm_keeps _ _ h) hx
  | closeFarm id => exact Frame.exactF (closeFarm_keeps _ _ h) hx
  | claim u => exact fmClaim_exact hi hx hs h
  | createPosition id u rc =>
    exact createPosition_exact hi hx hs (by
      intro rc' hrc hpm
      subst hrc
      exact hok hpm) h
  | expandPosition id => exact False.elim hwh
  | closePosition id lp => exact closePosition_exact hi hx hs hwh h
  | withdrawPosition id e => exact withdrawPosition_exact hi hx hs h
  | updateConfig u =>
    unfold fmExecute at h
    simp only [bind_ok] at h
    obtain ⟨_, _, h⟩ := h
    obtain ⟨h1, h2, _, _⟩ := fmUpdateConfig_frame' h
    exact exactF_of_eq h1 h2 hx
  | updateOwnership a =>
    unfold fmExecute at h
    simp only [bind_ok, pure_ok, Prod.mk.injEq] at h
    obtain ⟨_, _, o, _, rfl, _⟩ := h
    exact exactF_of_eq (s := s) rfl rfl hx

end MantraDex.ExactW
