/-
  Helper for `Properties/NonVacuity.lean` (`hist_effective`): a kernel-evaluable twin of `step`.

  The kernel cannot evaluate `String.splitOn` (defined by well-founded recursion, `String.splitOnAux`), which the model
  uses in `splitFactoryDenom` (`isFactoryToken`, `validateLpDenom`).  Everything else the concrete history touches
  reduces in the kernel.  So:

  * `splitOnAuxF` is `String.splitOnAux` with an explicit fuel (structural recursion, kernel-evaluable); when it
    answers, it answers what `splitOnAux` answers (`splitOnAuxF_sound`);
  * `splitFactoryDenomK` uses `splitOnAuxF` (fuel = byte size + 1) and falls back to the original when the fuel runs
    out; `splitFactoryDenomK = splitFactoryDenom` for EVERY argument (`splitFactoryDenomK_eq`);
  * the definitions `…K` below are verbatim copies of the model's definitions on the call path
    `splitFactoryDenom → … → step / ledger` with the callee replaced by its twin, each proved EQUAL to the original
    (`stepK_eq : @stepK = @step`, `ledgerK_eq`).  They are proof devices only: a statement about `step` is rewritten
    to the same statement about `stepK`, which `decide +kernel` evaluates.
-/
import MantraDex.Model.System
import MantraDex.Properties.C06Sys

set_option linter.unusedSimpArgs false
set_option linter.unusedVariables false

namespace MantraDex.NonVac
open MantraDex MantraDex.C06Sys

/-! ### `String.splitOnAux` with fuel -/

def splitOnAuxF : Nat → String → String → String.Pos.Raw → String.Pos.Raw → String.Pos.Raw → List String →
    Option (List String)
  | 0, _, _, _, _, _, _ => none
  | n + 1, s, sep, b, i, j, r =>
    if i.atEnd s then
      some ((b.extract s i) :: r).reverse
    else
      if i.get s == j.get sep then
        if (j.next sep).atEnd sep then
          splitOnAuxF n s sep (i.next s) (i.next s) 0 (b.extract s ((i.next s).unoffsetBy (j.next sep)) :: r)
        else
          splitOnAuxF n s sep b (i.next s) (j.next sep) r
      else
        splitOnAuxF n s sep b ((i.unoffsetBy j).next s) 0 r

theorem splitOnAuxF_sound : ∀ (n : Nat) (s sep : String) (b i j : String.Pos.Raw) (r res : List String),
    splitOnAuxF n s sep b i j r = some res → String.splitOnAux s sep b i j r = res := by
  intro n
  induction n with
  | zero => intro s sep b i j r res h; simp [splitOnAuxF] at h
  | succ n ih =>
    intro s sep b i j r res h
    rw [String.splitOnAux]
    unfold splitOnAuxF at h
    split at h
    · rename_i h1
      simp only [h1, if_true]
      exact Option.some.inj h
    · rename_i h1
      simp only [h1, if_false, Bool.false_eq_true]
      split at h
      · rename_i h2
        simp only [h2, if_true]
        split at h
        · rename_i h3
          simp only [h3, if_true]
          exact ih _ _ _ _ _ _ _ h
        · rename_i h3
          simp only [h3, if_false, Bool.false_eq_true]
          exact ih _ _ _ _ _ _ _ h
      · rename_i h2
        simp only [h2, if_false, Bool.false_eq_true]
        exact ih _ _ _ _ _ _ _ h

/-- `denom.splitOn "/"`, evaluated with fuel when the fuel suffices -/
def splitSlashK (denom : String) : List String :=
  match splitOnAuxF (denom.utf8ByteSize + 1) denom "/" 0 0 0 [] with
  | some l => l
  | none => denom.splitOn "/"

theorem splitSlashK_eq (denom : String) : splitSlashK denom = denom.splitOn "/" := by
  unfold splitSlashK
  split
  · rename_i l h
    have := splitOnAuxF_sound _ _ _ _ _ _ _ _ h
    unfold String.splitOn
    rw [if_neg (by decide), this]
  · rfl

def splitFactoryDenomK (denom : String) : Option (String × String) :=
  match splitSlashK denom with
  | pfx :: creator :: rest =>
    if pfx == "factory" && !rest.isEmpty then some (creator, "/".intercalate rest) else none
  | _ => none

theorem splitFactoryDenomK_eq : splitFactoryDenomK = splitFactoryDenom := by
  funext d
  unfold splitFactoryDenomK splitFactoryDenom
  rw [splitSlashK_eq]
  rfl

def isFactoryTokenK (denom : String) : Bool :=
  match splitFactoryDenomK denom with
  | some (c, s) => isFactoryTokenParts c s
  | none => false

theorem isFactoryTokenK_eq : isFactoryTokenK = isFactoryToken := by
  funext d
  unfold isFactoryTokenK isFactoryToken
  rw [splitFactoryDenomK_eq]
  rfl

def validateLpDenomK (lp : Denom) (pm : Addr) : Bool :=
  match splitFactoryDenomK lp with
  | some (c, sub) => isFactoryTokenParts c sub && c == pm
  | none => false

theorem validateLpDenomK_eq : validateLpDenomK = validateLpDenom := by
  funext lp pm
  unfold validateLpDenomK validateLpDenom
  rw [splitFactoryDenomK_eq]
  rfl

/-! ### verbatim copies of the call path (callee replaced by its twin) -/

def provideLiquidityK (s : PmState) (env : PmEnv) (sender : Addr) (funds : List Coin)
    (liqSlip swapSlip : Option Nat) (receiver : Option Addr) (poolId : String)
    (unlocking : Option Nat) (lockId : Option String) : R (PmState × Response) := do
  let pool ← s.getPool poolId
  if !pool.status.deposits then .error .disabled
  let poolAssets := pool.assets
  let deposits ← aggregateCoins funds
  if deposits.isEmpty then .error .invalidInput
  if !(deposits.all fun a => poolAssets.any (·.denom == a.denom)) then .error .mismatch
  let recv := addrOrDefault env receiver sender
  if deposits.length = 1 then
    if unlocking.isSome && recv != sender then .error .unauthorized
    if poolAssets.any (·.amount == 0) then .error .invalidInput
    if poolAssets.length != 2 then .error .invalidInput
    let deposit ← getD? deposits 0
    let askDenom ← match poolAssets.find? (·.denom != deposit.denom) with
      | some c => pure c.denom | none => .error .mismatch
    let half : Coin := ⟨deposit.denom, deposit.amount / 2⟩
    let sim ← computeSwap pool half askDenom
    let expOffer : Coin := ⟨deposit.denom, env.bal env.self deposit.denom⟩
    let outgoing ← ckAdd U128_MAX sim.protocolFee sim.burnFee
    let expAsk : Coin := ⟨askDenom, env.bal env.self askDenom - outgoing⟩
    if expAsk.amount = 0 then .error .slippage
    let buf : SingleSideBuffer := {
      receiver := recv, expOffer := expOffer, expAsk := expAsk, offerHalf := half,
      expectedAsk := ⟨askDenom, sim.ret⟩, swapSlip := swapSlip, liqSlip := liqSlip, poolId := poolId,
      unlocking := unlocking, lockId := lockId }
    pure ({ s with buffer := some buf },
      { msgs := [{ msg := .wasmExec env.self (.pm (.swap askDenom none swapSlip none poolId)) [half],
                   replyOn := .success, id := C.SINGLE_SIDE_REPLY_ID }],
        attrs := [("action", "single_side_liquidity_provision")] })
  else
    let lp := pool.lpDenom
    if !isFactoryTokenK lp then .error .other
    let totalShares := env.supply lp
    let (shares, msgs0) ← match pool.ptype with
      | .cp => cpShares env.self lp deposits poolAssets totalShares
      | .stable amp => do
        let msgs0 ← if totalShares = 0 then do
            if !(poolAssets.length == deposits.length &&
                 deposits.all fun a => poolAssets.any fun pa => pa.denom == a.denom && a.amount > 0)
              then .error .mismatch
            let minD ← match listMin pool.decimals with | some m => pure m | none => .error .panic
            let maxD ← match listMax pool.decimals with | some m => pure m | none => .error .panic
            let ml ← minLiquidityStable minD maxD
            pure [Msg.tfMint ⟨lp, ml⟩ env.self]
          else pure []
        let newAssets ← addCoins poolAssets deposits
        let shares ← computeLpMintStable amp poolAssets newAssets totalShares pool
        pure (shares, msgs0)
    let poolAssets' ← assertSlippageTolerance liqSlip deposits poolAssets pool.ptype
    let msgs1 ← match unlocking with
      | some u => do
        if !(recv == sender || sender == env.self) then .error .unauthorized
        let mintSelf : Msg := .tfMint ⟨lp, shares⟩ env.self
        let lockMsg ← match lockId with
          | some pid =>
            match env.fmPosition pid with
            | some (id, r) =>
              if !(id == pid && r == recv) then .error .unauthorized
              else pure (Msg.wasmExec s.config.farmManager (.fm (.expandPosition pid)) [⟨lp, shares⟩])
            | none =>
              pure (Msg.wasmExec s.config.farmManager (.fm (.createPosition (some pid) u (some recv))) [⟨lp, shares⟩])
          | none =>
            pure (Msg.wasmExec s.config.farmManager (.fm (.createPosition none u (some recv))) [⟨lp, shares⟩])
        pure [mintSelf, lockMsg]
      | none =>
        if !env.validAddr recv then .error .invalidInput
        else pure [Msg.tfMint ⟨lp, shares⟩ recv]
    let assets' ← deposits.foldlM (fun as d => do
      let i ← match findIdx (fun c : Coin => c.denom == d.denom) as with
        | some i => pure i | none => .error .mismatch
      let c ← getD? as i
      let a ← ckAdd U128_MAX c.amount d.amount
      pure (setAmount as i a)) poolAssets'
    let pool' := { pool with assets := assets' }
    pure (s.savePool pool', Response.ofMsgs (msgs0 ++ msgs1) [
      ("action", "provide_liquidity"), ("added_shares", toString shares),
      ("pool_reserves", reservesAttr pool')])

def pmExecuteK (s : PmState) (env : PmEnv) (sender : Addr) (funds : List Coin) (m : PmMsg) :
    R (PmState × Response) :=
  match m with
  | .createPool denoms decimals fees ptype id => createPool s env funds denoms decimals fees ptype id
  | .provideLiquidity ls ss r pid u l => provideLiquidityK s env sender funds ls ss r pid u l
  | .swap ask b ms r pid => swapHandler s env sender funds ask b ms r pid
  | .withdrawLiquidity pid => withdrawLiquidity s env sender funds pid
  | .execSwapOps ops mr r ms => execSwapOps s env sender funds ops mr r ms
  | .updateConfig fc fm cf t => do
    nonpayable funds
    pmUpdateConfig s env sender fc fm cf t
  | .updateOwnership a => do
    nonpayable funds
    let o ← s.owner.update env.validAddr env.nowNs sender a
    pure ({ s with owner := o }, { attrs := [("action", "update_ownership")] })

def createPositionK (s : FmState) (env : FmEnv) (sender : Addr) (funds : List Coin) (id : Option String)
    (unlocking : Nat) (receiver : Option Addr) : R (FmState × Response) := do
  let lp ← oneCoin funds
  if !validateLpDenomK lp.denom s.config.poolManager then .error .mismatch
  if unlocking < s.config.minUnlocking || unlocking > s.config.maxUnlocking then .error .invalidInput
  let recv ← match receiver with
    | some r =>
      if !env.validAddr r then .error .invalidInput
      else if !(sender == s.config.poolManager || sender == r) then .error .unauthorized
      else pure r
    | none => pure sender
  let counter := s.posCounter + 1
  let (identifier, s1) := match id with
    | some i => (C.EXPLICIT_POSITION_ID_PREFIX ++ i, s)
    | none => (C.AUTO_POSITION_ID_PREFIX ++ toString counter, { s with posCounter := counter })
  if counter > U64_MAX then .error .panic
  if !validateIdentifier identifier then .error .invalidInput
  if (s1.getPosition identifier).isSome then .error .exists_
  if (s1.positionsBy recv true).length ≥ C.MAX_POSITIONS_LIMIT then .error .limit
  let p : Position := {
    id := identifier, lpDenom := lp.denom, amount := lp.amount, unlocking := unlocking,
                        open_ := true, expiringAt := none, receiver := recv }
  let s2 := s1.savePosition p
  let s3 ← updateWeights s2 env recv lp.denom lp.amount unlocking true
  pure (s3, { attrs := [("action", "open_position")] })

def createFarmK (s : FmState) (env : FmEnv) (sender : Addr) (funds : List Coin) (p : FarmParams) :
    R (FmState × Response) := do
  let cfg := s.config
  if !validateLpDenomK p.lpDenom cfg.poolManager then .error .mismatch
  let farms := s.farmsByLp p.lpDenom cfg.maxConcurrentFarms
  let cur ← fmCurrentEpoch s env
  let flags ← farms.mapM fun f => isFarmExpiredOrFalse s env f
  let expired := (farms.zip flags).filter (·.2) |>.map (·.1)
  let live := (farms.zip flags).filter (!·.2) |>.map (·.1)
  let (s1, subs) := closeFarms s expired
  if live.length ≥ cfg.maxConcurrentFarms then .error .limit
  if p.asset.amount < C.MIN_FARM_AMOUNT then .error .invalidInput
  let feeMsgs ← if cfg.createFarmFee.amount ≠ 0 then processFarmCreationFee cfg sender funds p.asset else pure []
  assertFarmAsset funds cfg.createFarmFee p.asset
  let (start, end_) ← validateFarmEpochs p cur cfg.maxFarmEpochBuffer
  let (fid, s2) := match p.farmId with
    | some i => (C.EXPLICIT_FARM_ID_PREFIX ++ i, s1)
    | none => (C.AUTO_FARM_ID_PREFIX ++ toString (s1.farmCounter + 1), { s1 with farmCounter := s1.farmCounter + 1 })
  if s2.farmCounter > U64_MAX then .error .panic
  if !validateIdentifier fid then .error .invalidInput
  if s2.farms.any (·.id == fid) then .error .exists_
  let rate ← divFloorFrac U128_MAX p.asset.amount (end_ - start) 1
  let f : Farm := {
    id := fid, owner := sender, lpDenom := p.lpDenom, assetDenom := p.asset.denom,
                    assetAmount := p.asset.amount, claimed := 0, emissionRate := rate,
                    startEpoch := start, endEpoch := end_ }
  pure (s2.saveFarm f,
    { msgs := (feeMsgs.map fun m => ({ msg := m } : SubMsg)) ++ subs, attrs := [("action", "create_farm")] })

def fmExecuteK (s : FmState) (env : FmEnv) (sender : Addr) (funds : List Coin) (m : FmMsg) :
    R (FmState × Response) :=
  match m with
  | .createFarm p => createFarmK s env sender funds p
  | .expandFarm p => expandFarm s env sender funds p
  | .closeFarm id => closeFarm s sender funds id
  | .claim u => fmClaim s env sender funds u
  | .createPosition id u r => createPositionK s env sender funds id u r
  | .expandPosition id => expandPosition s env sender funds id
  | .closePosition id lp => closePosition s env sender funds id lp
  | .withdrawPosition id e => withdrawPosition s env sender funds id e
  | .updateConfig u => do
    nonpayable funds
    fmUpdateConfig s env sender u
  | .updateOwnership a => do
    nonpayable funds
    let o ← s.owner.update env.validAddr env.nowNs sender a
    pure ({ s with owner := o }, { attrs := [("action", "update_ownership")] })

def callExecuteK (w : World) (c : Addr) (sender : Addr) (funds : List Coin) (m : ContractMsg) :
    R (World × Response) :=
  match m with
  | .pm pm => if c != PM then .error .other else do
      let (s, r) ← pmExecuteK w.pm w.pmEnv sender funds pm
      pure ({ w with pm := s }, r)
  | .fm fm => if c != FM then .error .other else do
      let (s, r) ← fmExecuteK w.fm w.fmEnv sender funds fm
      pure ({ w with fm := s }, r)
  | .em em => if c != EM then .error .other else do
      let s ← emExecute w.em w.validAddr w.nowNs sender funds em
      pure ({ w with em := s }, {})
  | .fc (.updateOwnership a) => if c != FC then .error .other else do
      nonpayable funds
      let o ← w.fc.update w.validAddr w.nowNs sender a
      pure ({ w with fc := o }, {})

mutual
/-- execute one message sent by `sender` -/
def execMsgK (fuel : Nat) (w : World) (sender : Addr) (m : Msg) : R World :=
  match fuel with
  | 0 => .error .other
  | fuel + 1 =>
    match m with
    | .bankSend to coins => do
      let b ← w.bank.send sender to coins
      pure { w with bank := b }
    | .bankBurn coins => do
      let b ← w.bank.burn sender coins
      pure { w with bank := b }
    | .tfCreateDenom _ => do
      let b ← w.bank.burn sender w.tfFees
      pure { w with bank := b }
    | .tfMint coin to => do
      let b ← w.bank.mint to [coin]
      pure { w with bank := b }
    | .tfBurn coin => do
      let b ← w.bank.burn sender [coin]
      pure { w with bank := b }
    | .wasmExec c msg funds =>
      if !isContract c then .error .other else do
      let w1 ← if funds.isEmpty then pure w else do
        let b ← w.bank.send sender c funds
        pure { w with bank := b }
      let (w2, resp) ← callExecuteK w1 c sender funds msg
      execSubsK fuel w2 c resp.msgs

/-- run the sub-messages a contract returned, depth-first, each in its own rollback scope -/
def execSubsK (fuel : Nat) (w : World) (contract : Addr) (subs : List SubMsg) : R World :=
  match fuel with
  | 0 => .error .other
  | fuel + 1 =>
    match subs with
    | [] => .ok w
    | sm :: rest =>
      match execMsgK fuel w contract sm.msg with
      | .ok w' =>
        if sm.replyOn.onSuccess then do
          let (w'', resp) ← callReply w' contract sm.id
          let w3 ← execSubsK fuel w'' contract resp.msgs
          execSubsK fuel w3 contract rest
        else execSubsK fuel w' contract rest
      | .error e =>
        if sm.replyOn.onError then do
          -- the sub-message's own changes are discarded; the fault counter is not storage
          let wr := { w with bank := { w.bank with calls := w.bank.calls + sm.msg.callsWhenFailed } }
          let (w'', resp) ← callReply wr contract sm.id
          let w3 ← execSubsK fuel w'' contract resp.msgs
          execSubsK fuel w3 contract rest
        else .error e
end

def runTxK (w : World) (tx : Tx) (failAt : Option Nat := none) : R World :=
  let w0 := { w with bank := { w.bank with calls := 0, failAt := failAt } }
  match tx with
  | .exec sender c msg funds => execMsgK FUEL w0 sender (.wasmExec c msg funds)
  | .send frm to coins => execMsgK FUEL w0 frm (.bankSend to coins)
  | .advance ns => .ok { w with nowNs := w.nowNs + ns }

def stepK (w : World) (tx : Tx) (failAt : Option Nat := none) : World :=
  match runTxK w tx failAt with
  | .ok w' => w'
  | .error _ => w

def ledgerStepK (w : World) (tx : Tx) (k : Option Nat) : List Entry :=
  match tx with
  | .exec sender c (.fm (.claim u)) _ =>
    match runTxK w tx k with
    | .ok _ => if c = FM then claimEntries w.fm w.fmEnv sender u else []
    | .error _ => []
  | _ => []

def ledgerK (w : World) : List (Tx × Option Nat) → List Entry
  | [] => []
  | t :: ts => ledgerStepK w t.1 t.2 ++ ledgerK (stepK w t.1 t.2) ts

/-! ### the twins are the originals -/

theorem provideLiquidityK_eq : @provideLiquidityK = @provideLiquidity := by
  funext s env sender funds ls ss rc pid u l
  unfold provideLiquidityK provideLiquidity
  rw [isFactoryTokenK_eq] <;> rfl

theorem pmExecuteK_eq : @pmExecuteK = @pmExecute := by
  funext s env sender funds m
  unfold pmExecuteK pmExecute
  rw [provideLiquidityK_eq] <;> rfl

theorem createPositionK_eq : @createPositionK = @createPosition := by
  funext s env sender funds id u r
  unfold createPositionK createPosition
  rw [validateLpDenomK_eq] <;> rfl

theorem createFarmK_eq : @createFarmK = @createFarm := by
  funext s env sender funds p
  unfold createFarmK createFarm
  rw [validateLpDenomK_eq] <;> rfl

theorem fmExecuteK_eq : @fmExecuteK = @fmExecute := by
  funext s env sender funds m
  unfold fmExecuteK fmExecute
  rw [createPositionK_eq, createFarmK_eq] <;> rfl

theorem callExecuteK_eq : @callExecuteK = @callExecute := by
  funext w c sender funds m
  unfold callExecuteK callExecute
  rw [pmExecuteK_eq, fmExecuteK_eq] <;> rfl

theorem execK_eq (n : Nat) :
    (∀ w sender m, execMsgK n w sender m = execMsg n w sender m) ∧
    (∀ w c subs, execSubsK n w c subs = execSubs n w c subs) := by
  induction n with
  | zero =>
    constructor
    · intro w sender m; rw [execMsgK, execMsg]
    · intro w c subs; rw [execSubsK, execSubs]
  | succ n ih =>
    obtain ⟨ihM, ihS⟩ := ih
    constructor
    · intro w sender m
      cases m <;> rw [execMsgK, execMsg] <;> simp only [callExecuteK_eq, ihS] <;> try rfl
    · intro w c subs
      cases subs <;> rw [execSubsK, execSubs] <;> simp only [ihM, ihS] <;> try rfl

theorem runTxK_eq : @runTxK = @runTx := by
  funext w tx k
  unfold runTxK runTx
  cases tx <;> simp only [(execK_eq FUEL).1] <;> try rfl

theorem stepK_eq : @stepK = @step := by
  funext w tx k
  unfold stepK step
  rw [runTxK_eq] <;> rfl

theorem ledgerStepK_eq : @ledgerStepK = @ledgerStep := by
  funext w tx k
  unfold ledgerStepK ledgerStep
  rw [runTxK_eq] <;> rfl

theorem ledgerK_eq (txs : List (Tx × Option Nat)) : ∀ w, ledgerK w txs = ledger w txs := by
  induction txs with
  | nil => intro w; rfl
  | cons t ts ih =>
    intro w
    rw [ledgerK, ledger, ih, ledgerStepK_eq, stepK_eq]

/-- every transaction of the history is accepted (`runTx` answers `ok`) in the state it meets -/
def allAccepted (w : World) : List (Tx × Option Nat) → Bool
  | [] => true
  | t :: ts => (match runTx w t.1 t.2 with | .ok _ => true | .error _ => false) && allAccepted (step w t.1 t.2) ts

def allAcceptedK (w : World) : List (Tx × Option Nat) → Bool
  | [] => true
  | t :: ts => (match runTxK w t.1 t.2 with | .ok _ => true | .error _ => false) && allAcceptedK (stepK w t.1 t.2) ts

theorem allAcceptedK_eq (txs : List (Tx × Option Nat)) : ∀ w, allAcceptedK w txs = allAccepted w txs := by
  induction txs with
  | nil => intro w; rfl
  | cons t ts ih =>
    intro w
    rw [allAcceptedK, allAccepted, ih, runTxK_eq, stepK_eq]

end MantraDex.NonVac
