/-
  C10Sys, part 4: the position handlers (`create_position`, `expand_position`, `close_position`,
  `withdraw_position`) and `claim` preserve `FInv`.
-/
import MantraDex.Proofs.WSysFmH

set_option linter.unusedSimpArgs false
set_option linter.unusedVariables false

namespace MantraDex.WSys
open MantraDex

theorem positionsBy_lt {s : FmState} {u : Addr}
    (h : ¬ (s.positionsBy u true).length ≥ C.MAX_POSITIONS_LIMIT) :
    openCnt s.positions u < C.MAX_POSITIONS_LIMIT := by
  unfold FmState.positionsBy at h
  rw [List.length_take] at h
  unfold openCnt
  have : (s.positions.filter (isOpenOf u)).length =
      (s.positions.filter fun p => p.receiver == u && p.open_ == true).length := rfl
  rw [this]
  omega

theorem getPosition_none_of_not_isSome {s : FmState} {id : String}
    (h : ¬ (s.getPosition id).isSome = true) : s.getPosition id = none := by
  cases hg : s.getPosition id with
  | none => rfl
  | some x => rw [hg] at h; simp at h

/-! ### `create_position` -/

theorem create_core {s s1 s3 : FmState} {env : FmEnv} {recv : Addr} {p : Position} {lpd : Denom}
    {amt u : Nat} (hw : updateWeights (s1.savePosition p) env recv lpd amt u true = .ok s3)
    (hi : FInv s env) (h1 : s1.positions = s.positions) (h2 : s1.hist = s.hist)
    (h3 : s1.config = s.config)
    (hnone : ¬ (s1.getPosition p.id).isSome = true)
    (hlim : ¬ (s1.positionsBy recv true).length ≥ C.MAX_POSITIONS_LIMIT) (hrecv : recv ≠ env.self)
    (hp : p.receiver = recv ∧ p.lpDenom = lpd ∧ p.open_ = true) :
    FInv s3 env ∧ s3.config = s.config := by
  have hi1 : FInv s1 env := finv_of_eq h2 h1 (by rw [h3]) hi
  have hnone' := getPosition_none_of_not_isSome hnone
  have hi2 : FInv (s1.savePosition p) env :=
    finv_save_new hi1 hnone' (by rw [hp.1]; exact hrecv) (fun _ => by rw [hp.1]; exact positionsBy_lt hlim)
  refine ⟨uw_inv hi2 (fun hf => by cases hf) ⟨p, ?_, hp⟩ hw, ?_⟩
  · exact (FH.savePosition_perm_new hnone').mem_iff.2 List.mem_cons_self
  · rw [(updateWeights_sameStore hw).2.2.2, savePosition_config, h3]

theorem createPosition_inv {s s' : FmState} {env : FmEnv} {sender : Addr} {funds : List Coin}
    {id : Option String} {u : Nat} {recv : Option Addr} {r : Response} (hi : FInv s env)
    (hs : sender ≠ env.self)
    (hrecv : ∀ rc, recv = some rc → sender = s.config.poolManager → rc ≠ env.self)
    (h : createPosition s env sender funds id u recv = .ok (s', r)) :
    FInv s' env ∧ s'.config = s.config := by
  unfold createPosition at h
  cases recv <;> cases id <;>
    simp only [bind_ok, error_bind, pure_bind', ite_error_ok, pure_ok, Prod.mk.injEq] at h
  · obtain ⟨lp, hlp, _, _, _, _, hnone, hlim, s3, h3, rfl, rfl⟩ := h
    exact create_core h3 hi rfl rfl rfl hnone hlim hs ⟨rfl, rfl, rfl⟩
  · obtain ⟨lp, hlp, _, _, _, _, hnone, hlim, s3, h3, rfl, rfl⟩ := h
    exact create_core h3 hi rfl rfl rfl hnone hlim hs ⟨rfl, rfl, rfl⟩
  · rename_i rc
    obtain ⟨lp, hlp, _, _, _, hauth, _, _, hnone, hlim, s3, h3, rfl, rfl⟩ := h
    have hrc : rc ≠ env.self := by
      simp only [Bool.not_eq_true', Bool.or_eq_false_iff, beq_eq_false_iff_ne, ne_eq, not_and,
        Decidable.not_not] at hauth
      by_cases hpm : sender = s.config.poolManager
      · exact hrecv rc rfl hpm
      · rw [← hauth hpm]; exact hs
    exact create_core h3 hi rfl rfl rfl hnone hlim hrc ⟨rfl, rfl, rfl⟩
  · rename_i rc _
    obtain ⟨lp, hlp, _, _, _, hauth, _, _, hnone, hlim, s3, h3, rfl, rfl⟩ := h
    have hrc : rc ≠ env.self := by
      simp only [Bool.not_eq_true', Bool.or_eq_false_iff, beq_eq_false_iff_ne, ne_eq, not_and,
        Decidable.not_not] at hauth
      by_cases hpm : sender = s.config.poolManager
      · exact hrecv rc rfl hpm
      · rw [← hauth hpm]; exact hs
    exact create_core h3 hi rfl rfl rfl hnone hlim hrc ⟨rfl, rfl, rfl⟩

/-! ### `expand_position` -/

theorem expandPosition_inv {s s' : FmState} {env : FmEnv} {sender : Addr} {funds : List Coin}
    {id2 : String} {r : Response} (hi : FInv s env)
    (h : expandPosition s env sender funds id2 = .ok (s', r)) : FInv s' env ∧ s'.config = s.config := by
  unfold expandPosition at h
  cases hg : s.getPosition id2 with
  | none => rw [hg] at h; simp [error_bind] at h
  | some p2 =>
    obtain ⟨hmem, hid⟩ := FH.getPosition_some hg
    rw [hg] at h
    simp only [bind_ok, error_bind, pure_bind', ite_error_ok, ckAdd_ok, pure_ok, Prod.mk.injEq] at h
    obtain ⟨c, hc, _, hden, hopen, hauth, a, ⟨_, rfl⟩, s2, h2, rfl, rfl⟩ := h
    have hden' : p2.lpDenom = c.denom := by simpa using hden
    have hopen' : p2.open_ = true := by simpa using hopen
    obtain ⟨hh, hp, hx⟩ := save_replace_inv (p := { p2 with amount := p2.amount + c.amount }) hi hmem
      rfl rfl rfl (fun h => h)
    have hmem' : ({ p2 with amount := p2.amount + c.amount } : Position) ∈
        (s.savePosition { p2 with amount := p2.amount + c.amount }).positions :=
      (FH.savePosition_perm_replace (p := { p2 with amount := p2.amount + c.amount })
        hi.pos.posNodup hmem rfl).mem_iff.2 List.mem_cons_self
    have hi1 : FInv (s.savePosition { p2 with amount := p2.amount + c.amount }) env :=
      ⟨hh, noW_of_except_open hx ⟨_, hmem', rfl, rfl, hopen'⟩, hp⟩
    refine ⟨uw_inv hi1 (fun hf => by cases hf) ⟨_, hmem', rfl, hden', hopen'⟩ h2, ?_⟩
    rw [(updateWeights_sameStore h2).2.2.2, savePosition_config]

/-! ### `close_position` -/

theorem close_tail {s1 s2 s4 : FmState} {env : FmEnv} {sender : Addr} {p p' : Position} {amt : Nat}
    (hw : updateWeights s1 env sender p.lpDenom amt p.unlocking false = .ok s2)
    (hrec : reconcileUserState (s2.savePosition p') env sender p.lpDenom = .ok s4)
    (hi : FInv s1 env) (hs : sender ≠ env.self) (hp : p ∈ s1.positions) (hrecv : p.receiver = sender)
    (hopen : p.open_ = true) (hid : p'.id = p.id) (hrc : p'.receiver = p.receiver)
    (hlp : p'.lpDenom = p.lpDenom) : FInv s4 env ∧ s4.config = s1.config := by
  have hst := updateWeights_sameStore hw
  have hi2 : FInv s2 env := uw_inv hi (fun _ => hs) ⟨p, hp, hrecv, rfl, hopen⟩ hw
  have hp2 : p ∈ s2.positions := by rw [hst.1]; exact hp
  obtain ⟨hh, hpi, hx⟩ := save_replace_inv (p0 := p) (p := p') hi2 hp2 hid hrc hlp (fun _ => hopen)
  rw [hrecv] at hx
  refine ⟨reconcile_inv hh hpi hx hs hrec, ?_⟩
  rw [(reconcileUserState_sameStore hrec).2.2.2, savePosition_config, hst.2.2.2]

theorem closePosition_inv {s s' : FmState} {env : FmEnv} {sender : Addr} {funds : List Coin}
    {id2 : String} {lp : Option Coin} {r : Response} (hi : FInv s env) (hwf : FmSys.PosWF s)
    (hs : sender ≠ env.self)
    (h : closePosition s env sender funds id2 lp = .ok (s', r)) : FInv s' env ∧ s'.config = s.config := by
  unfold closePosition at h
  cases hg : s.getPosition id2 with
  | none =>
    rw [hg] at h
    simp only [bind_ok, error_bind] at h
    obtain ⟨_, _, _, _, h⟩ := h
    split at h <;> simp at h
  | some p2 =>
    obtain ⟨hmem, hid⟩ := FH.getPosition_some hg
    rw [hg] at h
    simp only [bind_ok, error_bind, pure_bind', ite_error_ok, fit_ok] at h
    obtain ⟨_, _, _, _, _, hauth, hopen, a, ⟨_, rfl⟩, b, ⟨_, rfl⟩, _, h⟩ := h
    have hrecv : p2.receiver = sender := by simpa using hauth
    have hopen' : p2.open_ = true := by simpa using hopen
    have full : ∀ {q : Position} {R : Response},
        (updateWeights s env sender p2.lpDenom p2.amount p2.unlocking false >>= fun s2 =>
          reconcileUserState (s2.savePosition q) env sender p2.lpDenom >>= fun s4 =>
          pure (s4, R)) = Except.ok (s', r) → q.id = p2.id → q.receiver = p2.receiver →
          q.lpDenom = p2.lpDenom → FInv s' env ∧ s'.config = s.config := by
      intro q R h hq1 hq2 hq3
      simp only [bind_ok, pure_ok, Prod.mk.injEq] at h
      obtain ⟨s2, h2, s4, h4, rfl, rfl⟩ := h
      exact close_tail h2 h4 hi hs hmem hrecv hopen' hq1 hq2 hq3
    cases lp with
    | none => exact full h rfl rfl rfl
    | some c =>
      simp only [ite_error_ok] at h
      obtain ⟨_, h⟩ := h
      split at h
      · exact full h rfl rfl rfl
      · simp only [ite_ok_error, ite_error_ok, bind_ok, pure_ok, Prod.mk.injEq] at h
        obtain ⟨_, _, s2, h2, s4, h4, rfl, rfl⟩ := h
        have hfr : ({ s with posCounter := s.posCounter + 1 } : FmState).getPosition
            (C.AUTO_POSITION_ID_PREFIX ++ toString (s.posCounter + 1)) = none :=
          hwf.fresh (s.posCounter + 1) (by omega)
        have hi0 : FInv ({ s with posCounter := s.posCounter + 1 } : FmState) env :=
          finv_of_eq (s := s) rfl rfl rfl hi
        have hmem0 : p2 ∈ ({ s with posCounter := s.posCounter + 1 } : FmState).positions := hmem
        have key := close_tail h2 h4 (finv_save_new hi0 hfr (hi.pos.noSelf p2 hmem) (fun h => by cases h)) hs
          ((FH.savePosition_perm_new hfr).mem_iff.2 (List.mem_cons_of_mem _ hmem0)) hrecv hopen' rfl rfl rfl
        exact ⟨key.1, by rw [key.2, savePosition_config]⟩

/-! ### `withdraw_position` -/

theorem withdrawPosition_inv {s s' : FmState} {env : FmEnv} {sender : Addr} {funds : List Coin}
    {id2 : String} {em : Option Bool} {r : Response} (hi : FInv s env) (hs : sender ≠ env.self)
    (h : withdrawPosition s env sender funds id2 em = .ok (s', r)) :
    FInv s' env ∧ s'.config = s.config := by
  unfold withdrawPosition at h
  cases hg : s.getPosition id2 with
  | none => rw [hg] at h; simp [error_bind, bind_ok] at h
  | some p2 =>
    obtain ⟨hmem, hid⟩ := FH.getPosition_some hg
    subst hid
    rw [hg] at h
    simp only [bind_ok, error_bind, pure_bind', ite_error_ok] at h
    obtain ⟨_, _, hauth, h⟩ := h
    have hrecv : p2.receiver = sender := by simpa using hauth
    have tailOpen : ∀ (s1 s3 : FmState), FInv s1 env → s1.config = s.config → s1.positions = s.positions →
        reconcileUserState (s1.removePosition p2.id) env sender p2.lpDenom = .ok s3 →
        FInv s3 env ∧ s3.config = s.config := by
      intro s1 s3 hi1 hc1 hp1 h3
      obtain ⟨hh, hpi, hx, _⟩ := remove_inv (p0 := p2) hi1 (by rw [hp1]; exact hmem)
      rw [hrecv] at hx
      refine ⟨reconcile_inv hh hpi hx hs h3, ?_⟩
      rw [(reconcileUserState_sameStore h3).2.2.2]
      exact hc1
    have tailClosed : p2.open_ = false → FInv (s.removePosition p2.id) env := by
      intro hcl
      obtain ⟨hh, hpi, _, hnw⟩ := remove_inv (p0 := p2) hi hmem
      exact ⟨hh, hnw hcl, hpi⟩
    split at h
    · simp only [bind_ok] at h
      obtain ⟨rate, _, cur, _, active, _, sp, _, h⟩ := h
      split at h
      next hopen =>
        simp only [bind_ok, pure_ok, Prod.mk.injEq] at h
        obtain ⟨s1, h1, x, h3, rfl, rfl⟩ := h
        have hst := updateWeights_sameStore h1
        exact tailOpen s1 _ (uw_inv hi (fun _ => hs) ⟨p2, hmem, hrecv, rfl, hopen⟩ h1) hst.2.2.2 hst.1 h3
      next hopen =>
        simp only [bind_ok, pure_ok, Prod.mk.injEq] at h
        obtain ⟨rfl, rfl⟩ := h
        exact ⟨tailClosed (by simpa using hopen), rfl⟩
    · simp only [ite_error_ok] at h
      obtain ⟨_, _, h⟩ := h
      split at h
      next hopen =>
        simp only [bind_ok, pure_ok, Prod.mk.injEq] at h
        obtain ⟨x, h3, rfl, rfl⟩ := h
        exact tailOpen s _ hi rfl rfl h3
      next hopen =>
        simp only [bind_ok, pure_ok, Prod.mk.injEq] at h
        obtain ⟨rfl, rfl⟩ := h
        exact ⟨tailClosed (by simpa using hopen), rfl⟩

end MantraDex.WSys
