/-
  Inversion lemmas for the guard shapes the `do` elaborator produces in `R`:
  `if c then .error e` (no `else`) becomes `if c then (.error e >>= jp) else jp ()`.
-/
import MantraDex.Model.System
import MantraDex.Proofs.NumLemmas

namespace MantraDex

theorem err_bind {α β : Type} (e : Err) (k : α → R β) :
    ((Except.error e : R α) >>= k) = .error e := rfl

theorem ite_err_ok {α : Type} {c : Prop} [Decidable c] {e : Err} {k : R α} {y : α} :
    (if c then .error e else k) = .ok y ↔ ¬ c ∧ k = .ok y := by
  split <;> simp_all

theorem ite_ok_err {α : Type} {c : Prop} [Decidable c] {e : Err} {k : R α} {y : α} :
    (if c then k else .error e) = .ok y ↔ c ∧ k = .ok y := by
  split <;> simp_all

theorem assertOwner_ok {o : Ownership} {sender : Addr} {u : Unit} :
    o.assertOwner sender = .ok u ↔ o.owner = some sender := by
  unfold Ownership.assertOwner
  split
  · next a ha => split <;> simp_all
  · simp_all

theorem nonpayable_ok {funds : List Coin} {u : Unit} : nonpayable funds = .ok u ↔ funds = [] := by
  unfold nonpayable
  cases funds <;> simp

end MantraDex
