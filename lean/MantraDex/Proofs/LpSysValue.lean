/-
  Handler-level facts for C03Sys: what every pool-manager handler does to the two reserves x, y of a
  constant-product pool together with what it mints / burns of the pool's LP token:
  swaps and routes never lower x·y (and are refused on an empty pool), a deposit mints at most the
  proportional share (x·y/S² does not decrease), a withdrawal pays the floor of the pro-rata share.
-/
import MantraDex.Model.System
import MantraDex.Proofs.NumLemmas
import MantraDex.Proofs.LpSysTx
import MantraDex.Proofs.SwapLemmas
import MantraDex.Properties.C02
import MantraDex.Properties.C03

set_option linter.unusedSimpArgs false
set_option linter.unusedVariables false
set_option linter.tactic.unusedName false

namespace MantraDex.LpSys
open MantraDex
open MantraDex.C01 (coinsOf amt coinsOf_cons coinsOf_nil coinsOf_singleton)
open MantraDex.C16Sys (LpOk)

/-- a constant-product pool with the two reserves `x` of `n0` and `y` of `n1` -/
def Cp2 (p : PoolInfo) (n0 n1 : Denom) (x y : Nat) : Prop :=
  p.ptype = .cp ∧ p.assets = [⟨n0, x⟩, ⟨n1, y⟩] ∧ n0 ≠ n1

theorem two_of_denoms {as : List Coin} {n0 n1 : Denom} (h : as.map (·.denom) = [n0, n1]) (hne : n0 ≠ n1) :
    as = [⟨n0, coinsOf as n0⟩, ⟨n1, coinsOf as n1⟩] := by
  match as, h with
  | [a, b], h =>
    simp only [List.map_cons, List.map_nil, List.cons.injEq, and_true] at h
    obtain ⟨ha, hb⟩ := h
    obtain ⟨da, xa⟩ := a
    obtain ⟨db, xb⟩ := b
    simp only at ha hb
    subst ha hb
    have h1 : (da == db) = false := by simpa using hne
    have h2 : (db == da) = false := by simpa using fun e => hne e.symm
    simp [coinsOf_cons, amt, h1, h2]

theorem cp2_of_shape {p : PoolInfo} (hcp : p.ptype = .cp) (hal : p.assets.map (·.denom) = p.denoms)
    (hlen : p.denoms.length = 2) (hnd : p.denoms.Nodup) : ∃ n0 n1 x y, Cp2 p n0 n1 x y := by
  match hd : p.denoms, hlen with
  | [n0, n1], _ =>
    rw [hd] at hal hnd
    have hne : n0 ≠ n1 := by
      intro e
      subst e
      simp at hnd
    exact ⟨n0, n1, _, _, hcp, two_of_denoms hal hne, hne⟩

/-! ### `savePool` of an existing pool, identifiers unique -/

theorem savePool_self_mem {s : PmState} {pid : String} {q q' : PoolInfo} (hq : s.getPool pid = .ok q)
    (hid : q'.id = q.id) : q' ∈ (s.savePool q').pools := by
  obtain ⟨hmem, -⟩ := getPool_ok hq
  rw [C01.savePool_existing hq hid]
  refine List.mem_map.2 ⟨q, hmem, ?_⟩
  simp [hid]

theorem savePool_other_mem {s : PmState} {pid : String} {q q' p : PoolInfo} (hq : s.getPool pid = .ok q)
    (hid : q'.id = q.id) (hp : p ∈ s.pools) (hne : p.id ≠ q.id) : p ∈ (s.savePool q').pools := by
  rw [C01.savePool_existing hq hid]
  refine List.mem_map.2 ⟨p, hp, ?_⟩
  have : (p.id == q'.id) = false := by rw [hid]; simpa using hne
  simp [this]

/-! ### swaps -/

theorem computeSwapCP_offer_ne {p : PoolInfo} {X Y o : Nat} {c : SwapComputation}
    (h : computeSwapCP p X Y o = .ok c) : X ≠ 0 := by
  unfold computeSwapCP at h
  simp only [bind_ok, ckMul_ok, ckAdd_ok, orPanic_ok, decFromRatio_ok, fit_ok, decMul_ok, ckSub_ok,
    decFloor] at h
  obtain ⟨num, _, den, _, q, _, rate, ⟨hX, _⟩, _⟩ := h
  exact hX

/-- a swap is refused on a constant-product pool whose offer reserve is empty -/
theorem performSwap_cp_nonzero {s s' : PmState} {offer : Coin} {ask : Denom} {pid : String}
    {b ms : Option Nat} {r : SwapResult} {pool : PoolInfo} {x y : Nat} {d0 d1 : Denom}
    (hp : s.getPool pid = .ok pool) (hcp : pool.ptype = .cp)
    (hassets : pool.assets = [⟨d0, x⟩, ⟨d1, y⟩])
    (h : performSwap s offer ask pid b ms = .ok (s', r)) : ¬ (x = 0 ∧ y = 0) := by
  unfold performSwap at h
  simp only [bind_ok, pure_ok, hp, Except.ok.injEq, exists_eq_left'] at h
  obtain ⟨⟨oc, ac, oi, ai, odc, adc⟩, hidx, c, hcs, _⟩ := h
  unfold computeSwap at hcs
  simp only [bind_ok, hidx, Except.ok.injEq, exists_eq_left', hcp] at hcs
  have hX := computeSwapCP_offer_ne hcs
  rintro ⟨rfl, rfl⟩
  rcases C03.getAssetIndexes_two hassets hidx with ⟨-, -, rfl, -⟩ | ⟨-, -, rfl, -⟩ <;> exact hX rfl

/-- what a handler that only trades does to one constant-product pool: same static fields, x·y not lower, an
    empty pool stays empty -/
def Grow (s' : PmState) (p : PoolInfo) (n0 n1 : Denom) (x y : Nat) : Prop :=
  ∃ p' ∈ s'.pools, ∃ x' y', C16.StaticEq p p' ∧ Cp2 p' n0 n1 x' y' ∧ x * y ≤ x' * y' ∧
    (x = 0 → y = 0 → x' = 0 ∧ y' = 0)

theorem grow_refl {s : PmState} {p : PoolInfo} {n0 n1 : Denom} {x y : Nat} (hp : p ∈ s.pools)
    (hc : Cp2 p n0 n1 x y) : Grow s p n0 n1 x y :=
  ⟨p, hp, x, y, C16.StaticEq.refl p, hc, Nat.le_refl _, fun h1 h2 => ⟨h1, h2⟩⟩

theorem performSwap_grow {s s' : PmState} {offer : Coin} {ask : Denom} {pid : String}
    {b ms : Option Nat} {r : SwapResult} (hids : (s.pools.map (·.id)).Nodup)
    (h : performSwap s offer ask pid b ms = .ok (s', r))
    {p : PoolInfo} {n0 n1 : Denom} {x y : Nat} (hp : p ∈ s.pools) (hc : Cp2 p n0 n1 x y) :
    Grow s' p n0 n1 x y := by
  obtain ⟨pool, c, oi, ai, xx, yy, hq, -, -, -, -, -, -, -, hrp, hs', -⟩ := C04.performSwap_ok h
  obtain ⟨hqm, -⟩ := getPool_ok hq
  have hid : r.pool.id = pool.id := by rw [hrp]
  by_cases hpe : p.id = pool.id
  · have : p = pool := C16.eq_of_nodup_ids hids p hp pool hqm hpe
    subst this
    obtain ⟨x', y', ha', hk⟩ := C03.performSwap_k_mono hq hc.1 hc.2.1 hc.2.2 h
    refine ⟨r.pool, by rw [hs']; exact savePool_self_mem hq hid, x', y', ?_, ⟨by rw [hrp]; exact hc.1, ha', hc.2.2⟩,
      hk, ?_⟩
    · rw [hrp]; exact ⟨rfl, rfl, rfl, rfl, rfl, rfl⟩
    · intro h1 h2
      exact absurd ⟨h1, h2⟩ (performSwap_cp_nonzero hq hc.1 hc.2.1 h)
  · rw [hs']
    exact grow_refl (savePool_other_mem hq hid hp hpe) hc

theorem grow_trans {s1 s2 : PmState} {p : PoolInfo} {n0 n1 : Denom} {x y : Nat}
    (h1 : Grow s1 p n0 n1 x y)
    (h2 : ∀ p1 ∈ s1.pools, ∀ x1 y1, Cp2 p1 n0 n1 x1 y1 → Grow s2 p1 n0 n1 x1 y1) : Grow s2 p n0 n1 x y := by
  obtain ⟨p1, hp1, x1, y1, e1, c1, k1, z1⟩ := h1
  obtain ⟨p2, hp2, x2, y2, e2, c2, k2, z2⟩ := h2 p1 hp1 x1 y1 c1
  refine ⟨p2, hp2, x2, y2, e1.trans e2, c2, Nat.le_trans k1 k2, fun a b => ?_⟩
  obtain ⟨a1, b1⟩ := z1 a b
  exact z2 a1 b1

theorem routeHops_grow {ms : Option Nat} (ops : List SwapOp) :
    ∀ (s s' : PmState) (prev out : Coin) (fees fees' : List Msg), (s.pools.map (·.id)).Nodup →
      routeHops s ms ops prev fees = .ok (s', out, fees') →
      ∀ p ∈ s.pools, ∀ n0 n1 x y, Cp2 p n0 n1 x y → Grow s' p n0 n1 x y := by
  induction ops with
  | nil =>
    intro s s' prev out fees fees' _ h p hp n0 n1 x y hc
    rw [routeHops] at h
    simp only [Except.ok.injEq, Prod.mk.injEq] at h
    obtain ⟨rfl, -, -⟩ := h
    exact grow_refl hp hc
  | cons op ops ih =>
    intro s s' prev out fees fees' hids h p hp n0 n1 x y hc
    obtain ⟨s1, r, hps, h⟩ := C04.routeHops_cons h
    have hids1 : (s1.pools.map (·.id)).Nodup := by rw [(performSwap_step hps).ids]; exact hids
    exact grow_trans (performSwap_grow hids hps hp hc)
      (fun p1 hp1 x1 y1 c1 => ih s1 s' _ out _ fees' hids1 h p1 hp1 n0 n1 x1 y1 c1)

/-! ### deposits: the aggregated funds -/

theorem insertCoin_fresh_nodup {c : Coin} {xs r : List Coin} (hc : c.denom ∉ xs.map (·.denom))
    (hnd : (xs.map (·.denom)).Nodup) (h : insertCoin c xs = .ok r) : (r.map (·.denom)).Nodup := by
  induction xs generalizing r with
  | nil =>
    simp only [insertCoin, pure_ok] at h
    subst h
    simp
  | cons x xs ih =>
    simp only [List.map_cons, List.mem_cons, not_or] at hc
    simp only [List.map_cons, List.nodup_cons] at hnd
    unfold insertCoin at h
    have hne : (c.denom == x.denom) = false := by simpa using hc.1
    simp only [hne, Bool.false_eq_true, ↓reduceIte] at h
    split at h
    · simp only [pure_ok] at h
      subst h
      simp only [List.map_cons, List.nodup_cons, List.mem_cons, not_or]
      exact ⟨⟨hc.1, hc.2⟩, hnd.1, hnd.2⟩
    · obtain ⟨r', hr', h⟩ := bind_ok.mp h
      simp only [pure_ok] at h
      subst h
      obtain ⟨-, h2⟩ := insertCoin_fresh hc.2 hr'
      simp only [List.map_cons, List.nodup_cons]
      refine ⟨?_, ih hc.2 hnd.2 hr'⟩
      rw [h2]
      rintro (e | e)
      · exact hc.1 e.symm
      · exact hnd.1 e

theorem foldlM_insertCoin_nodup (cs : List Coin) {acc r : List Coin}
    (hnd : (cs.map (·.denom)).Nodup) (hacc : ∀ c ∈ cs, c.denom ∉ acc.map (·.denom))
    (hn : (acc.map (·.denom)).Nodup)
    (h : cs.foldlM (fun acc c => insertCoin c acc) acc = .ok r) : (r.map (·.denom)).Nodup := by
  induction cs generalizing acc with
  | nil =>
    simp only [List.foldlM_nil, pure_ok] at h
    subst h; exact hn
  | cons c cs ih =>
    simp only [List.foldlM_cons] at h
    obtain ⟨a1, ha1, h⟩ := bind_ok.mp h
    simp only [List.map_cons, List.nodup_cons] at hnd
    have hfresh := hacc c (List.mem_cons_self ..)
    obtain ⟨-, h2⟩ := insertCoin_fresh hfresh ha1
    refine ih hnd.2 ?_ (insertCoin_fresh_nodup hfresh hn ha1) h
    intro c' hc'
    rw [h2]
    rintro (e | e)
    · exact hnd.1 (e ▸ List.mem_map_of_mem hc')
    · exact hacc c' (List.mem_cons_of_mem _ hc') e

theorem aggregateCoins_nodup {cs r : List Coin} (hnd : (cs.map (·.denom)).Nodup)
    (h : aggregateCoins cs = .ok r) : (r.map (·.denom)).Nodup :=
  foldlM_insertCoin_nodup cs hnd (by simp) (by simp) h

/-- two or more coins with distinct denoms, all of them one of `n0`, `n1`: exactly the two, in either order -/
theorem two_deposits {deps : List Coin} {n0 n1 : Denom} (hnd : (deps.map (·.denom)).Nodup)
    (hall : ∀ a ∈ deps, a.denom = n0 ∨ a.denom = n1) (hlen : deps.length ≠ 1) (hne : deps ≠ []) :
    ∃ d0 d1, deps = [⟨n0, d0⟩, ⟨n1, d1⟩] ∨ deps = [⟨n1, d1⟩, ⟨n0, d0⟩] := by
  match deps, hnd, hall, hlen, hne with
  | [], _, _, _, hne => exact absurd rfl hne
  | [a], _, _, hlen, _ => exact absurd rfl hlen
  | [a, b], hnd, hall, _, _ =>
    obtain ⟨da, xa⟩ := a
    obtain ⟨db, xb⟩ := b
    have hab : da ≠ db := by
      intro e; subst e; simp at hnd
    have ha := hall ⟨da, xa⟩ (by simp)
    have hb := hall ⟨db, xb⟩ (by simp)
    simp only at ha hb
    rcases ha with rfl | rfl <;> rcases hb with rfl | rfl
    · exact absurd rfl hab
    · exact ⟨xa, xb, Or.inl rfl⟩
    · exact ⟨xb, xa, Or.inr rfl⟩
    · exact absurd rfl hab
  | a :: b :: c :: rest, hnd, hall, _, _ =>
    exfalso
    have ha := hall a (by simp)
    have hb := hall b (by simp)
    have hc := hall c (by simp)
    simp only [List.map_cons, List.nodup_cons, List.mem_cons, not_or] at hnd
    obtain ⟨⟨hab, hac, -⟩, ⟨hbc, -⟩, -⟩ := hnd
    rcases ha with ha | ha <;> rcases hb with hb | hb <;> rcases hc with hc | hc <;>
      first
        | exact hab (ha.trans hb.symm)
        | exact hac (ha.trans hc.symm)
        | exact hbc (hb.trans hc.symm)

/-- later constant-product deposits with the two coins in the other order -/
theorem cp_mint_formula_sw {self : Addr} {lp : Denom} {d0 d1 x y S shares : Nat} {n0 n1 : Denom}
    {msgs : List Msg} (hS : S ≠ 0) (hne : n0 ≠ n1)
    (h : cpShares self lp [⟨n1, d1⟩, ⟨n0, d0⟩] [⟨n0, x⟩, ⟨n1, y⟩] S = .ok (shares, msgs)) :
    shares = min (d0 * S / x) (d1 * S / y) ∧ msgs = [] ∧ x ≠ 0 ∧ y ≠ 0 := by
  unfold cpShares at h
  rw [if_neg hS] at h
  have hne' : (n0 == n1) = false := by simpa using hne
  have hne'' : (n1 == n0) = false := by simpa using fun e => hne e.symm
  simp only [List.mapM_cons, List.mapM_nil, findIdx, beq_self_eq_true, hne', hne'', if_true, if_false,
    Bool.false_eq_true, Option.map, bind_ok, pure_ok, getD?, List.getElem?_cons_zero,
    List.getElem?_cons_succ, orPanic_ok, mulRatio_ok, Nat.zero_add] at h
  obtain ⟨l, ⟨s0, ⟨_, rfl, c0, hc0, hy, _, rfl⟩, l1, ⟨s1, ⟨_, rfl, c1, hc1, hx, _, rfl⟩, _, rfl, rfl⟩, rfl⟩,
    a1, ha1, a2, ha2, hres⟩ := h
  simp only [List.getElem?_cons_zero, List.getElem?_cons_succ, Except.ok.injEq] at hc0 hc1 ha1 ha2
  subst hc0 hc1 ha1 ha2
  simp only [Prod.mk.injEq] at hres
  refine ⟨?_, hres.2, hx, hy⟩
  rw [hres.1]
  exact Nat.min_comm _ _

theorem cp_first_mint_any {self : Addr} {lp : Denom} {deps pa : List Coin} {shares : Nat} {msgs : List Msg}
    (h : cpShares self lp deps pa 0 = .ok (shares, msgs)) :
    msgs = [.tfMint ⟨lp, C.MINIMUM_LIQUIDITY_AMOUNT⟩ self] := (cpShares_first h).1 rfl

theorem pl_multi_cp {s s' : PmState} {env : PmEnv} {sender : Addr} {funds deposits : List Coin}
    {ls ss : Option Nat} {recv : Option Addr} {pid : String} {u : Option Nat} {l : Option String}
    {r : Response} {pool : PoolInfo} (hagg : aggregateCoins funds = .ok deposits) (hlen : deposits.length ≠ 1)
    (hp : s.getPool pid = .ok pool) (hpt : pool.ptype = .cp)
    (h : provideLiquidity s env sender funds ls ss recv pid u l = .ok (s', r)) :
    ∃ shares msgs0, (∀ a ∈ deposits, ∃ pa ∈ pool.assets, pa.denom = a.denom) ∧
      cpShares env.self pool.lpDenom deposits pool.assets (env.supply pool.lpDenom) = .ok (shares, msgs0) ∧
      plTail s env sender pool deposits ls (addrOrDefault env recv sender) u l shares msgs0 = .ok (s', r) := by
  unfold provideLiquidity at h
  simp only [hagg, ↓ok_bind, ↓ite_err_bind_ok, ↓bind_ok, ↓err_bind_ok, List.length_singleton, ↓reduceIte, pure_ok, getD?_ok',
    ↓pure_bind', Except.ok.injEq] at h
  obtain ⟨pool', hp', hst, d, hd, -, hall, h⟩ := h
  rw [hp] at hp'
  cases hp'
  cases hd
  simp only [hlen, ↓ite_err_bind_ok, ↓reduceIte] at h
  obtain ⟨-, h⟩ := h
  have hall' : ∀ a ∈ deposits, ∃ pa ∈ pool.assets, pa.denom = a.denom := by
    have hb : (deposits.all fun a => pool.assets.any (·.denom == a.denom)) = true := by
      revert hall
      cases (deposits.all fun a => pool.assets.any (·.denom == a.denom)) <;> simp
    intro a ha
    have := List.all_eq_true.1 hb a ha
    obtain ⟨pa, hpa, he⟩ := List.any_eq_true.1 this
    exact ⟨pa, hpa, by simpa using he⟩
  rw [hpt] at h
  simp only [] at h
  obtain ⟨⟨sh, m0⟩, hcp, h⟩ := bind_ok.mp h
  simp only [] at h
  rw [← hpt] at h
  exact ⟨sh, m0, hall', hcp, h⟩

/-- a deposit into a constant-product pool: both reserves grow; the first deposit mints, a later one mints at most
    the proportional share, so x·y/S² does not decrease -/
theorem provide_cp {s s' : PmState} {env : PmEnv} {sender : Addr} {funds : List Coin}
    {ls ss : Option Nat} {rc : Option Addr} {pid : String} {u : Option Nat} {l : Option String} {r : Response}
    {p : PoolInfo} {n0 n1 : Denom} {x y : Nat}
    (hfunds : (funds.map (·.denom)).Nodup) (hns : 2 ≤ funds.length) (hp : s.getPool pid = .ok p)
    (hc : Cp2 p n0 n1 x y) (h : provideLiquidity s env sender funds ls ss rc pid u l = .ok (s', r)) :
    ∃ x' y', s' = s.savePool { p with assets := [⟨n0, x'⟩, ⟨n1, y'⟩] } ∧ x ≤ x' ∧ y ≤ y' ∧
      (env.supply p.lpDenom = 0 → total (mintW p.lpDenom) r.msgs ≠ 0) ∧
      (env.supply p.lpDenom ≠ 0 →
        x * y * ((env.supply p.lpDenom + total (mintW p.lpDenom) r.msgs) *
          (env.supply p.lpDenom + total (mintW p.lpDenom) r.msgs)) ≤
        x' * y' * (env.supply p.lpDenom * env.supply p.lpDenom)) := by
  obtain ⟨hcp, hassets, hne⟩ := hc
  obtain ⟨deps, hagg, hnemp⟩ := pl_agg h
  have hlen : deps.length ≠ 1 := by rw [aggregateCoins_length hfunds hagg]; omega
  obtain ⟨shares, msgs0, hall, hsh, htail⟩ := pl_multi_cp hagg hlen hp hcp h
  obtain ⟨assets', msgs1, hfold, hs', hmsgs, hshare⟩ := plTail_full htail
  -- the two deposits
  have hall2 : ∀ a ∈ deps, a.denom = n0 ∨ a.denom = n1 := by
    intro a ha
    obtain ⟨pa, hpa, he⟩ := hall a ha
    rw [hassets] at hpa
    simp only [List.mem_cons, List.mem_singleton, List.not_mem_nil, or_false] at hpa
    rcases hpa with rfl | rfl
    · exact Or.inl he.symm
    · exact Or.inr he.symm
  obtain ⟨d0, d1, hdeps⟩ := two_deposits (aggregateCoins_nodup hfunds hagg) hall2 hlen
    (by intro e; rw [e] at hnemp; cases hnemp)
  have h01 : (n0 == n1) = false := by simpa using hne
  have h10 : (n1 == n0) = false := by simpa using fun e => hne e.symm
  have hc0 : coinsOf deps n0 = d0 := by
    rcases hdeps with rfl | rfl <;> simp [coinsOf_cons, amt, h01, h10]
  have hc1 : coinsOf deps n1 = d1 := by
    rcases hdeps with rfl | rfl <;> simp [coinsOf_cons, amt, h01, h10]
  -- the new reserves
  have hden : assets'.map (·.denom) = [n0, n1] := by
    rw [SysPm.foldlM_denoms (fun _ _ _ => SysPm.depositStep_denoms) _ hfold, hassets]; rfl
  have has' := two_of_denoms hden hne
  have hx' : coinsOf assets' n0 = x + d0 := by
    rw [C01.depositFold_coins hfold, hassets, hc0]; simp [coinsOf_cons, amt, h01, h10]
  have hy' : coinsOf assets' n1 = y + d1 := by
    rw [C01.depositFold_coins hfold, hassets, hc1]; simp [coinsOf_cons, amt, h01, h10]
  rw [hx', hy'] at has'
  -- what is minted
  have hmint1 : total (mintW p.lpDenom) (msgs1.map (fun m => ({ msg := m } : SubMsg))) = shares := by
    rcases hshare with ⟨-, rfl⟩ | ⟨-, fmsg, -, rfl⟩ <;>
      simp only [total_mk_cons, total_mk_nil, mintW, amt_eq, Nat.add_zero]
  refine ⟨x + d0, y + d1, by rw [hs', has'], Nat.le_add_right _ _, Nat.le_add_right _ _, ?_, ?_⟩
  · intro h0
    rw [h0] at hsh
    have hm0 := cp_first_mint_any hsh
    rw [hmsgs, total_mk_append, hmint1, hm0]
    simp only [total_mk_cons, total_mk_nil, mintW, amt_eq, Nat.add_zero]
    have : 0 < C.MINIMUM_LIQUIDITY_AMOUNT := by decide
    omega
  · intro hS
    have hm0 : msgs0 = [] := (cpShares_first hsh).2 hS
    have hM : total (mintW p.lpDenom) r.msgs = shares := by
      rw [hmsgs, total_mk_append, hmint1, hm0]; simp
    rw [hM]
    rw [hassets] at hsh
    have hform : shares = min (d0 * env.supply p.lpDenom / x) (d1 * env.supply p.lpDenom / y) ∧ x ≠ 0 ∧ y ≠ 0 := by
      rcases hdeps with rfl | rfl
      · obtain ⟨a, -, b, c⟩ := C02.cp_mint_formula hS hne hsh
        exact ⟨a, b, c⟩
      · obtain ⟨a, -, b, c⟩ := cp_mint_formula_sw hS hne hsh
        exact ⟨a, b, c⟩
    obtain ⟨hf, hx0, hy0⟩ := hform
    obtain ⟨k0, k1⟩ := C02.cp_mint_le_share hx0 hy0 hf
    exact C02.cp_value_per_lp_mono k0 k1

/-! ### withdrawals -/

theorem coinsOf_filter_pos (cs : List Coin) (d : Denom) :
    coinsOf (cs.filter (·.amount > 0)) d = coinsOf cs d := by
  induction cs with
  | nil => rfl
  | cons c cs ih =>
    by_cases hc : c.amount > 0
    · rw [List.filter_cons_of_pos (by simpa using hc), coinsOf_cons, coinsOf_cons, ih]
    · rw [List.filter_cons_of_neg (by simpa using hc), coinsOf_cons, ih]
      have : c.amount = 0 := by omega
      simp [amt, this]

/-- a withdrawal from a constant-product pool pays ⌊reserve·burned/supply⌋ per asset: x·y/S² does not decrease,
    and burning the whole supply empties the pool -/
theorem withdraw_cp {s s' : PmState} {env : PmEnv} {sender : Addr} {funds : List Coin} {pid : String}
    {r : Response} {p : PoolInfo} {n0 n1 : Denom} {x y : Nat} (hp : s.getPool pid = .ok p)
    (hc : Cp2 p n0 n1 x y) (h : withdrawLiquidity s env sender funds pid = .ok (s', r)) :
    ∃ x' y' b, s' = s.savePool { p with assets := [⟨n0, x'⟩, ⟨n1, y'⟩] } ∧
      total (burnW env.tfFees p.lpDenom) r.msgs = b ∧ b ≠ 0 ∧ env.supply p.lpDenom ≠ 0 ∧
      (b ≤ env.supply p.lpDenom →
        x * y * ((env.supply p.lpDenom - b) * (env.supply p.lpDenom - b)) ≤
          x' * y' * (env.supply p.lpDenom * env.supply p.lpDenom)) ∧
      (b = env.supply p.lpDenom → x' = 0 ∧ y' = 0) := by
  obtain ⟨hcp, hassets, hne⟩ := hc
  obtain ⟨amount, hfu, hne0, hS, hmsgsF⟩ := C02.withdraw_refunds_are_floor hp h
  obtain ⟨pool, amount', refunds, assets', hp', hf', hfold, hs', hmsgs⟩ := withdraw_ok h
  rw [hp] at hp'
  cases hp'
  have hm2 : r.msgs.map (·.msg) = [Msg.bankSend sender refunds, Msg.tfBurn ⟨p.lpDenom, amount'⟩] := by
    rw [hmsgs]; rfl
  rw [hm2] at hmsgsF
  simp only [List.cons.injEq, Msg.bankSend.injEq, Msg.tfBurn.injEq, Coin.mk.injEq, true_and, and_true] at hmsgsF
  obtain ⟨hrefunds, hamt⟩ := hmsgsF
  subst hamt
  have h01 : (n0 == n1) = false := by simpa using hne
  have h10 : (n1 == n0) = false := by simpa using fun e => hne e.symm
  have hr0 : coinsOf refunds n0 = x * amount' / env.supply p.lpDenom := by
    rw [hrefunds, coinsOf_filter_pos, hassets]; simp [coinsOf_cons, amt, h01, h10]
  have hr1 : coinsOf refunds n1 = y * amount' / env.supply p.lpDenom := by
    rw [hrefunds, coinsOf_filter_pos, hassets]; simp [coinsOf_cons, amt, h01, h10]
  have hden : assets'.map (·.denom) = [n0, n1] := by
    rw [SysPm.foldlM_denoms (fun _ _ _ => SysPm.withdrawStep_denoms) _ hfold, hassets]; rfl
  have has' := two_of_denoms hden hne
  have hx' := C01.withdrawFold_coins hfold n0
  have hy' := C01.withdrawFold_coins hfold n1
  rw [hr0, hassets] at hx'
  rw [hr1, hassets] at hy'
  simp only [coinsOf_cons, coinsOf_nil, amt, h01, h10, beq_self_eq_true, if_true, if_false, Bool.false_eq_true,
    Nat.add_zero, Nat.zero_add] at hx' hy'
  have ex : coinsOf assets' n0 = x - x * amount' / env.supply p.lpDenom := by omega
  have ey : coinsOf assets' n1 = y - y * amount' / env.supply p.lpDenom := by omega
  rw [ex, ey] at has'
  refine ⟨_, _, amount', by rw [hs', has'], ?_, hne0, hS, ?_, ?_⟩
  · rw [hmsgs]
    simp only [total_mk_cons, total_mk_nil, burnW, amt_eq, Nat.add_zero, Nat.zero_add]
  · intro hb
    exact C02.withdraw_value_per_lp_mono hb (Nat.div_mul_le_self _ _) (Nat.div_mul_le_self _ _)
  · intro hb
    rw [hb]
    have hpos : 0 < env.supply p.lpDenom := Nat.pos_of_ne_zero hS
    rw [Nat.mul_div_cancel _ hpos, Nat.mul_div_cancel _ hpos]
    omega

/-! ### one call that is not a single-asset deposit: every constant-product pool -/

/-- value per LP token did not decrease, given that an LP token that does not exist belongs to an empty pool
    (and this is passed on) -/
def PoolFwd (S S' x y x' y' : Nat) : Prop :=
  (S = 0 → x = 0 ∧ y = 0) →
    x * y * (S' * S') ≤ x' * y' * (S * S) ∧ (S' = S → x * y ≤ x' * y') ∧ (S' = 0 → x' = 0 ∧ y' = 0)

/-- neither a deposit nor a withdrawal -/
def Neutral : PmMsg → Prop
  | .provideLiquidity .. => False
  | .withdrawLiquidity _ => False
  | _ => True

theorem poolFwd_of_grow {S x y x' y' : Nat} (hk : x * y ≤ x' * y') (hz : x = 0 → y = 0 → x' = 0 ∧ y' = 0) :
    PoolFwd S S x y x' y' := by
  intro U
  refine ⟨Nat.mul_le_mul_right _ hk, fun _ => hk, fun h0 => ?_⟩
  obtain ⟨a, b⟩ := U h0
  exact hz a b

theorem heff_neutral {s : PmState} {env : PmEnv} {sender : Addr} {funds : List Coin} {m : PmMsg} {r : Response}
    {d : Denom} (hN : Neutral m) (h : HEff s env sender funds m r d) :
    total (mintW d) r.msgs = 0 ∧ total (burnW env.tfFees d) r.msgs = 0 := by
  cases h with
  | neutral n _ => exact ⟨n.m, n.b⟩
  | create _ _ n _ _ => exact ⟨n.m, n.b⟩
  | deposit _ _ _ _ _ _ hm => rw [hm] at hN; exact hN.elim
  | withdraw _ hm => rw [hm] at hN; exact hN.elim

theorem heff_provide {s : PmState} {env : PmEnv} {sender : Addr} {funds : List Coin} {r : Response}
    {d : Denom} {ls ss : Option Nat} {rc : Option Addr} {pid : String} {u : Option Nat} {l : Option String}
    {q : PoolInfo} (hq : s.getPool pid = .ok q)
    (h : HEff s env sender funds (.provideLiquidity ls ss rc pid u l) r d) :
    total (burnW env.tfFees d) r.msgs = 0 ∧ (q.lpDenom ≠ d → total (mintW d) r.msgs = 0) := by
  cases h with
  | neutral n _ => exact ⟨n.b, fun _ => n.m⟩
  | create hm _ _ _ _ => obtain ⟨_, _, _, _, _, hm⟩ := hm; cases hm
  | deposit ls' ss' rc' pid' u' l' hm pool hp hd first shares gift O n =>
    simp only [PmMsg.provideLiquidity.injEq] at hm
    obtain ⟨-, -, -, rfl, -, -⟩ := hm
    rw [hq] at hp
    cases hp
    exact ⟨n.b, fun hne => absurd hd hne⟩
  | withdraw _ hm => cases hm

theorem heff_withdraw {s : PmState} {env : PmEnv} {sender : Addr} {funds : List Coin} {r : Response}
    {d : Denom} {pid : String} {q : PoolInfo} (hq : s.getPool pid = .ok q)
    (h : HEff s env sender funds (.withdrawLiquidity pid) r d) :
    total (mintW d) r.msgs = 0 ∧ (q.lpDenom ≠ d → total (burnW env.tfFees d) r.msgs = 0) := by
  cases h with
  | neutral n _ => exact ⟨n.m, fun _ => n.b⟩
  | create hm _ _ _ _ => obtain ⟨_, _, _, _, _, hm⟩ := hm; cases hm
  | deposit _ _ _ _ _ _ hm => cases hm
  | withdraw pid' hm pool hp hd amount hfu n =>
    simp only [PmMsg.withdrawLiquidity.injEq] at hm
    subst hm
    rw [hq] at hp
    cases hp
    exact ⟨n.m, fun hne => absurd hd hne⟩

/-- the effect of one call on all constant-product pools -/
structure LeafFwd (w w' : World) (m : PmMsg) : Prop where
  fwd : ∀ p ∈ w.pm.pools, ∀ n0 n1 x y, Cp2 p n0 n1 x y → ∃ p' ∈ w'.pm.pools, ∃ x' y',
    C16.StaticEq p p' ∧ Cp2 p' n0 n1 x' y' ∧
    PoolFwd (w.bank.supply p.lpDenom) (w'.bank.supply p.lpDenom) x y x' y' ∧
    (Neutral m → w'.bank.supply p.lpDenom = w.bank.supply p.lpDenom ∧ x * y ≤ x' * y' ∧
      (x = 0 → y = 0 → x' = 0 ∧ y' = 0))
  back : ∀ p' ∈ w'.pm.pools, (∃ p ∈ w.pm.pools, p.id = p'.id) ∨ ∀ a ∈ p'.assets, a.amount = 0

theorem back_of_ids {s s' : PmState} (h : s'.pools.map (·.id) = s.pools.map (·.id)) :
    ∀ p' ∈ s'.pools, (∃ p ∈ s.pools, p.id = p'.id) ∨ ∀ a ∈ p'.assets, a.amount = 0 := by
  intro p' hp'
  have : p'.id ∈ s'.pools.map (·.id) := List.mem_map_of_mem hp'
  rw [h] at this
  obtain ⟨p, hp, hpe⟩ := List.mem_map.1 this
  exact Or.inl ⟨p, hp, hpe⟩

theorem leaf_back {s s' : PmState} {env : PmEnv} {sender : Addr} {funds : List Coin} {m : PmMsg} {r : Response}
    (h : pmExecute s env sender funds m = .ok (s', r)) :
    ∀ p' ∈ s'.pools, (∃ p ∈ s.pools, p.id = p'.id) ∨ ∀ a ∈ p'.assets, a.amount = 0 := by
  rcases pmExecute_cases h with hs | ⟨dn, dc, f, pt, id, rfl, hc⟩ | ⟨s1, cfg, _, hs, rfl⟩ | ⟨o, _, rfl⟩
  · exact back_of_ids hs.ids
  · obtain ⟨p, hfresh, hpools, -, -, hpe⟩ := createPool_pools hc
    intro p' hp'
    rw [hpools] at hp'
    rcases mem_insertPoolSorted.1 hp' with rfl | hp'
    · right
      rw [hpe]
      intro a ha
      obtain ⟨d, -, rfl⟩ := List.mem_map.1 ha
      rfl
    · exact Or.inl ⟨p', hp', rfl⟩
  · exact back_of_ids (s := s) (s' := { s1 with config := cfg }) hs.ids
  · exact fun p' hp' => Or.inl ⟨p', hp', rfl⟩

theorem leaf_fwd {n : Nat} {w w' : World} {sender c : Addr} {m : PmMsg} {funds : List Coin}
    (hfunds : (funds.map (·.denom)).Nodup) (hns : SysPm.NotSingle m funds) (hc : Covers w.bank)
    (hok : LpOk w.pm) (hpl : ∀ p ∈ w.pm.pools, PlainD p.lpDenom w)
    (h : execMsg (n + 1) w sender (.wasmExec c (.pm m) funds) = .ok w') : LeafFwd w w' m := by
  constructor
  · intro p hp n0 n1 x y hcp2
    obtain ⟨w1, s', r, fi, hpe, hpm, -, -, -, heff, hsup, -⟩ := call_d hfunds hns hc (hpl p hp) h
    have hsupply : w1.pmEnv.supply p.lpDenom = w.bank.supply p.lpDenom := fi.sup _
    -- a handler that leaves the pool's reserves growing and the LP supply alone
    have hgrow : Neutral m → Grow s' p n0 n1 x y →
        ∃ p' ∈ w'.pm.pools, ∃ x' y', C16.StaticEq p p' ∧ Cp2 p' n0 n1 x' y' ∧
          PoolFwd (w.bank.supply p.lpDenom) (w'.bank.supply p.lpDenom) x y x' y' ∧
          (Neutral m → w'.bank.supply p.lpDenom = w.bank.supply p.lpDenom ∧ x * y ≤ x' * y' ∧
            (x = 0 → y = 0 → x' = 0 ∧ y' = 0)) := by
      intro hN ⟨p', hp', x', y', he, hc', hk, hz⟩
      obtain ⟨e1, e2⟩ := heff_neutral hN heff
      rw [e1, e2] at hsup
      have hS : w'.bank.supply p.lpDenom = w.bank.supply p.lpDenom := by omega
      refine ⟨p', by rw [hpm]; exact hp', x', y', he, hc', ?_, fun _ => ⟨hS, hk, hz⟩⟩
      rw [hS]
      exact poolFwd_of_grow hk hz
    -- a pool that the handler does not touch, with its LP supply unchanged
    have hsame : p ∈ s'.pools → w'.bank.supply p.lpDenom = w.bank.supply p.lpDenom → ¬ Neutral m →
        ∃ p' ∈ w'.pm.pools, ∃ x' y', C16.StaticEq p p' ∧ Cp2 p' n0 n1 x' y' ∧
          PoolFwd (w.bank.supply p.lpDenom) (w'.bank.supply p.lpDenom) x y x' y' ∧
          (Neutral m → w'.bank.supply p.lpDenom = w.bank.supply p.lpDenom ∧ x * y ≤ x' * y' ∧
            (x = 0 → y = 0 → x' = 0 ∧ y' = 0)) := by
      intro hp' hS hN
      refine ⟨p, by rw [hpm]; exact hp', x, y, C16.StaticEq.refl p, hcp2, ?_, fun h => absurd h hN⟩
      rw [hS]
      exact poolFwd_of_grow (Nat.le_refl _) (fun a b => ⟨a, b⟩)
    cases m with
    | createPool denoms decimals fees pt id =>
      simp only [pmExecute] at hpe
      obtain ⟨q, -, hpools, -⟩ := createPool_pools hpe
      exact hgrow trivial (grow_refl (by rw [hpools]; exact mem_insertPoolSorted.2 (Or.inr hp)) hcp2)
    | swap ask b ms rc pid =>
      simp only [pmExecute] at hpe
      obtain ⟨offer, sr, -, hps, -⟩ := C04.swapHandler_messages hpe
      exact hgrow trivial (performSwap_grow hok.1 hps hp hcp2)
    | execSwapOps ops mr rc ms =>
      simp only [pmExecute] at hpe
      obtain ⟨first, last, amount, out, fm, -, -, -, hroute, -⟩ := execSwapOps_ok hpe
      exact hgrow trivial (routeHops_grow ops _ _ _ _ _ _ hok.1 hroute p hp n0 n1 x y hcp2)
    | updateConfig fc fm cf t =>
      obtain ⟨-, -, -, hpools⟩ := pmExecute_config_ok (Or.inl ⟨fc, fm, cf, t, rfl⟩) hpe
      apply hgrow trivial
      rcases hpools with hpl' | ⟨pid, q, st, hq, hpl'⟩
      · exact grow_refl (by rw [hpl']; exact hp) hcp2
      · obtain ⟨hqm, -⟩ := getPool_ok hq
        by_cases hpq : p.id = q.id
        · have : p = q := C16.eq_of_nodup_ids hok.1 p hp q hqm hpq
          subst this
          refine ⟨{ p with status := st }, by rw [hpl']; exact savePool_self_mem hq rfl, x, y,
            ⟨rfl, rfl, rfl, rfl, rfl, rfl⟩, ⟨hcp2.1, hcp2.2.1, hcp2.2.2⟩, Nat.le_refl _, fun a b => ⟨a, b⟩⟩
        · exact grow_refl (by rw [hpl']; exact savePool_other_mem hq rfl hp hpq) hcp2
    | updateOwnership a =>
      obtain ⟨-, -, -, hpools⟩ := pmExecute_config_ok (Or.inr ⟨a, rfl⟩) hpe
      apply hgrow trivial
      rcases hpools with hpl' | ⟨pid, q, st, hq, hpl'⟩
      · exact grow_refl (by rw [hpl']; exact hp) hcp2
      · obtain ⟨hqm, -⟩ := getPool_ok hq
        by_cases hpq : p.id = q.id
        · have : p = q := C16.eq_of_nodup_ids hok.1 p hp q hqm hpq
          subst this
          refine ⟨{ p with status := st }, by rw [hpl']; exact savePool_self_mem hq rfl, x, y,
            ⟨rfl, rfl, rfl, rfl, rfl, rfl⟩, ⟨hcp2.1, hcp2.2.1, hcp2.2.2⟩, Nat.le_refl _, fun a b => ⟨a, b⟩⟩
        · exact grow_refl (by rw [hpl']; exact savePool_other_mem hq rfl hp hpq) hcp2
    | provideLiquidity ls ss rc pid u l =>
      simp only [pmExecute] at hpe
      have hns' : 2 ≤ funds.length := hns
      obtain ⟨deps, hagg, -⟩ := pl_agg hpe
      have hlen : deps.length ≠ 1 := by rw [aggregateCoins_length hfunds hagg]; omega
      obtain ⟨q, sh, m0, hq, -, -, htail⟩ := pl_multi_full hagg hlen hpe
      obtain ⟨assets', msgs1, -, hs', -, -⟩ := plTail_full htail
      obtain ⟨hqm, -⟩ := getPool_ok hq
      obtain ⟨hb0, hm0⟩ := heff_provide hq heff
      rw [hb0] at hsup
      by_cases hpq : p.id = q.id
      · have : p = q := C16.eq_of_nodup_ids hok.1 p hp q hqm hpq
        subst this
        obtain ⟨x', y', hs'', hx, hy, hM0, hMv⟩ := provide_cp hfunds hns' hq hcp2 hpe
        rw [hsupply] at hM0 hMv
        have hS : w'.bank.supply p.lpDenom = w.bank.supply p.lpDenom + total (mintW p.lpDenom) r.msgs := by omega
        refine ⟨{ p with assets := [⟨n0, x'⟩, ⟨n1, y'⟩] }, by rw [hpm, hs'']; exact savePool_self_mem hq rfl, x', y',
          ⟨rfl, rfl, rfl, rfl, rfl, rfl⟩, ⟨hcp2.1, rfl, hcp2.2.2⟩, ?_, fun h => h.elim⟩
        intro U
        refine ⟨?_, fun _ => Nat.mul_le_mul hx hy, fun h0 => ?_⟩
        · by_cases hS0 : w.bank.supply p.lpDenom = 0
          · obtain ⟨rfl, rfl⟩ := U hS0
            simp
          · rw [hS]
            exact hMv hS0
        · exfalso
          have hS0 : w.bank.supply p.lpDenom = 0 := by omega
          have := hM0 hS0
          omega
      · have hne : q.lpDenom ≠ p.lpDenom := by
          intro e
          exact hpq (congrArg PoolInfo.id (pool_unique hok hp hqm e.symm))
        rw [hm0 hne] at hsup
        exact hsame (by rw [hs']; exact savePool_other_mem hq rfl hp hpq) (by omega) (fun h => h)
    | withdrawLiquidity pid =>
      simp only [pmExecute] at hpe
      obtain ⟨q, amount, refunds, assets', hq, -, -, hs', -⟩ := withdraw_ok hpe
      obtain ⟨hqm, -⟩ := getPool_ok hq
      obtain ⟨hm0, hb0⟩ := heff_withdraw hq heff
      rw [hm0] at hsup
      by_cases hpq : p.id = q.id
      · have : p = q := C16.eq_of_nodup_ids hok.1 p hp q hqm hpq
        subst this
        obtain ⟨x', y', b, hs'', hb, hbne, hSne, hv, hz⟩ := withdraw_cp hq hcp2 hpe
        rw [hsupply] at hSne hv hz
        have hb' : total (burnW w1.pmEnv.tfFees p.lpDenom) r.msgs = b := hb
        rw [hb'] at hsup
        have hS : w'.bank.supply p.lpDenom = w.bank.supply p.lpDenom - b := by omega
        have hle : b ≤ w.bank.supply p.lpDenom := by omega
        refine ⟨{ p with assets := [⟨n0, x'⟩, ⟨n1, y'⟩] }, by rw [hpm, hs'']; exact savePool_self_mem hq rfl, x', y',
          ⟨rfl, rfl, rfl, rfl, rfl, rfl⟩, ⟨hcp2.1, rfl, hcp2.2.2⟩, ?_, fun h => h.elim⟩
        intro U
        refine ⟨by rw [hS]; exact hv hle, fun h0 => by omega, fun h0 => hz (by omega)⟩
      · have hne : q.lpDenom ≠ p.lpDenom := by
          intro e
          exact hpq (congrArg PoolInfo.id (pool_unique hok hp hqm e.symm))
        have := hb0 hne
        rw [this] at hsup
        exact hsame (by rw [hs']; exact savePool_other_mem hq rfl hp hpq) (by omega) (fun h => h)
  · obtain ⟨-, w1, s', r, fi, hpe, hpm, -⟩ := pm_call hfunds hns hc h
    rw [hpm]
    exact leaf_back hpe

/-! ### whole transactions -/

/-- the effect of a whole transaction on all constant-product pools -/
structure TxFwd (w w' : World) : Prop where
  fwd : ∀ p ∈ w.pm.pools, ∀ n0 n1 x y, Cp2 p n0 n1 x y → ∃ p' ∈ w'.pm.pools, ∃ x' y',
    C16.StaticEq p p' ∧ Cp2 p' n0 n1 x' y' ∧
    PoolFwd (w.bank.supply p.lpDenom) (w'.bank.supply p.lpDenom) x y x' y'
  back : ∀ p' ∈ w'.pm.pools, (∃ p ∈ w.pm.pools, p.id = p'.id) ∨ ∀ a ∈ p'.assets, a.amount = 0

theorem TxFwd.of_leaf {w w' : World} {m : PmMsg} (h : LeafFwd w w' m) : TxFwd w w' :=
  ⟨fun p hp n0 n1 x y hc => by
    obtain ⟨p', hp', x', y', e, c', pf, -⟩ := h.fwd p hp n0 n1 x y hc
    exact ⟨p', hp', x', y', e, c', pf⟩, h.back⟩

/-- nothing happened to the pools and to the supplies -/
theorem TxFwd.of_same {w w' : World} (hpm : w'.pm = w.pm) (hsup : ∀ d, w'.bank.supply d = w.bank.supply d) :
    TxFwd w w' := by
  constructor
  · intro p hp n0 n1 x y hc
    refine ⟨p, by rw [hpm]; exact hp, x, y, C16.StaticEq.refl p, hc, ?_⟩
    rw [hsup]
    exact poolFwd_of_grow (Nat.le_refl _) (fun a b => ⟨a, b⟩)
  · intro p' hp'
    rw [hpm] at hp'
    exact Or.inl ⟨p', hp', rfl⟩

theorem single_fwd {w w' : World} {sender c : Addr} {coin : Coin} {ls ss : Option Nat} {rc : Option Addr}
    {pid : String} {u : Option Nat} {l : Option String} (hs : sender ≠ PM) (hc : Covers w.bank)
    (hok : LpOk w.pm) (hpl : ∀ p ∈ w.pm.pools, PlainD p.lpDenom w)
    (hr : execMsg FUEL w sender (.wasmExec c (.pm (.provideLiquidity ls ss rc pid u l)) [coin]) = .ok w') :
    TxFwd w w' := by
  obtain ⟨w1, w3, buf, ask, fi, hoh, hea, hne, -, -, -, -, hswap, hbuf3, hsecond⟩ := single_tree hs hc hr
  -- the self-swap
  have hoka : LpOk ({ w.pm with buffer := some buf } : PmState) := lpOk_of_pools rfl hok
  have hpla : ∀ p ∈ w.pm.pools, PlainD p.lpDenom { w1 with pm := { w.pm with buffer := some buf } } := by
    intro p hp
    exact ⟨plain_of_pools rfl (hpl p hp).1, by show ∀ f ∈ w1.tfFees, _; rw [fi.tf]; exact (hpl p hp).2⟩
  have lf1 := leaf_fwd (n := 61) (w := { w1 with pm := { w.pm with buffer := some buf } }) (funds := [buf.offerHalf])
    (m := .swap ask none ss none pid) (by simp) trivial fi.cov hoka hpla hswap
  obtain ⟨-, w1a, s3, r3, fi2, hpe3, hpm3, -⟩ :=
    pm_call (n := 61) (w := { w1 with pm := { w.pm with buffer := some buf } }) (funds := [buf.offerHalf])
      (m := .swap ask none ss none pid) (by simp) trivial fi.cov hswap
  have hsw := hpe3
  simp only [pmExecute] at hsw
  have hstep : PmStep { w.pm with buffer := some buf } s3 := swapHandler_step hsw
  have hok3 : LpOk s3 := C16Sys.pmStep_lp hstep hoka
  obtain ⟨hcov3, htf3⟩ := (exec_covers 62).1 _ _ _ _ hswap fi.cov
  have hids3 : w3.pm.pools.map (·.id) = w.pm.pools.map (·.id) := by rw [hpm3]; exact hstep.ids
  -- the second leg
  have hokb : LpOk ({ w3.pm with buffer := none } : PmState) := lpOk_of_pools (s := s3) (by rw [hpm3]) hok3
  have hplb : ∀ p3 ∈ w3.pm.pools, PlainD p3.lpDenom { w3 with pm := { w3.pm with buffer := none } } := by
    intro p3 hp3
    have hmem : p3.id ∈ w3.pm.pools.map (·.id) := List.mem_map_of_mem hp3
    rw [hids3] at hmem
    obtain ⟨p, hp, hpe⟩ := List.mem_map.1 hmem
    have hlp : p3.lpDenom = p.lpDenom := by
      rw [hokb.2 p3 hp3, hok.2 p hp, hpe]
    rw [hlp]
    refine ⟨plain_of_pools (s := s3) (by rw [hpm3]) (pmStep_plain hstep (hpla p hp).1), ?_⟩
    show ∀ f ∈ w3.tfFees, _
    rw [htf3]
    exact (hpla p hp).2
  have hnd : (([buf.offerHalf, buf.expectedAsk] : List Coin).map (·.denom)).Nodup := by
    rw [hoh]
    simp [hea, hne]
  have lf2 := leaf_fwd (n := 60) (w := { w3 with pm := { w3.pm with buffer := none } })
    (funds := [buf.offerHalf, buf.expectedAsk])
    (m := .provideLiquidity buf.liqSlip buf.swapSlip (some buf.receiver) buf.poolId buf.unlocking buf.lockId)
    hnd (Nat.le_refl 2) hcov3 hokb hplb hsecond
  constructor
  · intro p hp n0 n1 x y hcp2
    obtain ⟨p3, hp3, x3, y3, e1, c3, -, hN⟩ := lf1.fwd p hp n0 n1 x y hcp2
    obtain ⟨hS3, hk3, hz3⟩ := hN trivial
    obtain ⟨p', hp', x', y', e2, c', pf, -⟩ := lf2.fwd p3 hp3 n0 n1 x3 y3 c3
    refine ⟨p', hp', x', y', e1.trans e2, c', ?_⟩
    have hlp : p3.lpDenom = p.lpDenom := e1.2.2.2.2.2.symm
    rw [hlp] at pf
    have hS3' : w3.bank.supply p.lpDenom = w.bank.supply p.lpDenom := by
      have : w3.bank.supply p.lpDenom = w1.bank.supply p.lpDenom := hS3
      rw [this, fi.sup]
    have pf' : PoolFwd (w.bank.supply p.lpDenom) (w'.bank.supply p.lpDenom) x3 y3 x' y' := by
      have : PoolFwd (w3.bank.supply p.lpDenom) (w'.bank.supply p.lpDenom) x3 y3 x' y' := pf
      rw [hS3'] at this
      exact this
    intro U
    obtain ⟨v, k, z⟩ := pf' (fun h0 => by obtain ⟨a, b⟩ := U h0; exact hz3 a b)
    exact ⟨Nat.le_trans (Nat.mul_le_mul_right _ hk3) v, fun h0 => Nat.le_trans hk3 (k h0), z⟩
  · intro p' hp'
    rcases lf2.back p' hp' with ⟨p3, hp3, hpe⟩ | hz
    · have hmem : p3.id ∈ w3.pm.pools.map (·.id) := List.mem_map_of_mem hp3
      rw [hids3] at hmem
      obtain ⟨p, hp, hpe'⟩ := List.mem_map.1 hmem
      exact Or.inl ⟨p, hp, hpe'.trans hpe⟩
    · exact Or.inr hz

/-- every transaction sent to the pool manager by an external account -/
theorem tx_pm_fwd {w w' : World} {sender c : Addr} {m : PmMsg} {funds : List Coin}
    (hs : sender ≠ PM) (hfunds : (funds.map (·.denom)).Nodup) (hc : Covers w.bank) (hok : LpOk w.pm)
    (hpl : ∀ p ∈ w.pm.pools, PlainD p.lpDenom w)
    (hr : execMsg FUEL w sender (.wasmExec c (.pm m) funds) = .ok w') : TxFwd w w' := by
  by_cases hns : SysPm.NotSingle m funds
  · rw [show FUEL = 63 + 1 from rfl] at hr
    exact TxFwd.of_leaf (leaf_fwd hfunds hns hc hok hpl hr)
  · cases m with
    | provideLiquidity ls ss rc pid u l =>
      match funds, hns, hr with
      | [], _, hr => exact (C01Sys.no_funds_tx (n := 63) hr).elim
      | [coin], _, hr => exact single_fwd hs hc hok hpl hr
      | _ :: _ :: _, hns, _ => exact absurd (by simp [SysPm.NotSingle]) hns
    | _ => exact absurd trivial hns

end MantraDex.LpSys
