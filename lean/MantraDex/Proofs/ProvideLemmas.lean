/-
  Inversion lemmas for `provideLiquidity` (single-asset and multi-asset branches) and helpers for
  `aggregateCoins`, shared by the C01 and C14 property files.
-/
import MantraDex.Model.System
import MantraDex.Proofs.NumLemmas
set_option linter.unusedSimpArgs false
namespace MantraDex

theorem agg_single (c : Coin) : aggregateCoins [c] = .ok [c] := rfl

theorem err_bind_ok {α β : Type} {e : Err} {k : α → R β} {y : β} : (((Except.error e : R α) >>= k) = .ok y) = False := by
  simp [bind, Except.bind]

theorem ok_bind {α β : Type} {a : α} {k : α → R β} : ((Except.ok a : R α) >>= k) = k a := rfl
theorem pure_bind' {α β : Type} {a : α} {k : α → R β} : ((pure a : R α) >>= k) = k a := rfl

theorem ite_err_bind_ok {α β : Type} {c : Prop} [Decidable c] {e : Err} {k : α → R β} {b : R β} {y : β} :
    ((if c then ((Except.error e : R α) >>= k) else b) = .ok y) = (¬ c ∧ b = .ok y) := by
  split <;> simp_all [bind, Except.bind]

theorem getD?_ok' {α : Type} {xs : List α} {i : Nat} {x : α} :
    getD? xs i = .ok x ↔ xs[i]? = some x := by
  unfold getD?
  split
  next y hy => simp [hy]
  next hy => simp [hy]

theorem pl_single {s s' : PmState} {env : PmEnv} {sender : Addr} {funds : List Coin} {c : Coin}
    {ls ss : Option Nat} {recv : Option Addr} {pid : String} {u : Option Nat} {l : Option String}
    {r : Response} (hagg : aggregateCoins funds = .ok [c])
    (h : provideLiquidity s env sender funds ls ss recv pid u l = .ok (s', r)) :
    ∃ pool ask sim, s.getPool pid = .ok pool ∧
      (u.isSome && addrOrDefault env recv sender != sender) = false ∧
      pool.assets.any (·.amount == 0) = false ∧ pool.assets.length = 2 ∧
      computeSwap pool ⟨c.denom, c.amount / 2⟩ ask = .ok sim ∧
      s' = { s with buffer := some {
        receiver := addrOrDefault env recv sender, expOffer := ⟨c.denom, env.bal env.self c.denom⟩,
        expAsk := ⟨ask, env.bal env.self ask - (sim.protocolFee + sim.burnFee)⟩,
        offerHalf := ⟨c.denom, c.amount / 2⟩,
        expectedAsk := ⟨ask, sim.ret⟩, swapSlip := ss, liqSlip := ls, poolId := pid,
        unlocking := u, lockId := l } } ∧
      r.msgs = [{ msg := .wasmExec env.self (.pm (.swap ask none ss none pid)) [⟨c.denom, c.amount / 2⟩],
                  replyOn := .success, id := C.SINGLE_SIDE_REPLY_ID }] := by
  unfold provideLiquidity at h
  simp only [hagg, ↓ok_bind, ↓ite_err_bind_ok, ↓bind_ok, ↓err_bind_ok, List.length_singleton, ↓reduceIte, pure_ok, getD?_ok',
    ↓pure_bind'] at h
  obtain ⟨pool, hp, hst, d, hd, -, -, h⟩ := h
  cases hd
  simp only [↓ok_bind, ↓ite_err_bind_ok, ↓bind_ok, ↓err_bind_ok, List.length_singleton, ↓reduceIte, pure_ok, getD?_ok',
    ↓pure_bind', List.getElem?_cons_zero, Option.some.injEq] at h
  obtain ⟨h1, h2, h3, d, rfl, h⟩ := h
  split at h
  next x hx =>
    simp only [↓ok_bind, ↓ite_err_bind_ok, ↓bind_ok, ↓err_bind_ok, pure_ok, ckAdd_ok, Prod.mk.injEq] at h
    obtain ⟨sim, hsim, _, ⟨_, rfl⟩, _, rfl, rfl⟩ := h
    refine ⟨pool, x.denom, sim, hp, by simpa using h1, by simpa using h2, by simpa using h3, hsim, rfl, rfl⟩
  next => simp only [↓err_bind_ok] at h

def depositStep (as : List Coin) (d : Coin) : R (List Coin) := do
  let i ← match findIdx (fun c : Coin => c.denom == d.denom) as with
    | some i => pure i | none => .error .mismatch
  let c ← getD? as i
  let a ← ckAdd U128_MAX c.amount d.amount
  pure (setAmount as i a)

def plTail (s : PmState) (env : PmEnv) (sender : Addr) (pool : PoolInfo) (deposits : List Coin)
    (liqSlip : Option Nat) (recv : Addr) (unlocking : Option Nat) (lockId : Option String)
    (shares : Nat) (msgs0 : List Msg) : R (PmState × Response) := do
    let lp := pool.lpDenom
    let poolAssets := pool.assets
    let poolAssets' ← assertSlippageTolerance liqSlip deposits poolAssets pool.ptype
    let msgs1 ← match unlocking with
      | some u => do
        if !(recv == sender || sender == env.self) then .error .unauthorized
        let mintSelf : Msg := .tfMint ⟨lp, shares⟩ env.self
        let lockMsg ← match lockId with
          | some pid =>
            match env.fmPosition pid with
            | some (id, r) =>
              if !(id == pid && r == recv) then .error .unauthorized
              else pure (Msg.wasmExec s.config.farmManager (.fm (.expandPosition pid)) [⟨lp, shares⟩])
            | none =>
              pure (Msg.wasmExec s.config.farmManager (.fm (.createPosition (some pid) u (some recv))) [⟨lp, shares⟩])
          | none =>
            pure (Msg.wasmExec s.config.farmManager (.fm (.createPosition none u (some recv))) [⟨lp, shares⟩])
        pure [mintSelf, lockMsg]
      | none =>
        if !env.validAddr recv then .error .invalidInput
        else pure [Msg.tfMint ⟨lp, shares⟩ recv]
    let assets' ← deposits.foldlM (fun as d => do
      let i ← match findIdx (fun c : Coin => c.denom == d.denom) as with
        | some i => pure i | none => .error .mismatch
      let c ← getD? as i
      let a ← ckAdd U128_MAX c.amount d.amount
      pure (setAmount as i a)) poolAssets'
    let pool' := { pool with assets := assets' }
    pure (s.savePool pool', Response.ofMsgs (msgs0 ++ msgs1) [
      ("action", "provide_liquidity"), ("added_shares", toString shares),
      ("pool_reserves", reservesAttr pool')])

def IsMint (m : Msg) : Prop := ∃ c a, m = .tfMint c a

theorem cpShares_mints {self : Addr} {lp : Denom} {deps pa : List Coin} {ts sh : Nat} {m0 : List Msg}
    (h : cpShares self lp deps pa ts = .ok (sh, m0)) : ∀ m ∈ m0, IsMint m := by
  unfold cpShares at h
  split at h
  · simp only [↓ok_bind, ↓ite_err_bind_ok, ↓bind_ok, ↓err_bind_ok, pure_ok, Prod.mk.injEq] at h
    obtain ⟨_, _, _, _, _, _, _, rfl⟩ := h
    intro m hm
    simp only [List.mem_singleton] at hm
    exact ⟨_, _, hm⟩
  · simp only [↓ok_bind, ↓ite_err_bind_ok, ↓bind_ok, ↓err_bind_ok, pure_ok, Prod.mk.injEq] at h
    obtain ⟨_, _, _, _, _, _, _, rfl⟩ := h
    intro m hm
    cases hm

theorem pl_multi {s s' : PmState} {env : PmEnv} {sender : Addr} {funds deposits : List Coin}
    {ls ss : Option Nat} {recv : Option Addr} {pid : String} {u : Option Nat} {l : Option String}
    {r : Response} (hagg : aggregateCoins funds = .ok deposits) (hlen : deposits.length ≠ 1)
    (h : provideLiquidity s env sender funds ls ss recv pid u l = .ok (s', r)) :
    ∃ pool shares msgs0, s.getPool pid = .ok pool ∧ (∀ m ∈ msgs0, IsMint m) ∧
      plTail s env sender pool deposits ls (addrOrDefault env recv sender) u l shares msgs0 = .ok (s', r) := by
  unfold provideLiquidity at h
  simp only [hagg, ↓ok_bind, ↓ite_err_bind_ok, ↓bind_ok, ↓err_bind_ok, List.length_singleton, ↓reduceIte, pure_ok, getD?_ok',
    ↓pure_bind', Except.ok.injEq] at h
  obtain ⟨pool, hp, hst, d, hd, -, hall, h⟩ := h
  cases hd
  simp only [hlen, ↓ite_err_bind_ok, ↓reduceIte] at h
  obtain ⟨-, h⟩ := h
  refine ⟨pool, ?_⟩
  cases hpt : pool.ptype with
  | cp =>
    rw [hpt] at h
    simp only [] at h
    obtain ⟨⟨sh, m0⟩, hcp, h⟩ := bind_ok.mp h
    simp only [] at h
    rw [← hpt] at h
    exact ⟨sh, m0, hp, cpShares_mints hcp, h⟩
  | stable amp =>
    rw [hpt] at h
    simp only [] at h
    by_cases hts : env.supply pool.lpDenom = 0
    · rw [if_pos hts] at h
      simp only [↓ite_err_bind_ok] at h
      obtain ⟨-, h⟩ := h
      cases hmin : listMin pool.decimals with
      | none => rw [hmin] at h; simp only [↓err_bind_ok] at h
      | some mn =>
        rw [hmin] at h
        simp only [] at h
        cases hmax : listMax pool.decimals with
        | none => rw [hmax] at h; simp only [↓err_bind_ok] at h
        | some mx =>
          rw [hmax] at h
          try simp only [↓pure_bind'] at h
          obtain ⟨ml, -, h⟩ := bind_ok.mp h
          try simp only [↓pure_bind'] at h
          obtain ⟨na, -, h⟩ := bind_ok.mp h
          obtain ⟨sh, -, h⟩ := bind_ok.mp h
          rw [← hpt] at h
          refine ⟨sh, _, hp, ?_, h⟩
          intro m hm
          simp only [List.mem_singleton] at hm
          exact ⟨_, _, hm⟩
    · rw [if_neg hts] at h
      try simp only [↓pure_bind'] at h
      obtain ⟨na, -, h⟩ := bind_ok.mp h
      obtain ⟨sh, -, h⟩ := bind_ok.mp h
      rw [← hpt] at h
      refine ⟨sh, _, hp, ?_, h⟩
      intro m hm
      cases hm

theorem assertSlippageTolerance_ok {tol : Option Nat} {deps pa pa' : List Coin} {pt : PoolType}
    (h : assertSlippageTolerance tol deps pa pt = .ok pa') : pa' = pa := by
  unfold assertSlippageTolerance at h
  simp only [] at h
  split at h
  · simpa using h
  · cases tol with
    | none => simpa using h
    | some t =>
      simp only [] at h
      split at h
      · cases h
      · cases pt with
        | stable amp =>
          simp only [↓bind_ok, ↓ite_err_bind_ok] at h
          obtain ⟨_, _, _, _, _, _, _, _, _, _, h⟩ := h
          split at h
          · cases h
          · simpa using h
        | cp =>
          simp only [] at h
          split at h
          · cases h
          · simp only [↓bind_ok, ↓ite_err_bind_ok] at h
            obtain ⟨_, _, _, _, _, _, h⟩ := h
            split at h
            · cases h
            · simp only [↓bind_ok, ↓ite_err_bind_ok] at h
              obtain ⟨_, _, _, _, _, _, h⟩ := h
              split at h
              · cases h
              · simpa using h

theorem plTail_ok {s s' : PmState} {env : PmEnv} {sender : Addr} {pool : PoolInfo} {deposits : List Coin}
    {ls : Option Nat} {recv : Addr} {u : Option Nat} {l : Option String} {shares : Nat}
    {msgs0 : List Msg} {r : Response}
    (h : plTail s env sender pool deposits ls recv u l shares msgs0 = .ok (s', r)) :
    ∃ assets' msgs1, deposits.foldlM depositStep pool.assets = .ok assets' ∧
      s' = s.savePool { pool with assets := assets' } ∧
      r.msgs = (msgs0 ++ msgs1).map (fun m => ({ msg := m } : SubMsg)) ∧
      (∀ m ∈ msgs1, IsMint m ∨ ∃ cm, m = .wasmExec s.config.farmManager cm [⟨pool.lpDenom, shares⟩]) ∧
      (u.isSome → (recv == sender || sender == env.self) = true) ∧
      (∀ lid pos, u.isSome → l = some lid → env.fmPosition lid = some pos →
        pos.1 = lid ∧ pos.2 = recv) := by
  unfold plTail at h
  simp only [] at h
  obtain ⟨pa', hpa, h⟩ := bind_ok.mp h
  cases assertSlippageTolerance_ok hpa
  clear hpa
  cases u with
  | none =>
    simp only [↓ite_err_bind_ok, ↓pure_bind'] at h
    obtain ⟨hv, h⟩ := h
    obtain ⟨as', has, h⟩ := bind_ok.mp h
    simp only [pure_ok, Prod.mk.injEq] at h
    obtain ⟨rfl, rfl⟩ := h
    refine ⟨as', _, has, rfl, rfl, ?_, by simp, by simp⟩
    intro m hm
    simp only [List.mem_singleton] at hm
    exact Or.inl ⟨_, _, hm⟩
  | some uu =>
    simp only [↓ite_err_bind_ok] at h
    obtain ⟨hauth, h⟩ := h
    have hfin : ∀ lockMsg, (∃ cm, lockMsg = Msg.wasmExec s.config.farmManager cm [⟨pool.lpDenom, shares⟩]) →
        ∀ as', List.foldlM depositStep pool.assets deposits = .ok as' →
        s' = s.savePool { pool with assets := as' } →
        r.msgs = (msgs0 ++ [Msg.tfMint ⟨pool.lpDenom, shares⟩ env.self, lockMsg]).map (fun m => ({ msg := m } : SubMsg)) →
        (∀ lid pos, l = some lid → env.fmPosition lid = some pos → pos.1 = lid ∧ pos.2 = recv) →
        ∃ assets' msgs1, deposits.foldlM depositStep pool.assets = .ok assets' ∧
          s' = s.savePool { pool with assets := assets' } ∧
          r.msgs = (msgs0 ++ msgs1).map (fun m => ({ msg := m } : SubMsg)) ∧
          (∀ m ∈ msgs1, IsMint m ∨ ∃ cm, m = .wasmExec s.config.farmManager cm [⟨pool.lpDenom, shares⟩]) ∧
          ((some uu).isSome → (recv == sender || sender == env.self) = true) ∧
          (∀ lid pos, (some uu).isSome → l = some lid → env.fmPosition lid = some pos →
            pos.1 = lid ∧ pos.2 = recv) := by
      intro lockMsg hl as' has hs hr hown
      refine ⟨as', _, has, hs, hr, ?_, fun _ => by revert hauth; cases (recv == sender || sender == env.self) <;> simp, fun lid pos _ => hown lid pos⟩
      intro m hm
      simp only [List.mem_cons, List.mem_singleton, List.not_mem_nil, or_false] at hm
      rcases hm with rfl | rfl
      · exact Or.inl ⟨_, _, rfl⟩
      · exact Or.inr hl
    cases l with
    | none =>
      simp only [↓pure_bind'] at h
      obtain ⟨as', has, h⟩ := bind_ok.mp h
      simp only [pure_ok, Prod.mk.injEq] at h
      obtain ⟨rfl, rfl⟩ := h
      exact hfin _ ⟨_, rfl⟩ as' has rfl rfl (by intro _ _ h; cases h)
    | some lid =>
      simp only [] at h
      cases hfm : env.fmPosition lid with
      | none =>
        rw [hfm] at h
        simp only [↓pure_bind'] at h
        obtain ⟨as', has, h⟩ := bind_ok.mp h
        simp only [pure_ok, Prod.mk.injEq] at h
        obtain ⟨rfl, rfl⟩ := h
        exact hfin _ ⟨_, rfl⟩ as' has rfl rfl (by intro _ _ h h2; cases h; rw [hfm] at h2; cases h2)
      | some pos =>
        obtain ⟨pid', pr⟩ := pos
        rw [hfm] at h
        simp only [↓ite_err_bind_ok, ↓pure_bind'] at h
        obtain ⟨hown, h⟩ := h
        obtain ⟨as', has, h⟩ := bind_ok.mp h
        simp only [pure_ok, Prod.mk.injEq] at h
        obtain ⟨rfl, rfl⟩ := h
        refine hfin _ ⟨_, rfl⟩ as' has rfl rfl ?_
        intro _ _ h h2
        cases h; rw [hfm] at h2; cases h2
        simpa using hown

/-! ### `aggregateCoins` on coins with pairwise distinct denoms never merges -/

theorem insertCoin_fresh {c : Coin} {xs r : List Coin} (hc : c.denom ∉ xs.map (·.denom))
    (h : insertCoin c xs = .ok r) :
    r.length = xs.length + 1 ∧ ∀ d, d ∈ r.map (·.denom) ↔ d = c.denom ∨ d ∈ xs.map (·.denom) := by
  induction xs generalizing r with
  | nil =>
    simp only [insertCoin, pure_ok] at h
    subst h
    simp
  | cons x xs ih =>
    simp only [List.map_cons, List.mem_cons, not_or] at hc
    unfold insertCoin at h
    have hne : (c.denom == x.denom) = false := by simpa using hc.1
    simp only [hne, Bool.false_eq_true, ↓reduceIte] at h
    split at h
    · simp only [pure_ok] at h
      subst h
      simp
    · obtain ⟨r', hr', h⟩ := bind_ok.mp h
      simp only [pure_ok] at h
      subst h
      obtain ⟨h1, h2⟩ := ih hc.2 hr'
      refine ⟨by simp [h1], ?_⟩
      intro d
      simp only [List.map_cons, List.mem_cons, h2]
      constructor
      · rintro (h | h | h)
        · exact Or.inr (Or.inl h)
        · exact Or.inl h
        · exact Or.inr (Or.inr h)
      · rintro (h | h | h)
        · exact Or.inr (Or.inl h)
        · exact Or.inl h
        · exact Or.inr (Or.inr h)

theorem foldlM_insertCoin_fresh (cs : List Coin) {acc r : List Coin}
    (hnd : (cs.map (·.denom)).Nodup) (hacc : ∀ c ∈ cs, c.denom ∉ acc.map (·.denom))
    (h : cs.foldlM (fun acc c => insertCoin c acc) acc = .ok r) :
    r.length = acc.length + cs.length := by
  induction cs generalizing acc with
  | nil =>
    simp only [List.foldlM_nil, pure_ok] at h
    subst h; simp
  | cons c cs ih =>
    simp only [List.foldlM_cons] at h
    obtain ⟨a1, ha1, h⟩ := bind_ok.mp h
    simp only [List.map_cons, List.nodup_cons] at hnd
    obtain ⟨h1, h2⟩ := insertCoin_fresh (hacc c (List.mem_cons_self ..)) ha1
    have := ih hnd.2 (by
      intro c' hc'
      rw [h2]
      rintro (h | h)
      · exact hnd.1 (h ▸ List.mem_map_of_mem hc')
      · exact hacc c' (List.mem_cons_of_mem _ hc') h) h
    rw [this, h1]
    simp only [List.length_cons]
    omega

theorem aggregateCoins_length {cs r : List Coin} (hnd : (cs.map (·.denom)).Nodup)
    (h : aggregateCoins cs = .ok r) : r.length = cs.length := by
  have := foldlM_insertCoin_fresh cs hnd (acc := []) (by simp) h
  simpa using this

theorem aggregateCoins_nil : aggregateCoins [] = .ok [] := rfl


theorem pl_agg {s s' : PmState} {env : PmEnv} {sender : Addr} {funds : List Coin}
    {ls ss : Option Nat} {recv : Option Addr} {pid : String} {u : Option Nat} {l : Option String}
    {r : Response} (h : provideLiquidity s env sender funds ls ss recv pid u l = .ok (s', r)) :
    ∃ deps, aggregateCoins funds = .ok deps ∧ deps.isEmpty = false := by
  unfold provideLiquidity at h
  simp only [↓ok_bind, ↓ite_err_bind_ok, ↓bind_ok, ↓err_bind_ok] at h
  obtain ⟨pool, hp, hst, d, hd, hne, -⟩ := h
  exact ⟨d, hd, by simpa using hne⟩

theorem savePool_buffer (s : PmState) (p : PoolInfo) : (s.savePool p).buffer = s.buffer := by
  unfold PmState.savePool
  split <;> rfl

end MantraDex
