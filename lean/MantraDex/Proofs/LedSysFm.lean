/-
  C06Sys, part 4 (entry-free): every farm-manager handler other than `claim` and `update_config` moves the
  histories and cursors as described by `Evo`, and a cursor that changed belongs to a user who is left without
  any weight history (`fmExecute_evo`).
-/
import MantraDex.Proofs.LedSysEvo

set_option linter.unusedSimpArgs false
set_option linter.unusedVariables false

namespace MantraDex.LedSys
open MantraDex MantraDex.WSys

/-- `Evo` w.r.t. the current epoch of the handler's pre-state, plus: a changed cursor was reset while its
    owner had no open position left -/
structure HEvo (env : FmEnv) (s s' : FmState) : Prop where
  evo : Evo env.self (fmCurrentEpoch s env).toOption s s'
  reset : ∀ u, s'.lastClaimed u ≠ s.lastClaimed u →
    u ≠ env.self ∧ s'.lastClaimed u = none ∧ (s'.positionsBy u true).isEmpty = true

theorem hevo_of_eq {env : FmEnv} {s s' : FmState} (hh : s'.hist = s.hist)
    (hl : s'.lastClaimed = s.lastClaimed) : HEvo env s s' :=
  ⟨evo_of_eq hh hl, fun u hne => absurd (by rw [hl]) hne⟩

theorem savePosition_last (s : FmState) (p : Position) : (s.savePosition p).lastClaimed = s.lastClaimed := by
  unfold FmState.savePosition; split <;> rfl

/-! ### `create_position` / `expand_position` -/

theorem create_core_evo {s s1 s3 : FmState} {env : FmEnv} {recv : Addr} {p : Position} {lpd : Denom}
    {amt u : Nat} (hw : updateWeights (s1.savePosition p) env recv lpd amt u true = .ok s3)
    (h2 : s1.hist = s.hist) (h3 : s1.config = s.config) (h4 : s1.lastClaimed = s.lastClaimed) :
    HEvo env s s3 := by
  have e1 : Evo env.self (fmCurrentEpoch s env).toOption s (s1.savePosition p) :=
    evo_of_eq (by rw [savePosition_hist, h2]) (by rw [savePosition_last, h4])
  have e2 := evo_updateWeights (c := (fmCurrentEpoch s env).toOption)
    (toOpt_of_cfg (by rw [savePosition_config, h3])) hw
  refine ⟨e1.trans e2, ?_⟩
  intro x hne
  exact absurd (by rw [updateWeights_last hw, savePosition_last, h4]) hne

theorem createPosition_evo {s s' : FmState} {env : FmEnv} {sender : Addr} {funds : List Coin}
    {id : Option String} {u : Nat} {recv : Option Addr} {r : Response}
    (h : createPosition s env sender funds id u recv = .ok (s', r)) : HEvo env s s' := by
  unfold createPosition at h
  cases recv <;> cases id <;>
    simp only [bind_ok, error_bind, pure_bind', ite_error_ok, pure_ok, Prod.mk.injEq] at h
  · obtain ⟨lp, hlp, _, _, _, _, hnone, hlim, s3, h3, rfl, rfl⟩ := h
    exact create_core_evo h3 rfl rfl rfl
  · obtain ⟨lp, hlp, _, _, _, _, hnone, hlim, s3, h3, rfl, rfl⟩ := h
    exact create_core_evo h3 rfl rfl rfl
  · obtain ⟨lp, hlp, _, _, _, hauth, _, _, hnone, hlim, s3, h3, rfl, rfl⟩ := h
    exact create_core_evo h3 rfl rfl rfl
  · obtain ⟨lp, hlp, _, _, _, hauth, _, _, hnone, hlim, s3, h3, rfl, rfl⟩ := h
    exact create_core_evo h3 rfl rfl rfl

theorem expandPosition_evo {s s' : FmState} {env : FmEnv} {sender : Addr} {funds : List Coin}
    {id2 : String} {r : Response}
    (h : expandPosition s env sender funds id2 = .ok (s', r)) : HEvo env s s' := by
  unfold expandPosition at h
  cases hg : s.getPosition id2 with
  | none => rw [hg] at h; simp [error_bind] at h
  | some p2 =>
    rw [hg] at h
    simp only [bind_ok, error_bind, pure_bind', ite_error_ok, ckAdd_ok, pure_ok, Prod.mk.injEq] at h
    obtain ⟨c, hc, _, hden, hopen, hauth, a, ⟨_, rfl⟩, s2, h2, rfl, rfl⟩ := h
    exact create_core_evo (s1 := s) h2 rfl rfl rfl

/-! ### `close_position` / `withdraw_position` -/

theorem tail_reset {s s3 s4 : FmState} {env : FmEnv} {sender : Addr} {lp : Denom}
    (hl3 : s3.lastClaimed = s.lastClaimed) (hs : sender ≠ env.self)
    (hrec : reconcileUserState s3 env sender lp = .ok s4) :
    ∀ u, s4.lastClaimed u ≠ s.lastClaimed u →
      u ≠ env.self ∧ s4.lastClaimed u = none ∧ (s4.positionsBy u true).isEmpty = true := by
  intro u hne
  rcases reconcile_last hrec u with h1 | ⟨rfl, h1, h2⟩
  · exact absurd (by rw [h1, hl3]) hne
  · refine ⟨hs, h1, ?_⟩
    unfold FmState.positionsBy at h2 ⊢
    rw [(reconcileUserState_sameStore hrec).1]
    exact h2

theorem close_tail_evo {s s1 s2 s4 : FmState} {env : FmEnv} {sender : Addr} {p p' : Position} {amt : Nat}
    (hw : updateWeights s1 env sender p.lpDenom amt p.unlocking false = .ok s2)
    (hrec : reconcileUserState (s2.savePosition p') env sender p.lpDenom = .ok s4)
    (h2 : s1.hist = s.hist) (h3 : s1.config = s.config) (h4 : s1.lastClaimed = s.lastClaimed)
    (hs : sender ≠ env.self) : HEvo env s s4 := by
  have e1 : Evo env.self (fmCurrentEpoch s env).toOption s s1 := evo_of_eq h2 h4
  have e2 := evo_updateWeights (c := (fmCurrentEpoch s env).toOption) (toOpt_of_cfg (by rw [h3])) hw
  have e3 : Evo env.self (fmCurrentEpoch s env).toOption s2 (s2.savePosition p') :=
    evo_of_eq (savePosition_hist _ _) (savePosition_last _ _)
  have e4 := evo_reconcile (c := (fmCurrentEpoch s env).toOption) hs hrec
  refine ⟨((e1.trans e2).trans e3).trans e4, ?_⟩
  exact tail_reset (by rw [savePosition_last, updateWeights_last hw, h4]) hs hrec

theorem closePosition_evo {s s' : FmState} {env : FmEnv} {sender : Addr} {funds : List Coin}
    {id2 : String} {lp : Option Coin} {r : Response} (hs : sender ≠ env.self)
    (h : closePosition s env sender funds id2 lp = .ok (s', r)) : HEvo env s s' := by
  unfold closePosition at h
  cases hg : s.getPosition id2 with
  | none =>
    rw [hg] at h
    simp only [bind_ok, error_bind] at h
    obtain ⟨_, _, _, _, h⟩ := h
    split at h <;> simp at h
  | some p2 =>
    rw [hg] at h
    simp only [bind_ok, error_bind, pure_bind', ite_error_ok, fit_ok] at h
    obtain ⟨_, _, _, _, _, hauth, hopen, a, ⟨_, rfl⟩, b, ⟨_, rfl⟩, _, h⟩ := h
    have full : ∀ {q : Position} {R : Response},
        (updateWeights s env sender p2.lpDenom p2.amount p2.unlocking false >>= fun s2 =>
          reconcileUserState (s2.savePosition q) env sender p2.lpDenom >>= fun s4 =>
          pure (s4, R)) = Except.ok (s', r) → HEvo env s s' := by
      intro q R h
      simp only [bind_ok, pure_ok, Prod.mk.injEq] at h
      obtain ⟨s2, h2, s4, h4, rfl, rfl⟩ := h
      exact close_tail_evo h2 h4 rfl rfl rfl hs
    cases lp with
    | none => exact full h
    | some c =>
      simp only [ite_error_ok] at h
      obtain ⟨_, h⟩ := h
      split at h
      · exact full h
      · simp only [ite_ok_error, ite_error_ok, bind_ok, pure_ok, Prod.mk.injEq] at h
        obtain ⟨_, _, s2, h2, s4, h4, rfl, rfl⟩ := h
        exact close_tail_evo h2 h4 (by rw [savePosition_hist]) (by rw [savePosition_config])
          (by rw [savePosition_last]) hs

theorem withdrawPosition_evo {s s' : FmState} {env : FmEnv} {sender : Addr} {funds : List Coin}
    {id2 : String} {em : Option Bool} {r : Response} (hs : sender ≠ env.self)
    (h : withdrawPosition s env sender funds id2 em = .ok (s', r)) : HEvo env s s' := by
  unfold withdrawPosition at h
  cases hg : s.getPosition id2 with
  | none => rw [hg] at h; simp [error_bind, bind_ok] at h
  | some p2 =>
    rw [hg] at h
    simp only [bind_ok, error_bind, pure_bind', ite_error_ok] at h
    obtain ⟨_, _, hauth, h⟩ := h
    have tailOpen : ∀ (s1 s3 : FmState), Evo env.self (fmCurrentEpoch s env).toOption s s1 →
        s1.lastClaimed = s.lastClaimed →
        reconcileUserState (s1.removePosition id2) env sender p2.lpDenom = .ok s3 → HEvo env s s3 := by
      intro s1 s3 e1 hl h3
      have e2 : Evo env.self (fmCurrentEpoch s env).toOption s1 (s1.removePosition id2) :=
        evo_of_eq (s := s1) rfl rfl
      have e3 := evo_reconcile (c := (fmCurrentEpoch s env).toOption) hs h3
      exact ⟨(e1.trans e2).trans e3, tail_reset (s3 := s1.removePosition id2) hl hs h3⟩
    split at h
    · simp only [bind_ok] at h
      obtain ⟨rate, _, cur, _, active, _, sp, _, h⟩ := h
      split at h
      next hopen =>
        simp only [bind_ok, pure_ok, Prod.mk.injEq] at h
        obtain ⟨s1, h1, x, h3, rfl, rfl⟩ := h
        exact tailOpen s1 _ (evo_updateWeights (toOpt_of_cfg rfl) h1) (updateWeights_last h1) h3
      next hopen =>
        simp only [bind_ok, pure_ok, Prod.mk.injEq] at h
        obtain ⟨rfl, rfl⟩ := h
        exact hevo_of_eq (s := s) rfl rfl
    · simp only [ite_error_ok] at h
      obtain ⟨_, _, h⟩ := h
      split at h
      next hopen =>
        simp only [bind_ok, pure_ok, Prod.mk.injEq] at h
        obtain ⟨x, h3, rfl, rfl⟩ := h
        exact tailOpen s _ (Evo.refl _ _ _) rfl h3
      next hopen =>
        simp only [bind_ok, pure_ok, Prod.mk.injEq] at h
        obtain ⟨rfl, rfl⟩ := h
        exact hevo_of_eq (s := s) rfl rfl

/-! ### farms: neither histories nor cursors are touched -/

structure FrameL (s s' : FmState) : Prop where
  hist : s'.hist = s.hist
  last : s'.lastClaimed = s.lastClaimed

theorem FrameL.refl (s : FmState) : FrameL s s := ⟨rfl, rfl⟩
theorem FrameL.trans {a b c : FmState} (h1 : FrameL a b) (h2 : FrameL b c) : FrameL a c :=
  ⟨h2.hist.trans h1.hist, h2.last.trans h1.last⟩

theorem frameL_saveFarm (s : FmState) (f : Farm) : FrameL s (s.saveFarm f) := by
  unfold FmState.saveFarm; split <;> exact ⟨rfl, rfl⟩

theorem frameL_closeFarms (s : FmState) (fs : List Farm) : FrameL s (closeFarms s fs).1 := by
  rw [FH.closeFarms_eq]
  suffices ∀ st : FmState × List SubMsg, FrameL st.1 (fs.foldl FH.closeStep st).1 from this (s, [])
  induction fs with
  | nil => intro st; exact FrameL.refl _
  | cons f fs ih =>
    intro st
    rw [List.foldl_cons]
    refine FrameL.trans ?_ (ih _)
    unfold FH.closeStep; split <;> exact ⟨rfl, rfl⟩

theorem frameL_cfIdState (s1 : FmState) (p : FarmParams) : FrameL s1 (FH.cfIdState s1 p).2 := by
  unfold FH.cfIdState; split <;> exact ⟨rfl, rfl⟩

theorem createFarm_frameL {s s' : FmState} {env : FmEnv} {sender : Addr} {funds : List Coin}
    {p : FarmParams} {r : Response} (h : createFarm s env sender funds p = .ok (s', r)) : FrameL s s' := by
  obtain ⟨cur, flags, feeMsgs, start, end_, rate, _, _, _, _, _, _, _, _, _, rfl, _⟩ := FH.createFarm_inv h
  exact ((frameL_closeFarms s _).trans (frameL_cfIdState _ p)).trans (frameL_saveFarm _ _)

def KeepsL (s : FmState) (x : R (FmState × Response)) : Prop := ∀ s' r, x = .ok (s', r) → FrameL s s'

theorem keepsL_bind {α : Type} {s : FmState} {x : R α} {f : α → R (FmState × Response)}
    (hf : ∀ a, x = .ok a → KeepsL s (f a)) : KeepsL s (x >>= f) := by
  intro s' r h
  rw [bind_ok] at h
  obtain ⟨a, ha, h⟩ := h
  exact hf a ha s' r h

theorem keepsL_error {s : FmState} {e : Err} : KeepsL s (Except.error e) := by
  intro s' r h; simp at h

theorem keepsL_pure {s s1 : FmState} {r1 : Response} (h : FrameL s s1) : KeepsL s (pure (s1, r1)) := by
  intro s' r h'
  simp only [pure_ok, Prod.mk.injEq] at h'
  rw [h'.1]; exact h

theorem expandFarm_keepsL {s : FmState} {env : FmEnv} {sender : Addr} {funds : List Coin}
    {p : FarmParams} : KeepsL s (expandFarm s env sender funds p) := by
  unfold expandFarm
  simp only [pure_bind', error_bind]
  repeat' first | exact keepsL_error | exact keepsL_pure (frameL_saveFarm _ _) | refine keepsL_bind fun _ _ => ?_ | split

theorem closeFarm_keepsL {s : FmState} {sender : Addr} {funds : List Coin}
    {id : String} : KeepsL s (closeFarm s sender funds id) := by
  unfold closeFarm
  simp only [pure_bind', error_bind]
  repeat' first | exact keepsL_error | exact keepsL_pure (frameL_closeFarms _ _) | refine keepsL_bind fun _ _ => ?_ | split

theorem fmUpdateConfig_last {s s' : FmState} {env : FmEnv} {sender : Addr} {u : FmConfigUpdate}
    {r : Response} (h : fmUpdateConfig s env sender u = .ok (s', r)) : s'.lastClaimed = s.lastClaimed := by
  unfold fmUpdateConfig at h
  simp only [bind_ok, pure_ok] at h
  obtain ⟨_, _, fc, _, em, _, pm, _, h⟩ := h
  iterate 10 (all_goals (try (split at h <;> try simp only [pure_bind, error_bind, reduceCtorEq] at h)))
  all_goals simp only [pure_ok, Prod.mk.injEq] at h
  all_goals obtain ⟨rfl, rfl⟩ := h
  all_goals rfl

/-! ### all handlers but `claim` and `update_config` -/

theorem fmExecute_hevo {s s' : FmState} {env : FmEnv} {sender : Addr} {funds : List Coin} {m : FmMsg}
    {r : Response} (hs : sender ≠ env.self) (hnc : ∀ u, m ≠ .claim u) (hnu : ∀ u, m ≠ .updateConfig u)
    (h : fmExecute s env sender funds m = .ok (s', r)) : HEvo env s s' := by
  cases m with
  | createFarm p =>
    have hf := createFarm_frameL h
    exact hevo_of_eq hf.hist hf.last
  | expandFarm p =>
    have hf := expandFarm_keepsL _ _ h
    exact hevo_of_eq hf.hist hf.last
  | closeFarm id =>
    have hf := closeFarm_keepsL _ _ h
    exact hevo_of_eq hf.hist hf.last
  | claim u => exact absurd rfl (hnc u)
  | createPosition id u rc => exact createPosition_evo h
  | expandPosition id => exact expandPosition_evo h
  | closePosition id lp => exact closePosition_evo hs h
  | withdrawPosition id e => exact withdrawPosition_evo hs h
  | updateConfig u => exact absurd rfl (hnu u)
  | updateOwnership a =>
    unfold fmExecute at h
    simp only [bind_ok, pure_ok, Prod.mk.injEq] at h
    obtain ⟨_, _, o, _, rfl, _⟩ := h
    exact hevo_of_eq (s := s) rfl rfl

/-- with the invariant of the post-state: a user whose cursor changed has no weight history left -/
theorem hevo_reset_hist {env : FmEnv} {s s' : FmState} (he : HEvo env s s') (hi : FInv s' env) :
    ∀ u, s'.lastClaimed u ≠ s.lastClaimed u → ∀ lp, s'.hist u lp = [] := by
  intro u hne lp
  obtain ⟨hu, _, hemp⟩ := he.reset u hne
  exact hi.noWeight u lp hu (noOpen_of_positionsBy_empty hemp lp)

end MantraDex.LedSys
