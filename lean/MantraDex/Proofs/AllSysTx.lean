/-
  C01All, transaction level: for every denom `d`, what a whole pool-manager transaction (any call that is not a
  single-asset deposit, and the single-asset deposit tree) does to

      balance of the pool manager in d  −  reserves recorded for d,

  which never drops and grows by the locked minimum exactly when the LP token `d` comes into existence; and the
  locked-minimum function `lockedMin`.
-/
import MantraDex.Model.System
import MantraDex.Proofs.NumLemmas
import MantraDex.Proofs.AllSysHandlers
import MantraDex.Proofs.AllSysTree
import MantraDex.Proofs.LpSysTx

set_option linter.unusedSimpArgs false
set_option linter.unusedVariables false
set_option linter.tactic.unusedName false

namespace MantraDex.AllSys
open MantraDex MantraDex.LpSys
open MantraDex.C01 (coinsOf amt coinsOf_cons coinsOf_nil coinsOf_singleton reserves sumNat sumNat_cons sumNat_nil)
open MantraDex.C16Sys (LpOk)

/-! ### the locked minimum -/

def lockedMin (w : World) (d : Denom) : Nat :=
  sumNat (w.pm.pools.map fun p =>
    if p.lpDenom == d && w.bank.supply d != 0 then (minLiq p).getD 0 else 0)

theorem sumNat_map_zero {α : Type} {l : List α} {f : α → Nat} (h : ∀ x ∈ l, f x = 0) : sumNat (l.map f) = 0 := by
  induction l with
  | nil => rfl
  | cons x xs ih =>
    rw [List.map_cons, sumNat_cons, h x (List.mem_cons_self ..), ih (fun y hy => h y (List.mem_cons_of_mem _ hy))]

theorem sumNat_map_single {α : Type} {l : List α} {f : α → Nat} {p : α} (hp : p ∈ l)
    (h : ∀ x ∈ l, x ≠ p → f x = 0) (hnd : l.Nodup) : sumNat (l.map f) = f p := by
  induction l with
  | nil => cases hp
  | cons x xs ih =>
    rw [List.nodup_cons] at hnd
    rw [List.map_cons, sumNat_cons]
    rcases List.mem_cons.1 hp with rfl | hp'
    · rw [sumNat_map_zero (fun y hy => h y (List.mem_cons_of_mem _ hy) (fun e => hnd.1 (e ▸ hy)))]
      omega
    · have hx : x ≠ p := fun e => hnd.1 (e ▸ hp')
      rw [h x (List.mem_cons_self ..) hx, ih hp' (fun y hy => h y (List.mem_cons_of_mem _ hy)) hnd.2]
      omega

theorem nodup_of_map {α β : Type} (f : α → β) : ∀ {l : List α}, (l.map f).Nodup → l.Nodup
  | [], _ => List.nodup_nil
  | x :: xs, h => by
    rw [List.map_cons, List.nodup_cons] at h
    rw [List.nodup_cons]
    exact ⟨fun hm => h.1 (List.mem_map_of_mem hm), nodup_of_map f h.2⟩

theorem lockedMin_of_supply {w : World} {d : Denom} (h : w.bank.supply d = 0) : lockedMin w d = 0 := by
  unfold lockedMin
  apply sumNat_map_zero
  intro p _
  simp [h]

theorem lockedMin_none {w : World} {d : Denom} (h : ∀ p ∈ w.pm.pools, p.lpDenom ≠ d) : lockedMin w d = 0 := by
  unfold lockedMin
  apply sumNat_map_zero
  intro p hp
  have : (p.lpDenom == d) = false := by simpa using h p hp
  simp [this]

theorem lockedMin_pool {w : World} {d : Denom} (hok : LpOk w.pm) {p : PoolInfo} (hp : p ∈ w.pm.pools)
    (hd : p.lpDenom = d) (hs : w.bank.supply d ≠ 0) : lockedMin w d = (minLiq p).getD 0 := by
  unfold lockedMin
  have hnd : w.pm.pools.Nodup := nodup_of_map _ hok.1
  rw [sumNat_map_single hp ?_ hnd]
  · simp [hd, hs]
  · intro q hq hne
    have : (q.lpDenom == d) = false := by
      simp only [beq_eq_false_iff_ne, ne_eq]
      intro e
      exact hne (pool_unique hok hq hp (e.trans hd.symm))
    simp [this]

/-! ### one transaction, one denom -/

/-- balance minus reserves never drops, and grows by `first`, the locked minimum of the pool whose LP token `d`
    comes into existence -/
structure TxAll (w w' : World) (d : Denom) (first : Nat) : Prop where
  bal : reserves w'.pm d + first + w.bank.bal PM d ≤ w'.bank.bal PM d + reserves w.pm d
  src : w.bank.supply d = 0 → w'.bank.supply d ≠ 0 → ∃ Q ∈ w.pm.pools, Q.lpDenom = d ∧ minLiq Q = some first

/-- what the invariant provides about the pre-state -/
structure Pre (w : World) : Prop where
  cov : Covers w.bank
  wf : C01.WF w.pm
  tfNodup : (w.tfFees.map (·.denom)).Nodup
  tfSmall : ∀ f ∈ w.tfFees, f.amount ≤ U128_MAX / 2
  fee : w.pm.config.creationFee.amount ≤ U128_MAX / 2

/-- a call that is not a single-asset deposit, by an external account -/
theorem leaf_all {n : Nat} {w w' : World} {sender c : Addr} {m : PmMsg} {funds : List Coin}
    (hs : sender ≠ PM) (hfunds : (funds.map (·.denom)).Nodup) (hns : SysPm.NotSingle m funds) (hpre : Pre w)
    (h : execMsg (n + 1) w sender (.wasmExec c (.pm m) funds) = .ok w') (d : Denom) :
    ∃ first, TxAll w w' d first := by
  obtain ⟨-, w1, s', r, fi, hpe, hpm, -, -, -, hsup, hbal⟩ := pm_call hfunds hns hpre.cov h
  obtain ⟨first, law⟩ := handler_law (env := w1.pmEnv) rfl hpre.wf
    (by show (w1.tfFees.map (·.denom)).Nodup; rw [fi.tf]; exact hpre.tfNodup)
    (by show ∀ f ∈ w1.tfFees, _; rw [fi.tf]; exact hpre.tfSmall) hpre.fee hfunds hns hpe d
  have hb1 := fi.bal d
  simp only [hs, if_false] at hb1
  have hl : reserves s' d + total (outW w.tfFees d) r.msgs + first ≤
      reserves w.pm d + coinsOf funds d + total (inW d) r.msgs := by
    have := law.law
    have e : w1.pmEnv.tfFees = w.tfFees := fi.tf
    rw [e] at this
    exact this
  refine ⟨first, ⟨by rw [hpm]; have := hbal d; omega, ?_⟩⟩
  intro h0 h1
  have hmint : total (mintW d) r.msgs ≠ 0 := by
    have := hsup d
    omega
  obtain ⟨ls, ss, rc, pid, u, l, pool, -, hp, hd, hz, -⟩ := law.src (Or.inl hmint)
  have hsupply : w1.pmEnv.supply d = 0 := by
    show w1.bank.supply d = 0
    rw [fi.sup]; exact h0
  exact ⟨pool, (getPool_ok hp).1, hd, hz hsupply⟩

/-- a single-asset deposit by an external account -/
theorem single_all {w w' : World} {sender c : Addr} {coin : Coin} {ls ss : Option Nat} {rc : Option Addr}
    {pid : String} {u : Option Nat} {l : Option String} (hs : sender ≠ PM) (hpre : Pre w)
    (hr : execMsg FUEL w sender (.wasmExec c (.pm (.provideLiquidity ls ss rc pid u l)) [coin]) = .ok w')
    (d : Denom) : ∃ first, TxAll w w' d first := by
  obtain ⟨w1, w3, buf, ask, pool, sim, fi, hp, hsim, hoh, hea, hne, -, -, -, -, hswap, hbuf3, hsecond⟩ :=
    single_tree_full hs hpre.cov hr
  -- the self-swap
  obtain ⟨-, w1a, s3, r3, fi2, hpe3, hpm3, htf3, -, hcov3, hsup3, hbal3⟩ :=
    pm_call (n := 61) (w := { w1 with pm := { w.pm with buffer := some buf } }) (funds := [buf.offerHalf])
      (m := .swap ask none ss none pid) (by simp) trivial fi.cov hswap
  have hsw := hpe3
  simp only [pmExecute] at hsw
  have hwf2 : C01.WF ({ w.pm with buffer := some buf } : PmState) := SysPm.wf_of_pools rfl hpre.wf
  have hcons3 := C01.swap_conserves hwf2 hsw d
  rw [outflow_eq_total (swap_isLeaf hsw)] at hcons3
  have hR2 : reserves ({ w.pm with buffer := some buf } : PmState) d = reserves w.pm d :=
    SysPm.reserves_of_pools rfl d
  rw [hR2] at hcons3
  obtain ⟨offer, sr, hoff, hps, hmsgs3⟩ := C04.swapHandler_messages hsw
  have hoff' : offer = buf.offerHalf := by simpa using hoff.symm
  subst hoff'
  -- the proceeds go to the pool manager itself and are what the first leg simulated
  obtain ⟨pool', c', oi, ai, x, y, hp', hc', -, -, -, -, -, -, -, -, hret, -, -, -, -⟩ := C04.performSwap_ok hps
  have hgp : ({ w.pm with buffer := some buf } : PmState).getPool pid = w.pm.getPool pid := rfl
  rw [hgp, hp] at hp'
  cases hp'
  rw [hoh, hsim] at hc'
  cases hc'
  have hretE : sr.ret = buf.expectedAsk := by rw [hret, hea]
  have hin3 : amt buf.expectedAsk d ≤ total (inW d) r3.msgs := by
    rw [hmsgs3, total_mk_append, total_mk_append, total_opt, ← hretE]
    have hrecv : addrOrDefault w1a.pmEnv none PM = PM := rfl
    by_cases hz : sr.ret.amount = 0
    · have : amt sr.ret d = 0 := by simp [amt, hz]
      omega
    · simp only [ne_eq, hz, not_false_eq_true, if_true, inW, hrecv, coinsOf_singleton]
      omega
  have hmint3 : total (mintW d) r3.msgs = 0 :=
    nonprovide_no_mint (m := .swap ask none ss none pid) (by intro _ _ _ _ _ _ e; cases e) hpe3 d
  -- the second leg
  have hnd : (([buf.offerHalf, buf.expectedAsk] : List Coin).map (·.denom)).Nodup := by
    rw [hoh, hea]
    simp [hne]
  obtain ⟨-, w3a, s5, r5, fi4, hpe5, hpm5, -, -, -, hsup5, hbal5⟩ :=
    pm_call (n := 60) (w := { w3 with pm := { w3.pm with buffer := none } })
      (funds := [buf.offerHalf, buf.expectedAsk])
      (m := .provideLiquidity buf.liqSlip buf.swapSlip (some buf.receiver) buf.poolId buf.unlocking buf.lockId)
      hnd (Nat.le_refl 2) hcov3 hsecond
  have hwf3 : C01.WF s3 := SysPm.performSwap_wf hwf2 hps
  have hwf4 : C01.WF ({ w3.pm with buffer := none } : PmState) := SysPm.wf_of_pools (s := s3) (by rw [hpm3]) hwf3
  have htf4 : w3a.tfFees = w.tfFees := by
    rw [fi4.tf]
    show w3.tfFees = w.tfFees
    rw [htf3]
    exact fi.tf
  have hcfg4 : ({ w3.pm with buffer := none } : PmState).config = w.pm.config := by
    show w3.pm.config = _
    rw [hpm3, C04.performSwap_config hps]
  obtain ⟨first, law⟩ := handler_law (env := w3a.pmEnv)
    (m := .provideLiquidity buf.liqSlip buf.swapSlip (some buf.receiver) buf.poolId buf.unlocking buf.lockId) rfl hwf4
    (by show (w3a.tfFees.map (·.denom)).Nodup; rw [htf4]; exact hpre.tfNodup)
    (by show ∀ f ∈ w3a.tfFees, _; rw [htf4]; exact hpre.tfSmall)
    (by rw [hcfg4]; exact hpre.fee) hnd (Nat.le_refl 2) hpe5 d
  have hR4 : reserves ({ w3.pm with buffer := none } : PmState) d = reserves s3 d :=
    SysPm.reserves_of_pools (by rw [hpm3]) d
  -- the arithmetic
  have hl5 : reserves s5 d + total (outW w.tfFees d) r5.msgs + first ≤
      reserves s3 d + coinsOf [buf.offerHalf, buf.expectedAsk] d + total (inW d) r5.msgs := by
    have := law.law
    have e : w3a.pmEnv.tfFees = w.tfFees := htf4
    rw [e, hR4] at this
    exact this
  have hb1 := fi.bal d
  simp only [hs, if_false] at hb1
  have hb2 : w1a.bank.bal PM d = w1.bank.bal PM d := by
    have := fi2.bal d
    simpa using this
  have hb4 : w3a.bank.bal PM d = w3.bank.bal PM d := by
    have := fi4.bal d
    simpa using this
  have hb3 := hbal3 d
  have hb5 := hbal5 d
  have htfa : ({ w1 with pm := { w.pm with buffer := some buf } } : World).tfFees = w.tfFees := fi.tf
  have htfb : ({ w3 with pm := { w3.pm with buffer := none } } : World).tfFees = w.tfFees := by
    show w3.tfFees = _
    rw [htf3]; exact fi.tf
  rw [htfa] at hb3
  rw [htfb] at hb5
  have hcons3' : reserves s3 d + total (outW w.tfFees d) r3.msgs = reserves w.pm d + coinsOf [buf.offerHalf] d := by
    have e : w1a.pmEnv.tfFees = w.tfFees := by
      show w1a.tfFees = _
      rw [fi2.tf]; exact fi.tf
    rw [e] at hcons3
    exact hcons3
  have hhalf : 2 * amt buf.offerHalf d ≤ coinsOf [coin] d := by
    rw [hoh, coinsOf_singleton]
    unfold amt
    simp only
    split <;> omega
  have hF5 : coinsOf [buf.offerHalf, buf.expectedAsk] d = amt buf.offerHalf d + amt buf.expectedAsk d := by
    rw [coinsOf_cons, coinsOf_singleton]
  rw [coinsOf_singleton] at hcons3'
  refine ⟨first, ⟨by rw [hpm5]; omega, ?_⟩⟩
  intro h0 h1
  -- the LP token came into existence in the second leg
  have hS3 : w3.bank.supply d = 0 := by
    have := hsup3 d
    rw [hmint3] at this
    have e : w1.bank.supply d = 0 := by rw [fi.sup]; exact h0
    have e' : w3.bank.supply d + _ = w1.bank.supply d + 0 := this
    omega
  have hmint5 : total (mintW d) r5.msgs ≠ 0 := by
    have := hsup5 d
    have e' : w'.bank.supply d + _ = w3.bank.supply d + _ := this
    omega
  obtain ⟨ls', ss', rc', pid', u', l', pool5, -, hp5, hd5, hz5, -⟩ := law.src (Or.inl hmint5)
  have hsupply : w3a.pmEnv.supply d = 0 := by
    show w3a.bank.supply d = 0
    rw [fi4.sup]; exact hS3
  have hmin5 := hz5 hsupply
  -- the pool is one of the pre-state's pools, with the same static fields
  have hstep : PmStep { w.pm with buffer := some buf } s3 := swapHandler_step hsw
  have hmem5 : pool5 ∈ s3.pools := by
    have : pool5 ∈ w3.pm.pools := (getPool_ok hp5).1
    rw [hpm3] at this; exact this
  have hmemid : pool5.id ∈ s3.pools.map (·.id) := List.mem_map_of_mem hmem5
  rw [hstep.ids] at hmemid
  obtain ⟨Q, hQ, hQid⟩ := List.mem_map.1 hmemid
  obtain ⟨Q3, hQ3, he⟩ := (C16.step_static hstep (C16.sameIdSameStatic_of_nodup hwf2.1)).1 Q hQ
  have : Q3 = pool5 := C16.eq_of_nodup_ids hwf3.1 Q3 hQ3 pool5 hmem5 (he.1.symm.trans hQid)
  subst this
  exact ⟨Q, hQ, by rw [he.2.2.2.2.2]; exact hd5, by rw [minLiq_static he]; exact hmin5⟩

/-- every transaction sent to the pool manager by an external account -/
theorem tx_pm_all {w w' : World} {sender c : Addr} {m : PmMsg} {funds : List Coin}
    (hs : sender ≠ PM) (hfunds : (funds.map (·.denom)).Nodup) (hpre : Pre w)
    (hr : execMsg FUEL w sender (.wasmExec c (.pm m) funds) = .ok w') (d : Denom) :
    ∃ first, TxAll w w' d first := by
  by_cases hns : SysPm.NotSingle m funds
  · rw [show FUEL = 63 + 1 from rfl] at hr
    exact leaf_all hs hfunds hns hpre hr d
  · cases m with
    | provideLiquidity ls ss rc pid u l =>
      match funds, hns, hr with
      | [], _, hr => exact (C01Sys.no_funds_tx (n := 63) hr).elim
      | [coin], _, hr => exact single_all hs hpre hr d
      | _ :: _ :: _, hns, _ => exact absurd (by simp [SysPm.NotSingle]) hns
    | _ => exact absurd trivial hns

/-- a transaction in which the pool manager is a bystander -/
theorem TxAll.of_foreign {w w' : World} (f : Foreign w w') (d : Denom) : TxAll w w' d 0 := by
  refine ⟨by rw [f.pm]; have := f.bal d; omega, fun h0 h1 => ?_⟩
  rw [f.sup] at h1
  exact absurd h0 h1

/-! ### custody after the transaction -/

theorem custody_of_txAll {w w' : World} {d : Denom} {first : Nat} (t : TxAll w w' d first)
    (hcust : reserves w.pm d + lockedMin w d ≤ w.bank.bal PM d) (hok : LpOk w.pm) (hok' : LpOk w'.pm)
    (hkept : C16Sys.PoolsKept w w')
    (hfresh : ∀ id, (∀ p ∈ w.pm.pools, p.id ≠ id) → w.bank.supply (lpDenomOf PM id) = 0) :
    reserves w'.pm d + lockedMin w' d ≤ w'.bank.bal PM d := by
  have hb := t.bal
  by_cases hS' : w'.bank.supply d = 0
  · rw [lockedMin_of_supply hS']; omega
  by_cases hex : ∃ Q' ∈ w'.pm.pools, Q'.lpDenom = d
  · obtain ⟨Q', hQ', hd'⟩ := hex
    rw [lockedMin_pool hok' hQ' hd' hS']
    by_cases hS : w.bank.supply d = 0
    · obtain ⟨Q, hQ, hd, hmin⟩ := t.src hS hS'
      obtain ⟨Q'', hQ'', he⟩ := hkept Q hQ
      have : Q'' = Q' := pool_unique hok' hQ'' hQ' (by rw [← he.2.2.2.2.2, hd, hd'])
      subst this
      rw [← minLiq_static he, hmin]
      simp only [Option.getD_some]
      omega
    · by_cases hold : ∃ Q ∈ w.pm.pools, Q.id = Q'.id
      · obtain ⟨Q, hQ, hid⟩ := hold
        obtain ⟨Q'', hQ'', he⟩ := hkept Q hQ
        have : Q'' = Q' := C16.eq_of_nodup_ids hok'.1 Q'' hQ'' Q' hQ' (he.1.symm.trans hid)
        subst this
        have hdQ : Q.lpDenom = d := by rw [he.2.2.2.2.2]; exact hd'
        rw [lockedMin_pool hok hQ hdQ hS] at hcust
        rw [← minLiq_static he]
        omega
      · exfalso
        apply hS
        rw [← hd', hok'.2 Q' hQ']
        exact hfresh Q'.id (fun p hp e => hold ⟨p, hp, e⟩)
  · rw [lockedMin_none (fun p hp e => hex ⟨p, hp, e⟩)]; omega

end MantraDex.AllSys
