/-
  The execution trees of a top-level `Swap` / `ExecuteSwapOperations` transaction with an optional injected
  bank fault, taken apart: funds move, the handler runs, the leaf messages run as a bank fold.
-/
import MantraDex.Model.System
import MantraDex.Proofs.NumLemmas
import MantraDex.Proofs.BankLemmas
import MantraDex.Proofs.TwoStepLemmas
import MantraDex.Proofs.SwapTxLemmas
import MantraDex.Properties.C04
import MantraDex.Properties.C13

set_option linter.unusedSimpArgs false
set_option linter.unusedVariables false

namespace MantraDex.QSys
open MantraDex
open MantraDex.C01 (coinsOf)

/-! ### a top-level call into the pool manager -/

theorem execMsg_pm_nil (n : Nat) (w : World) (sender : Addr) (m : PmMsg) :
    execMsg (n + 1) w sender (.wasmExec PM (.pm m) []) =
      (pmExecute w.pm w.pmEnv sender [] m >>= fun sr =>
          execSubs n { w with pm := sr.1 } PM sr.2.msgs) := by
  have hc : isContract PM = true := by decide
  simp only [execMsg, hc, List.isEmpty_nil, Bool.not_true, Bool.false_eq_true, if_false, if_true, callExecute,
    bne_self_eq_false, bind_assoc, pure_bind]

/-- the bank a transaction starts from -/
def bank0 (w : World) (k : Option Nat) : Bank := { w.bank with calls := 0, failAt := k }

/-- an accepted top-level call into the pool manager with non-empty funds -/
theorem pm_tx_inv {w w' : World} {u : Addr} {m : PmMsg} {funds : List Coin} {k : Option Nat}
    (hne : funds.isEmpty = false)
    (h : runTx w (.exec u PM (.pm m) funds) k = .ok w') :
    ∃ (b1 : Bank) (s1 : PmState) (resp : Response),
      (bank0 w k).send u PM funds = .ok b1 ∧
      pmExecute w.pm ({ w with bank := b1 } : World).pmEnv u funds m = .ok (s1, resp) ∧
      execSubs 63 { w with bank := b1, pm := s1 } PM resp.msgs = .ok w' := by
  unfold runTx at h
  simp only at h
  have h64 : FUEL = 63 + 1 := rfl
  rw [h64, execMsg_pm_eq 63 _ u _ funds hne] at h
  obtain ⟨b1, h1, h⟩ := bind_ok.mp h
  obtain ⟨⟨s1, resp⟩, hx, hsubs⟩ := bind_ok.mp h
  exact ⟨b1, s1, resp, h1, hx, hsubs⟩

/-- a top-level call into the pool manager without funds -/
theorem pm_tx_nil_inv {w w' : World} {u : Addr} {m : PmMsg} {k : Option Nat}
    (h : runTx w (.exec u PM (.pm m) []) k = .ok w') :
    ∃ (s1 : PmState) (resp : Response),
      pmExecute w.pm ({ w with bank := bank0 w k } : World).pmEnv u [] m = .ok (s1, resp) := by
  unfold runTx at h
  simp only at h
  have h64 : FUEL = 63 + 1 := rfl
  rw [h64, execMsg_pm_nil 63 _ u _] at h
  obtain ⟨⟨s1, resp⟩, hx, hsubs⟩ := bind_ok.mp h
  exact ⟨s1, resp, hx⟩

/-! ### the swap handler: the slippage check ran -/

theorem performSwap_slippage {s s' : PmState} {offer : Coin} {ask : Denom} {pid : String}
    {b ms : Option Nat} {r : SwapResult} (h : performSwap s offer ask pid b ms = .ok (s', r)) :
    ∃ pool c, s.getPool pid = .ok pool ∧ computeSwap pool offer ask = .ok c ∧
      assertMaxSlippage b ms offer.amount c.ret c.slippage = .ok () := by
  unfold performSwap at h
  simp only [bind_ok] at h
  obtain ⟨pool, hp, _, _, c, hc, u, hu, _⟩ := h
  exact ⟨pool, c, hp, hc, hu⟩

theorem maxSlippage_none_ok {ms : Option Nat} {offer ret slip : Nat}
    (h : assertMaxSlippage none ms offer ret slip = .ok ()) :
    ret + slip ≠ 0 ∧ slip * ONE18 / (ret + slip) ≤ C13.effTol ms := by
  have h0 := h
  unfold assertMaxSlippage at h0
  simp only [bind_ok, fit_ok, orPanic_ok, decFromRatio_ok] at h0
  obtain ⟨tot, ⟨hfit, rfl⟩, ratio, ⟨hne, _, rfl⟩, _⟩ := h0
  exact ⟨hne, (C13.max_slippage_accept_iff hfit hne).mp h⟩

/-- an accepted `Swap` transaction (any injected fault): `performSwap` ran on the pre-state -/
theorem swap_tx_performSwap {w w' : World} {u : Addr} {offer : Coin} {ask : Denom} {b ms : Option Nat}
    {recv : Option Addr} {pid : String} {k : Option Nat}
    (h : runTx w (.exec u PM (.pm (.swap ask b ms recv pid)) [offer]) k = .ok w') :
    ∃ s1 r, performSwap w.pm offer ask pid b ms = .ok (s1, r) := by
  obtain ⟨b1, s1, resp, _, hx, _⟩ := pm_tx_inv (by rfl) h
  simp only [pmExecute] at hx
  obtain ⟨offer', r, hf, hps, _⟩ := C04.swapHandler_messages hx
  cases hf
  exact ⟨s1, r, hps⟩

/-! ### the route handler -/

theorem mustPay_ok {funds : List Coin} {d : Denom} {a : Nat} (h : mustPay funds d = .ok a) :
    funds = [⟨d, a⟩] := by
  unfold mustPay at h
  obtain ⟨c, hc, h2⟩ := bind_ok.mp h
  have := C04.oneCoin_ok hc
  subst this
  split at h2
  · cases h2
  · rename_i hd
    simp only [pure_ok] at h2
    subst h2
    have : c.denom = d := by simpa using hd
    subst this
    rfl

/-- the messages of a route -/
def routeMsgs (recv : Addr) (outCoin : Coin) (feeMsgs : List Msg) : List Msg :=
  (if outCoin.amount ≠ 0 then [.bankSend recv [outCoin]] else []) ++ feeMsgs

theorem execSwapOps_inv {s s' : PmState} {env : PmEnv} {sender : Addr} {funds : List Coin}
    {ops : List SwapOp} {mr : Option Nat} {recv : Option Addr} {ms : Option Nat} {resp : Response}
    (h : execSwapOps s env sender funds ops mr recv ms = .ok (s', resp)) :
    ∃ first last amount out feeMsgs, ops.head? = some first ∧ ops.getLast? = some last ∧
      funds = [⟨first.tokenIn, amount⟩] ∧ assertOperations ops = .ok () ∧
      routeHops s ms ops ⟨first.tokenIn, amount⟩ [] = .ok (s', out, feeMsgs) ∧
      (∀ m, mr = some m → m ≤ out.amount) ∧
      resp.msgs = (routeMsgs (addrOrDefault env recv sender) ⟨last.tokenOut, out.amount⟩ feeMsgs).map mkSub := by
  unfold execSwapOps at h
  cases hl : ops.getLast? with
  | none => rw [hl] at h; simp [bind, Except.bind] at h
  | some last =>
  cases hf : ops.head? with
  | none => rw [hl, hf] at h; simp [bind, Except.bind, pure, Except.pure] at h
  | some first =>
  rw [hl, hf] at h
  simp only [bind_ok, pure_ok] at h
  obtain ⟨_, rfl, _, rfl, amount, hamt, u, hao, ⟨s1, out, fees⟩, hroute, h⟩ := h
  cases u
  dsimp only at h
  have hfunds := mustPay_ok hamt
  cases mr with
  | none =>
    simp only [bind_ok, pure_ok, Prod.mk.injEq] at h
    obtain ⟨rfl, rfl⟩ := h
    exact ⟨_, _, amount, out, fees, rfl, rfl, hfunds, hao, hroute, (by intro m hm; cases hm), rfl⟩
  | some m =>
    simp only at h
    split at h
    · simp [bind, Except.bind] at h
    · next hlt =>
      simp only [pure_ok, Prod.mk.injEq] at h
      obtain ⟨rfl, rfl⟩ := h
      refine ⟨_, _, amount, out, fees, rfl, rfl, hfunds, hao, hroute, ?_, rfl⟩
      intro m' hm'
      cases hm'
      exact Nat.le_of_not_lt hlt

theorem feeMsg_leaf {fc : Addr} {m : Msg}
    (h : (∃ cs, m = Msg.bankBurn cs) ∨ (∃ cs, m = Msg.bankSend fc cs)) : IsLeaf m := by
  rcases h with ⟨cs, rfl⟩ | ⟨cs, rfl⟩ <;> trivial

/-- the execution tree of an accepted route transaction (any injected fault) -/
theorem route_run_inv {w w' : World} {u : Addr} {ops : List SwapOp} {mr : Option Nat} {recv : Option Addr}
    {ms : Option Nat} {funds : List Coin} {k : Option Nat}
    (h : runTx w (.exec u PM (.pm (.execSwapOps ops mr recv ms)) funds) k = .ok w') :
    ∃ first last amount s1 out feeMsgs, ∃ (b1 x b' : Bank),
      ops.head? = some first ∧ ops.getLast? = some last ∧ funds = [⟨first.tokenIn, amount⟩] ∧
      assertOperations ops = .ok () ∧
      routeHops w.pm ms ops ⟨first.tokenIn, amount⟩ [] = .ok (s1, out, feeMsgs) ∧
      (∀ m, mr = some m → m ≤ out.amount) ∧
      (∀ m ∈ feeMsgs, (∃ cs, m = Msg.bankBurn cs) ∨ (∃ cs, m = Msg.bankSend w.pm.config.feeCollector cs)) ∧
      Moves (bank0 w k) b1 u PM [⟨first.tokenIn, amount⟩] ∧
      Moves b1 x PM (addrOrDefault w.pmEnv recv u) [⟨last.tokenOut, out.amount⟩] ∧
      bankRun w.tfFees x PM feeMsgs = .ok b' ∧
      w' = { w with bank := b', pm := s1 } := by
  cases funds with
  | nil =>
    obtain ⟨s1, resp, hx⟩ := pm_tx_nil_inv h
    simp only [pmExecute] at hx
    obtain ⟨_, _, _, _, _, _, _, hf, _⟩ := execSwapOps_inv hx
    cases hf
  | cons c cs =>
  obtain ⟨b1, s1, resp, h1, hx, hsubs⟩ := pm_tx_inv (by rfl) h
  simp only [pmExecute] at hx
  obtain ⟨first, last, amount, out, feeMsgs, hhead, hlast, hf, hao, hroute, hmr, hresp⟩ := execSwapOps_inv hx
  obtain ⟨-, hfee⟩ := C04.routeHops_fee_msgs (fees := []) (by intro m hm; cases hm) trivial hroute
  rw [hf] at h1
  rw [hresp] at hsubs
  have hfuel := execSubs_leaf_fuel _ _ _ _ _ hsubs
  have hleaf : ∀ m ∈ (routeMsgs (addrOrDefault ({ w with bank := b1 } : World).pmEnv recv u)
      ⟨last.tokenOut, out.amount⟩ feeMsgs), IsLeaf m := by
    intro m hm
    unfold routeMsgs at hm
    rcases List.mem_append.1 hm with hm | hm
    · split at hm
      · simp only [List.mem_singleton] at hm; subst hm; trivial
      · cases hm
    · exact feeMsg_leaf (hfee m hm)
  rw [execSubs_leaf _ 63 _ PM hleaf hfuel] at hsubs
  obtain ⟨b', hrun, hw'⟩ := bind_ok.mp hsubs
  simp only [pure_ok] at hw'
  unfold routeMsgs at hrun
  rw [bankRun_append] at hrun
  obtain ⟨x, hr1, hr2⟩ := bind_ok.mp hrun
  have m1 := optSend_spec (coin := ⟨last.tokenOut, out.amount⟩) hr1
  exact ⟨first, last, amount, s1, out, feeMsgs, b1, x, b', hhead, hlast, hf, hao, hroute, hmr, hfee,
    (send_spec h1).2, m1, hr2, hw'⟩

/-! ### the fee messages as a bank fold -/

def at_ (a b : Addr) (x : Int) : Int := if a = b then x else 0

/-- bank effect on (account `a`, denom `d`) of one fee message of a route, sent by the pool manager -/
def feeMsgEffect (fc : Addr) (a : Addr) (d : Denom) : Msg → Int
  | .bankSend to cs => at_ a to ((coinsOf cs d : Nat) : Int) - at_ a PM ((coinsOf cs d : Nat) : Int)
  | .bankBurn cs => - at_ a PM ((coinsOf cs d : Nat) : Int)
  | _ => 0

def sumInt (xs : List Int) : Int := xs.foldl (· + ·) 0

theorem foldl_add_acc (xs : List Int) (a : Int) : xs.foldl (· + ·) a = a + xs.foldl (· + ·) 0 := by
  induction xs generalizing a with
  | nil => simp
  | cons x xs ih =>
    simp only [List.foldl_cons]
    rw [ih (a + x), ih (0 + x)]
    omega

theorem sumInt_cons (x : Int) (xs : List Int) : sumInt (x :: xs) = x + sumInt xs := by
  unfold sumInt
  simp only [List.foldl_cons]
  rw [foldl_add_acc]
  omega

theorem feeRun_effect {tf : List Coin} {fc : Addr} (ms : List Msg) :
    ∀ {b b' : Bank}, (∀ m ∈ ms, (∃ cs, m = Msg.bankBurn cs) ∨ (∃ cs, m = Msg.bankSend fc cs)) →
      bankRun tf b PM ms = .ok b' →
      ∀ a d, (b'.bal a d : Int) = (b.bal a d : Int) + sumInt (ms.map (feeMsgEffect fc a d)) := by
  induction ms with
  | nil =>
    intro b b' _ h a d
    simp only [bankRun] at h
    cases h
    simp [sumInt]
  | cons m ms ih =>
    intro b b' hms h a d
    simp only [bankRun] at h
    obtain ⟨b1, h1, h⟩ := bind_ok.mp h
    have hrest := ih (fun x hx => hms x (List.mem_cons_of_mem _ hx)) h a d
    rw [hrest, List.map_cons, sumInt_cons]
    rcases hms m (List.mem_cons_self ..) with ⟨cs, rfl⟩ | ⟨cs, rfl⟩
    · simp only [bankStep] at h1
      have e := (burn_spec h1).2.bal a d
      simp only [feeMsgEffect, at_]
      by_cases c1 : a = PM
      · simp only [if_pos c1] at e ⊢; omega
      · simp only [if_neg c1] at e ⊢; omega
    · simp only [bankStep] at h1
      have e := (send_spec h1).2.bal a d
      simp only [feeMsgEffect, at_]
      by_cases c1 : a = PM <;> by_cases c2 : a = fc <;>
        (try simp only [if_pos c1] at e ⊢) <;> (try simp only [if_neg c1] at e ⊢) <;>
        (try simp only [if_pos c2] at e ⊢) <;> (try simp only [if_neg c2] at e ⊢) <;>
        omega

end MantraDex.QSys
