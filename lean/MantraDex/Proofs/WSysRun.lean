/-
  C10Sys, part 7: lifting through the runtime.

  * `Lift` / `lift_run`: a world invariant `I` together with a side condition `Ok sender msg` on messages,
    such that every successful `callExecute` of an admissible call preserves `I` and emits only admissible
    messages, every successful `callReply` likewise, and `I` does not look at the bank — holds across
    `execMsg` / `execSubs` (mutual induction on fuel; rolled-back sub-messages restore the state).
  * the instance for C10: `SInv` (farm-manager invariant + pending-deposit condition, with the epoch
    environment and the farm manager's configuration fixed).
-/
import MantraDex.Proofs.WSysFmY
import MantraDex.Proofs.WSysPm
import MantraDex.Proofs.SysLemmasPools
import MantraDex.Proofs.PmSysLemmas

set_option linter.unusedSimpArgs false
set_option linter.unusedVariables false

namespace MantraDex.WSys
open MantraDex

/-! ### the generic lift -/

structure Lift (I : World → Prop) (Ok : Addr → Msg → Prop) : Prop where
  bank : ∀ (w : World) (b : Bank), I w → I { w with bank := b }
  exec : ∀ {w w2 : World} {c sender : Addr} {funds : List Coin} {msg : ContractMsg} {resp : Response},
    I w → Ok sender (.wasmExec c msg funds) → callExecute w c sender funds msg = .ok (w2, resp) →
    I w2 ∧ ∀ sm ∈ resp.msgs, Ok c sm.msg
  reply : ∀ {w w2 : World} {c : Addr} {id : Nat} {resp : Response},
    I w → callReply w c id = .ok (w2, resp) → I w2 ∧ ∀ sm ∈ resp.msgs, Ok c sm.msg

theorem fundsMove_inv {I : World → Prop} {Ok : Addr → Msg → Prop} (L : Lift I Ok) {w w1 : World}
    {sender c : Addr} {funds : List Coin} (hI : I w)
    (h : (if funds.isEmpty then pure w else do
        let b ← w.bank.send sender c funds
        pure { w with bank := b }) = (.ok w1 : R World)) : I w1 := by
  split at h
  · simp only [pure_ok] at h; subst h; exact hI
  · obtain ⟨b, hb, h⟩ := bind_ok.mp h
    simp only [pure_ok] at h; subst h
    exact L.bank w b hI

theorem lift_run {I : World → Prop} {Ok : Addr → Msg → Prop} (L : Lift I Ok) (fuel : Nat) :
    (∀ w sender m w', execMsg fuel w sender m = .ok w' → I w → Ok sender m → I w') ∧
    (∀ w c subs w', execSubs fuel w c subs = .ok w' → I w → (∀ sm ∈ subs, Ok c sm.msg) → I w') := by
  induction fuel with
  | zero =>
    constructor
    · intro w sender m w' h; rw [execMsg] at h; cases h
    · intro w c subs w' h; rw [execSubs] at h; cases h
  | succ n ih =>
    obtain ⟨ihM, ihS⟩ := ih
    constructor
    · intro w sender m w' h hI hok
      cases m with
      | bankSend to coins =>
        rw [execMsg] at h
        obtain ⟨b, hb, h⟩ := bind_ok.mp h
        simp only [pure_ok] at h; subst h
        exact L.bank w b hI
      | bankBurn coins =>
        rw [execMsg] at h
        obtain ⟨b, hb, h⟩ := bind_ok.mp h
        simp only [pure_ok] at h; subst h
        exact L.bank w b hI
      | tfCreateDenom sd =>
        rw [execMsg] at h
        obtain ⟨b, hb, h⟩ := bind_ok.mp h
        simp only [pure_ok] at h; subst h
        exact L.bank w b hI
      | tfMint coin to =>
        rw [execMsg] at h
        obtain ⟨b, hb, h⟩ := bind_ok.mp h
        simp only [pure_ok] at h; subst h
        exact L.bank w b hI
      | tfBurn coin =>
        rw [execMsg] at h
        obtain ⟨b, hb, h⟩ := bind_ok.mp h
        simp only [pure_ok] at h; subst h
        exact L.bank w b hI
      | wasmExec c msg funds =>
        obtain ⟨w1, w2, resp, hw1, hce, h⟩ := SysPools.wasm_inv h
        have h1 := fundsMove_inv L hI hw1
        obtain ⟨h2, hmsgs⟩ := L.exec h1 hok hce
        exact ihS _ _ _ _ h h2 hmsgs
    · intro w c subs w' h hI hok
      cases subs with
      | nil => rw [execSubs] at h; cases h; exact hI
      | cons sm rest =>
        have hsm := hok sm (List.mem_cons_self ..)
        have hrest : ∀ sm' ∈ rest, Ok c sm'.msg := fun sm' h' => hok sm' (List.mem_cons_of_mem _ h')
        rw [execSubs] at h
        split at h
        · rename_i w1 hw1
          have g1 := ihM _ _ _ _ hw1 hI hsm
          split at h
          · obtain ⟨⟨w2, resp⟩, hcr, h⟩ := bind_ok.mp h
            obtain ⟨w3, h3, h⟩ := bind_ok.mp h
            obtain ⟨g2, hm2⟩ := L.reply g1 hcr
            exact ihS _ _ _ _ h (ihS _ _ _ _ h3 g2 hm2) hrest
          · exact ihS _ _ _ _ h g1 hrest
        · rename_i e he
          split at h
          · obtain ⟨⟨w2, resp⟩, hcr, h⟩ := bind_ok.mp h
            obtain ⟨w3, h3, h⟩ := bind_ok.mp h
            obtain ⟨g2, hm2⟩ := L.reply (L.bank w _ hI) hcr
            exact ihS _ _ _ _ h (ihS _ _ _ _ h3 g2 hm2) hrest
          · cases h

/-! ### the instance for C10 -/

/-- the invariant carried through one transaction: the epoch environment `env0` and the farm manager's
    pool-manager pointer are fixed (configuration messages are excluded by `MsgOk`) -/
structure SInv (env0 : FmEnv) (w : World) : Prop where
  env : w.fmEnv = env0
  pmAddr : w.fm.config.poolManager = PM
  finv : FInv w.fm env0
  wf : FmSys.PosWF w.fm
  buf : BufOk w.pm

theorem SInv.self_eq {env0 : FmEnv} {w : World} (h : SInv env0 w) : env0.self = FM := by
  rw [← h.env]; rfl

theorem isSend_ok {c : Addr} {m : Msg} (h : SysPm.IsSend m) : MsgOk c m := by
  obtain ⟨to, cs, rfl⟩ := h; trivial

theorem sinv_lift (env0 : FmEnv) : Lift (SInv env0) MsgOk := by
  refine ⟨?_, ?_, ?_⟩
  · intro w b h
    exact ⟨h.env, h.pmAddr, h.finv, h.wf, h.buf⟩
  · intro w w2 c sender funds msg resp hI hok hce
    obtain ⟨hs, hcm⟩ := hok
    have hself := hI.self_eq
    cases msg with
    | pm m =>
      simp only [callExecute] at hce
      split at hce
      · cases hce
      · rename_i hc
        have hc : c = PM := by simpa using hc
        obtain ⟨⟨s, r⟩, hr, hce⟩ := bind_ok.mp hce
        simp only [pure_ok, Prod.mk.injEq] at hce
        obtain ⟨rfl, rfl⟩ := hce
        obtain ⟨hb, hm⟩ := pmExecute_ok (env := w.pmEnv) rfl hs hcm hI.buf hr
        rw [hc]
        exact ⟨⟨hI.env, hI.pmAddr, hI.finv, hI.wf, hb⟩, hm⟩
    | fm m =>
      simp only [callExecute] at hce
      split at hce
      · cases hce
      · rename_i hc
        have hc : c = FM := by simpa using hc
        obtain ⟨⟨s, r⟩, hr, hce⟩ := bind_ok.mp hce
        simp only [pure_ok, Prod.mk.injEq] at hce
        obtain ⟨rfl, rfl⟩ := hce
        rw [hI.env] at hr
        have hnc : ∀ u, m ≠ .updateConfig u := by
          intro u e; subst e; exact hcm
        have hcall : FmCallOk env0.self w.fm sender m := by
          cases m with
          | createPosition id u rc =>
            cases rc with
            | none => trivial
            | some rc =>
              intro hp
              rw [hself]
              exact hcm (by rw [hp, hI.pmAddr])
          | _ => trivial
        obtain ⟨k1, k2, k3⟩ := fmExecute_inv hI.finv hI.wf (by rw [hself]; exact hs) hcall
          (fun ⟨u, hu⟩ => absurd hu (hnc u)) hr
        have hcfg := k3 hnc
        refine ⟨⟨hI.env, ?_, k1, k2, hI.buf⟩, ?_⟩
        · show s.config.poolManager = PM
          rw [hcfg]; exact hI.pmAddr
        · intro sm hsm
          exact isSend_ok (SysPm.fmExecute_sends hr sm hsm)
    | em m =>
      simp only [callExecute] at hce
      split at hce
      · cases hce
      · obtain ⟨s, hr, hce⟩ := bind_ok.mp hce
        simp only [pure_ok, Prod.mk.injEq] at hce
        obtain ⟨rfl, rfl⟩ := hce
        cases m with
        | updateConfig cfg => exact absurd hcm id
        | updateOwnership a =>
          unfold emExecute at hr
          obtain ⟨_, _, hr⟩ := bind_ok.mp hr
          simp only at hr
          obtain ⟨o, _, hr⟩ := bind_ok.mp hr
          simp only [pure_ok] at hr
          subst hr
          exact ⟨⟨hI.env, hI.pmAddr, hI.finv, hI.wf, hI.buf⟩, by intro sm hsm; cases hsm⟩
    | fc m =>
      cases m with
      | updateOwnership a =>
        simp only [callExecute] at hce
        split at hce
        · cases hce
        · obtain ⟨_, _, hce⟩ := bind_ok.mp hce
          obtain ⟨o, _, hce⟩ := bind_ok.mp hce
          simp only [pure_ok, Prod.mk.injEq] at hce
          obtain ⟨rfl, rfl⟩ := hce
          exact ⟨⟨hI.env, hI.pmAddr, hI.finv, hI.wf, hI.buf⟩, by intro sm hsm; cases hsm⟩
  · intro w w2 c id resp hI hcr
    unfold callReply at hcr
    split at hcr
    · rename_i hc
      have hc : c = PM := by simpa using hc
      obtain ⟨⟨s, r⟩, hr, hcr⟩ := bind_ok.mp hcr
      simp only [pure_ok, Prod.mk.injEq] at hcr
      obtain ⟨rfl, rfl⟩ := hcr
      obtain ⟨hb, hm⟩ := pmReply_ok (env := w.pmEnv) rfl hI.buf hr
      rw [hc]
      exact ⟨⟨hI.env, hI.pmAddr, hI.finv, hI.wf, hb⟩, hm⟩
    · split at hcr
      · obtain ⟨⟨s, r⟩, hr, hcr⟩ := bind_ok.mp hcr
        simp only [pure_ok, Prod.mk.injEq] at hcr
        obtain ⟨rfl, rfl⟩ := hcr
        unfold fmReply at hr
        split at hr
        · cases hr
          exact ⟨⟨hI.env, hI.pmAddr, hI.finv, hI.wf, hI.buf⟩, by intro sm hsm; cases hsm⟩
        · cases hr
      · cases hcr

/-- any admissible message executed from a state satisfying the invariant leads to one satisfying it -/
theorem sinv_exec {env0 : FmEnv} {w w' : World} {sender : Addr} {m : Msg} {fuel : Nat}
    (hI : SInv env0 w) (hok : MsgOk sender m) (h : execMsg fuel w sender m = .ok w') : SInv env0 w' :=
  (lift_run (sinv_lift env0) fuel).1 _ _ _ _ h hI hok

end MantraDex.WSys
