/-
  C10Sys, part 2: the farm-manager state invariant behind C10 and its preservation by the weight-history
  helpers (`updateWeights`, `syncHistory`, `reconcileUserState`) and by the position store operations.
-/
import MantraDex.Proofs.WSysHist
import MantraDex.Proofs.FmLemmas
import MantraDex.Proofs.FarmHandlerLemmas
import MantraDex.Proofs.FmSysLemmas

set_option linter.unusedSimpArgs false
set_option linter.unusedVariables false

namespace MantraDex.WSys
open MantraDex

/-! ### the history part of the invariant -/

/-- covering at every epoch, ascending histories, no snapshot more than one epoch ahead -/
structure HInv (s : FmState) (env : FmEnv) : Prop where
  covers : ∀ lp, Cov (fun a => s.hist a lp) env.self
  sorted : ∀ a lp, Sorted (s.hist a lp)
  bounded : ∀ a lp, ∀ x ∈ s.hist a lp, ∃ cur, fmCurrentEpoch s env = .ok cur ∧ x.1 ≤ cur + 1

theorem fmCurrentEpoch_congr {s s' : FmState} (env : FmEnv)
    (h : s'.config.epochManager = s.config.epochManager) :
    fmCurrentEpoch s' env = fmCurrentEpoch s env := by
  unfold fmCurrentEpoch; rw [h]

theorem hinv_of_eq {s s' : FmState} {env : FmEnv} (hh : s'.hist = s.hist)
    (hc : s'.config.epochManager = s.config.epochManager) (h : HInv s env) : HInv s' env := by
  refine ⟨?_, ?_, ?_⟩
  · rw [hh]; exact h.covers
  · rw [hh]; exact h.sorted
  · rw [hh, fmCurrentEpoch_congr env hc]; exact h.bounded

theorem setHist_hist (s : FmState) (a : Addr) (d : Denom) (h : List (Nat × Nat)) (a' : Addr) (d' : Denom) :
    (s.setHist a d h).hist a' d' = if a' = a ∧ d' = d then h else s.hist a' d' := rfl

/-- an entry of a bounded history lies at or before `cur + 1` for THE current epoch -/
theorem HInv.le_cur {s : FmState} {env : FmEnv} (h : HInv s env) {cur : Nat}
    (hc : fmCurrentEpoch s env = .ok cur) (a : Addr) (lp : Denom) : ∀ x ∈ s.hist a lp, x.1 ≤ cur + 1 := by
  intro x hx
  obtain ⟨c, h1, h2⟩ := h.bounded a lp x hx
  rw [hc] at h1
  cases h1
  exact h2

/-- replacing a user's history by a pointwise lower one -/
theorem hinv_lower {s : FmState} {env : FmEnv} {a : Addr} {lp : Denom} {h' : List (Nat × Nat)}
    (hi : HInv s env) (ha : a ≠ env.self) (hs : Sorted h')
    (hle : ∀ e, Spec.weightAt h' e ≤ Spec.weightAt (s.hist a lp) e)
    (hb : ∀ x ∈ h', ∃ cur, fmCurrentEpoch s env = .ok cur ∧ x.1 ≤ cur + 1) :
    HInv (s.setHist a lp h') env := by
  refine ⟨?_, ?_, ?_⟩
  · intro lp'
    refine cov_lower (hi.covers lp') ?_ ?_
    · simp only [setHist_hist]
      rw [if_neg (fun h => ha h.1.symm)]
    · intro a' e
      simp only [setHist_hist]
      split
      next h => obtain ⟨rfl, rfl⟩ := h; exact hle e
      next => exact Nat.le_refl _
  · intro a' lp'
    rw [setHist_hist]
    split
    · exact hs
    · exact hi.sorted a' lp'
  · intro a' lp' x hx
    rw [setHist_hist] at hx
    have hce : fmCurrentEpoch (s.setHist a lp h') env = fmCurrentEpoch s env := fmCurrentEpoch_congr env rfl
    rw [hce]
    split at hx
    · exact hb x hx
    · exact hi.bounded a' lp' x hx

/-! ### `update_weights` -/

theorem updateWeights_hist {s s' : FmState} {env : FmEnv} {recv : Addr} {lp : Denom}
    {amount unlocking : Nat} {fill : Bool}
    (h : updateWeights s env recv lp amount unlocking fill = .ok s') :
    ∃ cur w cw' uw', fmCurrentEpoch s env = .ok cur ∧
      ((fill = true ∧ cw' = latestWeight (s.hist env.self lp) + w ∧
          uw' = latestWeight (s.hist recv lp) + w) ∨
       (fill = false ∧
          cw' = latestWeight (s.hist env.self lp) - min w (latestWeight (s.hist recv lp)) ∧
          uw' = latestWeight (s.hist recv lp) - min w (latestWeight (s.hist recv lp)))) ∧
      s'.hist env.self lp = histSet (s.hist env.self lp) (cur + 1) cw' ∧
      (recv ≠ env.self → s'.hist recv lp = histSet (s.hist recv lp) (cur + 1) uw') ∧
      (∀ a d, (a, d) ≠ (recv, lp) → (a, d) ≠ (env.self, lp) → s'.hist a d = s.hist a d) := by
  have key : ∀ (e cw' uw' : Nat), (recv = env.self → uw' = cw') →
      let s2 := (s.setHist env.self lp (histSet (s.hist env.self lp) e cw'))
      let s3 := s2.setHist recv lp (histSet (s2.hist recv lp) e uw')
      s3.hist env.self lp = histSet (s.hist env.self lp) e cw' ∧
      (recv ≠ env.self → s3.hist recv lp = histSet (s.hist recv lp) e uw') ∧
      (∀ a d, (a, d) ≠ (recv, lp) → (a, d) ≠ (env.self, lp) → s3.hist a d = s.hist a d) := by
    intro e cw' uw' hsame
    refine ⟨?_, ?_, ?_⟩
    · by_cases hr : recv = env.self
      · have := hsame hr
        subst this
        simp only [setHist_hist, hr, and_self, if_true, histSet_histSet_same]
      · simp only [setHist_hist, and_self, if_true, Ne.symm hr, false_and, if_false]
    · intro hr
      simp only [setHist_hist, and_self, if_true, hr, false_and, if_false]
    · intro a d h1 h2
      simp only [ne_eq, Prod.mk.injEq] at h1 h2
      simp only [setHist_hist, h1, h2, if_false]
  unfold updateWeights at h
  cases fill
  · simp only [bind_ok, fit_ok, pure_ok, Bool.false_eq_true, if_false] at h
    obtain ⟨cur, hc, w, hw, e, ⟨_, rfl⟩, cw', rfl, uw', rfl, rfl⟩ := h
    refine ⟨cur, w, _, _, hc, Or.inr ⟨rfl, rfl, rfl⟩, ?_⟩
    exact key (cur + 1) _ _ (fun hr => by rw [hr])
  · simp only [bind_ok, fit_ok, pure_ok, if_true, ckAdd_ok] at h
    obtain ⟨cur, hc, w, hw, e, ⟨_, rfl⟩, cw', ⟨_, rfl⟩, uw', ⟨_, rfl⟩, rfl⟩ := h
    refine ⟨cur, w, _, _, hc, Or.inl ⟨rfl, rfl, rfl⟩, ?_⟩
    exact key (cur + 1) _ _ (fun hr => by rw [hr])

theorem hinv_update {s s' : FmState} {env : FmEnv} {recv : Addr} {lp : Denom}
    {amount unlocking : Nat} {fill : Bool} (hi : HInv s env)
    (hclose : fill = false → recv ≠ env.self)
    (h : updateWeights s env recv lp amount unlocking fill = .ok s') : HInv s' env := by
  have hstore := updateWeights_sameStore h
  obtain ⟨cur, w, cw', uw', hcur, hdelta, hT, hR, hO⟩ := updateWeights_hist h
  have hce : fmCurrentEpoch s' env = fmCurrentEpoch s env :=
    fmCurrentEpoch_congr env (by rw [hstore.2.2.2])
  have hbt := hi.le_cur hcur env.self lp
  have hbr := hi.le_cur hcur recv lp
  refine ⟨?_, ?_, ?_⟩
  · intro lp'
    by_cases hlp : lp' = lp
    · subst hlp
      refine cov_update (H := fun a => s.hist a lp') (H' := fun a => s'.hist a lp') (recv := recv)
        (e0 := cur + 1) (cw' := cw') (uw' := uw')
        (hi.covers lp') (hi.sorted _ _) (hi.sorted _ _) hbt hbr hT hR ?_ ?_
      · intro a hat har
        exact hO a lp' (by simp [har]) (by simp [hat])
      · rcases hdelta with ⟨_, h1, h2⟩ | ⟨hf, h1, h2⟩
        · exact Or.inl ⟨w, h1, fun _ => h2⟩
        · exact Or.inr ⟨hclose hf, min w (latestWeight (s.hist recv lp')), Nat.min_le_right _ _, h1, h2⟩
    · have : (fun a => s'.hist a lp') = (fun a => s.hist a lp') := by
        funext a
        exact hO a lp' (by simp [hlp]) (by simp [hlp])
      rw [this]
      exact hi.covers lp'
  · intro a d
    by_cases h1 : (a, d) = (env.self, lp)
    · cases h1; rw [hT]; exact histSet_sorted (hi.sorted _ _) _ _
    · by_cases h2 : (a, d) = (recv, lp)
      · cases h2
        have hr : recv ≠ env.self := fun e => h1 (by rw [e])
        rw [hR hr]; exact histSet_sorted (hi.sorted _ _) _ _
      · rw [hO a d h2 h1]; exact hi.sorted a d
  · intro a d x hx
    rw [hce]
    by_cases h1 : (a, d) = (env.self, lp)
    · cases h1
      rw [hT] at hx
      exact ⟨cur, hcur, histSet_bound hbt x hx⟩
    · by_cases h2 : (a, d) = (recv, lp)
      · cases h2
        have hr : recv ≠ env.self := fun e => h1 (by rw [e])
        rw [hR hr] at hx
        exact ⟨cur, hcur, histSet_bound hbr x hx⟩
      · rw [hO a d h2 h1] at hx; exact hi.bounded a d x hx

/-- `update_weights` leaves every other user's history alone -/
theorem updateWeights_frame_hist {s s' : FmState} {env : FmEnv} {recv : Addr} {lp : Denom}
    {amount unlocking : Nat} {fill : Bool}
    (h : updateWeights s env recv lp amount unlocking fill = .ok s') :
    ∀ a d, a ≠ env.self → (a, d) ≠ (recv, lp) → s'.hist a d = s.hist a d := by
  obtain ⟨_, _, _, _, _, _, _, _, hO⟩ := updateWeights_hist h
  intro a d ha had
  exact hO a d had (fun e => ha (by cases e; rfl))

/-! ### `sync_address_lp_weight_history` -/

theorem sync_true_cases {s s' : FmState} {a : Addr} {lp : Denom} {ep : Nat}
    (h : syncHistory s a lp ep true = .ok s') :
    s.hist a lp ≠ [] ∧ (s' = s ∨ s' = s.setHist a lp (compact (s.hist a lp) ep)) := by
  unfold syncHistory at h
  by_cases hem : (s.hist a lp).isEmpty = true
  · simp [hem] at h; cases h
  · have hne : s.hist a lp ≠ [] := by
      intro e; rw [e] at hem; exact hem rfl
    refine ⟨hne, ?_⟩
    simp only [hem, Bool.false_eq_true, if_false, Bool.not_true] at h
    cases hl : (List.filter (fun x => decide (x.fst ≤ ep)) (s.hist a lp)).getLast? with
    | none =>
      rw [hl] at h
      simp only [pure_ok] at h
      exact Or.inl h
    | some p =>
      obtain ⟨k, w⟩ := p
      rw [hl] at h
      simp only [pure_ok] at h
      refine Or.inr ?_
      have hw : Spec.weightAt (s.hist a lp) ep = w := by
        unfold Spec.weightAt; rw [hl]; rfl
      have hgt : ∀ x ∈ List.filter (fun x => decide (x.fst > ep)) (s.hist a lp), ep < x.1 := by
        intro x hx
        have := (List.mem_filter.1 hx).2
        simpa using this
      rw [h, Farm.histSet_of_forall_gt w hgt]
      unfold compact
      rw [hw]

theorem syncHistory_false_eq {s s' : FmState} {a : Addr} {lp : Denom} {e : Nat}
    (h : syncHistory s a lp e false = .ok s') : s' = s.setHist a lp [] :=
  C10H.syncHistory_false_ok h

/-! ### users without open positions have no weight -/

/-- no open position of `u` in LP token `lp` -/
def NoOpen (s : FmState) (u : Addr) (lp : Denom) : Prop :=
  ∀ p ∈ s.positions, p.receiver = u → p.lpDenom = lp → p.open_ = false

def NoW (s : FmState) (self : Addr) : Prop :=
  ∀ (u : Addr) (lp : Denom), u ≠ self → NoOpen s u lp → s.hist u lp = []

/-- the same, except possibly for one (user, LP token) pair -/
def NoWExcept (s : FmState) (self : Addr) (r : Addr) (l : Denom) : Prop :=
  ∀ (u : Addr) (lp : Denom), u ≠ self → (u, lp) ≠ (r, l) → NoOpen s u lp → s.hist u lp = []

theorem NoW.except {s : FmState} {self : Addr} (h : NoW s self) (r : Addr) (l : Denom) :
    NoWExcept s self r l := fun u lp hu _ hn => h u lp hu hn

/-! ### the position part of the invariant -/

def isOpenOf (u : Addr) (p : Position) : Bool := p.receiver == u && p.open_ == true

def openCnt (ps : List Position) (u : Addr) : Nat := (ps.filter (isOpenOf u)).length

theorem openCnt_perm {a b : List Position} (h : a.Perm b) (u : Addr) : openCnt a u = openCnt b u :=
  (h.filter _).length_eq

theorem openCnt_cons (p : Position) (ps : List Position) (u : Addr) :
    openCnt (p :: ps) u = (if isOpenOf u p = true then 1 else 0) + openCnt ps u := by
  unfold openCnt
  rw [List.filter_cons]
  split <;> simp <;> omega

theorem openCnt_filter_le (q : Position → Bool) (ps : List Position) (u : Addr) :
    openCnt (ps.filter q) u ≤ openCnt ps u :=
  (List.filter_sublist.filter _).length_le

structure PosInv (s : FmState) (me : Addr) : Prop where
  noSelf : ∀ p ∈ s.positions, p.receiver ≠ me
  openLimit : ∀ u, openCnt s.positions u ≤ C.MAX_POSITIONS_LIMIT
  posNodup : (s.positions.map (·.id)).Nodup

theorem posInv_of_eq {s s' : FmState} {me : Addr} (hp : s'.positions = s.positions) (h : PosInv s me) :
    PosInv s' me := ⟨by rw [hp]; exact h.noSelf, by rw [hp]; exact h.openLimit, by rw [hp]; exact h.posNodup⟩

/-- the farm-manager invariant behind C10 (without the freshness of generated identifiers) -/
structure FInv (s : FmState) (env : FmEnv) : Prop where
  hist : HInv s env
  noWeight : NoW s env.self
  pos : PosInv s env.self

end MantraDex.WSys
