/-
  The execution tree of a top-level `Swap` transaction, spelled out: funds move, `performSwap` runs,
  the (at most three) leaf messages run as a bank fold.
-/
import MantraDex.Model.System
import MantraDex.Proofs.NumLemmas
import MantraDex.Proofs.BankLemmas
import MantraDex.Proofs.TwoStepLemmas

set_option linter.unusedSimpArgs false
set_option linter.unusedVariables false

namespace MantraDex
open MantraDex.C01 (coinsOf amt coinsOf_cons coinsOf_nil)

theorem coinsOf_single (c : Coin) (d : Denom) : coinsOf [c] d = if c.denom = d then c.amount else 0 := by
  rw [coinsOf_cons, coinsOf_nil, Nat.add_zero]
  unfold amt
  by_cases h : c.denom = d
  · simp [h]
  · simp [h]

/-- the execution tree of an accepted swap transaction -/
theorem swap_run_inv {w w' : World} {u : Addr} {offer : Coin} {ask : Denom} {b ms : Option Nat}
    {recv : Option Addr} {pid : String}
    (h : runTx w (.exec u PM (.pm (.swap ask b ms recv pid)) [offer]) = .ok w') :
    ∃ (b1 x y b4 : Bank) (s1 : PmState) (r : SwapResult),
      performSwap w.pm offer ask pid b ms = .ok (s1, r) ∧
      Moves { w.bank with calls := 0, failAt := none } b1 u PM [offer] ∧
      Moves b1 x PM (addrOrDefault w.pmEnv recv u) [r.ret] ∧
      Burns x y PM [r.burnFee] ∧
      Moves y b4 PM w.pm.config.feeCollector [r.protocolFee] ∧
      w' = { w with bank := b4, pm := s1 } := by
  unfold runTx at h
  simp only at h
  have h64 : FUEL = 63 + 1 := rfl
  rw [h64, execMsg_pm_eq 63 _ u _ [offer] rfl] at h
  obtain ⟨b1, h1, h⟩ := bind_ok.mp h
  obtain ⟨⟨s2, r2⟩, hsw, hsubs⟩ := bind_ok.mp h
  simp only [pmExecute] at hsw
  rw [swapHandler_eq] at hsw
  obtain ⟨yy, hcore, hx2⟩ := map_ok.mp hsw
  simp only [Prod.mk.injEq] at hx2
  obtain ⟨rfl, rfl⟩ := hx2
  obtain ⟨_, _, hps⟩ := swapCore_inv hcore
  simp only at hsubs
  obtain ⟨s1, r⟩ := yy
  simp only [swapResp, ofMsgs_msgs] at hsubs
  rw [execSubs_leaf _ 63 _ PM (swapMsgs_leaf _ _ _ _ _)
    (Nat.le_trans (Nat.succ_le_succ (swapMsgs_length _ _ _ _ _)) (by decide))] at hsubs
  obtain ⟨b4, h3, hw1⟩ := bind_ok.mp hsubs
  simp only [pure_ok] at hw1
  obtain ⟨x, y, m1, m2, m3⟩ := swapMsgs_spec h3
  exact ⟨b1, x, y, b4, s1, r, hps, (send_spec h1).2, m1, m2, m3, hw1⟩

end MantraDex
