/-
  Helper lemmas for Properties/MonSoundB.lean (soundness of the swap / emergency-withdrawal monitors
  with respect to the model).
-/
import MantraDex.Model.System
import MantraDex.Model.HistMon
import MantraDex.Properties.C03
import MantraDex.Properties.C04
import MantraDex.Properties.C04Sys
import MantraDex.Properties.C09Sys
import MantraDex.Properties.C17

set_option linter.unusedSimpArgs false
set_option linter.unusedVariables false

namespace MantraDex.MonSoundBL
open MantraDex

/-- a monitor raises no alarm when every clause holds -/
theorem firstFail_none {xs : List (Bool × String)} (h : xs.all (·.1) = true) : firstFail xs = none := by
  have hf : xs.filter (fun x => !x.1) = [] := by
    rw [List.filter_eq_nil_iff]
    intro a ha
    have := List.all_eq_true.mp h a ha
    simp [this]
  unfold firstFail
  simp only [hf, List.map_nil, List.foldl_nil]

/-- a sum (as the monitors fold it) of equal terms -/
theorem foldl_const {α : Type} (l : List α) (f : α → Int) (c : Int) (h : ∀ a ∈ l, f a = c) (acc : Int) :
    (l.map f).foldl (· + ·) acc = acc + l.length * c := by
  induction l generalizing acc with
  | nil => simp
  | cons a rest ih =>
    simp only [List.map_cons, List.foldl_cons, List.length_cons]
    rw [ih (fun b hb => h b (List.mem_cons_of_mem _ hb)), h a List.mem_cons_self]
    rw [Int.natCast_add, Int.add_mul]
    omega

/-! ### reserves after a swap on a two-asset pool -/

/-- the pool stored after `performSwap` is the pool of the result -/
theorem performSwap_getPool {s s' : PmState} {offer : Coin} {ask : Denom} {pid : String}
    {b ms : Option Nat} {r : SwapResult} (h : performSwap s offer ask pid b ms = .ok (s', r)) :
    s'.getPool pid = .ok r.pool := by
  obtain ⟨pool, c, oi, ai, x, y, hp, _, _, _, _, _, _, _, hr, hs, _⟩ := C04.performSwap_ok h
  have hid : r.pool.id = pid := by rw [hr]; exact (C17.getPool_id hp : pool.id = pid)
  rw [hs]
  have := C17.getPool_savePool_self s r.pool
  rw [hid] at this
  exact this

/-- offer asset first -/
theorem swap_reserves_fst {s s' : PmState} {offer : Coin} {ask : Denom} {pid : String}
    {b ms : Option Nat} {r : SwapResult} {pool : PoolInfo} {x y : Nat}
    (hp : s.getPool pid = .ok pool) (hne : offer.denom ≠ ask)
    (hassets : pool.assets = [⟨offer.denom, x⟩, ⟨ask, y⟩])
    (h : performSwap s offer ask pid b ms = .ok (s', r)) :
    r.ret.amount + r.protocolFee.amount + r.burnFee.amount ≤ y ∧
    r.pool.assets = [⟨offer.denom, x + offer.amount⟩,
      ⟨ask, y - r.ret.amount - (r.protocolFee.amount + r.burnFee.amount)⟩] := by
  obtain ⟨pool0, c, oi, ai, x0, y0, hp0, _, hfo, hfa, _, hoi, hai, hle, hr, _, hret, hpf, hbf, _⟩ :=
    C04.performSwap_ok h
  rw [hp] at hp0; cases hp0
  have hne' : (ask == offer.denom) = false := by simpa using fun e => hne e.symm
  have hne'' : (offer.denom == ask) = false := by simpa using hne
  rw [hassets] at hfo hfa hoi hai
  simp only [findIdx, beq_self_eq_true, if_true, hne'', Bool.false_eq_true, if_false, Option.map_some,
    Option.some.injEq] at hfo hfa
  subst hfo hfa
  simp only [List.getElem?_cons_zero, List.getElem?_cons_succ, Option.some.injEq, Coin.mk.injEq, true_and] at hoi hai
  subst hoi hai
  rw [hret, hpf, hbf]
  refine ⟨hle, ?_⟩
  rw [hr]
  simp only [C04.assetsAfterSwap, hassets, setAmount, List.zipIdx]
  simp

/-- ask asset first -/
theorem swap_reserves_snd {s s' : PmState} {offer : Coin} {ask : Denom} {pid : String}
    {b ms : Option Nat} {r : SwapResult} {pool : PoolInfo} {x y : Nat}
    (hp : s.getPool pid = .ok pool) (hne : offer.denom ≠ ask)
    (hassets : pool.assets = [⟨ask, y⟩, ⟨offer.denom, x⟩])
    (h : performSwap s offer ask pid b ms = .ok (s', r)) :
    r.ret.amount + r.protocolFee.amount + r.burnFee.amount ≤ y ∧
    r.pool.assets = [⟨ask, y - r.ret.amount - (r.protocolFee.amount + r.burnFee.amount)⟩,
      ⟨offer.denom, x + offer.amount⟩] := by
  obtain ⟨pool0, c, oi, ai, x0, y0, hp0, _, hfo, hfa, _, hoi, hai, hle, hr, _, hret, hpf, hbf, _⟩ :=
    C04.performSwap_ok h
  rw [hp] at hp0; cases hp0
  have hne' : (ask == offer.denom) = false := by simpa using fun e => hne e.symm
  have hne'' : (offer.denom == ask) = false := by simpa using hne
  rw [hassets] at hfo hfa hoi hai
  simp only [findIdx, beq_self_eq_true, if_true, hne', Bool.false_eq_true, if_false, Option.map_some,
    Option.some.injEq] at hfo hfa
  subst hfo hfa
  simp only [List.getElem?_cons_zero, List.getElem?_cons_succ, Option.some.injEq, Coin.mk.injEq, true_and] at hoi hai
  subst hoi hai
  rw [hret, hpf, hbf]
  refine ⟨hle, ?_⟩
  rw [hr]
  simp only [C04.assetsAfterSwap, hassets, setAmount, List.zipIdx]
  simp

end MantraDex.MonSoundBL
