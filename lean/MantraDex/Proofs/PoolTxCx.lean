/-
  Counterexamples to the statements of `Properties/C16Tx.lean` as first written (without the hypotheses
  `hcov`, `htf`, `hov`).  The three pool-creation counterexamples are kernel-checked (`decide +kernel`); the
  withdrawal / deposit ones cannot be (their handlers split the LP denom string, which the kernel does not
  reduce) and are given with their `#eval` results.
-/
import MantraDex.Model.System
import MantraDex.Proofs.LpSysBank

set_option linter.unusedSimpArgs false
set_option linter.unusedVariables false

namespace MantraDex.PoolTx.Cx
open MantraDex
open MantraDex.C01 (coinsOf)
open MantraDex.LpSys (Covers sumOver sumOver_cons sumOver_nil sumOver_congr sumOver_indicator)

def lp : Denom := "factory/pm/p.LP"
def fee0 : PoolFee := ⟨0, 0, 0, []⟩
def mkW (bal : Addr → Denom → Nat) (supply : Denom → Nat) (cf : Coin) (tf : List Coin) (pools : List PoolInfo) : World := {
  bank := { bal := bal, supply := supply }
  pm := { config := ⟨FC, FM, cf⟩, pools := pools, owner := { owner := some "o" } }
  fm := { config := ⟨FC, EM, PM, ⟨"x",0⟩, 1, 14, 86400, 31556926, 2629746, 0⟩, owner := { owner := some "o" } }
  em := { cfg := ⟨86400, 0⟩, owner := { owner := some "o" } }
  fc := { owner := some "o" }, nowNs := 0, tfFees := tf, validAddr := fun _ => true }

theorem ok_of_isSome {w : World} {tx : Tx} (h : (runTx w tx).toOption.isSome = true) : ∃ w', runTx w tx = .ok w' := by
  cases hr : runTx w tx with
  | ok w' => exact ⟨w', rfl⟩
  | error e => rw [hr] at h; cases h

/-- a bank in which only two accounts hold anything, within the supply, is covered -/
theorem covers_two {b : Bank} (x y : Addr) (f g : Denom → Nat)
    (hb : ∀ a d, b.bal a d = (0 + if a = x then f d else 0) + if a = y then g d else 0)
    (hs : ∀ d, f d + g d ≤ b.supply d) : Covers b := by
  intro d as hnd
  have h0 : ∀ l : List Addr, sumOver l (fun _ => 0) = 0 := by
    intro l
    induction l with
    | nil => rfl
    | cons a l ih => rw [sumOver_cons, ih]
  rw [sumOver_congr (fun a _ => hb a d), sumOver_indicator hnd, sumOver_indicator hnd, h0]
  have := hs d
  split <;> split <;> omega

/-! ### `create_pool_tx_effect` -/

/-- C1 (no `hcov`): `alice` holds 100 `uom` and 100 `utf` but the supplies are 0 -/
def wC1 : World := mkW (fun a d => if a = "alice" ∧ (d = "uom" ∨ d = "utf") then 100 else 0) (fun _ => 0)
  ⟨"uom",10⟩ [⟨"utf",5⟩] []
def txC1 : Tx := .exec "alice" PM (.pm (.createPool ["x","y"] [6,6] fee0 .cp (some "q"))) [⟨"uom",10⟩,⟨"utf",5⟩]

/-- the pool is created, no `uom` is burned, yet the supply of `uom` moves from 0 to 10 -/
theorem create_pool_no_covers :
    ∃ w', runTx wC1 txC1 = .ok w' ∧
      (w'.bank.supply "uom" : Int) ≠ (wC1.bank.supply "uom" : Int) - ((coinsOf wC1.tfFees "uom" : Nat) : Int) := by
  have h : ((runTx wC1 txC1).toOption.map fun w' => w'.bank.supply "uom") = some 10 := by decide +kernel
  cases hr : runTx wC1 txC1 with
  | error e => rw [hr] at h; cases h
  | ok w' =>
    rw [hr] at h
    simp only [Except.toOption, Option.map_some, Option.some.injEq] at h
    refine ⟨w', rfl, ?_⟩
    rw [h]
    decide

/-- C2 (no `htf`): the token-factory fee list names `utf` twice; the world is covered -/
def wC2 : World := mkW
  (fun a d => if a = "alice" ∧ (d = "uom" ∨ d = "utf") then 100 else if a = PM ∧ d = "utf" then 5 else 0)
  (fun _ => 1000) ⟨"uom",10⟩ [⟨"utf",5⟩,⟨"utf",5⟩] []

theorem wC2_covers : Covers wC2.bank := by
  apply covers_two "alice" PM (fun d => if d = "uom" ∨ d = "utf" then 100 else 0) (fun d => if d = "utf" then 5 else 0)
  · intro a d
    show (if a = "alice" ∧ (d = "uom" ∨ d = "utf") then 100 else if a = PM ∧ d = "utf" then 5 else 0) = _
    have hne : ("alice" : Addr) ≠ PM := by decide
    by_cases h1 : a = "alice"
    · subst h1
      simp only [true_and, if_true, hne, false_and, if_false]
      split <;> simp
    · by_cases h2 : a = PM
      · subst h2
        simp [h1]
      · simp [h1, h2]
  · intro d
    show _ ≤ 1000
    split <;> split <;> omega

/-- the pool is created although only one `utf` fee was attached: the pool manager pays the other one -/
theorem create_pool_dup_tf :
    (∃ w', runTx wC2 txC1 = .ok w') ∧
      coinsOf [(⟨"uom",10⟩ : Coin), ⟨"utf",5⟩] "utf" ≠
        coinsOf [wC2.pm.config.creationFee] "utf" + coinsOf wC2.tfFees "utf" :=
  ⟨ok_of_isSome (by decide +kernel), by decide⟩

/-- C3 (no `hov`): creation fee and token-factory fee of the same denom overflow `u128`; the world is covered -/
def wC3 : World := mkW (fun a d => if a = PM ∧ d = "u" then U128_MAX + 1 else 0) (fun _ => U128_MAX + 1)
  ⟨"u",U128_MAX⟩ [⟨"u",1⟩] []
def txC3 : Tx := .exec "alice" PM (.pm (.createPool ["x","y"] [6,6] fee0 .cp (some "q"))) []

theorem wC3_covers : Covers wC3.bank := by
  apply covers_two PM PM (fun d => if d = "u" then U128_MAX + 1 else 0) (fun _ => 0)
  · intro a d
    show (if a = PM ∧ d = "u" then U128_MAX + 1 else 0) = _
    by_cases h1 : a = PM
    · subst h1; simp
    · simp [h1]
  · intro d
    show _ ≤ U128_MAX + 1
    split <;> omega

/-- the pool is created with NO funds attached: the pool manager pays both fees -/
theorem create_pool_overflow :
    (∃ w', runTx wC3 txC3 = .ok w') ∧
      coinsOf ([] : List Coin) "u" ≠ coinsOf [wC3.pm.config.creationFee] "u" + coinsOf wC3.tfFees "u" :=
  ⟨ok_of_isSome (by decide +kernel), by decide⟩

/-! ### `withdraw_liquidity_tx_effect` / `provide_liquidity_tx_effect` (no `hcov`; checked with `#eval`) -/

def poolA : PoolInfo := { id := "p", denoms := ["x","y"], lpDenom := lp, decimals := [6,6],
                          assets := [⟨"x",100⟩,⟨"y",100⟩], ptype := .cp, fees := fee0, status := {} }
/-- `alice` holds 10 LP although the LP supply is 5 -/
def wA : World := mkW
  (fun a d => if a = "alice" ∧ d = lp then 10 else if a = PM ∧ (d = "x" ∨ d = "y") then 100 else 0)
  (fun d => if d = lp then 5 else if d = "x" ∨ d = "y" then 100 else 0) ⟨"uom",0⟩ [] [poolA]
def txA : Tx := .exec "alice" PM (.pm (.withdrawLiquidity "p")) [⟨lp, 10⟩]
/-  #eval (runTx wA txA).toOption.map fun w' => (w'.bank.bal "alice" "x", w'.bank.supply lp, 100 * 10 / wA.bank.supply lp)
      -- some (100, 0, 200)
    moving the 10 LP to the pool manager lifts the supply from 5 to 10 (`subCoin` truncates 5 − 10 to 0, `addCoin`
    adds 10), the handler sees a supply of 10 and refunds 100·10/10 = 100 `x` — not 100·10/5 = 200 as the statement
    says — and the supply ends at 0, not at 5 − 10. -/

def poolB : PoolInfo := { poolA with assets := [⟨"x",0⟩,⟨"y",0⟩] }
/-- `alice` holds 2000 `x` and 2000 `y` although their supplies are 0 -/
def wB : World := mkW (fun a d => if a = "alice" ∧ (d = "x" ∨ d = "y") then 2000 else 0) (fun _ => 0) ⟨"uom",0⟩ [] [poolB]
def txB : Tx := .exec "alice" PM (.pm (.provideLiquidity none none none "p" none none)) [⟨"x",2000⟩,⟨"y",2000⟩]
/-  #eval (runTx wB txB).toOption.map fun w' => (w'.bank.supply "x", wB.bank.supply "x", w'.bank.bal "alice" lp)
      -- some (2000, 0, 1000)
    the deposit is accepted and the supply of `x` moves from 0 to 2000, although the statement says that only the
    supply of the LP denom changes. -/

end MantraDex.PoolTx.Cx
