/-
  Runtime lemma used to lift pool-manager state relations through the message-execution semantics of
  `Model/System.lean` (`Properties/C16Sys.lean`): a reflexive, transitive relation on `PmState` that is
  established by every successful `pmExecute` (run with `env.self = PM`) and every successful `pmReply`
  relates the pool manager's state before and after ANY execution — whoever the sender, with nested
  calls, replies, caught failures (a rolled-back sub-message restores the state), and hence before and
  after every transaction and every history.
-/
import MantraDex.Model.System
import MantraDex.Proofs.NumLemmas

set_option linter.unusedSimpArgs false
set_option linter.unusedVariables false

namespace MantraDex.SysPools
open MantraDex

/-- a relation on pool-manager states that every entry point of the pool manager establishes -/
structure PmRel (G : PmState → PmState → Prop) : Prop where
  refl : ∀ s, G s s
  trans : ∀ {a b c}, G a b → G b c → G a c
  exec : ∀ {s s' : PmState} {env : PmEnv} {sender : Addr} {funds : List Coin} {m : PmMsg} {r : Response},
    env.self = PM → pmExecute s env sender funds m = .ok (s', r) → G s s'
  reply : ∀ {s s' : PmState} {env : PmEnv} {id : Nat} {r : Response},
    pmReply s env id = .ok (s', r) → G s s'

/-- inversion of a successful contract call -/
theorem wasm_inv {n : Nat} {w w' : World} {sender c : Addr} {msg : ContractMsg} {funds : List Coin}
    (h : execMsg (n + 1) w sender (.wasmExec c msg funds) = .ok w') :
    ∃ w1 w2 resp, (if funds.isEmpty then pure w else do
        let b ← w.bank.send sender c funds
        pure { w with bank := b }) = (.ok w1 : R World) ∧
      callExecute w1 c sender funds msg = .ok (w2, resp) ∧ execSubs n w2 c resp.msgs = .ok w' := by
  rw [execMsg] at h
  split at h
  · cases h
  · dsimp only at h
    split at h
    · rename_i hf
      simp only [bind_ok, pure_ok] at h
      obtain ⟨w1, rfl, ⟨w2, resp⟩, hce, h⟩ := h
      exact ⟨_, w2, resp, by rw [if_pos hf]; rfl, hce, h⟩
    · rename_i hf
      simp only [bind_ok, pure_ok] at h
      obtain ⟨b, hb, w1, rfl, ⟨w2, resp⟩, hce, h⟩ := h
      refine ⟨_, w2, resp, ?_, hce, h⟩
      rw [if_neg hf, hb]; rfl

theorem fundsMove_pm {w w1 : World} {sender c : Addr} {funds : List Coin}
    (h : (if funds.isEmpty then pure w else do
        let b ← w.bank.send sender c funds
        pure { w with bank := b }) = (.ok w1 : R World)) : w1.pm = w.pm := by
  split at h
  · simp only [pure_ok] at h; subst h; rfl
  · obtain ⟨b, hb, h⟩ := bind_ok.mp h
    simp only [pure_ok] at h; subst h; rfl

theorem callExecute_rel {G : PmState → PmState → Prop} (hG : PmRel G) {w w2 : World} {c sender : Addr}
    {funds : List Coin} {msg : ContractMsg} {resp : Response}
    (h : callExecute w c sender funds msg = .ok (w2, resp)) : G w.pm w2.pm := by
  cases msg with
  | pm m =>
    simp only [callExecute] at h
    split at h
    · cases h
    · obtain ⟨⟨s, r⟩, hr, h⟩ := bind_ok.mp h
      simp only [pure_ok, Prod.mk.injEq] at h
      obtain ⟨hw2, -⟩ := h
      subst hw2
      exact hG.exec rfl hr
  | fm m =>
    simp only [callExecute] at h
    split at h
    · cases h
    · obtain ⟨⟨s, r⟩, hr, h⟩ := bind_ok.mp h
      simp only [pure_ok, Prod.mk.injEq] at h
      obtain ⟨hw2, -⟩ := h
      subst hw2
      exact hG.refl _
  | em m =>
    simp only [callExecute] at h
    split at h
    · cases h
    · obtain ⟨s, hr, h⟩ := bind_ok.mp h
      simp only [pure_ok, Prod.mk.injEq] at h
      obtain ⟨hw2, -⟩ := h
      subst hw2
      exact hG.refl _
  | fc m =>
    cases m with
    | updateOwnership a =>
      simp only [callExecute] at h
      split at h
      · cases h
      · obtain ⟨_, _, h⟩ := bind_ok.mp h
        obtain ⟨o, hr, h⟩ := bind_ok.mp h
        simp only [pure_ok, Prod.mk.injEq] at h
        obtain ⟨hw2, -⟩ := h
        subst hw2
        exact hG.refl _

theorem callReply_rel {G : PmState → PmState → Prop} (hG : PmRel G) {w w2 : World} {c : Addr} {id : Nat}
    {resp : Response} (h : callReply w c id = .ok (w2, resp)) : G w.pm w2.pm := by
  unfold callReply at h
  split at h
  · obtain ⟨⟨s, r⟩, hr, h⟩ := bind_ok.mp h
    simp only [pure_ok, Prod.mk.injEq] at h
    obtain ⟨hw2, -⟩ := h
    subst hw2
    exact hG.reply hr
  · split at h
    · obtain ⟨⟨s, r⟩, hr, h⟩ := bind_ok.mp h
      simp only [pure_ok, Prod.mk.injEq] at h
      obtain ⟨hw2, -⟩ := h
      subst hw2
      exact hG.refl _
    · cases h

/-- every execution, of any message by any sender, relates the pool manager's states -/
theorem run_rel {G : PmState → PmState → Prop} (hG : PmRel G) (fuel : Nat) :
    (∀ w sender m w', execMsg fuel w sender m = .ok w' → G w.pm w'.pm) ∧
    (∀ w c subs w', execSubs fuel w c subs = .ok w' → G w.pm w'.pm) := by
  induction fuel with
  | zero =>
    constructor
    · intro w sender m w' h; rw [execMsg] at h; cases h
    · intro w c subs w' h; rw [execSubs] at h; cases h
  | succ n ih =>
    obtain ⟨ihM, ihS⟩ := ih
    constructor
    · intro w sender m w' h
      cases m with
      | bankSend to coins =>
        rw [execMsg] at h
        obtain ⟨b, hb, h⟩ := bind_ok.mp h
        simp only [pure_ok] at h; subst h
        exact hG.refl _
      | bankBurn coins =>
        rw [execMsg] at h
        obtain ⟨b, hb, h⟩ := bind_ok.mp h
        simp only [pure_ok] at h; subst h
        exact hG.refl _
      | tfCreateDenom sd =>
        rw [execMsg] at h
        obtain ⟨b, hb, h⟩ := bind_ok.mp h
        simp only [pure_ok] at h; subst h
        exact hG.refl _
      | tfMint coin to =>
        rw [execMsg] at h
        obtain ⟨b, hb, h⟩ := bind_ok.mp h
        simp only [pure_ok] at h; subst h
        exact hG.refl _
      | tfBurn coin =>
        rw [execMsg] at h
        obtain ⟨b, hb, h⟩ := bind_ok.mp h
        simp only [pure_ok] at h; subst h
        exact hG.refl _
      | wasmExec c msg funds =>
        obtain ⟨w1, w2, resp, hw1, hce, h⟩ := wasm_inv h
        have g1 : G w.pm w1.pm := by rw [fundsMove_pm hw1]; exact hG.refl _
        exact hG.trans (hG.trans g1 (callExecute_rel hG hce)) (ihS _ _ _ _ h)
    · intro w c subs w' h
      cases subs with
      | nil => rw [execSubs] at h; cases h; exact hG.refl _
      | cons sm rest =>
        rw [execSubs] at h
        split at h
        · rename_i w1 hw1
          have g1 := ihM _ _ _ _ hw1
          split at h
          · obtain ⟨⟨w2, resp⟩, hcr, h⟩ := bind_ok.mp h
            obtain ⟨w3, h3, h⟩ := bind_ok.mp h
            exact hG.trans (hG.trans (hG.trans g1 (callReply_rel hG hcr)) (ihS _ _ _ _ h3)) (ihS _ _ _ _ h)
          · exact hG.trans g1 (ihS _ _ _ _ h)
        · rename_i e he
          split at h
          · obtain ⟨⟨w2, resp⟩, hcr, h⟩ := bind_ok.mp h
            obtain ⟨w3, h3, h⟩ := bind_ok.mp h
            have g2 := callReply_rel hG hcr
            exact hG.trans (hG.trans g2 (ihS _ _ _ _ h3)) (ihS _ _ _ _ h)
          · cases h

/-- one transaction (committed or rejected, with or without an injected fault) -/
theorem step_rel {G : PmState → PmState → Prop} (hG : PmRel G) (w : World) (tx : Tx) (k : Option Nat) :
    G w.pm (step w tx k).pm := by
  unfold step
  cases hr : runTx w tx k with
  | error e => exact hG.refl _
  | ok w' =>
    show G w.pm w'.pm
    cases tx with
    | exec sender c msg funds =>
      simp only [runTx] at hr
      have := (run_rel hG FUEL).1 _ _ _ _ hr
      exact this
    | send frm to coins =>
      simp only [runTx] at hr
      have := (run_rel hG FUEL).1 _ _ _ _ hr
      exact this
    | advance ns =>
      simp only [runTx] at hr
      cases hr
      exact hG.refl _

/-- every history -/
theorem hist_rel {G : PmState → PmState → Prop} (hG : PmRel G) (txs : List (Tx × Option Nat)) (w0 : World) :
    G w0.pm (txs.foldl (fun w t => step w t.1 t.2) w0).pm := by
  induction txs generalizing w0 with
  | nil => exact hG.refl _
  | cons t rest ih =>
    rw [List.foldl_cons]
    exact hG.trans (step_rel hG w0 t.1 t.2) (ih _)

end MantraDex.SysPools
