/-
  Helper lemmas for `Properties/MonSoundH.lean`: the fee-message accumulator of `routeHops` influences neither acceptance nor
  the final state nor the output coin, and a route splits into "its first hop run alone" and "the rest run from the state and
  coin the first hop left".
-/
import MantraDex.Model.System
import MantraDex.Properties.C04

set_option linter.unusedSimpArgs false
set_option linter.unusedVariables false

namespace MantraDex.MonSoundHL
open MantraDex

/-- what the head of a route needs to be accepted -/
theorem routeHops_head {s s' : PmState} {ms : Option Nat} {op : SwapOp} {ops : List SwapOp}
    {prev out : Coin} {fees fees' : List Msg}
    (h : routeHops s ms (op :: ops) prev fees = .ok (s', out, fees')) :
    ∃ pool, s.getPool op.poolId = .ok pool ∧ (!pool.status.swaps) = false := by
  rw [routeHops] at h
  simp only [bind_ok] at h
  obtain ⟨pool, hpool, h⟩ := h
  refine ⟨pool, hpool, ?_⟩
  cases hsw : (!pool.status.swaps)
  · rfl
  · rw [hsw] at h
    simp only [if_true, bind, Except.bind, reduceCtorEq] at h

/-- the head of a route, rebuilt from its ingredients -/
theorem routeHops_cons_eq {s s1 : PmState} {ms : Option Nat} {op : SwapOp} {ops : List SwapOp}
    {prev : Coin} {g : List Msg} {pool : PoolInfo} {r : SwapResult}
    (hpool : s.getPool op.poolId = .ok pool) (hsw : (!pool.status.swaps) = false)
    (hps : performSwap s prev op.tokenOut op.poolId none ms = .ok (s1, r)) :
    routeHops s ms (op :: ops) prev g =
      routeHops s1 ms ops r.ret
        (g ++ (if r.burnFee.amount ≠ 0 then [Msg.bankBurn [r.burnFee]] else []) ++
          (if r.protocolFee.amount ≠ 0 then [Msg.bankSend s.config.feeCollector [r.protocolFee]]
           else [])) := by
  rw [routeHops, hpool]
  simp only [bind, Except.bind, hsw, hps]
  rfl

/-- the accumulator does not influence acceptance, final state or output coin -/
theorem routeHops_acc {ms : Option Nat} (ops : List SwapOp) :
    ∀ {s s' : PmState} {prev out : Coin} {fees fees' : List Msg},
      routeHops s ms ops prev fees = .ok (s', out, fees') →
      ∀ g : List Msg, ∃ g', routeHops s ms ops prev g = .ok (s', out, g') := by
  induction ops with
  | nil =>
    intro s s' prev out fees fees' h g
    rw [routeHops] at h
    simp only [Except.ok.injEq, Prod.mk.injEq] at h
    obtain ⟨rfl, rfl, rfl⟩ := h
    exact ⟨g, by rw [routeHops]⟩
  | cons op ops ih =>
    intro s s' prev out fees fees' h g
    obtain ⟨pool, hpool, hsw⟩ := routeHops_head h
    obtain ⟨s1, r, hps, hrest⟩ := C04.routeHops_cons h
    rw [routeHops_cons_eq hpool hsw hps]
    exact ih hrest _

/-- a route splits into its first hop run alone and the rest run from where the first hop stopped -/
theorem routeHops_split {s s' : PmState} {ms : Option Nat} {op : SwapOp} {ops : List SwapOp}
    {prev out : Coin} {fees fees' : List Msg}
    (h : routeHops s ms (op :: ops) prev fees = .ok (s', out, fees')) :
    ∃ s1 r f1, performSwap s prev op.tokenOut op.poolId none ms = .ok (s1, r) ∧
      routeHops s ms [op] prev [] = .ok (s1, r.ret, f1) ∧
      ∃ f2, routeHops s1 ms ops r.ret [] = .ok (s', out, f2) := by
  obtain ⟨pool, hpool, hsw⟩ := routeHops_head h
  obtain ⟨s1, r, hps, hrest⟩ := C04.routeHops_cons h
  obtain ⟨f2, hf2⟩ := routeHops_acc ops hrest []
  have h1 := routeHops_cons_eq (ops := []) (g := []) hpool hsw hps
  rw [routeHops] at h1
  exact ⟨s1, r, _, hps, h1, f2, hf2⟩

end MantraDex.MonSoundHL
