/-
  Helper lemmas for `Properties/C17Tx.lean`: the handler-level simulation `Switch.Sim` of
  `Proofs/SwitchLemmas.lean` lifted through the runtime (`execMsg` / `execSubs`).

  * `WorldRel`   — two worlds equal up to the pool switches, the second at least as enabled;
  * `SubGood`    — a sub-message that asks for a reply on error is a bank / token-factory message (never a
                   contract call): its outcome does not depend on switches, so a caught failure is caught in
                   both worlds.  Every response of the four contracts consists of such sub-messages
                   (`callExecute_good`, `callReply_good`);
  * `exec_sim`   — the simulation by induction on fuel;
  * `runTx_sim`  — one transaction.
-/
import MantraDex.Model.System
import MantraDex.Proofs.NumLemmas
import MantraDex.Proofs.SwitchLemmas
import MantraDex.Proofs.AuthSysShapes

set_option linter.unusedSimpArgs false
set_option linter.unusedVariables false

namespace MantraDex.SwitchTx
open MantraDex Switch AuthSys

/-- same world up to the pool switches of the pool manager; `w2` at least as enabled as `w1` -/
def WorldRel (w1 w2 : World) : Prop :=
  w2.bank = w1.bank ∧ w2.fm = w1.fm ∧ w2.em = w1.em ∧ w2.fc = w1.fc ∧ w2.nowNs = w1.nowNs ∧
  w2.tfFees = w1.tfFees ∧ w2.validAddr = w1.validAddr ∧ Switch.StateRel w1.pm w2.pm

theorem PoolsRel.refl : ∀ l : List PoolInfo, Switch.PoolsRel l l
  | [] => Switch.PoolsRel.nil
  | p :: ps => Switch.PoolsRel.cons (Switch.PoolRel.refl p) (PoolsRel.refl ps)

theorem StateRel.refl (s : PmState) : Switch.StateRel s s := ⟨rfl, rfl, rfl, rfl, PoolsRel.refl _⟩

theorem WorldRel.refl (w : World) : WorldRel w w := ⟨rfl, rfl, rfl, rfl, rfl, rfl, rfl, StateRel.refl _⟩

theorem WorldRel.withBank {w1 w2 : World} (h : WorldRel w1 w2) (b : Bank) :
    WorldRel { w1 with bank := b } { w2 with bank := b } :=
  ⟨rfl, h.2.1, h.2.2.1, h.2.2.2.1, h.2.2.2.2.1, h.2.2.2.2.2.1, h.2.2.2.2.2.2.1, h.2.2.2.2.2.2.2⟩

theorem WorldRel.withPm {w1 w2 : World} (h : WorldRel w1 w2) {s1 s2 : PmState} (hs : Switch.StateRel s1 s2) :
    WorldRel { w1 with pm := s1 } { w2 with pm := s2 } :=
  ⟨h.1, h.2.1, h.2.2.1, h.2.2.2.1, h.2.2.2.2.1, h.2.2.2.2.2.1, h.2.2.2.2.2.2.1, hs⟩

theorem WorldRel.withFm {w1 w2 : World} (h : WorldRel w1 w2) (s : FmState) :
    WorldRel { w1 with fm := s } { w2 with fm := s } :=
  ⟨h.1, rfl, h.2.2.1, h.2.2.2.1, h.2.2.2.2.1, h.2.2.2.2.2.1, h.2.2.2.2.2.2.1, h.2.2.2.2.2.2.2⟩

theorem WorldRel.withEm {w1 w2 : World} (h : WorldRel w1 w2) (s : EmState) :
    WorldRel { w1 with em := s } { w2 with em := s } :=
  ⟨h.1, h.2.1, rfl, h.2.2.2.1, h.2.2.2.2.1, h.2.2.2.2.2.1, h.2.2.2.2.2.2.1, h.2.2.2.2.2.2.2⟩

theorem WorldRel.withFc {w1 w2 : World} (h : WorldRel w1 w2) (s : Ownership) :
    WorldRel { w1 with fc := s } { w2 with fc := s } :=
  ⟨h.1, h.2.1, h.2.2.1, rfl, h.2.2.2.2.1, h.2.2.2.2.2.1, h.2.2.2.2.2.2.1, h.2.2.2.2.2.2.2⟩

theorem WorldRel.withNow {w1 w2 : World} (h : WorldRel w1 w2) (n : Nat) :
    WorldRel { w1 with nowNs := n } { w2 with nowNs := n } :=
  ⟨h.1, h.2.1, h.2.2.1, h.2.2.2.1, rfl, h.2.2.2.2.2.1, h.2.2.2.2.2.2.1, h.2.2.2.2.2.2.2⟩

/-- the second world is the first one with another pool-manager state -/
theorem WorldRel.elim {w1 w2 : World} (h : WorldRel w1 w2) :
    ∃ s2, w2 = { w1 with pm := s2 } ∧ Switch.StateRel w1.pm s2 := by
  obtain ⟨b1, pm1, fm1, em1, fc1, n1, tf1, va1⟩ := w1
  obtain ⟨b2, pm2, fm2, em2, fc2, n2, tf2, va2⟩ := w2
  obtain ⟨hb, hfm, hem, hfc, hnow, htf, hva, hpm⟩ := h
  dsimp only at hb hfm hem hfc hnow htf hva hpm
  subst hb hfm hem hfc hnow htf hva
  exact ⟨pm2, rfl, hpm⟩

/-- the pool manager sees the same environment in both worlds -/
theorem pmEnv_eq {w1 w2 : World} (h : WorldRel w1 w2) : w2.pmEnv = w1.pmEnv := by
  obtain ⟨s2, rfl, hs⟩ := h.elim
  unfold World.pmEnv
  dsimp only
  rw [hs.1]

theorem fmEnv_eq {w1 w2 : World} (h : WorldRel w1 w2) : w2.fmEnv = w1.fmEnv := by
  obtain ⟨s2, rfl, hs⟩ := h.elim
  rfl

/-! ### `Sim` helpers -/

/-- `Sim.bind` that remembers the two successful results -/
theorem Sim.bind_ok {α β α' β' : Type} {Q : α → β → Prop} {Q' : α' → β' → Prop} {x : R α} {y : R β}
    {f : α → R α'} {g : β → R β'} (h : Sim Q x y)
    (hf : ∀ a b, x = .ok a → y = .ok b → Q a b → Sim Q' (f a) (g b)) :
    Sim Q' (x >>= f) (y >>= g) := by
  rcases h with rfl | ⟨a, b, rfl, rfl, hq⟩ | ⟨e, e', rfl, rfl⟩
  · exact Sim.disabled
  · exact hf a b rfl rfl hq
  · exact Sim.err

/-- both succeed with related results, or both fail (no `disabled` escape) -/
def Strict {α β : Type} (Q : α → β → Prop) (x : R α) (y : R β) : Prop :=
  (∃ a b, x = .ok a ∧ y = .ok b ∧ Q a b) ∨ (∃ e e', x = .error e ∧ y = .error e')

theorem Strict.sim {α β : Type} {Q : α → β → Prop} {x : R α} {y : R β} (h : Strict Q x y) : Sim Q x y :=
  Or.inr h

theorem Strict.bank {w1 w2 : World} (h : WorldRel w1 w2) (x : R Bank) :
    Strict WorldRel (x >>= fun b => pure { w1 with bank := b }) (x >>= fun b => pure { w2 with bank := b }) := by
  cases x with
  | ok b => exact Or.inl ⟨_, _, rfl, rfl, h.withBank b⟩
  | error e => exact Or.inr ⟨e, e, rfl, rfl⟩

/-! ### sub-messages whose failure may be caught -/

/-- a sub-message that asks for a reply on error is not a contract call -/
def SubGood (sm : SubMsg) : Prop := sm.replyOn.onError = true → Leaf sm.msg

theorem subGood_of_leaf {sm : SubMsg} (h : Leaf sm.msg) : SubGood sm := fun _ => h

theorem subGood_of_never {sm : SubMsg} (h : sm.replyOn = .never) : SubGood sm := by
  intro he; rw [h] at he; cases he

theorem pmExecute_good {s s' : PmState} {env : PmEnv} {sender : Addr} {funds : List Coin} {m : PmMsg}
    {r : Response} (h : pmExecute s env sender funds m = .ok (s', r)) : ∀ sm ∈ r.msgs, SubGood sm := by
  by_cases hm : ∀ ls ss rc pid u l, m ≠ .provideLiquidity ls ss rc pid u l
  · exact fun sm hsm => subGood_of_leaf (pmExecute_leaf h hm sm hsm)
  · have : ∃ ls ss rc pid u l, m = .provideLiquidity ls ss rc pid u l := by
      cases m with
      | provideLiquidity ls ss rc pid u l => exact ⟨_, _, _, _, _, _, rfl⟩
      | _ => exact absurd (fun _ _ _ _ _ _ => PmMsg.noConfusion) hm
    obtain ⟨ls, ss, rc, pid, u, l, rfl⟩ := this
    simp only [pmExecute] at h
    obtain ⟨deps, hagg, hne⟩ := pl_agg h
    by_cases hlen : deps.length = 1
    · obtain ⟨c, rfl⟩ : ∃ c, deps = [c] := by
        match deps, hlen with
        | [c], _ => exact ⟨c, rfl⟩
      obtain ⟨pool', ask, sim, -, -, -, -, -, -, hr⟩ := pl_single hagg h
      rw [hr]
      intro sm hsm
      simp only [List.mem_singleton] at hsm
      subst hsm
      intro he; cases he
    · obtain ⟨pool, sh, m0, hp, hm0, ht⟩ := pl_multi hagg hlen h
      intro sm hsm
      exact subGood_of_never (SysPm.plTail_noPm (SysPm.mints_noPm hm0) ht sm hsm).1

theorem callExecute_good {w w2 : World} {c sender : Addr} {funds : List Coin} {msg : ContractMsg}
    {resp : Response} (h : callExecute w c sender funds msg = .ok (w2, resp)) :
    ∀ sm ∈ resp.msgs, SubGood sm := by
  rcases callExecute_cases h with ⟨m, s, -, -, hx, -⟩ | ⟨m, s, -, -, hx, -⟩ | ⟨m, s, -, -, -, -, hr⟩ |
      ⟨a, o, -, -, -, -, -, hr⟩
  · exact pmExecute_good hx
  · exact fun sm hsm => subGood_of_leaf (fmExecute_leaf hx sm hsm)
  · rw [hr]; intro sm hsm; cases hsm
  · rw [hr]; intro sm hsm; cases hsm

theorem callReply_good {w w2 : World} {c : Addr} {id : Nat} {resp : Response}
    (h : callReply w c id = .ok (w2, resp)) : ∀ sm ∈ resp.msgs, SubGood sm := by
  rcases callReply_cases h with ⟨-, s, hx, -⟩ | ⟨-, -, hr⟩
  · obtain ⟨b, -, -, hr⟩ := pmReply_shape hx
    rw [hr]
    intro sm hsm
    simp only [List.mem_singleton] at hsm
    subst hsm
    intro he; cases he
  · rw [hr]; intro sm hsm; cases hsm

/-! ### the two entry points -/

/-- related worlds, same response -/
def RespRel (a b : World × Response) : Prop := WorldRel a.1 b.1 ∧ b.2 = a.2

theorem callExecute_sim {w1 w2 : World} (h : WorldRel w1 w2) (c sender : Addr) (funds : List Coin)
    (m : ContractMsg) :
    Sim RespRel (callExecute w1 c sender funds m) (callExecute w2 c sender funds m) := by
  have henv := pmEnv_eq h
  obtain ⟨s2, rfl, hs⟩ := h.elim
  cases m with
  | pm pm =>
    simp only [callExecute]
    refine Sim.ite (fun _ => Sim.err) fun _ => ?_
    rw [henv]
    refine Sim.bind (pmExecute_sim hs w1.pmEnv sender funds pm) ?_
    rintro ⟨s1', r1⟩ ⟨s2', r2⟩ ⟨hs', hr⟩
    exact Sim.pure ⟨h.withPm hs', hr⟩
  | fm fm =>
    simp only [callExecute]
    refine Sim.ite (fun _ => Sim.err) fun _ => ?_
    refine Sim.bind_same (fmExecute w1.fm w1.fmEnv sender funds fm) ?_
    rintro ⟨s, r⟩
    exact Sim.pure ⟨h.withFm s, rfl⟩
  | em em =>
    simp only [callExecute]
    refine Sim.ite (fun _ => Sim.err) fun _ => ?_
    refine Sim.bind_same (emExecute w1.em w1.validAddr w1.nowNs sender funds em) ?_
    intro s
    exact Sim.pure ⟨h.withEm s, rfl⟩
  | fc fc =>
    cases fc with
    | updateOwnership a =>
      simp only [callExecute]
      refine Sim.ite (fun _ => Sim.err) fun _ => ?_
      refine Sim.bind_same _ fun _ => ?_
      refine Sim.bind_same (w1.fc.update w1.validAddr w1.nowNs sender a) ?_
      intro s
      exact Sim.pure ⟨h.withFc s, rfl⟩

theorem callReply_sim {w1 w2 : World} (h : WorldRel w1 w2) (c : Addr) (id : Nat) :
    Sim RespRel (callReply w1 c id) (callReply w2 c id) := by
  have henv := pmEnv_eq h
  obtain ⟨s2, rfl, hs⟩ := h.elim
  unfold callReply
  refine Sim.ite (fun _ => ?_) fun _ => Sim.ite (fun _ => ?_) fun _ => Sim.err
  · rw [henv]
    refine Sim.bind (pmReply_sim hs w1.pmEnv id) ?_
    rintro ⟨s1', r1⟩ ⟨s2', r2⟩ ⟨hs', hr⟩
    exact Sim.pure ⟨h.withPm hs', hr⟩
  · refine Sim.bind_same (fmReply w1.fm id) ?_
    rintro ⟨s, r⟩
    exact Sim.pure ⟨h.withFm s, rfl⟩

/-! ### bank / token-factory messages -/

theorem execMsg_leaf {w1 w2 : World} (h : WorldRel w1 w2) (fuel : Nat) (sender : Addr) {m : Msg}
    (hm : Leaf m) : Strict WorldRel (execMsg fuel w1 sender m) (execMsg fuel w2 sender m) := by
  cases fuel with
  | zero => rw [execMsg, execMsg]; exact Or.inr ⟨_, _, rfl, rfl⟩
  | succ n =>
    obtain ⟨s2, rfl, hs⟩ := h.elim
    cases m with
    | bankSend to coins => rw [execMsg, execMsg]; exact Strict.bank h (w1.bank.send sender to coins)
    | bankBurn coins => rw [execMsg, execMsg]; exact Strict.bank h (w1.bank.burn sender coins)
    | tfCreateDenom sd => rw [execMsg, execMsg]; exact Strict.bank h (w1.bank.burn sender w1.tfFees)
    | tfMint coin to => rw [execMsg, execMsg]; exact Strict.bank h (w1.bank.mint to [coin])
    | tfBurn coin => rw [execMsg, execMsg]; exact Strict.bank h (w1.bank.burn sender [coin])
    | wasmExec c msg funds => exact hm.elim

/-! ### the runtime -/

theorem execSubs_cons (n : Nat) (w : World) (c : Addr) (sm : SubMsg) (rest : List SubMsg) :
    execSubs (n + 1) w c (sm :: rest) =
      match execMsg n w c sm.msg with
      | .ok w' =>
        if sm.replyOn.onSuccess then
          callReply w' c sm.id >>= fun p =>
            execSubs n p.1 c p.2.msgs >>= fun w3 => execSubs n w3 c rest
        else execSubs n w' c rest
      | .error e =>
        if sm.replyOn.onError then
          callReply { w with bank := { w.bank with calls := w.bank.calls + sm.msg.callsWhenFailed } } c sm.id
            >>= fun p => execSubs n p.1 c p.2.msgs >>= fun w3 => execSubs n w3 c rest
        else .error e := by
  rw [execSubs]
  rfl

theorem execMsg_wasm (n : Nat) (w : World) (sender c : Addr) (msg : ContractMsg) (funds : List Coin) :
    execMsg (n + 1) w sender (.wasmExec c msg funds) =
      if !isContract c then .error .other else
        (if funds.isEmpty then pure w else
          w.bank.send sender c funds >>= fun b => pure { w with bank := b }) >>= fun w1 =>
        callExecute w1 c sender funds msg >>= fun p => execSubs n p.1 c p.2.msgs := by
  rw [execMsg]
  split
  · rfl
  · dsimp only
    split
    · rfl
    · cases w.bank.send sender c funds <;> rfl

theorem exec_sim (fuel : Nat) :
    (∀ w1 w2 sender m, WorldRel w1 w2 →
      Sim WorldRel (execMsg fuel w1 sender m) (execMsg fuel w2 sender m)) ∧
    (∀ w1 w2 c subs, WorldRel w1 w2 → (∀ sm ∈ subs, SubGood sm) →
      Sim WorldRel (execSubs fuel w1 c subs) (execSubs fuel w2 c subs)) := by
  induction fuel with
  | zero =>
    constructor
    · intro w1 w2 sender m h; rw [execMsg, execMsg]; exact Sim.err
    · intro w1 w2 c subs h hg; rw [execSubs, execSubs]; exact Sim.err
  | succ n ih =>
    obtain ⟨ihM, ihS⟩ := ih
    -- what happens after a reply (shared by the success and the caught-failure branch)
    have after : ∀ (wa wb : World) (c : Addr) (id : Nat) (rest : List SubMsg), WorldRel wa wb →
        (∀ sm ∈ rest, SubGood sm) →
        Sim WorldRel
          (callReply wa c id >>= fun p => execSubs n p.1 c p.2.msgs >>= fun w3 => execSubs n w3 c rest)
          (callReply wb c id >>= fun p => execSubs n p.1 c p.2.msgs >>= fun w3 => execSubs n w3 c rest) := by
      intro wa wb c id rest hab hrest
      refine Sim.bind_ok (callReply_sim hab c id) ?_
      rintro ⟨wa', ra⟩ ⟨wb', rb⟩ hea heb ⟨hw, hr⟩
      dsimp only at hw hr ⊢
      subst hr
      refine Sim.bind (ihS _ _ _ _ hw (callReply_good hea)) ?_
      intro wa3 wb3 h3
      exact ihS _ _ _ _ h3 hrest
    constructor
    · intro w1 w2 sender m h
      cases m with
      | wasmExec c msg funds =>
        rw [execMsg_wasm, execMsg_wasm]
        refine Sim.ite (fun _ => Sim.err) fun _ => ?_
        have hmove : Sim WorldRel
            (if funds.isEmpty then pure w1 else
              w1.bank.send sender c funds >>= fun b => pure { w1 with bank := b })
            (if funds.isEmpty then pure w2 else
              w2.bank.send sender c funds >>= fun b => pure { w2 with bank := b }) := by
          refine Sim.ite (fun _ => Sim.pure h) fun _ => ?_
          obtain ⟨s2, rfl, hs⟩ := h.elim
          exact (Strict.bank h (w1.bank.send sender c funds)).sim
        refine Sim.bind hmove ?_
        intro wa wb hab
        refine Sim.bind_ok (callExecute_sim hab c sender funds msg) ?_
        rintro ⟨wa', ra⟩ ⟨wb', rb⟩ hea heb ⟨hw, hr⟩
        dsimp only at hw hr ⊢
        subst hr
        exact ihS _ _ _ _ hw (callExecute_good hea)
      | bankSend to coins => exact (execMsg_leaf h _ _ (m := Msg.bankSend to coins) trivial).sim
      | bankBurn coins => exact (execMsg_leaf h _ _ (m := Msg.bankBurn coins) trivial).sim
      | tfCreateDenom sd => exact (execMsg_leaf h _ _ (m := Msg.tfCreateDenom sd) trivial).sim
      | tfMint coin to => exact (execMsg_leaf h _ _ (m := Msg.tfMint coin to) trivial).sim
      | tfBurn coin => exact (execMsg_leaf h _ _ (m := Msg.tfBurn coin) trivial).sim
    · intro w1 w2 c subs h hg
      cases subs with
      | nil => rw [execSubs, execSubs]; exact Sim.ok h
      | cons sm rest =>
        have hsm : SubGood sm := hg sm List.mem_cons_self
        have hrest : ∀ sm' ∈ rest, SubGood sm' := fun sm' hm => hg sm' (List.mem_cons_of_mem _ hm)
        rw [execSubs_cons, execSubs_cons]
        -- the outcome of the sub-message itself
        have hcase : Strict WorldRel (execMsg n w1 c sm.msg) (execMsg n w2 c sm.msg) ∨
            (sm.replyOn.onError = false ∧ execMsg n w1 c sm.msg = .error .disabled) := by
          by_cases hoe : sm.replyOn.onError = true
          · exact Or.inl (execMsg_leaf h _ _ (hsm hoe))
          · rcases ihM w1 w2 c sm.msg h with hd | hs
            · exact Or.inr ⟨by simpa using hoe, hd⟩
            · exact Or.inl hs
        rcases hcase with (⟨wa, wb, h1, h2, hab⟩ | ⟨e, e', h1, h2⟩) | ⟨hoe, h1⟩
        · rw [h1, h2]
          dsimp only
          refine Sim.ite (fun _ => after _ _ _ _ _ hab hrest) fun _ => ihS _ _ _ _ hab hrest
        · rw [h1, h2]
          dsimp only
          refine Sim.ite (fun _ => ?_) fun _ => Sim.err
          obtain ⟨s2, rfl, hs⟩ := h.elim
          exact after _ _ _ _ _ (h.withBank _) hrest
        · rw [h1]
          dsimp only
          rw [hoe]
          exact Sim.disabled

/-- one transaction, with or without an injected bank fault -/
theorem runTx_sim {w1 w2 : World} (h : WorldRel w1 w2) (tx : Tx) (k : Option Nat) :
    Sim WorldRel (runTx w1 tx k) (runTx w2 tx k) := by
  have h0 : WorldRel { w1 with bank := { w1.bank with calls := 0, failAt := k } }
      { w2 with bank := { w2.bank with calls := 0, failAt := k } } := by
    obtain ⟨s2, rfl, hs⟩ := h.elim
    exact h.withBank _
  cases tx with
  | exec sender c msg funds => simp only [runTx]; exact (exec_sim FUEL).1 _ _ _ _ h0
  | send frm to coins => simp only [runTx]; exact (exec_sim FUEL).1 _ _ _ _ h0
  | advance ns =>
    obtain ⟨s2, rfl, hs⟩ := h.elim
    exact Sim.ok (h.withNow _)

end MantraDex.SwitchTx
