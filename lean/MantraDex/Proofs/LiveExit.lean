/-
  Liveness of the emergency exit (C02Live.emergency_withdraw_live_partial): the handler accepts the owner of a
  position in each of its three states (open, closed and still locked, expired), and the payouts — farm owners'
  shares, fee collector's share, owner's remainder — are covered by the farm manager's custody of the position.
-/
import MantraDex.Model.System
import MantraDex.Proofs.NumLemmas
import MantraDex.Proofs.BankLemmas
import MantraDex.Proofs.FarmTxWithdraw
import MantraDex.Proofs.LiveNum
import MantraDex.Properties.C05Sys

set_option linter.unusedSimpArgs false
set_option linter.unusedVariables false

namespace MantraDex.Live
open MantraDex
open MantraDex.C01 (coinsOf amt coinsOf_cons coinsOf_nil)

/-! ### epochs -/

theorem fmCurrentEpoch_congr {s s' : FmState} (h : s'.config = s.config) (env : FmEnv) :
    fmCurrentEpoch s' env = fmCurrentEpoch s env := by
  unfold fmCurrentEpoch
  rw [h]

/-- a defined current epoch is far below the u64 range (its start time in nanoseconds fits in a u64) -/
theorem epoch_succ_le {s : FmState} {env : FmEnv} {cur : Nat} (h : fmCurrentEpoch s env = .ok cur) :
    cur + 1 ≤ U64_MAX := by
  unfold fmCurrentEpoch at h
  split at h
  · cases h
  · rename_i cfg _
    obtain ⟨⟨id, ns⟩, hc, h⟩ := bind_ok.mp h
    simp only [pure_ok] at h
    subst h
    unfold currentEpoch at hc
    split at hc
    · obtain ⟨id', hid, hq⟩ := bind_ok.mp hc
      unfold queryEpoch at hq
      simp only [bind_ok, ckMul_ok, ckAdd_ok, fit_ok, pure_ok, Prod.mk.injEq, divFloorFrac_ok] at hq hid
      obtain ⟨m, ⟨_, rfl⟩, s', ⟨_, rfl⟩, ns', ⟨hns, rfl⟩, hidEq, _⟩ := hq
      obtain ⟨hd, _, _⟩ := hid
      have : id' ≤ id' * cfg.duration := Nat.le_mul_of_pos_right _ (Nat.pos_of_ne_zero hd)
      unfold NANOS U64_MAX at *
      omega
    · cases hc

/-! ### weights and reconciliation -/

theorem updateWeights_close_ex {s : FmState} {env : FmEnv} {recv : Addr} {lp : Denom} {amount unl cur w : Nat}
    (hcur : fmCurrentEpoch s env = .ok cur) (hw : calculateWeight amount unl = .ok w) :
    ∃ s', updateWeights s env recv lp amount unl false = .ok s' := by
  unfold updateWeights
  refine ex_bind hcur ?_
  refine ex_bind hw ?_
  refine ex_bind (fit_ok.2 ⟨epoch_succ_le hcur, rfl⟩) ?_
  simp only [Bool.false_eq_true, if_false]
  exact ⟨_, rfl⟩

theorem reconcile_ex {s : FmState} {env : FmEnv} {recv : Addr} {lp : Denom} {cur : Nat}
    (hcur : fmCurrentEpoch s env = .ok cur) : ∃ s', reconcileUserState s env recv lp = .ok s' := by
  unfold reconcileUserState
  dsimp only
  generalize hs1 : (if (s.positionsBy recv true).isEmpty = true then
      ({ s with lastClaimed := fun a => if a = recv then none else s.lastClaimed a } : FmState) else s) = s1
  have hcfg : s1.config = s.config := by
    rw [← hs1]; split <;> rfl
  split
  · rename_i hc
    simp only [Bool.and_eq_true, Bool.not_eq_true', List.isEmpty_eq_false_iff] at hc
    refine ex_bind ((fmCurrentEpoch_congr hcfg env).trans hcur) ?_
    unfold syncHistory
    dsimp only
    have hne : (s1.hist recv lp).isEmpty = false := by
      cases h : s1.hist recv lp with
      | nil => exact absurd h hc.2
      | cons _ _ => rfl
    rw [hne]
    simp only [Bool.false_eq_true, if_false, Bool.not_false, if_true]
    exact ⟨_, rfl⟩
  · exact ⟨_, rfl⟩

/-! ### the active farms -/

theorem isFarmExpiredOrFalse_ex {s : FmState} {env : FmEnv} {f : Farm}
    (h : isFarmExpired s env f ≠ .error .panic) : ∃ b, isFarmExpiredOrFalse s env f = .ok b := by
  unfold isFarmExpiredOrFalse
  cases hx : isFarmExpired s env f with
  | ok b => exact ⟨b, rfl⟩
  | error e =>
    rw [hx] at h
    cases e <;> first | exact absurd rfl h | exact ⟨false, rfl⟩

theorem filterAuxM_ex {α : Type} (g : α → R Bool) : ∀ (as acc : List α), (∀ x ∈ as, ∃ b, g x = .ok b) →
    ∃ r, List.filterAuxM g as acc = .ok r ∧ r.length ≤ as.length + acc.length := by
  intro as
  induction as with
  | nil => intro acc _; exact ⟨acc, rfl, by simp⟩
  | cons a as ih =>
    intro acc h
    obtain ⟨b, hb⟩ := h a (List.mem_cons_self ..)
    obtain ⟨r, hr, hl⟩ := ih (cond b (a :: acc) acc) (fun x hx => h x (List.mem_cons_of_mem _ hx))
    refine ⟨r, ?_, ?_⟩
    · simp only [List.filterAuxM, hb]
      exact hr
    · cases b <;> simp only [cond, List.length_cons] at hl ⊢ <;> omega

theorem filterM_ex {α : Type} (g : α → R Bool) (as : List α) (h : ∀ x ∈ as, ∃ b, g x = .ok b) :
    ∃ r, as.filterM g = .ok r ∧ r.length ≤ as.length := by
  obtain ⟨r, hr, hl⟩ := filterAuxM_ex g as [] h
  refine ⟨r.reverse, ?_, by simpa using hl⟩
  unfold List.filterM
  rw [hr]
  rfl

theorem filterAuxM_len {α : Type} (g : α → R Bool) : ∀ (as acc r : List α),
    List.filterAuxM g as acc = .ok r → r.length ≤ as.length + acc.length := by
  intro as
  induction as with
  | nil =>
    intro acc r h
    simp only [List.filterAuxM, pure_ok] at h
    subst h; simp
  | cons a as ih =>
    intro acc r h
    simp only [List.filterAuxM] at h
    obtain ⟨b, hb, h⟩ := bind_ok.mp h
    have := ih _ _ h
    cases b <;> simp only [cond, List.length_cons] at this ⊢ <;> omega

theorem filterM_len {α : Type} {g : α → R Bool} {as r : List α} (h : as.filterM g = .ok r) :
    r.length ≤ as.length := by
  unfold List.filterM at h
  obtain ⟨r', hr', h⟩ := bind_ok.mp h
  simp only [pure_ok] at h
  subst h
  simpa using filterAuxM_len g as [] r' hr'

theorem uniqueOwners_length (fs : List Farm) : (uniqueOwners fs).length ≤ fs.length := by
  unfold uniqueOwners
  rw [List.length_mergeSort]
  suffices ∀ (acc : List Addr),
      (fs.foldl (fun acc f => if acc.contains f.owner then acc else acc ++ [f.owner]) acc).length ≤
        acc.length + fs.length by
    simpa using this []
  induction fs with
  | nil => intro acc; simp
  | cons f fs ih =>
    intro acc
    rw [List.foldl_cons]
    refine Nat.le_trans (ih _) ?_
    split <;> simp only [List.length_append, List.length_cons, List.length_nil] <;> omega

theorem farmsByLp_length (s : FmState) (lp : Denom) (n : Nat) :
    (s.farmsByLp lp n).length ≤ (s.farms.filter (·.lpDenom == lp)).length := by
  unfold FmState.farmsByLp
  rw [List.length_take]; omega


/-! ### the handler -/

/-- emergency branch: a not yet expired position (open or closed) -/
theorem withdraw_emergency_ex {s : FmState} {env : FmEnv} {p : Position} {cur : Nat}
    (hp : s.getPosition p.id = some p)
    (hnot : (⟨p.amount, p.unlocking, p.expiringAt⟩ : PosView).isExpired env.nowS = false)
    (hday : C.SECONDS_IN_DAY ≤ p.unlocking) (hyear : p.unlocking ≤ C.SECONDS_IN_YEAR)
    (hamt : p.amount ≠ 0) (ha : p.amount * ONE18 ≤ U128_MAX)
    (hpen : s.config.emergencyUnlockPenalty ≤ ONE18)
    (hrem : remainingDuration ⟨p.amount, p.unlocking, p.expiringAt⟩ env.nowS ≤ U64_MAX)
    (hcur : fmCurrentEpoch s env = .ok cur)
    (hpanic : ∀ f ∈ s.farms, f.lpDenom = p.lpDenom → isFarmExpired s env f ≠ .error .panic) :
    ∃ x, withdrawPosition s env p.receiver [] p.id (some true) = .ok x := by
  obtain ⟨rate, hrate⟩ := penalty_ex (pv := ⟨p.amount, p.unlocking, p.expiringAt⟩)
    (base := s.config.emergencyUnlockPenalty) (now := env.nowS) hday hyear hamt ha hpen hrem
  have hcap := C09.penalty_le_cap hrate
  obtain ⟨w, hw, _, _⟩ := calculateWeight_ex hday hyear ha
  obtain ⟨active, hact, _⟩ := filterM_ex (fun f : Farm =>
      if f.startEpoch ≤ cur then do
        let ex ← isFarmExpiredOrFalse s env f
        pure (!ex)
      else pure false) (s.farmsByLp p.lpDenom C.MAX_FARMS_LIMIT) (by
    intro f hf
    have hf' : f ∈ s.farms ∧ f.lpDenom = p.lpDenom := by
      unfold FmState.farmsByLp at hf
      have := List.mem_filter.1 (List.mem_of_mem_take hf)
      exact ⟨this.1, by simpa using this.2⟩
    by_cases hst : f.startEpoch ≤ cur
    · obtain ⟨b, hb⟩ := isFarmExpiredOrFalse_ex (hpanic f hf'.1 hf'.2)
      refine ⟨!b, ?_⟩
      simp only [if_pos hst, hb]
      rfl
    · exact ⟨false, by simp only [if_neg hst]; rfl⟩)
  obtain ⟨sp, hsp⟩ := penaltySplit_ex (n := (uniqueOwners active).length) hamt ha hcap
  unfold withdrawPosition
  refine ex_bind (a := ()) rfl ?_
  rw [hp]
  refine ex_bind (a := p) rfl ?_
  simp only [bne_self_eq_false, Bool.false_eq_true, if_false]
  have hcond : (some true == some true &&
      !(⟨p.amount, p.unlocking, p.expiringAt⟩ : PosView).isExpired env.nowS) = true := by
    rw [hnot]; rfl
  rw [if_pos hcond]
  refine ex_bind hrate ?_
  refine ex_bind hcur ?_
  refine ex_bind hact ?_
  refine ex_bind hsp ?_
  cases hopen : p.open_ with
  | true =>
    simp only [if_true]
    obtain ⟨s1, hs1⟩ := updateWeights_close_ex (s := s) (env := env) (recv := p.receiver) (lp := p.lpDenom)
      hcur hw
    refine ex_bind hs1 ?_
    refine ex_bind rfl ?_
    have hcur1 : fmCurrentEpoch (s1.removePosition p.id) env = .ok cur := by
      rw [fmCurrentEpoch_congr (s := s) _ env]
      · exact hcur
      · show s1.config = s.config
        exact ((updateWeights_sameStore hs1).2.2.2).symm ▸ rfl
    obtain ⟨s3, hs3⟩ := reconcile_ex (s := s1.removePosition p.id) (env := env) (recv := p.receiver)
      (lp := p.lpDenom) hcur1
    refine ex_bind hs3 ?_
    exact ⟨_, rfl⟩
  | false =>
    simp only [Bool.false_eq_true, if_false]
    refine ex_bind rfl ?_
    refine ex_bind rfl ?_
    refine ex_bind rfl ?_
    exact ⟨_, rfl⟩


theorem ex_bind_p {α β : Type} {P : β → Prop} {x : R α} {f : α → R β} {a : α} (hx : x = .ok a)
    (hf : ∃ y, f a = .ok y ∧ P y) : ∃ y, (x >>= f) = .ok y ∧ P y := by
  obtain ⟨y, hy, hP⟩ := hf
  exact ⟨y, by rw [hx]; exact hy, hP⟩

/-- an expired position: the emergency flag is ignored, this is the plain withdrawal -/
theorem withdraw_expired_ok {s : FmState} {env : FmEnv} {p : Position} {cur : Nat}
    (hp : s.getPosition p.id = some p)
    (hexp : (⟨p.amount, p.unlocking, p.expiringAt⟩ : PosView).isExpired env.nowS = true)
    (hcur : fmCurrentEpoch s env = .ok cur) :
    ∃ x, withdrawPosition s env p.receiver [] p.id (some true) = .ok x ∧
      (x.1.getPosition p.id = none ∧ x.2.msgs = (withdrawMsgs p).map mkSub) := by
  have hsome : p.expiringAt.isNone = false := by
    unfold PosView.isExpired at hexp
    cases he : p.expiringAt with
    | none => simp [he] at hexp
    | some t => rfl
  unfold withdrawPosition
  refine ex_bind_p (a := ()) rfl ?_
  rw [hp]
  refine ex_bind_p (a := p) rfl ?_
  simp only [bne_self_eq_false, Bool.false_eq_true, if_false]
  have hcond : ¬ (some true == some true &&
      !(⟨p.amount, p.unlocking, p.expiringAt⟩ : PosView).isExpired env.nowS) = true := by
    rw [hexp]; decide
  rw [if_neg hcond, hsome, hexp]
  simp only [Bool.false_eq_true, if_false, Bool.not_true]
  refine ex_bind_p rfl ?_
  cases hopen : p.open_ with
  | true =>
    simp only [if_true]
    obtain ⟨s3, hs3⟩ := reconcile_ex (s := s.removePosition p.id) (env := env) (recv := p.receiver)
      (lp := p.lpDenom) (cur := cur) ((fmCurrentEpoch_congr (s := s) (s' := s.removePosition p.id) rfl env).trans hcur)
    refine ex_bind_p hs3 ?_
    refine ⟨_, rfl, ?_, rfl⟩
    rw [(reconcileUserState_sameStore hs3).getPosition]
    exact getPosition_remove_same _ _
  | false =>
    simp only [Bool.false_eq_true, if_false]
    refine ex_bind_p rfl ?_
    exact ⟨_, rfl, getPosition_remove_same _ _, rfl⟩


/-! ### the payouts -/

/-- a transfer of a non-zero amount of `lp` -/
def IsPay (lp : Denom) (m : Msg) : Prop := ∃ to a, a ≠ 0 ∧ m = Msg.bankSend to [⟨lp, a⟩]

/-- what a message sends out in `lp` -/
def payOut (lp : Denom) : Msg → Nat
  | .bankSend _ cs => coinsOf cs lp
  | _ => 0

/-- a list of single-coin transfers out of the farm manager runs when its balance covers their total -/
theorem pays_run_ex {tf : List Coin} {lp : Denom} : ∀ (ms : List Msg) (b : Bank), b.failAt = none →
    (∀ m ∈ ms, IsPay lp m) → (ms.map (payOut lp)).sum ≤ b.bal FM lp →
    ∃ b', bankRun tf b FM ms = .ok b' := by
  intro ms
  induction ms with
  | nil => intro b _ _ _; exact ⟨b, rfl⟩
  | cons m ms ih =>
    intro b hf hpay hsum
    obtain ⟨to, a, ha, rfl⟩ := hpay m (List.mem_cons_self ..)
    simp only [List.map_cons, List.sum_cons, payOut, coinsOf_single, if_true] at hsum
    obtain ⟨b1, hb1⟩ := send_ex (b := b) (frm := FM) (to := to) (cs := [⟨lp, a⟩]) (r := [⟨lp, a⟩]) hf
      (by simp [normalizeCoins, ha]) (by
        intro d
        rw [coinsOf_single]
        simp only
        split
        · rename_i hd; subst hd; omega
        · exact Nat.zero_le _)
    obtain ⟨_, mv⟩ := send_spec hb1
    have hbal := mv.bal FM lp
    rw [coinsOf_single] at hbal
    simp only [if_true] at hbal
    obtain ⟨b', hb'⟩ := ih b1 (by rw [mv.fa]; exact hf) (fun x hx => hpay x (List.mem_cons_of_mem _ hx)) (by
      split at hbal <;> omega)
    refine ⟨b', ?_⟩
    simp only [bankRun, bankStep, hb1]
    exact hb'

theorem owners_payOut (lp : Denom) (per : Nat) (owners : List Addr) :
    ((owners.map fun o => Msg.bankSend o [⟨lp, per⟩]).map (payOut lp)).sum = owners.length * per := by
  induction owners with
  | nil => simp
  | cons o os ih =>
    simp only [List.map_cons, List.sum_cons, List.length_cons, ih, payOut, coinsOf_single, if_true]
    rw [Nat.succ_mul]; omega

theorem emMsgs_length (fc : Addr) (p : Position) (owners : List Addr) (sp : PenaltySplit) :
    (FarmTx.emMsgs fc p owners sp).length ≤ owners.length + 2 := by
  unfold FarmTx.emMsgs
  simp only [List.length_append]
  split <;> split <;> split <;> simp

theorem emMsgs_pay {fc : Addr} {p : Position} {owners : List Addr} {sp : PenaltySplit} {rate : Nat}
    (hsp : penaltySplit p.amount rate owners.length = .ok sp) :
    (∀ m ∈ FarmTx.emMsgs fc p owners sp, IsPay p.lpDenom m) ∧
    ((FarmTx.emMsgs fc p owners sp).map (payOut p.lpDenom)).sum ≤ p.amount := by
  obtain ⟨hacc, _, _⟩ := C09.split_accounted hsp
  obtain ⟨_, hlt, hop, hcases⟩ := C09.penaltySplit_ok hsp
  constructor
  · intro m hm
    unfold FarmTx.emMsgs at hm
    simp only [List.mem_append] at hm
    rcases hm with (hm | hm) | hm
    · split at hm
      · cases hm
      · rename_i hn
        obtain ⟨o, _, rfl⟩ := List.mem_map.1 hm
        refine ⟨o, sp.perFarmOwner, ?_, rfl⟩
        rcases hcases with ⟨_, _, h0, _⟩ | ⟨_, hne, _, hper, _⟩ | ⟨_, _, _, h0, _⟩
        · exact absurd h0 hn
        · rw [hper]; exact hne
        · exact absurd h0 hn
    · split at hm
      · rename_i hpos
        simp only [List.mem_singleton] at hm; subst hm
        exact ⟨fc, sp.feeCollector, by omega, rfl⟩
      · cases hm
    · split at hm
      · rename_i hne
        simp only [List.mem_singleton] at hm; subst hm
        exact ⟨p.receiver, p.amount - sp.total, hne, rfl⟩
      · cases hm
  · unfold FarmTx.emMsgs
    simp only [List.map_append, List.sum_append]
    have hA : ((if sp.nFarmOwners = 0 then [] else
        owners.map fun o => Msg.bankSend o [⟨p.lpDenom, sp.perFarmOwner⟩]).map (payOut p.lpDenom)).sum =
        sp.nFarmOwners * sp.perFarmOwner := by
      split
      · rename_i h0; simp [h0]
      · rename_i hn
        rw [owners_payOut, FarmTx.nFarmOwners_eq hsp hn]
    have hB : ((if sp.feeCollector > 0 then [Msg.bankSend fc [⟨p.lpDenom, sp.feeCollector⟩]] else []).map
        (payOut p.lpDenom)).sum = sp.feeCollector := by
      split
      · simp [payOut, coinsOf_single]
      · simp; omega
    have hC : ((if p.amount - sp.total ≠ 0 then
        [Msg.bankSend p.receiver [⟨p.lpDenom, p.amount - sp.total⟩]] else []).map (payOut p.lpDenom)).sum =
        p.amount - sp.total := by
      split
      · simp [payOut, coinsOf_single]
      · simp; omega
    rw [hA, hB, hC]
    omega


/-! ### the run -/

theorem getPosition_of_mem {s : FmState} {p : Position} (hn : (s.positions.map (·.id)).Nodup)
    (hp : p ∈ s.positions) : s.getPosition p.id = some p := by
  unfold FmState.getPosition
  cases hfind : s.positions.find? (·.id == p.id) with
  | none =>
    rw [List.find?_eq_none] at hfind
    have := hfind p hp
    simp at this
  | some g =>
    have hg := List.mem_of_find?_eq_some hfind
    have hid : g.id = p.id := by simpa using List.find?_some hfind
    rw [FH.nodup_key_inj (·.id) _ hn g hg p hp hid]

/-- the emergency exit of a position's owner is accepted -/
theorem emergency_withdraw_live_run {w : World} {p : Position} (hinv : C05Sys.FmInv w)
    (hp : p ∈ w.fm.positions)
    (hsmall : p.amount * ONE18 ≤ U128_MAX) (hamt : p.amount ≠ 0)
    (hdur : C.SECONDS_IN_DAY ≤ p.unlocking ∧ p.unlocking ≤ C.SECONDS_IN_YEAR)
    (hpen : w.fm.config.emergencyUnlockPenalty ≤ ONE18)
    (hepoch : ∃ cur, fmCurrentEpoch w.fm w.fmEnv = .ok cur)
    (hexp64 : ∀ e, p.expiringAt = some e → e ≤ U64_MAX)
    (hpanic : ∀ f ∈ w.fm.farms, f.lpDenom = p.lpDenom → isFarmExpired w.fm w.fmEnv f ≠ .error .panic)
    (hfan : (w.fm.farms.filter (·.lpDenom == p.lpDenom)).length ≤ 60) :
    ∃ w', runTx w (.exec p.receiver FM (.fm (.withdrawPosition p.id (some true))) []) = .ok w' ∧
      w'.fm.getPosition p.id = none := by
  obtain ⟨cur, hcur⟩ := hepoch
  have hget := getPosition_of_mem hinv.posNodup hp
  have hbal : p.amount ≤ w.bank.bal FM p.lpDenom := by
    have h1 := hinv.custody p.lpDenom
    rw [C05.liability_eq, C05.posSum_pull hinv.posNodup hp p.lpDenom] at h1
    simp only [beq_self_eq_true, if_true] at h1
    omega
  have h64 : FUEL = 63 + 1 := rfl
  cases hexp : (⟨p.amount, p.unlocking, p.expiringAt⟩ : PosView).isExpired w.fmEnv.nowS with
  | false =>
    have hrem : remainingDuration ⟨p.amount, p.unlocking, p.expiringAt⟩ w.fmEnv.nowS ≤ U64_MAX := by
      unfold remainingDuration
      cases he : p.expiringAt with
      | none =>
        simp only
        exact Nat.le_trans hdur.2 (by decide)
      | some e =>
        simp only
        exact Nat.le_trans (Nat.sub_le _ _) (hexp64 e he)
    obtain ⟨⟨s', r⟩, hx⟩ := withdraw_emergency_ex (s := w.fm) (env := w.fmEnv) hget hexp hdur.1 hdur.2 hamt hsmall
      hpen hrem hcur hpanic
    obtain ⟨_, rate, active, sp, _, hact, hsp, hgone, _, hr⟩ := FarmTx.withdraw_emergency_inv hget hexp hx
    obtain ⟨hpay, hsum⟩ := emMsgs_pay (fc := w.fm.config.feeCollector) hsp
    have hlen : (uniqueOwners active).length ≤ 60 := by
      refine Nat.le_trans (uniqueOwners_length active) ?_
      unfold FarmTx.activeFarms at hact
      rw [hcur] at hact
      exact Nat.le_trans (filterM_len hact) (Nat.le_trans (farmsByLp_length _ _ _) hfan)
    have hfuel : (FarmTx.emMsgs w.fm.config.feeCollector p (uniqueOwners active) sp).length + 1 ≤ 63 := by
      have := emMsgs_length w.fm.config.feeCollector p (uniqueOwners active) sp
      omega
    obtain ⟨b', hb'⟩ := pays_run_ex (tf := w.tfFees) (lp := p.lpDenom)
      (FarmTx.emMsgs w.fm.config.feeCollector p (uniqueOwners active) sp)
      ({ w.bank with calls := 0, failAt := none } : Bank) rfl hpay (Nat.le_trans hsum hbal)
    refine ⟨{ w with bank := b', fm := s' }, ?_, hgone⟩
    unfold runTx
    simp only
    rw [h64, execMsg_fm_eq]
    simp only [fmExecute]
    have hx' : withdrawPosition w.fm
        ({ w with bank := { w.bank with calls := 0, failAt := none } } : World).fmEnv p.receiver [] p.id
        (some true) = _ := hx
    rw [hx']
    simp only [ok_bind]
    rw [hr, execSubs_leaf _ 63 _ FM (FarmTx.emMsgs_leaf _ _ _ _) hfuel]
    have hb2 : bankRun w.tfFees { w.bank with calls := 0, failAt := none } FM
        (FarmTx.emMsgs w.fm.config.feeCollector p (uniqueOwners active) sp) = .ok b' := hb'
    simp only [hb2, ok_bind]
    rfl
  | true =>
    obtain ⟨⟨s', r⟩, hx, hgone, hr⟩ := withdraw_expired_ok (s := w.fm) (env := w.fmEnv) hget hexp hcur
    obtain ⟨b', hb'⟩ := optSend_ex (tf := w.tfFees) (b := { w.bank with calls := 0, failAt := none }) (c := FM)
      (to := p.receiver) (coin := ⟨p.lpDenom, p.amount⟩) rfl (by
        intro d
        rw [coinsOf_single]
        simp only
        split
        · rename_i hd; subst hd; exact hbal
        · exact Nat.zero_le _)
    refine ⟨{ w with bank := b', fm := s' }, ?_, hgone⟩
    unfold runTx
    simp only
    rw [h64, execMsg_fm_eq]
    simp only [fmExecute]
    have hx' : withdrawPosition w.fm
        ({ w with bank := { w.bank with calls := 0, failAt := none } } : World).fmEnv p.receiver [] p.id
        (some true) = _ := hx
    rw [hx']
    simp only [ok_bind]
    rw [hr, execSubs_leaf _ 63 _ FM (withdrawMsgs_leaf p)
      (Nat.le_trans (Nat.succ_le_succ (withdrawMsgs_length p)) (by decide))]
    have hb2 : bankRun w.tfFees { w.bank with calls := 0, failAt := none } FM (withdrawMsgs p) = .ok b' := hb'
    simp only [hb2, ok_bind]
    rfl


/-- a sufficient numeric condition for `hpanic` of `emergency_withdraw_live_run`: the farm's expiry instant
    (start of the epoch after its last one, plus the expiration time) fits a u64 nanosecond timestamp -/
theorem isFarmExpired_no_panic {s : FmState} {env : FmEnv} {f : Farm} {cfg : EpochConfig}
    (hcfg : env.emConfig s.config.epochManager = some cfg) (hd : cfg.duration ≠ 0)
    (hfit : (cfg.genesis + (f.endEpoch + 1) * cfg.duration) * NANOS + s.config.farmExpirationTime * NANOS ≤
      U64_MAX) : isFarmExpired s env f ≠ .error .panic := by
  have h0 : f.endEpoch + 1 ≤ (f.endEpoch + 1) * cfg.duration :=
    Nat.le_mul_of_pos_right _ (Nat.pos_of_ne_zero hd)
  have key : ∀ m fet g e1 : Nat, e1 ≤ m → (g + m) * NANOS + fet * NANOS ≤ U64_MAX →
      e1 ≤ U64_MAX ∧ m ≤ U64_MAX ∧ g + m ≤ U64_MAX ∧ (g + m) * NANOS ≤ U64_MAX ∧ fet * NANOS ≤ U64_MAX := by
    intro m fet g e1 h1 h2
    unfold NANOS U64_MAX at *
    omega
  obtain ⟨a1, a2, a3, a4, a5⟩ := key _ _ _ _ h0 hfit
  suffices h : ∃ b, isFarmExpired s env f = .ok b by
    obtain ⟨b, hb⟩ := h
    rw [hb]
    exact fun e => by cases e
  have q : queryEpoch cfg (f.endEpoch + 1) =
      .ok (f.endEpoch + 1, (cfg.genesis + (f.endEpoch + 1) * cfg.duration) * NANOS) := by
    unfold queryEpoch
    simp only [bind_ok, ckMul_ok, ckAdd_ok, fit_ok, pure_ok]
    exact ⟨_, ⟨a2, rfl⟩, _, ⟨a3, rfl⟩, _, ⟨a4, rfl⟩, rfl⟩
  unfold isFarmExpired
  refine ex_bind (fit_ok.2 ⟨a1, rfl⟩) ?_
  rw [hcfg]
  refine ex_bind (a := cfg) rfl ?_
  refine ex_bind q ?_
  refine ex_bind (fit_ok.2 ⟨a5, rfl⟩) ?_
  refine ex_bind (fit_ok.2 ⟨hfit, rfl⟩) ?_
  exact ⟨_, rfl⟩

end MantraDex.Live
