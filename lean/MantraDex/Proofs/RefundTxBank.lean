/-
  C20Tx helpers, part 1: bank sends with the fault counter made explicit (when a send succeeds under an injected
  fault, what it does to the counter, transport of a successful send to a bank with the same balances), and the
  loop of reply-on-error refunds that `close_farms` emits, as a fold over the bank.
-/
import MantraDex.Model.System
import MantraDex.Proofs.NumLemmas
import MantraDex.Proofs.BankLemmas
import MantraDex.Proofs.TwoStepLemmas
import MantraDex.Proofs.SwapTxLemmas
import MantraDex.Proofs.FarmHandlerLemmas
import MantraDex.Properties.C05
import MantraDex.Properties.C20

set_option linter.unusedSimpArgs false
set_option linter.unusedVariables false

namespace MantraDex.RefundTx
open MantraDex
open MantraDex.C01 (coinsOf amt coinsOf_cons coinsOf_nil normalizeCoins_ok)

/-! ### the fault counter -/

theorem tick_calls {b b' : Bank} (h : b.tick = .ok b') : b'.calls = b.calls + 1 := by
  unfold Bank.tick at h
  simp only at h
  split at h
  · cases h
  · cases h; rfl

theorem tick_ex' {b : Bank} (h : b.failAt ≠ some (b.calls + 1)) : ∃ b', b.tick = .ok b' := by
  unfold Bank.tick
  simp only [if_neg h]
  exact ⟨_, rfl⟩

theorem tick_armed {b : Bank} (h : b.failAt = some (b.calls + 1)) : b.tick = .error .bank := by
  unfold Bank.tick
  simp only [if_pos h]

theorem burnRaw_calls {b b' : Bank} {a : Addr} {cs : List Coin} (h : b.burnRaw a cs = .ok b') :
    b'.calls = b.calls := by
  unfold Bank.burnRaw at h
  obtain ⟨cs1, hn, h⟩ := bind_ok.mp h
  exact (subFold_full _ h).2.2.2.1

theorem mintRaw_calls {b b' : Bank} {a : Addr} {cs : List Coin} (h : b.mintRaw a cs = .ok b') :
    b'.calls = b.calls := by
  unfold Bank.mintRaw at h
  obtain ⟨cs1, hn, h⟩ := bind_ok.mp h
  simp only [pure_ok] at h
  subst h
  exact (addFold_full (a := a) cs1 b).2.2.1

theorem send_calls {b b' : Bank} {frm to : Addr} {cs : List Coin} (h : b.send frm to cs = .ok b') :
    b'.calls = b.calls + 1 := by
  unfold Bank.send at h
  obtain ⟨b1, h1, h⟩ := bind_ok.mp h
  obtain ⟨b2, h2, h⟩ := bind_ok.mp h
  rw [mintRaw_calls h, burnRaw_calls h2, tick_calls h1]

theorem send_ex' {b : Bank} {frm to : Addr} {cs r : List Coin} (hf : b.failAt ≠ some (b.calls + 1))
    (hn : normalizeCoins cs = .ok r) (hle : ∀ d, coinsOf cs d ≤ b.bal frm d) :
    ∃ b', b.send frm to cs = .ok b' := by
  obtain ⟨b1, h1⟩ := tick_ex' hf
  obtain ⟨t1, _, _⟩ := tick_ok h1
  obtain ⟨b2, h2⟩ := burnRaw_ex (b := b1) (a := frm) hn (by rw [t1]; exact hle)
  obtain ⟨b3, h3⟩ := mintRaw_ex (b := b2) (a := to) hn
  refine ⟨b3, ?_⟩
  unfold Bank.send
  rw [h1]
  show (b1.burnRaw frm cs >>= fun b => b.mintRaw to cs) = _
  rw [h2]
  exact h3

theorem send_armed {b : Bank} {frm to : Addr} {cs : List Coin} (h : b.failAt = some (b.calls + 1)) :
    b.send frm to cs = .error .bank := by
  unfold Bank.send
  rw [tick_armed h]
  rfl

theorem send_not_armed {b b' : Bank} {frm to : Addr} {cs : List Coin} (h : b.send frm to cs = .ok b') :
    b.failAt ≠ some (b.calls + 1) := by
  intro ha
  rw [send_armed ha] at h
  cases h

/-- same balances -/
def BalEq (b B : Bank) : Prop := ∀ a d, B.bal a d = b.bal a d

theorem BalEq.refl (b : Bank) : BalEq b b := fun _ _ => rfl

theorem send_balEq {b b' B B' : Bank} {frm to : Addr} {cs : List Coin} (h : b.send frm to cs = .ok b')
    (H : B.send frm to cs = .ok B') (he : BalEq b B) : BalEq b' B' := by
  intro a d
  have e1 := (send_spec h).2.bal a d
  have e2 := (send_spec H).2.bal a d
  rw [he a d] at e2
  omega

/-- a successful send, replayed on a bank with the same balances whose fault is not armed -/
theorem send_transport {b b' B : Bank} {frm to : Addr} {cs : List Coin} (h : b.send frm to cs = .ok b')
    (he : BalEq b B) (hf : B.failAt ≠ some (B.calls + 1)) :
    ∃ B', B.send frm to cs = .ok B' ∧ BalEq b' B' := by
  obtain ⟨⟨r, hn⟩, mv⟩ := send_spec h
  obtain ⟨B', hB⟩ := send_ex' (frm := frm) (to := to) hf hn (by intro d; rw [he]; exact mv.le d)
  exact ⟨B', hB, send_balEq h hB he⟩

/-! ### runs of plain sends -/

def IsSend : Msg → Prop
  | .bankSend .. => True
  | _ => False

theorem IsSend.leaf {m : Msg} (h : IsSend m) : IsLeaf m := by
  cases m <;> first | trivial | exact absurd h id

theorem bankRun_sends_calls {tf : List Coin} {c : Addr} : ∀ (ms : List Msg) (b b' : Bank),
    (∀ m ∈ ms, IsSend m) → bankRun tf b c ms = .ok b' →
    b'.calls = b.calls + ms.length ∧ b'.failAt = b.failAt := by
  intro ms
  induction ms with
  | nil =>
    intro b b' _ h
    simp only [bankRun, Except.ok.injEq] at h
    subst h
    exact ⟨rfl, rfl⟩
  | cons m ms ih =>
    intro b b' hs h
    simp only [bankRun] at h
    obtain ⟨b1, h1, h2⟩ := bind_ok.mp h
    obtain ⟨i1, i2⟩ := ih b1 b' (fun x hx => hs x (List.mem_cons_of_mem _ hx)) h2
    have hm := hs m List.mem_cons_self
    cases m with
    | bankSend to cs =>
      simp only [bankStep] at h1
      refine ⟨?_, ?_⟩
      · rw [i1, send_calls h1]
        simp only [List.length_cons]
        omega
      · rw [i2, (send_spec h1).2.fa]
    | _ => exact absurd hm id

theorem bankRun_sends_balEq {tf : List Coin} {c : Addr} : ∀ (ms : List Msg) (b b' B B' : Bank),
    (∀ m ∈ ms, IsSend m) → bankRun tf b c ms = .ok b' → bankRun tf B c ms = .ok B' → BalEq b B →
    BalEq b' B' := by
  intro ms
  induction ms with
  | nil =>
    intro b b' B B' _ h H he
    simp only [bankRun, Except.ok.injEq] at h H
    subst h; subst H
    exact he
  | cons m ms ih =>
    intro b b' B B' hs h H he
    simp only [bankRun] at h H
    obtain ⟨b1, h1, h2⟩ := bind_ok.mp h
    obtain ⟨B1, H1, H2⟩ := bind_ok.mp H
    have hm := hs m List.mem_cons_self
    cases m with
    | bankSend to cs =>
      simp only [bankStep] at h1 H1
      exact ih b1 b' B1 B' (fun x hx => hs x (List.mem_cons_of_mem _ hx)) h2 H2 (send_balEq h1 H1 he)
    | _ => exact absurd hm id

/-- a successful run of plain sends, replayed on a bank with the same balances in which the armed call (if any)
    lies beyond the run -/
theorem bankRun_sends_transport {tf : List Coin} {c : Addr} : ∀ (ms : List Msg) (b b' B : Bank),
    (∀ m ∈ ms, IsSend m) → bankRun tf b c ms = .ok b' → BalEq b B →
    (∀ k, B.failAt = some k → B.calls + ms.length < k) →
    ∃ B', bankRun tf B c ms = .ok B' ∧ BalEq b' B' := by
  intro ms
  induction ms with
  | nil =>
    intro b b' B _ h he _
    simp only [bankRun, Except.ok.injEq] at h
    subst h
    exact ⟨B, rfl, he⟩
  | cons m ms ih =>
    intro b b' B hs h he hk
    simp only [bankRun] at h
    obtain ⟨b1, h1, h2⟩ := bind_ok.mp h
    have hm := hs m List.mem_cons_self
    cases m with
    | bankSend to cs =>
      simp only [bankStep] at h1
      have hf : B.failAt ≠ some (B.calls + 1) := by
        intro hfa
        have := hk _ hfa
        simp only [List.length_cons] at this
        omega
      obtain ⟨B1, H1, he1⟩ := send_transport h1 he hf
      obtain ⟨B', H', he'⟩ := ih b1 b' B1 (fun x hx => hs x (List.mem_cons_of_mem _ hx)) h2 he1 (by
        intro k hfa
        rw [(send_spec H1).2.fa] at hfa
        have := hk k hfa
        rw [send_calls H1]
        simp only [List.length_cons] at this
        omega)
      refine ⟨B', ?_, he'⟩
      simp only [bankRun, bankStep, H1]
      exact H'
    | _ => exact absurd hm id

/-! ### the refunds of `close_farms` -/

/-- the refund sub-message of a closed farm -/
def refundSub (f : Farm) : SubMsg :=
  { msg := .bankSend f.owner [⟨f.assetDenom, f.assetAmount - f.claimed⟩], replyOn := .error,
    id := C.CLOSE_FARMS_ERR_REPLY_CODE }

/-- the farms whose closure emits a refund -/
def posRem (fs : List Farm) : List Farm := fs.filter (fun f => f.assetAmount - f.claimed > 0)

theorem closeStep_subs (fs : List Farm) : ∀ (st : FmState × List SubMsg),
    (fs.foldl FH.closeStep st).2 = st.2 ++ (posRem fs).map refundSub := by
  induction fs with
  | nil => intro st; simp [posRem]
  | cons f fs ih =>
    intro st
    rw [List.foldl_cons, ih]
    unfold FH.closeStep posRem
    by_cases hr : f.assetAmount - f.claimed > 0
    · simp [hr, List.filter_cons, refundSub]
    · simp [hr, List.filter_cons]

theorem closeFarms_subs (s : FmState) (fs : List Farm) : (closeFarms s fs).2 = (posRem fs).map refundSub := by
  rw [FH.closeFarms_eq, closeStep_subs]
  rfl

/-- one refund on the bank: executed, or (failed and tolerated) only the fault counter moves -/
def refundStep (b : Bank) (f : Farm) : Bank :=
  match b.send FM f.owner [⟨f.assetDenom, f.assetAmount - f.claimed⟩] with
  | .ok b' => b'
  | .error _ => { b with calls := b.calls + 1 }

def refundRun (b : Bank) (fs : List Farm) : Bank := fs.foldl refundStep b

theorem refundRun_nil (b : Bank) : refundRun b [] = b := rfl
theorem refundRun_cons (b : Bank) (f : Farm) (fs : List Farm) :
    refundRun b (f :: fs) = refundRun (refundStep b f) fs := rfl
theorem refundRun_append (b : Bank) (xs ys : List Farm) :
    refundRun b (xs ++ ys) = refundRun (refundRun b xs) ys := by
  unfold refundRun; rw [List.foldl_append]

/-- one refund sub-message followed by others -/
theorem execSubs_refund_cons (n : Nat) (w : World) (f : Farm) (rest : List SubMsg) :
    execSubs (n + 2) w FM (refundSub f :: rest) =
      execSubs (n + 1) { w with bank := refundStep w.bank f } FM rest := by
  unfold refundStep
  cases hs : w.bank.send FM f.owner [⟨f.assetDenom, f.assetAmount - f.claimed⟩] with
  | error e =>
    have he : execMsg (n + 1) w FM (.bankSend f.owner [⟨f.assetDenom, f.assetAmount - f.claimed⟩]) = .error e := by
      simp only [execMsg, hs]; rfl
    exact C20.failed_refund_tolerated n w _ _ rest e he
  | ok b =>
    have he : execMsg (n + 1) w FM (.bankSend f.owner [⟨f.assetDenom, f.assetAmount - f.claimed⟩]) =
        .ok { w with bank := b } := by
      simp only [execMsg, hs]; rfl
    rw [execSubs]
    simp only [refundSub, he, ReplyOn.onSuccess, Bool.false_eq_true, if_false]

/-- the whole refund loop: every refund is executed or tolerated, the loop always completes -/
theorem refunds_exec : ∀ (fs : List Farm) (n : Nat) (W : World), fs.length + 1 ≤ n →
    execSubs n W FM (fs.map refundSub) = .ok { W with bank := refundRun W.bank fs } := by
  intro fs
  induction fs with
  | nil =>
    intro n W hn
    obtain ⟨n', rfl⟩ : ∃ n', n = n' + 1 := ⟨n - 1, by omega⟩
    rfl
  | cons f fs ih =>
    intro n W hn
    simp only [List.length_cons] at hn
    obtain ⟨n', rfl⟩ : ∃ n', n = n' + 2 := ⟨n - 2, by omega⟩
    rw [List.map_cons, execSubs_refund_cons, ih (n' + 1) _ (by omega), refundRun_cons]

theorem execSubs_one_cons {w w' : World} {c : Addr} {sm : SubMsg} {rest : List SubMsg}
    (h : execSubs 1 w c (sm :: rest) = .ok w') : False := by
  have h' : execSubs (0 + 1) w c (sm :: rest) = .ok w' := h
  rw [execSubs] at h'
  simp only [execMsg] at h'
  split at h'
  · obtain ⟨⟨w'', resp⟩, _, h2⟩ := bind_ok.mp h'
    obtain ⟨w3, h3, _⟩ := bind_ok.mp h2
    simp [execSubs] at h3
  · cases h'

theorem refunds_fuel : ∀ (fs : List Farm) (n : Nat) (W W' : World),
    execSubs n W FM (fs.map refundSub) = .ok W' → fs.length + 1 ≤ n := by
  intro fs
  induction fs with
  | nil =>
    intro n W W' h
    cases n with
    | zero => simp [execSubs] at h
    | succ n => simp
  | cons f fs ih =>
    intro n W W' h
    match n, h with
    | 0, h => simp [execSubs] at h
    | 1, h => exact (execSubs_one_cons h).elim
    | n' + 2, h =>
      rw [List.map_cons, execSubs_refund_cons] at h
      have := ih (n' + 1) _ _ h
      simp only [List.length_cons]
      omega

end MantraDex.RefundTx
