/-
  C20Tx helpers, part 2: the exact balance effect of the refund loop when the farm manager's balance jointly
  covers the remainders of the closed farms (every refund whose bank call is not the armed one succeeds), and the
  same loop with the armed call at one of the refunds (that refund alone is skipped).
-/
import MantraDex.Proofs.RefundTxBank
import MantraDex.Proofs.QSysTx

set_option linter.unusedSimpArgs false
set_option linter.unusedVariables false

namespace MantraDex.RefundTx
open MantraDex
open MantraDex.C01 (coinsOf amt coinsOf_cons coinsOf_nil normalizeCoins_ok)
open MantraDex.QSys (sumInt sumInt_cons)

/-- the refund of a closed farm, as a balance change of account `a` in denom `d` -/
def refundEff (a : Addr) (d : Denom) (f : Farm) : Int :=
  (if d = f.assetDenom ∧ a = f.owner then ((f.assetAmount - f.claimed : Nat) : Int) else 0)
  - (if d = f.assetDenom ∧ a = FM then ((f.assetAmount - f.claimed : Nat) : Int) else 0)

theorem sumInt_nil : sumInt [] = 0 := rfl

theorem sumInt_append (xs ys : List Int) : sumInt (xs ++ ys) = sumInt xs + sumInt ys := by
  induction xs with
  | nil => simp [sumInt_nil]
  | cons x xs ih => rw [List.cons_append, sumInt_cons, sumInt_cons, ih]; omega

theorem refundEff_zero {a : Addr} {d : Denom} {f : Farm} (h : f.assetAmount - f.claimed = 0) :
    refundEff a d f = 0 := by
  unfold refundEff
  rw [h]
  simp

theorem sumInt_posRem (a : Addr) (d : Denom) (fs : List Farm) :
    sumInt ((posRem fs).map (refundEff a d)) = sumInt (fs.map (refundEff a d)) := by
  induction fs with
  | nil => rfl
  | cons f fs ih =>
    unfold posRem at ih ⊢
    rw [List.filter_cons]
    by_cases hr : f.assetAmount - f.claimed > 0
    · simp only [hr, decide_true, if_true, List.map_cons, sumInt_cons, ih]
    · have h0 : f.assetAmount - f.claimed = 0 := by omega
      have hd : decide (f.assetAmount - f.claimed > 0) = false := by simp [hr]
      rw [if_neg (by rw [hd]; simp), ih, List.map_cons, sumInt_cons, refundEff_zero h0]
      omega

theorem mem_posRem {fs : List Farm} {f : Farm} (h : f ∈ posRem fs) : f ∈ fs ∧ 0 < f.assetAmount - f.claimed := by
  unfold posRem at h
  obtain ⟨h1, h2⟩ := List.mem_filter.1 h
  exact ⟨h1, by simpa using h2⟩

theorem refund_send_eff {b b' : Bank} {f : Farm}
    (h : b.send FM f.owner [⟨f.assetDenom, f.assetAmount - f.claimed⟩] = .ok b') (a : Addr) (d : Denom) :
    (b'.bal a d : Int) = (b.bal a d : Int) + refundEff a d f := by
  have mv := (send_spec h).2
  have e := mv.bal a d
  have l := mv.le d
  simp only [coinsOf_single] at e l
  unfold refundEff
  generalize f.assetAmount - f.claimed = rem at *
  by_cases hd : f.assetDenom = d
  · subst hd
    simp only [if_true, true_and] at e l ⊢
    by_cases c1 : a = FM <;> by_cases c2 : a = f.owner <;>
      (try simp only [if_pos c1] at e ⊢) <;> (try simp only [if_neg c1] at e ⊢) <;>
      (try simp only [if_pos c2] at e ⊢) <;> (try simp only [if_neg c2] at e ⊢) <;> omega
  · have hd' : ¬ d = f.assetDenom := fun e => hd e.symm
    simp only [hd, hd', if_false, false_and] at e l ⊢
    split at e <;> split at e <;> omega

/-- the farm manager's balance jointly covers the remainders of the farms `fs` -/
def Cover (b : Bank) (fs : List Farm) : Prop := ∀ d, C05.farmSum fs d ≤ b.bal FM d

/-- none of the next `n` bank calls is the armed one -/
def NoHit (b : Bank) (n : Nat) : Prop := ∀ j, j < n → b.failAt ≠ some (b.calls + j + 1)

theorem Cover.tail {b : Bank} {f : Farm} {fs : List Farm} (h : Cover b (f :: fs)) : Cover b fs := by
  intro d
  have := h d
  rw [C05.farmSum_cons] at this
  omega

theorem Cover.of_balEq {b B : Bank} {fs : List Farm} (h : Cover b fs) (he : BalEq b B) : Cover B fs := by
  intro d
  rw [he]
  exact h d

theorem farmSum_sublist {a b : List Farm} (h : a.Sublist b) (d : Denom) : C05.farmSum a d ≤ C05.farmSum b d := by
  induction h with
  | slnil => exact Nat.le_refl _
  | cons x _ ih => rw [C05.farmSum_cons]; omega
  | cons_cons x _ ih => rw [C05.farmSum_cons, C05.farmSum_cons]; omega

theorem refund_send_ex {b : Bank} {f : Farm} (hr : 0 < f.assetAmount - f.claimed)
    (hle : f.assetAmount - f.claimed ≤ b.bal FM f.assetDenom) (hf : b.failAt ≠ some (b.calls + 1)) :
    ∃ b', b.send FM f.owner [⟨f.assetDenom, f.assetAmount - f.claimed⟩] = .ok b' := by
  apply send_ex' (r := [⟨f.assetDenom, f.assetAmount - f.claimed⟩]) hf
  · have : f.assetAmount - f.claimed ≠ 0 := by omega
    simp [normalizeCoins, this]
  · intro d
    rw [coinsOf_single]
    simp only
    split
    · rename_i hd; subst hd; exact hle
    · exact Nat.zero_le _

/-- the refund loop when no call is the armed one and the balance covers the remainders: every refund is
    executed -/
theorem refundRun_eff : ∀ (pre rest : List Farm) (b : Bank), (∀ f ∈ pre, 0 < f.assetAmount - f.claimed) →
    Cover b (pre ++ rest) → NoHit b pre.length →
    (∀ a d, ((refundRun b pre).bal a d : Int) = (b.bal a d : Int) + sumInt (pre.map (refundEff a d))) ∧
    (refundRun b pre).calls = b.calls + pre.length ∧ (refundRun b pre).failAt = b.failAt ∧
    Cover (refundRun b pre) rest := by
  intro pre
  induction pre with
  | nil =>
    intro rest b _ hc _
    refine ⟨fun a d => ?_, rfl, rfl, hc⟩
    simp [refundRun_nil, sumInt_nil]
  | cons f pre ih =>
    intro rest b hpos hc hn
    have hr := hpos f List.mem_cons_self
    have hle : f.assetAmount - f.claimed ≤ b.bal FM f.assetDenom := by
      have := hc f.assetDenom
      rw [List.cons_append, C05.farmSum_cons] at this
      simp only [beq_self_eq_true, if_true] at this
      omega
    have hf : b.failAt ≠ some (b.calls + 1) := hn 0 (by simp)
    obtain ⟨b1, hb1⟩ := refund_send_ex hr hle hf
    have hstep : refundStep b f = b1 := by unfold refundStep; rw [hb1]
    have hc1 : Cover b1 (pre ++ rest) := by
      intro d
      have e := refund_send_eff hb1 FM d
      have := hc d
      rw [List.cons_append, C05.farmSum_cons] at this
      unfold refundEff at e
      generalize f.assetAmount - f.claimed = rem at *
      by_cases hd : f.assetDenom = d
      · subst hd
        simp only [beq_self_eq_true, if_true, true_and] at this e
        split at e <;> omega
      · have hd' : ¬ d = f.assetDenom := fun e => hd e.symm
        have hb : (f.assetDenom == d) = false := by simp [hd]
        simp only [hb, hd', false_and, if_false, Bool.false_eq_true] at this e
        omega
    have hn1 : NoHit b1 pre.length := by
      intro j hj
      rw [(send_spec hb1).2.fa, send_calls hb1]
      have := hn (j + 1) (by simp only [List.length_cons]; omega)
      intro h
      apply this
      rw [h]
      congr 1
      omega
    obtain ⟨i1, i2, i3, i4⟩ := ih rest b1 (fun g hg => hpos g (List.mem_cons_of_mem _ hg)) hc1 hn1
    rw [refundRun_cons, hstep]
    refine ⟨?_, ?_, ?_, i4⟩
    · intro a d
      rw [i1, refund_send_eff hb1, List.map_cons, sumInt_cons]
      omega
    · rw [i2, send_calls hb1]
      simp only [List.length_cons]
      omega
    · rw [i3, (send_spec hb1).2.fa]

/-- the refund loop when the armed call is the refund of `g`: that refund alone is skipped -/
theorem refundRun_armed (pre post : List Farm) (g : Farm) (B : Bank) (k : Nat)
    (hpos : ∀ f ∈ pre ++ g :: post, 0 < f.assetAmount - f.claimed) (hc : Cover B (pre ++ g :: post))
    (hfa : B.failAt = some k) (hk : k = B.calls + pre.length + 1) :
    ∀ a d, ((refundRun B (pre ++ g :: post)).bal a d : Int) =
      (B.bal a d : Int) + sumInt (pre.map (refundEff a d)) + sumInt (post.map (refundEff a d)) := by
  have hn : NoHit B pre.length := by
    intro j hj h
    rw [hfa] at h
    simp only [Option.some.injEq] at h
    omega
  obtain ⟨i1, i2, i3, i4⟩ := refundRun_eff pre (g :: post) B
    (fun f hf => hpos f (List.mem_append_left _ hf)) hc hn
  have harm : (refundRun B pre).failAt = some ((refundRun B pre).calls + 1) := by
    rw [i3, i2, hfa, hk]
  have hstep : refundStep (refundRun B pre) g =
      { refundRun B pre with calls := (refundRun B pre).calls + 1 } := by
    unfold refundStep
    rw [send_armed harm]
  have hc2 : Cover { refundRun B pre with calls := (refundRun B pre).calls + 1 } (post ++ []) := by
    rw [List.append_nil]
    exact i4.tail
  have hn2 : NoHit { refundRun B pre with calls := (refundRun B pre).calls + 1 } post.length := by
    intro j hj h
    simp only [i3, i2, hfa, Option.some.injEq] at h
    omega
  obtain ⟨j1, _, _, _⟩ := refundRun_eff post [] _
    (fun f hf => hpos f (List.mem_append_right _ (List.mem_cons_of_mem _ hf))) hc2 hn2
  intro a d
  rw [refundRun_append, refundRun_cons, hstep, j1, ← i1]

/-! ### the farms `create_farm` finds expired -/

/-- the farms of the LP token that `create_farm` closes -/
def expiredL (s : FmState) (env : FmEnv) (p : FarmParams) : List Farm :=
  (FH.cfFarms s p).filter fun f =>
    match isFarmExpiredOrFalse s env f with | .ok b => b | .error _ => false

theorem zip_filter_eq {α : Type} (f : α → R Bool) : ∀ (l : List α) (flags : List Bool),
    l.mapM f = .ok flags →
    ((l.zip flags).filter (·.2)).map (·.1) =
      l.filter (fun x => match f x with | .ok b => b | .error _ => false) := by
  intro l
  induction l with
  | nil => intro flags _; simp
  | cons a l ih =>
    intro flags h
    rw [List.mapM_cons] at h
    simp only [bind_ok, pure_ok] at h
    obtain ⟨b, hb, bs', hbs, rfl⟩ := h
    have := ih bs' hbs
    simp only [List.zip_cons_cons, List.filter_cons, hb]
    cases b
    · simpa using this
    · simpa using this

theorem cfExpired_eq {s : FmState} {env : FmEnv} {p : FarmParams} {flags : List Bool}
    (h : (FH.cfFarms s p).mapM (fun f => isFarmExpiredOrFalse s env f) = .ok flags) :
    FH.cfExpired s p flags = expiredL s env p := by
  unfold FH.cfExpired expiredL
  exact zip_filter_eq _ _ _ h

theorem expiredL_sublist (s : FmState) (env : FmEnv) (p : FarmParams) : (expiredL s env p).Sublist s.farms := by
  unfold expiredL FH.cfFarms FmState.farmsByLp
  exact (List.filter_sublist).trans ((List.take_sublist _ _).trans List.filter_sublist)

theorem posRem_sublist (fs : List Farm) : (posRem fs).Sublist fs := List.filter_sublist

end MantraDex.RefundTx
