/-
  Helper lemmas for `Properties/NonVacuity.lean`: the bank facts of the genesis world.

  * `sum_indicator_le`: over a duplicate-free list of addresses, a balance function that is `c` on the members of a
    list `U` and `0` elsewhere sums to at most `U.length * c`;
  * `lpDenom_not_short`: an LP denom of the token factory has at least 11 characters, so it is none of a list of
    denoms with at most 10 characters each.
-/
import MantraDex.Model.System
import MantraDex.Properties.C02Sys

set_option linter.unusedSimpArgs false
set_option linter.unusedVariables false

namespace MantraDex.NonVac
open MantraDex

theorem foldl_add_start (xs : List Nat) (a : Nat) : xs.foldl (· + ·) a = a + xs.foldl (· + ·) 0 := by
  induction xs generalizing a with
  | nil => simp
  | cons x xs ih => simp only [List.foldl_cons]; rw [ih (a + x), ih (0 + x)]; omega

theorem sumOver_nil (f : Addr → Nat) : C02Sys.sumOver [] f = 0 := rfl

theorem sumOver_cons (f : Addr → Nat) (u : Addr) (us : List Addr) :
    C02Sys.sumOver (u :: us) f = f u + C02Sys.sumOver us f := by
  unfold C02Sys.sumOver
  simp only [List.map_cons, List.foldl_cons]; rw [foldl_add_start]; omega

theorem sumOver_congr {f g : Addr → Nat} {us : List Addr} (h : ∀ a ∈ us, f a = g a) :
    C02Sys.sumOver us f = C02Sys.sumOver us g := by
  induction us with
  | nil => rfl
  | cons u us ih =>
    rw [sumOver_cons, sumOver_cons, h u (by simp), ih (fun a ha => h a (List.mem_cons_of_mem _ ha))]

theorem sumOver_zero (us : List Addr) : C02Sys.sumOver us (fun _ => 0) = 0 := by
  induction us with
  | nil => rfl
  | cons u us ih => rw [sumOver_cons, ih]

/-- a function that is `c` on the members of `U` and `0` elsewhere sums to at most `|U| · c` over distinct addresses -/
theorem sum_indicator_le (c : Nat) : ∀ (as U : List Addr), as.Nodup →
    C02Sys.sumOver as (fun a => if a ∈ U then c else 0) ≤ U.length * c
  | [], U, _ => by rw [sumOver_nil]; exact Nat.zero_le _
  | a :: as, U, hnd => by
    rw [List.nodup_cons] at hnd
    rw [sumOver_cons]
    by_cases ha : a ∈ U
    · have hcongr : C02Sys.sumOver as (fun x => if x ∈ U then c else 0) =
          C02Sys.sumOver as (fun x => if x ∈ U.erase a then c else 0) := by
        apply sumOver_congr
        intro x hx
        have hne : x ≠ a := fun e => hnd.1 (e ▸ hx)
        have : x ∈ U.erase a ↔ x ∈ U := List.mem_erase_of_ne hne
        simp only [this]
      have ih := sum_indicator_le c as (U.erase a) hnd.2
      rw [hcongr, if_pos ha]
      have hl : (U.erase a).length = U.length - 1 := List.length_erase_of_mem ha
      have hpos : 0 < U.length := List.length_pos_of_mem ha
      rw [hl] at ih
      have : U.length * c = (U.length - 1) * c + c := by
        have : U.length = (U.length - 1) + 1 := by omega
        conv => lhs; rw [this, Nat.add_mul, Nat.one_mul]
      omega
    · rw [if_neg ha]
      have ih := sum_indicator_le c as U hnd.2
      omega

/-- the form the genesis bank has: `c` for (user, base denom), else `0`; supply `|U| · c` per base denom -/
theorem genesis_supply_covers (U B : List String) (c : Nat) (d : Denom) (as : List Addr) (hnd : as.Nodup) :
    C02Sys.sumOver as (fun a => if U.contains a && B.contains d then c else 0) ≤
      (if B.contains d then U.length * c else 0) := by
  cases hB : B.contains d with
  | false =>
    simp only [Bool.and_false, Bool.false_eq_true, if_false]
    rw [sumOver_zero]; exact Nat.le_refl _
  | true =>
    simp only [Bool.and_true, if_true, List.contains_iff_mem]
    exact sum_indicator_le c as U hnd

/-! ### LP denoms are long -/

theorem lpDenomOf_length (self id : String) : 11 ≤ (lpDenomOf self id).toList.length := by
  unfold lpDenomOf
  simp only [String.toList_append, toString, List.length_append]
  have h1 : ("factory/" : String).toList.length = 8 := by decide
  have h2 : ("/" : String).toList.length = 1 := by decide
  have h3 : ("." : String).toList.length = 1 := by decide
  have h4 : (C.LP_SYMBOL : String).toList.length = 2 := by decide
  omega

/-- an LP denom is none of a list of short denoms -/
theorem lpDenom_not_short (B : List String) (hB : ∀ b ∈ B, b.toList.length ≤ 10) (self id : String) :
    B.contains (lpDenomOf self id) = false := by
  cases h : B.contains (lpDenomOf self id) with
  | false => rfl
  | true =>
    have hm : lpDenomOf self id ∈ B := List.contains_iff_mem.1 h
    have := hB _ hm
    have := lpDenomOf_length self id
    omega

end MantraDex.NonVac
