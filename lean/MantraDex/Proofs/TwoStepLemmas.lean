/-
  Runtime unrolling lemmas for the comparison "single-asset deposit = swap half, then deposit both"
  (C14Eq): leaf sub-messages as a bank fold, the shape of a call into the pool manager, and the
  independence of the swap / multi-asset deposit handlers from the parts of their environment in
  which the two runs differ.
-/
import MantraDex.Model.System
import MantraDex.Proofs.NumLemmas
import MantraDex.Proofs.BankLemmas
import MantraDex.Proofs.ProvideLemmas
import MantraDex.Properties.C12
import MantraDex.Properties.C14

set_option linter.unusedSimpArgs false
set_option linter.unusedVariables false

namespace MantraDex
open MantraDex.C01 (coinsOf amt coinsOf_cons coinsOf_nil)

/-! ### leaf messages -/

/-- effect of a non-wasm message sent by `c` on the bank -/
def bankStep (tf : List Coin) (b : Bank) (c : Addr) : Msg → R Bank
  | .bankSend to coins => b.send c to coins
  | .bankBurn coins => b.burn c coins
  | .tfCreateDenom _ => b.burn c tf
  | .tfMint coin to => b.mint to [coin]
  | .tfBurn coin => b.burn c [coin]
  | .wasmExec .. => .error .other

def bankRun (tf : List Coin) (b : Bank) (c : Addr) : List Msg → R Bank
  | [] => .ok b
  | m :: ms => bankStep tf b c m >>= fun b' => bankRun tf b' c ms

def IsLeaf : Msg → Prop
  | .wasmExec .. => False
  | _ => True

def mkSub (m : Msg) : SubMsg := { msg := m }

theorem ofMsgs_msgs (ms : List Msg) (attrs : List (String × String)) :
    (Response.ofMsgs ms attrs).msgs = ms.map mkSub := rfl

theorem execMsg_leaf (n : Nat) (w : World) (c : Addr) (m : Msg) (hl : IsLeaf m) :
    execMsg (n + 1) w c m = (bankStep w.tfFees w.bank c m >>= fun b => pure { w with bank := b }) := by
  cases m <;> first | rfl | exact absurd hl id

theorem execSubs_leaf (ms : List Msg) : ∀ (n : Nat) (w : World) (c : Addr), (∀ m ∈ ms, IsLeaf m) →
    ms.length + 1 ≤ n →
    execSubs n w c (ms.map mkSub) = (bankRun w.tfFees w.bank c ms >>= fun b => pure { w with bank := b }) := by
  induction ms with
  | nil =>
    intro n w c _ hn
    obtain ⟨n', rfl⟩ : ∃ n', n = n' + 1 := ⟨n - 1, by omega⟩
    rfl
  | cons m ms ih =>
    intro n w c hl hn
    simp only [List.length_cons] at hn
    obtain ⟨n', rfl⟩ : ∃ n', n = n' + 1 + 1 := ⟨n - 2, by omega⟩
    have hm : IsLeaf m := hl m (List.mem_cons_self ..)
    simp only [List.map_cons, execSubs, mkSub, execMsg_leaf n' w c m hm, bankRun]
    cases hb : bankStep w.tfFees w.bank c m with
    | error e => rfl
    | ok b =>
      simp only [ReplyOn.onSuccess, Bool.false_eq_true, if_false]
      have := ih (n' + 1) { w with bank := b } c (fun x hx => hl x (List.mem_cons_of_mem _ hx)) (by omega)
      simp only [mkSub] at this
      exact this

theorem bankRun_append (tf : List Coin) (c : Addr) (xs ys : List Msg) (b : Bank) :
    bankRun tf b c (xs ++ ys) = (bankRun tf b c xs >>= fun b' => bankRun tf b' c ys) := by
  induction xs generalizing b with
  | nil => rfl
  | cons x xs ih =>
    simp only [List.cons_append, bankRun]
    cases bankStep tf b c x with
    | error e => rfl
    | ok b1 => exact ih b1

/-! ### a call into the pool manager -/

theorem execMsg_pm_eq (n : Nat) (w : World) (sender : Addr) (m : PmMsg) (funds : List Coin)
    (hne : funds.isEmpty = false) :
    execMsg (n + 1) w sender (.wasmExec PM (.pm m) funds) =
      (w.bank.send sender PM funds >>= fun b =>
        pmExecute w.pm ({ w with bank := b } : World).pmEnv sender funds m >>= fun sr =>
          execSubs n { w with bank := b, pm := sr.1 } PM sr.2.msgs) := by
  have hc : isContract PM = true := by decide
  simp only [execMsg, hc, hne, Bool.not_true, Bool.false_eq_true, if_false, callExecute,
    bne_self_eq_false, bind_assoc, pure_bind]

/-! ### the handlers -/

/-- the messages of a swap: proceeds to `recv`, burn fee burned, protocol fee to `fc` -/
def swapMsgs (recv fc : Addr) (ret burnFee protocolFee : Coin) : List Msg :=
  (if ret.amount ≠ 0 then [.bankSend recv [ret]] else []) ++
  (if burnFee.amount ≠ 0 then [.bankBurn [burnFee]] else []) ++
  (if protocolFee.amount ≠ 0 then [.bankSend fc [protocolFee]] else [])

def swapResp (recv fc : Addr) (r : SwapResult) : Response :=
  Response.ofMsgs (swapMsgs recv fc r.ret r.burnFee r.protocolFee) [
    ("action", "swap"), ("return_amount", toString r.ret.amount), ("slippage_amount", toString r.slippage),
    ("swap_fee_amount", toString r.swapFee.amount), ("protocol_fee_amount", toString r.protocolFee.amount),
    ("burn_fee_amount", toString r.burnFee.amount), ("extra_fees_amount", toString r.extraFees.amount),
    ("pool_reserves", reservesAttr r.pool)]

def swapCore (s : PmState) (funds : List Coin) (askDenom : Denom) (belief maxSlip : Option Nat)
    (poolId : String) : R (PmState × SwapResult) := do
  let pool ← s.getPool poolId
  if !pool.status.swaps then .error .disabled
  let offer ← oneCoin funds
  if offer.denom == askDenom then .error .mismatch
  if !([askDenom, offer.denom].all fun d => pool.assets.any (·.denom == d)) then .error .mismatch
  performSwap s offer askDenom poolId belief maxSlip

theorem swapHandler_eq (s : PmState) (env : PmEnv) (sender : Addr) (funds : List Coin) (ask : Denom)
    (b ms : Option Nat) (recv : Option Addr) (pid : String) :
    swapHandler s env sender funds ask b ms recv pid =
      (fun x => (x.1, swapResp (addrOrDefault env recv sender) s.config.feeCollector x.2)) <$>
        swapCore s funds ask b ms pid := by
  unfold swapHandler swapCore
  simp only [map_bind]
  cases s.getPool pid with
  | error e => rfl
  | ok pool =>
    simp only [ok_bind]
    split
    · rfl
    · try simp only [pure_bind, map_bind]
      cases oneCoin funds with
      | error e => rfl
      | ok offer =>
        simp only [ok_bind]
        split
        · rfl
        · try simp only [pure_bind, map_bind]
          split
          · rfl
          · try simp only [pure_bind, map_bind]
            cases performSwap s offer ask pid b ms with
            | error e => rfl
            | ok x => rfl

theorem savePool_setBuffer (s : PmState) (buf : Option SingleSideBuffer) (p : PoolInfo) :
    ({ s with buffer := buf } : PmState).savePool p = { s.savePool p with buffer := buf } := by
  unfold PmState.savePool
  simp only
  split <;> rfl

theorem performSwap_buf (s : PmState) (buf : Option SingleSideBuffer) (offer : Coin) (ask : Denom)
    (pid : String) (b ms : Option Nat) :
    performSwap { s with buffer := buf } offer ask pid b ms =
      (fun x => (({ x.1 with buffer := buf } : PmState), x.2)) <$> performSwap s offer ask pid b ms := by
  unfold performSwap
  simp only [map_bind, savePool_setBuffer]
  show (s.getPool pid >>= _) = _
  cases s.getPool pid with
  | error e => rfl
  | ok pool =>
    simp only [ok_bind]
    cases getAssetIndexes pool offer.denom ask with
    | error e => rfl
    | ok x =>
      obtain ⟨_, _, oi, ai, _, _⟩ := x
      simp only [ok_bind, map_bind, map_pure]

theorem swapCore_buf (s : PmState) (buf : Option SingleSideBuffer) (funds : List Coin) (ask : Denom)
    (b ms : Option Nat) (pid : String) :
    swapCore { s with buffer := buf } funds ask b ms pid =
      (fun x => (({ x.1 with buffer := buf } : PmState), x.2)) <$> swapCore s funds ask b ms pid := by
  unfold swapCore
  simp only [map_bind, performSwap_buf]
  show (s.getPool pid >>= _) = _
  cases s.getPool pid with
  | error e => rfl
  | ok pool =>
    simp only [ok_bind]
    split
    · rfl
    · try simp only [pure_bind, map_bind]
      cases oneCoin funds with
      | error e => rfl
      | ok offer =>
        simp only [ok_bind]
        split
        · rfl
        · try simp only [pure_bind, map_bind]
          split
          · rfl
          · rfl

theorem provide_multi_congr (s : PmState) (env1 env2 : PmEnv) (sender1 sender2 : Addr) (funds deps : List Coin)
    (ls ss : Option Nat) (recv1 recv2 : Option Addr) (pid : String)
    (hagg : aggregateCoins funds = .ok deps) (hlen : deps.length ≠ 1)
    (hv : env1.validAddr = env2.validAddr) (hs : env1.supply = env2.supply) (hself : env1.self = env2.self)
    (hr : addrOrDefault env1 recv1 sender1 = addrOrDefault env2 recv2 sender2) :
    provideLiquidity s env1 sender1 funds ls ss recv1 pid none none =
      provideLiquidity s env2 sender2 funds ls ss recv2 pid none none := by
  unfold provideLiquidity
  simp only [hagg, ok_bind, hlen, if_false, hv, hs, hself, hr]


/-! ### the bank side of the comparison -/

theorem bankRun_single (tf : List Coin) (b : Bank) (c : Addr) (m : Msg) :
    bankRun tf b c [m] = bankStep tf b c m := by
  simp only [bankRun]
  cases bankStep tf b c m <;> rfl

theorem coinsOf_zero_amount {coin : Coin} (h : coin.amount = 0) (d : Denom) : coinsOf [coin] d = 0 := by
  simp [coinsOf_cons, amt, h]

theorem optSend_spec {tf : List Coin} {b b' : Bank} {c to : Addr} {coin : Coin}
    (h : bankRun tf b c (if coin.amount ≠ 0 then [.bankSend to [coin]] else []) = .ok b') :
    Moves b b' c to [coin] := by
  by_cases h0 : coin.amount = 0
  · simp only [h0, ne_eq, not_true, if_false, bankRun] at h
    cases h
    refine ⟨fun d => ?_, fun x d => ?_, fun d => ?_, rfl⟩
    · rw [coinsOf_zero_amount h0]; omega
    · rw [coinsOf_zero_amount h0]; simp
    · rw [coinsOf_zero_amount h0]; omega
  · simp only [ne_eq, h0, not_false_iff, if_true, bankRun_single, bankStep] at h
    exact (send_spec h).2

theorem optSend_ex {tf : List Coin} {b : Bank} {c to : Addr} {coin : Coin} (hf : b.failAt = none)
    (hle : ∀ d, coinsOf [coin] d ≤ b.bal c d) :
    ∃ b', bankRun tf b c (if coin.amount ≠ 0 then [.bankSend to [coin]] else []) = .ok b' := by
  by_cases h0 : coin.amount = 0
  · exact ⟨b, by simp only [h0, ne_eq, not_true, if_false, bankRun]⟩
  · simp only [ne_eq, h0, not_false_iff, if_true, bankRun_single, bankStep]
    have hn : normalizeCoins [coin] = .ok [coin] := by
      simp [normalizeCoins, h0]
    exact send_ex hf hn hle

theorem optBurn_spec {tf : List Coin} {b b' : Bank} {c : Addr} {coin : Coin}
    (h : bankRun tf b c (if coin.amount ≠ 0 then [.bankBurn [coin]] else []) = .ok b') :
    Burns b b' c [coin] := by
  by_cases h0 : coin.amount = 0
  · simp only [h0, ne_eq, not_true, if_false, bankRun] at h
    cases h
    refine ⟨fun d => ?_, fun x d => ?_, fun d => ?_, rfl⟩
    · rw [coinsOf_zero_amount h0]; omega
    · rw [coinsOf_zero_amount h0]; simp
    · rw [coinsOf_zero_amount h0]; omega
  · simp only [ne_eq, h0, not_false_iff, if_true, bankRun_single, bankStep] at h
    exact (burn_spec h).2

theorem optBurn_ex {tf : List Coin} {b : Bank} {c : Addr} {coin : Coin} (hf : b.failAt = none)
    (hle : ∀ d, coinsOf [coin] d ≤ b.bal c d) :
    ∃ b', bankRun tf b c (if coin.amount ≠ 0 then [.bankBurn [coin]] else []) = .ok b' := by
  by_cases h0 : coin.amount = 0
  · exact ⟨b, by simp only [h0, ne_eq, not_true, if_false, bankRun]⟩
  · simp only [ne_eq, h0, not_false_iff, if_true, bankRun_single, bankStep]
    have hn : normalizeCoins [coin] = .ok [coin] := by
      simp [normalizeCoins, h0]
    exact burn_ex hf hn hle

/-- the swap messages, taken apart -/
theorem swapMsgs_spec {tf : List Coin} {b b' : Bank} {recv fc : Addr} {rc bc pc : Coin}
    (h : bankRun tf b PM (swapMsgs recv fc rc bc pc) = .ok b') :
    ∃ x y, Moves b x PM recv [rc] ∧ Burns x y PM [bc] ∧ Moves y b' PM fc [pc] := by
  unfold swapMsgs at h
  rw [bankRun_append, bankRun_append] at h
  obtain ⟨y, h12, h3⟩ := bind_ok.mp h
  obtain ⟨x, h1, h2⟩ := bind_ok.mp h12
  exact ⟨x, y, optSend_spec h1, optBurn_spec h2, optSend_spec h3⟩

theorem swapMsgs_ex {tf : List Coin} {b : Bank} {recv fc : Addr} {rc bc pc : Coin} (hf : b.failAt = none)
    (h1 : ∀ d, coinsOf [rc] d ≤ b.bal PM d)
    (h2 : ∀ x, Moves b x PM recv [rc] → ∀ d, coinsOf [bc] d ≤ x.bal PM d)
    (h3 : ∀ x y, Moves b x PM recv [rc] → Burns x y PM [bc] → ∀ d, coinsOf [pc] d ≤ y.bal PM d) :
    ∃ x y b', Moves b x PM recv [rc] ∧ Burns x y PM [bc] ∧ Moves y b' PM fc [pc] ∧
      bankRun tf b PM (swapMsgs recv fc rc bc pc) = .ok b' := by
  obtain ⟨x, hx⟩ := optSend_ex (tf := tf) (to := recv) hf h1
  have mx := optSend_spec hx
  obtain ⟨y, hy⟩ := optBurn_ex (tf := tf) (by rw [mx.fa]; exact hf) (h2 x mx)
  have my := optBurn_spec hy
  obtain ⟨z, hz⟩ := optSend_ex (tf := tf) (to := fc) (by rw [my.fa, mx.fa]; exact hf) (h3 x y mx my)
  have mz := optSend_spec hz
  refine ⟨x, y, z, mx, my, mz, ?_⟩
  unfold swapMsgs
  rw [bankRun_append, bankRun_append, hx]
  show (bankRun tf x PM _ >>= _) = _
  rw [hy]
  exact hz


/-- pointwise bank arithmetic: unfold the coin sums, split on the denom, finish with `omega` -/
macro "bank_pt " o:term:max k:term:max d:ident : tactic => `(tactic| (
  by_cases hd1 : $o = $d
  · subst hd1
    (simp only [coinsOf_cons, coinsOf_nil, amt, beq_iff_eq, Nat.add_zero, if_false, if_true,
      eq_self_iff_true, and_true, true_and, and_false, false_and, *] at *) <;> omega
  · by_cases hd2 : $k = $d
    · subst hd2
      (simp only [coinsOf_cons, coinsOf_nil, amt, beq_iff_eq, Nat.add_zero, if_false, if_true,
        eq_self_iff_true, and_true, true_and, and_false, false_and, *] at *) <;> omega
    · (simp only [coinsOf_cons, coinsOf_nil, amt, beq_iff_eq, Nat.add_zero, if_false, if_true,
        eq_self_iff_true, and_true, true_and, and_false, false_and, *] at *) <;> omega))

/-- balances agree except for the odd unit `r`, which sits with `PM` in the first bank and with `u` in the second -/
def OddRel (bA bB : Bank) (u : Addr) (o : Denom) (r : Nat) : Prop :=
  bA.supply = bB.supply ∧ bA.failAt = none ∧ bB.failAt = none ∧
  ∀ a d, bA.bal a d + (if a = u ∧ o = d then r else 0) = bB.bal a d + (if a = PM ∧ o = d then r else 0)

theorem bank_two_step {tf : List Coin} {b0 bA1 bA2 bA3 bA4 : Bank} {u fc : Addr} {o k : Denom}
    {am ret burn prot : Nat}
    (hu : u ≠ PM) (hok : k ≠ o) (hf0 : b0.failAt = none) (hsup : am ≤ b0.supply o)
    (h1 : b0.send u PM [⟨o, am⟩] = .ok bA1)
    (h2 : bA1.send PM PM [⟨o, am / 2⟩] = .ok bA2)
    (h3 : bankRun tf bA2 PM (swapMsgs PM fc ⟨k, ret⟩ ⟨k, burn⟩ ⟨k, prot⟩) = .ok bA3)
    (hr2 : bA3.bal PM k = bA1.bal PM k - (prot + burn))
    (h4 : bA3.send PM PM [⟨o, am / 2⟩, ⟨k, ret⟩] = .ok bA4) :
    ∃ bB1 bB2 bB3, b0.send u PM [⟨o, am / 2⟩] = .ok bB1 ∧
      bankRun tf bB1 PM (swapMsgs u fc ⟨k, ret⟩ ⟨k, burn⟩ ⟨k, prot⟩) = .ok bB2 ∧
      ({ bB2 with calls := 0, failAt := none } : Bank).send u PM [⟨o, am / 2⟩, ⟨k, ret⟩] = .ok bB3 ∧
      OddRel bA4 bB3 u o (am % 2) := by
  have hu' : PM ≠ u := fun e => hu e.symm
  have hok' : o ≠ k := fun e => hok e.symm
  obtain ⟨n1, M1⟩ := send_spec h1
  obtain ⟨n2, M2⟩ := send_spec h2
  obtain ⟨xA, yA, M3a, M3b, M3c⟩ := swapMsgs_spec h3
  obtain ⟨n4, M4⟩ := send_spec h4
  -- B, step 1
  obtain ⟨r2, hn2⟩ := n2
  obtain ⟨bB1, hB1⟩ : ∃ b', b0.send u PM [⟨o, am / 2⟩] = .ok b' := by
    refine send_ex hf0 hn2 ?_
    intro d
    have := M1.le d
    simp only [coinsOf_cons, coinsOf_nil, amt, beq_iff_eq] at this ⊢
    by_cases hd : o = d
    · simp only [hd, if_true] at this ⊢; omega
    · simp only [hd, if_false] at this ⊢; omega
  obtain ⟨_, N1⟩ := send_spec hB1
  have hfB1 : bB1.failAt = none := by rw [N1.fa]; exact hf0
  obtain ⟨xB, yB, bB2, N2a, N2b, N2c, hB2⟩ : ∃ x y b', Moves bB1 x PM u [⟨k, ret⟩] ∧ Burns x y PM [⟨k, burn⟩] ∧
      Moves y b' PM fc [⟨k, prot⟩] ∧ bankRun tf bB1 PM (swapMsgs u fc ⟨k, ret⟩ ⟨k, burn⟩ ⟨k, prot⟩) = .ok b' := by
    apply swapMsgs_ex hfB1
    · intro d
      have a1 := M1.bal PM d
      have a2 := M2.bal PM d
      have a2' := M2.le d
      have a3 := M3a.le d
      have e1 := N1.bal PM d
      bank_pt o k d
    · intro xB N2a d
      have a1 := M1.bal PM d
      have a2 := M2.bal PM d
      have a2' := M2.le d
      have a3 := M3a.le d
      have a3' := M3a.bal PM d
      have a4 := M3b.le d
      have a4' := M3b.bal PM d
      have a5 := M3c.le d
      have a5' := M3c.bal PM d
      have a6 := M4.le d
      have e1 := N1.bal PM d
      have e2 := N2a.bal PM d
      by_cases hfc : PM = fc
      · subst hfc
        bank_pt o k d
      · bank_pt o k d
    · intro xB yB N2a N2b d
      have a1 := M1.bal PM d
      have a2 := M2.bal PM d
      have a2' := M2.le d
      have a3 := M3a.le d
      have a3' := M3a.bal PM d
      have a4 := M3b.le d
      have a4' := M3b.bal PM d
      have a5 := M3c.le d
      have a5' := M3c.bal PM d
      have a6 := M4.le d
      have e1 := N1.bal PM d
      have e2 := N2a.bal PM d
      have e3 := N2b.bal PM d
      by_cases hfc : PM = fc
      · subst hfc
        bank_pt o k d
      · bank_pt o k d
  have hfB2 : bB2.failAt = none := by rw [N2c.fa, N2b.fa, N2a.fa]; exact hfB1
  obtain ⟨r4, hn4⟩ := n4
  obtain ⟨bB3, hB3⟩ : ∃ b', ({ bB2 with calls := 0, failAt := none } : Bank).send u PM [⟨o, am / 2⟩, ⟨k, ret⟩] = .ok b' := by
    refine send_ex rfl hn4 ?_
    intro d
    show _ ≤ bB2.bal u d
    have a1 := M1.le d
    have e1 := N1.bal u d
    have e2 := N2a.bal u d
    have e3 := N2b.bal u d
    have e4 := N2c.bal u d
    by_cases hfc : u = fc
    · subst hfc
      bank_pt o k d
    · bank_pt o k d
  obtain ⟨_, N3⟩ := send_spec hB3
  refine ⟨bB1, bB2, bB3, hB1, hB2, hB3, ?_, ?_, ?_, ?_⟩
  · funext d
    have a1 := M1.sup d
    have a2 := M2.sup d
    have a3 := M3a.sup d
    have a4 := M3b.sup d
    have a5 := M3c.sup d
    have a6 := M4.sup d
    have e1 := N1.sup d
    have e2 := N2a.sup d
    have e3 := N2b.sup d
    have e4 := N2c.sup d
    have e5 : bB3.supply d = bB2.supply d - _ + _ := N3.sup d
    bank_pt o k d
  · rw [M4.fa, M3c.fa, M3b.fa, M3a.fa, M2.fa, M1.fa]; exact hf0
  · rw [N3.fa]
  · intro a d
    have a1 := M1.bal a d
    have a2 := M2.bal a d
    have a3 := M3a.bal a d
    have a4 := M3b.bal a d
    have a5 := M3c.bal a d
    have a6 := M4.bal a d
    have e1 := N1.bal a d
    have e2 := N2a.bal a d
    have e3 := N2b.bal a d
    have e4 := N2c.bal a d
    have e5 : bB3.bal a d + _ = bB2.bal a d + _ := N3.bal a d
    have l1 := M1.le d
    have l2 := M2.le d
    have l3 := M3a.le d
    have l4 := M3b.le d
    have l5 := M3c.le d
    have l6 := M4.le d
    have g1 := N1.le d
    have g2 := N2a.le d
    have g3 := N2b.le d
    have g4 := N2c.le d
    have g5 : _ ≤ bB2.bal u d := N3.le d
    by_cases ha1 : a = PM
    · subst ha1
      by_cases hfc : PM = fc
      · subst hfc
        bank_pt o k d
      · bank_pt o k d
    · by_cases ha2 : a = u
      · subst ha2
        by_cases hfc : a = fc
        · subst hfc
          bank_pt o k d
        · bank_pt o k d
      · by_cases hfc : a = fc
        · subst hfc
          bank_pt o k d
        · bank_pt o k d

theorem mints_rel {tf : List Coin} (ms : List Msg) (hm : ∀ m ∈ ms, IsMint m) {bA bA' bB : Bank} {u : Addr}
    {o : Denom} {r : Nat} (hrel : OddRel bA bB u o r) (h : bankRun tf bA PM ms = .ok bA') :
    ∃ bB', bankRun tf bB PM ms = .ok bB' ∧ OddRel bA' bB' u o r := by
  induction ms generalizing bA bB with
  | nil =>
    simp only [bankRun] at h
    cases h
    exact ⟨bB, rfl, hrel⟩
  | cons m ms ih =>
    obtain ⟨coin, to, rfl⟩ := hm m (List.mem_cons_self ..)
    simp only [bankRun, bankStep] at h ⊢
    obtain ⟨b1, h1, h⟩ := bind_ok.mp h
    obtain ⟨⟨rr, hn⟩, MA⟩ := mint_spec h1
    obtain ⟨hs, hfA, hfB, hb⟩ := hrel
    obtain ⟨b2, h2⟩ := mint_ex (to := to) hfB hn
    obtain ⟨_, MB⟩ := mint_spec h2
    have hrel' : OddRel b1 b2 u o r := by
      refine ⟨?_, by rw [MA.fa]; exact hfA, by rw [MB.fa]; exact hfB, ?_⟩
      · funext d
        rw [MA.sup, MB.sup, hs]
      · intro a d
        have := hb a d
        rw [MA.bal, MB.bal]
        omega
    obtain ⟨bB', h3, hrel''⟩ := ih (fun x hx => hm x (List.mem_cons_of_mem _ hx)) hrel' h
    refine ⟨bB', ?_, hrel''⟩
    rw [h2]
    exact h3

/-! ### worlds, and the execution tree of the single-asset deposit -/

/-- the world `w` with bank `b` and pool-manager state `s` -/
def World.at (w : World) (b : Bank) (s : PmState) : World := { w with bank := b, pm := s }
/-- what the pool manager sees in `w.at b s` -/
def World.env (w : World) (b : Bank) (s : PmState) : PmEnv := (w.at b s).pmEnv

theorem execMsg_pm_at (n : Nat) (w : World) (b : Bank) (s : PmState) (sender : Addr) (m : PmMsg)
    (funds : List Coin) (hne : funds.isEmpty = false) :
    execMsg (n + 1) (w.at b s) sender (.wasmExec PM (.pm m) funds) =
      (b.send sender PM funds >>= fun b1 =>
        pmExecute s (w.env b1 s) sender funds m >>= fun sr =>
          execSubs n (w.at b1 sr.1) PM sr.2.msgs) :=
  execMsg_pm_eq n (w.at b s) sender m funds hne

theorem execSubs_leaf_at (ms : List Msg) (n : Nat) (w : World) (b : Bank) (s : PmState) (c : Addr)
    (hl : ∀ m ∈ ms, IsLeaf m) (hn : ms.length + 1 ≤ n) :
    execSubs n (w.at b s) c (ms.map mkSub) = (bankRun w.tfFees b c ms >>= fun b' => pure (w.at b' s)) :=
  execSubs_leaf ms n (w.at b s) c hl hn

theorem execSubs_leaf_fuel (ms : List Msg) : ∀ (n : Nat) (w w' : World) (c : Addr),
    execSubs n w c (ms.map mkSub) = .ok w' → ms.length + 1 ≤ n := by
  induction ms with
  | nil =>
    intro n w w' c h
    cases n with
    | zero => simp [execSubs] at h
    | succ n => simp
  | cons m ms ih =>
    intro n w w' c h
    cases n with
    | zero => simp [execSubs] at h
    | succ n =>
      simp only [List.map_cons, execSubs, mkSub] at h
      split at h
      · rename_i w1 hw1
        simp only [ReplyOn.onSuccess, Bool.false_eq_true, if_false] at h
        have := ih n w1 w' c h
        simp only [List.length_cons]
        omega
      · simp only [ReplyOn.onError, Bool.false_eq_true, if_false] at h
        cases h

theorem callReply_at (w : World) (b : Bank) (s : PmState) (id : Nat) :
    callReply (w.at b s) PM id = (pmReply s (w.env b s) id >>= fun sr => pure (w.at b sr.1, sr.2)) := by
  simp only [callReply, beq_self_eq_true, if_true]
  rfl

theorem execSubs_one_success {n : Nat} {w w' : World} {c : Addr} {m : Msg} {i : Nat}
    (h : execSubs (n + 1) w c [{ msg := m, replyOn := .success, id := i }] = .ok w') :
    ∃ w1 w2 r, execMsg n w c m = .ok w1 ∧ callReply w1 c i = .ok (w2, r) ∧
      execSubs n w2 c r.msgs = .ok w' := by
  simp only [execSubs] at h
  split at h
  · rename_i w1 hw1
    simp only [ReplyOn.onSuccess, if_true, bind_ok] at h
    obtain ⟨⟨w2, r⟩, h2, w3, h3, h4⟩ := h
    cases n with
    | zero => simp [execSubs] at h4
    | succ n =>
      simp only [execSubs] at h4
      cases h4
      exact ⟨w1, w2, r, hw1, h2, h3⟩
  · simp only [ReplyOn.onError, Bool.false_eq_true, if_false] at h
    cases h

theorem execSubs_one_never {n : Nat} {w w' : World} {c : Addr} {m : Msg}
    (h : execSubs (n + 1) w c [{ msg := m }] = .ok w') : execMsg n w c m = .ok w' := by
  simp only [execSubs] at h
  split at h
  · rename_i w1 hw1
    simp only [ReplyOn.onSuccess, Bool.false_eq_true, if_false] at h
    cases n with
    | zero => simp [execSubs] at h
    | succ n =>
      simp only [execSubs] at h
      cases h
      exact hw1
  · simp only [ReplyOn.onError, Bool.false_eq_true, if_false] at h
    cases h


theorem swapCore_inv {s : PmState} {offer : Coin} {ask : Denom} {b ms : Option Nat} {pid : String}
    {y : PmState × SwapResult} (h : swapCore s [offer] ask b ms pid = .ok y) :
    offer.denom ≠ ask ∧ offer.amount ≠ 0 ∧ performSwap s offer ask pid b ms = .ok y := by
  unfold swapCore at h
  simp only [↓ok_bind, ↓ite_err_bind_ok, ↓bind_ok, ↓err_bind_ok, ↓pure_bind'] at h
  obtain ⟨pool, hp, hst, o', ho, hne, hall, h⟩ := h
  have ho' : o' = offer ∧ offer.amount ≠ 0 := by
    unfold oneCoin at ho
    by_cases h0 : offer.amount = 0
    · simp [h0] at ho
    · simp [h0] at ho; exact ⟨ho.symm, h0⟩
  obtain ⟨rfl, h0⟩ := ho'
  exact ⟨by simpa using hne, h0, h⟩

theorem plTail_none_mints {s s' : PmState} {env : PmEnv} {sender : Addr} {pool : PoolInfo}
    {deposits : List Coin} {ls : Option Nat} {recv : Addr} {l : Option String} {shares : Nat}
    {msgs0 : List Msg} {r : Response} (h0 : ∀ m ∈ msgs0, IsMint m)
    (h : plTail s env sender pool deposits ls recv none l shares msgs0 = .ok (s', r)) :
    ∃ ms : List Msg, r.msgs = ms.map mkSub ∧ ∀ m ∈ ms, IsMint m := by
  unfold plTail at h
  simp only [] at h
  obtain ⟨pa', hpa, h⟩ := bind_ok.mp h
  simp only [↓ite_err_bind_ok, ↓pure_bind'] at h
  obtain ⟨hv, h⟩ := h
  obtain ⟨as', has, h⟩ := bind_ok.mp h
  simp only [pure_ok, Prod.mk.injEq] at h
  obtain ⟨rfl, rfl⟩ := h
  refine ⟨_, rfl, ?_⟩
  intro m hm
  rcases List.mem_append.1 hm with hm | hm
  · exact h0 m hm
  · simp only [List.mem_singleton] at hm
    exact ⟨_, _, hm⟩

theorem isMint_leaf {m : Msg} (h : IsMint m) : IsLeaf m := by
  obtain ⟨c, a, rfl⟩ := h
  trivial

theorem swapMsgs_leaf (recv fc : Addr) (rc bc pc : Coin) : ∀ m ∈ swapMsgs recv fc rc bc pc, IsLeaf m := by
  intro m hm
  unfold swapMsgs at hm
  simp only [List.mem_append] at hm
  rcases hm with (hm | hm) | hm <;>
  · split at hm
    · simp only [List.mem_singleton] at hm; subst hm; trivial
    · cases hm

theorem swapMsgs_length (recv fc : Addr) (rc bc pc : Coin) : (swapMsgs recv fc rc bc pc).length ≤ 3 := by
  unfold swapMsgs
  simp only [List.length_append]
  split <;> split <;> split <;> simp


/-- the execution tree of a single-asset deposit, spelled out -/
theorem single_run_inv {w wA : World} {b0 : Bank} {s0 : PmState} {u : Addr} {c : Coin}
    {ls ss : Option Nat} {recv : Option Addr} {pid : String}
    (h : execMsg 64 (w.at b0 s0) u
      (.wasmExec PM (.pm (.provideLiquidity ls ss recv pid none none)) [c]) = .ok wA) :
    ∃ (bA1 bA2 bA3 bA4 bA5 : Bank) (pool : PoolInfo) (ask : Denom) (sim : SwapComputation)
      (y : PmState × SwapResult) (sA6 : PmState) (rA6 : Response) (ms : List Msg),
      b0.send u PM [c] = .ok bA1 ∧ s0.getPool pid = .ok pool ∧
      computeSwap pool ⟨c.denom, c.amount / 2⟩ ask = .ok sim ∧
      bA1.send PM PM [⟨c.denom, c.amount / 2⟩] = .ok bA2 ∧
      swapCore s0 [⟨c.denom, c.amount / 2⟩] ask none ss pid = .ok y ∧
      bankRun w.tfFees bA2 PM
        (swapMsgs PM s0.config.feeCollector y.2.ret y.2.burnFee y.2.protocolFee) = .ok bA3 ∧
      bA3.bal PM c.denom = bA1.bal PM c.denom ∧
      bA3.bal PM ask = bA1.bal PM ask - (sim.protocolFee + sim.burnFee) ∧
      bA3.send PM PM [⟨c.denom, c.amount / 2⟩, ⟨ask, sim.ret⟩] = .ok bA4 ∧
      provideLiquidity { y.1 with buffer := none } (w.env bA4 { y.1 with buffer := none }) PM
        [⟨c.denom, c.amount / 2⟩, ⟨ask, sim.ret⟩] ls ss
        (some (addrOrDefault (w.env bA1 s0) recv u)) pid none none = .ok (sA6, rA6) ∧
      rA6.msgs = ms.map mkSub ∧ (∀ m ∈ ms, IsMint m) ∧
      ms.length + 1 ≤ 60 ∧ bankRun w.tfFees bA4 PM ms = .ok bA5 ∧ wA = w.at bA5 sA6 := by
  have h64 : (64 : Nat) = 63 + 1 := rfl
  rw [h64, execMsg_pm_at 63 w b0 s0 u _ [c] rfl] at h
  obtain ⟨bA1, h1, h⟩ := bind_ok.mp h
  obtain ⟨⟨sA2, rA2⟩, hprov, hsubs⟩ := bind_ok.mp h
  simp only [pmExecute] at hprov
  obtain ⟨pool, ask, sim, hp, -, -, -, hsim, hs2, hr2⟩ := pl_single (agg_single c) hprov
  simp only at hsubs
  rw [hr2] at hsubs
  obtain ⟨w1, w2, r, hin, hrep, hsec⟩ := execSubs_one_success (n := 62) hsubs
  -- the inner swap
  have hin' : execMsg (61 + 1) (w.at bA1 sA2) PM
      (.wasmExec PM (.pm (.swap ask none ss none pid)) [⟨c.denom, c.amount / 2⟩]) = .ok w1 := hin
  rw [execMsg_pm_at 61 w bA1 sA2 PM _ _ rfl] at hin'
  obtain ⟨bA2, h2, hin'⟩ := bind_ok.mp hin'
  obtain ⟨⟨sA3, rA3⟩, hsw, hsubs3⟩ := bind_ok.mp hin'
  simp only [pmExecute] at hsw
  rw [swapHandler_eq, hs2, swapCore_buf] at hsw
  obtain ⟨x, hx, hx2⟩ := map_ok.mp hsw
  obtain ⟨y, hcore, rfl⟩ := map_ok.mp hx
  simp only [Prod.mk.injEq] at hx2
  obtain ⟨rfl, rfl⟩ := hx2
  obtain ⟨hne, hhalf0, hps⟩ := swapCore_inv hcore
  simp only at hsubs3
  have hsubs3' : execSubs 61 (w.at bA2 { y.1 with buffer := _ }) PM
      ((swapMsgs PM s0.config.feeCollector y.2.ret y.2.burnFee y.2.protocolFee).map mkSub) = .ok w1 := hsubs3
  rw [execSubs_leaf_at _ 61 w bA2 _ PM (swapMsgs_leaf _ _ _ _ _)
    (by have := swapMsgs_length PM s0.config.feeCollector y.2.ret y.2.burnFee y.2.protocolFee; omega)] at hsubs3'
  obtain ⟨bA3, h3, hw1⟩ := bind_ok.mp hsubs3'
  simp only [pure_ok] at hw1
  subst hw1
  -- the reply
  rw [callReply_at] at hrep
  obtain ⟨⟨sA5, rA5⟩, hreply, hw2⟩ := bind_ok.mp hrep
  simp only [pure_ok, Prod.mk.injEq] at hw2
  obtain ⟨rfl, rfl⟩ := hw2
  obtain ⟨e1, e2, rfl, hr5⟩ := C14.reply_shape (buf := _) rfl hreply
  -- the second leg
  rw [hr5] at hsec
  have hsec' := execSubs_one_never (n := 61) hsec
  have hsec'' : execMsg (60 + 1) (w.at bA3 { y.1 with buffer := none }) PM
      (.wasmExec PM (.pm (.provideLiquidity ls ss (some (addrOrDefault (w.env bA1 s0) recv u)) pid none none))
        [⟨c.denom, c.amount / 2⟩, ⟨ask, sim.ret⟩]) = .ok wA := hsec'
  rw [execMsg_pm_at 60 w bA3 _ PM _ _ rfl] at hsec''
  obtain ⟨bA4, h4, hsec''⟩ := bind_ok.mp hsec''
  obtain ⟨⟨sA6, rA6⟩, hprov2, hsubs6⟩ := bind_ok.mp hsec''
  simp only [pmExecute] at hprov2
  obtain ⟨deps, hagg, -⟩ := pl_agg hprov2
  have hlen : deps.length ≠ 1 := by
    rw [aggregateCoins_length (by simp [hne]) hagg]; simp
  obtain ⟨pool2, shares, msgs0, -, hm0, htail⟩ := pl_multi hagg hlen hprov2
  obtain ⟨ms, hms, hmint⟩ := plTail_none_mints hm0 htail
  simp only at hsubs6
  rw [hms] at hsubs6
  have hfuel := execSubs_leaf_fuel ms _ _ _ _ hsubs6
  rw [execSubs_leaf_at ms 60 w bA4 _ PM (fun m hm => isMint_leaf (hmint m hm)) hfuel] at hsubs6
  obtain ⟨bA5, h5, hwA⟩ := bind_ok.mp hsubs6
  simp only [pure_ok] at hwA
  exact ⟨bA1, bA2, bA3, bA4, bA5, pool, ask, sim, y, sA6, rA6, ms, h1, hp, hsim, h2, hcore, h3, e1, e2, h4,
    hprov2, hms, hmint, hfuel, h5, hwA⟩

end MantraDex
