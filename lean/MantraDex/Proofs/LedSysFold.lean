/-
  C06Sys, part 2 (entry-free): an accepted `claim` in closed form.

  `fmClaim` folds over the LP tokens of the sender's open positions with an evolving state; the state of
  earlier iterations differs from the pre-state only in the `claimed_amount` of farms of OTHER LP tokens and
  in the sender's history of other LP tokens, so every iteration computes `calculateRewards` of the PRE-state
  (`Mid`, `claim_run`).
-/
import MantraDex.Proofs.LedSysClaim
import MantraDex.Proofs.WSysFm

set_option linter.unusedSimpArgs false
set_option linter.unusedVariables false

namespace MantraDex.LedSys
open MantraDex

/-! ### compaction, with the case distinction made explicit -/

theorem sync_true_cases2 {s s' : FmState} {a : Addr} {lp : Denom} {ep : Nat}
    (h : syncHistory s a lp ep true = .ok s') :
    s.hist a lp ≠ [] ∧
    ((s' = s ∧ ∀ sn ∈ s.hist a lp, ep < sn.1) ∨
     (s' = s.setHist a lp (WSys.compact (s.hist a lp) ep) ∧ ∃ sn ∈ s.hist a lp, sn.1 ≤ ep)) := by
  unfold syncHistory at h
  by_cases hem : (s.hist a lp).isEmpty = true
  · simp [hem] at h; cases h
  · have hne : s.hist a lp ≠ [] := by
      intro e; rw [e] at hem; exact hem rfl
    refine ⟨hne, ?_⟩
    simp only [hem, Bool.false_eq_true, if_false, Bool.not_true] at h
    cases hl : (List.filter (fun x => decide (x.fst ≤ ep)) (s.hist a lp)).getLast? with
    | none =>
      rw [hl] at h
      simp only [pure_ok] at h
      refine Or.inl ⟨h, ?_⟩
      rw [List.getLast?_eq_none_iff, List.filter_eq_nil_iff] at hl
      intro sn hsn
      have := hl sn hsn
      simp only [decide_eq_true_eq] at this
      omega
    | some p =>
      obtain ⟨k, w⟩ := p
      rw [hl] at h
      simp only [pure_ok] at h
      refine Or.inr ⟨?_, ?_⟩
      · have hw : Spec.weightAt (s.hist a lp) ep = w := by
          unfold Spec.weightAt; rw [hl]; rfl
        have hgt : ∀ x ∈ List.filter (fun x => decide (x.fst > ep)) (s.hist a lp), ep < x.1 := by
          intro x hx
          have := (List.mem_filter.1 hx).2
          simpa using this
        rw [h, Farm.histSet_of_forall_gt w hgt]
        unfold WSys.compact
        rw [hw]
      · have hm := List.mem_of_getLast? hl
        obtain ⟨h1, h2⟩ := List.mem_filter.1 hm
        exact ⟨(k, w), h1, by simpa using h2⟩

theorem compact_ge {h : List (Nat × Nat)} {ep : Nat} {x : Nat × Nat} (hx : x ∈ WSys.compact h ep) :
    ep ≤ x.1 := by
  unfold WSys.compact at hx
  rcases List.mem_cons.1 hx with rfl | hx
  · exact Nat.le_refl _
  · have := (List.mem_filter.1 hx).2
    simp only [decide_eq_true_eq] at this
    omega

/-! ### the evolving state of a claim -/

theorem addC_self {D : String → Nat} {q : Farm} (h : D q.id = 0) : Split.addC D q = q := by
  unfold Split.addC
  rw [h]
  cases q
  rfl

theorem modTotal_zero {mods : List (String × Nat)} {id : String} (h : ∀ m ∈ mods, m.1 ≠ id) :
    Split.modTotal mods id = 0 := by
  unfold Split.modTotal
  apply Split.sum_map_zero
  intro m hm
  have := h m hm
  simp [this]

/-- state of the claim loop after the LP tokens `done` -/
structure Mid (s : FmState) (env : FmEnv) (sender : Addr) (untilE : Nat) (done : List Denom)
    (st : FmState × List Coin) : Prop where
  config : st.1.config = s.config
  last : st.1.lastClaimed = s.lastClaimed
  positions : st.1.positions = s.positions
  posCounter : st.1.posCounter = s.posCounter
  ids : st.1.farms.map (·.id) = s.farms.map (·.id)
  farmsKeep : ∀ lp, lp ∉ done → st.1.farms.filter (·.lpDenom == lp) = s.farms.filter (·.lpDenom == lp)
  histOther : ∀ a lp, (a ≠ sender ∨ lp ∉ done) → st.1.hist a lp = s.hist a lp
  histDone : ∀ lp ∈ done, s.hist sender lp ≠ [] ∧
    ((st.1.hist sender lp = s.hist sender lp ∧ ∀ sn ∈ s.hist sender lp, untilE < sn.1) ∨
     (st.1.hist sender lp = WSys.compact (s.hist sender lp) untilE ∧ ∃ sn ∈ s.hist sender lp, sn.1 ≤ untilE))
  calcOk : ∀ lp ∈ done, ∃ rc, calculateRewards s env lp sender untilE = .ok rc
  coins : ∀ d, C05.coinsOf st.2 d = (done.map fun lp => C05.coinsOf (lpRewards s env lp sender untilE) d).sum

theorem mid_init (s : FmState) (env : FmEnv) (sender : Addr) (untilE : Nat) :
    Mid s env sender untilE [] (s, []) :=
  ⟨rfl, rfl, rfl, rfl, rfl, fun _ _ => rfl, fun _ _ _ => rfl, fun _ h => (by cases h), fun _ h => (by cases h),
    fun d => (by rw [C05.coinsOf_nil]; rfl)⟩

theorem mid_step {s : FmState} {env : FmEnv} {sender : Addr} {untilE : Nat} {done : List Denom}
    {st st' : FmState × List Coin} {lp : Denom} (hn : (s.farms.map (·.id)).Nodup)
    (hm : Mid s env sender untilE done st) (hlp : lp ∉ done)
    (h : Farm.claimStep env sender untilE st lp = .ok st') : Mid s env sender untilE (done ++ [lp]) st' := by
  unfold Farm.claimStep at h
  simp only [bind_ok, pure_ok] at h
  obtain ⟨rc, hrc, s1, hs1, s2, hs2, rfl⟩ := h
  have hn1 : (st.1.farms.map (·.id)).Nodup := by rw [hm.ids]; exact hn
  have hs1' : rc.modified.foldlM Farm.modStep st.1 = .ok s1 := hs1
  obtain ⟨m1, m2, m3, m4, m5⟩ := Split.modFold_char _ hn1 hs1'
  have hst := syncHistory_sameStore hs2
  obtain ⟨y6, _⟩ := Farm.sync_frame hs2
  obtain ⟨hne, hcase⟩ := sync_true_cases2 hs2
  -- the calculation is the one of the pre-state
  have hcalc : calculateRewards s env lp sender untilE = .ok rc := by
    rw [← hrc]
    symm
    apply calculateRewards_congr
    · unfold FmState.farmsByLp
      rw [hm.farmsKeep lp hlp, hm.config]
    · rw [hm.last]
    · exact hm.histOther sender lp (Or.inr hlp)
    · exact hm.histOther env.self lp (Or.inr hlp)
  -- histories after the compaction
  have hh2 : ∀ a d, (a, d) ≠ (sender, lp) → s2.hist a d = st.1.hist a d := by
    intro a d hne'
    rw [← m2]
    rcases hcase with ⟨e, _⟩ | ⟨e, _⟩
    · rw [e]
    · rw [e, WSys.setHist_hist, if_neg]
      rintro ⟨rfl, rfl⟩
      exact hne' rfl
  have hs1h : s1.hist sender lp = s.hist sender lp := by
    rw [m2]; exact hm.histOther sender lp (Or.inr hlp)
  refine ⟨?_, ?_, ?_, ?_, ?_, ?_, ?_, ?_, ?_, ?_⟩
  · show s2.config = s.config
    rw [hst.2.2.2, m5, hm.config]
  · show s2.lastClaimed = s.lastClaimed
    rw [(Farm.sync_frame hs2).2, m3, hm.last]
  · show s2.positions = s.positions
    rw [hst.1, m4, hm.positions]
  · show s2.posCounter = s.posCounter
    rw [hst.2.2.1]
    have : s1.posCounter = st.1.posCounter := by
      refine foldlM_inv (fun (x : FmState) => x.posCounter = st.1.posCounter) _ ?_ _ _ _ rfl hs1'
      intro b m b' hb hmm
      unfold Farm.modStep at hmm
      simp only [bind_ok, FH.error_bind, ite_error_ok, pure_ok, ckAdd_ok] at hmm
      obtain ⟨f, _, c, _, _, rfl⟩ := hmm
      rw [FmSys.saveFarm_posCounter]; exact hb
    rw [this, hm.posCounter]
  · show s2.farms.map (·.id) = s.farms.map (·.id)
    rw [hst.2.1, m1, Split.map_addC_ids, hm.ids]
  · intro lp' hlp'
    show s2.farms.filter (·.lpDenom == lp') = _
    have hlp'1 : lp' ∉ done := fun hx => hlp' (List.mem_append_left _ hx)
    have hlp'2 : lp' ≠ lp := fun hx => hlp' (by rw [hx]; exact List.mem_append_right _ (List.mem_singleton.2 rfl))
    rw [hst.2.1, m1, List.filter_map, ← hm.farmsKeep lp' hlp'1]
    have : ∀ q ∈ st.1.farms.filter ((fun (x : Farm) => x.lpDenom == lp') ∘ Split.addC (Split.modTotal rc.modified)),
        Split.addC (Split.modTotal rc.modified) q = q := by
      intro q hq
      obtain ⟨hq1, hq2⟩ := List.mem_filter.1 hq
      have hq3 : q.lpDenom = lp' := by simpa [Function.comp, Split.addC] using hq2
      apply addC_self
      apply modTotal_zero
      intro m hmm hid
      obtain ⟨f, hf1, hf2, hf3⟩ := calculateRewards_modified hrc m hmm
      have := FH.nodup_key_inj Farm.id st.1.farms hn1 f hf1 q hq1 (by rw [hf3, hid])
      subst this
      exact hlp'2 (hq3.symm.trans hf2)
    rw [List.map_congr_left this, List.map_id']
    rfl
  · intro a lp' hor
    show s2.hist a lp' = s.hist a lp'
    have hne' : (a, lp') ≠ (sender, lp) := by
      intro e
      simp only [Prod.mk.injEq] at e
      rcases hor with h1 | h1
      · exact h1 e.1
      · exact h1 (by rw [e.2]; exact List.mem_append_right _ (List.mem_singleton.2 rfl))
    rw [hh2 a lp' hne']
    apply hm.histOther a lp'
    rcases hor with h1 | h1
    · exact Or.inl h1
    · exact Or.inr (fun hx => h1 (List.mem_append_left _ hx))
  · intro lp' hlp'
    show s.hist sender lp' ≠ [] ∧ ((s2.hist sender lp' = _ ∧ _) ∨ (s2.hist sender lp' = _ ∧ _))
    rcases List.mem_append.1 hlp' with hd | hd
    · have hne' : (sender, lp') ≠ (sender, lp) := by
        intro e
        simp only [Prod.mk.injEq, true_and] at e
        exact hlp (e ▸ hd)
      rw [hh2 sender lp' hne']
      exact hm.histDone lp' hd
    · simp only [List.mem_singleton] at hd
      subst hd
      rw [hs1h] at hne hcase
      refine ⟨hne, ?_⟩
      rcases hcase with ⟨e, hall⟩ | ⟨e, hex⟩
      · left
        rw [e]
        exact ⟨hs1h, hall⟩
      · right
        rw [e, WSys.setHist_hist, if_pos ⟨rfl, rfl⟩]
        exact ⟨rfl, hex⟩
  · intro lp' hlp'
    rcases List.mem_append.1 hlp' with hd | hd
    · exact hm.calcOk lp' hd
    · simp only [List.mem_singleton] at hd
      subst hd
      exact ⟨rc, hcalc⟩
  · intro d
    show C05.coinsOf (st.2 ++ rc.rewards) d = _
    rw [C05.coinsOf_append, hm.coins d, List.map_append, List.sum_append]
    simp only [List.map_cons, List.map_nil, List.sum_cons, List.sum_nil, Nat.add_zero]
    rw [lpRewards_of_ok hcalc]

theorem mid_fold {s : FmState} {env : FmEnv} {sender : Addr} {untilE : Nat} (hn : (s.farms.map (·.id)).Nodup) :
    ∀ (rest done : List Denom) (st st' : FmState × List Coin), (done ++ rest).Nodup →
    Mid s env sender untilE done st → rest.foldlM (Farm.claimStep env sender untilE) st = .ok st' →
    Mid s env sender untilE (done ++ rest) st' := by
  intro rest
  induction rest with
  | nil =>
    intro done st st' _ hm h
    simp only [List.foldlM_nil, pure_ok] at h
    subst h
    rw [List.append_nil]; exact hm
  | cons lp rest ih =>
    intro done st st' hnd hm h
    simp only [List.foldlM_cons, bind_ok] at h
    obtain ⟨st1, h1, h2⟩ := h
    have hlp : lp ∉ done := by
      intro hx
      rw [List.nodup_append] at hnd
      exact hnd.2.2 lp hx lp List.mem_cons_self rfl
    have := ih (done ++ [lp]) st1 st' (by rw [List.append_assoc]; exact hnd) (mid_step hn hm hlp h1) h2
    rw [List.append_assoc] at this
    exact this

/-- an accepted claim in closed form -/
theorem claim_run {s s' : FmState} {env : FmEnv} {sender : Addr} {funds : List Coin} {u : Option Nat}
    {r : Response} (hn : (s.farms.map (·.id)).Nodup) (h : fmClaim s env sender funds u = .ok (s', r)) :
    ∃ cur untilE sF total, (s.positionsBy sender true).isEmpty = false ∧
      fmCurrentEpoch s env = .ok cur ∧ untilEpochOrCurrent u cur = .ok untilE ∧ untilE ≤ cur ∧
      Mid s env sender untilE (uniqueDenoms (s.positionsBy sender true)) (sF, total) ∧
      s' = { sF with lastClaimed := fun a => if a = sender then some untilE else sF.lastClaimed a } ∧
      (∀ d, C05.outflow r.msgs d = C05.coinsOf total d) := by
  obtain ⟨cur, untilE, sF, total, msgs, _, hop, hcur, hun, hfold, rfl, rfl, hm⟩ := Farm.fmClaim_ok h
  have hmid := mid_fold hn _ [] _ _ (by rw [List.nil_append]; exact uniqueDenoms_nodup _)
    (mid_init s env sender untilE) hfold
  rw [List.nil_append] at hmid
  refine ⟨cur, untilE, sF, total, hop, hcur, hun, (Farm.untilEpochOrCurrent_ok hun).1, hmid, rfl, ?_⟩
  intro d
  unfold Response.ofMsgs
  simp only
  rw [C05.outflow_ofMsgs]
  rcases hm with ⟨hte, rfl⟩ | ⟨hte, agg, hagg, rfl⟩
  · have : total = [] := List.isEmpty_iff.1 hte
    rw [this, C05.coinsOf_nil]; rfl
  · simp only [List.map_cons, List.map_nil, List.sum_cons, List.sum_nil, C05.msgOut, Nat.add_zero]
    exact C05.aggregateCoins_coinsOf hagg d

end MantraDex.LedSys
