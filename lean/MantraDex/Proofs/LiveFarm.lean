/-
  Liveness of `CloseFarm` (C02Live.close_farm_live): the handler accepts an authorised sender, and the single
  reply-on-error refund can never make the transaction fail.
-/
import MantraDex.Model.System
import MantraDex.Proofs.NumLemmas
import MantraDex.Proofs.BankLemmas
import MantraDex.Proofs.FarmTxLemmas

set_option linter.unusedSimpArgs false
set_option linter.unusedVariables false

namespace MantraDex.Live
open MantraDex

/-- with distinct identifiers, looking a stored farm up by its identifier finds that farm -/
theorem getFarm_of_mem {s : FmState} {f : Farm} (hn : (s.farms.map (·.id)).Nodup) (hf : f ∈ s.farms) :
    s.getFarm f.id = .ok f := by
  unfold FmState.getFarm
  cases hfind : s.farms.find? (·.id == f.id) with
  | none =>
    rw [List.find?_eq_none] at hfind
    have := hfind f hf
    simp at this
  | some g =>
    have hg := List.mem_of_find?_eq_some hfind
    have hid : g.id = f.id := by simpa using List.find?_some hfind
    rw [FH.nodup_key_inj (·.id) _ hn g hg f hf hid]

/-- the reply-on-error refund of a closing farm never fails the transaction -/
theorem execSubs_refund_ok (n : Nat) (w : World) (to : Addr) (cs : List Coin) :
    ∃ w', execSubs (n + 2) w FM
      [{ msg := .bankSend to cs, replyOn := .error, id := C.CLOSE_FARMS_ERR_REPLY_CODE }] = .ok w' ∧
      w'.fm = w.fm := by
  cases hs : w.bank.send FM to cs with
  | error e =>
    have he : execMsg (n + 1) w FM (.bankSend to cs) = .error e := by
      simp only [execMsg, hs]; rfl
    rw [C20.failed_refund_tolerated n w to cs [] e he]
    refine ⟨{ w with bank := { w.bank with calls := w.bank.calls + 1 } }, ?_, rfl⟩
    simp only [execSubs]
  | ok b =>
    have he : execMsg (n + 1) w FM (.bankSend to cs) = .ok { w with bank := b } := by
      simp only [execMsg, hs]; rfl
    refine ⟨{ w with bank := b }, ?_, rfl⟩
    rw [execSubs]
    simp only [he, ReplyOn.onSuccess, Bool.false_eq_true, if_false]
    simp only [execSubs]

/-- the handler accepts the farm's owner and the contract owner -/
theorem closeFarm_ok {s : FmState} {f : Farm} {u : Addr} (hf : s.getFarm f.id = .ok f)
    (hauth : u = f.owner ∨ s.owner.owner = some u) :
    closeFarm s u [] f.id =
      .ok ((closeFarms s [f]).1, { msgs := (closeFarms s [f]).2, attrs := [("action", "close_farm")] }) := by
  unfold closeFarm
  have hc : (!(f.owner == u || s.owner.owner == some u)) = false := by
    rcases hauth with rfl | h
    · simp
    · simp [h]
  simp only [nonpayable, List.isEmpty_nil, if_true, ok_bind, hf, hc, Bool.false_eq_true, if_false, pure_bind']
  rfl

/-- a `CloseFarm` transaction of an authorised sender is accepted, and the farm is gone afterwards -/
theorem close_farm_live_run {w : World} {f : Farm} {u : Addr} (hn : (w.fm.farms.map (·.id)).Nodup)
    (hf : f ∈ w.fm.farms) (hauth : u = f.owner ∨ w.fm.owner.owner = some u) :
    ∃ w', runTx w (.exec u FM (.fm (.closeFarm f.id)) []) = .ok w' ∧
      w'.fm = { w.fm with farms := w.fm.farms.filter (·.id != f.id) } := by
  have hg := getFarm_of_mem hn hf
  unfold runTx
  simp only
  have h64 : FUEL = 63 + 1 := rfl
  rw [h64, execMsg_fm_eq]
  simp only [fmExecute]
  have hx : closeFarm w.fm u [] f.id = _ := closeFarm_ok hg hauth
  have hx' : closeFarm ({ w with bank := { w.bank with calls := 0, failAt := none } } : World).fm u [] f.id = _ := hx
  rw [hx']
  simp only [ok_bind]
  rw [FarmTx.closeFarms_single]
  simp only
  by_cases hrem : f.assetAmount - f.claimed > 0
  · rw [if_pos hrem]
    obtain ⟨w', hw', hfm⟩ := execSubs_refund_ok 61
      { w with bank := { w.bank with calls := 0, failAt := none },
               fm := { w.fm with farms := w.fm.farms.filter (·.id != f.id) } } f.owner
      [⟨f.assetDenom, f.assetAmount - f.claimed⟩]
    exact ⟨w', hw', hfm⟩
  · rw [if_neg hrem]
    refine ⟨{ w with bank := { w.bank with calls := 0, failAt := none },
                     fm := { w.fm with farms := w.fm.farms.filter (·.id != f.id) } }, ?_, rfl⟩
    simp only [execSubs]

end MantraDex.Live
