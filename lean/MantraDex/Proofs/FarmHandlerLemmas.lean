/-
  Shared inversion lemmas for the farm-manager handlers (used by C11 and C05).
-/
import MantraDex.Model.System
import MantraDex.Proofs.NumLemmas

set_option linter.unusedSimpArgs false

namespace MantraDex.FH
open MantraDex

theorem error_bind {α β : Type} (e : Err) (f : α → R β) :
    ((Except.error e : R α) >>= f) = Except.error e := rfl

theorem ite_err_ok {α : Type} {c : Prop} [Decidable c] {e : Err} {x : R α} {y : α} :
    (if c then (Except.error e : R α) else x) = .ok y ↔ ¬ c ∧ x = .ok y := by
  split <;> simp [*]

theorem ite_ok_err {α : Type} {c : Prop} [Decidable c] {e : Err} {x : R α} {y : α} :
    (if c then x else (Except.error e : R α)) = .ok y ↔ c ∧ x = .ok y := by
  split <;> simp [*]

/-! ### `create_farm` -/

def cfFarms (s : FmState) (p : FarmParams) : List Farm :=
  s.farmsByLp p.lpDenom s.config.maxConcurrentFarms

def cfExpired (s : FmState) (p : FarmParams) (flags : List Bool) : List Farm :=
  ((cfFarms s p).zip flags).filter (·.2) |>.map (·.1)

def cfLive (s : FmState) (p : FarmParams) (flags : List Bool) : List Farm :=
  ((cfFarms s p).zip flags).filter (!·.2) |>.map (·.1)

def cfIdState (s1 : FmState) (p : FarmParams) : String × FmState :=
  match p.farmId with
  | some i => (C.EXPLICIT_FARM_ID_PREFIX ++ i, s1)
  | none => (C.AUTO_FARM_ID_PREFIX ++ toString (s1.farmCounter + 1),
              { s1 with farmCounter := s1.farmCounter + 1 })

theorem cfIdState_fst (s1 : FmState) (p : FarmParams) : (cfIdState s1 p).1 =
    (match p.farmId with
      | some i => C.EXPLICIT_FARM_ID_PREFIX ++ i
      | none => C.AUTO_FARM_ID_PREFIX ++ toString (s1.farmCounter + 1)) := by
  unfold cfIdState; split <;> rfl

theorem cfIdState_farms (s1 : FmState) (p : FarmParams) : (cfIdState s1 p).2.farms = s1.farms := by
  unfold cfIdState; split <;> rfl

theorem cfIdState_positions (s1 : FmState) (p : FarmParams) :
    (cfIdState s1 p).2.positions = s1.positions := by
  unfold cfIdState; split <;> rfl

theorem cfIdState_config (s1 : FmState) (p : FarmParams) : (cfIdState s1 p).2.config = s1.config := by
  unfold cfIdState; split <;> rfl

theorem createFarm_inv {s s' : FmState} {env : FmEnv} {sender : Addr} {funds : List Coin}
    {p : FarmParams} {r : Response} (h : createFarm s env sender funds p = .ok (s', r)) :
    ∃ cur flags feeMsgs start end_ rate,
      fmCurrentEpoch s env = .ok cur ∧
      (cfFarms s p).mapM (fun f => isFarmExpiredOrFalse s env f) = .ok flags ∧
      (cfLive s p flags).length < s.config.maxConcurrentFarms ∧
      C.MIN_FARM_AMOUNT ≤ p.asset.amount ∧
      (if s.config.createFarmFee.amount ≠ 0 then
          processFarmCreationFee s.config sender funds p.asset else pure []) = .ok feeMsgs ∧
      assertFarmAsset funds s.config.createFarmFee p.asset = .ok () ∧
      validateFarmEpochs p cur s.config.maxFarmEpochBuffer = .ok (start, end_) ∧
      divFloorFrac U128_MAX p.asset.amount (end_ - start) 1 = .ok rate ∧
      ((cfIdState (closeFarms s (cfExpired s p flags)).1 p).2.farms.any
          (·.id == (cfIdState (closeFarms s (cfExpired s p flags)).1 p).1)) = false ∧
      s' = (cfIdState (closeFarms s (cfExpired s p flags)).1 p).2.saveFarm
            { id := (cfIdState (closeFarms s (cfExpired s p flags)).1 p).1, owner := sender,
              lpDenom := p.lpDenom, assetDenom := p.asset.denom, assetAmount := p.asset.amount,
              claimed := 0, emissionRate := rate, startEpoch := start, endEpoch := end_ } ∧
      r = { msgs := (feeMsgs.map fun m => ({ msg := m } : SubMsg)) ++
                      (closeFarms s (cfExpired s p flags)).2,
            attrs := [("action", "create_farm")] } := by
  unfold createFarm at h
  simp only [error_bind, ite_err_ok, bind_ok] at h
  obtain ⟨_, cur, hcur, flags, hflags, hlive, hmin, h⟩ := h
  refine ⟨cur, flags, ?_⟩
  change ¬ (cfLive s p flags).length ≥ _ at hlive
  by_cases hfee : s.config.createFarmFee.amount ≠ 0
  · rw [if_pos hfee] at h
    simp only [error_bind, ite_err_ok, bind_ok, pure_ok] at h
    obtain ⟨feeMsgs, hfm, _, hassert, ⟨start, end_⟩, hval, _, _, hany, rate, hrate, h⟩ := h
    simp only [Prod.mk.injEq] at h
    refine ⟨feeMsgs, start, end_, rate, hcur, hflags, Nat.lt_of_not_le hlive, Nat.le_of_not_lt hmin,
      by rw [if_pos hfee]; exact hfm, ?_, hval, hrate, ?_, h.1, h.2⟩
    · cases ‹Unit›; exact hassert
    · exact Bool.eq_false_iff.2 hany
  · rw [if_neg hfee] at h
    simp only [error_bind, ite_err_ok, bind_ok, pure_ok] at h
    obtain ⟨feeMsgs, hfm, _, hassert, ⟨start, end_⟩, hval, _, _, hany, rate, hrate, h⟩ := h
    simp only [Prod.mk.injEq] at h
    refine ⟨feeMsgs, start, end_, rate, hcur, hflags, Nat.lt_of_not_le hlive, Nat.le_of_not_lt hmin,
      by rw [if_neg hfee]; simp only [pure_ok]; exact hfm, ?_, hval, hrate, ?_, h.1, h.2⟩
    · cases ‹Unit›; exact hassert
    · exact Bool.eq_false_iff.2 hany

theorem validateFarmEpochs_ok {p : FarmParams} {cur buffer start end_ : Nat}
    (h : validateFarmEpochs p cur buffer = .ok (start, end_)) :
    cur < start ∧ start < end_ ∧ start ≤ cur + buffer := by
  unfold validateFarmEpochs at h
  simp only [error_bind, ite_err_ok, bind_ok, pure_ok, fit_ok, ckAdd_ok, Prod.mk.injEq] at h
  obtain ⟨_, ⟨_, rfl⟩, h1, _, ⟨_, rfl⟩, h2, _, _, ⟨_, rfl⟩, h3, rfl, rfl⟩ := h
  omega

/-! ### generic list facts -/

theorem mapM_ok_zip {α β : Type} (f : α → R β) : ∀ (l : List α) (bs : List β), l.mapM f = .ok bs →
    l.length = bs.length ∧ ∀ x ∈ l.zip bs, f x.1 = .ok x.2 := by
  intro l
  induction l with
  | nil => intro bs h; simp [pure, Except.pure] at h; subst h; simp
  | cons a l ih =>
    intro bs h
    rw [List.mapM_cons] at h
    simp only [bind_ok, pure_ok] at h
    obtain ⟨b, hb, bs', hbs, rfl⟩ := h
    obtain ⟨hl, hz⟩ := ih bs' hbs
    refine ⟨by simp [hl], ?_⟩
    intro x hx
    simp only [List.zip_cons_cons, List.mem_cons] at hx
    rcases hx with rfl | hx
    · exact hb
    · exact hz x hx

theorem zip_filter_len {α : Type} (q : α → Bool) : ∀ (l : List α) (bs : List Bool),
    l.length = bs.length → (∀ x ∈ l.zip bs, q x.1 = true → x.2 = false) →
    (l.filter q).length ≤ (((l.zip bs).filter (!·.2)).map (·.1)).length := by
  intro l
  induction l with
  | nil => intro bs _ _; simp
  | cons a l ih =>
    intro bs hl hq
    cases bs with
    | nil => simp at hl
    | cons b bs =>
      have hl' : l.length = bs.length := by simpa using hl
      have ih' := ih bs hl' (fun x hx => hq x (by simp [hx]))
      simp only [List.length_map] at ih' ⊢
      simp only [List.zip_cons_cons, List.filter_cons]
      by_cases hqa : q a = true
      · have : b = false := hq (a, b) (by simp) hqa
        simp [hqa, this]; omega
      · cases b <;> simp [hqa] <;> omega

theorem zip_filter_sublist {α : Type} (q : α × Bool → Bool) : ∀ (l : List α) (bs : List Bool),
    (((l.zip bs).filter q).map (·.1)).Sublist l := by
  intro l
  induction l with
  | nil => intro bs; simp
  | cons a l ih =>
    intro bs
    cases bs with
    | nil => simp
    | cons b bs =>
      simp only [List.zip_cons_cons, List.filter_cons]
      split
      · simp only [List.map_cons]; exact (ih bs).cons_cons a
      · exact (ih bs).cons a

/-- find on a singleton-length list -/
theorem find_single {α : Type} {p : α → Bool} {l : List α} {c : α} (hl : l.length = 1)
    (h : l.find? p = some c) : l = [c] := by
  match l, hl with
  | [x], _ =>
    simp only [List.find?_cons] at h
    split at h
    · simp at h; simp [h]
    · simp at h

/-! ### sorted insertion / keyed replacement as permutations (`k` = the identifier) -/

theorem insertFarmSorted_perm (f : Farm) : ∀ l : List Farm, (insertFarmSorted f l).Perm (f :: l)
  | [] => List.Perm.refl _
  | x :: xs => by
    unfold insertFarmSorted
    split
    · exact List.Perm.refl _
    · exact ((insertFarmSorted_perm f xs).cons x).trans (List.Perm.swap f x xs)

theorem insertPosSorted_perm (p : Position) : ∀ l : List Position, (insertPosSorted p l).Perm (p :: l)
  | [] => List.Perm.refl _
  | x :: xs => by
    unfold insertPosSorted
    split
    · exact List.Perm.refl _
    · exact ((insertPosSorted_perm p xs).cons x).trans (List.Perm.swap p x xs)

theorem filter_key_ne_self {α : Type} (k : α → String) (l : List α) (kx : String)
    (h : kx ∉ l.map k) : l.filter (fun q => k q != kx) = l := by
  apply List.filter_eq_self.2
  intro a ha
  simp only [bne_iff_ne, ne_eq]
  intro hk
  exact h (hk ▸ List.mem_map_of_mem ha)

theorem map_replace_self {α : Type} (k : α → String) (l : List α) (kx : String) (y : α)
    (h : kx ∉ l.map k) : l.map (fun q => if k q == kx then y else q) = l := by
  conv => rhs; rw [← List.map_id l]
  apply List.map_congr_left
  intro a ha
  have : k a ≠ kx := fun hk => h (hk ▸ List.mem_map_of_mem ha)
  simp [this]

/-- `find?` by key after replacing the first element found with that key -/
theorem find_map_replace {α : Type} {k : α → String} : ∀ (l : List α) (x y : α), k y = k x →
    l.find? (fun q => k q == k x) = some x →
    (l.map (fun q => if k q == k x then y else q)).find? (fun q => k q == k x) = some y := by
  intro l
  induction l with
  | nil => intro x y _ h; simp at h
  | cons a l ih =>
    intro x y hk h
    rw [List.find?_cons] at h
    rw [List.map_cons, List.find?_cons]
    by_cases ha : (k a == k x) = true
    · simp only [ha, if_true, hk, beq_self_eq_true]
    · simp only [ha] at h
      simp only [ha, Bool.false_eq_true, if_false]
      exact ih x y hk h

/-- an element of a list with distinct keys can be pulled to the front -/
theorem perm_cons_filter_key {α : Type} (k : α → String) : ∀ (l : List α) (x : α),
    (l.map k).Nodup → x ∈ l → l.Perm (x :: l.filter (fun q => k q != k x)) := by
  intro l
  induction l with
  | nil => intro x _ hx; simp at hx
  | cons a l ih =>
    intro x hn hx
    simp only [List.map_cons, List.nodup_cons] at hn
    obtain ⟨hna, hnl⟩ := hn
    rcases List.mem_cons.1 hx with rfl | hx'
    · rw [List.filter_cons]
      simp only [bne_self_eq_false, Bool.false_eq_true, if_false]
      rw [filter_key_ne_self k l (k x) hna]
    · have hne : k a ≠ k x := fun hk => hna (hk ▸ List.mem_map_of_mem hx')
      rw [List.filter_cons]
      simp only [bne_iff_ne, ne_eq, hne, not_false_eq_true, decide_true, if_true]
      exact ((ih x hnl hx').cons a).trans (List.Perm.swap x a _)

/-- replacing the element with key `kx` (distinct keys) -/
theorem map_replace_perm {α : Type} (k : α → String) (y : α) : ∀ (l : List α) (x : α),
    (l.map k).Nodup → x ∈ l →
    (l.map (fun q => if k q == k x then y else q)).Perm (y :: l.filter (fun q => k q != k x)) := by
  intro l
  induction l with
  | nil => intro x _ hx; simp at hx
  | cons a l ih =>
    intro x hn hx
    simp only [List.map_cons, List.nodup_cons] at hn
    obtain ⟨hna, hnl⟩ := hn
    rcases List.mem_cons.1 hx with rfl | hx'
    · rw [List.filter_cons, List.map_cons]
      simp only [bne_self_eq_false, Bool.false_eq_true, if_false, beq_self_eq_true, if_true]
      rw [filter_key_ne_self k l (k x) hna, map_replace_self k l (k x) y hna]
    · have hne : k a ≠ k x := fun hk => hna (hk ▸ List.mem_map_of_mem hx')
      rw [List.filter_cons, List.map_cons]
      have hb : (k a == k x) = false := by simp [hne]
      have hb' : (k a != k x) = true := by simp [hne]
      simp only [hb, hb', Bool.false_eq_true, if_false, if_true]
      exact ((ih x hnl hx').cons a).trans (List.Perm.swap y a _)

/-- removing a sublist by key (distinct keys) -/
theorem sublist_perm_append_filter {α : Type} (k : α → String) {fs l : List α} (hs : fs.Sublist l) :
    (l.map k).Nodup → l.Perm (fs ++ l.filter (fun g => !(fs.any (fun f => k f == k g)))) := by
  induction hs with
  | slnil => intro _; exact List.Perm.refl _
  | @cons fs l a hs ih =>
    intro hn
    simp only [List.map_cons, List.nodup_cons] at hn
    obtain ⟨hna, hnl⟩ := hn
    have hkeep : (!(fs.any (fun f => k f == k a))) = true := by
      simp only [Bool.not_eq_true', List.any_eq_false, beq_iff_eq]
      intro f hf hk
      exact hna (hk ▸ List.mem_map_of_mem (hs.subset hf))
    rw [List.filter_cons, if_pos hkeep]
    exact ((ih hnl).cons a).trans List.perm_middle.symm
  | @cons_cons fs l a hs ih =>
    intro hn
    simp only [List.map_cons, List.nodup_cons] at hn
    obtain ⟨hna, hnl⟩ := hn
    rw [List.filter_cons]
    simp only [List.any_cons, beq_self_eq_true, Bool.true_or, Bool.not_true, Bool.false_eq_true, if_false,
      List.cons_append]
    refine List.Perm.cons a ?_
    have : l.filter (fun g => !(k a == k g || fs.any (fun f => k f == k g)))
        = l.filter (fun g => !(fs.any (fun f => k f == k g))) := by
      apply List.filter_congr
      intro g hg
      have : k a ≠ k g := fun hk => hna (hk ▸ List.mem_map_of_mem hg)
      simp [this]
    rw [this]
    exact ih hnl

/-! ### `close_farms` -/

def closeStep (st : FmState × List SubMsg) (f : Farm) : FmState × List SubMsg :=
  if f.assetAmount - f.claimed > 0 then
    ({ st.1 with farms := st.1.farms.filter (·.id != f.id) },
      st.2 ++ [{ msg := .bankSend f.owner [⟨f.assetDenom, f.assetAmount - f.claimed⟩], replyOn := .error,
                 id := C.CLOSE_FARMS_ERR_REPLY_CODE }])
  else ({ st.1 with farms := st.1.farms.filter (·.id != f.id) }, st.2)

theorem closeFarms_eq (s : FmState) (fs : List Farm) :
    closeFarms s fs = fs.foldl closeStep (s, []) := rfl

theorem closeStep_fold (fs : List Farm) : ∀ (st : FmState × List SubMsg),
    ((fs.foldl closeStep st).2.map (·.msg)) = st.2.map (·.msg) ++
      (fs.filter (fun f => f.assetAmount - f.claimed > 0)).map
        (fun f => Msg.bankSend f.owner [⟨f.assetDenom, f.assetAmount - f.claimed⟩]) ∧
    (fs.foldl closeStep st).1.farms = st.1.farms.filter (fun g => !(fs.any (·.id == g.id))) ∧
    (fs.foldl closeStep st).1.positions = st.1.positions ∧
    (fs.foldl closeStep st).1.config = st.1.config ∧
    (fs.foldl closeStep st).1.farmCounter = st.1.farmCounter := by
  induction fs with
  | nil => intro st; exact ⟨by simp, (List.filter_eq_self.2 (fun _ _ => rfl)).symm, rfl, rfl, rfl⟩
  | cons f fs ih =>
    intro st
    rw [List.foldl_cons]
    obtain ⟨h1, h2, h3, h4, h5⟩ := ih (closeStep st f)
    rw [h1, h2, h3, h4, h5]
    refine ⟨?_, ?_, ?_, ?_, ?_⟩
    · unfold closeStep
      by_cases hr : f.assetAmount - f.claimed > 0
      · simp [hr, List.filter_cons]
      · simp [hr, List.filter_cons]
    · have : (closeStep st f).1.farms = st.1.farms.filter (·.id != f.id) := by
        unfold closeStep; split <;> rfl
      rw [this, List.filter_filter]
      apply List.filter_congr
      intro g _
      simp only [List.any_cons, Bool.not_or]
      rw [Bool.and_comm]
      congr 1
      simp [bne, BEq.comm]
    · unfold closeStep; split <;> rfl
    · unfold closeStep; split <;> rfl
    · unfold closeStep; split <;> rfl

theorem closeFarms_spec (s : FmState) (fs : List Farm) :
    ((closeFarms s fs).2.map (·.msg)) =
      (fs.filter (fun f => f.assetAmount - f.claimed > 0)).map
        (fun f => Msg.bankSend f.owner [⟨f.assetDenom, f.assetAmount - f.claimed⟩]) ∧
    (closeFarms s fs).1.farms = s.farms.filter (fun g => !(fs.any (·.id == g.id))) ∧
    (closeFarms s fs).1.positions = s.positions ∧
    (closeFarms s fs).1.config = s.config ∧
    (closeFarms s fs).1.farmCounter = s.farmCounter := by
  rw [closeFarms_eq]
  have := closeStep_fold fs (s, [])
  simpa using this

/-! ### frame lemmas: the weight-history helpers never touch positions or farms -/

theorem syncHistory_frame {s s' : FmState} {a : Addr} {lp : Denom} {e : Nat} {save : Bool}
    (h : syncHistory s a lp e save = .ok s') : s'.positions = s.positions ∧ s'.farms = s.farms := by
  unfold syncHistory at h
  simp only [error_bind, ite_err_ok, bind_ok, pure_ok] at h
  obtain ⟨_, h⟩ := h
  split at h
  · simp only [pure_ok] at h; subst h; exact ⟨rfl, rfl⟩
  · split at h
    · simp only [pure_ok] at h; subst h; exact ⟨rfl, rfl⟩
    · simp only [pure_ok] at h; subst h; exact ⟨rfl, rfl⟩

theorem updateWeights_frame {s s' : FmState} {env : FmEnv} {recv : Addr} {lp : Denom} {amt unl : Nat}
    {fill : Bool} (h : updateWeights s env recv lp amt unl fill = .ok s') :
    s'.positions = s.positions ∧ s'.farms = s.farms := by
  unfold updateWeights at h
  cases fill <;> simp only [bind_ok, pure_ok, if_true, if_false, Bool.false_eq_true] at h
  · obtain ⟨_, _, _, _, _, _, _, _, _, _, rfl⟩ := h
    exact ⟨rfl, rfl⟩
  · obtain ⟨_, _, _, _, _, _, _, _, _, _, rfl⟩ := h
    exact ⟨rfl, rfl⟩

theorem reconcileUserState_frame {s s' : FmState} {env : FmEnv} {recv : Addr} {lp : Denom}
    (h : reconcileUserState s env recv lp = .ok s') :
    s'.positions = s.positions ∧ s'.farms = s.farms := by
  have key : ∀ s1 : FmState, s1.positions = s.positions → s1.farms = s.farms →
      (if ((s.positionsBy recv true).filter (·.lpDenom == lp)).isEmpty && !(s1.hist recv lp).isEmpty then do
          let cur ← fmCurrentEpoch s1 env
          syncHistory s1 recv lp cur false
        else pure s1) = .ok s' → s'.positions = s.positions ∧ s'.farms = s.farms := by
    intro s1 hp hf h
    split at h
    · simp only [bind_ok] at h
      obtain ⟨_, _, h⟩ := h
      obtain ⟨h1, h2⟩ := syncHistory_frame h
      rw [h1, h2]; exact ⟨hp, hf⟩
    · simp only [pure_ok] at h; subst h; exact ⟨hp, hf⟩
  unfold reconcileUserState at h
  exact key _ (by split <;> rfl) (by split <;> rfl) h
/-! ### `savePosition` / `saveFarm` / lookups -/

theorem getPosition_some {s : FmState} {id : String} {p : Position} (h : s.getPosition id = some p) :
    p ∈ s.positions ∧ p.id = id := by
  unfold FmState.getPosition at h
  exact ⟨List.mem_of_find?_eq_some h, by simpa using List.find?_some h⟩

theorem getPosition_none {s : FmState} {id : String} (h : s.getPosition id = none) :
    s.positions.any (·.id == id) = false := by
  unfold FmState.getPosition at h
  rw [List.find?_eq_none] at h
  apply List.any_eq_false.2
  intro x hx; exact h x hx

theorem getPosition_none_notin {s : FmState} {id : String} (h : s.getPosition id = none) :
    id ∉ s.positions.map (·.id) := by
  intro hm
  obtain ⟨x, hx, rfl⟩ := List.mem_map.1 hm
  have := List.any_eq_false.1 (getPosition_none h) x hx
  simp at this

theorem getFarm_ok {s : FmState} {id : String} {f : Farm} (h : s.getFarm id = .ok f) :
    f ∈ s.farms ∧ f.id = id := by
  unfold FmState.getFarm at h
  split at h
  next f0 hfind =>
    simp only [Except.ok.injEq] at h; subst h
    exact ⟨List.mem_of_find?_eq_some hfind, by simpa using List.find?_some hfind⟩
  next => cases h

theorem savePosition_farms (s : FmState) (p : Position) : (s.savePosition p).farms = s.farms := by
  unfold FmState.savePosition; split <;> rfl

theorem saveFarm_positions (s : FmState) (f : Farm) : (s.saveFarm f).positions = s.positions := by
  unfold FmState.saveFarm; split <;> rfl

theorem savePosition_perm_new {s : FmState} {p : Position} (h : s.getPosition p.id = none) :
    (s.savePosition p).positions.Perm (p :: s.positions) := by
  unfold FmState.savePosition
  rw [if_neg (by rw [getPosition_none h]; simp)]
  exact insertPosSorted_perm _ _

theorem savePosition_perm_replace {s : FmState} {p p0 : Position}
    (hn : (s.positions.map (·.id)).Nodup) (hp0 : p0 ∈ s.positions) (hid : p.id = p0.id) :
    (s.savePosition p).positions.Perm (p :: s.positions.filter (·.id != p0.id)) := by
  unfold FmState.savePosition
  have hany : (s.positions.any (·.id == p.id)) = true :=
    List.any_eq_true.2 ⟨p0, hp0, by simp [hid]⟩
  rw [if_pos hany, hid]
  exact map_replace_perm (k := Position.id) p s.positions p0 hn hp0

theorem saveFarm_perm_new {s : FmState} {f : Farm} (h : s.farms.any (·.id == f.id) = false) :
    (s.saveFarm f).farms.Perm (f :: s.farms) := by
  unfold FmState.saveFarm
  rw [if_neg (by rw [h]; simp)]
  exact insertFarmSorted_perm _ _

theorem saveFarm_perm_replace {s : FmState} {f f0 : Farm}
    (hn : (s.farms.map (·.id)).Nodup) (hf0 : f0 ∈ s.farms) (hid : f.id = f0.id) :
    (s.saveFarm f).farms.Perm (f :: s.farms.filter (·.id != f0.id)) := by
  unfold FmState.saveFarm
  have hany : (s.farms.any (·.id == f.id)) = true :=
    List.any_eq_true.2 ⟨f0, hf0, by simp [hid]⟩
  rw [if_pos hany, hid]
  exact map_replace_perm (k := Farm.id) f s.farms f0 hn hf0

/-- replacing a farm by one with the same id keeps the list of ids -/
theorem saveFarm_replace_map {β : Type} (g : Farm → β) {s : FmState} {f f0 : Farm} (hf0 : f0 ∈ s.farms)
    (hid : f.id = f0.id) (hg : ∀ q ∈ s.farms, q.id = f0.id → g f = g q) :
    (s.saveFarm f).farms.map g = s.farms.map g := by
  unfold FmState.saveFarm
  have hany : (s.farms.any (·.id == f.id)) = true :=
    List.any_eq_true.2 ⟨f0, hf0, by simp [hid]⟩
  rw [if_pos hany, hid]
  simp only [List.map_map]
  apply List.map_congr_left
  intro q hq
  simp only [Function.comp]
  split
  next h => exact hg q hq (by simpa using h)
  next => rfl

theorem oneCoin_ok {funds : List Coin} {c : Coin} (h : oneCoin funds = .ok c) : funds = [c] := by
  unfold oneCoin at h
  split at h
  · split at h
    · cases h
    · simp only [Except.ok.injEq] at h; rw [h]
  · cases h

theorem nonpayable_ok {funds : List Coin} {u : Unit} (h : nonpayable funds = .ok u) : funds = [] := by
  unfold nonpayable at h
  split at h
  · simpa using ‹funds.isEmpty = true›
  · cases h

/-! ### `calculate_rewards` / `claim` with named step functions -/

def crStep (s : FmState) (env : FmEnv) (lp : Denom) (receiver : Addr) (untilE : Nat) (last : Option Nat)
    (acc : List Coin × List (String × Nat) × List (String × Nat × Nat)) (f : Farm) :
    R (List Coin × List (String × Nat) × List (String × Nat × Nat)) := do
    if f.startEpoch > untilE then pure acc else
    let startFrom ← match last with
      | some l => pure (l + 1)
      | none => match histEarliest (s.hist receiver f.lpDenom) with
        | some (e, _) => pure e | none => .error .notFound
    let uw ← computeAddressWeights (s.hist receiver lp) startFrom untilE
    let cw ← computeContractWeights (s.hist env.self lp) startFrom untilE
    let terms ← farmRewardTerms f uw cw startFrom untilE
    let coins := (terms.filter (·.2 > 0)).map fun t => (⟨f.assetDenom, t.2⟩ : Coin)
    let sum ← terms.foldlM (fun a t => ckAdd U128_MAX a t.2) 0
    let modified := if terms.isEmpty then acc.2.1 else acc.2.1 ++ [(f.id, sum)]
    pure (acc.1 ++ coins, modified, acc.2.2 ++ terms.map fun t => (f.id, t.1, t.2))

theorem calculateRewards_eq (s : FmState) (env : FmEnv) (lp : Denom) (receiver : Addr) (untilE : Nat) :
    calculateRewards s env lp receiver untilE = (do
  let farms := s.farmsByLp lp s.config.maxConcurrentFarms
  let last := s.lastClaimed receiver
  let early ← match last with
    | some l => if untilE < l then .error .invalidInput else pure (untilE == l)
    | none => pure false
  if early then pure ⟨[], [], []⟩ else
  let r ← farms.foldlM (crStep s env lp receiver untilE last) ([], [], [])
  let agg ← aggregateCoins r.1
  pure ⟨agg, r.2.1, r.2.2⟩) := rfl

def claimModStep (s1 : FmState) (m : String × Nat) : R FmState := do
      let f ← s1.getFarm m.1
      let c ← ckAdd U128_MAX f.claimed m.2
      if c > f.assetAmount then .error .exhausted
      pure (s1.saveFarm { f with claimed := c })

def claimStep (env : FmEnv) (sender : Addr) (untilE : Nat) (st : FmState × List Coin) (lp : Denom) :
    R (FmState × List Coin) := do
    let rc ← calculateRewards st.1 env lp sender untilE
    let s1 ← rc.modified.foldlM claimModStep st.1
    let s2 ← syncHistory s1 sender lp untilE true
    pure (s2, st.2 ++ rc.rewards)

theorem fmClaim_eq (s : FmState) (env : FmEnv) (sender : Addr) (funds : List Coin) (untilE : Option Nat) :
    fmClaim s env sender funds untilE = (do
  nonpayable funds
  let openPos := s.positionsBy sender true
  if openPos.isEmpty then .error .notFound
  let cur ← fmCurrentEpoch s env
  let lps := uniqueDenoms openPos
  let untilE ← untilEpochOrCurrent untilE cur
  let (s', total) ← lps.foldlM (claimStep env sender untilE) (s, [])
  let s'' := { s' with lastClaimed := fun a => if a = sender then some untilE else s'.lastClaimed a }
  let msgs ← if total.isEmpty then pure [] else do
    let agg ← aggregateCoins total
    pure [Msg.bankSend sender agg]
  pure (s'', Response.ofMsgs msgs [("action", "claim")])) := rfl

theorem nodup_key_inj {α : Type} (k : α → String) : ∀ (l : List α), (l.map k).Nodup →
    ∀ a ∈ l, ∀ b ∈ l, k a = k b → a = b := by
  intro l
  induction l with
  | nil => intro _ a ha; simp at ha
  | cons x l ih =>
    intro hn a ha b hb hk
    simp only [List.map_cons, List.nodup_cons] at hn
    obtain ⟨hx, hl⟩ := hn
    rcases List.mem_cons.1 ha with rfl | ha' <;> rcases List.mem_cons.1 hb with rfl | hb'
    · rfl
    · exact absurd (hk ▸ List.mem_map_of_mem hb') hx
    · exact absurd (hk ▸ List.mem_map_of_mem ha') hx
    · exact ih hl a ha' b hb' hk

end MantraDex.FH
