/-
  C06Sys, part 1 (entry-free): the per-epoch terms `calculate_rewards` computes.

  * `uniqueDenoms` has no duplicates and contains exactly the LP tokens of the positions;
  * `calculateRewards` only reads the farms of its LP token, the two histories of that LP token, the
    receiver's cursor and the farm limit (`calculateRewards_congr`);
  * every term of `calculateRewards` (`TermOk`): a farm of that LP token, an epoch after the cursor and at or
    before `until`, the floor of rate · (user weight in effect) / (total weight in effect) with a non-zero total;
  * at most one term per (farm, epoch) (`lpTerms_nodup`);
  * the coins of `calculateRewards` are, per denom, the sum of its terms (`lpRewards_coins`).
-/
import MantraDex.Model.System
import MantraDex.Spec.Ledger
import MantraDex.Proofs.NumLemmas
import MantraDex.Proofs.FarmLemmas
import MantraDex.Proofs.FarmHandlerLemmas
import MantraDex.Proofs.SplitLemmas
import MantraDex.Properties.C05

set_option linter.unusedSimpArgs false
set_option linter.unusedVariables false

namespace MantraDex.LedSys
open MantraDex

/-! ### `uniqueDenoms` -/

theorem dedup_fold (ds : List Denom) : ∀ (acc : List Denom), acc.Nodup →
    (ds.foldl (fun acc d => if acc.contains d then acc else acc ++ [d]) acc).Nodup ∧
    ∀ x, x ∈ ds.foldl (fun acc d => if acc.contains d then acc else acc ++ [d]) acc ↔ x ∈ acc ∨ x ∈ ds := by
  induction ds with
  | nil => intro acc h; exact ⟨h, fun x => by simp⟩
  | cons d ds ih =>
    intro acc h
    rw [List.foldl_cons]
    by_cases hc : acc.contains d = true
    · rw [if_pos hc]
      obtain ⟨h1, h2⟩ := ih acc h
      refine ⟨h1, fun x => ?_⟩
      rw [h2 x]
      have hd : d ∈ acc := List.contains_iff_mem.1 hc
      constructor
      · rintro (h | h)
        · exact Or.inl h
        · exact Or.inr (List.mem_cons_of_mem _ h)
      · rintro (h | h)
        · exact Or.inl h
        · rcases List.mem_cons.1 h with rfl | h
          · exact Or.inl hd
          · exact Or.inr h
    · rw [if_neg hc]
      have hni : d ∉ acc := fun hm => hc (List.contains_iff_mem.2 hm)
      have hnd : (acc ++ [d]).Nodup := by
        rw [List.nodup_append]
        refine ⟨h, by simp, ?_⟩
        intro a ha b hb
        simp only [List.mem_singleton] at hb
        subst hb
        intro e; subst e; exact hni ha
      obtain ⟨h1, h2⟩ := ih _ hnd
      refine ⟨h1, fun x => ?_⟩
      rw [h2 x]
      simp only [List.mem_append, List.mem_cons, List.not_mem_nil, or_false]
      constructor
      · rintro ((h | h) | h)
        · exact Or.inl h
        · exact Or.inr (Or.inl h)
        · exact Or.inr (Or.inr h)
      · rintro (h | h | h)
        · exact Or.inl (Or.inl h)
        · exact Or.inl (Or.inr h)
        · exact Or.inr h

theorem uniqueDenoms_nodup (ps : List Position) : (uniqueDenoms ps).Nodup := by
  unfold uniqueDenoms
  rw [(List.mergeSort_perm _ _).nodup_iff]
  exact (dedup_fold _ [] List.nodup_nil).1

theorem mem_uniqueDenoms {ps : List Position} {d : Denom} :
    d ∈ uniqueDenoms ps ↔ ∃ p ∈ ps, p.lpDenom = d := by
  unfold uniqueDenoms
  rw [(List.mergeSort_perm _ _).mem_iff, (dedup_fold _ [] List.nodup_nil).2 d]
  simp only [List.not_mem_nil, false_or, List.mem_map]

/-! ### folds -/

theorem foldlM_congr_mem {α β : Type} {f g : β → α → R β} : ∀ (l : List α) (b : β),
    (∀ a ∈ l, ∀ b, f b a = g b a) → l.foldlM f b = l.foldlM g b := by
  intro l
  induction l with
  | nil => intro b _; rfl
  | cons a l ih =>
    intro b h
    rw [List.foldlM_cons, List.foldlM_cons, h a List.mem_cons_self b]
    cases g b a with
    | error e => rfl
    | ok b1 => exact ih b1 (fun a' ha' => h a' (List.mem_cons_of_mem _ ha'))

theorem foldlM_inv_mem {α β : Type} (P : β → Prop) (f : β → α → R β) : ∀ (l : List α),
    (∀ b a b', a ∈ l → P b → f b a = .ok b' → P b') → ∀ (b b' : β), P b → l.foldlM f b = .ok b' → P b' := by
  intro l
  induction l with
  | nil => intro _ b b' hb h; simp only [List.foldlM_nil, pure_ok] at h; subst h; exact hb
  | cons a l ih =>
    intro hf b b' hb h
    simp only [List.foldlM_cons, bind_ok] at h
    obtain ⟨b1, h1, h2⟩ := h
    exact ih (fun b a' b' ha' => hf b a' b' (List.mem_cons_of_mem _ ha')) b1 b'
      (hf b a b1 List.mem_cons_self hb h1) h2

/-! ### `calculate_rewards` reads only its own LP token -/

theorem crStep_congr {s s' : FmState} {env : FmEnv} {lp : Denom} {recv : Addr} {u : Nat} {last : Option Nat}
    {acc : C05.CrAcc} {f : Farm} (hlp : f.lpDenom = lp) (h1 : s'.hist recv lp = s.hist recv lp)
    (h2 : s'.hist env.self lp = s.hist env.self lp) :
    FH.crStep s' env lp recv u last acc f = FH.crStep s env lp recv u last acc f := by
  subst hlp
  unfold FH.crStep
  rw [h1, h2]

theorem farmsByLp_mem {s : FmState} {lp : Denom} {n : Nat} {f : Farm} (hf : f ∈ s.farmsByLp lp n) :
    f ∈ s.farms ∧ f.lpDenom = lp := by
  unfold FmState.farmsByLp at hf
  have := List.mem_filter.1 (List.mem_of_mem_take hf)
  exact ⟨this.1, by simpa using this.2⟩

theorem calculateRewards_congr {s s' : FmState} {env : FmEnv} {lp : Denom} {recv : Addr} {u : Nat}
    (hf : s'.farmsByLp lp s'.config.maxConcurrentFarms = s.farmsByLp lp s.config.maxConcurrentFarms)
    (hl : s'.lastClaimed recv = s.lastClaimed recv)
    (h1 : s'.hist recv lp = s.hist recv lp) (h2 : s'.hist env.self lp = s.hist env.self lp) :
    calculateRewards s' env lp recv u = calculateRewards s env lp recv u := by
  rw [FH.calculateRewards_eq, FH.calculateRewards_eq]
  simp only [hf, hl]
  have hfold : ∀ last, (s.farmsByLp lp s.config.maxConcurrentFarms).foldlM (FH.crStep s' env lp recv u last) ([], [], []) =
      (s.farmsByLp lp s.config.maxConcurrentFarms).foldlM (FH.crStep s env lp recv u last) ([], [], []) := by
    intro last
    apply foldlM_congr_mem
    intro f hfm acc
    exact crStep_congr (farmsByLp_mem hfm).2 h1 h2
  simp only [hfold]

/-! ### one farm of `calculate_rewards` -/

/-- what one iteration of the farm loop does -/
theorem crStep_ok {s : FmState} {env : FmEnv} {lp : Denom} {recv : Addr} {u : Nat} {last : Option Nat}
    {acc acc' : C05.CrAcc} {f : Farm} (h : FH.crStep s env lp recv u last acc f = .ok acc') :
    acc' = acc ∨ ∃ startFrom uw cw terms sum,
      ((∃ l, last = some l ∧ startFrom = l + 1) ∨
        (last = none ∧ ∃ w, histEarliest (s.hist recv f.lpDenom) = some (startFrom, w))) ∧
      computeAddressWeights (s.hist recv lp) startFrom u = .ok uw ∧
      computeContractWeights (s.hist env.self lp) startFrom u = .ok cw ∧
      farmRewardTerms f uw cw startFrom u = .ok terms ∧
      terms.foldlM (fun a (t : Nat × Nat) => ckAdd U128_MAX a t.2) 0 = .ok sum ∧
      acc' = (acc.1 ++ (terms.filter (fun (t : Nat × Nat) => t.2 > 0)).map (fun (t : Nat × Nat) => (⟨f.assetDenom, t.2⟩ : Coin)),
        (if terms.isEmpty then acc.2.1 else acc.2.1 ++ [(f.id, sum)]),
        acc.2.2 ++ terms.map fun (t : Nat × Nat) => (f.id, t.1, t.2)) := by
  unfold FH.crStep at h
  split at h
  · simp only [pure_ok] at h; exact Or.inl h
  · right
    cases last with
    | some l =>
      simp only [pure_bind, bind_ok, pure_ok] at h
      obtain ⟨uw, huw, cw, hcw, terms, hterms, sum, hsum, rfl⟩ := h
      exact ⟨l + 1, uw, cw, terms, sum, Or.inl ⟨l, rfl, rfl⟩, huw, hcw, hterms, hsum, rfl⟩
    | none =>
      simp only at h
      cases he : histEarliest (s.hist recv f.lpDenom) with
      | none => rw [he] at h; simp only [FH.error_bind] at h; cases h
      | some p =>
        obtain ⟨e0, w0⟩ := p
        rw [he] at h
        simp only [pure_bind, bind_ok, pure_ok] at h
        obtain ⟨uw, huw, cw, hcw, terms, hterms, sum, hsum, rfl⟩ := h
        exact ⟨e0, uw, cw, terms, sum, Or.inr ⟨rfl, w0, rfl⟩, huw, hcw, hterms, hsum, rfl⟩

/-! ### `calculate_rewards` in closed form -/

theorem calculateRewards_ok {s : FmState} {env : FmEnv} {lp : Denom} {recv : Addr} {u : Nat}
    {rc : RewardsCalc} (h : calculateRewards s env lp recv u = .ok rc) :
    (∀ l, s.lastClaimed recv = some l → l ≤ u) ∧
    (rc = ⟨[], [], []⟩ ∨ ∃ r agg,
      (s.farmsByLp lp s.config.maxConcurrentFarms).foldlM
        (FH.crStep s env lp recv u (s.lastClaimed recv)) ([], [], []) = .ok r ∧
      aggregateCoins r.1 = .ok agg ∧ rc = ⟨agg, r.2.1, r.2.2⟩) := by
  have tail : ∀ (early : Bool), (if early = true then (pure ⟨[], [], []⟩ : R RewardsCalc) else do
      let r ← (s.farmsByLp lp s.config.maxConcurrentFarms).foldlM
        (FH.crStep s env lp recv u (s.lastClaimed recv)) ([], [], [])
      let agg ← aggregateCoins r.1
      pure ⟨agg, r.2.1, r.2.2⟩) = .ok rc →
      (rc = ⟨[], [], []⟩ ∨ ∃ r agg,
        (s.farmsByLp lp s.config.maxConcurrentFarms).foldlM
          (FH.crStep s env lp recv u (s.lastClaimed recv)) ([], [], []) = .ok r ∧
        aggregateCoins r.1 = .ok agg ∧ rc = ⟨agg, r.2.1, r.2.2⟩) := by
    intro early h
    split at h
    · simp only [pure_ok] at h; exact Or.inl h
    · simp only [bind_ok, pure_ok] at h
      obtain ⟨r, hr, agg, hagg, rfl⟩ := h
      exact Or.inr ⟨r, agg, hr, hagg, rfl⟩
  rw [FH.calculateRewards_eq] at h
  simp only at h
  cases hl : s.lastClaimed recv with
  | none =>
    rw [hl] at h tail
    simp only [pure_bind] at h
    exact ⟨fun l hl' => (by cases hl'), tail _ h⟩
  | some l =>
    rw [hl] at h tail
    simp only at h
    split at h
    · simp only [FH.error_bind] at h; cases h
    next hnlt =>
      simp only [pure_bind] at h
      exact ⟨fun l' hl' => (by cases hl'; omega), tail _ h⟩

/-- the per-epoch terms of `calculate_rewards` (none when it fails) -/
def lpTerms (s : FmState) (env : FmEnv) (lp : Denom) (u : Addr) (untilE : Nat) : List (String × Nat × Nat) :=
  match calculateRewards s env lp u untilE with
  | .ok rc => rc.terms
  | .error _ => []

/-- the coins of `calculate_rewards` (none when it fails) -/
def lpRewards (s : FmState) (env : FmEnv) (lp : Denom) (u : Addr) (untilE : Nat) : List Coin :=
  match calculateRewards s env lp u untilE with
  | .ok rc => rc.rewards
  | .error _ => []

theorem lpTerms_of_ok {s : FmState} {env : FmEnv} {lp : Denom} {u : Addr} {untilE : Nat} {rc : RewardsCalc}
    (h : calculateRewards s env lp u untilE = .ok rc) : lpTerms s env lp u untilE = rc.terms := by
  unfold lpTerms; rw [h]

theorem lpRewards_of_ok {s : FmState} {env : FmEnv} {lp : Denom} {u : Addr} {untilE : Nat} {rc : RewardsCalc}
    (h : calculateRewards s env lp u untilE = .ok rc) : lpRewards s env lp u untilE = rc.rewards := by
  unfold lpRewards; rw [h]

/-- a field of the farm with a given identifier -/
def fField {α : Type} (s : FmState) (id : String) (g : Farm → α) (dflt : α) : α :=
  ((s.farms.find? (·.id == id)).map g).getD dflt

theorem fField_of_mem {α : Type} {s : FmState} (hn : (s.farms.map (·.id)).Nodup) {f : Farm} (hf : f ∈ s.farms)
    (g : Farm → α) (dflt : α) : fField s f.id g dflt = g f := by
  unfold fField
  cases hfind : s.farms.find? (·.id == f.id) with
  | none =>
    rw [List.find?_eq_none] at hfind
    exact absurd (by simp) (hfind f hf)
  | some f' =>
    have hm := List.mem_of_find?_eq_some hfind
    have hid : f'.id = f.id := by simpa using List.find?_some hfind
    rw [FH.nodup_key_inj Farm.id s.farms hn f' hm f hf hid]
    rfl

/-- what every term of `calculate_rewards` looks like -/
structure TermOk (s : FmState) (env : FmEnv) (lp : Denom) (u : Addr) (untilE : Nat) (t : String × Nat × Nat) :
    Prop where
  farm : ∃ f ∈ s.farms, f.id = t.1 ∧ f.lpDenom = lp ∧ f.startEpoch ≤ t.2.1 ∧ t.2.1 < f.endEpoch ∧
    t.2.2 = f.emissionRate * Spec.weightAt (s.hist u lp) t.2.1 / Spec.weightAt (s.hist env.self lp) t.2.1
  le : t.2.1 ≤ untilE
  after : ∀ l, s.lastClaimed u = some l → l < t.2.1
  /-- without a cursor the first paid epoch is the user's earliest snapshot -/
  first : s.lastClaimed u = none → ∃ sn ∈ s.hist u lp, sn.1 ≤ t.2.1
  totalNe : Spec.weightAt (s.hist env.self lp) t.2.1 ≠ 0

theorem crStep_termOk {s : FmState} {env : FmEnv} {lp : Denom} {recv : Addr} {u : Nat}
    {acc acc' : C05.CrAcc} {f : Farm} (hf : f ∈ s.farms) (hlp : f.lpDenom = lp)
    (hsu : Farm.Asc (s.hist recv lp)) (hst : Farm.Asc (s.hist env.self lp))
    (hcomp : ∀ l, s.lastClaimed recv = some l → ∀ x ∈ s.hist recv lp, l ≤ x.1)
    (hacc : ∀ t ∈ acc.2.2, TermOk s env lp recv u t)
    (h : FH.crStep s env lp recv u (s.lastClaimed recv) acc f = .ok acc') :
    ∀ t ∈ acc'.2.2, TermOk s env lp recv u t := by
  rcases crStep_ok h with rfl | ⟨sf, uw, cw, terms, sum, hsf, huw, hcw, hterms, hsum, rfl⟩
  · exact hacc
  · intro t ht
    simp only [List.mem_append, List.mem_map] at ht
    rcases ht with ht | ⟨t0, ht0, rfl⟩
    · exact hacc t ht
    · have hno : ∀ x ∈ s.hist recv lp, sf - 1 ≤ x.1 := by
        rcases hsf with ⟨l, hl, rfl⟩ | ⟨hl, w, he⟩
        · intro x hx; have := hcomp l hl x hx; omega
        · rw [hlp] at he
          obtain ⟨xs, hxs⟩ := Farm.histGet_head he
          rw [hxs] at hsu ⊢
          intro x hx
          simp only [List.mem_cons] at hx
          rcases hx with rfl | hx
          · simp only; omega
          · have := (List.pairwise_cons.1 hsu).1 x hx; omega
      obtain ⟨a1, a2, a3, a4, uu, tot, b1, b2, b3, b4, _⟩ := Farm.farm_terms_shape hterms t0 ht0
      have hu := Farm.address_scan hsu hno huw t0.1 (by omega) a2
      have hc := Farm.contract_scan hst hcw t0.1 a1 a2
      rw [b1] at hu
      rw [b2] at hc
      simp only [Option.some.injEq, Option.getD_some] at hu hc
      subst hu hc
      refine ⟨⟨f, hf, rfl, hlp, a3, a4, b4⟩, a2, ?_, ?_, b3⟩
      · intro l hl
        rcases hsf with ⟨l', hl', rfl⟩ | ⟨hn, _⟩
        · rw [hl] at hl'; cases hl'; simp only; omega
        · rw [hl] at hn; cases hn
      · intro hnone
        rcases hsf with ⟨l', hl', _⟩ | ⟨_, w, he⟩
        · rw [hnone] at hl'; cases hl'
        · rw [hlp] at he
          obtain ⟨xs, hxs⟩ := Farm.histGet_head he
          exact ⟨(sf, w), by rw [hxs]; exact List.mem_cons_self, a1⟩

theorem lpTerms_ok {s : FmState} {env : FmEnv} {lp : Denom} {recv : Addr} {u : Nat}
    (hsu : Farm.Asc (s.hist recv lp)) (hst : Farm.Asc (s.hist env.self lp))
    (hcomp : ∀ l, s.lastClaimed recv = some l → ∀ x ∈ s.hist recv lp, l ≤ x.1) :
    ∀ t ∈ lpTerms s env lp recv u, TermOk s env lp recv u t := by
  unfold lpTerms
  cases h : calculateRewards s env lp recv u with
  | error e => intro t ht; cases ht
  | ok rc =>
    simp only
    rcases (calculateRewards_ok h).2 with rfl | ⟨r, agg, hr, _, rfl⟩
    · intro t ht; cases ht
    · simp only
      refine foldlM_inv_mem (fun (acc : C05.CrAcc) => ∀ t ∈ acc.2.2, TermOk s env lp recv u t) _ _ ?_ _ _
        (by intro t ht; cases ht) hr
      intro b f b' hf hb hstep
      obtain ⟨h1, h2⟩ := farmsByLp_mem hf
      exact crStep_termOk h1 h2 hsu hst hcomp hb hstep

/-! ### at most one term per (farm, epoch) -/

def tkey (t : String × Nat × Nat) : String × Nat := (t.1, t.2.1)

theorem crFold_nodup {s : FmState} {env : FmEnv} {lp : Denom} {recv : Addr} {u : Nat} {last : Option Nat} :
    ∀ (fs : List Farm), (fs.map (·.id)).Nodup → ∀ (acc acc' : C05.CrAcc),
    (∀ t ∈ acc.2.2, t.1 ∉ fs.map (·.id)) → (acc.2.2.map tkey).Nodup →
    fs.foldlM (FH.crStep s env lp recv u last) acc = .ok acc' → (acc'.2.2.map tkey).Nodup := by
  intro fs
  induction fs with
  | nil => intro _ acc acc' _ hn h; simp only [List.foldlM_nil, pure_ok] at h; subst h; exact hn
  | cons f fs ih =>
    intro hnd acc acc' hfresh hn h
    simp only [List.foldlM_cons, bind_ok] at h
    obtain ⟨a1, h1, h2⟩ := h
    simp only [List.map_cons, List.nodup_cons] at hnd
    obtain ⟨hfid, hnd'⟩ := hnd
    have hfresh' : ∀ t ∈ acc.2.2, t.1 ∉ fs.map (·.id) := by
      intro t ht hm
      exact hfresh t ht (by simp only [List.map_cons]; exact List.mem_cons_of_mem _ hm)
    rcases crStep_ok h1 with rfl | ⟨sf, uw, cw, terms, sum, _, _, _, hterms, _, rfl⟩
    · exact ih hnd' _ _ hfresh' hn h2
    · refine ih hnd' _ _ ?_ ?_ h2
      · intro t ht
        simp only [List.mem_append, List.mem_map] at ht
        rcases ht with ht | ⟨t0, _, rfl⟩
        · exact hfresh' t ht
        · exact hfid
      · simp only [List.map_append, List.map_map]
        rw [List.nodup_append]
        refine ⟨hn, ?_, ?_⟩
        · have hp := Farm.farm_terms_epochs_nodup hterms
          rw [List.Nodup, List.pairwise_map] at hp ⊢
          refine hp.imp ?_
          intro a b hab he
          simp only [Function.comp, tkey, Prod.mk.injEq] at he
          exact hab he.2
        · intro a ha b hb e
          subst e
          obtain ⟨t, ht, rfl⟩ := List.mem_map.1 ha
          obtain ⟨t0, _, he⟩ := List.mem_map.1 hb
          simp only [Function.comp, tkey, Prod.mk.injEq] at he
          apply hfresh t ht
          simp only [List.map_cons]
          rw [← he.1]
          exact List.mem_cons_self

theorem farmsByLp_nodup {s : FmState} (hn : (s.farms.map (·.id)).Nodup) (lp : Denom) (n : Nat) :
    ((s.farmsByLp lp n).map (·.id)).Nodup := by
  unfold FmState.farmsByLp
  exact (((List.take_sublist _ _).trans List.filter_sublist).map _).nodup hn

theorem lpTerms_nodup {s : FmState} {env : FmEnv} {lp : Denom} {recv : Addr} {u : Nat}
    (hn : (s.farms.map (·.id)).Nodup) : ((lpTerms s env lp recv u).map tkey).Nodup := by
  unfold lpTerms
  cases h : calculateRewards s env lp recv u with
  | error e => exact List.nodup_nil
  | ok rc =>
    simp only
    rcases (calculateRewards_ok h).2 with rfl | ⟨r, agg, hr, _, rfl⟩
    · exact List.nodup_nil
    · exact crFold_nodup _ (farmsByLp_nodup hn lp _) ([], [], []) _ (by intro t ht; cases ht) List.nodup_nil hr

/-! ### the coins are the sum of the terms, per denom -/

/-- Σ of the terms whose farm pays denom `d` -/
def termSum (s : FmState) (d : Denom) (ts : List (String × Nat × Nat)) : Nat :=
  ((ts.filter fun t => fField s t.1 (·.assetDenom) "" == d).map (·.2.2)).sum

theorem termSum_nil (s : FmState) (d : Denom) : termSum s d [] = 0 := rfl

theorem termSum_append (s : FmState) (d : Denom) (a b : List (String × Nat × Nat)) :
    termSum s d (a ++ b) = termSum s d a + termSum s d b := by
  unfold termSum; rw [List.filter_append, List.map_append, List.sum_append]

theorem termSum_farm {s : FmState} (hn : (s.farms.map (·.id)).Nodup) {f : Farm} (hf : f ∈ s.farms) (d : Denom)
    (terms : List (Nat × Nat)) :
    termSum s d (terms.map fun (t : Nat × Nat) => (f.id, t.1, t.2)) =
      if f.assetDenom == d then (terms.map (·.2)).sum else 0 := by
  unfold termSum
  have hfd : (fField s f.id (·.assetDenom) "" == d) = (f.assetDenom == d) := by
    rw [fField_of_mem hn hf]
  rw [List.filter_map]
  by_cases hd : (f.assetDenom == d) = true
  · rw [if_pos hd, List.filter_eq_self.2 (by intro t _; exact hfd.trans hd),
      List.map_map]
    rfl
  · rw [if_neg hd, List.filter_eq_nil_iff.2 (by intro t _ hh; exact hd (hfd.symm.trans hh))]
    rfl

theorem crFold_coins {s : FmState} {env : FmEnv} {lp : Denom} {recv : Addr} {u : Nat} {last : Option Nat}
    (hn : (s.farms.map (·.id)).Nodup) (d : Denom) {acc acc' : C05.CrAcc}
    (hacc : C05.coinsOf acc.1 d = termSum s d acc.2.2)
    (h : (s.farmsByLp lp s.config.maxConcurrentFarms).foldlM (FH.crStep s env lp recv u last) acc = .ok acc') :
    C05.coinsOf acc'.1 d = termSum s d acc'.2.2 := by
  refine foldlM_inv_mem (fun (acc : C05.CrAcc) => C05.coinsOf acc.1 d = termSum s d acc.2.2) _ _ ?_ _ _ hacc h
  intro b f b' hf hb hstep
  rcases crStep_ok hstep with rfl | ⟨sf, uw, cw, terms, sum, _, _, _, _, _, rfl⟩
  · exact hb
  · simp only
    rw [C05.coinsOf_append, C05.coinsOf_terms, termSum_append, termSum_farm hn (farmsByLp_mem hf).1, hb]

theorem lpRewards_coins {s : FmState} {env : FmEnv} {lp : Denom} {recv : Addr} {u : Nat}
    (hn : (s.farms.map (·.id)).Nodup) (d : Denom) :
    C05.coinsOf (lpRewards s env lp recv u) d = termSum s d (lpTerms s env lp recv u) := by
  unfold lpRewards lpTerms
  cases h : calculateRewards s env lp recv u with
  | error e => rw [C05.coinsOf_nil]; rfl
  | ok rc =>
    simp only
    rcases (calculateRewards_ok h).2 with rfl | ⟨r, agg, hr, hagg, rfl⟩
    · rw [C05.coinsOf_nil]; rfl
    · simp only
      rw [C05.aggregateCoins_coinsOf hagg d]
      exact crFold_coins hn d (by rw [C05.coinsOf_nil]; rfl) hr

/-! ### the farms whose `claimed_amount` a claim bumps are farms of the LP token -/

theorem calculateRewards_modified {s : FmState} {env : FmEnv} {lp : Denom} {recv : Addr} {u : Nat}
    {rc : RewardsCalc} (h : calculateRewards s env lp recv u = .ok rc) :
    ∀ m ∈ rc.modified, ∃ f ∈ s.farms, f.lpDenom = lp ∧ f.id = m.1 := by
  rcases (calculateRewards_ok h).2 with rfl | ⟨r, agg, hr, _, rfl⟩
  · intro m hm; cases hm
  · simp only
    refine foldlM_inv_mem (fun (acc : C05.CrAcc) => ∀ m ∈ acc.2.1, ∃ f ∈ s.farms, f.lpDenom = lp ∧ f.id = m.1)
      _ _ ?_ _ _ (by intro m hm; cases hm) hr
    intro b f b' hf hb hstep
    obtain ⟨h1, h2⟩ := farmsByLp_mem hf
    rcases crStep_ok hstep with rfl | ⟨sf, uw, cw, terms, sum, _, _, _, _, _, rfl⟩
    · exact hb
    · simp only
      intro m hm
      split at hm
      · exact hb m hm
      · rcases List.mem_append.1 hm with hm | hm
        · exact hb m hm
        · simp only [List.mem_singleton] at hm
          subst hm
          exact ⟨f, h1, h2, rfl⟩

end MantraDex.LedSys
