/-
  Lemmas for C07Split: sums over the per-epoch ledger, and the closed form of a single-LP claim in
  terms of the ledger (`Spec.spanReward`).
-/
import MantraDex.Model.System
import MantraDex.Spec.Ledger
import MantraDex.Proofs.NumLemmas
import MantraDex.Proofs.FarmLemmas
import MantraDex.Properties.C05

set_option linter.unusedSimpArgs false
set_option linter.unusedVariables false

namespace MantraDex.Split
open MantraDex MantraDex.Farm MantraDex.FH

/-! ### sums -/

theorem sum_map_add {α : Type} (l : List α) (g h : α → Nat) :
    (l.map fun x => g x + h x).sum = (l.map g).sum + (l.map h).sum := by
  induction l with
  | nil => rfl
  | cons x xs ih => simp only [List.map_cons, List.sum_cons, ih]; omega

theorem sum_map_mul_left {α : Type} (l : List α) (r : Nat) (w : α → Nat) :
    (l.map fun x => r * w x).sum = r * (l.map w).sum := by
  induction l with
  | nil => rfl
  | cons x xs ih => simp only [List.map_cons, List.sum_cons, ih, Nat.mul_add]

theorem sum_map_div_le {α : Type} (l : List α) (g : α → Nat) (k : Nat) :
    (l.map fun x => g x / k).sum ≤ (l.map g).sum / k := by
  induction l with
  | nil => simp
  | cons x xs ih =>
    simp only [List.map_cons, List.sum_cons]
    exact Nat.le_trans (Nat.add_le_add_left ih _) (div_add_div_le _ _ _)

theorem sum_map_zero {α : Type} (l : List α) (g : α → Nat) (h : ∀ x ∈ l, g x = 0) :
    (l.map g).sum = 0 := by
  induction l with
  | nil => rfl
  | cons x xs ih =>
    simp only [List.map_cons, List.sum_cons, h x List.mem_cons_self,
      ih (fun y hy => h y (List.mem_cons_of_mem _ hy))]

theorem sum_map_le_const {α : Type} (l : List α) (g : α → Nat) (c : Nat) (h : ∀ x ∈ l, g x ≤ c) :
    (l.map g).sum ≤ c * l.length := by
  induction l with
  | nil => simp
  | cons x xs ih =>
    simp only [List.map_cons, List.sum_cons, List.length_cons, Nat.mul_succ]
    have := h x List.mem_cons_self
    have := ih (fun y hy => h y (List.mem_cons_of_mem _ hy))
    omega

/-! ### the ledger -/

theorem spanReward_eq_sum (f : Spec.LFarm) (uh th : List (Nat × Nat)) (first until_ : Nat) :
    Spec.spanReward f uh th first until_ =
      ((List.range (until_ + 1 - first)).map fun i => Spec.epochShare f uh th (first + i)).sum := by
  unfold Spec.spanReward
  rw [foldl_add_eq_sum, Nat.zero_add]

theorem epoch_shares_le (f : Spec.LFarm) (th : List (Nat × Nat)) (users : List (List (Nat × Nat)))
    (e : Nat) (hcov : (users.map fun uh => Spec.weightAt uh e).sum ≤ Spec.weightAt th e) :
    (users.map fun uh => Spec.epochShare f uh th e).sum ≤ f.rate := by
  unfold Spec.epochShare
  by_cases hl : f.start ≤ e ∧ e < f.end_
  · simp only [hl, and_self, if_true]
    by_cases ht : Spec.weightAt th e = 0
    · simp only [ht, if_true]
      rw [sum_map_zero _ _ (fun _ _ => rfl)]
      exact Nat.zero_le _
    · simp only [ht, if_false]
      refine Nat.le_trans (sum_map_div_le users (fun uh => f.rate * Spec.weightAt uh e) _) ?_
      rw [sum_map_mul_left]
      exact mul_div_le_of_le hcov
  · simp only [hl, if_false]
    rw [sum_map_zero _ _ (fun _ _ => rfl)]
    exact Nat.zero_le _

theorem span_rewards_le (f : Spec.LFarm) (th : List (Nat × Nat)) (users : List (List (Nat × Nat)))
    (first : Nat)
    (hcov : ∀ e, (users.map fun uh => Spec.weightAt uh e).sum ≤ Spec.weightAt th e) (n : Nat) :
    (users.map fun uh =>
      ((List.range n).map fun i => Spec.epochShare f uh th (first + i)).sum).sum ≤ f.rate * n := by
  induction n with
  | zero =>
    rw [sum_map_zero users (fun uh =>
      ((List.range 0).map fun i => Spec.epochShare f uh th (first + i)).sum) (fun _ _ => rfl)]
    exact Nat.zero_le _
  | succ n ih =>
    have : (users.map fun uh =>
        ((List.range (n + 1)).map fun i => Spec.epochShare f uh th (first + i)).sum) =
        (users.map fun uh =>
          ((List.range n).map fun i => Spec.epochShare f uh th (first + i)).sum +
            Spec.epochShare f uh th (first + n)) := by
      apply List.map_congr_left
      intro uh _
      rw [List.range_succ, List.map_append, List.sum_append]
      simp
    rw [this, sum_map_add, Nat.mul_succ]
    exact Nat.add_le_add ih (epoch_shares_le f th users (first + n) (hcov _))

theorem spanReward_split (f : Spec.LFarm) (uh th : List (Nat × Nat)) (first mid until_ : Nat)
    (h1 : first ≤ mid + 1) (h2 : mid ≤ until_) :
    Spec.spanReward f uh th first until_ =
      Spec.spanReward f uh th first mid + Spec.spanReward f uh th (mid + 1) until_ := by
  rw [spanReward_eq_sum, spanReward_eq_sum, spanReward_eq_sum]
  have hn : until_ + 1 - first = (mid + 1 - first) + (until_ + 1 - (mid + 1)) := by omega
  rw [hn, List.range_add, List.map_append, List.sum_append, List.map_map]
  congr 2
  apply List.map_congr_left
  intro i _
  simp only [Function.comp]
  congr 1
  omega

/-- the entitlement only depends on the weights in effect during the span -/
theorem spanReward_congr (f : Spec.LFarm) {uh uh' th th' : List (Nat × Nat)} {first until_ : Nat}
    (hu : ∀ e, first ≤ e → e ≤ until_ → Spec.weightAt uh e = Spec.weightAt uh' e)
    (ht : ∀ e, first ≤ e → e ≤ until_ → Spec.weightAt th e = Spec.weightAt th' e) :
    Spec.spanReward f uh th first until_ = Spec.spanReward f uh' th' first until_ := by
  rw [spanReward_eq_sum, spanReward_eq_sum]
  congr 1
  apply List.map_congr_left
  intro i hi
  have hi' := List.mem_range.1 hi
  unfold Spec.epochShare
  rw [hu _ (by omega) (by omega), ht _ (by omega) (by omega)]

theorem spanReward_zero (f : Spec.LFarm) {uh th : List (Nat × Nat)} {first until_ : Nat}
    (hu : ∀ e, first ≤ e → e ≤ until_ → Spec.weightAt uh e = 0 ∨ e < f.start) :
    Spec.spanReward f uh th first until_ = 0 := by
  rw [spanReward_eq_sum]
  apply sum_map_zero
  intro i hi
  have hi' := List.mem_range.1 hi
  unfold Spec.epochShare
  rcases hu (first + i) (by omega) (by omega) with h | h
  · rw [h]; simp
  · rw [if_neg (by omega)]

theorem spanReward_empty (f : Spec.LFarm) (uh th : List (Nat × Nat)) {first until_ : Nat}
    (h : until_ < first) : Spec.spanReward f uh th first until_ = 0 := by
  rw [spanReward_eq_sum]
  have : until_ + 1 - first = 0 := by omega
  rw [this]; rfl

/-! ### a claim's bookkeeping in closed form -/

def addC (D : String → Nat) (q : Farm) : Farm := { q with claimed := q.claimed + D q.id }

def modTotal (mods : List (String × Nat)) (id : String) : Nat :=
  (mods.map fun m => if m.1 == id then m.2 else 0).sum

theorem addC_zero (q : Farm) : addC (fun _ => 0) q = q := rfl

theorem modStep_char {s1 s2 : FmState} {m : String × Nat} (hn : (s1.farms.map (·.id)).Nodup)
    (h : modStep s1 m = .ok s2) :
    s2.farms = s1.farms.map (addC fun id => if m.1 == id then m.2 else 0) ∧
    s2.hist = s1.hist ∧ s2.lastClaimed = s1.lastClaimed ∧ s2.positions = s1.positions ∧
    s2.config = s1.config := by
  unfold modStep at h
  simp only [bind_ok, ckAdd_ok] at h
  obtain ⟨f, hf, c, ⟨_, rfl⟩, h⟩ := h
  split at h
  · simp [bind, Except.bind] at h
  next hle =>
    simp only [pure_ok] at h
    obtain ⟨hmem, hid⟩ := getFarm_ok hf
    have hany : s1.farms.any (fun q => q.id == f.id) = true := by
      rw [List.any_eq_true]; exact ⟨f, hmem, by simp⟩
    unfold FmState.saveFarm at h
    simp only [hany, if_true] at h
    subst h
    refine ⟨?_, rfl, rfl, rfl, rfl⟩
    simp only
    apply List.map_congr_left
    intro q hq
    by_cases hqi : q.id = f.id
    · have := nodup_key_inj Farm.id s1.farms hn q hq f hmem hqi
      subst this
      simp only [beq_self_eq_true, if_true, addC, hid]
    · have h1 : (q.id == f.id) = false := by simp [hqi]
      have h2 : (m.1 == q.id) = false := by rw [← hid]; simp; exact fun h => hqi h.symm
      simp only [h1, Bool.false_eq_true, if_false, addC, h2]
      rfl


theorem modTotal_nil (id : String) : modTotal [] id = 0 := rfl
theorem modTotal_cons (m : String × Nat) (ms : List (String × Nat)) (id : String) :
    modTotal (m :: ms) id = (if m.1 == id then m.2 else 0) + modTotal ms id := rfl
theorem modTotal_append (a b : List (String × Nat)) (id : String) :
    modTotal (a ++ b) id = modTotal a id + modTotal b id := by
  unfold modTotal; rw [List.map_append, List.sum_append]

theorem addC_id (D : String → Nat) (q : Farm) : (addC D q).id = q.id := rfl

theorem map_addC_ids (D : String → Nat) (l : List Farm) : (l.map (addC D)).map (·.id) = l.map (·.id) := by
  rw [List.map_map]; rfl

theorem modFold_char : ∀ (mods : List (String × Nat)) {s1 s2 : FmState},
    (s1.farms.map (·.id)).Nodup → mods.foldlM modStep s1 = .ok s2 →
    s2.farms = s1.farms.map (addC (modTotal mods)) ∧
    s2.hist = s1.hist ∧ s2.lastClaimed = s1.lastClaimed ∧ s2.positions = s1.positions ∧
    s2.config = s1.config := by
  intro mods
  induction mods with
  | nil =>
    intro s1 s2 _ h
    simp only [List.foldlM_nil, pure_ok] at h; subst h
    refine ⟨?_, rfl, rfl, rfl, rfl⟩
    have : ∀ l : List Farm, l.map (addC (modTotal [])) = l := fun l =>
      (List.map_congr_left (fun q _ => rfl)).trans (List.map_id l)
    exact (this _).symm
  | cons m ms ih =>
    intro s1 s2 hn h
    rw [List.foldlM_cons, bind_ok] at h
    obtain ⟨a, ha, h⟩ := h
    obtain ⟨a1, a2, a3, a4, a5⟩ := modStep_char hn ha
    obtain ⟨b1, b2, b3, b4, b5⟩ := ih (by rw [a1, map_addC_ids]; exact hn) h
    refine ⟨?_, b2.trans a2, b3.trans a3, b4.trans a4, b5.trans a5⟩
    rw [b1, a1, List.map_map]
    apply List.map_congr_left
    intro q _
    simp only [Function.comp, addC, modTotal_cons, Nat.add_assoc]


def LF (f : Farm) : Spec.LFarm := ⟨f.emissionRate, f.startEpoch, f.endEpoch⟩

/-- ledger entitlement of farm `f` for the epochs `first … u` -/
def owed (uh th : List (Nat × Nat)) (first u : Nat) (f : Farm) : Nat :=
  Spec.spanReward (LF f) uh th first u

open C05 in
theorem crTail_char {f : Farm} {uh th : List (Nat × Nat)} {sf u : Nat} {acc acc' : C05.CrAcc}
    (hsu : Asc uh) (hst : Asc th) (hno : ∀ x ∈ uh, sf - 1 ≤ x.1)
    (h : (do
      let uw ← computeAddressWeights uh sf u
      let cw ← computeContractWeights th sf u
      let terms ← farmRewardTerms f uw cw sf u
      let coins := (terms.filter (fun (t : Nat × Nat) => t.2 > 0)).map fun (t : Nat × Nat) => (⟨f.assetDenom, t.2⟩ : Coin)
      let sum ← terms.foldlM (fun a (t : Nat × Nat) => ckAdd U128_MAX a t.2) 0
      let modified := if terms.isEmpty then acc.2.1 else acc.2.1 ++ [(f.id, sum)]
      (pure (acc.1 ++ coins, modified, acc.2.2 ++ terms.map fun (t : Nat × Nat) => (f.id, t.1, t.2)) : R C05.CrAcc)) = .ok acc')
    (d : Denom) (id : String) :
    coinsOf acc'.1 d = coinsOf acc.1 d + (if f.assetDenom == d then owed uh th sf u f else 0) ∧
    modTotal acc'.2.1 id = modTotal acc.2.1 id + (if f.id == id then owed uh th sf u f else 0) := by
  simp only [bind_ok, pure_ok] at h
  obtain ⟨uw, huw, cw, hcw, terms, hterms, sum, hsum, rfl⟩ := h
  have hs := ckAdd_fold_sum terms 0 sum hsum
  have hu := address_scan hsu hno huw
  have hc := contract_scan hst hcw
  have hsp := farm_terms_sum (uh := uh) (th := th) (fun e h1 h2 => hu e (by omega) h2) hc hterms
  rw [foldl_add_eq_sum, Nat.zero_add] at hsp
  rw [Nat.zero_add] at hs
  have how : owed uh th sf u f = sum := by rw [hs]; exact hsp.symm
  simp only
  rw [coinsOf_append, coinsOf_terms, ← hs, how]
  refine ⟨?_, ?_⟩
  · split <;> rfl
  · cases terms with
    | nil =>
      simp only [List.isEmpty_nil, if_true]
      have : sum = 0 := by rw [hs]; rfl
      rw [this]; simp
    | cons t ts =>
      simp only [List.isEmpty_cons, Bool.false_eq_true, if_false]
      rw [modTotal_append, modTotal_cons, modTotal_nil]
      simp


/-- epoch of the earliest snapshot -/
def entry (h : List (Nat × Nat)) : Nat := ((h.head?).map (·.1)).getD 0

theorem owed_zero_of_late {uh th : List (Nat × Nat)} {first u : Nat} {f : Farm} (h : f.startEpoch > u) :
    owed uh th first u f = 0 :=
  spanReward_zero (LF f) (fun e _ h2 => Or.inr (by show e < f.startEpoch; omega))

open C05 in
theorem crStep_char {s : FmState} {env : FmEnv} {lp : Denom} {recv : Addr} {u : Nat} {last : Option Nat}
    {f : Farm} (hlp : f.lpDenom = lp)
    (hsu : Asc (s.hist recv lp)) (hst : Asc (s.hist env.self lp)) (hne : s.hist recv lp ≠ [])
    (hcomp : ∀ l, last = some l → ∀ x ∈ s.hist recv lp, l ≤ x.1)
    {acc acc' : C05.CrAcc} (h : crStep s env lp recv u last acc f = .ok acc') (d : Denom) (id : String) :
    coinsOf acc'.1 d = coinsOf acc.1 d + (if f.assetDenom == d then
      owed (s.hist recv lp) (s.hist env.self lp) (Spec.firstEpoch last (entry (s.hist recv lp))) u f else 0) ∧
    modTotal acc'.2.1 id = modTotal acc.2.1 id + (if f.id == id then
      owed (s.hist recv lp) (s.hist env.self lp) (Spec.firstEpoch last (entry (s.hist recv lp))) u f else 0) := by
  unfold crStep at h
  split at h
  next hlate =>
    simp only [pure_ok] at h; subst h
    rw [owed_zero_of_late hlate]
    simp
  next hlate =>
    cases last with
    | some l =>
      simp only [pure_bind] at h
      exact crTail_char hsu hst (fun x hx => by have := hcomp l rfl x hx; omega) h d id
    | none =>
      subst hlp
      cases hh : s.hist recv f.lpDenom with
      | nil => exact absurd hh hne
      | cons y ys =>
        obtain ⟨e0, w0⟩ := y
        rw [hh] at h hsu
        simp only [histEarliest, List.head?_cons, pure_bind] at h
        have hno : ∀ x ∈ (e0, w0) :: ys, e0 - 1 ≤ x.1 := by
          intro x hx
          simp only [List.mem_cons] at hx
          rcases hx with rfl | hx
          · simp only; omega
          · have := (List.pairwise_cons.1 hsu).1 x hx; omega
        exact crTail_char hsu hst hno h d id


def dsum (fs : List Farm) (p : Farm → Bool) (δ : Farm → Nat) : Nat :=
  (fs.map fun f => if p f then δ f else 0).sum

theorem dsum_nil (p : Farm → Bool) (δ : Farm → Nat) : dsum [] p δ = 0 := rfl
theorem dsum_cons (f : Farm) (fs : List Farm) (p : Farm → Bool) (δ : Farm → Nat) :
    dsum (f :: fs) p δ = (if p f then δ f else 0) + dsum fs p δ := rfl
theorem dsum_zero (fs : List Farm) (p : Farm → Bool) (δ : Farm → Nat) (h : ∀ f ∈ fs, δ f = 0) :
    dsum fs p δ = 0 := by
  unfold dsum
  apply sum_map_zero
  intro f hf
  rw [h f hf]; simp

open C05 in
theorem crFold_char {s : FmState} {env : FmEnv} {lp : Denom} {recv : Addr} {u : Nat} {last : Option Nat}
    (hsu : Asc (s.hist recv lp)) (hst : Asc (s.hist env.self lp)) (hne : s.hist recv lp ≠ [])
    (hcomp : ∀ l, last = some l → ∀ x ∈ s.hist recv lp, l ≤ x.1) (d : Denom) (id : String) :
    ∀ (fs : List Farm), (∀ f ∈ fs, f.lpDenom = lp) → ∀ (acc acc' : C05.CrAcc),
    fs.foldlM (crStep s env lp recv u last) acc = .ok acc' →
    coinsOf acc'.1 d = coinsOf acc.1 d + dsum fs (·.assetDenom == d)
      (owed (s.hist recv lp) (s.hist env.self lp) (Spec.firstEpoch last (entry (s.hist recv lp))) u) ∧
    modTotal acc'.2.1 id = modTotal acc.2.1 id + dsum fs (·.id == id)
      (owed (s.hist recv lp) (s.hist env.self lp) (Spec.firstEpoch last (entry (s.hist recv lp))) u) := by
  intro fs
  induction fs with
  | nil =>
    intro _ acc acc' h
    simp only [List.foldlM_nil, pure_ok] at h; subst h
    simp [dsum_nil]
  | cons f fs ih =>
    intro hsub acc acc' h
    rw [List.foldlM_cons] at h
    simp only [bind_ok] at h
    obtain ⟨a, ha, h⟩ := h
    obtain ⟨a1, a2⟩ := crStep_char (hsub f List.mem_cons_self) hsu hst hne hcomp ha d id
    obtain ⟨b1, b2⟩ := ih (fun g hg => hsub g (List.mem_cons_of_mem _ hg)) a acc' h
    rw [dsum_cons, dsum_cons, b1, b2, a1, a2]
    simp only [Nat.add_assoc, and_self]

theorem farmsByLp_lp {s : FmState} {lp : Denom} {n : Nat} {f : Farm} (hf : f ∈ s.farmsByLp lp n) :
    f.lpDenom = lp := by
  unfold FmState.farmsByLp at hf
  simpa using (List.mem_filter.1 (List.mem_of_mem_take hf)).2

open C05 in
theorem calculateRewards_char {s : FmState} {env : FmEnv} {lp : Denom} {recv : Addr} {u : Nat}
    {rc : RewardsCalc}
    (hsu : Asc (s.hist recv lp)) (hst : Asc (s.hist env.self lp)) (hne : s.hist recv lp ≠ [])
    (hcomp : ∀ l, s.lastClaimed recv = some l → ∀ x ∈ s.hist recv lp, l ≤ x.1)
    (h : calculateRewards s env lp recv u = .ok rc) :
    (∀ l, s.lastClaimed recv = some l → l ≤ u) ∧
    (∀ d, coinsOf rc.rewards d = dsum (s.farmsByLp lp s.config.maxConcurrentFarms) (·.assetDenom == d)
      (owed (s.hist recv lp) (s.hist env.self lp)
        (Spec.firstEpoch (s.lastClaimed recv) (entry (s.hist recv lp))) u)) ∧
    (∀ id, modTotal rc.modified id = dsum (s.farmsByLp lp s.config.maxConcurrentFarms) (·.id == id)
      (owed (s.hist recv lp) (s.hist env.self lp)
        (Spec.firstEpoch (s.lastClaimed recv) (entry (s.hist recv lp))) u)) := by
  have tail : ∀ (early : Bool), (if early = true then (pure ⟨[], [], []⟩ : R RewardsCalc) else do
      let r ← (s.farmsByLp lp s.config.maxConcurrentFarms).foldlM
        (crStep s env lp recv u (s.lastClaimed recv)) ([], [], [])
      let agg ← aggregateCoins r.1
      pure ⟨agg, r.2.1, r.2.2⟩) = .ok rc → early = false →
      (∀ d, coinsOf rc.rewards d = dsum (s.farmsByLp lp s.config.maxConcurrentFarms) (·.assetDenom == d)
        (owed (s.hist recv lp) (s.hist env.self lp)
          (Spec.firstEpoch (s.lastClaimed recv) (entry (s.hist recv lp))) u)) ∧
      (∀ id, modTotal rc.modified id = dsum (s.farmsByLp lp s.config.maxConcurrentFarms) (·.id == id)
        (owed (s.hist recv lp) (s.hist env.self lp)
          (Spec.firstEpoch (s.lastClaimed recv) (entry (s.hist recv lp))) u)) := by
    intro early h he
    subst he
    simp only [Bool.false_eq_true, if_false, bind_ok, pure_ok] at h
    obtain ⟨r, hr, agg, hagg, rfl⟩ := h
    refine ⟨fun d => ?_, fun id => ?_⟩
    · have := (crFold_char hsu hst hne hcomp d "" _ (fun f hf => farmsByLp_lp hf) _ _ hr).1
      simp only
      rw [aggregateCoins_coinsOf hagg d, this, coinsOf_nil, Nat.zero_add]
    · have := (crFold_char hsu hst hne hcomp "" id _ (fun f hf => farmsByLp_lp hf) _ _ hr).2
      simp only
      rw [this, modTotal_nil, Nat.zero_add]
  rw [calculateRewards_eq] at h
  simp only at h
  cases hl : s.lastClaimed recv with
  | none =>
    rw [hl] at h tail
    simp only [pure_bind] at h
    exact ⟨fun l hl' => (by cases hl'), tail _ h rfl⟩
  | some l =>
    rw [hl] at h tail
    simp only at h
    split at h
    · simp only [error_bind] at h; cases h
    next hnlt =>
      simp only [pure_bind] at h
      refine ⟨fun l' hl' => (by cases hl'; omega), ?_⟩
      by_cases heq : u = l
      · subst heq
        simp only [beq_self_eq_true, if_true, pure_ok] at h
        subst h
        have hz : ∀ f ∈ s.farmsByLp lp s.config.maxConcurrentFarms,
            owed (s.hist recv lp) (s.hist env.self lp)
              (Spec.firstEpoch (some u) (entry (s.hist recv lp))) u f = 0 := by
          intro f _
          exact spanReward_empty (LF f) _ _ (by show u < u + 1; omega)
        refine ⟨fun d => ?_, fun id => ?_⟩
        · rw [dsum_zero _ _ _ hz]; exact coinsOf_nil d
        · rw [dsum_zero _ _ _ hz]; rfl
      · have : (u == l) = false := by simp [heq]
        exact tail _ h this


theorem sync_entries {s s' : FmState} {a : Addr} {lp : Denom} {epoch : Nat}
    (h : syncHistory s a lp epoch true = .ok s') :
    s.hist a lp ≠ [] ∧ ∀ x ∈ s'.hist a lp, epoch ≤ x.1 := by
  unfold syncHistory at h
  by_cases hem : (s.hist a lp).isEmpty = true
  · simp [hem] at h; cases h
  · refine ⟨fun hnil => hem (by rw [hnil]; rfl), ?_⟩
    simp only [hem, Bool.false_eq_true, if_false, Bool.not_true] at h
    cases hl : (List.filter (fun x => decide (x.fst ≤ epoch)) (s.hist a lp)).getLast? with
    | none =>
      rw [hl] at h
      simp only [pure_ok] at h
      subst h
      intro x hx
      rw [List.getLast?_eq_none_iff, List.filter_eq_nil_iff] at hl
      have := hl x hx
      simp only [decide_eq_true_eq] at this
      omega
    | some p =>
      obtain ⟨k, w⟩ := p
      rw [hl] at h
      simp only [pure_ok] at h
      subst h
      intro x hx
      simp only [FmState.setHist, and_self, if_true] at hx
      rcases mem_histSet hx with rfl | hx
      · exact Nat.le_refl _
      · have := (List.mem_filter.1 hx).2
        simp only [decide_eq_true_eq] at this
        omega


/-- the farms a claim for `lp` looks at -/
def claimFarms (s : FmState) (lp : Denom) : List Farm := s.farmsByLp lp s.config.maxConcurrentFarms

/-- what the ledger says a claim up to `u` owes for farm `f` -/
def claimOwed (s : FmState) (env : FmEnv) (sender : Addr) (lp : Denom) (u : Nat) : Farm → Nat :=
  owed (s.hist sender lp) (s.hist env.self lp)
    (Spec.firstEpoch (s.lastClaimed sender) (entry (s.hist sender lp))) u

/-- closed form of an accepted single-LP claim -/
structure ClaimChar (s s' : FmState) (env : FmEnv) (sender : Addr) (lp : Denom) (u : Nat) (r : Response) :
    Prop where
  cursor_le : ∀ l, s.lastClaimed sender = some l → l ≤ u
  paid : ∀ d, C05.outflow r.msgs d =
    dsum (claimFarms s lp) (·.assetDenom == d) (claimOwed s env sender lp u)
  farms : s'.farms = s.farms.map
    (addC fun id => dsum (claimFarms s lp) (·.id == id) (claimOwed s env sender lp u))
  last : s'.lastClaimed = fun x => if x = sender then some u else s.lastClaimed x
  asc : Asc (s'.hist sender lp)
  weights : ∀ e, u ≤ e → Spec.weightAt (s'.hist sender lp) e = Spec.weightAt (s.hist sender lp) e
  entries : ∀ x ∈ s'.hist sender lp, u ≤ x.1
  total : s'.hist env.self lp = s.hist env.self lp
  positions : s'.positions = s.positions
  config : s'.config = s.config
  nonempty : s.hist sender lp ≠ []

theorem claim_char {s s' : FmState} {env : FmEnv} {sender : Addr} {u : Nat} {r : Response} {lp : Denom}
    (hself : sender ≠ env.self)
    (hone : uniqueDenoms (s.positionsBy sender true) = [lp])
    (hsu : Asc (s.hist sender lp)) (hst : Asc (s.hist env.self lp))
    (hcomp : ∀ l, s.lastClaimed sender = some l → ∀ x ∈ s.hist sender lp, l ≤ x.1)
    (hids : (s.farms.map (·.id)).Nodup)
    (h : fmClaim s env sender [] (some u) = .ok (s', r)) : ClaimChar s s' env sender lp u r := by
  obtain ⟨cur, untilE, sF, total, msgs, _, hop, hcur, hun, hfold, rfl, rfl, hm⟩ := fmClaim_ok h
  have hu : untilE = u := (untilEpochOrCurrent_ok hun).2 u rfl
  subst hu
  rw [hone, List.foldlM_cons, bind_ok] at hfold
  obtain ⟨st1, h1, h2⟩ := hfold
  simp only [List.foldlM_nil, pure_ok] at h2
  subst h2
  unfold Farm.claimStep at h1
  simp only [bind_ok, pure_ok] at h1
  obtain ⟨rc, hrc, s1, hs1, s2, hs2, hst1⟩ := h1
  have hs1' : rc.modified.foldlM modStep s = .ok s1 := hs1
  obtain ⟨m1, m2, m3, m4, m5⟩ := modFold_char _ hids hs1'
  have hsu1 : Asc (s1.hist sender lp) := by rw [m2]; exact hsu
  obtain ⟨y1, y2, _, y4, y5, y6, y7, y8⟩ := sync_spec hsu1 hs2
  obtain ⟨z1, z2⟩ := sync_entries hs2
  rw [m2] at z1 y2
  obtain ⟨c1, c2, c3⟩ := calculateRewards_char hsu hst z1 hcomp hrc
  cases hst1
  simp only [List.nil_append] at hm
  refine ⟨c1, ?_, ?_, ?_, y1, y2, z2, ?_, ?_, ?_, z1⟩
  · intro d
    show C05.outflow (Response.ofMsgs msgs [("action", "claim")]).msgs d = _
    unfold Response.ofMsgs
    simp only
    rw [C05.outflow_ofMsgs]
    unfold claimFarms claimOwed
    rw [← c2 d]
    rcases hm with ⟨hte, rfl⟩ | ⟨hte, agg, hagg, rfl⟩
    · have : rc.rewards = [] := List.isEmpty_iff.1 hte
      rw [this, C05.coinsOf_nil]; rfl
    · simp only [List.map_cons, List.map_nil, List.sum_cons, List.sum_nil, C05.msgOut, Nat.add_zero]
      exact C05.aggregateCoins_coinsOf hagg d
  · show sF.farms = _
    rw [y5, m1]
    apply List.map_congr_left
    intro q _
    unfold addC claimFarms claimOwed
    rw [c3 q.id]
  · show (fun a => if a = sender then some untilE else sF.lastClaimed a) = _
    rw [y6, m3]
  · show sF.hist env.self lp = _
    rw [y4 env.self lp (by intro hh; simp only [Prod.mk.injEq] at hh; exact hself hh.1.symm), m2]
  · show sF.positions = _
    rw [y7, m4]
  · show sF.config = _
    rw [y8, m5]


theorem dsum_add (fs : List Farm) (p : Farm → Bool) (δ1 δ2 : Farm → Nat) :
    dsum fs p δ1 + dsum fs p δ2 = dsum fs p (fun f => δ1 f + δ2 f) := by
  unfold dsum
  rw [← sum_map_add]
  congr 1
  apply List.map_congr_left
  intro f _
  split <;> rfl

theorem dsum_map (fs : List Farm) (g : Farm → Farm) (p : Farm → Bool) (δ : Farm → Nat) :
    dsum (fs.map g) p δ = dsum fs (fun f => p (g f)) (fun f => δ (g f)) := by
  unfold dsum
  rw [List.map_map]
  rfl

theorem dsum_congr {fs : List Farm} {p p' : Farm → Bool} {δ δ' : Farm → Nat}
    (h : ∀ f ∈ fs, p f = p' f ∧ δ f = δ' f) : dsum fs p δ = dsum fs p' δ' := by
  unfold dsum
  congr 1
  apply List.map_congr_left
  intro f hf
  rw [(h f hf).1, (h f hf).2]

theorem weightAt_before_entry {uh : List (Nat × Nat)} (hs : Asc uh) {e : Nat} (he : e < entry uh) :
    Spec.weightAt uh e = 0 := by
  cases uh with
  | nil => rfl
  | cons y ys =>
    rw [weightAt_eq]
    apply wAtD_of_forall_gt
    intro x hx
    have he' : e < y.1 := he
    simp only [List.mem_cons] at hx
    rcases hx with rfl | hx
    · exact he'
    · have := (List.pairwise_cons.1 hs).1 x hx; omega

/-- the ledger entitlement up to `a` plus the one for `(a, b]` is the one up to `b` -/
theorem owed_split {uh th : List (Nat × Nat)} (hs : Asc uh) {last : Option Nat} {a b : Nat}
    (hab : a ≤ b) (hl : ∀ l, last = some l → l ≤ a) (f : Farm) :
    owed uh th (Spec.firstEpoch last (entry uh)) a f + owed uh th (a + 1) b f =
      owed uh th (Spec.firstEpoch last (entry uh)) b f := by
  unfold owed
  by_cases hfirst : Spec.firstEpoch last (entry uh) ≤ a + 1
  · exact (spanReward_split (LF f) uh th _ a b hfirst hab).symm
  · have hnone : Spec.firstEpoch last (entry uh) = entry uh := by
      cases last with
      | none => rfl
      | some l => exfalso; apply hfirst; have := hl l rfl; show l + 1 ≤ a + 1; omega
    rw [hnone] at hfirst ⊢
    rw [spanReward_empty (LF f) uh th (by omega : a < entry uh), Nat.zero_add]
    by_cases hb : entry uh ≤ b + 1
    · rw [spanReward_split (LF f) uh th (a + 1) (entry uh - 1) b (by omega) (by omega)]
      rw [spanReward_zero (LF f) (uh := uh) (th := th) (first := a + 1) (until_ := entry uh - 1)
        (fun e _ h2 => Or.inl (weightAt_before_entry hs (by omega)))]
      have : entry uh - 1 + 1 = entry uh := by omega
      rw [this, Nat.zero_add]
    · rw [spanReward_empty (LF f) uh th (by omega : b < entry uh)]
      exact spanReward_zero (LF f) (fun e _ h2 => Or.inl (weightAt_before_entry hs (by omega)))

theorem farmsByLp_map_addC (s s1 : FmState) (lp : Denom) (D : String → Nat)
    (hf : s1.farms = s.farms.map (addC D)) (hc : s1.config = s.config) :
    claimFarms s1 lp = (claimFarms s lp).map (addC D) := by
  unfold claimFarms FmState.farmsByLp
  rw [hf, hc, List.filter_map, List.map_take]
  rfl


theorem split_core {s s1 s2 s' : FmState} {env : FmEnv} {sender : Addr} {a b : Nat}
    {r1 r2 r : Response} {lp : Denom}
    (hself : sender ≠ env.self)
    (hone : uniqueDenoms (s.positionsBy sender true) = [lp])
    (hsu : Asc (s.hist sender lp)) (hst : Asc (s.hist env.self lp))
    (hcomp : ∀ l, s.lastClaimed sender = some l → ∀ x ∈ s.hist sender lp, l ≤ x.1)
    (hids : (s.farms.map (·.id)).Nodup)
    (h1 : fmClaim s env sender [] (some a) = .ok (s1, r1))
    (h2 : fmClaim s1 env sender [] (some b) = .ok (s2, r2))
    (h : fmClaim s env sender [] (some b) = .ok (s', r)) :
    a ≤ b ∧ ClaimChar s s1 env sender lp a r1 ∧ ClaimChar s1 s2 env sender lp b r2 ∧
    ClaimChar s s' env sender lp b r ∧
    ∀ p : Farm → Bool, (∀ D q, p (addC D q) = p q) →
      dsum (claimFarms s lp) p (claimOwed s env sender lp a) +
        dsum (claimFarms s1 lp) p (claimOwed s1 env sender lp b) =
      dsum (claimFarms s lp) p (claimOwed s env sender lp b) := by
  have C1 := claim_char hself hone hsu hst hcomp hids h1
  have C := claim_char hself hone hsu hst hcomp hids h
  have hl1 : s1.lastClaimed sender = some a := by rw [C1.last]; simp
  have hone1 : uniqueDenoms (s1.positionsBy sender true) = [lp] := by
    unfold FmState.positionsBy; rw [C1.positions]; exact hone
  have hst1 : Asc (s1.hist env.self lp) := by rw [C1.total]; exact hst
  have hcomp1 : ∀ l, s1.lastClaimed sender = some l → ∀ x ∈ s1.hist sender lp, l ≤ x.1 := by
    intro l hl x hx
    rw [hl1] at hl; cases hl
    exact C1.entries x hx
  have hids1 : (s1.farms.map (·.id)).Nodup := by rw [C1.farms, map_addC_ids]; exact hids
  have C2 := claim_char hself hone1 C1.asc hst1 hcomp1 hids1 h2
  have hab : a ≤ b := C2.cursor_le a hl1
  refine ⟨hab, C1, C2, C, ?_⟩
  intro p hp
  rw [farmsByLp_map_addC s s1 lp _ C1.farms C1.config, dsum_map]
  simp only [hp]
  rw [dsum_add]
  apply dsum_congr
  intro f _
  refine ⟨rfl, ?_⟩
  unfold claimOwed
  rw [hl1, C1.total]
  have e1 : owed (s1.hist sender lp) (s.hist env.self lp) (Spec.firstEpoch (some a) (entry (s1.hist sender lp))) b
      (addC (fun id => dsum (claimFarms s lp) (fun x => x.id == id)
        (owed (s.hist sender lp) (s.hist env.self lp)
          (Spec.firstEpoch (s.lastClaimed sender) (entry (s.hist sender lp))) a)) f) =
      owed (s.hist sender lp) (s.hist env.self lp) (a + 1) b f := by
    unfold owed
    exact spanReward_congr (LF f) (fun e h1 _ => C1.weights e (by show a ≤ e; have : a + 1 ≤ e := h1; omega))
      (fun _ _ _ => rfl)
  rw [e1]
  exact owed_split hsu hab C1.cursor_le f

end MantraDex.Split
