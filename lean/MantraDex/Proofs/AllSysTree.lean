/-
  C01All: the execution tree of a single-asset deposit with everything the first leg recorded (the pool, the
  simulated swap, the buffer) — `LpSys.single_tree` with two more outputs.
-/
import MantraDex.Model.System
import MantraDex.Proofs.NumLemmas
import MantraDex.Proofs.LpSysCall

set_option linter.unusedSimpArgs false
set_option linter.unusedVariables false
set_option linter.tactic.unusedName false

namespace MantraDex.AllSys
open MantraDex MantraDex.LpSys
open MantraDex.C01 (coinsOf amt coinsOf_cons coinsOf_nil coinsOf_singleton)

theorem single_tree_full {w w' : World} {sender c : Addr} {coin : Coin} {ls ss : Option Nat} {rc : Option Addr}
    {pid : String} {u : Option Nat} {l : Option String} (hs : sender ≠ PM) (hc : Covers w.bank)
    (hr : execMsg FUEL w sender (.wasmExec c (.pm (.provideLiquidity ls ss rc pid u l)) [coin]) = .ok w') :
    ∃ (w1 w3 : World) (buf : SingleSideBuffer) (ask : Denom) (pool : PoolInfo) (sim : SwapComputation),
      FundsIn w w1 sender [coin] ∧
      w.pm.getPool pid = .ok pool ∧ computeSwap pool ⟨coin.denom, coin.amount / 2⟩ ask = .ok sim ∧
      buf.offerHalf = ⟨coin.denom, coin.amount / 2⟩ ∧ buf.expectedAsk = ⟨ask, sim.ret⟩ ∧ coin.denom ≠ ask ∧
      buf.receiver = addrOrDefault w1.pmEnv rc sender ∧ buf.poolId = pid ∧ buf.unlocking = u ∧
      (u.isSome → addrOrDefault w1.pmEnv rc sender = sender) ∧
      execMsg 62 { w1 with pm := { w.pm with buffer := some buf } } PM
        (.wasmExec PM (.pm (.swap ask none ss none pid)) [buf.offerHalf]) = .ok w3 ∧
      w3.pm.buffer = some buf ∧
      execMsg 61 { w3 with pm := { w3.pm with buffer := none } } PM
        (.wasmExec PM (.pm (.provideLiquidity buf.liqSlip buf.swapSlip (some buf.receiver) buf.poolId
          buf.unlocking buf.lockId)) [buf.offerHalf, buf.expectedAsk]) = .ok w' := by
  rw [show FUEL = 63 + 1 from rfl] at hr
  obtain ⟨w1, w2, resp, hw1, hce, hsubs⟩ := SysPm.wasm_inv hr
  simp only [callExecute] at hce
  split at hce
  · cases hce
  rename_i hcc
  have hcc : c = PM := by simpa using hcc
  subst hcc
  obtain ⟨⟨s2, r2⟩, hpe, hce⟩ := bind_ok.mp hce
  simp only [pure_ok, Prod.mk.injEq] at hce
  obtain ⟨hw2, hresp⟩ := hce
  subst hw2; subst hresp
  have fi := fundsIn hw1 hc
  -- the first leg
  simp only [pmExecute] at hpe
  obtain ⟨pool, -, -, hp, hauth, -⟩ := pl_single (agg_single coin) hpe
  obtain ⟨buf, sim, ask, hs2, hsim, hoh, hea, heo, hexa, hrecv, hpid, hu, -, -, -, hmsgs⟩ := C14.first_leg_shape hp hpe
  rw [hmsgs] at hsubs
  obtain ⟨m, w3, w4, resp4, hm, hswap, hreply, hsubs4⟩ := SysPm.subs_single_success rfl hsubs
  obtain rfl : m = 62 := by omega
  -- the nested swap
  have hswap' : execMsg (61 + 1) { w1 with pm := s2 } PM
      (.wasmExec PM (.pm (.swap ask none ss none pid)) [buf.offerHalf]) = .ok w3 := hswap
  obtain ⟨-, w2a, s3, r3, fi2, hsw, hpm3, -, -, -, -, -⟩ :=
    pm_call (w := { w1 with pm := s2 }) (funds := [buf.offerHalf]) (m := .swap ask none ss none pid) (by simp) trivial fi.cov hswap'
  have hbuf3 : w3.pm.buffer = some buf := by
    rw [hpm3, handler_buffer (funds := [buf.offerHalf]) (m := .swap ask none ss none pid) (by simp) trivial hsw, hs2]
  have hne : coin.denom ≠ ask := by
    simp only [pmExecute] at hsw
    obtain ⟨offer, sr, hoff, hps, -⟩ := C04.swapHandler_messages hsw
    have hoff' : offer = ⟨coin.denom, coin.amount / 2⟩ := by
      rw [hoh] at hoff
      simpa using hoff.symm
    subst hoff'
    have := SysPm.performSwap_denoms_ne hps
    exact this
  -- the reply
  simp only [callReply, beq_self_eq_true, if_true] at hreply
  obtain ⟨⟨s4, r4⟩, hrep, hreply⟩ := bind_ok.mp hreply
  simp only [pure_ok, Prod.mk.injEq] at hreply
  obtain ⟨rfl, rfl⟩ := hreply
  obtain ⟨-, -, hs4, hmsgs4⟩ := C14.reply_shape hbuf3 hrep
  -- the second leg
  rw [hmsgs4] at hsubs4
  obtain ⟨m, hm, hsecond⟩ := SysPm.subs_single_never rfl hsubs4
  obtain rfl : m = 61 := by omega
  subst hs4
  refine ⟨w1, w3, buf, ask, pool, sim, fi, by rw [← fi.pm]; exact hp, hsim, hoh, hea, hne, hrecv, hpid, hu, ?_, ?_, hbuf3, hsecond⟩
  · intro hu'
    have := hauth
    rw [hu', Bool.true_and] at this
    simpa using this
  · rw [hs2, fi.pm] at hswap'
    exact hswap'

end MantraDex.AllSys
