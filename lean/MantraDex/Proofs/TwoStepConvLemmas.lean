/-
  Helper lemmas for `Properties/C14Conv.lean` (the converse of `C14Eq`): BUILDING the accepted run of a single-asset
  deposit from the two accepted runs of the two-step route (swap half, then deposit both).

  * what an accepted `performSwap` (no belief price) tells beyond `C12.performSwap_inv`: fees fit, the return is
    non-zero (a zero return is 100 % slippage, above the allowed maximum), the new pool is the old one with other
    reserves;
  * on a two-asset pool, "the other asset" found by the single-asset branch is the swap's ask denom (and, from
    `Proofs/TwoStepConvReserves.lean`, an accepted swap means that no reserve is empty);
  * the single-asset branch of `provideLiquidity`, forwards;
  * `mints_rel` in the other direction.
-/
import MantraDex.Model.System
import MantraDex.Proofs.NumLemmas
import MantraDex.Proofs.BankLemmas
import MantraDex.Proofs.ProvideLemmas
import MantraDex.Proofs.TwoStepLemmas
import MantraDex.Proofs.TolTx
import MantraDex.Proofs.PoolTxProvide
import MantraDex.Proofs.TwoStepConvReserves
import MantraDex.Properties.C12
import MantraDex.Properties.C14
import MantraDex.Properties.C17

set_option linter.unusedSimpArgs false
set_option linter.unusedVariables false

namespace MantraDex.TwoStepConv
open MantraDex
open MantraDex.C01 (coinsOf amt coinsOf_cons coinsOf_nil)

/-! ### the swap -/

theorem maxSlippage_lt_one : C.MAX_ALLOWED_SLIPPAGE < ONE18 := by decide

/-- without a belief price a swap that returns nothing is refused: its slippage ratio is 100 % -/
theorem assertMaxSlippage_ret_ne_zero {ms : Option Nat} {offer ret slip : Nat}
    (h : assertMaxSlippage none ms offer ret slip = .ok ()) : ret ≠ 0 := by
  unfold assertMaxSlippage at h
  simp only [bind_ok, fit_ok, orPanic_ok, decFromRatio_ok] at h
  obtain ⟨tot, ⟨_, rfl⟩, ratio, ⟨hne, _, rfl⟩, h⟩ := h
  intro h0
  subst h0
  simp only [Nat.zero_add] at hne h
  rw [Nat.mul_div_cancel_left _ (Nat.pos_of_ne_zero hne)] at h
  split at h
  · cases h
  · rename_i hgt
    have := maxSlippage_lt_one
    have h2 : min (ms.getD C.DEFAULT_SLIPPAGE) C.MAX_ALLOWED_SLIPPAGE ≤ C.MAX_ALLOWED_SLIPPAGE := Nat.min_le_right _ _
    omega

/-- an accepted `performSwap` without a belief price, with the facts `C12.performSwap_inv` leaves out -/
theorem performSwap_more {s s' : PmState} {offer : Coin} {ask : Denom} {pid : String}
    {ms : Option Nat} {r : SwapResult} (h : performSwap s offer ask pid none ms = .ok (s', r)) :
    ∃ pool c idx as', s.getPool pid = .ok pool ∧ getAssetIndexes pool offer.denom ask = .ok idx ∧
      computeSwap pool offer ask = .ok c ∧
      c.protocolFee + c.burnFee ≤ U128_MAX ∧ c.ret ≠ 0 ∧
      s' = s.savePool { pool with assets := as' } ∧
      r.ret = ⟨ask, c.ret⟩ ∧ r.burnFee = ⟨ask, c.burnFee⟩ ∧ r.protocolFee = ⟨ask, c.protocolFee⟩ := by
  unfold performSwap at h
  simp only [bind_ok, pure_ok, ckAdd_ok] at h
  obtain ⟨pool, hp, idx, hidx, c, hc, u, hslip, oc, hoc, newOffer, hno, outgoing, ⟨hout, rfl⟩, ac, hac, a1, ha1,
    a2, ha2, hr⟩ := h
  simp only [Prod.mk.injEq] at hr
  obtain ⟨rfl, rfl⟩ := hr
  cases u
  exact ⟨pool, c, idx, _, hp, hidx, hc, hout, assertMaxSlippage_ret_ne_zero hslip, rfl, rfl, rfl, rfl⟩

theorem getAssetIndexes_idx {pool : PoolInfo} {o ask : Denom} {idx : Coin × Coin × Nat × Nat × Nat × Nat}
    (h : getAssetIndexes pool o ask = .ok idx) :
    ∃ oi ai, findIdx (fun c : Coin => c.denom == o) pool.assets = some oi ∧
      findIdx (fun c : Coin => c.denom == ask) pool.assets = some ai ∧ oi ≠ ai := by
  unfold getAssetIndexes at h
  cases ho : findIdx (fun c : Coin => c.denom == o) pool.assets with
  | none => rw [ho] at h; simp only [↓err_bind_ok] at h
  | some oi =>
    cases ha : findIdx (fun c : Coin => c.denom == ask) pool.assets with
    | none => rw [ho, ha] at h; simp only [↓pure_bind', ↓err_bind_ok] at h
    | some ai =>
      rw [ho, ha] at h
      simp only [↓pure_bind'] at h
      refine ⟨oi, ai, rfl, rfl, ?_⟩
      intro e
      subst e
      simp at h

/-- on a two-asset pool the asset that is not the offered one is the ask asset -/
theorem other_asset {pool : PoolInfo} {o ask : Denom} {idx : Coin × Coin × Nat × Nat × Nat × Nat}
    (hlen : pool.assets.length = 2) (h : getAssetIndexes pool o ask = .ok idx) :
    pool.assets.any (·.denom == o) = true ∧
    ∃ c', pool.assets.find? (·.denom != o) = some c' ∧ c'.denom = ask := by
  obtain ⟨oi, ai, ho, ha, hne⟩ := getAssetIndexes_idx h
  match hpa : pool.assets, hlen with
  | [a0, a1], _ =>
    rw [hpa] at ho ha
    simp only [findIdx] at ho ha
    by_cases h0 : a0.denom = o
    · have e0 : (a0.denom == o) = true := by simpa using h0
      rw [if_pos e0] at ho
      by_cases h0' : a0.denom = ask
      · have e0' : (a0.denom == ask) = true := by simpa using h0'
        rw [if_pos e0'] at ha
        cases ho; cases ha
        exact absurd rfl hne
      · have e0' : ¬ (a0.denom == ask) = true := by simpa using h0'
        rw [if_neg e0'] at ha
        by_cases h1' : a1.denom = ask
        · have hne' : a1.denom ≠ o := by rw [h1', ← h0]; exact fun e => h0' e.symm
          have x0 : (a0.denom != o) = false := by simp [h0]
          have x1 : (a1.denom != o) = true := by simpa using hne'
          refine ⟨by simp [h0], a1, ?_, h1'⟩
          simp only [List.find?, x0, x1]
        · have e1' : ¬ (a1.denom == ask) = true := by simpa using h1'
          rw [if_neg e1'] at ha
          cases ha
    · have e0 : ¬ (a0.denom == o) = true := by simpa using h0
      rw [if_neg e0] at ho
      by_cases h1 : a1.denom = o
      · have e1 : (a1.denom == o) = true := by simpa using h1
        rw [if_pos e1] at ho
        by_cases h0' : a0.denom = ask
        · have x0 : (a0.denom != o) = true := by simpa using h0
          refine ⟨by simp [h1], a0, ?_, h0'⟩
          simp only [List.find?, x0]
        · have e0' : ¬ (a0.denom == ask) = true := by simpa using h0'
          rw [if_neg e0'] at ha
          by_cases h1' : a1.denom = ask
          · have e1' : (a1.denom == ask) = true := by simpa using h1'
            rw [if_pos e1'] at ha
            cases ho; cases ha
            exact absurd rfl hne
          · have e1' : ¬ (a1.denom == ask) = true := by simpa using h1'
            rw [if_neg e1'] at ha
            cases ha
      · have e1 : ¬ (a1.denom == o) = true := by simpa using h1
        rw [if_neg e1] at ho
        cases ho

theorem computeSwap_indexes {pool : PoolInfo} {offer : Coin} {ask : Denom} {c : SwapComputation}
    (h : computeSwap pool offer ask = .ok c) : ∃ idx, getAssetIndexes pool offer.denom ask = .ok idx := by
  unfold computeSwap at h
  obtain ⟨idx, hidx, -⟩ := bind_ok.mp h
  exact ⟨idx, hidx⟩

/-! ### the deposit handler -/

theorem pl_deposits_enabled {s s' : PmState} {env : PmEnv} {sender : Addr} {funds : List Coin}
    {ls ss : Option Nat} {recv : Option Addr} {pid : String} {u : Option Nat} {l : Option String}
    {r : Response} (h : provideLiquidity s env sender funds ls ss recv pid u l = .ok (s', r)) :
    ∃ pool, s.getPool pid = .ok pool ∧ pool.status.deposits = true := by
  unfold provideLiquidity at h
  simp only [↓ok_bind, ↓ite_err_bind_ok, ↓bind_ok, ↓err_bind_ok] at h
  obtain ⟨pool, hp, hst, -⟩ := h
  exact ⟨pool, hp, by simpa using hst⟩

/-- what the first leg of an unlocked single-asset deposit parks in the buffer -/
def singleBuf (env : PmEnv) (sender : Addr) (c : Coin) (ls ss : Option Nat) (recv : Option Addr) (pid : String)
    (ask : Denom) (sim : SwapComputation) : SingleSideBuffer := {
  receiver := addrOrDefault env recv sender, expOffer := ⟨c.denom, env.bal env.self c.denom⟩,
  expAsk := ⟨ask, env.bal env.self ask - (sim.protocolFee + sim.burnFee)⟩,
  offerHalf := ⟨c.denom, c.amount / 2⟩,
  expectedAsk := ⟨ask, sim.ret⟩, swapSlip := ss, liqSlip := ls, poolId := pid,
  unlocking := none, lockId := none }

/-- the single-asset branch of `provideLiquidity` (no lock), forwards: every check listed, the outcome explicit -/
theorem pl_single_fwd {s : PmState} {env : PmEnv} {sender : Addr} {c : Coin} {ls ss : Option Nat}
    {recv : Option Addr} {pid : String} {pool : PoolInfo} {ask : Denom} {c' : Coin} {sim : SwapComputation}
    (hp : s.getPool pid = .ok pool) (hst : pool.status.deposits = true)
    (hin : pool.assets.any (·.denom == c.denom) = true)
    (hnz : pool.assets.any (·.amount == 0) = false) (hlen : pool.assets.length = 2)
    (hfind : pool.assets.find? (·.denom != c.denom) = some c') (hask : c'.denom = ask)
    (hsim : computeSwap pool ⟨c.denom, c.amount / 2⟩ ask = .ok sim)
    (hout : sim.protocolFee + sim.burnFee ≤ U128_MAX)
    (hexp : env.bal env.self ask - (sim.protocolFee + sim.burnFee) ≠ 0) :
    provideLiquidity s env sender [c] ls ss recv pid none none =
      .ok ({ s with buffer := some (singleBuf env sender c ls ss recv pid ask sim) },
        { msgs := [{ msg := .wasmExec env.self (.pm (.swap ask none ss none pid)) [⟨c.denom, c.amount / 2⟩],
                     replyOn := .success, id := C.SINGLE_SIDE_REPLY_ID }],
          attrs := [("action", "single_side_liquidity_provision")] }) := by
  subst hask
  unfold provideLiquidity
  have hck : ckAdd U128_MAX sim.protocolFee sim.burnFee = .ok (sim.protocolFee + sim.burnFee) := by
    rw [ckAdd_ok]; exact ⟨hout, rfl⟩
  have hall : ([c].all fun a => pool.assets.any (·.denom == a.denom)) = true := by
    simp only [List.all_cons, List.all_nil, Bool.and_true]; exact hin
  have hlen' : (pool.assets.length != 2) = false := by simp [hlen]
  simp only [agg_single, hp, ↓ok_bind, hst, hall, hnz, hlen', hfind, hsim, hck, Bool.false_eq_true, ↓reduceIte,
    List.isEmpty_cons, List.length_singleton, ↓pure_bind', getD?, List.getElem?_cons_zero, if_neg hexp,
    Bool.not_true, Option.isSome_none, Bool.false_and]
  rfl


/-! ### the bank side: the single-asset run exists whenever the swap of the two-step route went through -/

theorem normalize_single {c : Coin} (h : c.amount ≠ 0) : normalizeCoins [c] = .ok [c] := by
  simp [normalizeCoins, h]

theorem normalize_pair {c1 c2 : Coin} (h : c1.amount ≠ 0) : ∃ r, normalizeCoins [c1, c2] = .ok r := by
  unfold normalizeCoins
  by_cases h2 : c2.amount = 0
  · exact ⟨[c1], by simp [h, h2]⟩
  · exact ⟨[c1, c2], by simp [h, h2]⟩

/-- from the bank operations of the swap transaction of the two-step route (funds in, proceeds to `u`, burn fee
    burned, protocol fee to the collector) to those of the single-asset deposit up to the second leg's funds:
    the whole deposit in, the half to the pool manager itself, the swap messages with the pool manager as
    receiver, the two balance checks of the reply, and the self-transfer of the second leg.  Needs the fee
    collector to be somebody else than the pool manager (otherwise the reply's ask-side check fails). -/
theorem bank_single_ex {tf : List Coin} {b0 bB1 bB2 : Bank} {u fc : Addr} {o k : Denom} {am ret burn prot : Nat}
    (hu : u ≠ PM) (hok : k ≠ o) (hfc : fc ≠ PM) (hf0 : b0.failAt = none) (hown : am ≤ b0.bal u o)
    (ham : am / 2 ≠ 0)
    (hB1 : b0.send u PM [⟨o, am / 2⟩] = .ok bB1)
    (hB2 : bankRun tf bB1 PM (swapMsgs u fc ⟨k, ret⟩ ⟨k, burn⟩ ⟨k, prot⟩) = .ok bB2) :
    ∃ bA1 bA2 bA3 bA4, b0.send u PM [⟨o, am⟩] = .ok bA1 ∧ bA1.send PM PM [⟨o, am / 2⟩] = .ok bA2 ∧
      bankRun tf bA2 PM (swapMsgs PM fc ⟨k, ret⟩ ⟨k, burn⟩ ⟨k, prot⟩) = .ok bA3 ∧
      bA3.bal PM o = bA1.bal PM o ∧ bA3.bal PM k = bA1.bal PM k - (prot + burn) ∧
      ret + (prot + burn) ≤ bA1.bal PM k ∧
      bA3.send PM PM [⟨o, am / 2⟩, ⟨k, ret⟩] = .ok bA4 := by
  have hu' : PM ≠ u := fun e => hu e.symm
  have hok' : o ≠ k := fun e => hok e.symm
  have hfc' : PM ≠ fc := fun e => hfc e.symm
  have ham' : am ≠ 0 := by omega
  obtain ⟨_, N1⟩ := send_spec hB1
  obtain ⟨xB, yB, N2a, N2b, N2c⟩ := swapMsgs_spec hB2
  -- the whole deposit moves in
  obtain ⟨bA1, h1⟩ : ∃ b', b0.send u PM [⟨o, am⟩] = .ok b' := by
    refine send_ex hf0 (normalize_single (c := ⟨o, am⟩) ham') ?_
    intro d
    bank_pt o k d
  obtain ⟨_, M1⟩ := send_spec h1
  have hfA1 : bA1.failAt = none := by rw [M1.fa]; exact hf0
  -- the half goes from the pool manager to itself
  obtain ⟨bA2, h2⟩ : ∃ b', bA1.send PM PM [⟨o, am / 2⟩] = .ok b' := by
    refine send_ex hfA1 (normalize_single (c := ⟨o, am / 2⟩) ham) ?_
    intro d
    have a1 := M1.bal PM d
    bank_pt o k d
  obtain ⟨_, M2⟩ := send_spec h2
  have hfA2 : bA2.failAt = none := by rw [M2.fa]; exact hfA1
  -- the swap messages
  obtain ⟨xA, yA, bA3, M3a, M3b, M3c, h3⟩ : ∃ x y b', Moves bA2 x PM PM [⟨k, ret⟩] ∧ Burns x y PM [⟨k, burn⟩] ∧
      Moves y b' PM fc [⟨k, prot⟩] ∧ bankRun tf bA2 PM (swapMsgs PM fc ⟨k, ret⟩ ⟨k, burn⟩ ⟨k, prot⟩) = .ok b' := by
    apply swapMsgs_ex hfA2
    · intro d
      have a1 := M1.bal PM d
      have a2 := M2.bal PM d
      have e1 := N1.bal PM d
      have e2 := N2a.le d
      bank_pt o k d
    · intro xA M3a d
      have a1 := M1.bal PM d
      have a2 := M2.bal PM d
      have a3 := M3a.bal PM d
      have e1 := N1.bal PM d
      have e2 := N2a.le d
      have e2' := N2a.bal PM d
      have e3 := N2b.le d
      bank_pt o k d
    · intro xA yA M3a M3b d
      have a1 := M1.bal PM d
      have a2 := M2.bal PM d
      have a3 := M3a.bal PM d
      have a4 := M3b.bal PM d
      have e1 := N1.bal PM d
      have e2 := N2a.le d
      have e2' := N2a.bal PM d
      have e3 := N2b.le d
      have e3' := N2b.bal PM d
      have e4 := N2c.le d
      bank_pt o k d
  have hfA3 : bA3.failAt = none := by rw [M3c.fa, M3b.fa, M3a.fa]; exact hfA2
  -- what the pool manager holds afterwards
  have hbal : ∀ d, bA3.bal PM d + (if k = d then prot + burn else 0) = bA1.bal PM d ∧
      (if k = d then ret + (prot + burn) else 0) ≤ bA1.bal PM d ∧
      (if o = d then am / 2 else 0) ≤ bA1.bal PM d := by
    intro d
    have a1 := M1.bal PM d
    have a2 := M2.bal PM d
    have a3 := M3a.bal PM d
    have a4 := M3b.bal PM d
    have a5 := M3c.bal PM d
    have e1 := N1.bal PM d
    have e2 := N2a.le d
    have e2' := N2a.bal PM d
    have e3 := N2b.le d
    have e3' := N2b.bal PM d
    have e4 := N2c.le d
    bank_pt o k d
  have hbo := hbal o
  have hbk := hbal k
  simp only [hok, hok', if_true, if_false, Nat.add_zero] at hbo hbk
  -- the funds of the second leg
  obtain ⟨rn, hn4⟩ := normalize_pair (c1 := ⟨o, am / 2⟩) (c2 := ⟨k, ret⟩) ham
  obtain ⟨bA4, h4⟩ : ∃ b', bA3.send PM PM [⟨o, am / 2⟩, ⟨k, ret⟩] = .ok b' := by
    refine send_ex hfA3 hn4 ?_
    intro d
    have := hbal d
    bank_pt o k d
  exact ⟨bA1, bA2, bA3, bA4, h1, h2, h3, hbo.1, by omega, hbk.2.1, h4⟩


/-- what the swapper holds of the ask denom after the swap transaction, when it is not the fee collector -/
theorem swap_proceeds {tf : List Coin} {b0 bB1 bB2 : Bank} {u fc : Addr} {o k : Denom} {h ret burn prot : Nat}
    (hu : u ≠ PM) (hok : k ≠ o) (hfcu : fc ≠ u)
    (hB1 : b0.send u PM [⟨o, h⟩] = .ok bB1)
    (hB2 : bankRun tf bB1 PM (swapMsgs u fc ⟨k, ret⟩ ⟨k, burn⟩ ⟨k, prot⟩) = .ok bB2) :
    bB2.bal u k = b0.bal u k + ret := by
  have hu' : PM ≠ u := fun e => hu e.symm
  have hok' : o ≠ k := fun e => hok e.symm
  have hfcu' : u ≠ fc := fun e => hfcu e.symm
  obtain ⟨_, N1⟩ := send_spec hB1
  obtain ⟨xB, yB, N2a, N2b, N2c⟩ := swapMsgs_spec hB2
  have key : ∀ d, k = d → bB2.bal u d = b0.bal u d + ret := by
    intro d hkd
    have e1 := N1.bal u d
    have e2 := N2a.bal u d
    have e3 := N2b.bal u d
    have e4 := N2c.bal u d
    bank_pt o k d
  exact key k rfl

/-! ### mints, from the two-step run to the single-asset run -/

theorem mints_rel_conv {tf : List Coin} (ms : List Msg) (hm : ∀ m ∈ ms, IsMint m) {bA bB bB' : Bank} {u : Addr}
    {o : Denom} {r : Nat} (hrel : OddRel bA bB u o r) (h : bankRun tf bB PM ms = .ok bB') :
    ∃ bA', bankRun tf bA PM ms = .ok bA' ∧ OddRel bA' bB' u o r := by
  induction ms generalizing bA bB with
  | nil =>
    simp only [bankRun] at h
    cases h
    exact ⟨bA, rfl, hrel⟩
  | cons m ms ih =>
    obtain ⟨coin, to, rfl⟩ := hm m (List.mem_cons_self ..)
    simp only [bankRun, bankStep] at h ⊢
    obtain ⟨b2, h2, h⟩ := bind_ok.mp h
    obtain ⟨⟨rr, hn⟩, MB⟩ := mint_spec h2
    obtain ⟨hs, hfA, hfB, hb⟩ := hrel
    obtain ⟨b1, h1⟩ := mint_ex (to := to) hfA hn
    obtain ⟨_, MA⟩ := mint_spec h1
    have hrel' : OddRel b1 b2 u o r := by
      refine ⟨?_, by rw [MA.fa]; exact hfA, by rw [MB.fa]; exact hfB, ?_⟩
      · funext d
        rw [MA.sup, MB.sup, hs]
      · intro a d
        have := hb a d
        rw [MA.bal, MB.bal]
        omega
    obtain ⟨bA', h3, hrel''⟩ := ih (fun x hx => hm x (List.mem_cons_of_mem _ hx)) hrel' h
    refine ⟨bA', ?_, hrel''⟩
    rw [h1]
    exact h3

/-! ### the execution tree of the single-asset deposit, forwards (converse of `single_run_inv`) -/

theorem single_run_fwd {w : World} {b0 bA1 bA2 bA3 bA4 bA5 : Bank} {s0 : PmState} {u : Addr} {c : Coin}
    {ls ss : Option Nat} {recv : Option Addr} {pid : String} {pool : PoolInfo} {ask : Denom} {c' : Coin}
    {sim : SwapComputation} {y : PmState × SwapResult} {sA6 : PmState} {rA6 : Response} {ms : List Msg}
    (hp : s0.getPool pid = .ok pool) (hst : pool.status.deposits = true)
    (hin : pool.assets.any (·.denom == c.denom) = true)
    (hnz : pool.assets.any (·.amount == 0) = false) (hlen : pool.assets.length = 2)
    (hfind : pool.assets.find? (·.denom != c.denom) = some c') (hask : c'.denom = ask)
    (hsim : computeSwap pool ⟨c.denom, c.amount / 2⟩ ask = .ok sim)
    (hout : sim.protocolFee + sim.burnFee ≤ U128_MAX)
    (h1 : b0.send u PM [c] = .ok bA1)
    (hexp : bA1.bal PM ask - (sim.protocolFee + sim.burnFee) ≠ 0)
    (h2 : bA1.send PM PM [⟨c.denom, c.amount / 2⟩] = .ok bA2)
    (hcore : swapCore s0 [⟨c.denom, c.amount / 2⟩] ask none ss pid = .ok y)
    (h3 : bankRun w.tfFees bA2 PM
        (swapMsgs PM s0.config.feeCollector y.2.ret y.2.burnFee y.2.protocolFee) = .ok bA3)
    (e1 : bA3.bal PM c.denom = bA1.bal PM c.denom)
    (e2 : bA3.bal PM ask = bA1.bal PM ask - (sim.protocolFee + sim.burnFee))
    (h4 : bA3.send PM PM [⟨c.denom, c.amount / 2⟩, ⟨ask, sim.ret⟩] = .ok bA4)
    (hprov2 : provideLiquidity { y.1 with buffer := none } (w.env bA4 { y.1 with buffer := none }) PM
        [⟨c.denom, c.amount / 2⟩, ⟨ask, sim.ret⟩] ls ss
        (some (addrOrDefault (w.env bA1 s0) recv u)) pid none none = .ok (sA6, rA6))
    (hms : rA6.msgs = ms.map mkSub) (hmint : ∀ m ∈ ms, IsMint m) (hfuel : ms.length + 1 ≤ 60)
    (h5 : bankRun w.tfFees bA4 PM ms = .ok bA5) :
    execMsg 64 (w.at b0 s0) u
      (.wasmExec PM (.pm (.provideLiquidity ls ss recv pid none none)) [c]) = .ok (w.at bA5 sA6) := by
  have h64 : (64 : Nat) = 63 + 1 := rfl
  rw [h64, execMsg_pm_at 63 w b0 s0 u _ [c] rfl, h1]
  simp only [ok_bind, pmExecute]
  have hexp' : (w.env bA1 s0).bal (w.env bA1 s0).self ask - (sim.protocolFee + sim.burnFee) ≠ 0 := hexp
  rw [pl_single_fwd (env := w.env bA1 s0) (sender := u) (ls := ls) (ss := ss) (recv := recv)
    hp hst hin hnz hlen hfind hask hsim hout hexp']
  simp only [ok_bind]
  let B : SingleSideBuffer := singleBuf (w.env bA1 s0) u c ls ss recv pid ask sim
  refine TolTx.execSubs_one_success_intro (n := 62) (w1 := w.at bA3 { y.1 with buffer := some B })
    (w2 := w.at bA3 { y.1 with buffer := none }) (r := Response.ofMsgs [C14.secondLegMsg PM B]) ?_ ?_ ?_
  · -- the inner swap
    show execMsg (61 + 1) (w.at bA1 { s0 with buffer := some B }) PM
      (.wasmExec PM (.pm (.swap ask none ss none pid)) [⟨c.denom, c.amount / 2⟩]) = _
    rw [execMsg_pm_at 61 w bA1 _ PM _ _ rfl, h2]
    simp only [ok_bind, pmExecute]
    rw [swapHandler_eq, swapCore_buf, hcore]
    show execSubs 61 (w.at bA2 { y.1 with buffer := some B }) PM
      ((swapMsgs PM s0.config.feeCollector y.2.ret y.2.burnFee y.2.protocolFee).map mkSub) = _
    rw [execSubs_leaf_at _ 61 w bA2 _ PM (swapMsgs_leaf _ _ _ _ _)
      (by have := swapMsgs_length PM s0.config.feeCollector y.2.ret y.2.burnFee y.2.protocolFee; omega), h3]
    rfl
  · -- the reply
    rw [callReply_at]
    have hr := TolTx.pmReply_fwd (s := { y.1 with buffer := some B }) (env := w.env bA3 { y.1 with buffer := some B })
      (B := B) rfl e1 e2
    rw [hr]
    rfl
  · -- the second leg
    show execSubs (61 + 1) (w.at bA3 { y.1 with buffer := none }) PM
      [{ msg := C14.secondLegMsg PM B }] = _
    refine TolTx.execSubs_one_never_intro (n := 61) ?_
    show execMsg (60 + 1) (w.at bA3 { y.1 with buffer := none }) PM
      (.wasmExec PM (.pm (.provideLiquidity ls ss (some (addrOrDefault (w.env bA1 s0) recv u)) pid none none))
        [⟨c.denom, c.amount / 2⟩, ⟨ask, sim.ret⟩]) = _
    rw [execMsg_pm_at 60 w bA3 _ PM _ _ rfl, h4]
    simp only [ok_bind, pmExecute]
    rw [hprov2]
    show execSubs 60 (w.at bA4 sA6) PM rA6.msgs = _
    rw [hms, execSubs_leaf_at ms 60 w bA4 _ PM (fun m hm => isMint_leaf (hmint m hm)) hfuel, h5]
    rfl

end MantraDex.TwoStepConv
