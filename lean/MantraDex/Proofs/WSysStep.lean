/-
  C10Sys, part 8: one transaction.  The invariant `WCore` (farm-manager invariant w.r.t. the world's own
  epoch environment + freshness of generated identifiers + pending-deposit condition) is preserved by
  `step` for transactions signed by accounts, provided the epoch configuration is the same before and
  after, block time stays in range, and the farm manager's pool-manager pointer is `PM` before and after.
-/
import MantraDex.Proofs.WSysRun
import MantraDex.Properties.C05Sys

set_option linter.unusedSimpArgs false
set_option linter.unusedVariables false

namespace MantraDex.WSys
open MantraDex

structure WCore (w : World) : Prop where
  finv : FInv w.fm w.fmEnv
  wf : FmSys.PosWF w.fm
  buf : BufOk w.pm

/-! ### changing the environment -/

theorem finv_env {s s' : FmState} {env env' : FmEnv} (hi : FInv s env) (hself : env'.self = env.self)
    (hh : s'.hist = s.hist) (hp : s'.positions = s.positions)
    (hcur : ∀ cur, fmCurrentEpoch s env = .ok cur → ∃ cur', fmCurrentEpoch s' env' = .ok cur' ∧ cur ≤ cur') :
    FInv s' env' := by
  refine ⟨⟨?_, ?_, ?_⟩, ?_, ?_⟩
  · rw [hh, hself]; exact hi.hist.covers
  · rw [hh]; exact hi.hist.sorted
  · intro a lp x hx
    rw [hh] at hx
    obtain ⟨cur, h1, h2⟩ := hi.hist.bounded a lp x hx
    obtain ⟨cur', h3, h4⟩ := hcur cur h1
    exact ⟨cur', h3, by omega⟩
  · rw [hself]
    intro u lp hu hn
    rw [hh]
    exact hi.noWeight u lp hu (by unfold NoOpen at hn ⊢; rw [← hp]; exact hn)
  · rw [hself]; exact posInv_of_eq hp hi.pos

/-! ### epochs only move forward with time -/

theorem currentEpoch_mono {cfg : EpochConfig} {now now' id st : Nat}
    (h : currentEpoch cfg now = .ok (id, st)) (hle : now ≤ now') (hb : now' ≤ U64_MAX) :
    ∃ id' st', currentEpoch cfg now' = .ok (id', st') ∧ id ≤ id' := by
  unfold currentEpoch at h ⊢
  split at h
  next hg =>
    simp only [bind_ok, divFloorFrac_ok] at h
    obtain ⟨i, ⟨hd, _, rfl⟩, h⟩ := h
    have hid0 : id = (now - cfg.genesis * NANOS) / NANOS * 1 / cfg.duration := by
      unfold queryEpoch at h
      simp only [bind_ok, ckMul_ok, ckAdd_ok, fit_ok, pure_ok, Prod.mk.injEq] at h
      obtain ⟨_, _, _, _, _, _, h, _⟩ := h
      exact h
    subst hid0
    have hg' : now' / NANOS ≥ cfg.genesis := by
      have : now / NANOS ≤ now' / NANOS := Nat.div_le_div_right hle
      omega
    rw [if_pos hg']
    have hel : (now - cfg.genesis * NANOS) / NANOS ≤ (now' - cfg.genesis * NANOS) / NANOS :=
      Nat.div_le_div_right (by omega)
    have hidle : (now - cfg.genesis * NANOS) / NANOS * 1 / cfg.duration ≤
        (now' - cfg.genesis * NANOS) / NANOS * 1 / cfg.duration :=
      Nat.div_le_div_right (by omega)
    generalize hE : (now' - cfg.genesis * NANOS) / NANOS = E' at *
    have hE1 : cfg.genesis + E' ≤ now' / NANOS := by
      rw [← hE]
      unfold NANOS at hg' ⊢
      omega
    have hid : E' * 1 / cfg.duration ≤ E' := by
      rw [Nat.mul_one]; exact Nat.div_le_self _ _
    have hmul : E' * 1 / cfg.duration * cfg.duration ≤ E' := by
      rw [Nat.mul_one]; exact Nat.div_mul_le_self _ _
    have hnow : now' / NANOS * NANOS ≤ now' := Nat.div_mul_le_self _ _
    have hN : now' / NANOS ≤ now' := Nat.div_le_self _ _
    refine ⟨E' * 1 / cfg.duration, (cfg.genesis + E' * 1 / cfg.duration * cfg.duration) * NANOS, ?_, hidle⟩
    simp only [bind_ok, divFloorFrac_ok]
    refine ⟨_, ⟨hd, by omega, rfl⟩, ?_⟩
    unfold queryEpoch
    simp only [bind_ok, ckMul_ok, ckAdd_ok, fit_ok, pure_ok]
    refine ⟨_, ⟨by omega, rfl⟩, _, ⟨by omega, rfl⟩, _, ⟨?_, rfl⟩, rfl⟩
    have : (cfg.genesis + E' * 1 / cfg.duration * cfg.duration) * NANOS ≤ now' / NANOS * NANOS :=
      Nat.mul_le_mul_right _ (by omega)
    omega
  next => cases h

theorem fmCurrentEpoch_mono {s : FmState} {env env' : FmEnv} {cur : Nat}
    (h : fmCurrentEpoch s env = .ok cur) (hcfg : env'.emConfig = env.emConfig)
    (hle : env.nowNs ≤ env'.nowNs) (hb : env'.nowNs ≤ U64_MAX) :
    ∃ cur', fmCurrentEpoch s env' = .ok cur' ∧ cur ≤ cur' := by
  unfold fmCurrentEpoch at h ⊢
  rw [hcfg]
  split at h
  · cases h
  next cfg hc =>
    simp only [bind_ok, pure_ok] at h
    obtain ⟨⟨id, st⟩, h1, rfl⟩ := h
    obtain ⟨id', st', h2, h3⟩ := currentEpoch_mono h1 hle hb
    simp only [bind_ok, pure_ok]
    exact ⟨id', ⟨(id', st'), h2, rfl⟩, h3⟩

/-! ### top-level messages -/

theorem ext_ne {a : Addr} (h : isContract a = false) : a ≠ FM ∧ a ≠ PM := by
  constructor <;> (intro e; subst e; revert h; decide)

theorem msgOk_external {sender c : Addr} {msg : ContractMsg} {funds : List Coin}
    (hs : isContract sender = false) (h1 : ∀ u, msg ≠ .fm (.updateConfig u)) (h2 : ∀ m, msg ≠ .em m) :
    MsgOk sender (.wasmExec c msg funds) := by
  obtain ⟨hf, hp⟩ := ext_ne hs
  refine ⟨hf, ?_⟩
  cases msg with
  | fm m =>
    cases m with
    | updateConfig u => exact absurd rfl (h1 u)
    | createPosition id u rc =>
      cases rc with
      | none => trivial
      | some r => exact fun e => absurd e hp
    | _ => trivial
  | pm m =>
    cases m with
    | provideLiquidity a b rc d u l =>
      cases rc with
      | none => trivial
      | some r => exact fun e => absurd e hp
    | _ => trivial
  | em m => exact absurd rfl (h2 m)
  | fc m => trivial

/-- what a configuration message leaves alone -/
structure Outer (w w' : World) : Prop where
  hist : w'.fm.hist = w.fm.hist
  positions : w'.fm.positions = w.fm.positions
  posCounter : w'.fm.posCounter = w.fm.posCounter
  buffer : w'.pm.buffer = w.pm.buffer
  nowNs : w'.nowNs = w.nowNs

theorem fundsMove_outer {w w1 : World} {sender c : Addr} {funds : List Coin}
    (h : (if funds.isEmpty then pure w else do
        let b ← w.bank.send sender c funds
        pure { w with bank := b }) = (.ok w1 : R World)) :
    w1.fm = w.fm ∧ w1.pm = w.pm ∧ w1.nowNs = w.nowNs ∧ w1.em = w.em := by
  split at h
  · simp only [pure_ok] at h; subst h; exact ⟨rfl, rfl, rfl, rfl⟩
  · obtain ⟨b, hb, h⟩ := bind_ok.mp h
    simp only [pure_ok] at h; subst h; exact ⟨rfl, rfl, rfl, rfl⟩

theorem execSubs_nil {n : Nat} {w w' : World} {c : Addr} (h : execSubs n w c [] = .ok w') : w' = w := by
  cases n with
  | zero => rw [execSubs] at h; cases h
  | succ n => rw [execSubs] at h; cases h; rfl

theorem top_fm_config {w w' : World} {sender c : Addr} {u : FmConfigUpdate} {funds : List Coin} {n : Nat}
    (h : execMsg (n + 1) w sender (.wasmExec c (.fm (.updateConfig u)) funds) = .ok w') :
    Outer w w' ∧ w'.em = w.em := by
  obtain ⟨w1, w2, resp, hw1, hce, hx⟩ := SysPools.wasm_inv h
  obtain ⟨e1, e2, e3, e4⟩ := fundsMove_outer hw1
  simp only [callExecute] at hce
  split at hce
  · cases hce
  · obtain ⟨⟨s, r⟩, hr, hce⟩ := bind_ok.mp hce
    simp only [pure_ok, Prod.mk.injEq] at hce
    obtain ⟨rfl, rfl⟩ := hce
    unfold fmExecute at hr
    simp only [bind_ok] at hr
    obtain ⟨_, _, hr⟩ := hr
    obtain ⟨h1, h2, h3, h4⟩ := fmUpdateConfig_frame' hr
    rw [h4] at hx
    have := execSubs_nil hx
    subst this
    refine ⟨⟨?_, ?_, ?_, ?_, e3⟩, e4⟩
    · show s.hist = w.fm.hist
      rw [h1, e1]
    · show s.positions = w.fm.positions
      rw [h2, e1]
    · show s.posCounter = w.fm.posCounter
      rw [h3, e1]
    · show w1.pm.buffer = w.pm.buffer
      rw [e2]

theorem top_em {w w' : World} {sender c : Addr} {m : EmMsg} {funds : List Coin} {n : Nat}
    (h : execMsg (n + 1) w sender (.wasmExec c (.em m) funds) = .ok w') :
    Outer w w' ∧ w'.fm = w.fm := by
  obtain ⟨w1, w2, resp, hw1, hce, hx⟩ := SysPools.wasm_inv h
  obtain ⟨e1, e2, e3, e4⟩ := fundsMove_outer hw1
  simp only [callExecute] at hce
  split at hce
  · cases hce
  · obtain ⟨s, hr, hce⟩ := bind_ok.mp hce
    simp only [pure_ok, Prod.mk.injEq] at hce
    obtain ⟨rfl, rfl⟩ := hce
    have := execSubs_nil hx
    subst this
    refine ⟨⟨?_, ?_, ?_, ?_, e3⟩, e1⟩
    · show w1.fm.hist = w.fm.hist
      rw [e1]
    · show w1.fm.positions = w.fm.positions
      rw [e1]
    · show w1.fm.posCounter = w.fm.posCounter
      rw [e1]
    · show w1.pm.buffer = w.pm.buffer
      rw [e2]

/-- after a configuration message that leaves the epoch configuration as it was -/
theorem wcore_outer {w w' : World} (h : WCore w) (ho : Outer w w') (hcfg : w'.em.cfg = w.em.cfg)
    (hem : w'.fm.config.epochManager = w.fm.config.epochManager) : WCore w' := by
  have hcur : fmCurrentEpoch w'.fm w'.fmEnv = fmCurrentEpoch w.fm w.fmEnv := by
    unfold fmCurrentEpoch World.fmEnv
    simp only [hem, hcfg, ho.nowNs]
  refine ⟨finv_env h.finv rfl ho.hist ho.positions (fun cur hc => ⟨cur, by rw [hcur]; exact hc, Nat.le_refl _⟩),
    FmSys.poswf_congr ho.positions ho.posCounter h.wf, bufOk_of_eq ho.buffer h.buf⟩

theorem FUEL_succ : FUEL = 63 + 1 := rfl

/-- a successful top-level contract call by an account -/
theorem wcore_exec {w w' : World} {sender c : Addr} {msg : ContractMsg} {funds : List Coin} {k : Option Nat}
    (hs : isContract sender = false) (h : WCore w) (hpm : w.fm.config.poolManager = PM)
    (hcfg : w'.em.cfg = w.em.cfg) (hem : w'.fm.config.epochManager = w.fm.config.epochManager)
    (hx : execMsg FUEL { w with bank := { w.bank with calls := 0, failAt := k } } sender
      (.wasmExec c msg funds) = .ok w') : WCore w' := by
  by_cases h1 : ∃ u, msg = .fm (.updateConfig u)
  · obtain ⟨u, rfl⟩ := h1
    rw [FUEL_succ] at hx
    obtain ⟨ho, _⟩ := top_fm_config hx
    exact wcore_outer (w := w) h ⟨ho.hist, ho.positions, ho.posCounter, ho.buffer, ho.nowNs⟩ hcfg hem
  · by_cases h2 : ∃ m, msg = .em m
    · obtain ⟨m, rfl⟩ := h2
      rw [FUEL_succ] at hx
      obtain ⟨ho, _⟩ := top_em hx
      exact wcore_outer (w := w) h ⟨ho.hist, ho.positions, ho.posCounter, ho.buffer, ho.nowNs⟩ hcfg hem
    · have hok : MsgOk sender (.wasmExec c msg funds) :=
        msgOk_external hs (fun u e => h1 ⟨u, e⟩) (fun m e => h2 ⟨m, e⟩)
      have hI : SInv w.fmEnv { w with bank := { w.bank with calls := 0, failAt := k } } :=
        ⟨rfl, hpm, h.finv, h.wf, h.buf⟩
      have hI' := sinv_exec hI hok hx
      exact ⟨by rw [hI'.env]; exact hI'.finv, hI'.wf, hI'.buf⟩

/-- one transaction -/
theorem wcore_step (w : World) (tx : Tx) (k : Option Nat) (hext : C05Sys.External tx)
    (hcfg : (step w tx k).em.cfg = w.em.cfg)
    (hem : (step w tx k).fm.config.epochManager = w.fm.config.epochManager)
    (hnow : (step w tx k).nowNs ≤ U64_MAX)
    (hpm : w.fm.config.poolManager = PM) (h : WCore w) : WCore (step w tx k) := by
  unfold step at hcfg hem hnow ⊢
  cases hr : runTx w tx k with
  | error e => exact h
  | ok w' =>
    rw [hr] at hcfg hem hnow
    simp only at hcfg hem hnow ⊢
    cases tx with
    | exec sender c msg funds =>
      exact wcore_exec hext.1 h hpm hcfg hem hr
    | send frm to coins =>
      simp only [runTx] at hr
      have hI : SInv w.fmEnv { w with bank := { w.bank with calls := 0, failAt := k } } :=
        ⟨rfl, hpm, h.finv, h.wf, h.buf⟩
      have hI' := sinv_exec hI (m := .bankSend to coins) trivial hr
      exact ⟨by rw [hI'.env]; exact hI'.finv, hI'.wf, hI'.buf⟩
    | advance ns =>
      simp only [runTx, Except.ok.injEq] at hr
      subst hr
      refine ⟨finv_env h.finv rfl rfl rfl ?_, h.wf, h.buf⟩
      intro cur hc
      exact fmCurrentEpoch_mono hc rfl (Nat.le_add_right _ _) hnow

end MantraDex.WSys
