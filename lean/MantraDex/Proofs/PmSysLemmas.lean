/-
  Handler-level facts used to lift C01 through the runtime (`Properties/C01Sys.lean`):
  * the farm manager's `execute` only ever emits bank sends (so it never calls the pool manager);
  * one law for the pool manager's `execute` on everything but a single-asset deposit: conservation
    for non-factory denoms, well-formedness and `buffer = none` are kept, every emitted sub-message is
    reply-`never` and is not a call of the pool manager.
-/
import MantraDex.Model.System
import MantraDex.Proofs.NumLemmas
import MantraDex.Properties.C01
import MantraDex.Properties.C11
import MantraDex.Properties.C20

set_option linter.unusedSimpArgs false
set_option linter.unusedVariables false
set_option linter.tactic.unusedName false

namespace MantraDex.SysPm
open MantraDex

/-- a message that does not call the pool manager's `execute` -/
def NoPm : Msg → Prop
  | .wasmExec _ (.pm _) _ => False
  | _ => True

def IsSend (m : Msg) : Prop := ∃ to cs, m = .bankSend to cs

theorem IsSend.noPm {m : Msg} (h : IsSend m) : NoPm m := by
  obtain ⟨to, cs, rfl⟩ := h; trivial

/-! ### farm manager: only bank sends -/

abbrev GoodS (x : R (FmState × Response)) : Prop := C20.Good (fun sm => IsSend sm.msg) x

theorem closeFarms_sends (s : FmState) (fs : List Farm) : ∀ sm ∈ (closeFarms s fs).2, IsSend sm.msg := by
  intro sm hsm
  have h1 := (FH.closeFarms_spec s fs).1
  have : sm.msg ∈ (closeFarms s fs).2.map (·.msg) := List.mem_map_of_mem hsm
  rw [h1] at this
  obtain ⟨f, _, hf⟩ := List.mem_map.1 this
  exact ⟨_, _, hf.symm⟩

theorem good_expandFarm {s env sender funds p} : GoodS (expandFarm s env sender funds p) := by
  unfold expandFarm; repeat' pstep
theorem good_createPosition {s env sender funds a b c} : GoodS (createPosition s env sender funds a b c) := by
  unfold createPosition; repeat' pstep
theorem good_expandPosition {s env sender funds a} : GoodS (expandPosition s env sender funds a) := by
  unfold expandPosition; repeat' pstep
theorem good_closePosition {s env sender funds a b} : GoodS (closePosition s env sender funds a b) := by
  unfold closePosition; repeat' pstep
theorem good_fmUpdateConfig {s env sender u} : GoodS (fmUpdateConfig s env sender u) := by
  unfold fmUpdateConfig; repeat' pstep

theorem ofMsgs_sends {ms : List Msg} {attrs} (h : ∀ m ∈ ms, IsSend m) :
    ∀ sm ∈ (Response.ofMsgs ms attrs).msgs, IsSend sm.msg := by
  intro sm hsm
  simp only [Response.ofMsgs, List.mem_map] at hsm
  obtain ⟨m, hm, rfl⟩ := hsm
  exact h m hm

open FH in
theorem closeFarm_sends {s s' : FmState} {sender funds id} {r : Response}
    (h : closeFarm s sender funds id = .ok (s', r)) : ∀ sm ∈ r.msgs, IsSend sm.msg := by
  unfold closeFarm at h
  simp only [error_bind, FH.ite_err_ok, bind_ok, pure_ok, Prod.mk.injEq] at h
  obtain ⟨_, hnp, f, hf, _, rfl, rfl⟩ := h
  exact closeFarms_sends _ _

open FH in
theorem createFarm_sends {s s' : FmState} {env sender funds p} {r : Response}
    (h : createFarm s env sender funds p = .ok (s', r)) : ∀ sm ∈ r.msgs, IsSend sm.msg := by
  obtain ⟨cur, flags, feeMsgs, start, end_, rate, -, -, -, -, hfm, -, -, -, -, -, rfl⟩ := createFarm_inv h
  intro sm hsm
  simp only [List.mem_append, List.mem_map] at hsm
  rcases hsm with ⟨m, hm, rfl⟩ | hsm
  · show IsSend m
    by_cases hfee : s.config.createFarmFee.amount ≠ 0
    · rw [if_pos hfee] at hfm
      obtain ⟨paid, -, -, rfl⟩ := C11.farm_fee_messages hfee hfm
      simp only [List.mem_append, List.mem_singleton] at hm
      rcases hm with hm | rfl
      · split at hm
        · cases hm
        · simp only [List.mem_singleton] at hm
          exact ⟨_, _, hm⟩
      · exact ⟨_, _, rfl⟩
    · rw [if_neg hfee] at hfm
      simp only [pure_ok] at hfm
      subst hfm
      cases hm
  · exact closeFarms_sends _ _ sm hsm

open FH in
theorem fmClaim_sends {s s' : FmState} {env sender funds u} {r : Response}
    (h : fmClaim s env sender funds u = .ok (s', r)) : ∀ sm ∈ r.msgs, IsSend sm.msg := by
  rw [fmClaim_eq] at h
  simp only [error_bind, FH.ite_err_ok, bind_ok, pure_ok, Prod.mk.injEq] at h
  obtain ⟨_, -, -, cur, -, ue, -, ⟨s1, total⟩, -, h⟩ := h
  split at h
  · cases h
    apply ofMsgs_sends
    intro m hm
    cases hm
  · simp only [bind_ok, pure_ok, Prod.mk.injEq] at h
    obtain ⟨agg, -, msgs, rfl, rfl, rfl⟩ := h
    apply ofMsgs_sends
    intro m hm
    simp only [List.mem_singleton] at hm
    exact ⟨_, _, hm⟩

theorem payout_sends (msgs : List Msg) (hm : ∀ m ∈ msgs, IsSend m) (a : Nat) (recv : Addr) (lp : Denom) :
    ∀ m ∈ msgs ++ (if a ≠ 0 then [Msg.bankSend recv [⟨lp, a⟩]] else []), IsSend m := by
  intro m h
  rcases List.mem_append.1 h with h | h
  · exact hm m h
  · split at h
    · simp only [List.mem_singleton] at h; exact ⟨_, _, h⟩
    · cases h

open FH in
theorem withdrawPosition_sends {s s' : FmState} {env sender funds id em} {r : Response}
    (h : withdrawPosition s env sender funds id em = .ok (s', r)) : ∀ sm ∈ r.msgs, IsSend sm.msg := by
  unfold withdrawPosition at h
  simp only [error_bind, FH.ite_err_ok, bind_ok, pure_ok] at h
  obtain ⟨_, hnp, h⟩ := h
  cases hg : s.getPosition id with
  | none => simp [hg, bind, Except.bind] at h
  | some p =>
    simp only [hg, error_bind, FH.ite_err_ok, bind_ok, pure_ok, fit_ok, Prod.mk.injEq] at h
    obtain ⟨q, hq, _, h⟩ := h
    cases hq
    split at h
    · simp only [bind_ok] at h
      obtain ⟨rate, _, cur, _, active, _, sp, hsp, h⟩ := h
      have hms : ∀ m ∈ ((if sp.nFarmOwners = 0 then []
                    else
                      List.map (fun o => Msg.bankSend o [{ denom := p.lpDenom, amount := sp.perFarmOwner }])
                        (uniqueOwners active)) ++
                    if sp.feeCollector > 0 then
                      [Msg.bankSend s.config.feeCollector [{ denom := p.lpDenom, amount := sp.feeCollector }]]
                    else []), IsSend m := by
        intro m hm
        rcases List.mem_append.1 hm with hm | hm
        · split at hm
          · cases hm
          · obtain ⟨o, _, rfl⟩ := List.mem_map.1 hm
            exact ⟨_, _, rfl⟩
        · split at hm
          · simp only [List.mem_singleton] at hm; exact ⟨_, _, hm⟩
          · cases hm
      by_cases hopen : p.open_ = true
      · simp only [hopen, if_true, bind_ok, pure_ok, Prod.mk.injEq] at h
        obtain ⟨s1, hw, x, rfl, s3, hrec, rfl, rfl⟩ := h
        exact ofMsgs_sends (payout_sends _ hms _ _ _)
      · simp only [hopen, if_false, Bool.false_eq_true, bind_ok, pure_ok, Prod.mk.injEq] at h
        obtain ⟨s1, rfl, x, rfl, s3, rfl, rfl, rfl⟩ := h
        exact ofMsgs_sends (payout_sends _ hms _ _ _)
    · simp only [error_bind, FH.ite_err_ok] at h
      obtain ⟨_, _, h⟩ := h
      have hms : ∀ m ∈ ([] : List Msg), IsSend m := by intro m hm; cases hm
      by_cases hopen : p.open_ = true
      · simp only [hopen, if_true, bind_ok, pure_ok, Prod.mk.injEq] at h
        obtain ⟨x, rfl, s3, hrec, rfl, rfl⟩ := h
        exact ofMsgs_sends (payout_sends _ hms _ _ _)
      · simp only [hopen, if_false, Bool.false_eq_true, bind_ok, pure_ok, Prod.mk.injEq] at h
        obtain ⟨x, rfl, s3, rfl, rfl, rfl⟩ := h
        exact ofMsgs_sends (payout_sends _ hms _ _ _)

/-- every sub-message emitted by the farm manager's `execute` is a bank send -/
theorem fmExecute_sends {s s' : FmState} {env : FmEnv} {sender : Addr} {funds : List Coin}
    {m : FmMsg} {r : Response} (h : fmExecute s env sender funds m = .ok (s', r)) :
    ∀ sm ∈ r.msgs, IsSend sm.msg := by
  cases m with
  | createFarm p => exact createFarm_sends h
  | expandFarm p => exact good_expandFarm.out _ h
  | closeFarm id => exact closeFarm_sends h
  | claim u => exact fmClaim_sends h
  | createPosition id u rc => exact good_createPosition.out _ h
  | expandPosition id => exact good_expandPosition.out _ h
  | closePosition id lp => exact good_closePosition.out _ h
  | withdrawPosition id e => exact withdrawPosition_sends h
  | updateConfig u =>
    simp only [fmExecute, bind_ok] at h
    obtain ⟨_, _, h⟩ := h
    exact good_fmUpdateConfig.out _ h
  | updateOwnership a =>
    simp only [fmExecute, bind_ok, pure_ok, Prod.mk.injEq] at h
    obtain ⟨_, _, o, _, rfl, rfl⟩ := h
    intro sm hsm
    cases hsm

theorem fmExecute_noPm {s s' : FmState} {env : FmEnv} {sender : Addr} {funds : List Coin}
    {m : FmMsg} {r : Response} (h : fmExecute s env sender funds m = .ok (s', r)) :
    ∀ sm ∈ r.msgs, NoPm sm.msg := fun sm hsm => (fmExecute_sends h sm hsm).noPm

/-! ### pool manager: well-formedness -/

theorem wf_of_pools {s s' : PmState} (h : s'.pools = s.pools) (hwf : C01.WF s) : C01.WF s' := by
  unfold C01.WF; rw [h]; exact hwf

theorem wf_savePool_existing {s : PmState} {pid : String} {p p' : PoolInfo} (hwf : C01.WF s)
    (hp : s.getPool pid = .ok p) (hid : p'.id = p.id)
    (hden : p'.assets.map (·.denom) = p.assets.map (·.denom)) : C01.WF (s.savePool p') := by
  have hmem : p ∈ s.pools := List.mem_of_find?_eq_some (C01.getPool_ok hp)
  constructor
  · rw [C01.savePool_ids hp hid]; exact hwf.1
  · rw [C01.savePool_existing hp hid]
    intro q hq
    obtain ⟨q0, hq0, rfl⟩ := List.mem_map.1 hq
    split
    · rw [hden]; exact hwf.2 p hmem
    · exact hwf.2 q0 hq0

theorem insertPoolSorted_perm (p : PoolInfo) (xs : List PoolInfo) :
    (insertPoolSorted p xs).Perm (p :: xs) := by
  induction xs with
  | nil => exact List.Perm.refl _
  | cons x xs ih =>
    unfold insertPoolSorted
    split
    · exact List.Perm.refl _
    · exact (List.Perm.cons x ih).trans (List.Perm.swap p x xs)

theorem wf_savePool_new {s : PmState} {p : PoolInfo} (hwf : C01.WF s)
    (hnew : s.pools.any (·.id == p.id) = false) (hden : (p.assets.map (·.denom)).Nodup) :
    C01.WF (s.savePool p) := by
  have hpools : (s.savePool p).pools = insertPoolSorted p s.pools := by
    unfold PmState.savePool
    simp only [hnew, Bool.false_eq_true, if_false]
  have hperm := insertPoolSorted_perm p s.pools
  constructor
  · rw [hpools, ((hperm.map _).nodup_iff), List.map_cons, List.nodup_cons]
    refine ⟨?_, hwf.1⟩
    intro hm
    obtain ⟨q, hq, hqe⟩ := List.mem_map.1 hm
    have := List.any_eq_false.1 hnew q hq
    simp [hqe] at this
  · rw [hpools]
    intro q hq
    rcases List.mem_cons.1 (hperm.mem_iff.1 hq) with rfl | hq
    · exact hden
    · exact hwf.2 q hq

theorem performSwap_wf {s s' : PmState} {offer : Coin} {ask : Denom} {pid : String}
    {b ms : Option Nat} {r : SwapResult} (hwf : C01.WF s)
    (h : performSwap s offer ask pid b ms = .ok (s', r)) : C01.WF s' := by
  obtain ⟨pool, c, oi, ai, x, y, hp, -, -, -, -, -, -, -, hrp, hs', -⟩ := C04.performSwap_ok h
  rw [hs']
  apply wf_savePool_existing hwf hp
  · rw [hrp]
  · rw [hrp]
    simp only [C04.assetsAfterSwap, C01.setAmount_denoms]

theorem routeHops_wf {s s' : PmState} {ms : Option Nat} {ops : List SwapOp}
    {prev out : Coin} {fees fees' : List Msg} (hwf : C01.WF s)
    (h : routeHops s ms ops prev fees = .ok (s', out, fees')) : C01.WF s' := by
  induction ops generalizing s prev fees with
  | nil =>
    rw [routeHops] at h
    simp only [Except.ok.injEq, Prod.mk.injEq] at h
    obtain ⟨rfl, -, -⟩ := h
    exact hwf
  | cons op ops ih =>
    obtain ⟨s1, r, hps, h⟩ := C04.routeHops_cons h
    exact ih (performSwap_wf hwf hps) h

theorem withdrawStep_denoms {as as1 : List Coin} {r : Coin} (h : withdrawStep as r = .ok as1) :
    as1.map (·.denom) = as.map (·.denom) := by
  unfold withdrawStep at h
  cases hi : findIdx (fun c : Coin => c.denom == r.denom) as with
  | none => rw [hi] at h; simp only [↓err_bind_ok] at h
  | some i =>
    rw [hi] at h
    simp only [↓pure_bind', ↓bind_ok, pure_ok, C04.getD?_ok, ckSub_ok] at h
    obtain ⟨_, rfl, c, hc, a, ⟨hle, rfl⟩, rfl⟩ := h
    exact C01.setAmount_denoms _ _ _

theorem depositStep_denoms {as as1 : List Coin} {r : Coin} (h : depositStep as r = .ok as1) :
    as1.map (·.denom) = as.map (·.denom) := by
  unfold depositStep at h
  cases hi : findIdx (fun c : Coin => c.denom == r.denom) as with
  | none => rw [hi] at h; simp only [↓err_bind_ok] at h
  | some i =>
    rw [hi] at h
    simp only [↓pure_bind', ↓bind_ok, pure_ok, C04.getD?_ok, ckAdd_ok] at h
    obtain ⟨_, rfl, c, hc, a, ⟨hle, rfl⟩, rfl⟩ := h
    exact C01.setAmount_denoms _ _ _

theorem foldlM_denoms {f : List Coin → Coin → R (List Coin)}
    (hf : ∀ as r as1, f as r = .ok as1 → as1.map (·.denom) = as.map (·.denom))
    (rs : List Coin) {as as' : List Coin} (h : rs.foldlM f as = .ok as') :
    as'.map (·.denom) = as.map (·.denom) := by
  induction rs generalizing as with
  | nil =>
    simp only [List.foldlM_nil, pure_ok] at h
    subst h; rfl
  | cons r rest ih =>
    simp only [List.foldlM_cons] at h
    obtain ⟨as1, h1, h⟩ := bind_ok.mp h
    rw [ih h, hf _ _ _ h1]

theorem nodup_of_hasDuplicates : ∀ l : List String, hasDuplicates l = false → l.Nodup
  | [], _ => List.nodup_nil
  | x :: xs, h => by
    simp only [hasDuplicates, Bool.or_eq_false_iff] at h
    rw [List.nodup_cons]
    refine ⟨?_, nodup_of_hasDuplicates xs h.2⟩
    intro hm
    have : xs.contains x = true := by simpa using hm
    rw [this] at h
    exact absurd h.1 (by simp)

/-! ### pool manager: extra inversion facts -/

theorem withdraw_factory {s s' : PmState} {env : PmEnv} {sender : Addr} {funds : List Coin}
    {pid : String} {r : Response} {pool : PoolInfo} (hp : s.getPool pid = .ok pool)
    (h : withdrawLiquidity s env sender funds pid = .ok (s', r)) :
    isFactoryToken pool.lpDenom = true := by
  unfold withdrawLiquidity at h
  simp only [↓ok_bind, ↓ite_err_bind_ok, ↓bind_ok, ↓err_bind_ok, ↓pure_bind', pure_ok, Prod.mk.injEq] at h
  obtain ⟨pool', hp', -, amt, hpay, hfac, -⟩ := h
  rw [hp] at hp'; cases hp'
  simpa using hfac

theorem provide_multi_factory {s s' : PmState} {env : PmEnv} {sender : Addr} {funds deposits : List Coin}
    {ls ss : Option Nat} {recv : Option Addr} {pid : String} {u : Option Nat} {l : Option String}
    {r : Response} {pool : PoolInfo} (hp : s.getPool pid = .ok pool)
    (hagg : aggregateCoins funds = .ok deposits) (hlen : deposits.length ≠ 1)
    (h : provideLiquidity s env sender funds ls ss recv pid u l = .ok (s', r)) :
    isFactoryToken pool.lpDenom = true := by
  unfold provideLiquidity at h
  simp only [hagg, ↓ok_bind, ↓ite_err_bind_ok, ↓bind_ok, ↓err_bind_ok, List.length_singleton, ↓reduceIte, pure_ok, getD?_ok',
    ↓pure_bind', Except.ok.injEq] at h
  obtain ⟨pool', hp', hst, d, hd, -, hall, h⟩ := h
  rw [hp] at hp'; cases hp'
  cases hd
  simp only [hlen, ↓ite_err_bind_ok, ↓reduceIte] at h
  obtain ⟨hfac, -⟩ := h
  simpa using hfac

theorem createPool_nodup {s s' : PmState} {env : PmEnv} {funds : List Coin} {denoms : List Denom}
    {decimals : List Nat} {fees : PoolFee} {pt : PoolType} {id : Option String} {r : Response}
    (h : createPool s env funds denoms decimals fees pt id = .ok (s', r)) : denoms.Nodup := by
  unfold createPool at h
  apply nodup_of_hasDuplicates
  cases pt with
  | cp =>
    simp only [↓ok_bind, ↓ite_err_bind_ok, ↓bind_ok, ↓err_bind_ok, ↓pure_bind', pure_ok, Prod.mk.injEq] at h
    obtain ⟨-, -, -, tf, htf, ⟨⟩, hna, hdup, -⟩ := h
    simpa using hdup
  | stable amp =>
    simp only [↓ok_bind, ↓ite_err_bind_ok, ↓bind_ok, ↓err_bind_ok, ↓pure_bind', pure_ok, Prod.mk.injEq] at h
    obtain ⟨-, -, -, tf, htf, ⟨⟩, hna, hdup, -⟩ := h
    simpa using hdup

/-! ### pool manager: message shapes -/

/-- reply-`never` and not a call of the pool manager -/
def SubOk (sm : SubMsg) : Prop := sm.replyOn = .never ∧ NoPm sm.msg

theorem mk_ok {ms : List Msg} (h : ∀ m ∈ ms, NoPm m) :
    ∀ sm ∈ ms.map (fun m => ({ msg := m } : SubMsg)), SubOk sm := by
  intro sm hsm
  obtain ⟨m, hm, rfl⟩ := List.mem_map.1 hsm
  exact ⟨rfl, h m hm⟩

theorem noPm_opt {c : Prop} [Decidable c] {m : Msg} (hm : NoPm m) :
    ∀ m' ∈ (if c then [m] else []), NoPm m' := by
  intro m' h
  split at h
  · simp only [List.mem_singleton] at h; subst h; exact hm
  · cases h

theorem noPm_append {xs ys : List Msg} (hx : ∀ m ∈ xs, NoPm m) (hy : ∀ m ∈ ys, NoPm m) :
    ∀ m ∈ xs ++ ys, NoPm m := by
  intro m h
  rcases List.mem_append.1 h with h | h
  · exact hx m h
  · exact hy m h

theorem plTail_noPm {s s' : PmState} {env : PmEnv} {sender : Addr} {pool : PoolInfo} {deposits : List Coin}
    {ls : Option Nat} {recv : Addr} {u : Option Nat} {l : Option String} {shares : Nat}
    {msgs0 : List Msg} {r : Response} (hm0 : ∀ m ∈ msgs0, NoPm m)
    (h : plTail s env sender pool deposits ls recv u l shares msgs0 = .ok (s', r)) :
    ∀ sm ∈ r.msgs, SubOk sm := by
  unfold plTail at h
  simp only [] at h
  obtain ⟨pa', hpa, h⟩ := bind_ok.mp h
  clear hpa
  cases u with
  | none =>
    simp only [↓ite_err_bind_ok, ↓pure_bind'] at h
    obtain ⟨hv, h⟩ := h
    obtain ⟨as', has, h⟩ := bind_ok.mp h
    simp only [pure_ok, Prod.mk.injEq] at h
    obtain ⟨rfl, rfl⟩ := h
    apply mk_ok
    apply noPm_append hm0
    intro m hm
    simp only [List.mem_singleton] at hm
    subst hm; trivial
  | some uu =>
    simp only [↓ite_err_bind_ok] at h
    obtain ⟨hauth, h⟩ := h
    have hfin : ∀ lockMsg, NoPm lockMsg →
        ∀ m ∈ msgs0 ++ [Msg.tfMint ⟨pool.lpDenom, shares⟩ env.self, lockMsg], NoPm m := by
      intro lockMsg hl
      apply noPm_append hm0
      intro m hm
      simp only [List.mem_cons, List.mem_singleton, List.not_mem_nil, or_false] at hm
      rcases hm with rfl | rfl
      · trivial
      · exact hl
    cases l with
    | none =>
      simp only [↓pure_bind'] at h
      obtain ⟨as', has, h⟩ := bind_ok.mp h
      simp only [pure_ok, Prod.mk.injEq] at h
      obtain ⟨rfl, rfl⟩ := h
      exact mk_ok (hfin _ trivial)
    | some lid =>
      simp only [] at h
      cases hfm : env.fmPosition lid with
      | none =>
        rw [hfm] at h
        simp only [↓pure_bind'] at h
        obtain ⟨as', has, h⟩ := bind_ok.mp h
        simp only [pure_ok, Prod.mk.injEq] at h
        obtain ⟨rfl, rfl⟩ := h
        exact mk_ok (hfin _ trivial)
      | some pos =>
        obtain ⟨pid', pr⟩ := pos
        rw [hfm] at h
        simp only [↓ite_err_bind_ok, ↓pure_bind'] at h
        obtain ⟨hown, h⟩ := h
        obtain ⟨as', has, h⟩ := bind_ok.mp h
        simp only [pure_ok, Prod.mk.injEq] at h
        obtain ⟨rfl, rfl⟩ := h
        exact mk_ok (hfin _ trivial)

theorem mints_noPm {ms : List Msg} (h : ∀ m ∈ ms, IsMint m) : ∀ m ∈ ms, NoPm m := by
  intro m hm
  obtain ⟨c, a, rfl⟩ := h m hm
  trivial

/-! ### pool manager: the assembled law -/

/-- not a single-asset deposit (handler level) -/
def NotSingle (m : PmMsg) (funds : List Coin) : Prop :=
  match m with
  | .provideLiquidity .. => 2 ≤ funds.length
  | _ => True

/-- what one `execute` of the pool manager guarantees -/
structure PmOut (s s' : PmState) (tf funds : List Coin) (r : Response) : Prop where
  wf : C01.WF s'
  buf : s'.buffer = none
  msgs : ∀ sm ∈ r.msgs, SubOk sm
  cons : ∀ d, isFactoryToken d = false →
    C01.reserves s' d + C01.outflow PM tf r.msgs d = C01.reserves s d + C01.coinsOf funds d

theorem zero_assets_denoms (denoms : List Denom) :
    (denoms.map fun d => (⟨d, 0⟩ : Coin)).map (·.denom) = denoms := by
  rw [List.map_map]
  have : ((fun x : Coin => x.denom) ∘ fun d => (⟨d, 0⟩ : Coin)) = _root_.id := rfl
  rw [this, List.map_id]

theorem half_add_half {a b M : Nat} (ha : a ≤ M / 2) (hb : b ≤ M / 2) : a + b ≤ M := by omega

theorem pmExecute_sys {s s' : PmState} {env : PmEnv} {sender : Addr} {funds : List Coin} {m : PmMsg}
    {r : Response} (henv : env.self = PM) (hwf : C01.WF s) (hbuf : s.buffer = none)
    (htf : (env.tfFees.map (·.denom)).Nodup) (hsm : ∀ f ∈ env.tfFees, f.amount ≤ U128_MAX / 2)
    (hfee : s.config.creationFee.amount ≤ U128_MAX / 2) (hfunds : (funds.map (·.denom)).Nodup)
    (hns : NotSingle m funds) (h : pmExecute s env sender funds m = .ok (s', r)) :
    PmOut s s' env.tfFees funds r := by
  cases m with
  | createPool denoms decimals fees pt id =>
    simp only [pmExecute] at h
    have hcons := C01.create_pool_conserves_partial hwf htf hfunds
      (fun f hf _ => half_add_half (hsm f hf) hfee) h
    have hnd := createPool_nodup h
    obtain ⟨counter, pool, lpSym, totalFees, hfees, hnoadd, hassets, hnew, rfl, hmsgs⟩ := createPool_ok h
    refine ⟨?_, ?_, ?_, ?_⟩
    · apply wf_savePool_new (s := { s with counter := counter }) (wf_of_pools rfl hwf) hnew
      rw [hassets, zero_assets_denoms]; exact hnd
    · rw [savePool_buffer]; exact hbuf
    · rw [hmsgs]
      apply mk_ok
      apply noPm_append (noPm_opt (by trivial))
      intro m hm
      simp only [List.mem_singleton] at hm
      subst hm; trivial
    · intro d _
      obtain ⟨h1, h2⟩ := hcons d
      rw [henv] at h2
      omega
  | provideLiquidity ls ss rc pid u l =>
    simp only [pmExecute] at h
    have hns' : 2 ≤ funds.length := hns
    obtain ⟨deps, hagg, -⟩ := pl_agg h
    have hlen : deps.length ≠ 1 := by rw [aggregateCoins_length hfunds hagg]; omega
    obtain ⟨pool, sh, m0, hp, hm0, ht⟩ := pl_multi hagg hlen h
    have hfac := provide_multi_factory hp hagg hlen h
    have hmsgs := plTail_noPm (mints_noPm hm0) ht
    obtain ⟨assets', m1, hfold, rfl, -, -, -, -⟩ := plTail_ok ht
    refine ⟨?_, ?_, hmsgs, ?_⟩
    · exact wf_savePool_existing hwf hp rfl (foldlM_denoms (fun _ _ _ => depositStep_denoms) _ hfold)
    · rw [savePool_buffer]; exact hbuf
    · intro d hd
      have := C01.provide_multi_conserves hwf hp hfunds hns' h d (by
        intro e; rw [e, hfac] at hd; cases hd)
      rw [henv] at this
      exact this
  | swap ask b ms rc pid =>
    simp only [pmExecute] at h
    have hcons := C01.swap_conserves hwf h
    obtain ⟨offer, sr, rfl, hps, hmsgs⟩ := C04.swapHandler_messages h
    refine ⟨performSwap_wf hwf hps, ?_, ?_, ?_⟩
    · rw [performSwap_buffer hps]; exact hbuf
    · rw [hmsgs]
      apply mk_ok
      exact noPm_append (noPm_append (noPm_opt trivial) (noPm_opt trivial)) (noPm_opt trivial)
    · intro d _
      have := hcons d
      rw [henv] at this
      exact this
  | withdrawLiquidity pid =>
    simp only [pmExecute] at h
    obtain ⟨pool, amount, refunds, assets', hp, hf, hfold, hs', hmsgs⟩ := withdraw_ok h
    have hfac := withdraw_factory hp h
    have hcons := C01.withdraw_conserves hwf hp h
    subst hs'
    refine ⟨?_, ?_, ?_, ?_⟩
    · exact wf_savePool_existing hwf hp rfl (foldlM_denoms (fun _ _ _ => withdrawStep_denoms) _ hfold)
    · rw [savePool_buffer]; exact hbuf
    · rw [hmsgs]
      apply mk_ok
      intro m hm
      simp only [List.mem_cons, List.mem_singleton, List.not_mem_nil, or_false] at hm
      rcases hm with rfl | rfl <;> trivial
    · intro d hd
      have := hcons d (by intro e; rw [e, hfac] at hd; cases hd)
      rw [henv] at this
      exact this
  | execSwapOps ops mr rc ms =>
    simp only [pmExecute] at h
    have hcons := C01.route_conserves hwf h
    obtain ⟨first, last, amount, out, fm, -, hl, hf, hroute, hmsgs⟩ := execSwapOps_ok h
    refine ⟨routeHops_wf hwf hroute, ?_, ?_, ?_⟩
    · rw [routeHops_buffer hroute]; exact hbuf
    · rw [hmsgs]
      apply mk_ok
      apply noPm_append (noPm_opt (by trivial))
      intro m hm
      have := (C04.routeHops_fee_msgs (by intro m hm; cases hm) trivial hroute).2 m hm
      rcases this with ⟨cs, rfl⟩ | ⟨cs, rfl⟩ <;> trivial
    · intro d _
      have := hcons d
      rw [henv] at this
      exact this
  | updateConfig fc fm cf t =>
    have hm : (∃ fc' fm' fee t', PmMsg.updateConfig fc fm cf t = .updateConfig fc' fm' fee t') ∨
        (∃ a, PmMsg.updateConfig fc fm cf t = .updateOwnership a) := Or.inl ⟨_, _, _, _, rfl⟩
    obtain ⟨hf, hr, hres⟩ := C01.config_conserves_partial hwf.1 hm h
    obtain ⟨-, -, hb, hpools⟩ := pmExecute_config_ok hm h
    refine ⟨?_, by rw [hb]; exact hbuf, by (rw [hr]; intro sm hsm; cases hsm), ?_⟩
    · rcases hpools with hp | ⟨pid, p, st, hp, hpools⟩
      · exact wf_of_pools hp hwf
      · exact wf_of_pools hpools (wf_savePool_existing hwf hp rfl rfl)
    · intro d _
      rw [hr, hf, hres d]; rfl
  | updateOwnership a =>
    have hm : (∃ fc' fm' fee t', PmMsg.updateOwnership a = .updateConfig fc' fm' fee t') ∨
        (∃ a', PmMsg.updateOwnership a = .updateOwnership a') := Or.inr ⟨_, rfl⟩
    obtain ⟨hf, hr, hres⟩ := C01.config_conserves_partial hwf.1 hm h
    obtain ⟨-, -, hb, hpools⟩ := pmExecute_config_ok hm h
    refine ⟨?_, by rw [hb]; exact hbuf, by (rw [hr]; intro sm hsm; cases hsm), ?_⟩
    · rcases hpools with hp | ⟨pid, p, st, hp, hpools⟩
      · exact wf_of_pools hp hwf
      · exact wf_of_pools hpools (wf_savePool_existing hwf hp rfl rfl)
    · intro d _
      rw [hr, hf, hres d]; rfl

end MantraDex.SysPm
