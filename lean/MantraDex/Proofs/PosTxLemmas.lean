/-
  Explicit transaction trees of the position transactions (C08Tx): a farm-manager call whose handler emits
  no message, membership in the position store after `savePosition`, and the inversions of
  `createPosition` / `expandPosition` with the stored record spelled out.
-/
import MantraDex.Model.System
import MantraDex.Proofs.NumLemmas
import MantraDex.Proofs.BankLemmas
import MantraDex.Proofs.FmLemmas
import MantraDex.Proofs.FarmHandlerLemmas
import MantraDex.Proofs.FarmTxLemmas
import MantraDex.Proofs.FarmTxLimit
import MantraDex.Properties.C08

set_option linter.unusedSimpArgs false
set_option linter.unusedVariables false

namespace MantraDex.PosTx
open MantraDex
open MantraDex.C01 (coinsOf amt coinsOf_cons coinsOf_nil)

/-! ### runtime -/

/-- a farm-manager transaction whose handler answers without messages: funds move, the state is replaced -/
theorem fm_nomsg_run {w w' : World} {u : Addr} {m : FmMsg} {funds : List Coin} {k : Option Nat}
    (h : runTx w (.exec u FM (.fm m) funds) k = .ok w')
    (hno : ∀ s r, fmExecute w.fm w.fmEnv u funds m = .ok (s, r) → r.msgs = []) :
    ∃ b s r,
      ((funds = [] ∧ b = { w.bank with calls := 0, failAt := k }) ∨
        (funds ≠ [] ∧ ({ w.bank with calls := 0, failAt := k } : Bank).send u FM funds = .ok b)) ∧
      fmExecute w.fm w.fmEnv u funds m = .ok (s, r) ∧ w' = { w with bank := b, fm := s } := by
  unfold runTx at h
  simp only at h
  have h64 : FUEL = 63 + 1 := rfl
  rw [h64] at h
  obtain ⟨b, s, r, hb, hx, hsubs⟩ := FarmTx.execMsg_fm_any h
  have hx' : fmExecute w.fm w.fmEnv u funds m = .ok (s, r) := hx
  rw [hno s r hx'] at hsubs
  have := FarmTx.execSubs_nil hsubs
  exact ⟨b, s, r, hb, hx', this⟩

/-! ### the position store after `savePosition` -/

theorem savePosition_positions_congr {s s2 : FmState} (h : s2.positions = s.positions) (q : Position) :
    (s2.savePosition q).positions = (s.savePosition q).positions := by
  unfold FmState.savePosition
  rw [h]
  split <;> rfl

theorem mem_save_existing {s : FmState} {q p : Position} (hany : s.positions.any (·.id == q.id) = true) :
    p ∈ (s.savePosition q).positions ↔ p = q ∨ (p ∈ s.positions ∧ p.id ≠ q.id) := by
  unfold FmState.savePosition
  rw [if_pos hany]
  simp only [List.mem_map]
  constructor
  · rintro ⟨x, hx, rfl⟩
    by_cases hq : (x.id == q.id) = true
    · rw [if_pos hq]; exact Or.inl rfl
    · rw [if_neg hq]; exact Or.inr ⟨hx, by simpa using hq⟩
  · rintro (rfl | ⟨hp, hne⟩)
    · obtain ⟨x, hx, hxq⟩ := List.any_eq_true.1 hany
      exact ⟨x, hx, by rw [if_pos hxq]⟩
    · exact ⟨p, hp, by rw [if_neg (by simpa using hne)]⟩

theorem mem_save_new {s : FmState} {q p : Position} (hnew : s.positions.any (·.id == q.id) = false) :
    p ∈ (s.savePosition q).positions ↔ p = q ∨ p ∈ s.positions := by
  unfold FmState.savePosition
  rw [if_neg (by rw [hnew]; simp)]
  rw [(FH.insertPosSorted_perm q s.positions).mem_iff, List.mem_cons]

theorem any_of_get {s : FmState} {id : String} {p : Position} (h : s.getPosition id = some p) :
    s.positions.any (·.id == id) = true := by
  obtain ⟨hm, hid⟩ := FH.getPosition_some h
  exact List.any_eq_true.2 ⟨p, hm, by simp [hid]⟩

theorem notin_of_get_none {s : FmState} {id : String} (h : s.getPosition id = none) :
    ∀ q ∈ s.positions, q.id ≠ id := by
  intro q hq e
  have := List.any_eq_false.1 (FH.getPosition_none h) q hq
  simp [e] at this

/-! ### handler inversions -/

theorem expandPosition_inv {s s' : FmState} {env : FmEnv} {sender : Addr} {funds : List Coin}
    {id : String} {r : Response} {p : Position} (hp : s.getPosition id = some p)
    (h : expandPosition s env sender funds id = .ok (s', r)) :
    ∃ c, funds = [c] ∧ c.denom = p.lpDenom ∧ p.open_ = true ∧
      (p.receiver = sender ∨ sender = s.config.poolManager) ∧
      SameStore (s.savePosition { p with amount := p.amount + c.amount }) s' ∧ r.msgs = [] := by
  unfold expandPosition at h
  rw [hp] at h
  simp only [bind_ok, error_bind, pure_bind', ite_error_ok, ckAdd_ok, pure_ok, Prod.mk.injEq] at h
  obtain ⟨c, hc, _, hden, hopen, hauth, a, ⟨_, rfl⟩, s2, h2, rfl, rfl⟩ := h
  refine ⟨c, C08.oneCoin_ok hc, ?_, by simpa using hopen, ?_, updateWeights_sameStore h2, rfl⟩
  · have : p.lpDenom = c.denom := by simpa using hden
    exact this.symm
  · simpa [Classical.or_iff_not_imp_left] using hauth

/-- the record `create_position` stores -/
def newPos (ident : String) (lp : Coin) (unl : Nat) (rcv : Addr) : Position :=
  { id := ident, lpDenom := lp.denom, amount := lp.amount, unlocking := unl, open_ := true,
    expiringAt := none, receiver := rcv }

theorem createPosition_inv {s s' : FmState} {env : FmEnv} {sender : Addr} {funds : List Coin}
    {id : Option String} {unl : Nat} {recv : Option Addr} {r : Response}
    (h : createPosition s env sender funds id unl recv = .ok (s', r)) :
    ∃ (lp : Coin) (rcv : Addr) (s1 : FmState), funds = [lp] ∧ lp.amount ≠ 0 ∧
      (rcv = sender ∨ sender = s.config.poolManager) ∧
      s.getPosition (C08.newPosId s id) = none ∧ s1.positions = s.positions ∧
      SameStore (s1.savePosition (newPos (C08.newPosId s id) lp unl rcv)) s' ∧ r.msgs = [] := by
  unfold createPosition at h
  have hone : ∀ {lp : Coin}, oneCoin funds = .ok lp → funds = [lp] ∧ lp.amount ≠ 0 := by
    intro lp hlp
    have := C08.oneCoin_ok hlp
    subst this
    unfold oneCoin at hlp
    simp only at hlp
    split at hlp
    · cases hlp
    · exact ⟨rfl, by assumption⟩
  cases recv <;> cases id <;>
    simp only [bind_ok, error_bind, pure_bind', ite_error_ok, pure_ok, Prod.mk.injEq] at h
  · obtain ⟨lp, hlp, _, _, _, _, hnone, _, s3, h3, rfl, rfl⟩ := h
    exact ⟨lp, sender, ({ s with posCounter := s.posCounter + 1 } : FmState), (hone hlp).1, (hone hlp).2, Or.inl rfl, Option.not_isSome_iff_eq_none.mp hnone, rfl,
      updateWeights_sameStore h3, rfl⟩
  · obtain ⟨lp, hlp, _, _, _, _, hnone, _, s3, h3, rfl, rfl⟩ := h
    exact ⟨lp, sender, s, (hone hlp).1, (hone hlp).2, Or.inl rfl, Option.not_isSome_iff_eq_none.mp hnone, rfl,
      updateWeights_sameStore h3, rfl⟩
  · rename_i r0
    obtain ⟨lp, hlp, _, _, _, hauth, _, _, hnone, _, s3, h3, rfl, rfl⟩ := h
    refine ⟨lp, r0, ({ s with posCounter := s.posCounter + 1 } : FmState), (hone hlp).1, (hone hlp).2, ?_, Option.not_isSome_iff_eq_none.mp hnone, rfl,
      updateWeights_sameStore h3, rfl⟩
    have : sender = s.config.poolManager ∨ sender = r0 := by simpa [Classical.or_iff_not_imp_left] using hauth
    rcases this with h1 | h1
    · exact Or.inr h1
    · exact Or.inl h1.symm
  · rename_i r0 i0
    obtain ⟨lp, hlp, _, _, _, hauth, _, _, hnone, _, s3, h3, rfl, rfl⟩ := h
    refine ⟨lp, r0, s, (hone hlp).1, (hone hlp).2, ?_, Option.not_isSome_iff_eq_none.mp hnone, rfl,
      updateWeights_sameStore h3, rfl⟩
    have : sender = s.config.poolManager ∨ sender = r0 := by simpa [Classical.or_iff_not_imp_left] using hauth
    rcases this with h1 | h1
    · exact Or.inr h1
    · exact Or.inl h1.symm

/-! ### the transactions -/

theorem ne_PM_of_not_contract {a : Addr} (h : isContract a = false) : a ≠ PM := by
  intro e; subst e; revert h; decide

/-- funds moved into the farm manager: exactly one coin -/
theorem one_coin_moved {b0 b : Bank} {u : Addr} {c : Coin}
    (hb : (([c] : List Coin) = [] ∧ b = b0) ∨ (([c] : List Coin) ≠ [] ∧ b0.send u FM [c] = .ok b)) :
    Moves b0 b u FM [c] := by
  rcases hb with ⟨h, _⟩ | ⟨_, hb⟩
  · cases h
  · exact (send_spec hb).2

/-- the transaction tree of an accepted `expand_position` -/
theorem expand_position_run {w w' : World} {u : Addr} {id : String} {funds : List Coin} {k : Option Nat}
    {p : Position} (hu : isContract u = false) (hpm : w.fm.config.poolManager = PM)
    (hp : w.fm.getPosition id = some p)
    (h : runTx w (.exec u FM (.fm (.expandPosition id)) funds) k = .ok w') :
    ∃ c, funds = [c] ∧ c.denom = p.lpDenom ∧ p.receiver = u ∧ p.open_ = true ∧
      w'.fm.getPosition id = some { p with amount := p.amount + c.amount } ∧
      (∀ q ∈ w.fm.positions, q.id ≠ id → q ∈ w'.fm.positions) ∧
      (∀ q ∈ w'.fm.positions, q.id ≠ id → q ∈ w.fm.positions) ∧
      w'.pm = w.pm ∧ w'.fm.farms = w.fm.farms ∧
      Moves { w.bank with calls := 0, failAt := k } w'.bank u FM [c] := by
  obtain ⟨b, s, r, hb, hx, rfl⟩ := fm_nomsg_run h (by
    intro s r hx
    simp only [fmExecute] at hx
    obtain ⟨_, _, _, _, _, _, hr⟩ := expandPosition_inv hp hx
    exact hr)
  simp only [fmExecute] at hx
  obtain ⟨c, hfunds, hden, hopen, hauth, hs, _⟩ := expandPosition_inv hp hx
  subst hfunds
  have hid : p.id = id := C08.getPosition_id hp
  have hrecv : p.receiver = u := by
    rcases hauth with h1 | h1
    · exact h1
    · rw [hpm] at h1; exact absurd h1 (ne_PM_of_not_contract hu)
  have hany : w.fm.positions.any (·.id == ({ p with amount := p.amount + c.amount } : Position).id) = true := by
    show w.fm.positions.any (·.id == p.id) = true
    rw [hid]; exact any_of_get hp
  refine ⟨c, rfl, hden, hrecv, hopen, ?_, ?_, ?_, rfl, ?_, one_coin_moved hb⟩
  · have := C08.getPosition_after_save hs
    rw [← hid]; exact this
  · intro q hq hne
    show q ∈ s.positions
    rw [hs.1]
    exact (mem_save_existing hany).2 (Or.inr ⟨hq, by show q.id ≠ p.id; rw [hid]; exact hne⟩)
  · intro q hq hne
    have hq' : q ∈ s.positions := hq
    rw [hs.1] at hq'
    rcases (mem_save_existing hany).1 hq' with rfl | ⟨hq2, _⟩
    · exact absurd hid hne
    · exact hq2
  · show s.farms = _
    rw [hs.2.1, savePosition_farms]

/-- the transaction tree of an accepted direct `create_position` -/
theorem create_position_run {w w' : World} {u : Addr} {id : Option String} {unl : Nat} {recv : Option Addr}
    {funds : List Coin} {k : Option Nat} (hu : isContract u = false) (hpm : w.fm.config.poolManager = PM)
    (h : runTx w (.exec u FM (.fm (.createPosition id unl recv)) funds) k = .ok w') :
    ∃ c, funds = [c] ∧ c.amount ≠ 0 ∧
      newPos (C08.newPosId w.fm id) c unl u ∈ w'.fm.positions ∧
      (∀ q ∈ w.fm.positions, q.id ≠ C08.newPosId w.fm id) ∧
      (∀ q ∈ w.fm.positions, q ∈ w'.fm.positions) ∧
      (∀ q ∈ w'.fm.positions, q = newPos (C08.newPosId w.fm id) c unl u ∨ q ∈ w.fm.positions) ∧
      w'.pm = w.pm ∧ w'.fm.farms = w.fm.farms ∧
      Moves { w.bank with calls := 0, failAt := k } w'.bank u FM [c] := by
  obtain ⟨b, s, r, hb, hx, rfl⟩ := fm_nomsg_run h (by
    intro s r hx
    simp only [fmExecute] at hx
    obtain ⟨_, _, _, _, _, _, _, _, _, hr⟩ := createPosition_inv hx
    exact hr)
  simp only [fmExecute] at hx
  have hfarms := (FarmTx.createPosition_frame hx).1
  obtain ⟨c, rcv, s1, hfunds, hne, hauth, hnone, hs1, hs, _⟩ := createPosition_inv hx
  subst hfunds
  have hrcv : rcv = u := by
    rcases hauth with h1 | h1
    · exact h1
    · rw [hpm] at h1; exact absurd h1 (ne_PM_of_not_contract hu)
  subst hrcv
  have hnew : s1.positions.any (·.id == (newPos (C08.newPosId w.fm id) c unl rcv).id) = false := by
    rw [hs1]; exact FH.getPosition_none hnone
  have hmem : ∀ q, q ∈ s.positions ↔ q = newPos (C08.newPosId w.fm id) c unl rcv ∨ q ∈ w.fm.positions := by
    intro q
    rw [hs.1, mem_save_new hnew, hs1]
  refine ⟨c, rfl, hne, (hmem _).2 (Or.inl rfl), notin_of_get_none hnone, fun q hq => (hmem q).2 (Or.inr hq),
    fun q hq => (hmem q).1 hq, rfl, hfarms, one_coin_moved hb⟩

end MantraDex.PosTx
