/-
  C20Tx helper: an accepted belief-price check yields its own side conditions (the checked operations of
  `assert_max_slippage` succeeded).
-/
import MantraDex.Model.System
import MantraDex.Proofs.NumLemmas
import MantraDex.Properties.C13

set_option linter.unusedSimpArgs false
set_option linter.unusedVariables false

namespace MantraDex.RefundTx
open MantraDex

/-- the side conditions of `C13.belief_accept_iff` follow from the success of the check itself -/
theorem belief_ok_side {bp : Nat} {ms : Option Nat} {offer ret slip : Nat}
    (h : assertMaxSlippage (some bp) ms offer ret slip = .ok ()) :
    bp ≠ 0 ∧ offer * ONE18 ≤ U256_MAX ∧ offer * ONE18 * (ONE18 * ONE18 / bp) / ONE18 ≤ U256_MAX := by
  unfold assertMaxSlippage decInv at h
  by_cases hbp : bp = 0
  · simp [hbp, bind, Except.bind] at h
  · simp only [if_neg hbp, bind_ok, fit_ok, decMul_ok, pure_ok] at h
    obtain ⟨inv, rfl, o18, ⟨ho, rfl⟩, e, ⟨he, _⟩, _⟩ := h
    exact ⟨hbp, ho, he⟩

theorem belief_ok_bound {bp : Nat} {ms : Option Nat} {offer ret slip : Nat}
    (h : assertMaxSlippage (some bp) ms offer ret slip = .ok ()) :
    bp ≠ 0 ∧
      (let expected := offer * ONE18 * (ONE18 * ONE18 / bp) / ONE18 / ONE18
       expected ≤ ret ∨ (expected - ret) * ONE18 / expected ≤ C13.effTol ms) := by
  obtain ⟨hbp, ho, hm⟩ := belief_ok_side h
  exact ⟨hbp, (C13.belief_accept_iff hbp ho hm).mp h⟩

end MantraDex.RefundTx
