/-
  Helper lemmas about the farm-manager model: monadic normal forms, the position store API
  (`getPosition` / `savePosition` / `removePosition`) and frame lemmas for the weight-history
  helpers (`updateWeights`, `syncHistory`, `reconcileUserState`).
-/
import MantraDex.Model.System
import MantraDex.Proofs.NumLemmas

set_option linter.unusedSimpArgs false

namespace MantraDex

theorem error_bind {α β : Type} (e : Err) (f : α → R β) :
    ((Except.error e : R α) >>= f) = .error e := rfl
theorem ok_bind {α β : Type} (a : α) (f : α → R β) : ((Except.ok a : R α) >>= f) = f a := rfl
theorem pure_bind' {α β : Type} (a : α) (f : α → R β) : ((pure a : R α) >>= f) = f a := rfl

theorem ite_error_ok {α : Type} {c : Prop} [Decidable c] {e : Err} {x : R α} {y : α} :
    (if c then Except.error e else x) = .ok y ↔ ¬ c ∧ x = .ok y := by
  split <;> simp_all

theorem ite_ok_error {α : Type} {c : Prop} [Decidable c] {e : Err} {x : R α} {y : α} :
    (if c then x else Except.error e) = .ok y ↔ c ∧ x = .ok y := by
  split <;> simp_all

/-! ### position store -/

theorem findId_cons_pos {x : Position} {xs : List Position} {id' : String} (h : (x.id == id') = true) :
    (x :: xs).find? (·.id == id') = some x := by simp [List.find?_cons, h]
theorem findId_cons_neg {x : Position} {xs : List Position} {id' : String} (h : ¬ (x.id == id') = true) :
    (x :: xs).find? (·.id == id') = xs.find? (·.id == id') := by simp [List.find?_cons, h]

theorem find_map_replace_same (p : Position) (l : List Position)
    (h : l.any (·.id == p.id) = true) :
    (l.map fun q => if q.id == p.id then p else q).find? (·.id == p.id) = some p := by
  induction l with
  | nil => simp at h
  | cons x xs ih =>
    simp only [List.map_cons]
    by_cases hx : (x.id == p.id) = true
    · simp [hx]
    · simp only [hx, if_false, Bool.false_eq_true]
      rw [findId_cons_neg (by simpa using hx)]
      apply ih
      simpa [hx] using h

theorem find_map_replace_other (p : Position) (l : List Position) {id' : String} (h : id' ≠ p.id) :
    (l.map fun q => if q.id == p.id then p else q).find? (·.id == id') = l.find? (·.id == id') := by
  induction l with
  | nil => rfl
  | cons x xs ih =>
    simp only [List.map_cons]
    by_cases hx : (x.id == p.id) = true
    · have hx' : x.id = p.id := by simpa using hx
      have h1 : ¬ ((p.id == id') = true) := by simpa using Ne.symm h
      have h2 : ¬ ((x.id == id') = true) := by rw [hx']; exact h1
      simp only [hx, if_true]
      rw [findId_cons_neg h1, findId_cons_neg h2, ih]
    · simp only [hx, if_false, Bool.false_eq_true]
      by_cases hy : (x.id == id') = true
      · rw [findId_cons_pos hy, findId_cons_pos hy]
      · rw [findId_cons_neg hy, findId_cons_neg hy, ih]

theorem find_insert_same (p : Position) (l : List Position) (h : l.any (·.id == p.id) = false) :
    (insertPosSorted p l).find? (·.id == p.id) = some p := by
  induction l with
  | nil => simp [insertPosSorted]
  | cons x xs ih =>
    simp only [List.any_cons, Bool.or_eq_false_iff] at h
    simp only [insertPosSorted]
    split
    · simp
    · rw [findId_cons_neg (by simp [h.1])]
      exact ih h.2

theorem find_insert_other (p : Position) (l : List Position) {id' : String} (h : id' ≠ p.id) :
    (insertPosSorted p l).find? (·.id == id') = l.find? (·.id == id') := by
  have h1 : ¬ ((p.id == id') = true) := by simpa using Ne.symm h
  induction l with
  | nil => simp only [insertPosSorted]; rw [findId_cons_neg h1]
  | cons x xs ih =>
    simp only [insertPosSorted]
    split
    · rw [findId_cons_neg h1]
    · by_cases hy : (x.id == id') = true
      · rw [findId_cons_pos hy, findId_cons_pos hy]
      · rw [findId_cons_neg hy, findId_cons_neg hy, ih]

theorem getPosition_save_same (s : FmState) (p : Position) :
    (s.savePosition p).getPosition p.id = some p := by
  unfold FmState.savePosition FmState.getPosition
  split
  next h => exact find_map_replace_same p _ h
  next h => exact find_insert_same p _ (by simpa using h)

theorem getPosition_save_other (s : FmState) (p : Position) {id' : String} (h : id' ≠ p.id) :
    (s.savePosition p).getPosition id' = s.getPosition id' := by
  unfold FmState.savePosition FmState.getPosition
  split
  · exact find_map_replace_other p _ h
  · exact find_insert_other p _ h

theorem getPosition_remove_same (s : FmState) (id : String) :
    (s.removePosition id).getPosition id = none := by
  unfold FmState.removePosition FmState.getPosition
  simp [List.find?_eq_none]

theorem getPosition_remove_other (s : FmState) {id id' : String} (h : id' ≠ id) :
    (s.removePosition id).getPosition id' = s.getPosition id' := by
  unfold FmState.removePosition FmState.getPosition
  simp only
  induction s.positions with
  | nil => rfl
  | cons x xs ih =>
    by_cases hx : x.id = id
    · have : ¬ ((x.id == id') = true) := by simp [hx, Ne.symm h]
      rw [List.filter_cons_of_neg (by simp [hx]), findId_cons_neg this, ih]
    · rw [List.filter_cons_of_pos (by simp [hx])]
      by_cases hy : (x.id == id') = true
      · rw [findId_cons_pos hy, findId_cons_pos hy]
      · rw [findId_cons_neg hy, findId_cons_neg hy, ih]

/-- `getPosition` only looks at the `positions` field -/
theorem getPosition_congr {s s' : FmState} (h : s'.positions = s.positions) (id : String) :
    s'.getPosition id = s.getPosition id := by
  unfold FmState.getPosition; rw [h]

@[simp] theorem savePosition_farms (s : FmState) (p : Position) : (s.savePosition p).farms = s.farms := by
  unfold FmState.savePosition; split <;> rfl
@[simp] theorem savePosition_config (s : FmState) (p : Position) : (s.savePosition p).config = s.config := by
  unfold FmState.savePosition; split <;> rfl
@[simp] theorem savePosition_posCounter (s : FmState) (p : Position) :
    (s.savePosition p).posCounter = s.posCounter := by
  unfold FmState.savePosition; split <;> rfl
@[simp] theorem savePosition_hist (s : FmState) (p : Position) : (s.savePosition p).hist = s.hist := by
  unfold FmState.savePosition; split <;> rfl

/-! ### frames: the weight-history helpers never touch positions, farms, counter or config -/

/-- the part of the state the weight-history helpers leave alone -/
def SameStore (s s' : FmState) : Prop :=
  s'.positions = s.positions ∧ s'.farms = s.farms ∧ s'.posCounter = s.posCounter ∧ s'.config = s.config

theorem SameStore.refl (s : FmState) : SameStore s s := ⟨rfl, rfl, rfl, rfl⟩
theorem SameStore.trans {a b c : FmState} (h1 : SameStore a b) (h2 : SameStore b c) : SameStore a c :=
  ⟨h2.1.trans h1.1, h2.2.1.trans h1.2.1, h2.2.2.1.trans h1.2.2.1, h2.2.2.2.trans h1.2.2.2⟩
theorem SameStore.getPosition {s s' : FmState} (h : SameStore s s') (id : String) :
    s'.getPosition id = s.getPosition id := getPosition_congr h.1 id

theorem setHist_sameStore (s : FmState) (a : Addr) (d : Denom) (h : List (Nat × Nat)) :
    SameStore s (s.setHist a d h) := ⟨rfl, rfl, rfl, rfl⟩

theorem updateWeights_sameStore {s s' : FmState} {env : FmEnv} {recv : Addr} {lp : Denom}
    {amount unlocking : Nat} {fill : Bool}
    (h : updateWeights s env recv lp amount unlocking fill = .ok s') : SameStore s s' := by
  unfold updateWeights at h
  cases fill
  · simp only [bind_ok, fit_ok, pure_ok, Bool.false_eq_true, if_false] at h
    obtain ⟨cur, _, w, _, e, _, cw', _, uw', _, rfl⟩ := h
    exact ⟨rfl, rfl, rfl, rfl⟩
  · simp only [bind_ok, fit_ok, pure_ok, if_true, ckAdd_ok] at h
    obtain ⟨cur, _, w, _, e, _, cw', _, uw', _, rfl⟩ := h
    exact ⟨rfl, rfl, rfl, rfl⟩

theorem syncHistory_sameStore {s s' : FmState} {a : Addr} {lp : Denom} {e : Nat} {save : Bool}
    (h : syncHistory s a lp e save = .ok s') : SameStore s s' := by
  unfold syncHistory at h
  simp only at h
  split at h
  · simp [error_bind] at h
  · split at h
    · simp only [pure_ok] at h; subst h; exact setHist_sameStore ..
    · split at h
      · simp only [pure_ok] at h; subst h; exact SameStore.refl _
      · simp only [pure_ok] at h; subst h; exact setHist_sameStore ..

theorem reconcileUserState_sameStore {s s' : FmState} {env : FmEnv} {recv : Addr} {lp : Denom}
    (h : reconcileUserState s env recv lp = .ok s') : SameStore s s' := by
  unfold reconcileUserState at h
  simp only at h
  generalize hs1 : (if (s.positionsBy recv true).isEmpty = true then
      ({ s with lastClaimed := fun a => if a = recv then none else s.lastClaimed a } : FmState) else s)
      = s1 at h
  have h1 : SameStore s s1 := by subst hs1; split <;> exact ⟨rfl, rfl, rfl, rfl⟩
  split at h
  · simp only [bind_ok] at h
    obtain ⟨cur, _, h⟩ := h
    exact h1.trans (syncHistory_sameStore h)
  · simp only [pure_ok] at h
    subst h; exact h1

/-! ### handlers that never write positions -/

@[simp] theorem saveFarm_positions (s : FmState) (f : Farm) : (s.saveFarm f).positions = s.positions := by
  unfold FmState.saveFarm; split <;> rfl

theorem closeFarms_positions (s : FmState) (fs : List Farm) : (closeFarms s fs).1.positions = s.positions := by
  unfold closeFarms
  suffices ∀ (st : FmState × List SubMsg), (fs.foldl (fun (st : FmState × List SubMsg) f =>
    let s' := { st.1 with farms := st.1.farms.filter (·.id != f.id) }
    let rem := f.assetAmount - f.claimed
    if rem > 0 then
      (s', st.2 ++ [{ msg := .bankSend f.owner [⟨f.assetDenom, rem⟩], replyOn := .error,
                      id := C.CLOSE_FARMS_ERR_REPLY_CODE }])
    else (s', st.2)) st).1.positions = st.1.positions from this (s, [])
  induction fs with
  | nil => intro st; rfl
  | cons f fs ih =>
    intro st
    simp only [List.foldl_cons]
    rw [ih]
    split <;> rfl

theorem foldlM_inv {α β : Type} (P : β → Prop) (f : β → α → R β)
    (hf : ∀ b a b', P b → f b a = .ok b' → P b') :
    ∀ (l : List α) (b b' : β), P b → l.foldlM f b = .ok b' → P b' := by
  intro l
  induction l with
  | nil => intro b b' hb h; simp only [List.foldlM_nil, pure_ok] at h; subst h; exact hb
  | cons a l ih =>
    intro b b' hb h
    simp only [List.foldlM_cons, bind_ok] at h
    obtain ⟨b1, h1, h2⟩ := h
    exact ih b1 b' (hf b a b1 hb h1) h2

theorem createFarm_positions {s s' : FmState} {env : FmEnv} {sender : Addr} {funds : List Coin}
    {p : FarmParams} {r : Response} (h : createFarm s env sender funds p = .ok (s', r)) :
    s'.positions = s.positions := by
  unfold createFarm at h
  obtain ⟨lpDenom, se, ee, asset, farmId⟩ := p
  cases farmId <;>
  simp only [bind_ok, error_bind, pure_bind', ite_error_ok, pure_ok, Prod.mk.injEq] at h
  all_goals
    obtain ⟨_, cur, _, flags, _, _, _, h⟩ := h
    split at h <;> simp only [bind_ok, ite_error_ok, pure_ok, Prod.mk.injEq] at h
    · obtain ⟨feeMsgs, _, _, _, x, _, _, _, _, rate, _, rfl, _⟩ := h
      rw [saveFarm_positions]; exact closeFarms_positions _ _
    · obtain ⟨_, _, x, _, _, _, _, rate, _, rfl, _⟩ := h
      rw [saveFarm_positions]; exact closeFarms_positions _ _

/-- the computation, when it succeeds, returns a state with the same positions as `s` -/
def KeepsPos (s : FmState) (x : R (FmState × Response)) : Prop :=
  ∀ s' r, x = .ok (s', r) → s'.positions = s.positions

theorem keeps_bind {α : Type} {s : FmState} {x : R α} {f : α → R (FmState × Response)}
    (hf : ∀ a, x = .ok a → KeepsPos s (f a)) : KeepsPos s (x >>= f) := by
  intro s' r h
  rw [bind_ok] at h
  obtain ⟨a, ha, h⟩ := h
  exact hf a ha s' r h

theorem keeps_error {s : FmState} {e : Err} : KeepsPos s (Except.error e) := by
  intro s' r h; simp at h

theorem keeps_pure {s s1 : FmState} {r1 : Response} (h : s1.positions = s.positions) :
    KeepsPos s (pure (s1, r1)) := by
  intro s' r h'
  simp only [pure_ok, Prod.mk.injEq] at h'
  rw [h'.1]; exact h

theorem fmUpdateConfig_positions {s : FmState} {env : FmEnv} {sender : Addr} {u : FmConfigUpdate} :
    KeepsPos s (fmUpdateConfig s env sender u) := by
  unfold fmUpdateConfig
  simp only [pure_bind', error_bind]
  refine keeps_bind fun _ _ => keeps_bind fun fc _ => keeps_bind fun em _ => keeps_bind fun pm _ => ?_
  repeat' (first | exact keeps_error | exact keeps_pure rfl | split)

theorem expandFarm_positions {s : FmState} {env : FmEnv} {sender : Addr} {funds : List Coin}
    {p : FarmParams} : KeepsPos s (expandFarm s env sender funds p) := by
  unfold expandFarm
  simp only [pure_bind', error_bind]
  repeat' first | exact keeps_error | exact keeps_pure (saveFarm_positions _ _) | refine keeps_bind fun _ _ => ?_ | split

theorem closeFarm_positions {s : FmState} {sender : Addr} {funds : List Coin}
    {id : String} : KeepsPos s (closeFarm s sender funds id) := by
  unfold closeFarm
  simp only [pure_bind', error_bind]
  repeat' first | exact keeps_error | exact keeps_pure (closeFarms_positions _ _) | refine keeps_bind fun _ _ => ?_ | split

theorem fmClaim_positions {s s' : FmState} {env : FmEnv} {sender : Addr} {funds : List Coin}
    {u : Option Nat} {r : Response} (h : fmClaim s env sender funds u = .ok (s', r)) :
    s'.positions = s.positions := by
  unfold fmClaim at h
  simp only [bind_ok, error_bind, pure_bind', ite_error_ok, pure_ok, Prod.mk.injEq] at h
  obtain ⟨_, _, _, cur, _, ue, _, ⟨sA, tot⟩, hfold, h⟩ := h
  have hA : sA.positions = s.positions := by
    have := foldlM_inv (fun (st : FmState × List Coin) => st.1.positions = s.positions) _ ?_ _ _ _ rfl hfold
    · exact this
    · intro st lp st' hst hstep
      simp only [bind_ok, pure_ok] at hstep
      obtain ⟨rc, _, s1, h1, s2, h2, rfl⟩ := hstep
      have h1' : s1.positions = st.1.positions := by
        refine foldlM_inv (fun (x : FmState) => x.positions = st.1.positions) _ ?_ _ _ _ rfl h1
        intro b m b' hb hm
        simp only [bind_ok, ite_error_ok, pure_ok, ckAdd_ok] at hm
        obtain ⟨f, _, c, _, _, rfl⟩ := hm
        rw [saveFarm_positions]; exact hb
      show s2.positions = s.positions
      rw [(syncHistory_sameStore h2).1, h1', hst]
  split at h
  · simp only [pure_ok, Prod.mk.injEq] at h
    rw [h.1]; exact hA
  · simp only [bind_ok, pure_ok, Prod.mk.injEq] at h
    obtain ⟨_, _, h, _⟩ := h
    rw [h]; exact hA

end MantraDex
