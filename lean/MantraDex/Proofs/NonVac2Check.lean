/-
  Helper for `Properties/NonVacuity2.lean` (section `C03NoDrain`): Boolean checkers for `C02Sys.LpPlain` and
  `C03Sys.Unfunded` (sound: checker `= true` ⇒ the predicate), and a checker that walks ALL prefixes of a concrete
  history with the kernel-evaluable twin `stepK2` of `step`.
-/
import MantraDex.Model.System
import MantraDex.Properties.C03Sys
import MantraDex.Proofs.NonVac2Twin

set_option linter.unusedSimpArgs false
set_option linter.unusedVariables false

namespace MantraDex.NonVac2
open MantraDex

/-- `C02Sys.LpPlain` as a Boolean -/
def lpPlainB (w : World) : Bool :=
  w.pm.pools.all fun p =>
    (w.pm.pools.all fun q => !q.denoms.contains p.lpDenom) && !(w.tfFees.map (·.denom)).contains p.lpDenom

theorem lpPlainB_sound {w : World} (h : lpPlainB w = true) : C02Sys.LpPlain w := by
  intro p hp
  unfold lpPlainB at h
  rw [List.all_eq_true] at h
  have hp' := h p hp
  simp only [Bool.and_eq_true, List.all_eq_true, Bool.not_eq_true', List.contains_eq_mem,
    decide_eq_false_iff_not] at hp'
  exact ⟨fun q hq => hp'.1 q hq, hp'.2⟩

/-- `C03Sys.Unfunded` as a Boolean -/
def unfundedB (w : World) : Bool :=
  w.pm.pools.all fun p => p.ptype != .cp || w.bank.supply p.lpDenom != 0 || p.assets.all (·.amount == 0)

theorem unfundedB_sound {w : World} (h : unfundedB w = true) : C03Sys.Unfunded w := by
  intro p hp hcp hs a ha
  unfold unfundedB at h
  rw [List.all_eq_true] at h
  have hp' := h p hp
  simp only [Bool.or_eq_true, bne_iff_ne, ne_eq, List.all_eq_true, beq_iff_eq] at hp'
  rcases hp' with (h1 | h1) | h1
  · exact absurd hcp h1
  · exact absurd hs h1
  · exact h1 a ha

/-- `chk` holds in the start world and after every prefix of the history (walked with the twin) -/
def allPrefixesK (chk : World → Bool) : World → List (Tx × Option Nat) → Bool
  | w, [] => chk w
  | w, t :: ts => chk w && allPrefixesK chk (stepK2 w t.1 t.2) ts

theorem allPrefixesK_sound (chk : World → Bool) : ∀ (txs : List (Tx × Option Nat)) (w : World),
    allPrefixesK chk w txs = true → ∀ n, chk ((txs.take n).foldl (fun w t => step w t.1 t.2) w) = true := by
  intro txs
  induction txs with
  | nil =>
    intro w h n
    simpa [allPrefixesK] using h
  | cons t ts ih =>
    intro w h n
    simp only [allPrefixesK, Bool.and_eq_true] at h
    cases n with
    | zero => simpa using h.1
    | succ n =>
      rw [List.take_succ_cons, List.foldl_cons]
      have := ih (stepK2 w t.1 t.2) h.2 n
      rw [stepK2_eq] at this
      exact this

/-- the world a history reaches, computed with the twin -/
def runK (w : World) (txs : List (Tx × Option Nat)) : World := txs.foldl (fun w t => stepK2 w t.1 t.2) w

theorem runK_eq (w : World) (txs : List (Tx × Option Nat)) :
    txs.foldl (fun w t => step w t.1 t.2) w = runK w txs := by
  unfold runK
  rw [stepK2_eq]

/-- every transaction of the history is accepted in the state it meets -/
def allAcceptedK2 (w : World) : List (Tx × Option Nat) → Bool
  | [] => true
  | t :: ts => (match runTxK2 w t.1 t.2 with | .ok _ => true | .error _ => false) && allAcceptedK2 (stepK2 w t.1 t.2) ts

theorem allAcceptedK2_eq (txs : List (Tx × Option Nat)) : ∀ w, allAcceptedK2 w txs = NonVac.allAccepted w txs := by
  induction txs with
  | nil => intro w; rfl
  | cons t ts ih =>
    intro w
    rw [allAcceptedK2, NonVac.allAccepted, ih, runTxK2_eq, stepK2_eq]
    rfl

end MantraDex.NonVac2
