/-
  C07Sys, part 10 (entry-free): one transaction, for a predicate on the farm-manager state that every handler
  preserves (`step_carried2`), and the instance used by `owed_frozen`: the total's weights in effect up to the
  current epoch are frozen, and a stored farm either descends from a farm of the pre-state (same identifier and
  start, end not earlier) or starts after the current epoch (`Frz`).
-/
import MantraDex.Proofs.LedSys2Run
import MantraDex.Proofs.LedSys2Claim
import MantraDex.Proofs.WSysStep

set_option linter.unusedSimpArgs false
set_option linter.unusedVariables false

namespace MantraDex.LedSys
open MantraDex MantraDex.WSys

theorem fundsMove_bank2 {w w1 : World} {sender c : Addr} {funds : List Coin}
    (h : (if funds.isEmpty then pure w else do
        let b ← w.bank.send sender c funds
        pure { w with bank := b }) = (.ok w1 : R World)) : ∃ b, w1 = { w with bank := b } := by
  split at h
  · simp only [pure_ok] at h; exact ⟨w.bank, by rw [← h]⟩
  · obtain ⟨b, hb, h⟩ := bind_ok.mp h
    simp only [pure_ok] at h; exact ⟨b, by rw [← h]⟩

/-- one transaction: a predicate carried by every handler, by `claim` and by configuration changes -/
theorem step_carried2 {P : FmState → Prop} (w : World) (tx : Tx) (k : Option Nat) (hP : Carried2 w.fmEnv P)
    (hclaim : ∀ (s s' : FmState) (sender : Addr) (funds : List Coin) (u : Option Nat) (r : Response),
      P s → FInv s w.fmEnv → sender ≠ w.fmEnv.self → fmClaim s w.fmEnv sender funds u = .ok (s', r) → P s')
    (hcfg : ∀ s s' : FmState, P s → s'.hist = s.hist → s'.farms = s.farms →
      s'.config.epochManager = s.config.epochManager → P s')
    (hext : C05Sys.External tx)
    (hecfg : (step w tx k).em.cfg = w.em.cfg)
    (hem : (step w tx k).fm.config.epochManager = w.fm.config.epochManager)
    (hnow : (step w tx k).nowNs ≤ U64_MAX)
    (h : WCore w) (hpm : w.fm.config.poolManager = PM) (hp : P w.fm) :
    P (step w tx k).fm ∧
    ∀ cur, fmCurrentEpoch w.fm w.fmEnv = .ok cur →
      ∃ cur', fmCurrentEpoch (step w tx k).fm (step w tx k).fmEnv = .ok cur' ∧ cur ≤ cur' := by
  have same : ∀ w' : World, w'.fm.config.epochManager = w.fm.config.epochManager → w'.fmEnv = w.fmEnv →
      ∀ cur, fmCurrentEpoch w.fm w.fmEnv = .ok cur →
        ∃ cur', fmCurrentEpoch w'.fm w'.fmEnv = .ok cur' ∧ cur ≤ cur' := by
    intro w' h1 h2 cur hc
    refine ⟨cur, ?_, Nat.le_refl _⟩
    rw [h2, fmCurrentEpoch_congr _ h1]; exact hc
  unfold step at hecfg hem hnow ⊢
  cases hr : runTx w tx k with
  | error e => exact ⟨hp, same w rfl rfl⟩
  | ok w' =>
    rw [hr] at hecfg hem hnow
    simp only at hecfg hem hnow ⊢
    have outer : w'.nowNs = w.nowNs → ∀ cur, fmCurrentEpoch w.fm w.fmEnv = .ok cur →
        ∃ cur', fmCurrentEpoch w'.fm w'.fmEnv = .ok cur' ∧ cur ≤ cur' := by
      intro h3 cur hc
      have hcur : fmCurrentEpoch w'.fm w'.fmEnv = fmCurrentEpoch w.fm w.fmEnv := by
        unfold fmCurrentEpoch World.fmEnv
        simp only [hem, hecfg, h3]
      exact ⟨cur, by rw [hcur]; exact hc, Nat.le_refl _⟩
    have lift : ∀ {sender : Addr} {m : Msg}, MsgOk2 sender m →
        execMsg FUEL { w with bank := { w.bank with calls := 0, failAt := k } } sender m = .ok w' →
        P w'.fm ∧ w'.fmEnv = w.fmEnv := by
      intro sender m hok hx
      have hI : LS2 w.fmEnv P { w with bank := { w.bank with calls := 0, failAt := k } } :=
        ⟨⟨rfl, hpm, h.finv, h.wf, h.buf⟩, hp⟩
      have hI' := ls2_exec hP hI hok hx
      exact ⟨hI'.p, hI'.sinv.env⟩
    cases tx with
    | exec sender c msg funds =>
      have hs := hext.1
      simp only [runTx] at hr
      by_cases hclm : ∃ u, msg = .fm (.claim u)
      · obtain ⟨u, rfl⟩ := hclm
        rw [FUEL_succ] at hr
        obtain ⟨w1, w2, resp, hw1, hce, hsub⟩ := SysPools.wasm_inv hr
        obtain ⟨b, rfl⟩ := fundsMove_bank2 hw1
        obtain ⟨hsf, _⟩ := ext_ne hs
        rcases AuthSys.callExecute_cases hce with ⟨m, s, hm, -, -, -⟩ | ⟨m, s, hm, hc, hxx, rfl⟩ |
            ⟨m, s, hm, -, -, -, -⟩ | ⟨a, o, hm, -, -, -, -, -⟩
        · cases hm
        · cases hm
          have hcl : fmClaim w.fm w.fmEnv sender funds u = .ok (s, resp) := hxx
          have hsenv : sender ≠ w.fmEnv.self := hsf
          obtain ⟨k1, k2, k3, k4⟩ := fmClaim_inv h.finv hsenv hcl
          have hp' := hclaim _ _ _ _ _ _ hp h.finv hsenv hcl
          have hI : LS2 w.fmEnv P { ({ w with bank := b } : World) with fm := s } :=
            ⟨⟨rfl, by show s.config.poolManager = PM; rw [k2]; exact hpm, k1, FmSys.poswf_congr k3 k4 h.wf,
              h.buf⟩, hp'⟩
          have hI' := ls2_subs hP hI (fun sm hsm => msgOk2_of_send (SysPm.fmExecute_sends hxx sm hsm)) hsub
          exact ⟨hI'.p, same w' hem hI'.sinv.env⟩
        · cases hm
        · cases hm
      · have hnc : ∀ u, msg ≠ .fm (.claim u) := fun u e => hclm ⟨u, e⟩
        by_cases h1 : ∃ u, msg = .fm (.updateConfig u)
        · obtain ⟨u, rfl⟩ := h1
          rw [FUEL_succ] at hr
          obtain ⟨ho, _⟩ := top_fm_config hr
          have hfarms : w'.fm.farms = w.fm.farms := by
            obtain ⟨w1, w2, resp, hw1, hce, hx⟩ := SysPools.wasm_inv hr
            obtain ⟨b, rfl⟩ := fundsMove_bank2 hw1
            simp only [callExecute] at hce
            split at hce
            · cases hce
            · obtain ⟨⟨s, r⟩, hrr, hce⟩ := bind_ok.mp hce
              simp only [pure_ok, Prod.mk.injEq] at hce
              obtain ⟨rfl, rfl⟩ := hce
              have hf := (C05.config_conserves (Or.inl ⟨u, rfl⟩) hrr).2.1
              have hm := (C05.config_conserves (Or.inl ⟨u, rfl⟩) hrr).2.2.1
              rw [hm] at hx
              have := execSubs_nil hx
              subst this
              exact hf
          exact ⟨hcfg _ _ hp ho.hist hfarms hem, outer ho.nowNs⟩
        · by_cases h2 : ∃ m, msg = .em m
          · obtain ⟨m, rfl⟩ := h2
            rw [FUEL_succ] at hr
            obtain ⟨ho, hfm⟩ := top_em hr
            exact ⟨by rw [hfm]; exact hp, outer ho.nowNs⟩
          · have hok : MsgOk sender (.wasmExec c msg funds) :=
              msgOk_external hs (fun u e => h1 ⟨u, e⟩) (fun m e => h2 ⟨m, e⟩)
            have hok2 : MsgOk2 sender (.wasmExec c msg funds) := by
              refine ⟨hok, ?_⟩
              cases msg with
              | fm m =>
                cases m with
                | claim u => exact absurd rfl (hnc u)
                | _ => trivial
              | _ => trivial
            obtain ⟨a, b⟩ := lift hok2 hr
            exact ⟨a, same w' hem b⟩
    | send frm to coins =>
      simp only [runTx] at hr
      obtain ⟨a, b⟩ := lift (m := .bankSend to coins) ⟨trivial, trivial⟩ hr
      exact ⟨a, same w' hem b⟩
    | advance ns =>
      simp only [runTx, Except.ok.injEq] at hr
      subst hr
      refine ⟨hp, ?_⟩
      intro cur hc
      exact fmCurrentEpoch_mono hc rfl (Nat.le_add_right _ _) hnow

/-! ### frozen totals and farm descent -/

structure Frz (s0 : FmState) (env0 : FmEnv) (cur0 : Nat) (s : FmState) : Prop where
  em : s.config.epochManager = s0.config.epochManager
  total : ∀ lp e, e ≤ cur0 → Spec.weightAt (s.hist env0.self lp) e = Spec.weightAt (s0.hist env0.self lp) e
  farms : ∀ g' ∈ s.farms, (∃ g ∈ s0.farms, g.id = g'.id ∧ g'.startEpoch = g.startEpoch ∧
    g.endEpoch ≤ g'.endEpoch) ∨ cur0 < g'.startEpoch

theorem frz_refl (s0 : FmState) (env0 : FmEnv) (cur0 : Nat) : Frz s0 env0 cur0 s0 :=
  ⟨rfl, fun _ _ _ => rfl, fun g hg => Or.inl ⟨g, hg, rfl, rfl, Nat.le_refl _⟩⟩

theorem frz_farms_eq {s0 s s' : FmState} {env0 : FmEnv} {cur0 : Nat} (h : Frz s0 env0 cur0 s)
    (hem : s'.config.epochManager = s.config.epochManager)
    (hh : ∀ lp e, e ≤ cur0 → Spec.weightAt (s'.hist env0.self lp) e = Spec.weightAt (s.hist env0.self lp) e)
    (hf : ∀ g' ∈ s'.farms, ∃ g ∈ s.farms, g.id = g'.id ∧ g'.startEpoch = g.startEpoch ∧
      g.endEpoch ≤ g'.endEpoch) : Frz s0 env0 cur0 s' := by
  refine ⟨hem.trans h.em, fun lp e he => (hh lp e he).trans (h.total lp e he), ?_⟩
  intro g' hg'
  obtain ⟨g, hg, a, b, c⟩ := hf g' hg'
  rcases h.farms g hg with ⟨g0, hg0, a0, b0, c0⟩ | hlt
  · exact Or.inl ⟨g0, hg0, a0.trans a, b.trans b0, Nat.le_trans c0 c⟩
  · exact Or.inr (by omega)

theorem frz_cfg {s0 : FmState} {env0 : FmEnv} {cur0 : Nat} : ∀ s s' : FmState, Frz s0 env0 cur0 s →
    s'.hist = s.hist → s'.farms = s.farms → s'.config.epochManager = s.config.epochManager →
    Frz s0 env0 cur0 s' := by
  intro s s' h hh hf hem
  refine frz_farms_eq h hem (fun lp e _ => by rw [hh]) ?_
  intro g' hg'
  rw [hf] at hg'
  exact ⟨g', hg', rfl, rfl, Nat.le_refl _⟩

theorem frz_claim {s0 : FmState} {env0 : FmEnv} {cur0 : Nat} :
    ∀ (s s' : FmState) (sender : Addr) (funds : List Coin) (u : Option Nat) (r : Response),
      Frz s0 env0 cur0 s ∧ (s.farms.map (·.id)).Nodup → FInv s env0 → sender ≠ env0.self →
      fmClaim s env0 sender funds u = .ok (s', r) → Frz s0 env0 cur0 s' ∧ (s'.farms.map (·.id)).Nodup := by
  intro s s' sender funds u r ⟨h, hn⟩ hi hs hx
  obtain ⟨_, untilE, _, _, _, hfarms⟩ := claim_run2 hn hx
  obtain ⟨_, _, sF, _, _, _, _, _, hmid, hs', _⟩ := claim_run hn hx
  obtain ⟨_, k2, _, _⟩ := fmClaim_inv hi hs hx
  refine ⟨frz_farms_eq h (by rw [k2]) ?_ ?_, by rw [hfarms, Split.map_addC_ids]; exact hn⟩
  · intro lp e _
    have : s'.hist env0.self lp = s.hist env0.self lp := by
      rw [hs']; exact hmid.histOther env0.self lp (Or.inl (Ne.symm hs))
    rw [this]
  · intro g' hg'
    rw [hfarms] at hg'
    obtain ⟨g, hg, rfl⟩ := List.mem_map.1 hg'
    exact ⟨g, hg, rfl, rfl, Nat.le_refl _⟩

theorem createFarm_mem {s s' : FmState} {env : FmEnv} {sender : Addr} {funds : List Coin} {p : FarmParams}
    {r : Response} (hu : (s.farms.map (·.id)).Nodup) (h : createFarm s env sender funds p = .ok (s', r)) :
    (s'.farms.map (·.id)).Nodup ∧ ∃ cur, fmCurrentEpoch s env = .ok cur ∧
      ∀ g ∈ s'.farms, cur < g.startEpoch ∨ g ∈ s.farms := by
  obtain ⟨cur, flags, feeMsgs, start, end_, rate, hcur, hflags, _, _, hfm, hassert, hval, hrate, hany,
    rfl, rfl⟩ := FH.createFarm_inv h
  obtain ⟨h1, h2, _⟩ := FH.validateFarmEpochs_ok hval
  refine ⟨?_, cur, hcur, ?_⟩
  · rw [((FH.saveFarm_perm_new hany).map _).nodup_iff]
    simp only [List.map_cons, List.nodup_cons]
    refine ⟨?_, by rw [FH.cfIdState_farms]; exact FmSys.closeFarms_nodup _ hu⟩
    intro hm
    obtain ⟨g, hg, hgid⟩ := List.mem_map.1 hm
    have := List.any_eq_false.1 hany g hg
    simp [hgid] at this
  · intro g hg
    have := (FH.saveFarm_perm_new hany).mem_iff.1 hg
    rcases List.mem_cons.1 this with e | hg'
    · left; rw [e]; exact h1
    · rw [FH.cfIdState_farms] at hg'
      exact Or.inr (C05.closeFarms_mem hg')

theorem expandFarm_mem {s s' : FmState} {env : FmEnv} {sender : Addr} {funds : List Coin} {p : FarmParams}
    {r : Response} (hu : (s.farms.map (·.id)).Nodup) (h : expandFarm s env sender funds p = .ok (s', r)) :
    (s'.farms.map (·.id)).Nodup ∧ ∀ g' ∈ s'.farms, ∃ g ∈ s.farms, g.id = g'.id ∧
      g'.startEpoch = g.startEpoch ∧ g.endEpoch ≤ g'.endEpoch := by
  refine ⟨(FmSys.expandFarm_wf hu h).1, ?_⟩
  unfold expandFarm at h
  cases hid : p.farmId with
  | none => simp [hid, bind, Except.bind] at h
  | some fid =>
    simp only [hid, FH.error_bind, FH.ite_err_ok, bind_ok, pure_ok, fit_ok, ckAdd_ok, Prod.mk.injEq] at h
    obtain ⟨fid', hfid', f, hf, _, cur, hcur, hlt, ex, _, _, _, reward, hone, hrw, hden, hrate, hmod, total,
      ⟨_, rfl⟩, extra, ⟨_, rfl⟩, newEnd, ⟨_, rfl⟩, rfl, rfl⟩ := h
    cases hfid'
    obtain ⟨hmem, _⟩ := FH.getFarm_ok hf
    intro g' hg'
    have hcase : g' = ({ f with assetAmount := f.assetAmount + reward.amount, endEpoch := f.endEpoch + p.asset.amount / f.emissionRate } : Farm) ∨ g' ∈ s.farms :=
      C05.mem_saveFarm_replace hu hmem rfl hg'
    rcases hcase with rfl | hg''
    · exact ⟨f, hmem, rfl, rfl, Nat.le_add_right _ _⟩
    · exact ⟨g', hg'', rfl, rfl, Nat.le_refl _⟩

theorem frz_carried2 {s0 : FmState} {env0 : FmEnv} {cur0 : Nat} (hc0 : fmCurrentEpoch s0 env0 = .ok cur0) :
    Carried2 env0 (fun s => Frz s0 env0 cur0 s ∧ (s.farms.map (·.id)).Nodup) := by
  intro s s' sender funds m r ⟨h, hn⟩ hi hwf hi' hs hnc hnu hcfg hx
  have hcur : fmCurrentEpoch s env0 = .ok cur0 := by
    rw [fmCurrentEpoch_congr env0 h.em]; exact hc0
  have hev := (fmExecute_hevo hs hnc hnu hx).evo
  have htot : ∀ lp e, e ≤ cur0 →
      Spec.weightAt (s'.hist env0.self lp) e = Spec.weightAt (s.hist env0.self lp) e :=
    fun lp e he => hev.frozen cur0 (by rw [hcur]; rfl) lp e he
  have hem : s'.config.epochManager = s.config.epochManager := by rw [hcfg]
  have same : s'.farms = s.farms → Frz s0 env0 cur0 s' ∧ (s'.farms.map (·.id)).Nodup := by
    intro hf
    refine ⟨frz_farms_eq h hem htot ?_, by rw [hf]; exact hn⟩
    intro g' hg'
    rw [hf] at hg'
    exact ⟨g', hg', rfl, rfl, Nat.le_refl _⟩
  cases m with
  | createFarm p =>
    obtain ⟨hn', cur, hc, hmem⟩ := createFarm_mem hn hx
    have hc' : fmCurrentEpoch s env0 = .ok cur := hc
    rw [hcur] at hc'
    cases hc'
    refine ⟨⟨hem.trans h.em, fun lp e he => (htot lp e he).trans (h.total lp e he), ?_⟩, hn'⟩
    intro g' hg'
    rcases hmem g' hg' with hlt | hg
    · exact Or.inr hlt
    · exact h.farms g' hg
  | expandFarm p =>
    obtain ⟨hn', hmem⟩ := expandFarm_mem hn hx
    exact ⟨frz_farms_eq h hem htot hmem, hn'⟩
  | closeFarm id =>
    have hn' := (FmSys.closeFarm_wf hn hx).1
    refine ⟨frz_farms_eq h hem htot ?_, hn'⟩
    intro g' hg'
    have hx' : closeFarm s sender funds id = .ok (s', r) := hx
    unfold closeFarm at hx'
    simp only [FH.error_bind, FH.ite_err_ok, bind_ok, pure_ok, Prod.mk.injEq] at hx'
    obtain ⟨_, hnp, f, hf, _, rfl, rfl⟩ := hx'
    exact ⟨g', C05.closeFarms_mem hg', rfl, rfl, Nat.le_refl _⟩
  | claim u => exact absurd rfl (hnc u)
  | createPosition id u rc => exact same (FmSys.createPosition_wf hwf hx).2.1
  | expandPosition id => exact same (FmSys.expandPosition_wf hwf hx).2.1
  | closePosition id lp => exact same (FmSys.closePosition_wf hwf hx).2.1
  | withdrawPosition id e => exact same (FmSys.withdrawPosition_wf hwf hx).2.1
  | updateConfig u => exact absurd rfl (hnu u)
  | updateOwnership a =>
    unfold fmExecute at hx
    simp only [bind_ok, pure_ok, Prod.mk.injEq] at hx
    obtain ⟨_, _, o, _, rfl, _⟩ := hx
    exact same rfl

end MantraDex.LedSys
