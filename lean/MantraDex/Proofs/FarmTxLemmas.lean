/-
  Explicit transaction trees of the farm transactions (C11Sys): a call into the farm manager with
  funds, the reply-on-error refund of a closing farm, and the inversion of `closeFarm`.
-/
import MantraDex.Model.System
import MantraDex.Proofs.NumLemmas
import MantraDex.Proofs.BankLemmas
import MantraDex.Proofs.FarmHandlerLemmas
import MantraDex.Proofs.WithdrawTxLemmas
import MantraDex.Properties.C05Sys
import MantraDex.Properties.C11
import MantraDex.Properties.C15
import MantraDex.Properties.C20

set_option linter.unusedSimpArgs false
set_option linter.unusedVariables false

namespace MantraDex.FarmTx
open MantraDex
open MantraDex.C01 (coinsOf amt coinsOf_cons coinsOf_nil)

/-! ### runtime -/

/-- a call into the farm manager with funds attached -/
theorem execMsg_fm_funds (n : Nat) (w : World) (sender : Addr) (m : FmMsg) (funds : List Coin)
    (hne : funds.isEmpty = false) :
    execMsg (n + 1) w sender (.wasmExec FM (.fm m) funds) =
      (w.bank.send sender FM funds >>= fun b =>
        fmExecute w.fm w.fmEnv sender funds m >>= fun sr =>
          execSubs n { w with bank := b, fm := sr.1 } FM sr.2.msgs) := by
  have hc : isContract FM = true := by decide
  simp only [execMsg, hc, hne, Bool.not_true, Bool.false_eq_true, if_false, callExecute,
    bne_self_eq_false, bind_assoc, pure_bind]
  rfl

/-- a call into the farm manager, with or without funds: the bank after the funds moved -/
theorem execMsg_fm_any {n : Nat} {w w' : World} {sender : Addr} {m : FmMsg} {funds : List Coin}
    (h : execMsg (n + 1) w sender (.wasmExec FM (.fm m) funds) = .ok w') :
    ∃ b s r, ((funds = [] ∧ b = w.bank) ∨ (funds ≠ [] ∧ w.bank.send sender FM funds = .ok b)) ∧
      fmExecute w.fm w.fmEnv sender funds m = .ok (s, r) ∧
      execSubs n { w with bank := b, fm := s } FM r.msgs = .ok w' := by
  cases funds with
  | nil =>
    rw [execMsg_fm_eq] at h
    obtain ⟨⟨s, r⟩, h1, h2⟩ := bind_ok.mp h
    exact ⟨w.bank, s, r, Or.inl ⟨rfl, rfl⟩, h1, h2⟩
  | cons c cs =>
    rw [execMsg_fm_funds n w sender m (c :: cs) rfl] at h
    obtain ⟨b, hb, h⟩ := bind_ok.mp h
    obtain ⟨⟨s, r⟩, h1, h2⟩ := bind_ok.mp h
    exact ⟨b, s, r, Or.inr ⟨by simp, hb⟩, h1, h2⟩

/-- the single refund of a closing farm: either it is executed, or it fails and only the fault counter moves -/
theorem execSubs_refund {n : Nat} {w w' : World} {to : Addr} {cs : List Coin}
    (h : execSubs (n + 2) w FM
      [{ msg := .bankSend to cs, replyOn := .error, id := C.CLOSE_FARMS_ERR_REPLY_CODE }] = .ok w') :
    (∃ b, w.bank.send FM to cs = .ok b ∧ w' = { w with bank := b }) ∨
    ((∃ e, w.bank.send FM to cs = .error e) ∧
      w' = { w with bank := { w.bank with calls := w.bank.calls + 1 } }) := by
  cases hs : w.bank.send FM to cs with
  | error e =>
    have he : execMsg (n + 1) w FM (.bankSend to cs) = .error e := by
      simp only [execMsg, hs]; rfl
    rw [C20.failed_refund_tolerated n w to cs [] e he] at h
    simp only [execSubs] at h
    cases h
    exact Or.inr ⟨⟨e, rfl⟩, rfl⟩
  | ok b =>
    have he : execMsg (n + 1) w FM (.bankSend to cs) = .ok { w with bank := b } := by
      simp only [execMsg, hs]; rfl
    rw [execSubs] at h
    simp only [he, ReplyOn.onSuccess, Bool.false_eq_true, if_false] at h
    simp only [execSubs] at h
    cases h
    exact Or.inl ⟨b, rfl, rfl⟩

/-! ### `close_farm` -/

theorem closeFarms_single (s : FmState) (f : Farm) :
    closeFarms s [f] =
      ({ s with farms := s.farms.filter (·.id != f.id) },
        if f.assetAmount - f.claimed > 0 then
          [{ msg := .bankSend f.owner [⟨f.assetDenom, f.assetAmount - f.claimed⟩], replyOn := .error,
             id := C.CLOSE_FARMS_ERR_REPLY_CODE }]
        else []) := by
  rw [FH.closeFarms_eq]
  simp only [List.foldl_cons, List.foldl_nil, FH.closeStep]
  split <;> rfl

theorem closeFarm_inv {s s' : FmState} {sender : Addr} {funds : List Coin} {id : String} {r : Response}
    (h : closeFarm s sender funds id = .ok (s', r)) :
    funds = [] ∧ ∃ f, s.getFarm id = .ok f ∧ (f.owner = sender ∨ s.owner.owner = some sender) ∧
      s' = (closeFarms s [f]).1 ∧ r.msgs = (closeFarms s [f]).2 := by
  unfold closeFarm at h
  simp only [FH.error_bind, FH.ite_err_ok, bind_ok, pure_ok, Prod.mk.injEq] at h
  obtain ⟨_, hnp, f, hf, hauth, rfl, rfl⟩ := h
  refine ⟨FH.nonpayable_ok hnp, f, hf, ?_, rfl, rfl⟩
  simp only [Bool.not_eq_true, Bool.not_eq_false', Bool.or_eq_true, beq_iff_eq, Bool.not_not] at hauth
  simpa using hauth

/-- custody: the farm manager holds the unclaimed remainder of every farm -/
theorem farm_rem_le_bal {w : World} {f : Farm} (hinv : C05Sys.FmInv w) (hmem : f ∈ w.fm.farms) :
    f.assetAmount - f.claimed ≤ w.bank.bal FM f.assetDenom := by
  have h1 := hinv.custody f.assetDenom
  rw [C05.liability_eq, C05.farmSum_pull hinv.farmNodup hmem f.assetDenom] at h1
  simp only [beq_self_eq_true, if_true] at h1
  omega

/-- the transaction tree of an accepted `close_farm` -/
theorem close_farm_run {w w' : World} {u : Addr} {f : Farm} {k : Option Nat}
    (hf : w.fm.getFarm f.id = .ok f) (hinv : C05Sys.FmInv w)
    (h : runTx w (.exec u FM (.fm (.closeFarm f.id)) []) k = .ok w') :
    (u = f.owner ∨ w.fm.owner.owner = some u) ∧
    w'.fm = { w.fm with farms := w.fm.farms.filter (·.id != f.id) } ∧ w'.pm = w.pm ∧
    ((f.assetAmount - f.claimed = 0 ∧ w'.bank.bal = w.bank.bal) ∨
     (∃ b, Moves { w.bank with calls := 0, failAt := k } b FM f.owner
        [⟨f.assetDenom, f.assetAmount - f.claimed⟩] ∧ w'.bank = b) ∨
     (k ≠ none ∧ w'.bank.bal = w.bank.bal)) := by
  unfold runTx at h
  simp only at h
  have h64 : FUEL = 63 + 1 := rfl
  rw [h64, execMsg_fm_eq] at h
  obtain ⟨⟨s1, r⟩, hx, hsubs⟩ := bind_ok.mp h
  simp only [fmExecute] at hx
  obtain ⟨_, f', hf', hauth, rfl, hr⟩ := closeFarm_inv hx
  have hf'' : w.fm.getFarm f.id = .ok f' := hf'
  rw [hf] at hf''
  cases hf''
  simp only at hsubs
  rw [hr, closeFarms_single] at hsubs
  simp only at hsubs
  refine ⟨hauth.imp (fun e => e.symm) id, ?_⟩
  by_cases hrem : f.assetAmount - f.claimed > 0
  · rw [if_pos hrem] at hsubs
    rcases execSubs_refund (n := 61) hsubs with ⟨b, hb, rfl⟩ | ⟨⟨e, he⟩, rfl⟩
    · exact ⟨rfl, rfl, Or.inr (Or.inl ⟨b, (send_spec hb).2, rfl⟩)⟩
    · refine ⟨rfl, rfl, Or.inr (Or.inr ⟨?_, rfl⟩)⟩
      intro hk
      subst hk
      have hle := farm_rem_le_bal hinv (FH.getFarm_ok hf).1
      obtain ⟨b', hb'⟩ := send_ex (b := { w.bank with calls := 0, failAt := none }) (frm := FM) (to := f.owner)
        (cs := [⟨f.assetDenom, f.assetAmount - f.claimed⟩]) (r := [⟨f.assetDenom, f.assetAmount - f.claimed⟩])
        rfl (by
          have : f.assetAmount - f.claimed ≠ 0 := by omega
          simp [normalizeCoins, this]) (by
          intro d
          rw [coinsOf_single]
          simp only
          split
          · rename_i hd; subst hd; exact hle
          · exact Nat.zero_le _)
      have he' : ({ w.bank with calls := 0, failAt := none } : Bank).send FM f.owner
          [⟨f.assetDenom, f.assetAmount - f.claimed⟩] = .error e := he
      rw [hb'] at he'
      cases he'
  · rw [if_neg hrem] at hsubs
    simp only [execSubs] at hsubs
    cases hsubs
    exact ⟨rfl, rfl, Or.inl ⟨by omega, rfl⟩⟩

/-! ### `expand_farm` -/

theorem execSubs_nil {n : Nat} {w w' : World} {c : Addr} (h : execSubs n w c [] = .ok w') : w' = w := by
  cases n with
  | zero => simp [execSubs] at h
  | succ n => simp only [execSubs] at h; cases h; rfl

/-- the transaction tree of an accepted `expand_farm` -/
theorem expand_farm_run {w w' : World} {u : Addr} {p : FarmParams} {fid : String} {f : Farm} {funds : List Coin}
    {k : Option Nat} (hid : p.farmId = some fid) (hf : w.fm.getFarm fid = .ok f)
    (h : runTx w (.exec u FM (.fm (.expandFarm p)) funds) k = .ok w') :
    u = f.owner ∧ funds = [p.asset] ∧ p.asset.denom = f.assetDenom ∧
    (∃ f', w'.fm.getFarm fid = .ok f' ∧ f'.assetAmount = f.assetAmount + p.asset.amount ∧
      f'.endEpoch = f.endEpoch + p.asset.amount / f.emissionRate ∧ f'.claimed = f.claimed ∧ f'.owner = f.owner) ∧
    ∃ b, Moves { w.bank with calls := 0, failAt := k } b u FM [p.asset] ∧ w'.bank = b := by
  unfold runTx at h
  simp only at h
  have h64 : FUEL = 63 + 1 := rfl
  rw [h64] at h
  obtain ⟨b, s, r, hb, hx, hsubs⟩ := execMsg_fm_any h
  simp only [fmExecute] at hx
  have hx' : expandFarm w.fm w.fmEnv u funds p = .ok (s, r) := hx
  obtain ⟨cur, f', hfunds, hden, _, _, _, _, hg, e1, e2, e3, e4, _, _, hr⟩ := C11.expand_farm_exact hid hf hx'
  have hu : u = f.owner := by
    apply Classical.byContradiction
    intro hne
    exact C15.expand_farm_requires_farm_owner hid hf (fun e => hne e.symm) _ hx'
  rw [hr] at hsubs
  have hw' := execSubs_nil hsubs
  subst hw'
  subst hfunds
  rcases hb with ⟨hnil, _⟩ | ⟨_, hb⟩
  · cases hnil
  · exact ⟨hu, rfl, hden, ⟨f', hg, e1, e2, e3, e4⟩, b, (send_spec hb).2, rfl⟩

end MantraDex.FarmTx
