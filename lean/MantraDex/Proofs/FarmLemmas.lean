/-
  Lemmas about the farm manager's weight histories and reward loops (used by C06 / C07).
-/
import MantraDex.Model.System
import MantraDex.Spec.Ledger
import MantraDex.Proofs.NumLemmas

set_option linter.unusedSimpArgs false
set_option linter.unusedVariables false

namespace MantraDex.Farm
open MantraDex

/-- ascending, duplicate-free snapshot list -/
abbrev Asc (h : List (Nat × Nat)) : Prop := h.Pairwise (fun a b => a.1 < b.1)

/-! ### histGet / histSet -/

theorem histGet_nil (e : Nat) : histGet [] e = none := rfl

theorem histGet_cons (k v : Nat) (xs : List (Nat × Nat)) (e : Nat) :
    histGet ((k, v) :: xs) e = if k = e then some v else histGet xs e := by
  unfold histGet
  by_cases hk : k = e
  · simp [List.find?_cons, hk]
  · simp [List.find?_cons, hk]

theorem lookupW_eq_histGet (m : List (Nat × Nat)) (e : Nat) : lookupW m e = histGet m e := rfl

theorem histGet_none_of_forall_ne {h : List (Nat × Nat)} {e : Nat} (hne : ∀ x ∈ h, x.1 ≠ e) :
    histGet h e = none := by
  induction h with
  | nil => rfl
  | cons x xs ih =>
    obtain ⟨k, v⟩ := x
    rw [histGet_cons]
    have := hne (k, v) (List.mem_cons_self)
    simp only at this
    rw [if_neg this]
    exact ih fun y hy => hne y (List.mem_cons_of_mem _ hy)

theorem histGet_append (a b : List (Nat × Nat)) (e : Nat) :
    histGet (a ++ b) e = (histGet a e).or (histGet b e) := by
  induction a with
  | nil => simp [histGet_nil]
  | cons x xs ih =>
    obtain ⟨k, v⟩ := x
    rw [List.cons_append, histGet_cons, histGet_cons]
    by_cases hk : k = e
    · simp [hk]
    · simp [hk, ih]

theorem mem_histSet {h : List (Nat × Nat)} {e w : Nat} {x : Nat × Nat} (hx : x ∈ histSet h e w) :
    x = (e, w) ∨ x ∈ h := by
  induction h with
  | nil => simp [histSet] at hx; exact Or.inl hx
  | cons y ys ih =>
    obtain ⟨k, v⟩ := y
    unfold histSet at hx
    split at hx
    · simp only [List.mem_cons] at hx ⊢
      rcases hx with hx | hx | hx
      · exact Or.inl hx
      · exact Or.inr (Or.inl hx)
      · exact Or.inr (Or.inr hx)
    · split at hx
      · simp only [List.mem_cons] at hx ⊢
        rcases hx with hx | hx
        · exact Or.inl hx
        · exact Or.inr (Or.inr hx)
      · simp only [List.mem_cons] at hx ⊢
        rcases hx with hx | hx
        · exact Or.inr (Or.inl hx)
        · rcases ih hx with h1 | h1
          · exact Or.inl h1
          · exact Or.inr (Or.inr h1)

theorem histSet_asc {h : List (Nat × Nat)} (hs : Asc h) (e w : Nat) : Asc (histSet h e w) := by
  induction h with
  | nil => simp [histSet]
  | cons y ys ih =>
    obtain ⟨k, v⟩ := y
    have hs' := List.pairwise_cons.1 hs
    unfold histSet
    split
    next hlt =>
      refine List.pairwise_cons.2 ⟨?_, hs⟩
      intro x hx
      simp only [List.mem_cons] at hx
      rcases hx with rfl | hx
      · exact hlt
      · exact Nat.lt_trans hlt (hs'.1 x hx)
    next hnlt =>
      split
      next heq =>
        subst heq
        exact List.pairwise_cons.2 ⟨hs'.1, hs'.2⟩
      next hne =>
        refine List.pairwise_cons.2 ⟨?_, ih hs'.2⟩
        intro x hx
        rcases mem_histSet hx with rfl | hx
        · simp only; omega
        · exact hs'.1 x hx

theorem histGet_histSet (h : List (Nat × Nat)) (e w e' : Nat) :
    histGet (histSet h e w) e' = if e' = e then some w else histGet h e' := by
  induction h with
  | nil =>
    simp only [histSet, histGet_cons, histGet_nil]
    by_cases h1 : e = e'
    · simp [h1]
    · have : ¬ e' = e := fun h2 => h1 h2.symm
      simp [h1, this]
  | cons y ys ih =>
    obtain ⟨k, v⟩ := y
    unfold histSet
    split
    next hlt =>
      rw [histGet_cons]
      by_cases h1 : e = e'
      · simp [h1]
      · have : ¬ e' = e := fun h2 => h1 h2.symm
        simp [h1, this]
    next hnlt =>
      split
      next heq =>
        subst heq
        rw [histGet_cons, histGet_cons]
        by_cases h1 : e = e'
        · simp [h1]
        · have : ¬ e' = e := fun h2 => h1 h2.symm
          simp [h1, this]
      next hne =>
        rw [histGet_cons, histGet_cons, ih]
        by_cases h1 : k = e'
        · have : ¬ e' = e := by omega
          simp [h1, this]
        · simp [h1]

theorem histSet_of_forall_gt {h : List (Nat × Nat)} {e : Nat} (w : Nat) (hgt : ∀ x ∈ h, e < x.1) :
    histSet h e w = (e, w) :: h := by
  cases h with
  | nil => rfl
  | cons y ys =>
    obtain ⟨k, v⟩ := y
    have := hgt (k, v) List.mem_cons_self
    simp only at this
    unfold histSet
    rw [if_pos this]

/-! ### weight in effect, with an explicit default -/

/-- value of the last snapshot at or before `e`, `d` if none -/
def wAtD (d : Nat) (h : List (Nat × Nat)) (e : Nat) : Nat :=
  ((h.filter (·.1 ≤ e)).getLast?.map (·.2)).getD d

/-- value of the last snapshot strictly before `e`, `d` if none -/
def wBeforeD (d : Nat) (h : List (Nat × Nat)) (e : Nat) : Nat :=
  ((h.filter (·.1 < e)).getLast?.map (·.2)).getD d

theorem weightAt_eq (h : List (Nat × Nat)) (e : Nat) : Spec.weightAt h e = wAtD 0 h e := rfl

private theorem lastD_cons (d : Nat) (x : Nat × Nat) (l : List (Nat × Nat)) :
    (((x :: l).getLast?).map (·.2)).getD d = ((l.getLast?).map (·.2)).getD x.2 := by
  rw [List.getLast?_cons]
  cases l.getLast? <;> simp

theorem wAtD_nil (d e : Nat) : wAtD d [] e = d := rfl
theorem wBeforeD_nil (d e : Nat) : wBeforeD d [] e = d := rfl

theorem wAtD_cons (d k v : Nat) (xs : List (Nat × Nat)) (e : Nat) :
    wAtD d ((k, v) :: xs) e = if k ≤ e then wAtD v xs e else wAtD d xs e := by
  unfold wAtD
  by_cases hk : k ≤ e
  · rw [if_pos hk, List.filter_cons_of_pos (by simpa using hk), lastD_cons]
  · rw [if_neg hk, List.filter_cons_of_neg (by simpa using hk)]

theorem wBeforeD_cons (d k v : Nat) (xs : List (Nat × Nat)) (e : Nat) :
    wBeforeD d ((k, v) :: xs) e = if k < e then wBeforeD v xs e else wBeforeD d xs e := by
  unfold wBeforeD
  by_cases hk : k < e
  · rw [if_pos hk, List.filter_cons_of_pos (by simpa using hk), lastD_cons]
  · rw [if_neg hk, List.filter_cons_of_neg (by simpa using hk)]

theorem wAtD_of_forall_gt {h : List (Nat × Nat)} {e : Nat} (d : Nat) (hgt : ∀ x ∈ h, e < x.1) :
    wAtD d h e = d := by
  unfold wAtD
  have : h.filter (·.1 ≤ e) = [] := by
    rw [List.filter_eq_nil_iff]
    intro x hx
    have := hgt x hx
    simp only [decide_eq_true_eq]; omega
  rw [this]; rfl

theorem wBeforeD_of_forall_ge {h : List (Nat × Nat)} {e : Nat} (d : Nat) (hge : ∀ x ∈ h, e ≤ x.1) :
    wBeforeD d h e = d := by
  unfold wBeforeD
  have : h.filter (·.1 < e) = [] := by
    rw [List.filter_eq_nil_iff]
    intro x hx
    have := hge x hx
    simp only [decide_eq_true_eq]; omega
  rw [this]; rfl

theorem wBeforeD_succ (d : Nat) (h : List (Nat × Nat)) (e : Nat) :
    wBeforeD d h (e + 1) = wAtD d h e := by
  unfold wBeforeD wAtD
  have : h.filter (·.1 < e + 1) = h.filter (·.1 ≤ e) := by
    apply List.filter_congr
    intro x _
    simp only [decide_eq_decide]; omega
  rw [this]

/-- the weight in effect at `e` is the snapshot at `e` if there is one, else the weight before -/
theorem wAtD_eq_getD {h : List (Nat × Nat)} (hs : Asc h) (d e : Nat) :
    wAtD d h e = (histGet h e).getD (wBeforeD d h e) := by
  induction h generalizing d with
  | nil => rfl
  | cons y ys ih =>
    obtain ⟨k, v⟩ := y
    have hs' := List.pairwise_cons.1 hs
    rw [wAtD_cons, wBeforeD_cons, histGet_cons]
    rcases Nat.lt_trichotomy k e with hlt | heq | hgt
    · rw [if_pos (Nat.le_of_lt hlt), if_pos hlt, if_neg (by omega)]
      exact ih hs'.2 v
    · subst heq
      rw [if_pos (Nat.le_refl _), if_pos rfl]
      simp only [Option.getD_some]
      exact wAtD_of_forall_gt v (fun x hx => hs'.1 x hx)
    · rw [if_neg (by omega), if_neg (by omega), if_neg (by omega)]
      have hall : ∀ x ∈ ys, e < x.1 := fun x hx => Nat.lt_trans hgt (hs'.1 x hx)
      rw [wAtD_of_forall_gt d hall, histGet_none_of_forall_ne (fun x hx => by have := hall x hx; omega),
        wBeforeD_of_forall_ge d (fun x hx => Nat.le_of_lt (hall x hx))]
      rfl

theorem wAtD_succ {h : List (Nat × Nat)} (hs : Asc h) (d e : Nat) :
    wAtD d h (e + 1) = (histGet h (e + 1)).getD (wAtD d h e) := by
  rw [wAtD_eq_getD hs, wBeforeD_succ]

/-- before a written epoch nothing changes -/
theorem wAtD_histSet_before (d : Nat) (h : List (Nat × Nat)) (e w e' : Nat) (hlt : e' < e) :
    wAtD d (histSet h e w) e' = wAtD d h e' := by
  induction h generalizing d with
  | nil =>
    simp only [histSet]
    rw [wAtD_cons, if_neg (by omega)]
  | cons y ys ih =>
    obtain ⟨k, v⟩ := y
    unfold histSet
    split
    next h1 => rw [wAtD_cons (k := e), if_neg (by omega)]
    next h1 =>
      split
      next h2 =>
        subst h2
        rw [wAtD_cons, wAtD_cons, if_neg (by omega), if_neg (by omega)]
      next h2 =>
        rw [wAtD_cons, wAtD_cons, ih, ih]

/-- compaction: dropping the snapshots at or before `epoch` and starting from the weight in effect
    there gives the same weights from `epoch` on -/
theorem wAtD_filter_gt {h : List (Nat × Nat)} (hs : Asc h) (d epoch e : Nat) (hle : epoch ≤ e) :
    wAtD (wAtD d h epoch) (h.filter (·.1 > epoch)) e = wAtD d h e := by
  induction h generalizing d with
  | nil => rfl
  | cons y ys ih =>
    obtain ⟨k, v⟩ := y
    have hs' := List.pairwise_cons.1 hs
    by_cases hk : k ≤ epoch
    · rw [List.filter_cons_of_neg (by simp; omega), wAtD_cons d, if_pos hk, wAtD_cons d,
        if_pos (by omega)]
      exact ih hs'.2 v
    · have hall : ∀ x ∈ (k, v) :: ys, epoch < x.1 := by
        intro x hx
        simp only [List.mem_cons] at hx
        rcases hx with rfl | hx
        · simp only; omega
        · have := hs'.1 x hx; omega
      rw [wAtD_of_forall_gt d hall]
      have : ((k, v) :: ys).filter (·.1 > epoch) = (k, v) :: ys := by
        rw [List.filter_eq_self]
        intro x hx
        simpa using hall x hx
      rw [this]

/-! ### the two scans -/

/-- one step of either scan: carry the snapshot at `b + i` (or the previous value) forward and
    record it when `c` holds -/
def scanStep (h : List (Nat × Nat)) (b : Nat) (c : Nat → Bool) (st : Nat × List (Nat × Nat)) (i : Nat) :
    Nat × List (Nat × Nat) :=
  let e := b + i
  let last := (histGet h e).getD st.1
  (last, if c e then st.2 ++ [(e, last)] else st.2)

theorem scan_inv {h : List (Nat × Nat)} (hs : Asc h) (d b : Nat) (c : Nat → Bool)
    (init : List (Nat × Nat)) (m : Nat) :
    ∃ ext, (List.range m).foldl (scanStep h b c) (wBeforeD d h b, init) =
        (wBeforeD d h (b + m), init ++ ext) ∧
      (∀ x ∈ ext, b ≤ x.1 ∧ x.1 < b + m) ∧
      (∀ e, b ≤ e → e < b + m → c e = true → histGet ext e = some (wAtD d h e)) := by
  induction m with
  | zero => exact ⟨[], by simp, by simp, by intro e h1 h2; omega⟩
  | succ m ih =>
    obtain ⟨ext, hf, hk, hl⟩ := ih
    rw [List.range_succ, List.foldl_append, hf]
    simp only [List.foldl_cons, List.foldl_nil, scanStep]
    have hlast : (histGet h (b + m)).getD (wBeforeD d h (b + m)) = wAtD d h (b + m) :=
      (wAtD_eq_getD hs d (b + m)).symm
    rw [hlast, ← Nat.add_assoc, wBeforeD_succ]
    by_cases hc : c (b + m) = true
    · refine ⟨ext ++ [(b + m, wAtD d h (b + m))], by simp [hc], ?_, ?_⟩
      · intro x hx
        rcases List.mem_append.1 hx with hx | hx
        · have := hk x hx; omega
        · simp only [List.mem_singleton] at hx; subst hx; simp only; omega
      · intro e h1 h2 h3
        rw [histGet_append]
        by_cases he : e < b + m
        · rw [hl e h1 he h3]; rfl
        · have he' : e = b + m := by omega
          subst he'
          rw [histGet_none_of_forall_ne (fun x hx => by have := hk x hx; omega), histGet_cons]
          simp
    · refine ⟨ext, by simp [hc], ?_, ?_⟩
      · intro x hx; have := hk x hx; omega
      · intro e h1 h2 h3
        by_cases he : e < b + m
        · exact hl e h1 he h3
        · have he' : e = b + m := by omega
          subst he'
          exact absurd h3 hc

theorem address_scan {h : List (Nat × Nat)} {startFrom until_ : Nat}
    {ws : List (Nat × Nat)} (hs : Asc h)
    (hno : ∀ x ∈ h, startFrom - 1 ≤ x.1)
    (hw : computeAddressWeights h startFrom until_ = .ok ws) :
    ∀ e, startFrom - 1 ≤ e → e ≤ until_ → lookupW ws e = some (Spec.weightAt h e) := by
  unfold computeAddressWeights at hw
  by_cases h0 : startFrom = 0
  · simp [h0] at hw
    cases hw
  · rw [if_neg h0] at hw
    obtain ⟨ext, hf, hk, hl⟩ := scan_inv hs 0 (startFrom - 1) (fun _ => true) []
      (until_ + 1 - (startFrom - 1))
    rw [wBeforeD_of_forall_ge 0 hno] at hf
    simp only [] at hw
    generalize hr : List.foldl _ (0, []) (List.range _) = r at hw
    have hr' : List.foldl (scanStep h (startFrom - 1) (fun _ => true)) (0, [])
        (List.range (until_ + 1 - (startFrom - 1))) = r := by
      rw [← hr]; congr 1; funext st i
      simp only [scanStep]
      cases histGet h (startFrom - 1 + i) <;> simp
    rw [hf] at hr'
    subst hr'
    simp only [pure_ok, List.nil_append] at hw
    subst hw
    intro e h1 h2
    exact hl e h1 (by omega) rfl



theorem histGet_head {h : List (Nat × Nat)} {e0 w : Nat} (hE : histEarliest h = some (e0, w)) :
    ∃ xs, h = (e0, w) :: xs := by
  cases h with
  | nil => simp [histEarliest] at hE
  | cons y ys => simp [histEarliest] at hE; exact ⟨ys, by rw [hE]⟩

theorem contract_scan {h : List (Nat × Nat)} {startFrom until_ : Nat}
    {ws : List (Nat × Nat)} (hs : Asc h)
    (hw : computeContractWeights h startFrom until_ = .ok ws) :
    ∀ e, startFrom ≤ e → e ≤ until_ → (lookupW ws e).getD 0 = Spec.weightAt h e := by
  unfold computeContractWeights at hw
  cases hg : histGet h startFrom with
  | some w =>
    simp only [hg, pure_bind] at hw
    obtain ⟨ext, hf, hk, hl⟩ := scan_inv hs 0 (startFrom + 1) (fun e => decide (e ≥ startFrom))
      [(startFrom, w)] (until_ - startFrom)
    have hw0 : wAtD 0 h startFrom = w := by rw [wAtD_eq_getD hs, hg]; rfl
    rw [wBeforeD_succ, hw0] at hf
    generalize hr : List.foldl _ (_, _) (List.range _) = r at hw
    have hr' : List.foldl (scanStep h (startFrom + 1) (fun e => decide (e ≥ startFrom)))
        (w, [(startFrom, w)]) (List.range (until_ - startFrom)) = r := by
      rw [← hr]; congr 1; funext st i
      simp only [scanStep]
      cases histGet h (startFrom + 1 + i) <;> simp
    rw [hf] at hr'
    subst hr'
    simp only [pure_ok] at hw
    subst hw
    intro e h1 h2
    rw [lookupW_eq_histGet, histGet_append, histGet_cons, histGet_nil, weightAt_eq]
    by_cases he : startFrom = e
    · subst he; simp [hw0]
    · rw [if_neg he, Option.none_or, hl e (by omega) (by omega) (by simp; omega)]; rfl
  | none =>
    simp only [hg] at hw
    cases hE : histEarliest h with
    | none => simp [hE] at hw; cases hw
    | some p =>
      obtain ⟨e0, w⟩ := p
      simp only [hE, pure_bind] at hw
      obtain ⟨xs, rfl⟩ := histGet_head hE
      have hs' := List.pairwise_cons.1 hs
      obtain ⟨ext, hf, hk, hl⟩ := scan_inv hs 0 (e0 + 1) (fun e => decide (e ≥ startFrom))
        (if e0 ≥ startFrom then [(e0, w)] else []) (until_ - e0)
      have hw0 : wAtD 0 ((e0, w) :: xs) e0 = w := by
        rw [wAtD_eq_getD hs, histGet_cons, if_pos rfl]; rfl
      rw [wBeforeD_succ, hw0] at hf
      generalize hr : List.foldl _ (_, _) (List.range _) = r at hw
      have hr' : List.foldl (scanStep ((e0, w) :: xs) (e0 + 1) (fun e => decide (e ≥ startFrom)))
          (w, if e0 ≥ startFrom then [(e0, w)] else []) (List.range (until_ - e0)) = r := by
        rw [← hr]; congr 1; funext st i
        simp only [scanStep]
        cases histGet ((e0, w) :: xs) (e0 + 1 + i) <;> simp
      rw [hf] at hr'
      subst hr'
      simp only [pure_ok] at hw
      subst hw
      intro e h1 h2
      rw [lookupW_eq_histGet, histGet_append, weightAt_eq]
      rcases Nat.lt_trichotomy e e0 with hlt | heq | hgt
      · have h3 : histGet (if e0 ≥ startFrom then [(e0, w)] else []) e = none := by
          split
          · rw [histGet_cons, if_neg (by omega)]; rfl
          · rfl
        have h4 : histGet ext e = none :=
          histGet_none_of_forall_ne (fun x hx => by have := hk x hx; omega)
        rw [h3, h4]
        have : ∀ x ∈ (e0, w) :: xs, e < x.1 := by
          intro x hx
          simp only [List.mem_cons] at hx
          rcases hx with rfl | hx
          · exact hlt
          · have := hs'.1 x hx; omega
        rw [wAtD_of_forall_gt 0 this]; rfl
      · subst heq
        rw [if_pos h1, histGet_cons, if_pos rfl, hw0]; rfl
      · have h3 : histGet (if e0 ≥ startFrom then [(e0, w)] else []) e = none := by
          split
          · rw [histGet_cons, if_neg (by omega)]; rfl
          · rfl
        rw [h3, Option.none_or, hl e (by omega) (by omega) (by simp; omega)]; rfl
/-! ### compaction -/

theorem sync_spec {s s' : FmState} {a : Addr} {lp : Denom} {epoch : Nat}
    (hs : Asc (s.hist a lp)) (h : syncHistory s a lp epoch true = .ok s') :
    Asc (s'.hist a lp) ∧ (∀ e, epoch ≤ e → Spec.weightAt (s'.hist a lp) e = Spec.weightAt (s.hist a lp) e) ∧
    (∀ x ∈ s'.hist a lp, epoch ≤ x.1 ∨ (s.hist a lp).all (fun y => epoch < y.1) = true) ∧
    (∀ a' d', (a', d') ≠ (a, lp) → s'.hist a' d' = s.hist a' d') ∧
    s'.farms = s.farms ∧ s'.lastClaimed = s.lastClaimed ∧ s'.positions = s.positions ∧
    s'.config = s.config := by
  unfold syncHistory at h
  by_cases hem : (s.hist a lp).isEmpty = true
  · simp [hem] at h; cases h
  · simp only [hem, Bool.false_eq_true, if_false, Bool.not_true] at h
    cases hl : (List.filter (fun x => decide (x.fst ≤ epoch)) (s.hist a lp)).getLast? with
    | none =>
      rw [hl] at h
      simp only [pure_ok] at h
      subst h
      refine ⟨hs, fun _ _ => rfl, ?_, fun _ _ _ => rfl, rfl, rfl, rfl, rfl⟩
      intro x hx
      right
      rw [List.getLast?_eq_none_iff, List.filter_eq_nil_iff] at hl
      rw [List.all_eq_true]
      intro y hy
      have := hl y hy
      simp only [decide_eq_true_eq] at this ⊢
      omega
    | some p =>
      obtain ⟨k, w⟩ := p
      rw [hl] at h
      simp only [pure_ok] at h
      subst h
      have hw : wAtD 0 (s.hist a lp) epoch = w := by
        unfold wAtD; rw [hl]; rfl
      have hgt : ∀ x ∈ List.filter (fun x => decide (x.fst > epoch)) (s.hist a lp), epoch < x.1 := by
        intro x hx
        have := (List.mem_filter.1 hx).2
        simpa using this
      have hh : (s.setHist a lp (histSet (List.filter (fun x => decide (x.fst > epoch)) (s.hist a lp)) epoch w)).hist a lp
          = (epoch, w) :: List.filter (fun x => decide (x.fst > epoch)) (s.hist a lp) := by
        simp only [FmState.setHist, and_self, if_true]
        exact histSet_of_forall_gt w hgt
      rw [hh]
      refine ⟨?_, ?_, ?_, ?_, rfl, rfl, rfl, rfl⟩
      · exact List.pairwise_cons.2 ⟨hgt, hs.filter _⟩
      · intro e he
        rw [weightAt_eq, weightAt_eq, wAtD_cons, if_pos he, ← hw]
        exact wAtD_filter_gt hs 0 epoch e he
      · intro x hx
        left
        simp only [List.mem_cons] at hx
        rcases hx with rfl | hx
        · exact Nat.le_refl _
        · exact Nat.le_of_lt (hgt x hx)
      · intro a' d' hne
        simp only [FmState.setHist]
        rw [if_neg]
        rintro ⟨rfl, rfl⟩
        exact hne rfl
/-! ### reward terms of one farm -/

/-- the term `farm_reward_terms` emits for loop index `i` (epoch `startFrom + i`), if any -/
def termOf (f : Farm) (uw cw : List (Nat × Nat)) (startFrom i : Nat) : Option (Nat × Nat) :=
  let e := startFrom + i
  if f.startEpoch > e then none else
  match lookupW uw e with
  | none => none
  | some u =>
    let total := (lookupW cw e).getD 0
    if total = 0 then none else some (e, f.emissionRate * u / total)

/-- one iteration of the loop in `farmRewardTerms` -/
def termStep (f : Farm) (userW contractW : List (Nat × Nat)) (startFrom : Nat)
    (acc : List (Nat × Nat)) (i : Nat) : R (List (Nat × Nat)) := do
    let e := startFrom + i
    if f.startEpoch > e then pure acc else
    let uw ← match lookupW userW e with | some w => pure w | none => .error .panic
    let total := (lookupW contractW e).getD 0
    if total = 0 then pure acc else
    let reward ← mulFloorFrac U128_MAX f.emissionRate uw total
    let chk ← ckAdd U128_MAX reward f.claimed
    if chk > f.assetAmount then .error .exhausted
    pure (acc ++ [(e, reward)])

theorem termStep_ok {f : Farm} {uw cw : List (Nat × Nat)} {startFrom i : Nat} {acc acc' : List (Nat × Nat)}
    (h : termStep f uw cw startFrom acc i = .ok acc') :
    acc' = acc ++ (termOf f uw cw startFrom i).toList ∧
    ∀ t, termOf f uw cw startFrom i = some t → t.2 + f.claimed ≤ f.assetAmount := by
  unfold termStep at h
  unfold termOf
  simp only [] at h ⊢
  by_cases h1 : f.startEpoch > startFrom + i
  · simp only [h1, if_true, pure_ok] at h ⊢
    subst h; simp
  · simp only [h1, if_false] at h ⊢
    cases hu : lookupW uw (startFrom + i) with
    | none => rw [hu] at h; simp [bind, Except.bind] at h
    | some u =>
      rw [hu] at h
      simp only [pure_bind] at h ⊢
      by_cases h2 : (lookupW cw (startFrom + i)).getD 0 = 0
      · simp only [h2, if_true, pure_ok] at h ⊢
        subst h; simp
      · simp only [h2, if_false, bind_ok, mulFloorFrac_ok, ckAdd_ok] at h ⊢
        obtain ⟨r, ⟨_, _, rfl⟩, c, ⟨_, rfl⟩, h⟩ := h
        split at h
        · simp [bind, Except.bind] at h
        · simp only [pure_ok] at h
          subst h
          refine ⟨by simp, ?_⟩
          intro t ht
          simp only [Option.some.injEq] at ht
          subst ht
          simp only
          omega

theorem terms_fold {f : Farm} {uw cw : List (Nat × Nat)} {startFrom : Nat} (is : List Nat)
    {acc acc' : List (Nat × Nat)}
    (h : is.foldlM (termStep f uw cw startFrom) acc = .ok acc') :
    acc' = acc ++ is.filterMap (termOf f uw cw startFrom) ∧
    ∀ i ∈ is, ∀ t, termOf f uw cw startFrom i = some t → t.2 + f.claimed ≤ f.assetAmount := by
  induction is generalizing acc with
  | nil => simp [pure, Except.pure] at h; subst h; simp
  | cons i is ih =>
    rw [List.foldlM_cons, bind_ok] at h
    obtain ⟨a1, h1, h2⟩ := h
    obtain ⟨e1, b1⟩ := termStep_ok h1
    obtain ⟨e2, b2⟩ := ih h2
    subst e1
    refine ⟨?_, ?_⟩
    · rw [e2, List.filterMap_cons]
      cases termOf f uw cw startFrom i <;> simp
    · intro j hj
      simp only [List.mem_cons] at hj
      rcases hj with rfl | hj
      · exact b1
      · exact b2 j hj

/-- `farmRewardTerms` in closed form -/
theorem farmRewardTerms_ok {f : Farm} {uw cw : List (Nat × Nat)} {startFrom until_ : Nat}
    {terms : List (Nat × Nat)} (h : farmRewardTerms f uw cw startFrom until_ = .ok terms) :
    ∃ untilF, untilF ≤ until_ ∧ untilF < f.endEpoch ∧ (f.endEpoch ≤ until_ → untilF + 1 = f.endEpoch) ∧
      (until_ < f.endEpoch → untilF = until_) ∧
      terms = (List.range (untilF + 1 - startFrom)).filterMap (termOf f uw cw startFrom) ∧
      ∀ i t, i < untilF + 1 - startFrom → termOf f uw cw startFrom i = some t → t.2 + f.claimed ≤ f.assetAmount := by
  unfold farmRewardTerms at h
  by_cases h1 : f.endEpoch ≤ until_
  · by_cases h2 : f.endEpoch = 0
    · simp [h1, h2, bind, Except.bind] at h
    · simp only [h1, h2, if_true, if_false, pure_bind] at h
      obtain ⟨e, b⟩ := terms_fold (f := f) (uw := uw) (cw := cw) (startFrom := startFrom) _ h
      refine ⟨f.endEpoch - 1, by omega, by omega, by omega, by omega, by simpa using e, ?_⟩
      intro i t hi
      exact b i (List.mem_range.2 hi) t
  · simp only [h1, if_false, pure_bind] at h
    obtain ⟨e, b⟩ := terms_fold (f := f) (uw := uw) (cw := cw) (startFrom := startFrom) _ h
    refine ⟨until_, by omega, by omega, by omega, by omega, by simpa using e, ?_⟩
    intro i t hi
    exact b i (List.mem_range.2 hi) t

theorem termOf_some {f : Farm} {uw cw : List (Nat × Nat)} {startFrom i : Nat} {t : Nat × Nat}
    (h : termOf f uw cw startFrom i = some t) :
    t.1 = startFrom + i ∧ f.startEpoch ≤ t.1 ∧
      ∃ u tot, lookupW uw t.1 = some u ∧ lookupW cw t.1 = some tot ∧ tot ≠ 0 ∧
        t.2 = f.emissionRate * u / tot := by
  unfold termOf at h
  simp only [] at h
  split at h
  · cases h
  · split at h
    · cases h
    · next u hu =>
      split at h
      · cases h
      · next htot =>
        simp only [Option.some.injEq] at h
        subst h
        refine ⟨rfl, by simp only; omega, u, (lookupW cw (startFrom + i)).getD 0, hu, ?_, htot, rfl⟩
        simp only
        cases hc : lookupW cw (startFrom + i) with
        | none => rw [hc] at htot; simp at htot
        | some x => rfl

theorem farm_terms_shape {f : Farm} {uw cw : List (Nat × Nat)} {startFrom until_ : Nat}
    {terms : List (Nat × Nat)} (h : farmRewardTerms f uw cw startFrom until_ = .ok terms) :
    ∀ t ∈ terms, startFrom ≤ t.1 ∧ t.1 ≤ until_ ∧ f.startEpoch ≤ t.1 ∧ t.1 < f.endEpoch ∧
      ∃ u tot, lookupW uw t.1 = some u ∧ lookupW cw t.1 = some tot ∧ tot ≠ 0 ∧
        t.2 = f.emissionRate * u / tot ∧ t.2 + f.claimed ≤ f.assetAmount := by
  obtain ⟨untilF, h1, h2, _, _, rfl, hb⟩ := farmRewardTerms_ok h
  intro t ht
  obtain ⟨i, hi, hti⟩ := List.mem_filterMap.1 ht
  have hi' := List.mem_range.1 hi
  obtain ⟨e1, e2, u, tot, e3, e4, e5, e6⟩ := termOf_some hti
  exact ⟨by omega, by omega, e2, by omega, u, tot, e3, e4, e5, e6, hb i t hi' hti⟩

theorem farm_terms_epochs_nodup {f : Farm} {uw cw : List (Nat × Nat)} {startFrom until_ : Nat}
    {terms : List (Nat × Nat)} (h : farmRewardTerms f uw cw startFrom until_ = .ok terms) :
    (terms.map (·.1)).Nodup := by
  obtain ⟨untilF, _, _, _, _, rfl, _⟩ := farmRewardTerms_ok h
  have hp : List.Pairwise (fun a b : Nat × Nat => a.1 < b.1)
      ((List.range (untilF + 1 - startFrom)).filterMap (termOf f uw cw startFrom)) := by
    refine List.Pairwise.filterMap _ ?_ List.pairwise_lt_range
    intro i j hij t ht t' ht'
    have := (termOf_some (Option.mem_def.1 ht)).1
    have := (termOf_some (Option.mem_def.1 ht')).1
    omega
  rw [List.Nodup, List.pairwise_map]
  exact hp.imp (fun h => Nat.ne_of_lt h)

/-! ### sums -/

theorem foldl_add_eq_sum (l : List Nat) (a : Nat) : l.foldl (· + ·) a = a + l.sum := by
  induction l generalizing a with
  | nil => simp
  | cons x xs ih => simp only [List.foldl_cons, List.sum_cons, ih]; omega

theorem sum_range_trunc (g : Nat → Nat) {n N : Nat} (hn : n ≤ N)
    (hz : ∀ i, n ≤ i → i < N → g i = 0) :
    ((List.range N).map g).sum = ((List.range n).map g).sum := by
  induction N with
  | zero => have : n = 0 := by omega
            subst this; rfl
  | succ N ih =>
    by_cases h : n = N + 1
    · subst h; rfl
    · rw [List.range_succ, List.map_append, List.sum_append, ih (by omega) (fun i h1 h2 => hz i h1 (by omega))]
      simp [hz N (by omega) (by omega)]

theorem sum_filterMap_snd (g : Nat → Option (Nat × Nat)) (l : List Nat) :
    ((l.filterMap g).map (·.2)).sum = (l.map fun i => ((g i).map (·.2)).getD 0).sum := by
  induction l with
  | nil => rfl
  | cons x xs ih =>
    rw [List.filterMap_cons]
    cases hg : g x with
    | none => simp [hg, ih]
    | some t => simp [hg, ih]

theorem farm_terms_sum {f : Farm} {uw cw uh th : List (Nat × Nat)} {startFrom until_ : Nat}
    {terms : List (Nat × Nat)}
    (hu : ∀ e, startFrom ≤ e → e ≤ until_ → lookupW uw e = some (Spec.weightAt uh e))
    (hc : ∀ e, startFrom ≤ e → e ≤ until_ → (lookupW cw e).getD 0 = Spec.weightAt th e)
    (h : farmRewardTerms f uw cw startFrom until_ = .ok terms) :
    (terms.map (·.2)).foldl (· + ·) 0 =
      Spec.spanReward ⟨f.emissionRate, f.startEpoch, f.endEpoch⟩ uh th startFrom until_ := by
  obtain ⟨untilF, h1, h2, h3, h4, rfl, _⟩ := farmRewardTerms_ok h
  unfold Spec.spanReward
  rw [foldl_add_eq_sum, foldl_add_eq_sum, sum_filterMap_snd]
  rw [sum_range_trunc _ (n := untilF + 1 - startFrom) (N := until_ + 1 - startFrom) (by omega)]
  · congr 1
    refine congrArg List.sum (List.map_congr_left ?_)
    intro i hi
    have hi' := List.mem_range.1 hi
    unfold termOf Spec.epochShare
    simp only []
    by_cases hs : f.startEpoch > startFrom + i
    · rw [if_pos hs, if_neg (by omega)]; rfl
    · rw [if_neg hs, if_pos ⟨by omega, by omega⟩, hu _ (by omega) (by omega), hc _ (by omega) (by omega)]
      simp only []
      by_cases ht : Spec.weightAt th (startFrom + i) = 0
      · rw [if_pos ht, if_pos ht]; rfl
      · rw [if_neg ht, if_neg ht]; rfl
  · intro i hi1 hi2
    unfold Spec.epochShare
    rw [if_neg]
    simp only []
    have : f.endEpoch ≤ until_ := by
      by_cases hh : f.endEpoch ≤ until_
      · exact hh
      · have := h4 (by omega); omega
    have := h3 this
    omega

/-! ### claim: state bookkeeping -/

/-- what a claim's state updates preserve -/
structure Pres (s s' : FmState) : Prop where
  lastClaimed : s'.lastClaimed = s.lastClaimed
  ids : s'.farms.map (·.id) = s.farms.map (·.id)
  bounded : (∀ f ∈ s.farms, f.claimed ≤ f.assetAmount) → ∀ f ∈ s'.farms, f.claimed ≤ f.assetAmount

theorem Pres.refl (s : FmState) : Pres s s := ⟨rfl, rfl, fun h => h⟩
theorem Pres.trans {a b c : FmState} (h1 : Pres a b) (h2 : Pres b c) : Pres a c :=
  ⟨h2.lastClaimed.trans h1.lastClaimed, h2.ids.trans h1.ids, fun h => h2.bounded (h1.bounded h)⟩

/-- one `modified` entry of a claim: bump the farm's `claimed_amount` -/
def modStep (s1 : FmState) (m : String × Nat) : R FmState := do
  let f ← s1.getFarm m.1
  let c ← ckAdd U128_MAX f.claimed m.2
  if c > f.assetAmount then .error .exhausted
  pure (s1.saveFarm { f with claimed := c })

theorem modStep_pres {s1 s2 : FmState} {m : String × Nat} (h : modStep s1 m = .ok s2) : Pres s1 s2 := by
  unfold modStep at h
  simp only [bind_ok, ckAdd_ok] at h
  obtain ⟨f, hf, c, ⟨_, rfl⟩, h⟩ := h
  split at h
  · simp [bind, Except.bind] at h
  next hle =>
    simp only [pure_ok] at h
    unfold FmState.getFarm at hf
    split at hf
    next f' hfind =>
      cases hf
      have hmem := List.mem_of_find?_eq_some hfind
      have hany : s1.farms.any (fun q => q.id == f.id) = true := by
        rw [List.any_eq_true]; exact ⟨f, hmem, by simp⟩
      unfold FmState.saveFarm at h
      simp only [hany, if_true] at h
      subst h
      refine ⟨rfl, ?_, ?_⟩
      · simp only [List.map_map]
        apply List.map_congr_left
        intro q _
        simp only [Function.comp]
        by_cases hq : (q.id == f.id) = true
        · simp only [hq, if_true]; exact (beq_iff_eq.1 hq).symm
        · simp only [hq, Bool.false_eq_true, if_false]
      · intro hb g hg
        simp only [List.mem_map] at hg
        obtain ⟨q, hq, rfl⟩ := hg
        split
        · simp only; omega
        · exact hb q hq
    next => cases hf

theorem foldlM_pres {α : Type} {step : FmState → α → R FmState}
    (hstep : ∀ s a s', step s a = .ok s' → Pres s s') (l : List α) {s s' : FmState}
    (h : l.foldlM step s = .ok s') : Pres s s' := by
  induction l generalizing s with
  | nil => simp [pure, Except.pure] at h; subst h; exact Pres.refl _
  | cons a l ih =>
    rw [List.foldlM_cons, bind_ok] at h
    obtain ⟨s1, h1, h2⟩ := h
    exact (hstep _ _ _ h1).trans (ih h2)

theorem sync_frame {s s' : FmState} {a : Addr} {lp : Denom} {epoch : Nat} {save : Bool}
    (h : syncHistory s a lp epoch save = .ok s') :
    s'.farms = s.farms ∧ s'.lastClaimed = s.lastClaimed := by
  unfold syncHistory at h
  by_cases hem : (s.hist a lp).isEmpty = true
  · simp [hem] at h; cases h
  · simp only [hem, Bool.false_eq_true, if_false] at h
    split at h
    · simp only [pure_ok] at h; subst h; exact ⟨rfl, rfl⟩
    · split at h
      · simp only [pure_ok] at h; subst h; exact ⟨rfl, rfl⟩
      · simp only [pure_ok] at h; subst h; exact ⟨rfl, rfl⟩

/-- one LP token of a claim -/
def claimStep (env : FmEnv) (sender : Addr) (untilE : Nat) (st : FmState × List Coin) (lp : Denom) :
    R (FmState × List Coin) := do
  let rc ← calculateRewards st.1 env lp sender untilE
  let s1 ← rc.modified.foldlM (fun (s1 : FmState) (m : String × Nat) => do
    let f ← s1.getFarm m.1
    let c ← ckAdd U128_MAX f.claimed m.2
    if c > f.assetAmount then .error .exhausted
    pure (s1.saveFarm { f with claimed := c })) st.1
  let s2 ← syncHistory s1 sender lp untilE true
  pure (s2, st.2 ++ rc.rewards)

theorem claimStep_ok {env : FmEnv} {sender : Addr} {untilE : Nat} {st st' : FmState × List Coin}
    {lp : Denom} (h : claimStep env sender untilE st lp = .ok st') :
    ∃ rc, calculateRewards st.1 env lp sender untilE = .ok rc ∧ st'.2 = st.2 ++ rc.rewards ∧
      Pres st.1 st'.1 := by
  unfold claimStep at h
  simp only [bind_ok, pure_ok] at h
  obtain ⟨rc, hrc, s1, hs1, s2, hs2, rfl⟩ := h
  refine ⟨rc, hrc, rfl, ?_⟩
  have p1 : Pres st.1 s1 := foldlM_pres (step := modStep) (fun _ _ _ => modStep_pres) _ hs1
  obtain ⟨hf, hl⟩ := sync_frame hs2
  have p2 : Pres s1 s2 := ⟨hl, by rw [hf], fun hb => by rw [hf]; exact hb⟩
  exact p1.trans p2


theorem claimFold_pres {env : FmEnv} {sender : Addr} {untilE : Nat} (lps : List Denom)
    {st st' : FmState × List Coin}
    (h : lps.foldlM (claimStep env sender untilE) st = .ok st') : Pres st.1 st'.1 := by
  induction lps generalizing st with
  | nil => simp [pure, Except.pure] at h; subst h; exact Pres.refl _
  | cons a l ih =>
    rw [List.foldlM_cons, bind_ok] at h
    obtain ⟨s1, h1, h2⟩ := h
    obtain ⟨_, _, _, p⟩ := claimStep_ok h1
    exact p.trans (ih h2)

theorem untilEpochOrCurrent_ok {u : Option Nat} {cur untilE : Nat}
    (h : untilEpochOrCurrent u cur = .ok untilE) : untilE ≤ cur ∧ ∀ x, u = some x → untilE = x := by
  unfold untilEpochOrCurrent at h
  cases u with
  | none => simp only [Except.ok.injEq] at h; subst h; exact ⟨Nat.le_refl _, fun _ hx => by cases hx⟩
  | some x =>
    simp only at h
    split at h
    · simp only [Except.ok.injEq] at h; subst h
      exact ⟨by assumption, fun _ hx => by cases hx; rfl⟩
    · cases h

/-- `fmClaim` in closed form -/
theorem fmClaim_ok {s s' : FmState} {env : FmEnv} {sender : Addr} {funds : List Coin}
    {u : Option Nat} {r : Response} (h : fmClaim s env sender funds u = .ok (s', r)) :
    ∃ cur untilE sF total msgs, funds.isEmpty = true ∧ (s.positionsBy sender true).isEmpty = false ∧
      fmCurrentEpoch s env = .ok cur ∧ untilEpochOrCurrent u cur = .ok untilE ∧
      (uniqueDenoms (s.positionsBy sender true)).foldlM (claimStep env sender untilE) (s, []) = .ok (sF, total) ∧
      s' = { sF with lastClaimed := fun a => if a = sender then some untilE else sF.lastClaimed a } ∧
      r = Response.ofMsgs msgs [("action", "claim")] ∧
      ((total.isEmpty = true ∧ msgs = []) ∨
        (total.isEmpty = false ∧ ∃ agg, aggregateCoins total = .ok agg ∧ msgs = [Msg.bankSend sender agg])) := by
  unfold fmClaim at h
  simp only [bind_ok] at h
  obtain ⟨_, hnp, h⟩ := h
  have hfunds : funds.isEmpty = true := by
    unfold nonpayable at hnp
    split at hnp
    · assumption
    · cases hnp
  cases hop : (s.positionsBy sender true).isEmpty with
  | true => simp [hop, bind, Except.bind] at h
  | false =>
    simp only [hop, Bool.false_eq_true, if_false, bind_ok] at h
    obtain ⟨cur, hcur, untilE, hun, ⟨sF, total⟩, hfold, h⟩ := h
    simp only [] at h
    cases ht : total.isEmpty with
    | true =>
      simp only [ht, if_true, pure_bind, pure_ok, Prod.mk.injEq] at h
      obtain ⟨rfl, rfl⟩ := h
      exact ⟨cur, untilE, sF, total, [], hfunds, rfl, hcur, hun, hfold, rfl, rfl, Or.inl ⟨ht, rfl⟩⟩
    | false =>
      simp only [ht, Bool.false_eq_true, if_false, bind_ok, pure_bind, pure_ok, Prod.mk.injEq] at h
      obtain ⟨agg, hagg, rfl, rfl⟩ := h
      exact ⟨cur, untilE, sF, total, _, hfunds, rfl, hcur, hun, hfold, rfl, rfl,
        Or.inr ⟨ht, agg, hagg, rfl⟩⟩
/-! ### calculate_rewards -/

theorem reclaim {s : FmState} {env : FmEnv} {lp : Denom} {u : Addr} {l : Nat}
    (hl : s.lastClaimed u = some l) :
    calculateRewards s env lp u l = .ok ⟨[], [], []⟩ ∧
    ∀ until_, until_ < l → ∀ rc, calculateRewards s env lp u until_ ≠ .ok rc := by
  constructor
  · unfold calculateRewards
    simp [hl]
  · intro until_ hlt rc
    unfold calculateRewards
    simp [hl, hlt, bind, Except.bind]

/-- one farm of `calculate_rewards`, cursor known -/
def farmStep (s : FmState) (env : FmEnv) (lp : Denom) (receiver : Addr) (untilE : Nat) (last : Option Nat)
    (acc : List Coin × List (String × Nat) × List (String × Nat × Nat)) (f : Farm) :
    R (List Coin × List (String × Nat) × List (String × Nat × Nat)) := do
    if f.startEpoch > untilE then pure acc else
    let startFrom ← match last with
      | some l => pure (l + 1)
      | none => match histEarliest (s.hist receiver f.lpDenom) with
        | some (e, _) => pure e | none => .error .notFound
    let uw ← computeAddressWeights (s.hist receiver lp) startFrom untilE
    let cw ← computeContractWeights (s.hist env.self lp) startFrom untilE
    let terms ← farmRewardTerms f uw cw startFrom untilE
    let coins := (terms.filter (·.2 > 0)).map fun t => (⟨f.assetDenom, t.2⟩ : Coin)
    let sum ← terms.foldlM (fun a t => ckAdd U128_MAX a t.2) 0
    let modified := if terms.isEmpty then acc.2.1 else acc.2.1 ++ [(f.id, sum)]
    pure (acc.1 ++ coins, modified, acc.2.2 ++ terms.map fun t => (f.id, t.1, t.2))

theorem farmStep_terms {s : FmState} {env : FmEnv} {lp : Denom} {u : Addr} {until_ l : Nat}
    {acc acc' : List Coin × List (String × Nat) × List (String × Nat × Nat)} {f : Farm}
    (h : farmStep s env lp u until_ (some l) acc f = .ok acc')
    (hacc : ∀ t ∈ acc.2.2, l < t.2.1 ∧ t.2.1 ≤ until_) :
    ∀ t ∈ acc'.2.2, l < t.2.1 ∧ t.2.1 ≤ until_ := by
  unfold farmStep at h
  split at h
  · simp only [pure_ok] at h; subst h; exact hacc
  · simp only [pure_bind, bind_ok, pure_ok] at h
    obtain ⟨uw, _, cw, _, terms, hterms, sum, _, rfl⟩ := h
    intro t ht
    simp only [List.mem_append, List.mem_map] at ht
    rcases ht with ht | ⟨t0, ht0, rfl⟩
    · exact hacc t ht
    · obtain ⟨h1, h2, _⟩ := farm_terms_shape hterms t0 ht0
      simp only
      omega

theorem rewards_after_cursor {s : FmState} {env : FmEnv} {lp : Denom} {u : Addr} {until_ l : Nat}
    {rc : RewardsCalc} (hl : s.lastClaimed u = some l)
    (h : calculateRewards s env lp u until_ = .ok rc) :
    l ≤ until_ ∧ ∀ t ∈ rc.terms, l < t.2.1 ∧ t.2.1 ≤ until_ := by
  unfold calculateRewards at h
  simp only [hl] at h
  by_cases hlt : until_ < l
  · simp [hlt, bind, Except.bind] at h
  · refine ⟨by omega, ?_⟩
    simp only [hlt, if_false, pure_bind] at h
    by_cases heq : (until_ == l) = true
    · simp only [heq, if_true, pure_ok] at h
      subst h
      intro t ht; cases ht
    · simp only [heq, Bool.false_eq_true, if_false, bind_ok, pure_ok] at h
      obtain ⟨r, hr, agg, _, rfl⟩ := h
      simp only
      have key : ∀ (fs : List Farm) acc acc',
          fs.foldlM (farmStep s env lp u until_ (some l)) acc = .ok acc' →
          (∀ t ∈ acc.2.2, l < t.2.1 ∧ t.2.1 ≤ until_) → ∀ t ∈ acc'.2.2, l < t.2.1 ∧ t.2.1 ≤ until_ := by
        intro fs
        induction fs with
        | nil => intro acc acc' h0 ha; simp [pure, Except.pure] at h0; subst h0; exact ha
        | cons f fs ih =>
          intro acc acc' h0 ha
          rw [List.foldlM_cons, bind_ok] at h0
          obtain ⟨a1, h1, h2⟩ := h0
          exact ih a1 acc' h2 (farmStep_terms h1 ha)
      exact key _ _ _ hr (by intro t ht; cases ht)

/-! ### aggregate_coins keeps (non-)emptiness -/

theorem insertCoin_ne_nil {c : Coin} {l r : List Coin} (h : insertCoin c l = .ok r) : r ≠ [] := by
  cases l with
  | nil => simp [insertCoin] at h; subst h; simp
  | cons x xs =>
    unfold insertCoin at h
    split at h
    · simp only [bind_ok, pure_ok] at h
      obtain ⟨_, _, rfl⟩ := h; simp
    · split at h
      · simp only [pure_ok] at h; subst h; simp
      · simp only [bind_ok, pure_ok] at h
        obtain ⟨_, _, rfl⟩ := h; simp

theorem foldlM_insertCoin_ne_nil (cs : List Coin) {acc r : List Coin}
    (h : cs.foldlM (fun acc c => insertCoin c acc) acc = .ok r) (hne : acc ≠ [] ∨ cs ≠ []) : r ≠ [] := by
  induction cs generalizing acc with
  | nil =>
    simp [pure, Except.pure] at h; subst h
    rcases hne with h1 | h1
    · exact h1
    · exact absurd rfl h1
  | cons c cs ih =>
    rw [List.foldlM_cons, bind_ok] at h
    obtain ⟨a1, h1, h2⟩ := h
    exact ih h2 (Or.inl (insertCoin_ne_nil h1))

theorem aggregateCoins_isEmpty {cs r : List Coin} (h : aggregateCoins cs = .ok r) :
    r.isEmpty = cs.isEmpty := by
  cases cs with
  | nil => simp [aggregateCoins, pure, Except.pure] at h; subst h; rfl
  | cons c cs =>
    have := foldlM_insertCoin_ne_nil (c :: cs) h (Or.inr (by simp))
    cases r with
    | nil => exact absurd rfl this
    | cons _ _ => rfl

theorem query_eq_claim {s s' : FmState} {env : FmEnv} {sender : Addr} {u : Option Nat}
    {r : Response} {lp : Denom}
    (hv : env.validAddr sender = true)
    (hone : uniqueDenoms (s.positionsBy sender true) = [lp])
    (h : fmClaim s env sender [] u = .ok (s', r)) :
    ∃ coins, queryRewards s env sender u = .ok coins ∧
      r.msgs.map (·.msg) = (if coins.isEmpty then [] else [Msg.bankSend sender coins]) := by
  obtain ⟨cur, untilE, sF, total, msgs, _, hop, hcur, hun, hfold, _, rfl, hm⟩ := fmClaim_ok h
  rw [hone, List.foldlM_cons, bind_ok] at hfold
  obtain ⟨st1, h1, h2⟩ := hfold
  simp only [List.foldlM_nil, pure_ok] at h2
  obtain ⟨rc, hrc, htot, _⟩ := claimStep_ok h1
  subst h2
  simp only [List.nil_append] at htot hrc
  have hmsgs : (Response.ofMsgs msgs [("action", "claim")]).msgs.map (·.msg) = msgs := by
    simp [Response.ofMsgs, List.map_map, Function.comp_def]
  rw [hmsgs]
  have hq : queryRewards s env sender u = aggregateCoins total := by
    unfold queryRewards
    simp only [hv, hop, hone, Bool.not_true, Bool.false_eq_true, if_false, hcur, hun,
      List.foldlM_cons, List.foldlM_nil, hrc, List.nil_append, htot]
    simp only [bind, Except.bind, hun, hrc, pure, Except.pure]
  rw [hq]
  rcases hm with ⟨hte, rfl⟩ | ⟨hte, agg, hagg, rfl⟩
  · have : total = [] := List.isEmpty_iff.1 hte
    subst this
    exact ⟨[], rfl, rfl⟩
  · refine ⟨agg, hagg, ?_⟩
    rw [aggregateCoins_isEmpty hagg, hte]
    rfl

/-! ### update_weights -/

theorem setHist2_get (s : FmState) (self recv : Addr) (lp : Denom) (e0 cw' uw' : Nat)
    (a : Addr) (d : Denom) (e : Nat) (hne : e ≠ e0) :
    histGet (((s.setHist self lp (histSet (s.hist self lp) e0 cw')).setHist recv lp
      (histSet ((s.setHist self lp (histSet (s.hist self lp) e0 cw')).hist recv lp) e0 uw')).hist a d) e
      = histGet (s.hist a d) e := by
  simp only [FmState.setHist]
  by_cases h1 : a = recv ∧ d = lp
  · obtain ⟨rfl, rfl⟩ := h1
    simp only [and_self, if_true]
    rw [histGet_histSet, if_neg hne]
    by_cases h2 : a = self
    · subst h2
      simp only [and_self, if_true]
      rw [histGet_histSet, if_neg hne]
    · simp only [h2, false_and, if_false]
  · rw [if_neg h1]
    by_cases h2 : a = self ∧ d = lp
    · obtain ⟨rfl, rfl⟩ := h2
      simp only [and_self, if_true]
      rw [histGet_histSet, if_neg hne]
    · rw [if_neg h2]

theorem update_weights_next_epoch {s s' : FmState} {env : FmEnv} {recv : Addr} {lp : Denom}
    {amount unlocking : Nat} {fill : Bool} {cur : Nat}
    (hc : fmCurrentEpoch s env = .ok cur)
    (h : updateWeights s env recv lp amount unlocking fill = .ok s') :
    ∀ a d e, e ≤ cur → histGet (s'.hist a d) e = histGet (s.hist a d) e := by
  unfold updateWeights at h
  simp only [hc, bind_ok, fit_ok, pure_ok, Except.ok.injEq, exists_eq_left'] at h
  obtain ⟨w, _, e0, ⟨_, rfl⟩, h⟩ := h
  cases fill with
  | true =>
    simp only [if_true, bind_ok, ckAdd_ok, pure_ok] at h
    obtain ⟨cw', _, uw', _, rfl⟩ := h
    intro a d e he
    exact setHist2_get s env.self recv lp (cur + 1) cw' uw' a d e (by omega)
  | false =>
    simp only [Bool.false_eq_true, if_false, pure_bind, pure_ok] at h
    subst h
    intro a d e he
    exact setHist2_get s env.self recv lp (cur + 1) _ _ a d e (by omega)

theorem claim_sets_cursor {s s' : FmState} {env : FmEnv} {sender : Addr} {funds : List Coin}
    {u : Option Nat} {r : Response} (h : fmClaim s env sender funds u = .ok (s', r)) :
    ∃ cur until_, fmCurrentEpoch s env = .ok cur ∧ until_ ≤ cur ∧ (∀ x, u = some x → until_ = x) ∧
      s'.lastClaimed sender = some until_ ∧ (∀ a, a ≠ sender → s'.lastClaimed a = s.lastClaimed a) := by
  obtain ⟨cur, untilE, sF, total, msgs, _, hop, hcur, hun, hfold, rfl, _, _⟩ := fmClaim_ok h
  obtain ⟨h1, h2⟩ := untilEpochOrCurrent_ok hun
  have p := claimFold_pres _ hfold
  refine ⟨cur, untilE, hcur, h1, h2, by simp, ?_⟩
  intro a ha
  simp only [ha, if_false]
  exact congrFun p.lastClaimed a

theorem claim_farms_bounded {s s' : FmState} {env : FmEnv} {sender : Addr} {funds : List Coin}
    {u : Option Nat} {r : Response} (hb : ∀ f ∈ s.farms, f.claimed ≤ f.assetAmount)
    (h : fmClaim s env sender funds u = .ok (s', r)) :
    s'.farms.map (·.id) = s.farms.map (·.id) ∧ ∀ f' ∈ s'.farms, f'.claimed ≤ f'.assetAmount := by
  obtain ⟨cur, untilE, sF, total, msgs, _, hop, hcur, hun, hfold, rfl, _, _⟩ := fmClaim_ok h
  have p := claimFold_pres _ hfold
  exact ⟨p.ids, p.bounded hb⟩

end MantraDex.Farm
