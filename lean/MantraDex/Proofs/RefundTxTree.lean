/-
  C20Tx helpers, part 3: the transaction tree of `create_farm` with auto-closed farms (funds transfer, handler,
  plain fee messages, reply-on-error refunds), with and without an injected fault, and of a manual `close_farm`
  under an arbitrary fault.
-/
import MantraDex.Proofs.RefundTxRun
import MantraDex.Proofs.FarmTxCreate
import MantraDex.Proofs.LockTwoStep
import MantraDex.Properties.C05Sys
import MantraDex.Properties.C11Sys

set_option linter.unusedSimpArgs false
set_option linter.unusedVariables false

namespace MantraDex.RefundTx
open MantraDex
open MantraDex.C01 (coinsOf amt coinsOf_cons coinsOf_nil normalizeCoins_ok)
open MantraDex.QSys (sumInt sumInt_cons)

/-! ### the handler -/

/-- what the rest of the argument needs to know about an accepted `create_farm` -/
theorem createFarm_shape {s s' : FmState} {env : FmEnv} {sender : Addr} {funds : List Coin} {p : FarmParams}
    {r : Response} (h : createFarm s env sender funds p = .ok (s', r)) :
    ∃ (feeMsgs : List Msg) (newf : Farm),
      (if s.config.createFarmFee.amount ≠ 0 then
          processFarmCreationFee s.config sender funds p.asset else pure []) = .ok feeMsgs ∧
      assertFarmAsset funds s.config.createFarmFee p.asset = .ok () ∧
      r.msgs = feeMsgs.map mkSub ++ (posRem (expiredL s env p)).map refundSub ∧
      newf.owner = sender ∧ newf.lpDenom = p.lpDenom ∧ newf.assetDenom = p.asset.denom ∧
      newf.assetAmount = p.asset.amount ∧ newf.claimed = 0 ∧
      s'.farms.Perm (newf :: s.farms.filter (fun g => !((expiredL s env p).any (·.id == g.id)))) ∧
      s'.positions = s.positions := by
  obtain ⟨cur, flags, feeMsgs, start, end_, rate, hcur, hflags, _, _, hfm, hassert, _, _, hany, rfl, rfl⟩ :=
    FH.createFarm_inv h
  rw [cfExpired_eq hflags] at hany ⊢
  obtain ⟨_, hfarms, hpos, _, _⟩ := FH.closeFarms_spec s (expiredL s env p)
  refine ⟨feeMsgs, Farm.mk (FH.cfIdState (closeFarms s (expiredL s env p)).1 p).1 sender p.lpDenom p.asset.denom
    p.asset.amount 0 rate start end_, hfm, hassert, ?_, rfl, rfl, rfl, rfl, rfl, ?_, ?_⟩
  · simp only
    rw [closeFarms_subs]
    rfl
  · have := FH.saveFarm_perm_new (f := Farm.mk (FH.cfIdState (closeFarms s (expiredL s env p)).1 p).1 sender
      p.lpDenom p.asset.denom p.asset.amount 0 rate start end_) hany
    rw [FH.cfIdState_farms, hfarms] at this
    exact this
  · rw [FH.saveFarm_positions, FH.cfIdState_positions, hpos]

theorem feeMsgs_send {cfg : FmConfig} {sender : Addr} {funds : List Coin} {asset : Coin} {feeMsgs : List Msg}
    (hfm : (if cfg.createFarmFee.amount ≠ 0 then processFarmCreationFee cfg sender funds asset else pure [])
      = .ok feeMsgs) : ∀ m ∈ feeMsgs, IsSend m := by
  intro m hm
  by_cases hfee : cfg.createFarmFee.amount ≠ 0
  · rw [if_pos hfee] at hfm
    obtain ⟨paid, -, -, rfl⟩ := C11.farm_fee_messages hfee hfm
    simp only [List.mem_append, List.mem_singleton] at hm
    rcases hm with hm | rfl
    · split at hm
      · cases hm
      · simp only [List.mem_singleton] at hm
        subst hm; trivial
    · trivial
  · rw [if_neg hfee] at hfm
    simp only [pure_ok] at hfm
    subst hfm
    cases hm

/-- bank calls of a `CreateFarm` transaction before the refunds (same definition as in the statement file) -/
def callsBefore (w : World) (u : Addr) (p : FarmParams) (funds : List Coin) : Nat :=
  (if funds.isEmpty then 0 else 1) +
  (if w.fm.config.createFarmFee.amount ≠ 0 then
    (match processFarmCreationFee w.fm.config u funds p.asset with | .ok l => l.length | .error _ => 0)
   else 0)

theorem callsBefore_eq {w : World} {u : Addr} {p : FarmParams} {funds : List Coin} {feeMsgs : List Msg}
    (hne : funds ≠ [])
    (hfm : (if w.fm.config.createFarmFee.amount ≠ 0 then
        processFarmCreationFee w.fm.config u funds p.asset else pure []) = .ok feeMsgs) :
    callsBefore w u p funds = 1 + feeMsgs.length := by
  unfold callsBefore
  have he : funds.isEmpty = false := by cases funds <;> simp_all
  rw [he]
  by_cases hfee : w.fm.config.createFarmFee.amount ≠ 0
  · rw [if_pos hfee] at hfm ⊢
    rw [hfm]
    simp
  · rw [if_neg hfee] at hfm ⊢
    simp only [pure_ok] at hfm
    subst hfm
    simp

/-! ### the runtime tree -/

theorem cf_tx_inv {w w' : World} {u : Addr} {p : FarmParams} {funds : List Coin} {k : Option Nat}
    (h : runTx w (.exec u FM (.fm (.createFarm p)) funds) k = .ok w') :
    ∃ (b1 : Bank) (s : FmState) (r : Response), funds ≠ [] ∧
      ({ w.bank with calls := 0, failAt := k } : Bank).send u FM funds = .ok b1 ∧
      createFarm w.fm w.fmEnv u funds p = .ok (s, r) ∧
      execSubs 63 { w with bank := b1, fm := s } FM r.msgs = .ok w' := by
  unfold runTx at h
  simp only at h
  have h64 : FUEL = 63 + 1 := rfl
  rw [h64] at h
  obtain ⟨b1, s, r, hb, hx, hsubs⟩ := FarmTx.execMsg_fm_any h
  simp only [fmExecute] at hx
  have hx' : createFarm w.fm w.fmEnv u funds p = .ok (s, r) := hx
  obtain ⟨_, _, _, hassert, _⟩ := createFarm_shape hx'
  rcases hb with ⟨rfl, _⟩ | ⟨hne, hb⟩
  · simp [assertFarmAsset, bind, Except.bind] at hassert
  · exact ⟨b1, s, r, hne, hb, hx', hsubs⟩

theorem cf_tx_run {w w' : World} {u : Addr} {p : FarmParams} {funds : List Coin} {k : Option Nat}
    {b1 : Bank} {s : FmState} {r : Response} (hne : funds ≠ [])
    (hb : ({ w.bank with calls := 0, failAt := k } : Bank).send u FM funds = .ok b1)
    (hx : createFarm w.fm w.fmEnv u funds p = .ok (s, r))
    (hs : execSubs 63 { w with bank := b1, fm := s } FM r.msgs = .ok w') :
    runTx w (.exec u FM (.fm (.createFarm p)) funds) k = .ok w' := by
  unfold runTx
  simp only
  have h64 : FUEL = 63 + 1 := rfl
  have he : funds.isEmpty = false := by cases funds <;> simp_all
  rw [h64, FarmTx.execMsg_fm_funds 63 _ u _ funds he]
  have e1 : ({ w with bank := { w.bank with calls := 0, failAt := k } } : World).bank.send u FM funds = .ok b1 := hb
  rw [e1]
  have e2 : fmExecute ({ w with bank := { w.bank with calls := 0, failAt := k } } : World).fm
      ({ w with bank := { w.bank with calls := 0, failAt := k } } : World).fmEnv u funds (.createFarm p) =
      .ok (s, r) := hx
  show (fmExecute _ _ u funds (.createFarm p) >>= fun sr => execSubs 63 _ FM sr.2.msgs) = _
  rw [e2]
  exact hs

/-- plain fee messages, then refunds: inversion -/
theorem cf_subs_inv {W W' : World} {feeMsgs : List Msg} {L : List Farm} (hsend : ∀ m ∈ feeMsgs, IsSend m)
    (h : execSubs 63 W FM (feeMsgs.map mkSub ++ L.map refundSub) = .ok W') :
    ∃ b2, bankRun W.tfFees W.bank FM feeMsgs = .ok b2 ∧ W' = { W with bank := refundRun b2 L } ∧
      L.length + 1 + feeMsgs.length ≤ 63 := by
  obtain ⟨k, b, hk, hb, hrest⟩ := LockTS.execSubs_leaf_append_inv feeMsgs _ 63 W W' FM
    (fun m hm => (hsend m hm).leaf) h
  have hfuel := refunds_fuel L k _ _ hrest
  rw [refunds_exec L k _ hfuel] at hrest
  cases hrest
  exact ⟨b, hb, rfl, by omega⟩

/-- plain fee messages, then refunds: once the fee messages went through, the rest always completes -/
theorem cf_subs_run {W : World} {feeMsgs : List Msg} {L : List Farm} {b2 : Bank}
    (hsend : ∀ m ∈ feeMsgs, IsSend m) (hfuel : L.length + 1 + feeMsgs.length ≤ 63)
    (hrun : bankRun W.tfFees W.bank FM feeMsgs = .ok b2) :
    execSubs 63 W FM (feeMsgs.map mkSub ++ L.map refundSub) = .ok { W with bank := refundRun b2 L } := by
  obtain ⟨k, hk⟩ : ∃ k, 63 = k + feeMsgs.length := ⟨63 - feeMsgs.length, by omega⟩
  rw [hk]
  apply LockTS.execSubs_leaf_append_run feeMsgs _ k W _ FM b2 (fun m hm => (hsend m hm).leaf) (by omega) hrun
  exact refunds_exec L k _ (by omega)

/-! ### the bank before the refunds -/

theorem cf_mid {b0 b1 b2 : Bank} {tf : List Coin} {cfg : FmConfig} {u : Addr} {funds : List Coin} {asset : Coin}
    {feeMsgs : List Msg} (hb1 : b0.send u FM funds = .ok b1)
    (hfm : (if cfg.createFarmFee.amount ≠ 0 then processFarmCreationFee cfg u funds asset else pure [])
      = .ok feeMsgs)
    (hassert : assertFarmAsset funds cfg.createFarmFee asset = .ok ())
    (hrun : bankRun tf b1 FM feeMsgs = .ok b2) :
    ∀ a d, (b2.bal a d : Int) = (b0.bal a d : Int)
      - C11Sys.at_ (a = u) (C11Sys.amt asset d + C11Sys.amt cfg.createFarmFee d)
      + C11Sys.at_ (a = FM) (C11Sys.amt asset d)
      + C11Sys.at_ (a = cfg.feeCollector) (C11Sys.amt cfg.createFarmFee d) := by
  obtain ⟨x, r, m1, m2, hF⟩ := FarmTx.fee_bank hfm hassert hrun
  have m0 := (send_spec hb1).2
  intro a d
  have e0 := m0.bal a d
  have e1 := m1.bal a d
  have e2 := m2.bal a d
  have hf := hF d
  simp only [C11Sys.amt_eq_coinsOf, C11Sys.at_]
  generalize C01.coinsOf funds d = F at *
  generalize C01.coinsOf [asset] d = A at *
  generalize C01.coinsOf [cfg.createFarmFee] d = E at *
  generalize C01.coinsOf [(⟨cfg.createFarmFee.denom, r⟩ : Coin)] d = R at *
  generalize cfg.feeCollector = fc at *
  by_cases c1 : a = u <;> by_cases c2 : a = FM <;> by_cases c3 : a = fc <;>
    (try simp only [if_pos c1] at e0 e1 e2 ⊢) <;> (try simp only [if_neg c1] at e0 e1 e2 ⊢) <;>
    (try simp only [if_pos c2] at e0 e1 e2 ⊢) <;> (try simp only [if_neg c2] at e0 e1 e2 ⊢) <;>
    (try simp only [if_pos c3] at e0 e1 e2 ⊢) <;> (try simp only [if_neg c3] at e0 e1 e2 ⊢) <;>
    omega

/-- an external creator only adds to the farm manager's balance -/
theorem cf_mid_fm_ge {b0 b2 : Bank} {cfg : FmConfig} {u : Addr} {asset : Coin} (hu : u ≠ FM)
    (h : ∀ a d, (b2.bal a d : Int) = (b0.bal a d : Int)
      - C11Sys.at_ (a = u) (C11Sys.amt asset d + C11Sys.amt cfg.createFarmFee d)
      + C11Sys.at_ (a = FM) (C11Sys.amt asset d)
      + C11Sys.at_ (a = cfg.feeCollector) (C11Sys.amt cfg.createFarmFee d)) :
    ∀ d, b0.bal FM d ≤ b2.bal FM d := by
  intro d
  have e := h FM d
  have hu' : ¬ FM = u := fun e => hu e.symm
  have h1 : (0 : Int) ≤ C11Sys.amt asset d := by unfold C11Sys.amt; split <;> omega
  have h2 : (0 : Int) ≤ C11Sys.amt cfg.createFarmFee d := by unfold C11Sys.amt; split <;> omega
  simp only [C11Sys.at_, if_neg hu', if_true] at e
  split at e <;> omega

theorem cf_mid_counter {b0 b1 b2 : Bank} {tf : List Coin} {u : Addr} {funds : List Coin} {feeMsgs : List Msg}
    (hb1 : b0.send u FM funds = .ok b1) (hsend : ∀ m ∈ feeMsgs, IsSend m)
    (hrun : bankRun tf b1 FM feeMsgs = .ok b2) :
    b2.calls = b0.calls + 1 + feeMsgs.length ∧ b2.failAt = b0.failAt := by
  obtain ⟨i1, i2⟩ := bankRun_sends_calls feeMsgs b1 b2 hsend hrun
  rw [i1, i2, send_calls hb1, (send_spec hb1).2.fa]
  exact ⟨rfl, rfl⟩

theorem cover_of_inv {w : World} (hinv : C05Sys.FmInv w) {b : Bank} (hb : ∀ d, w.bank.bal FM d ≤ b.bal FM d)
    {L : List Farm} (hL : L.Sublist w.fm.farms) : Cover b L := by
  intro d
  have h1 := hinv.custody d
  rw [C05.liability_eq] at h1
  have h2 := farmSum_sublist hL d
  have h3 := hb d
  omega

/-! ### `create_farm` with auto-closed farms, no fault -/

theorem autoclose_effect {w w' : World} {u : Addr} {p : FarmParams} {funds : List Coin} (hu : u ≠ FM)
    (hinv : C05Sys.FmInv w)
    (h : runTx w (.exec u FM (.fm (.createFarm p)) funds) = .ok w') :
    (∃ f, f ∈ w'.fm.farms ∧ f.owner = u ∧ f.lpDenom = p.lpDenom ∧ f.assetDenom = p.asset.denom ∧
      f.assetAmount = p.asset.amount ∧ f.claimed = 0 ∧
      (∀ g ∈ w.fm.farms, g ∉ expiredL w.fm w.fmEnv p → g ∈ w'.fm.farms) ∧
      (∀ g ∈ w'.fm.farms, g = f ∨ (g ∈ w.fm.farms ∧ g ∉ expiredL w.fm w.fmEnv p))) ∧
    w'.fm.positions = w.fm.positions ∧ w'.pm = w.pm ∧
    ∀ a d, (w'.bank.bal a d : Int) = (w.bank.bal a d : Int)
      - C11Sys.at_ (a = u) (C11Sys.amt p.asset d + C11Sys.amt w.fm.config.createFarmFee d)
      + C11Sys.at_ (a = FM) (C11Sys.amt p.asset d)
      + C11Sys.at_ (a = w.fm.config.feeCollector) (C11Sys.amt w.fm.config.createFarmFee d)
      + sumInt ((expiredL w.fm w.fmEnv p).map (refundEff a d)) := by
  obtain ⟨b1, s, r, hne, hb1, hx, hsubs⟩ := cf_tx_inv h
  obtain ⟨feeMsgs, newf, hfm, hassert, hr, o1, o2, o3, o4, o5, hperm, hposn⟩ := createFarm_shape hx
  have hsend := feeMsgs_send hfm
  rw [hr] at hsubs
  obtain ⟨b2, hrun, rfl, _⟩ := cf_subs_inv hsend hsubs
  have hmid := cf_mid hb1 hfm hassert hrun
  obtain ⟨_, hfa⟩ := cf_mid_counter hb1 hsend hrun
  have hL : (posRem (expiredL w.fm w.fmEnv p)).Sublist w.fm.farms :=
    (posRem_sublist _).trans (expiredL_sublist _ _ _)
  have hcov : Cover b2 (posRem (expiredL w.fm w.fmEnv p) ++ []) := by
    rw [List.append_nil]
    exact cover_of_inv hinv (cf_mid_fm_ge hu hmid) hL
  have hnh : NoHit b2 (posRem (expiredL w.fm w.fmEnv p)).length := by
    intro j _ hj
    rw [hfa] at hj
    cases hj
  obtain ⟨hbal, _, _, _⟩ := refundRun_eff _ [] b2 (fun f hf => (mem_posRem hf).2) hcov hnh
  refine ⟨⟨newf, hperm.mem_iff.2 List.mem_cons_self, o1, o2, o3, o4, o5, ?_, ?_⟩, hposn, rfl, ?_⟩
  · intro g hg hng
    refine hperm.mem_iff.2 (List.mem_cons_of_mem _ (List.mem_filter.2 ⟨hg, ?_⟩))
    simp only [Bool.not_eq_true', List.any_eq_false, beq_iff_eq]
    intro e he hid
    have : e = g := FH.nodup_key_inj Farm.id w.fm.farms hinv.farmNodup e
      ((expiredL_sublist _ _ _).subset he) g hg hid
    exact hng (this ▸ he)
  · intro g hg
    rcases List.mem_cons.1 (hperm.mem_iff.1 hg) with rfl | hg'
    · exact Or.inl rfl
    · obtain ⟨hg1, hg2⟩ := List.mem_filter.1 hg'
      refine Or.inr ⟨hg1, fun hin => ?_⟩
      simp only [Bool.not_eq_true', List.any_eq_false, beq_iff_eq] at hg2
      exact hg2 g hin rfl
  · intro a d
    show ((refundRun b2 _).bal a d : Int) = _
    rw [hbal, sumInt_posRem, hmid]

/-! ### `create_farm` with an injected fault beyond the funds transfer and the fee messages -/

theorem refund_failure_accepted {w w0' : World} {u : Addr} {p : FarmParams} {funds : List Coin} {k : Nat}
    (h0 : runTx w (.exec u FM (.fm (.createFarm p)) funds) = .ok w0')
    (hk : callsBefore w u p funds < k) :
    ∃ wk', runTx w (.exec u FM (.fm (.createFarm p)) funds) (some k) = .ok wk' := by
  obtain ⟨b1, s, r, hne, hb1, hx, hsubs⟩ := cf_tx_inv h0
  obtain ⟨feeMsgs, newf, hfm, hassert, hr, _⟩ := createFarm_shape hx
  have hsend := feeMsgs_send hfm
  rw [hr] at hsubs
  obtain ⟨b2, hrun, _, hfuel⟩ := cf_subs_inv hsend hsubs
  rw [callsBefore_eq hne hfm] at hk
  have he0 : BalEq ({ w.bank with calls := 0, failAt := none } : Bank)
      ({ w.bank with calls := 0, failAt := some k } : Bank) := fun _ _ => rfl
  obtain ⟨B1, HB1, he1⟩ := send_transport hb1 he0 (by
    intro hfa
    simp only [Option.some.injEq] at hfa
    omega)
  have hB1c := send_calls HB1
  have hB1f := (send_spec HB1).2.fa
  simp only at hB1c hB1f
  obtain ⟨B2, HB2, _⟩ := bankRun_sends_transport (tf := w.tfFees) (c := FM) feeMsgs b1 b2 B1 hsend hrun he1 (by
    intro k' hk'
    rw [hB1f] at hk'
    simp only [Option.some.injEq] at hk'
    omega)
  have hs := cf_subs_run (W := { w with bank := B1, fm := s }) (L := posRem (expiredL w.fm w.fmEnv p))
    hsend hfuel HB2
  rw [← hr] at hs
  exact ⟨_, cf_tx_run hne HB1 hx hs⟩

/-! ### … compared with the fault-free run -/

theorem split_at {α : Type} (L : List α) (i : Nat) (hi : i < L.length) :
    ∃ pre g post, L = pre ++ g :: post ∧ pre.length = i := by
  refine ⟨L.take i, L[i], L.drop (i + 1), ?_, ?_⟩
  · rw [← List.drop_eq_getElem_cons hi, List.take_append_drop]
  · rw [List.length_take]; omega

/-- the refund loop under a fault, against the fault-free loop: at most one refund is missing -/
theorem refundRun_compare (L : List Farm) (b B : Bank) (k : Nat) (hpos : ∀ f ∈ L, 0 < f.assetAmount - f.claimed)
    (hc : Cover b L) (he : BalEq b B) (hfb : b.failAt = none) (hfB : B.failAt = some k) :
    (∀ a d, (refundRun B L).bal a d = (refundRun b L).bal a d) ∨
    ∃ g ∈ L, ∀ a d, ((refundRun B L).bal a d : Int) = ((refundRun b L).bal a d : Int) - refundEff a d g := by
  have hnb : NoHit b L.length := by
    intro j _ hj
    rw [hfb] at hj
    cases hj
  obtain ⟨f1, _, _, _⟩ := refundRun_eff L [] b hpos (by rw [List.append_nil]; exact hc) hnb
  have hcB : Cover B L := hc.of_balEq he
  by_cases hin : B.calls < k ∧ k ≤ B.calls + L.length
  · right
    obtain ⟨pre, g, post, rfl, hlen⟩ := split_at L (k - B.calls - 1) (by omega)
    have F := refundRun_armed pre post g B k hpos hcB hfB (by omega)
    refine ⟨g, by simp, fun a d => ?_⟩
    rw [F a d, f1 a d, List.map_append, List.map_cons, sumInt_append, sumInt_cons, he a d]
    omega
  · left
    have hnB : NoHit B L.length := by
      intro j hj h
      rw [hfB] at h
      simp only [Option.some.injEq] at h
      omega
    obtain ⟨F1, _, _, _⟩ := refundRun_eff L [] B hpos (by rw [List.append_nil]; exact hcB) hnB
    intro a d
    have e1 := F1 a d
    have e2 := f1 a d
    rw [he a d] at e1
    omega

theorem refund_failure_tolerated {w w0' wk' : World} {u : Addr} {p : FarmParams} {funds : List Coin} {k : Nat}
    (hu : u ≠ FM) (hinv : C05Sys.FmInv w)
    (h0 : runTx w (.exec u FM (.fm (.createFarm p)) funds) = .ok w0')
    (hk : runTx w (.exec u FM (.fm (.createFarm p)) funds) (some k) = .ok wk') :
    wk'.fm = w0'.fm ∧ wk'.pm = w0'.pm ∧
    ((∀ a d, wk'.bank.bal a d = w0'.bank.bal a d) ∨
     ∃ g' ∈ expiredL w.fm w.fmEnv p,
      ∀ a d, (wk'.bank.bal a d : Int) = (w0'.bank.bal a d : Int) - refundEff a d g') := by
  obtain ⟨b1, s, r, hne, hb1, hx, hsubs⟩ := cf_tx_inv h0
  obtain ⟨B1, s', r', _, HB1, hx', Hsubs⟩ := cf_tx_inv hk
  rw [hx] at hx'
  cases hx'
  obtain ⟨feeMsgs, newf, hfm, hassert, hr, _⟩ := createFarm_shape hx
  have hsend := feeMsgs_send hfm
  rw [hr] at hsubs Hsubs
  obtain ⟨b2, hrun, rfl, _⟩ := cf_subs_inv hsend hsubs
  obtain ⟨B2, Hrun, rfl, _⟩ := cf_subs_inv hsend Hsubs
  have hmid := cf_mid hb1 hfm hassert hrun
  obtain ⟨_, hfa⟩ := cf_mid_counter hb1 hsend hrun
  obtain ⟨_, HfA⟩ := cf_mid_counter HB1 hsend Hrun
  have he0 : BalEq ({ w.bank with calls := 0, failAt := none } : Bank)
      ({ w.bank with calls := 0, failAt := some k } : Bank) := fun _ _ => rfl
  have he2 : BalEq b2 B2 := bankRun_sends_balEq feeMsgs b1 b2 B1 B2 hsend hrun Hrun (send_balEq hb1 HB1 he0)
  have hL : (posRem (expiredL w.fm w.fmEnv p)).Sublist w.fm.farms :=
    (posRem_sublist _).trans (expiredL_sublist _ _ _)
  have hcov : Cover b2 (posRem (expiredL w.fm w.fmEnv p)) := cover_of_inv hinv (cf_mid_fm_ge hu hmid) hL
  refine ⟨rfl, rfl, ?_⟩
  rcases refundRun_compare _ b2 B2 k (fun f hf => (mem_posRem hf).2) hcov he2 hfa HfA with hl | ⟨g, hg, hr⟩
  · exact Or.inl hl
  · exact Or.inr ⟨g, (mem_posRem hg).1, hr⟩

/-! ### a manual `close_farm` under any fault -/

theorem getFarm_of_mem {s : FmState} {f : Farm} (hn : (s.farms.map (·.id)).Nodup) (hf : f ∈ s.farms) :
    s.getFarm f.id = .ok f := by
  unfold FmState.getFarm
  cases hfind : s.farms.find? (·.id == f.id) with
  | none =>
    have := List.find?_eq_none.1 hfind f hf
    simp at this
  | some g =>
    have hg := List.mem_of_find?_eq_some hfind
    have hid : g.id = f.id := by simpa using List.find?_some hfind
    have := FH.nodup_key_inj Farm.id s.farms hn g hg f hf hid
    subst this
    rfl

theorem closeFarm_ok {s : FmState} {u : Addr} {f : Farm} (hg : s.getFarm f.id = .ok f)
    (hauth : u = f.owner ∨ s.owner.owner = some u) :
    closeFarm s u [] f.id =
      .ok ((closeFarms s [f]).1, { msgs := (closeFarms s [f]).2, attrs := [("action", "close_farm")] }) := by
  have hc : (!(f.owner == u || s.owner.owner == some u)) = false := by
    rcases hauth with rfl | h
    · simp
    · simp [h]
  unfold closeFarm
  simp only [nonpayable, List.isEmpty_nil, if_true, hg, hc, C13.ok_bind, Bool.false_eq_true, if_false]
  rfl

theorem close_farm_any_fault {w : World} {u : Addr} {f : Farm} (k : Option Nat)
    (hnd : (w.fm.farms.map (·.id)).Nodup) (hf : f ∈ w.fm.farms)
    (hauth : u = f.owner ∨ w.fm.owner.owner = some u) :
    ∃ wk', runTx w (.exec u FM (.fm (.closeFarm f.id)) []) k = .ok wk' ∧
      (∀ g ∈ wk'.fm.farms, g.id ≠ f.id) ∧ wk'.fm.positions = w.fm.positions ∧ wk'.pm = w.pm := by
  have hg := getFarm_of_mem hnd hf
  have hx := closeFarm_ok hg hauth
  obtain ⟨_, hfarms, hposn, _, _⟩ := FH.closeFarms_spec w.fm [f]
  refine ⟨{ w with
      bank := refundRun { w.bank with calls := 0, failAt := k } (posRem [f]),
      fm := (closeFarms w.fm [f]).1 }, ?_, ?_, hposn, rfl⟩
  · unfold runTx
    simp only
    have h64 : FUEL = 63 + 1 := rfl
    rw [h64, execMsg_fm_eq]
    have e2 : fmExecute ({ w with bank := { w.bank with calls := 0, failAt := k } } : World).fm
        ({ w with bank := { w.bank with calls := 0, failAt := k } } : World).fmEnv u [] (.closeFarm f.id) =
        .ok ((closeFarms w.fm [f]).1, { msgs := (closeFarms w.fm [f]).2, attrs := [("action", "close_farm")] }) := hx
    rw [e2]
    show execSubs 63 _ FM (closeFarms w.fm [f]).2 = _
    rw [closeFarms_subs]
    have hlen : (posRem [f]).length + 1 ≤ 63 := by
      have := (posRem_sublist [f]).length_le
      simp only [List.length_cons, List.length_nil] at this
      omega
    rw [refunds_exec _ 63 _ hlen]
  · intro g hg
    have hg' : g ∈ (closeFarms w.fm [f]).1.farms := hg
    rw [hfarms] at hg'
    replace hg := hg'
    have := (List.mem_filter.1 hg).2
    simp only [List.any_cons, List.any_nil, Bool.or_false, Bool.not_eq_true', beq_eq_false_iff_ne] at this
    exact fun e => this e.symm

end MantraDex.RefundTx
