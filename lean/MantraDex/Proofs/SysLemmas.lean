/-
  Runtime / bank lemmas that are not specific to one contract:
  * how `Bank.send` / `Bank.burn` / `Bank.mint` move the balance of an observed address,
  * inversion of `callExecute` / `callReply` (which field of the world a contract call may touch),
  * identifiers: `toString : Nat → String` is injective, prefixes can be cancelled.
-/
import MantraDex.Model.System
import MantraDex.Proofs.NumLemmas
import MantraDex.Properties.C05

set_option linter.unusedSimpArgs false
set_option linter.unusedVariables false

namespace MantraDex.Sys
open MantraDex MantraDex.C05

/-! ### identifiers -/

theorem toString_nat_inj {n m : Nat} (h : toString n = toString m) : n = m := by
  simp only [Nat.toString_eq_repr] at h
  have h2 : n.repr.toList = m.repr.toList := by rw [h]
  simp only [Nat.toList_repr] at h2
  have := congrArg (fun l => Nat.ofDigitChars 10 l 0) h2
  simpa using this

theorem append_left_cancel {p a b : String} (h : p ++ a = p ++ b) : a = b := by
  have h2 : (p ++ a).toList = (p ++ b).toList := by rw [h]
  simp only [String.toList_append] at h2
  exact String.toList_inj.1 (List.append_cancel_left h2)

theorem auto_id_inj {n m : Nat}
    (h : C.AUTO_POSITION_ID_PREFIX ++ toString n = C.AUTO_POSITION_ID_PREFIX ++ toString m) : n = m :=
  toString_nat_inj (append_left_cancel h)

theorem auto_ne_explicit (n : Nat) (i : String) :
    C.AUTO_POSITION_ID_PREFIX ++ toString n ≠ C.EXPLICIT_POSITION_ID_PREFIX ++ i := by
  intro h
  have h2 := congrArg String.toList h
  simp only [String.toList_append] at h2
  have : (C.AUTO_POSITION_ID_PREFIX.toList ++ (toString n).toList).head? =
      (C.EXPLICIT_POSITION_ID_PREFIX.toList ++ i.toList).head? := by rw [h2]
  simp [C.AUTO_POSITION_ID_PREFIX, C.EXPLICIT_POSITION_ID_PREFIX] at this

/-! ### bank -/

theorem coinsOf_filter_nonzero (cs : List Coin) (d : Denom) :
    coinsOf (cs.filter (·.amount ≠ 0)) d = coinsOf cs d := by
  induction cs with
  | nil => rfl
  | cons c cs ih =>
    by_cases h : c.amount = 0
    · have : (decide (c.amount ≠ 0)) = false := by simp [h]
      rw [List.filter_cons, this]
      simp only [Bool.false_eq_true, if_false]
      rw [coinsOf_cons, ih]
      simp [h]
    · have : (decide (c.amount ≠ 0)) = true := by simp [h]
      rw [List.filter_cons, this]
      simp only [if_true]
      rw [coinsOf_cons, coinsOf_cons, ih]

theorem normalizeCoins_ok {cs r : List Coin} (h : normalizeCoins cs = .ok r) :
    r = cs.filter (·.amount ≠ 0) := by
  unfold normalizeCoins at h
  simp only at h
  split at h
  · cases h
  · cases h; rfl

theorem tick_bal {b b' : Bank} (h : b.tick = .ok b') : b'.bal = b.bal := by
  unfold Bank.tick at h
  simp only at h
  split at h
  · cases h
  · cases h; rfl

theorem subFold_bal {a : Addr} (cs : List Coin) {b b' : Bank}
    (h : cs.foldlM (fun b c => b.subCoin a c) b = .ok b') (d : Denom) :
    b'.bal a d + coinsOf cs d = b.bal a d ∧ ∀ a', a' ≠ a → b'.bal a' d = b.bal a' d := by
  induction cs generalizing b with
  | nil =>
    simp only [List.foldlM_nil, pure_ok] at h
    subst h; simp [coinsOf_nil]
  | cons c cs ih =>
    simp only [List.foldlM_cons] at h
    obtain ⟨b1, h1, h⟩ := bind_ok.mp h
    obtain ⟨ih1, ih2⟩ := ih h
    unfold Bank.subCoin at h1
    split at h1
    · rename_i hle
      cases h1
      simp only at ih1 ih2
      rw [coinsOf_cons]
      constructor
      · by_cases hd : d = c.denom
        · subst hd
          simp only [beq_self_eq_true, if_true, and_self] at ih1 ⊢
          omega
        · have : (c.denom == d) = false := by simpa using fun e => hd e.symm
          simp only [this, hd, and_false, if_false, Bool.false_eq_true] at ih1 ⊢
          omega
      · intro a' ha'
        rw [ih2 a' ha']
        simp [ha']
    · cases h1

theorem addFold_bal {a : Addr} (cs : List Coin) (b : Bank) (d : Denom) :
    (cs.foldl (fun b c => b.addCoin a c) b).bal a d = b.bal a d + coinsOf cs d ∧
    ∀ a', a' ≠ a → (cs.foldl (fun b c => b.addCoin a c) b).bal a' d = b.bal a' d := by
  induction cs generalizing b with
  | nil => simp [coinsOf_nil]
  | cons c cs ih =>
    simp only [List.foldl_cons]
    obtain ⟨ih1, ih2⟩ := ih (b.addCoin a c)
    rw [coinsOf_cons]
    constructor
    · rw [ih1]
      unfold Bank.addCoin
      by_cases hd : d = c.denom
      · subst hd
        simp only [beq_self_eq_true, if_true, and_self]
        omega
      · have : (c.denom == d) = false := by simpa using fun e => hd e.symm
        simp only [this, hd, and_false, if_false, Bool.false_eq_true]
        omega
    · intro a' ha'
      rw [ih2 a' ha']
      simp [Bank.addCoin, ha']

theorem burnRaw_bal {b b' : Bank} {a : Addr} {cs : List Coin} (h : b.burnRaw a cs = .ok b') (d : Denom) :
    b'.bal a d + coinsOf cs d = b.bal a d ∧ ∀ a', a' ≠ a → b'.bal a' d = b.bal a' d := by
  unfold Bank.burnRaw at h
  obtain ⟨cs1, hn1, h⟩ := bind_ok.mp h
  have := normalizeCoins_ok hn1; subst this
  have := subFold_bal _ h d
  rw [coinsOf_filter_nonzero] at this
  exact this

theorem mintRaw_bal {b b' : Bank} {a : Addr} {cs : List Coin} (h : b.mintRaw a cs = .ok b') (d : Denom) :
    b'.bal a d = b.bal a d + coinsOf cs d ∧ ∀ a', a' ≠ a → b'.bal a' d = b.bal a' d := by
  unfold Bank.mintRaw at h
  obtain ⟨cs1, hn1, h⟩ := bind_ok.mp h
  have := normalizeCoins_ok hn1; subst this
  simp only [pure_ok] at h
  subst h
  have := addFold_bal (a := a) (cs.filter (·.amount ≠ 0)) b d
  rw [coinsOf_filter_nonzero] at this
  exact this

/-- a burn takes from the observed address `x` at most the listed coins, and only if `x` is the payer -/
theorem burn_bal_ge {b b' : Bank} {frm : Addr} {cs : List Coin} (h : b.burn frm cs = .ok b')
    (x : Addr) (d : Denom) :
    b.bal x d ≤ b'.bal x d + (if frm = x then coinsOf cs d else 0) := by
  unfold Bank.burn at h
  obtain ⟨b1, h1, h⟩ := bind_ok.mp h
  obtain ⟨s1, s2⟩ := burnRaw_bal h d
  rw [tick_bal h1] at s1 s2
  by_cases hx : frm = x
  · subst hx; simp only [if_true]; omega
  · rw [if_neg hx, s2 x (fun e => hx e.symm)]; omega

/-- a mint never lowers a balance -/
theorem mint_bal_ge {b b' : Bank} {to : Addr} {cs : List Coin} (h : b.mint to cs = .ok b')
    (x : Addr) (d : Denom) : b.bal x d ≤ b'.bal x d := by
  unfold Bank.mint at h
  obtain ⟨b1, h1, h⟩ := bind_ok.mp h
  obtain ⟨s1, s2⟩ := mintRaw_bal h d
  rw [tick_bal h1] at s1 s2
  by_cases hx : x = to
  · subst hx; omega
  · rw [s2 x hx]; omega

/-- a send takes from the observed address `x` at most the listed coins, and only if `x` is the
    payer (also when payer and payee coincide) -/
theorem send_bal_ge {b b' : Bank} {frm to : Addr} {cs : List Coin} (h : b.send frm to cs = .ok b')
    (x : Addr) (d : Denom) :
    b.bal x d ≤ b'.bal x d + (if frm = x then coinsOf cs d else 0) := by
  unfold Bank.send at h
  obtain ⟨b1, h1, h⟩ := bind_ok.mp h
  obtain ⟨b2, h2, h⟩ := bind_ok.mp h
  obtain ⟨s1, s2⟩ := burnRaw_bal h2 d
  obtain ⟨m1, m2⟩ := mintRaw_bal h d
  rw [tick_bal h1] at s1 s2
  have hm : b2.bal x d ≤ b'.bal x d := by
    by_cases hx : x = to
    · subst hx; omega
    · rw [m2 x hx]; omega
  by_cases hx : frm = x
  · subst hx; simp only [if_true]; omega
  · rw [if_neg hx]; rw [s2 x (fun e => hx e.symm)] at hm; exact hm

/-- a send from somebody else: the observed address gains the coins if it is the payee -/
theorem send_bal_recv {b b' : Bank} {frm to : Addr} {cs : List Coin} (h : b.send frm to cs = .ok b')
    (x : Addr) (hx : frm ≠ x) (d : Denom) :
    b.bal x d + (if to = x then coinsOf cs d else 0) ≤ b'.bal x d := by
  unfold Bank.send at h
  obtain ⟨b1, h1, h⟩ := bind_ok.mp h
  obtain ⟨b2, h2, h⟩ := bind_ok.mp h
  obtain ⟨s1, s2⟩ := burnRaw_bal h2 d
  obtain ⟨m1, m2⟩ := mintRaw_bal h d
  rw [tick_bal h1] at s1 s2
  have hb2 := s2 x (fun e => hx e.symm)
  by_cases ht : to = x
  · subst ht; simp only [if_true]; omega
  · rw [if_neg ht, m2 x (fun e => ht e.symm)]; omega

/-! ### contract calls -/

theorem FM_ne_PM : (FM == PM) = false := by decide
theorem FM_eq_FM : (FM == FM) = true := by decide

/-- `callReply` touches only the called contract's own state; the farm manager's reply handler changes
    nothing and emits nothing -/
theorem callReply_inv {w w' : World} {c : Addr} {id : Nat} {resp : Response}
    (h : callReply w c id = .ok (w', resp)) :
    w'.bank = w.bank ∧ w'.fm = w.fm ∧ (c = FM → resp.msgs = []) := by
  unfold callReply at h
  split at h
  next hc =>
    simp only [bind_ok, pure_ok, Prod.mk.injEq] at h
    obtain ⟨⟨s, r⟩, _, rfl, rfl⟩ := h
    refine ⟨rfl, rfl, ?_⟩
    intro hfm; subst hfm
    rw [FM_ne_PM] at hc; cases hc
  next hc =>
    split at h
    next hc2 =>
      simp only [bind_ok, pure_ok, Prod.mk.injEq] at h
      obtain ⟨⟨s, r⟩, hr, rfl, rfl⟩ := h
      unfold fmReply at hr
      split at hr
      · cases hr; exact ⟨rfl, rfl, fun _ => rfl⟩
      · cases hr
    next => cases h

/-- `callExecute` touches only the called contract's own state -/
theorem callExecute_inv {w w' : World} {c sender : Addr} {funds : List Coin} {m : ContractMsg}
    {resp : Response} (h : callExecute w c sender funds m = .ok (w', resp)) :
    w'.bank = w.bank ∧
    ((w'.fm = w.fm ∧ c ≠ FM) ∨
     (c = FM ∧ ∃ fm, m = .fm fm ∧ fmExecute w.fm w.fmEnv sender funds fm = .ok (w'.fm, resp))) := by
  unfold callExecute at h
  split at h
  · split at h
    · cases h
    next hc =>
      simp only [bind_ok, pure_ok, Prod.mk.injEq] at h
      obtain ⟨⟨s, r⟩, _, rfl, rfl⟩ := h
      refine ⟨rfl, Or.inl ⟨rfl, ?_⟩⟩
      intro hfm; subst hfm
      revert hc; decide
  · split at h
    · cases h
    next hc =>
      simp only [bind_ok, pure_ok, Prod.mk.injEq] at h
      obtain ⟨⟨s, r⟩, hr, rfl, rfl⟩ := h
      refine ⟨rfl, Or.inr ⟨by simpa using hc, _, rfl, hr⟩⟩
  · split at h
    · cases h
    next hc =>
      simp only [bind_ok, pure_ok, Prod.mk.injEq] at h
      obtain ⟨s, _, rfl, rfl⟩ := h
      refine ⟨rfl, Or.inl ⟨rfl, ?_⟩⟩
      intro hfm; subst hfm
      revert hc; decide
  · split at h
    · cases h
    next hc =>
      simp only [bind_ok, pure_ok, Prod.mk.injEq] at h
      obtain ⟨_, _, o, _, rfl, rfl⟩ := h
      refine ⟨rfl, Or.inl ⟨rfl, ?_⟩⟩
      intro hfm; subst hfm
      revert hc; decide

end MantraDex.Sys
