/-
  Liveness of the emergency exit, numeric part: for a position small enough for the 128-bit `Decimal`
  arithmetic (amount · 10^18 ≤ u128::MAX) the weight, the penalty rate and the penalty split are all computable.
-/
import MantraDex.Model.FarmMath
import MantraDex.Proofs.NumLemmas
import MantraDex.Properties.C10
import MantraDex.Properties.C09

set_option linter.unusedSimpArgs false
set_option linter.unusedVariables false

namespace MantraDex.Live
open MantraDex

theorem weightMultiplier_ex {d : Nat} (hd : d ≤ C.SECONDS_IN_YEAR) : weightMultiplier d = .ok (C10.mulOf d) := by
  have m1 : d * ONE18 ≤ C.SECONDS_IN_YEAR * ONE18 := Nat.mul_le_mul_right _ hd
  have m2 : d * ONE18 * (d * ONE18) / ONE18 ≤ C.SECONDS_IN_YEAR * ONE18 * (C.SECONDS_IN_YEAR * ONE18) / ONE18 :=
    Nat.div_le_div_right (Nat.mul_le_mul m1 m1)
  have m3 := Nat.div_le_div_right (c := ONE18) (Nat.mul_le_mul_right C.WEIGHT_C2_NUM m2)
  have m4 := Nat.div_le_div_right (c := C.WEIGHT_C2_DEN) (Nat.mul_le_mul_right ONE18 m3)
  have m5 := Nat.div_le_div_right (c := ONE18) (Nat.mul_le_mul_right C.WEIGHT_C1_NUM m1)
  have m6 := Nat.div_le_div_right (c := C.WEIGHT_C1_DEN) (Nat.mul_le_mul_right ONE18 m5)
  unfold weightMultiplier weightParts
  simp only [bind_ok, fit_ok, decPow2, decMul_ok, decDiv_ok, decFromRatio_ok, ckAdd_ok, pure_ok,
    orPanic_ok]
  refine ⟨(_, _, _), ⟨_, ⟨Nat.le_trans m1 (by decide), rfl⟩, _, ⟨Nat.le_trans m2 (by decide), rfl⟩, _,
    ⟨Nat.le_trans m3 (by decide), rfl⟩, _, ⟨by decide, Nat.le_trans m4 (by decide), rfl⟩, _,
    ⟨Nat.le_trans m5 (by decide), rfl⟩, _, ⟨by decide, Nat.le_trans m6 (by decide), rfl⟩, _,
    ⟨by decide, by decide, rfl⟩, rfl⟩, _, ⟨?_, rfl⟩, ?_, rfl⟩
  · exact Nat.le_trans (Nat.add_le_add m4 m6) (by decide)
  · show _ + _ + C.WEIGHT_C0_NUM * ONE18 / C.WEIGHT_C0_DEN ≤ _
    exact Nat.le_trans (Nat.add_le_add_right (Nat.add_le_add m4 m6) _) (by decide)

theorem mulOf_le_16 {d : Nat} (hd : d ≤ C.SECONDS_IN_YEAR) : C10.mulOf d ≤ 16 * ONE18 :=
  Nat.le_trans (C10.mulOf_mono hd) C10.mulOf_year_le_16

/-- the weight of a small position is computable -/
theorem calculateWeight_ex {a d : Nat} (hday : C.SECONDS_IN_DAY ≤ d) (hyear : d ≤ C.SECONDS_IN_YEAR)
    (ha : a * ONE18 ≤ U128_MAX) : ∃ w, calculateWeight a d = .ok w ∧ a ≤ w ∧ w ≤ 16 * a := by
  have hm := mulOf_le_16 hyear
  have hcond : (decide (d < C.SECONDS_IN_DAY) || decide (d > C.SECONDS_IN_YEAR)) = false := by
    simp only [Bool.or_eq_false_iff, decide_eq_false_iff_not]
    omega
  have h1 : a * ONE18 ≤ U256_MAX := Nat.le_trans ha (by decide)
  have h2 : a * ONE18 * C10.mulOf d / ONE18 ≤ U256_MAX := by
    have : a * ONE18 * C10.mulOf d / ONE18 ≤ a * ONE18 * (16 * ONE18) / ONE18 :=
      Nat.div_le_div_right (Nat.mul_le_mul_left _ hm)
    rw [← Nat.mul_assoc, Nat.mul_div_cancel _ ONE18_pos] at this
    have h3 : a * ONE18 * 16 ≤ U128_MAX * 16 := Nat.mul_le_mul_right _ ha
    exact Nat.le_trans this (Nat.le_trans h3 (by decide))
  have h3 : a * ONE18 * C10.mulOf d / ONE18 / ONE18 ≤ U128_MAX := by
    have e : a * ONE18 * C10.mulOf d / ONE18 = a * C10.mulOf d := mul_mul_div_cancel _ _ _ ONE18_pos
    rw [e]
    have : a * C10.mulOf d / ONE18 ≤ a * (16 * ONE18) / ONE18 :=
      Nat.div_le_div_right (Nat.mul_le_mul_left _ hm)
    rw [← Nat.mul_assoc, Nat.mul_div_cancel _ ONE18_pos] at this
    have h4 : a * 16 ≤ a * ONE18 := Nat.mul_le_mul_left _ (by decide)
    omega
  have hw : calculateWeight a d = .ok (max (a * ONE18 * C10.mulOf d / ONE18 / ONE18) a) := by
    unfold calculateWeight
    rw [hcond]
    simp only [Bool.false_eq_true, if_false, bind_ok, fit_ok, decMul_ok, pure_ok]
    exact ⟨_, ⟨h1, rfl⟩, _, weightMultiplier_ex hyear, _, ⟨h2, rfl⟩, _, ⟨h3, rfl⟩, rfl⟩
  exact ⟨_, hw, C10.weight_ge_amount hw, C10.weight_le_16x hw⟩

theorem ex_bind {α β : Type} {x : R α} {f : α → R β} {a : α} (hx : x = .ok a) (hf : ∃ y, f a = .ok y) :
    ∃ y, (x >>= f) = .ok y := by
  obtain ⟨y, hy⟩ := hf
  exact ⟨y, by rw [hx]; exact hy⟩

/-- the emergency penalty rate of a small position is computable -/
theorem penalty_ex {pv : PosView} {base now : Nat}
    (hday : C.SECONDS_IN_DAY ≤ pv.unlockingDuration) (hyear : pv.unlockingDuration ≤ C.SECONDS_IN_YEAR)
    (hamt : pv.amount ≠ 0) (ha : pv.amount * ONE18 ≤ U128_MAX) (hbase : base ≤ ONE18)
    (hrem : remainingDuration pv now ≤ U64_MAX) :
    ∃ r, calculateEmergencyPenalty pv base now = .ok r := by
  obtain ⟨w, hw, _, hw16⟩ := calculateWeight_ex hday hyear ha
  have hunl : pv.unlockingDuration ≠ 0 := by
    have : 0 < C.SECONDS_IN_DAY := by decide
    omega
  generalize hR : remainingDuration pv now = R at hrem
  have r1 : R * ONE18 / pv.unlockingDuration ≤ U64_MAX * ONE18 :=
    Nat.le_trans (Nat.div_le_self _ _) (Nat.mul_le_mul_right _ hrem)
  have hmult : w * ONE18 / pv.amount ≤ 16 * ONE18 := by
    have : w * ONE18 / pv.amount ≤ 16 * pv.amount * ONE18 / pv.amount :=
      Nat.div_le_div_right (Nat.mul_le_mul_right _ hw16)
    rw [Nat.mul_comm 16, Nat.mul_assoc, Nat.mul_div_cancel_left _ (Nat.pos_of_ne_zero hamt)] at this
    exact this
  have r2 : base * (R * ONE18 / pv.unlockingDuration) / ONE18 ≤ R * ONE18 / pv.unlockingDuration := by
    rw [Nat.mul_comm]
    exact mul_div_le_of_le hbase
  have r3 : base * (R * ONE18 / pv.unlockingDuration) / ONE18 * (w * ONE18 / pv.amount) / ONE18 ≤
      U64_MAX * ONE18 * 16 := by
    have : base * (R * ONE18 / pv.unlockingDuration) / ONE18 * (w * ONE18 / pv.amount) / ONE18 ≤
        base * (R * ONE18 / pv.unlockingDuration) / ONE18 * (16 * ONE18) / ONE18 :=
      Nat.div_le_div_right (Nat.mul_le_mul_left _ hmult)
    rw [← Nat.mul_assoc, Nat.mul_div_cancel _ ONE18_pos] at this
    exact Nat.le_trans this (Nat.mul_le_mul_right _ (Nat.le_trans r2 r1))
  unfold calculateEmergencyPenalty
  rw [if_neg hunl, hR]
  refine ex_bind (orPanic_ok.2 (decFromRatio_ok.2 ⟨hunl, Nat.le_trans r1 (by decide), rfl⟩)) ?_
  refine ex_bind hw ?_
  refine ex_bind (decDiv_ok.2 ⟨hamt, Nat.le_trans hmult (by decide), rfl⟩) ?_
  refine ex_bind (decMul_ok.2 ⟨Nat.le_trans r2 (Nat.le_trans r1 (by decide)), rfl⟩) ?_
  refine ex_bind (decMul_ok.2 ⟨Nat.le_trans r3 (by decide), rfl⟩) ?_
  exact ⟨_, rfl⟩

/-- the penalty split of a small position is computable for every rate up to the cap -/
theorem penaltySplit_ex {amount r n : Nat} (hamt : amount ≠ 0) (ha : amount * ONE18 ≤ U128_MAX)
    (hr : r ≤ C.MAX_PENALTY_CAP) : ∃ sp, penaltySplit amount r n = .ok sp := by
  have hrE : r ≤ ONE18 := Nat.le_trans hr (by decide)
  have e1 : amount * ONE18 * r / ONE18 = amount * r := mul_mul_div_cancel _ _ _ ONE18_pos
  have h1 : amount * ONE18 * r / ONE18 ≤ U128_MAX := by
    rw [e1]; exact Nat.le_trans (Nat.mul_le_mul_left _ hrE) ha
  have htot : decFloor (amount * ONE18 * r / ONE18) = amount * r / ONE18 := by
    unfold decFloor; rw [e1]
  have hlt : amount * r / ONE18 < amount := by
    have h1 : amount * r / ONE18 ≤ amount * C.MAX_PENALTY_CAP / ONE18 :=
      Nat.div_le_div_right (Nat.mul_le_mul_left _ hr)
    have h2 : amount * C.MAX_PENALTY_CAP / ONE18 * 10 ≤ amount * 9 := by
      have : amount * C.MAX_PENALTY_CAP * 10 = amount * 9 * ONE18 := by
        rw [Nat.mul_assoc, C09.cap_is_90pct, ← Nat.mul_assoc]
      calc amount * C.MAX_PENALTY_CAP / ONE18 * 10
          ≤ amount * C.MAX_PENALTY_CAP * 10 / ONE18 := div_mul_le_mul_div _ _ _
        _ = amount * 9 := by rw [this, Nat.mul_div_cancel _ ONE18_pos]
    omega
  generalize hT : amount * r / ONE18 = T at *
  have h2 : T * ONE18 ≤ U128_MAX := Nat.le_trans (Nat.mul_le_mul_right _ (Nat.le_of_lt hlt)) ha
  have e3 : T * ONE18 * C.PENALTY_FEE_SHARE / ONE18 = T * C.PENALTY_FEE_SHARE := mul_mul_div_cancel _ _ _ ONE18_pos
  have h3 : T * ONE18 * C.PENALTY_FEE_SHARE / ONE18 ≤ U128_MAX := by
    rw [e3]
    exact Nat.le_trans (Nat.mul_le_mul_left _ (by decide : C.PENALTY_FEE_SHARE ≤ ONE18)) h2
  have hoc : decFloor (T * ONE18 * C.PENALTY_FEE_SHARE / ONE18) ≤ T := by
    unfold decFloor; rw [e3]; exact mul_div_le_of_le (by decide)
  unfold penaltySplit
  refine ex_bind (fit_ok.2 ⟨ha, rfl⟩) ?_
  refine ex_bind (decMul_ok.2 ⟨h1, rfl⟩) ?_
  try dsimp only
  rw [htot, if_neg (Nat.not_le.2 hlt)]
  refine ex_bind (fit_ok.2 ⟨h2, rfl⟩) ?_
  refine ex_bind (decMul_ok.2 ⟨h3, rfl⟩) ?_
  try dsimp only
  generalize decFloor (T * ONE18 * C.PENALTY_FEE_SHARE / ONE18) = oc at hoc
  by_cases hn : n = 0
  · rw [if_pos hn]; exact ⟨_, rfl⟩
  · rw [if_neg hn]
    have h4 : oc * ONE18 / n ≤ U128_MAX :=
      Nat.le_trans (Nat.div_le_self _ _) (Nat.le_trans (Nat.mul_le_mul_right _ hoc) h2)
    refine ex_bind (orPanic_ok.2 (decFromRatio_ok.2 ⟨hn, h4, rfl⟩)) ?_
    try dsimp only
    split <;> exact ⟨_, rfl⟩

end MantraDex.Live
