/-
  Runtime / bank lemmas used to lift C01 through the message-execution semantics of
  `Model/System.lean` (`Properties/C01Sys.lean`): effects of the bank operations on one account's
  balance, the frame lemma for every execution in which the pool manager is neither the sender nor
  the callee (mutual induction on fuel), and the accounting lemma for the sub-messages the pool
  manager itself sends.
-/
import MantraDex.Proofs.PmSysLemmas

set_option linter.unusedSimpArgs false
set_option linter.unusedVariables false
set_option linter.tactic.unusedName false

namespace MantraDex.SysPm
open MantraDex C01

/-! ### bank -/

theorem tick_bal {b b' : Bank} (h : b.tick = .ok b') : b'.bal = b.bal := by
  unfold Bank.tick at h
  simp only at h
  split at h
  · cases h
  · cases h; rfl

theorem burnRaw_bal {b b' : Bank} {a : Addr} {cs : List Coin} (h : b.burnRaw a cs = .ok b') (d : Denom) :
    b'.bal a d + coinsOf cs d = b.bal a d ∧ ∀ a', a' ≠ a → b'.bal a' d = b.bal a' d := by
  unfold Bank.burnRaw at h
  obtain ⟨cs1, hn1, h⟩ := bind_ok.mp h
  have := normalizeCoins_ok hn1; subst this
  have := subFold_bal _ h d
  rw [coinsOf_filter_nonzero] at this
  exact this

theorem mintRaw_bal {b b' : Bank} {a : Addr} {cs : List Coin} (h : b.mintRaw a cs = .ok b') (d : Denom) :
    b'.bal a d = b.bal a d + coinsOf cs d ∧ ∀ a', a' ≠ a → b'.bal a' d = b.bal a' d := by
  unfold Bank.mintRaw at h
  obtain ⟨cs1, hn1, h⟩ := bind_ok.mp h
  have := normalizeCoins_ok hn1; subst this
  simp only [pure_ok] at h
  subst h
  have := addFold_bal (a := a) (cs.filter (·.amount ≠ 0)) b d
  rw [coinsOf_filter_nonzero] at this
  exact this

theorem mintRaw_ge {b b' : Bank} {a x : Addr} {cs : List Coin} (h : b.mintRaw a cs = .ok b') (d : Denom) :
    b.bal x d ≤ b'.bal x d := by
  obtain ⟨h1, h2⟩ := mintRaw_bal h d
  by_cases hx : x = a
  · subst hx; omega
  · rw [h2 x hx]; exact Nat.le_refl _

/-- a send by somebody else never lowers `x`'s balance -/
theorem send_other {b b' : Bank} {frm to x : Addr} {cs : List Coin} (hne : frm ≠ x)
    (h : b.send frm to cs = .ok b') (d : Denom) : b.bal x d ≤ b'.bal x d := by
  unfold Bank.send at h
  obtain ⟨b1, h1, h⟩ := bind_ok.mp h
  obtain ⟨b2, h2, h⟩ := bind_ok.mp h
  have e1 := tick_bal h1
  have e2 := (burnRaw_bal h2 d).2 x (fun e => hne e.symm)
  have e3 := mintRaw_ge (x := x) h d
  rw [e1] at e2
  omega

/-- a send to `x` by somebody else credits exactly the coins -/
theorem send_to {b b' : Bank} {frm x : Addr} {cs : List Coin} (hne : frm ≠ x)
    (h : b.send frm x cs = .ok b') (d : Denom) : b'.bal x d = b.bal x d + coinsOf cs d := by
  unfold Bank.send at h
  obtain ⟨b1, h1, h⟩ := bind_ok.mp h
  obtain ⟨b2, h2, h⟩ := bind_ok.mp h
  have e1 := tick_bal h1
  have e2 := (burnRaw_bal h2 d).2 x (fun e => hne e.symm)
  have e3 := (mintRaw_bal h d).1
  rw [e1] at e2
  omega

/-- a send by `x` removes at most the coins from `x`'s balance (nothing if `x` pays itself) -/
theorem send_from {b b' : Bank} {to x : Addr} {cs : List Coin}
    (h : b.send x to cs = .ok b') (d : Denom) : b.bal x d ≤ b'.bal x d + coinsOf cs d := by
  unfold Bank.send at h
  obtain ⟨b1, h1, h⟩ := bind_ok.mp h
  obtain ⟨b2, h2, h⟩ := bind_ok.mp h
  have e1 := tick_bal h1
  have e2 := (burnRaw_bal h2 d).1
  have e3 := mintRaw_ge (x := x) h d
  rw [e1] at e2
  omega

theorem burn_other {b b' : Bank} {frm x : Addr} {cs : List Coin} (hne : frm ≠ x)
    (h : b.burn frm cs = .ok b') (d : Denom) : b'.bal x d = b.bal x d := by
  unfold Bank.burn at h
  obtain ⟨b1, h1, h⟩ := bind_ok.mp h
  have e1 := tick_bal h1
  have e2 := (burnRaw_bal h d).2 x (fun e => hne e.symm)
  rw [e1] at e2
  exact e2

theorem burn_from {b b' : Bank} {x : Addr} {cs : List Coin}
    (h : b.burn x cs = .ok b') (d : Denom) : b'.bal x d + coinsOf cs d = b.bal x d := by
  unfold Bank.burn at h
  obtain ⟨b1, h1, h⟩ := bind_ok.mp h
  have e1 := tick_bal h1
  have e2 := (burnRaw_bal h d).1
  rw [e1] at e2
  exact e2

theorem mint_ge {b b' : Bank} {to x : Addr} {cs : List Coin}
    (h : b.mint to cs = .ok b') (d : Denom) : b.bal x d ≤ b'.bal x d := by
  unfold Bank.mint at h
  obtain ⟨b1, h1, h⟩ := bind_ok.mp h
  have e1 := tick_bal h1
  have e3 := mintRaw_ge (x := x) h d
  rw [e1] at e3
  exact e3

/-! ### executions that do not involve the pool manager -/

/-- the pool manager's state and the fee table are untouched, its balances did not go down -/
structure Frame (w w' : World) : Prop where
  pm : w'.pm = w.pm
  tf : w'.tfFees = w.tfFees
  bal : ∀ d, w.bank.bal PM d ≤ w'.bank.bal PM d

theorem Frame.refl (w : World) : Frame w w := ⟨rfl, rfl, fun _ => Nat.le_refl _⟩

theorem Frame.trans {a b c : World} (h1 : Frame a b) (h2 : Frame b c) : Frame a c :=
  ⟨h2.pm.trans h1.pm, h2.tf.trans h1.tf, fun d => Nat.le_trans (h1.bal d) (h2.bal d)⟩

theorem fm_ne_pm : FM ≠ PM := by decide
theorem em_ne_pm : EM ≠ PM := by decide
theorem fc_ne_pm : FC ≠ PM := by decide

theorem callReply_other {w w'' : World} {c : Addr} {id : Nat} {resp : Response} (hc : c ≠ PM)
    (h : callReply w c id = .ok (w'', resp)) :
    w''.pm = w.pm ∧ w''.bank = w.bank ∧ w''.tfFees = w.tfFees ∧ resp.msgs = [] := by
  unfold callReply at h
  have hc' : (c == PM) = false := by simpa using hc
  simp only [hc', Bool.false_eq_true, if_false] at h
  split at h
  · obtain ⟨⟨s, r⟩, hr, h⟩ := bind_ok.mp h
    simp only [pure_ok, Prod.mk.injEq] at h
    obtain ⟨rfl, rfl⟩ := h
    exact ⟨rfl, rfl, rfl, (C20.fm_reply_no_effect hr).2⟩
  · cases h

theorem callExecute_other {w w2 : World} {c sender : Addr} {funds : List Coin} {msg : ContractMsg}
    {resp : Response} (hm : ∀ pm, msg ≠ .pm pm)
    (h : callExecute w c sender funds msg = .ok (w2, resp)) :
    c ≠ PM ∧ w2.pm = w.pm ∧ w2.bank = w.bank ∧ w2.tfFees = w.tfFees ∧ ∀ sm ∈ resp.msgs, NoPm sm.msg := by
  cases msg with
  | pm m => exact absurd rfl (hm m)
  | fm m =>
    simp only [callExecute] at h
    split at h
    · cases h
    · rename_i hc
      have hc : c = FM := by simpa using hc
      obtain ⟨⟨s, r⟩, hr, h⟩ := bind_ok.mp h
      simp only [pure_ok, Prod.mk.injEq] at h
      obtain ⟨rfl, rfl⟩ := h
      exact ⟨hc ▸ fm_ne_pm, rfl, rfl, rfl, fmExecute_noPm hr⟩
  | em m =>
    simp only [callExecute] at h
    split at h
    · cases h
    · rename_i hc
      have hc : c = EM := by simpa using hc
      obtain ⟨s, hr, h⟩ := bind_ok.mp h
      simp only [pure_ok, Prod.mk.injEq] at h
      obtain ⟨rfl, rfl⟩ := h
      exact ⟨hc ▸ em_ne_pm, rfl, rfl, rfl, by intro sm hsm; cases hsm⟩
  | fc m =>
    cases m with
    | updateOwnership a =>
      simp only [callExecute] at h
      split at h
      · cases h
      · rename_i hc
        have hc : c = FC := by simpa using hc
        obtain ⟨_, _, h⟩ := bind_ok.mp h
        obtain ⟨o, hr, h⟩ := bind_ok.mp h
        simp only [pure_ok, Prod.mk.injEq] at h
        obtain ⟨rfl, rfl⟩ := h
        exact ⟨hc ▸ fc_ne_pm, rfl, rfl, rfl, by intro sm hsm; cases hsm⟩

theorem frame_bank {w : World} {b : Bank} (h : ∀ d, w.bank.bal PM d ≤ b.bal PM d) :
    Frame w { w with bank := b } := ⟨rfl, rfl, h⟩

/-- attaching funds to a call of another contract, sender ≠ PM -/
theorem fundsMove_other {w w1 : World} {sender c : Addr} {funds : List Coin} (hs : sender ≠ PM)
    (h : (if funds.isEmpty then pure w else do
        let b ← w.bank.send sender c funds
        pure { w with bank := b }) = (.ok w1 : R World)) : Frame w w1 := by
  split at h
  · simp only [pure_ok] at h; subst h; exact Frame.refl _
  · obtain ⟨b, hb, h⟩ := bind_ok.mp h
    simp only [pure_ok] at h; subst h
    exact frame_bank (send_other hs hb)

/-- inversion of a successful contract call -/
theorem wasm_inv {n : Nat} {w w' : World} {sender c : Addr} {msg : ContractMsg} {funds : List Coin}
    (h : execMsg (n + 1) w sender (.wasmExec c msg funds) = .ok w') :
    ∃ w1 w2 resp, (if funds.isEmpty then pure w else do
        let b ← w.bank.send sender c funds
        pure { w with bank := b }) = (.ok w1 : R World) ∧
      callExecute w1 c sender funds msg = .ok (w2, resp) ∧ execSubs n w2 c resp.msgs = .ok w' := by
  rw [execMsg] at h
  split at h
  · cases h
  · dsimp only at h
    split at h
    · rename_i hf
      simp only [bind_ok, pure_ok] at h
      obtain ⟨w1, rfl, ⟨w2, resp⟩, hce, h⟩ := h
      exact ⟨_, w2, resp, by rw [if_pos hf]; rfl, hce, h⟩
    · rename_i hf
      simp only [bind_ok, pure_ok] at h
      obtain ⟨b, hb, w1, rfl, ⟨w2, resp⟩, hce, h⟩ := h
      refine ⟨_, w2, resp, ?_, hce, h⟩
      rw [if_neg hf, hb]; rfl

theorem other_exec (fuel : Nat) :
    (∀ w sender m w', sender ≠ PM → NoPm m → execMsg fuel w sender m = .ok w' → Frame w w') ∧
    (∀ w c subs w', c ≠ PM → (∀ sm ∈ subs, NoPm sm.msg) → execSubs fuel w c subs = .ok w' → Frame w w') := by
  induction fuel with
  | zero =>
    constructor
    · intro w sender m w' _ _ h; rw [execMsg] at h; cases h
    · intro w c subs w' _ _ h; rw [execSubs] at h; cases h
  | succ n ih =>
    obtain ⟨ihM, ihS⟩ := ih
    constructor
    · intro w sender m w' hs hm h
      cases m with
      | bankSend to coins =>
        rw [execMsg] at h
        obtain ⟨b, hb, h⟩ := bind_ok.mp h
        simp only [pure_ok] at h; subst h
        exact frame_bank (send_other hs hb)
      | bankBurn coins =>
        rw [execMsg] at h
        obtain ⟨b, hb, h⟩ := bind_ok.mp h
        simp only [pure_ok] at h; subst h
        exact frame_bank (fun d => Nat.le_of_eq (burn_other hs hb d).symm)
      | tfCreateDenom sd =>
        rw [execMsg] at h
        obtain ⟨b, hb, h⟩ := bind_ok.mp h
        simp only [pure_ok] at h; subst h
        exact frame_bank (fun d => Nat.le_of_eq (burn_other hs hb d).symm)
      | tfMint coin to =>
        rw [execMsg] at h
        obtain ⟨b, hb, h⟩ := bind_ok.mp h
        simp only [pure_ok] at h; subst h
        exact frame_bank (mint_ge hb)
      | tfBurn coin =>
        rw [execMsg] at h
        obtain ⟨b, hb, h⟩ := bind_ok.mp h
        simp only [pure_ok] at h; subst h
        exact frame_bank (fun d => Nat.le_of_eq (burn_other hs hb d).symm)
      | wasmExec c msg funds =>
        obtain ⟨w1, w2, resp, hw1, hce, h⟩ := wasm_inv h
        have hmsg : ∀ pm, msg ≠ .pm pm := by
          intro pm e; subst e; exact hm
        obtain ⟨hc, e1, e2, e3, hresp⟩ := callExecute_other hmsg hce
        have f1 := fundsMove_other hs hw1
        have f2 : Frame w1 w2 := ⟨e1, e3, fun d => by rw [e2]; exact Nat.le_refl _⟩
        exact (f1.trans f2).trans (ihS _ _ _ _ hc hresp h)
    · intro w c subs w' hc hsubs h
      cases subs with
      | nil => rw [execSubs] at h; cases h; exact Frame.refl _
      | cons sm rest =>
        have hsm : NoPm sm.msg := hsubs sm (List.mem_cons_self ..)
        have hrest : ∀ sm' ∈ rest, NoPm sm'.msg := fun sm' h' => hsubs sm' (List.mem_cons_of_mem _ h')
        rw [execSubs] at h
        split at h
        · rename_i w1 hw1
          have f1 := ihM _ _ _ _ hc hsm hw1
          split at h
          · obtain ⟨⟨w2, resp⟩, hcr, h⟩ := bind_ok.mp h
            obtain ⟨w3, h3, h⟩ := bind_ok.mp h
            obtain ⟨e1, e2, e3, hresp⟩ := callReply_other hc hcr
            have f2 : Frame w1 w2 := ⟨e1, e3, fun d => by rw [e2]; exact Nat.le_refl _⟩
            have f3 := ihS _ _ _ _ hc (by rw [hresp]; intro sm' h'; cases h') h3
            exact ((f1.trans f2).trans f3).trans (ihS _ _ _ _ hc hrest h)
          · exact f1.trans (ihS _ _ _ _ hc hrest h)
        · rename_i e he
          split at h
          · obtain ⟨⟨w2, resp⟩, hcr, h⟩ := bind_ok.mp h
            obtain ⟨w3, h3, h⟩ := bind_ok.mp h
            obtain ⟨e1, e2, e3, hresp⟩ := callReply_other hc hcr
            have f2 : Frame w w2 := ⟨e1, e3, fun d => by rw [e2]; exact Nat.le_refl _⟩
            have f3 := ihS _ _ _ _ hc (by rw [hresp]; intro sm' h'; cases h') h3
            exact (f2.trans f3).trans (ihS _ _ _ _ hc hrest h)
          · cases h

/-! ### the pool manager's own sub-messages -/

/-- `w'` differs from `w` by at most `cost` less of each denom on the pool manager's account -/
structure Paid (w w' : World) (cost : Denom → Nat) : Prop where
  pm : w'.pm = w.pm
  tf : w'.tfFees = w.tfFees
  bal : ∀ d, w.bank.bal PM d ≤ w'.bank.bal PM d + cost d

theorem paid_bank {w : World} {b : Bank} {cost : Denom → Nat}
    (h : ∀ d, w.bank.bal PM d ≤ b.bal PM d + cost d) : Paid w { w with bank := b } cost := ⟨rfl, rfl, h⟩

theorem Paid.frame {a b c : World} {cost : Denom → Nat} (h1 : Paid a b cost) (h2 : Frame b c) : Paid a c cost :=
  ⟨h2.pm.trans h1.pm, h2.tf.trans h1.tf, fun d => by have := h1.bal d; have := h2.bal d; omega⟩

theorem outflow_single (tf : List Coin) (sm : SubMsg) (d : Denom) :
    outflow PM tf [sm] d = (match sm.msg with
      | .bankSend _ cs => coinsOf cs d
      | .bankBurn cs => coinsOf cs d
      | .tfCreateDenom _ => coinsOf tf d
      | .tfBurn c => if c.denom == d then c.amount else 0
      | .wasmExec c _ funds => if c == PM then 0 else coinsOf funds d
      | .tfMint _ _ => 0) := by
  rcases sm with ⟨m, ro, i⟩
  cases m <;> simp [outflow]

/-- one message sent by the pool manager that is not a call of itself -/
theorem pm_msg {n : Nat} {w w' : World} {sm : SubMsg} (hm : NoPm sm.msg)
    (h : execMsg n w PM sm.msg = .ok w') : Paid w w' (outflow PM w.tfFees [sm]) := by
  cases n with
  | zero => rw [execMsg] at h; cases h
  | succ n =>
    have key : ∀ cost : Denom → Nat, (∀ d, cost d = outflow PM w.tfFees [sm] d) →
        Paid w w' cost → Paid w w' (outflow PM w.tfFees [sm]) := by
      intro cost hc hp
      exact ⟨hp.pm, hp.tf, fun d => by rw [← hc d]; exact hp.bal d⟩
    cases hmsg : sm.msg with
    | bankSend to coins =>
      rw [hmsg, execMsg] at h
      obtain ⟨b, hb, h⟩ := bind_ok.mp h
      simp only [pure_ok] at h; subst h
      apply key (fun d => coinsOf coins d) (fun d => by rw [outflow_single, hmsg])
      exact paid_bank (send_from hb)
    | bankBurn coins =>
      rw [hmsg, execMsg] at h
      obtain ⟨b, hb, h⟩ := bind_ok.mp h
      simp only [pure_ok] at h; subst h
      apply key (fun d => coinsOf coins d) (fun d => by rw [outflow_single, hmsg])
      exact paid_bank (fun d => Nat.le_of_eq (burn_from hb d).symm)
    | tfCreateDenom sd =>
      rw [hmsg, execMsg] at h
      obtain ⟨b, hb, h⟩ := bind_ok.mp h
      simp only [pure_ok] at h; subst h
      apply key (fun d => coinsOf w.tfFees d) (fun d => by rw [outflow_single, hmsg])
      exact paid_bank (fun d => Nat.le_of_eq (burn_from hb d).symm)
    | tfMint coin to =>
      rw [hmsg, execMsg] at h
      obtain ⟨b, hb, h⟩ := bind_ok.mp h
      simp only [pure_ok] at h; subst h
      apply key (fun d => 0) (fun d => by rw [outflow_single, hmsg])
      exact paid_bank (fun d => mint_ge hb d)
    | tfBurn coin =>
      rw [hmsg, execMsg] at h
      obtain ⟨b, hb, h⟩ := bind_ok.mp h
      simp only [pure_ok] at h; subst h
      apply key (fun d => coinsOf [coin] d) (fun d => by rw [outflow_single, hmsg, coinsOf_singleton]; rfl)
      exact paid_bank (fun d => Nat.le_of_eq (burn_from hb d).symm)
    | wasmExec c msg funds =>
      rw [hmsg] at h hm
      obtain ⟨w1, w2, resp, hw1, hce, h⟩ := wasm_inv h
      have hmsg' : ∀ pm, msg ≠ .pm pm := by
        intro pm e; subst e; exact hm
      obtain ⟨hc, e1, e2, e3, hresp⟩ := callExecute_other hmsg' hce
      have hc' : (c == PM) = false := by simpa using hc
      apply key (fun d => coinsOf funds d) (fun d => by rw [outflow_single, hmsg]; simp only [hc']; rfl)
      have p1 : Paid w w1 (fun d => coinsOf funds d) := by
        split at hw1
        · simp only [pure_ok] at hw1; subst hw1
          exact ⟨rfl, rfl, fun d => Nat.le_add_right _ _⟩
        · obtain ⟨b, hb, hw1⟩ := bind_ok.mp hw1
          simp only [pure_ok] at hw1; subst hw1
          exact paid_bank (send_from hb)
      have f2 : Frame w1 w2 := ⟨e1, e3, fun d => by rw [e2]; exact Nat.le_refl _⟩
      exact (p1.frame f2).frame ((other_exec n).2 _ _ _ _ hc hresp h)

/-- the sub-messages of a pool-manager response (all reply-`never`, none a self-call): the state of the
    pool manager is untouched and its balances drop by at most the response's `outflow` -/
theorem pm_subs (msgs : List SubMsg) : ∀ (n : Nat) (w w' : World), (∀ sm ∈ msgs, SubOk sm) →
    execSubs n w PM msgs = .ok w' → Paid w w' (outflow PM w.tfFees msgs) := by
  induction msgs with
  | nil =>
    intro n w w' _ h
    cases n with
    | zero => rw [execSubs] at h; cases h
    | succ n =>
      rw [execSubs] at h; cases h
      exact ⟨rfl, rfl, fun d => Nat.le_add_right _ _⟩
  | cons sm rest ih =>
    intro n w w' hall h
    cases n with
    | zero => rw [execSubs] at h; cases h
    | succ n =>
      obtain ⟨hro, hnp⟩ := hall sm (List.mem_cons_self ..)
      rw [execSubs] at h
      split at h
      · rename_i w1 hw1
        simp only [hro, ReplyOn.onSuccess, Bool.false_eq_true, if_false] at h
        have p1 := pm_msg hnp hw1
        have p2 := ih n w1 w' (fun sm' h' => hall sm' (List.mem_cons_of_mem _ h')) h
        refine ⟨p2.pm.trans p1.pm, p2.tf.trans p1.tf, fun d => ?_⟩
        have h1 := p1.bal d
        have h2 := p2.bal d
        rw [p1.tf] at h2
        rw [outflow_cons]
        omega
      · simp only [hro, ReplyOn.onError, Bool.false_eq_true, if_false] at h
        cases h

end MantraDex.SysPm
