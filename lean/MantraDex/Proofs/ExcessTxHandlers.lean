/-
  C01Exact, handler level: for a denom `d` that is NOT a token-factory denom, one `execute` of the pool manager (not a
  single-asset deposit) satisfies the conservation law as an EQUALITY in terms of the message weights of `LpSysRun`,

      reserves' d + out d = reserves d + funds d,

  and sends nothing of `d` to the pool manager itself (`in d = 0`) as soon as the caller, the receiver named by a
  swap / route and the fee collector are not the pool manager.
-/
import MantraDex.Model.System
import MantraDex.Proofs.NumLemmas
import MantraDex.Proofs.AllSysHandlers
import MantraDex.Proofs.PmSysLemmas

set_option linter.unusedSimpArgs false
set_option linter.unusedVariables false
set_option linter.tactic.unusedName false

namespace MantraDex.ExcessTx
open MantraDex MantraDex.LpSys
open MantraDex.C01 (coinsOf amt coinsOf_cons coinsOf_nil coinsOf_singleton reserves outflow)
open MantraDex.AllSys (outflow_eq_total swap_isLeaf route_isLeaf create_isLeaf provide_nums)

/-! ### messages that bring nothing of `d` to the pool manager -/

theorem inW_send_ne {d : Denom} {to : Addr} {cs : List Coin} (h : to ≠ PM) : inW d (.bankSend to cs) = 0 := by
  simp only [inW, h, if_false]

theorem inW_opt_zero {d : Denom} {c : Prop} [Decidable c] {m : Msg} (h : inW d m = 0) :
    ∀ m' ∈ (if c then [m] else []), inW d m' = 0 := by
  intro m' hm
  split at hm
  · simp only [List.mem_singleton] at hm; subst hm; exact h
  · cases hm

theorem inW_append_zero {d : Denom} {xs ys : List Msg} (hx : ∀ m ∈ xs, inW d m = 0) (hy : ∀ m ∈ ys, inW d m = 0) :
    ∀ m ∈ xs ++ ys, inW d m = 0 := by
  intro m h
  rcases List.mem_append.1 h with h | h
  · exact hx m h
  · exact hy m h

/-- the receiver of the proceeds named by the message resolves to somebody else than the pool manager -/
def RecvOk (env : PmEnv) (sender : Addr) : PmMsg → Prop
  | .swap _ _ _ rc _ => addrOrDefault env rc sender ≠ PM
  | .execSwapOps _ _ rc _ => addrOrDefault env rc sender ≠ PM
  | _ => True

theorem addrOrDefault_ne {env : PmEnv} {rc : Option Addr} {sender : Addr} (hs : sender ≠ PM) (hrc : rc ≠ some PM) :
    addrOrDefault env rc sender ≠ PM := by
  unfold addrOrDefault
  cases rc with
  | none => exact hs
  | some a =>
    simp only
    split
    · intro e; exact hrc (by rw [e])
    · exact hs

/-! ### the exact law, handler by handler -/

/-- withdrawal: the law is an equality for every denom -/
theorem withdraw_exact {d : Denom} {s s' : PmState} {env : PmEnv} {sender : Addr} {funds : List Coin}
    {pid : String} {r : Response} (hwf : C01.WF s)
    (h : withdrawLiquidity s env sender funds pid = .ok (s', r)) :
    reserves s' d + total (outW env.tfFees d) r.msgs = reserves s d + coinsOf funds d ∧
    (sender ≠ PM → total (inW d) r.msgs = 0) := by
  obtain ⟨pool, amount, refunds, assets', hp, hf, hfold, hs', hmsgs⟩ := withdraw_ok h
  have h0 := C01.reserves_savePool (p' := { pool with assets := assets' }) hwf.1 hp rfl d
  have h1 := C01.withdrawFold_coins hfold d
  rw [← hs'] at h0
  have e : coinsOf ({ pool with assets := assets' } : PoolInfo).assets d = coinsOf assets' d := rfl
  constructor
  · rw [hmsgs, hf]
    simp only [total_mk_cons, total_mk_nil, outW, coinsOf_singleton, Nat.add_zero]
    omega
  · intro hs
    rw [hmsgs]
    apply total_zero_of
    intro m hm
    simp only [List.mem_cons, List.mem_singleton, List.not_mem_nil, or_false] at hm
    rcases hm with rfl | rfl
    · exact inW_send_ne hs
    · rfl

/-- multi-asset deposit, for a denom that is not a token-factory denom: no assumption on sender or receiver -/
theorem provide_exact {d : Denom} {s s' : PmState} {env : PmEnv} {sender : Addr} {funds : List Coin}
    {ls ss : Option Nat} {rc : Option Addr} {pid : String} {u : Option Nat} {l : Option String} {r : Response}
    (hd : isFactoryToken d = false) (hself : env.self = PM) (hwf : C01.WF s)
    (hfunds : (funds.map (·.denom)).Nodup) (hns : 2 ≤ funds.length)
    (h : provideLiquidity s env sender funds ls ss rc pid u l = .ok (s', r)) :
    reserves s' d + total (outW env.tfFees d) r.msgs = reserves s d + coinsOf funds d ∧
    total (inW d) r.msgs = 0 := by
  obtain ⟨pool, deps, assets', hp, hagg, hfold, hs', hcase⟩ := provide_nums (d := d) hself hfunds hns h
  have hlen : deps.length ≠ 1 := by rw [aggregateCoins_length hfunds hagg]; omega
  have hfac := SysPm.provide_multi_factory hp hagg hlen h
  have h0 := C01.reserves_savePool (p' := { pool with assets := assets' }) hwf.1 hp rfl d
  have h1 := C01.depositFold_coins hfold d
  have h2 := C01.aggregateCoins_coins hagg d
  rw [← hs'] at h0
  have hR : reserves s' d = reserves s d + coinsOf funds d := by
    have : coinsOf ({ pool with assets := assets' } : PoolInfo).assets d = coinsOf assets' d := rfl
    omega
  rcases hcase with ⟨hne, n⟩ | ⟨hd', -⟩
  · exact ⟨by rw [n.o]; omega, n.i⟩
  · rw [hd', hd] at hfac
    cases hfac

/-- swap: the law, and what arrives on the pool manager's own account -/
theorem swap_exact {d : Denom} {s s' : PmState} {env : PmEnv} {sender : Addr} {funds : List Coin}
    {ask : Denom} {b ms : Option Nat} {rc : Option Addr} {pid : String} {r : Response}
    (hwf : C01.WF s) (h : swapHandler s env sender funds ask b ms rc pid = .ok (s', r)) :
    reserves s' d + total (outW env.tfFees d) r.msgs = reserves s d + coinsOf funds d ∧
    (s.config.feeCollector ≠ PM →
      (addrOrDefault env rc sender ≠ PM → total (inW d) r.msgs = 0) ∧
      (addrOrDefault env rc sender = PM →
        ∃ offer sr, funds = [offer] ∧ performSwap s offer ask pid b ms = .ok (s', sr) ∧
          total (inW d) r.msgs = amt sr.ret d)) := by
  have hcons := C01.swap_conserves hwf h d
  rw [outflow_eq_total (swap_isLeaf h)] at hcons
  refine ⟨hcons, fun hfc => ?_⟩
  obtain ⟨offer, sr, hoff, hps, hmsgs⟩ := C04.swapHandler_messages h
  have h3 : total (inW d) ((if sr.protocolFee.amount ≠ 0 then
      [Msg.bankSend s.config.feeCollector [sr.protocolFee]] else []).map (fun m => ({ msg := m } : SubMsg))) = 0 :=
    total_zero_of (inW_opt_zero (inW_send_ne hfc))
  have h2 : total (inW d) ((if sr.burnFee.amount ≠ 0 then [Msg.bankBurn [sr.burnFee]] else []).map
      (fun m => ({ msg := m } : SubMsg))) = 0 :=
    total_zero_of (inW_opt_zero rfl)
  constructor
  · intro hrc
    rw [hmsgs, total_mk_append, total_mk_append, h2, h3,
      total_zero_of (inW_opt_zero (inW_send_ne hrc))]
  · intro hrc
    refine ⟨offer, sr, hoff, hps, ?_⟩
    rw [hmsgs, total_mk_append, total_mk_append, h2, h3, total_opt, hrc]
    by_cases hz : sr.ret.amount = 0
    · have : amt sr.ret d = 0 := by simp [amt, hz]
      simp [hz, this]
    · simp only [ne_eq, hz, not_false_eq_true, if_true, inW, coinsOf_singleton, Nat.add_zero]

theorem route_in_zero {d : Denom} {s s' : PmState} {env : PmEnv} {sender : Addr} {funds : List Coin}
    {ops : List SwapOp} {mr : Option Nat} {rc : Option Addr} {ms : Option Nat} {r : Response}
    (hfc : s.config.feeCollector ≠ PM) (hrc : addrOrDefault env rc sender ≠ PM)
    (h : execSwapOps s env sender funds ops mr rc ms = .ok (s', r)) : total (inW d) r.msgs = 0 := by
  obtain ⟨first, last, amount, out, fm, -, -, -, hroute, hmsgs⟩ := execSwapOps_ok h
  rw [hmsgs]
  apply total_zero_of
  apply inW_append_zero (inW_opt_zero (inW_send_ne hrc))
  intro m hm
  have := (C04.routeHops_fee_msgs (by intro m hm; cases hm) trivial hroute).2 m hm
  rcases this with ⟨cs, rfl⟩ | ⟨cs, rfl⟩
  · rfl
  · exact inW_send_ne hfc

theorem create_in_zero {d : Denom} {s s' : PmState} {env : PmEnv} {funds : List Coin} {denoms : List Denom}
    {decimals : List Nat} {fees : PoolFee} {pt : PoolType} {id : Option String} {r : Response}
    (hfc : s.config.feeCollector ≠ PM)
    (h : createPool s env funds denoms decimals fees pt id = .ok (s', r)) : total (inW d) r.msgs = 0 := by
  obtain ⟨counter, pool, lpSym, totalFees, -, -, -, -, -, hmsgs⟩ := createPool_ok h
  rw [hmsgs]
  apply total_zero_of
  apply inW_append_zero (inW_opt_zero (inW_send_ne hfc))
  intro m hm
  simp only [List.mem_singleton] at hm
  subst hm; rfl

/-- the exact law for every handler but the single-asset deposit, for a denom that is not a token-factory denom -/
theorem handler_exact {s s' : PmState} {env : PmEnv} {sender : Addr} {funds : List Coin} {m : PmMsg}
    {r : Response} {d : Denom} (hd : isFactoryToken d = false) (henv : env.self = PM) (hwf : C01.WF s)
    (htf : (env.tfFees.map (·.denom)).Nodup) (hsm : ∀ f ∈ env.tfFees, f.amount ≤ U128_MAX / 2)
    (hfee : s.config.creationFee.amount ≤ U128_MAX / 2) (hfunds : (funds.map (·.denom)).Nodup)
    (hns : SysPm.NotSingle m funds) (h : pmExecute s env sender funds m = .ok (s', r)) :
    reserves s' d + total (outW env.tfFees d) r.msgs = reserves s d + coinsOf funds d ∧
    (sender ≠ PM → s.config.feeCollector ≠ PM → RecvOk env sender m → total (inW d) r.msgs = 0) := by
  cases m with
  | createPool denoms decimals fees pt id =>
    simp only [pmExecute] at h
    obtain ⟨hres, hcons⟩ := C01.create_pool_conserves_partial hwf htf hfunds
      (fun f hf _ => SysPm.half_add_half (hsm f hf) hfee) h d
    rw [outflow_eq_total (create_isLeaf h)] at hcons
    exact ⟨by omega, fun _ hfc _ => create_in_zero hfc h⟩
  | provideLiquidity ls ss rc pid u l =>
    simp only [pmExecute] at h
    obtain ⟨h1, h2⟩ := provide_exact hd henv hwf hfunds hns h
    exact ⟨h1, fun _ _ _ => h2⟩
  | swap ask b ms rc pid =>
    simp only [pmExecute] at h
    obtain ⟨h1, h2⟩ := swap_exact (d := d) hwf h
    exact ⟨h1, fun _ hfc hrc => (h2 hfc).1 hrc⟩
  | withdrawLiquidity pid =>
    simp only [pmExecute] at h
    obtain ⟨h1, h2⟩ := withdraw_exact (d := d) hwf h
    exact ⟨h1, fun hs _ _ => h2 hs⟩
  | execSwapOps ops mr rc ms =>
    simp only [pmExecute] at h
    have hcons := C01.route_conserves hwf h d
    rw [outflow_eq_total (route_isLeaf h)] at hcons
    exact ⟨hcons, fun _ hfc hrc => route_in_zero hfc hrc h⟩
  | updateConfig fc fm cf t =>
    obtain ⟨hf, hr, hres⟩ := C01.config_conserves_partial hwf.1 (Or.inl ⟨fc, fm, cf, t, rfl⟩) h
    rw [hr, hf, hres d]
    exact ⟨rfl, fun _ _ _ => rfl⟩
  | updateOwnership a =>
    obtain ⟨hf, hr, hres⟩ := C01.config_conserves_partial hwf.1 (Or.inr ⟨a, rfl⟩) h
    rw [hr, hf, hres d]
    exact ⟨rfl, fun _ _ _ => rfl⟩

end MantraDex.ExcessTx
