/-
  C07Sys, part 11: a pending entry of `u` survives a change of state that leaves `u`'s histories and cursor
  alone, freezes the total's past, keeps the paying farm (same start, rate, LP token, end not earlier) and lets
  time only move forward — provided the recomputation does not overflow (`owed_transport`).
-/
import MantraDex.Proofs.LedSys2Ex
import MantraDex.Proofs.LedSys2Term
import MantraDex.Proofs.LedSys2Same

set_option linter.unusedSimpArgs false
set_option linter.unusedVariables false

namespace MantraDex.LedSys
open MantraDex MantraDex.C06Sys MantraDex.WSys

theorem startFrom_congr {s s' : FmState} {u : Addr} {f g : Farm} {sf : Nat} (hlp : g.lpDenom = f.lpDenom)
    (hs : SameU u s s') (h : StartFrom s u f (s.lastClaimed u) sf) : StartFrom s' u g (s'.lastClaimed u) sf := by
  unfold StartFrom at h ⊢
  rw [hs.2, hlp, hs.1]
  exact h

theorem weightAt_nonempty {h : List (Nat × Nat)} {e : Nat} (hne : Spec.weightAt h e ≠ 0) : h ≠ [] := by
  intro e'; subst e'; exact hne rfl

theorem lpTerms_mem_ok {s : FmState} {env : FmEnv} {lp : Denom} {u : Addr} {untilE : Nat}
    {t : String × Nat × Nat} (ht : t ∈ lpTerms s env lp u untilE) :
    ∃ rc, calculateRewards s env lp u untilE = .ok rc ∧ t ∈ rc.terms := by
  unfold lpTerms at ht
  cases h : calculateRewards s env lp u untilE with
  | error e => rw [h] at ht; cases ht
  | ok rc => rw [h] at ht; exact ⟨rc, rfl, ht⟩

theorem owed_transport {D : Prop} {s s' : FmState} {env env' : FmEnv} {L L' : List Entry}
    (hi : FInv s env) (hl : LInv D s env L) (hfl : FL s L)
    (hi' : FInv s' env') (hl' : LInv D s' env' L') (hfl' : FL s' L')
    (hself : env'.self = env.self) {cur cur' : Nat}
    (hcur : fmCurrentEpoch s env = .ok cur) (hcur' : fmCurrentEpoch s' env' = .ok cur') (hle : cur ≤ cur')
    {u : Addr} (hu : u ≠ env.self) (hsame : SameU u s s')
    (htot : ∀ lp e, e ≤ cur → Spec.weightAt (s'.hist env.self lp) e = Spec.weightAt (s.hist env.self lp) e)
    (hlimit : ∀ lp, ∀ g ∈ s'.farms, g.lpDenom = lp → g ∈ s'.farmsByLp lp s'.config.maxConcurrentFarms)
    {x : Entry} (hx : x ∈ claimEntries s env u none) (hnz : x.reward ≠ 0)
    {f f' : Farm} (hf : f ∈ s.farms) (hf' : f' ∈ s'.farms) (hid : f.id = x.farm) (hid' : f'.id = x.farm)
    (hstart : f'.startEpoch = f.startEpoch) (hrate : f'.emissionRate = f.emissionRate)
    (hlp : f'.lpDenom = f.lpDenom) (hend : f.startEpoch ≤ cur → f.endEpoch ≤ f'.endEpoch)
    (hov : calculateRewards s' env' x.lp u cur' ≠ .error .overflow) :
    ∃ x' ∈ claimEntries s' env' u none,
      x'.lp = x.lp ∧ x'.farm = x.farm ∧ x'.epoch = x.epoch ∧ x'.uw = x.uw ∧ x'.total = x.total ∧
      x'.reward = x.reward := by
  have hn := hfl.nodup
  -- the entry in the pre-state
  rw [claimEntries_eq hcur (show untilEpochOrCurrent none cur = .ok cur from rfl)] at hx
  obtain ⟨lp, hlps, hx⟩ := List.mem_flatMap.1 hx
  rw [lpEntries_eq] at hx
  obtain ⟨t, ht, rfl⟩ := List.mem_map.1 hx
  obtain ⟨rc, hrc, htrc⟩ := lpTerms_mem_ok ht
  have hsu := hi.hist.sorted u lp
  have hst := hi.hist.sorted env.self lp
  have hcomp : ∀ l, s.lastClaimed u = some l → ∀ y ∈ s.hist u lp, l ≤ y.1 :=
    fun l hl' y hy => hl.cursorSnap u l hl' lp y hy
  have ok := lpTerms_ok hsu hst hcomp t ht
  obtain ⟨f0, hf0, hid0, hlp0, c1, c2, c3⟩ := ok.farm
  have hff : f0 = f := FH.nodup_key_inj Farm.id s.farms hn f0 hf0 f hf (hid0.trans hid.symm)
  subst hff
  obtain ⟨f1, hf1, hid1, sf, hsf, hsf0, hsfe, hnecur⟩ := term_startFrom hrc t htrc
  have hff : f1 = f0 := FH.nodup_key_inj Farm.id s.farms hn f1 (farmsByLp_mem hf1).1 f0 hf0 (hid1.trans hid0.symm)
  subst hff
  have hT := ok.totalNe
  have hrw : (mkEntry s env lp u t).reward = t.2.2 := rfl
  have hW : Spec.weightAt (s.hist u lp) t.2.1 ≠ 0 := by
    intro h0
    apply hnz
    rw [hrw, c3, h0, Nat.mul_zero, Nat.zero_div]
  have he_cur : t.2.1 ≤ cur := ok.le
  -- the post-state: same weights for `u`, frozen total
  have hlp' : f'.lpDenom = lp := hlp.trans hlp0
  have hhu : s'.hist u lp = s.hist u lp := hsame.1 lp
  have hT' : Spec.weightAt (s'.hist env'.self lp) t.2.1 = Spec.weightAt (s.hist env.self lp) t.2.1 := by
    rw [hself]; exact htot lp _ he_cur
  have hu' : u ≠ env'.self := by rw [hself]; exact hu
  have hsu' := hi'.hist.sorted u lp
  have hst' := hi'.hist.sorted env'.self lp
  have hcomp' : ∀ l, s'.lastClaimed u = some l → ∀ y ∈ s'.hist u lp, l ≤ y.1 :=
    fun l hl'' y hy => hl'.cursorSnap u l hl'' lp y hy
  have hsf' : StartFrom s' u f' (s'.lastClaimed u) sf := startFrom_congr hlp hsame hsf
  -- the recomputation does not fail
  have herr : ErrIn (fun e => e = .overflow) (calculateRewards s' env' lp u cur') := by
    refine errIn_calculateRewards rfl (Or.inr ?_) ?_
    · intro l hl''
      rw [hsame.2] at hl''
      obtain ⟨c, hc, hlc⟩ := hl.cursorLe u l hl''
      rw [hcur] at hc; cases hc
      omega
    · intro g hg acc
      obtain ⟨hgm, hglp⟩ := farmsByLp_mem hg
      refine errIn_crStep hglp hsu' hst' hcomp' rfl (Or.inr ?_) (Or.inr ⟨?_, ?_⟩) (Or.inr ?_) (Or.inr ?_)
      · intro _
        rw [hhu]; exact weightAt_nonempty hW
      · intro sf' hsf''
        have h1 : StartFrom s' u f' (s'.lastClaimed u) sf' :=
          startFrom_congr (s := s') (hglp.trans hlp'.symm).symm (SameU.refl u s') hsf''
        rw [startFrom_unique h1 hsf']
        exact hsf0
      · have := hfl'.lt g hgm
        omega
      · apply weightAt_nonempty (e := t.2.1)
        rw [hT']; exact hT
      · intro sf' hsf'' e h1 h2 h3 h4 _
        have := term_le_budget hl' hfl' hu' hcur' hgm hsf'' h1 h2 h3 h4
        rw [hglp] at this
        exact this
  have hx'ok : ∃ rc', calculateRewards s' env' lp u cur' = .ok rc' := by
    cases h : calculateRewards s' env' lp u cur' with
    | ok rc' => exact ⟨rc', rfl⟩
    | error e =>
      have := herr e h
      subst this
      exact absurd h hov
  obtain ⟨rc', hrc'⟩ := hx'ok
  -- … and contains the term
  have hmem := term_mem hsu' hst' hcomp' hrc' (by
      intro l hl'' e
      rw [hsame.2] at hl''
      obtain ⟨c, hc, hlc⟩ := hl.cursorLe u l hl''
      rw [hcur] at hc; cases hc
      exact hnecur l hl'' (by omega))
    (hlimit lp f' hf' hlp') hsf' hsfe (Nat.le_trans he_cur hle) (by rw [hstart]; exact c1)
    (Nat.lt_of_lt_of_le c2 (hend (Nat.le_trans c1 he_cur))) (by rw [hT']; exact hT)
  rw [hT', hhu, hrate, ← c3] at hmem
  -- the LP token is still one of `u`'s
  have hlps' : lp ∈ uniqueDenoms (s'.positionsBy u true) := by
    apply Classical.byContradiction
    intro hno
    have := hi'.noWeight u lp hu' (noOpen_of_not_mem_lps hi' hno)
    rw [hhu] at this
    exact weightAt_nonempty hW this
  refine ⟨mkEntry s' env' lp u (f'.id, t.2.1, t.2.2), ?_, rfl, ?_, rfl, ?_, ?_, rfl⟩
  · rw [claimEntries_eq hcur' (show untilEpochOrCurrent none cur' = .ok cur' from rfl)]
    refine List.mem_flatMap.2 ⟨lp, hlps', ?_⟩
    rw [lpEntries_eq, lpTerms_of_ok hrc']
    exact List.mem_map.2 ⟨_, hmem, rfl⟩
  · show f'.id = t.1
    rw [hid', ← hid]; exact hid0
  · show Spec.weightAt (s'.hist u lp) t.2.1 = Spec.weightAt (s.hist u lp) t.2.1
    rw [hhu]
  · exact hT'

end MantraDex.LedSys
