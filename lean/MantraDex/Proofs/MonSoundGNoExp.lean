/-
  MonSoundG: "an OPEN position has no expiry time" is an invariant of every reachable state.

  (`create_position` stores `expiring_at = None`; only `close_position` sets it, on records it also marks closed; an
  expansion and the remainder of a partial close keep the old value of an open record.)  The property is a field of
  `C10Eq.Exact` (`noExp`), proved there only along whole-position histories; here it is proved on its own for EVERY history
  of transactions, committed or rejected, with any injected fault — no hypothesis on the senders is needed.  Lifted through
  the runtime with the generic `WSys.lift_run`.
-/
import MantraDex.Model.System
import MantraDex.Proofs.WSysRun
import MantraDex.Proofs.PosTxLemmas
import MantraDex.Proofs.PosTxClose
import MantraDex.Proofs.MonSoundELemmas

set_option linter.unusedSimpArgs false
set_option linter.unusedVariables false

namespace MantraDex.MonSoundGL
open MantraDex

/-- an open position has no expiry time -/
def NoExpF (s : FmState) : Prop := ∀ p ∈ s.positions, p.open_ = true → p.expiringAt = none

def NoExp (w : World) : Prop := NoExpF w.fm

theorem noExpF_of_eq {s s' : FmState} (h : s'.positions = s.positions) (hi : NoExpF s) : NoExpF s' := by
  intro p hp; rw [h] at hp; exact hi p hp

theorem noExpF_save {s : FmState} {q : Position} (hi : NoExpF s) (hq : q.open_ = true → q.expiringAt = none) :
    NoExpF (s.savePosition q) := by
  intro p hp ho
  rcases MonSoundEL.mem_save hp with rfl | hp
  · exact hq ho
  · exact hi p hp ho

theorem noExpF_remove {s : FmState} (id : String) (hi : NoExpF s) : NoExpF (s.removePosition id) := by
  intro p hp ho
  exact hi p (List.mem_filter.1 hp).1 ho

theorem withdrawPosition_positions {s s' : FmState} {env : FmEnv} {sender : Addr} {funds : List Coin}
    {id2 : String} {em : Option Bool} {r : Response}
    (h : withdrawPosition s env sender funds id2 em = .ok (s', r)) :
    s'.positions = (s.removePosition id2).positions := by
  unfold withdrawPosition at h
  cases hg : s.getPosition id2 with
  | none => rw [hg] at h; simp [error_bind, bind_ok] at h
  | some p2 =>
    rw [hg] at h
    simp only [bind_ok, error_bind, pure_bind', ite_error_ok] at h
    obtain ⟨_, _, hauth, h⟩ := h
    have tail : ∀ (s1 s3 : FmState), SameStore s s1 → SameStore (s1.removePosition id2) s3 →
        s3.positions = (s.removePosition id2).positions := by
      intro s1 s3 hs1 hs3
      rw [hs3.1]
      show s1.positions.filter (·.id != id2) = s.positions.filter (·.id != id2)
      rw [hs1.1]
    split at h
    · simp only [bind_ok] at h
      obtain ⟨rate, _, cur, _, active, _, sp, _, h⟩ := h
      split at h
      · simp only [bind_ok, pure_ok, Prod.mk.injEq] at h
        obtain ⟨s1, h1, x, h3, rfl, rfl⟩ := h
        exact tail s1 _ (updateWeights_sameStore h1) (reconcileUserState_sameStore h3)
      · simp only [bind_ok, pure_ok, Prod.mk.injEq] at h
        obtain ⟨rfl, rfl⟩ := h
        exact tail s _ (SameStore.refl s) (SameStore.refl _)
    · simp only [ite_error_ok] at h
      obtain ⟨_, _, h⟩ := h
      split at h
      · simp only [bind_ok, pure_ok, Prod.mk.injEq] at h
        obtain ⟨x, h3, rfl, rfl⟩ := h
        exact tail s _ (SameStore.refl s) (reconcileUserState_sameStore h3)
      · simp only [bind_ok, pure_ok, Prod.mk.injEq] at h
        obtain ⟨rfl, rfl⟩ := h
        exact tail s _ (SameStore.refl s) (SameStore.refl _)

/-- every handler of the farm manager preserves the invariant -/
theorem fmExecute_noExp {s s' : FmState} {env : FmEnv} {sender : Addr} {funds : List Coin} {m : FmMsg}
    {r : Response} (hi : NoExpF s) (h : fmExecute s env sender funds m = .ok (s', r)) : NoExpF s' := by
  cases m with
  | createFarm p => exact noExpF_of_eq (createFarm_positions h) hi
  | expandFarm p => exact noExpF_of_eq (expandFarm_positions _ _ h) hi
  | closeFarm id => exact noExpF_of_eq (closeFarm_positions _ _ h) hi
  | claim u => exact noExpF_of_eq (fmClaim_positions h) hi
  | createPosition id u rc =>
    simp only [fmExecute] at h
    obtain ⟨lp, rcv, s1, _, _, _, _, hs1, hs, _⟩ := PosTx.createPosition_inv h
    refine noExpF_of_eq hs.1 (noExpF_save (noExpF_of_eq hs1 hi) (fun _ => rfl))
  | expandPosition id =>
    simp only [fmExecute] at h
    cases hg : s.getPosition id with
    | none =>
      unfold expandPosition at h
      rw [hg] at h
      simp [error_bind] at h
    | some p =>
      obtain ⟨c, _, _, hopen, _, hs, _⟩ := PosTx.expandPosition_inv hg h
      have hmem := (FH.getPosition_some hg).1
      exact noExpF_of_eq hs.1 (noExpF_save hi (fun _ => hi p hmem hopen))
  | closePosition id lp =>
    simp only [fmExecute] at h
    cases hg : s.getPosition id with
    | none =>
      unfold closePosition at h
      rw [hg] at h
      simp only [bind_ok, error_bind, pure_bind', ite_error_ok] at h
      obtain ⟨_, _, _, _, _, h⟩ := h
      cases h
    | some p =>
      obtain ⟨_, _, hopen, _, hout⟩ := PosTx.closePosition_inv hg h
      have hmem := (FH.getPosition_some hg).1
      rcases hout with ⟨s2, hs2, hs⟩ | ⟨c, s2, _, _, _, h12, h34⟩
      · exact noExpF_of_eq hs.1 (noExpF_save (noExpF_of_eq hs2.1 hi) (fun ho => by cases ho))
      · refine noExpF_of_eq h34.1 (noExpF_save (noExpF_of_eq h12.1 (noExpF_save ?_ (fun ho => by cases ho)))
          (fun _ => hi p hmem hopen))
        exact noExpF_of_eq (s := s) rfl hi
  | withdrawPosition id e =>
    simp only [fmExecute] at h
    exact noExpF_of_eq (withdrawPosition_positions h) (noExpF_remove id hi)
  | updateConfig u =>
    simp only [fmExecute, bind_ok] at h
    obtain ⟨_, _, h⟩ := h
    exact noExpF_of_eq (fmUpdateConfig_positions _ _ h) hi
  | updateOwnership a =>
    simp only [fmExecute, bind_ok, pure_ok, Prod.mk.injEq] at h
    obtain ⟨_, _, o, _, rfl, _⟩ := h
    exact hi

/-- the runtime lift: no condition on messages is needed -/
theorem noExp_lift : WSys.Lift NoExp (fun _ _ => True) := by
  refine ⟨fun w b h => h, ?_, ?_⟩
  · intro w w2 c sender funds msg resp hI _ hce
    refine ⟨?_, fun _ _ => trivial⟩
    cases msg with
    | pm m =>
      simp only [callExecute] at hce
      split at hce
      · cases hce
      · obtain ⟨⟨s, r⟩, hr, hce⟩ := bind_ok.mp hce
        simp only [pure_ok, Prod.mk.injEq] at hce
        obtain ⟨rfl, rfl⟩ := hce
        exact hI
    | fm m =>
      simp only [callExecute] at hce
      split at hce
      · cases hce
      · obtain ⟨⟨s, r⟩, hr, hce⟩ := bind_ok.mp hce
        simp only [pure_ok, Prod.mk.injEq] at hce
        obtain ⟨rfl, rfl⟩ := hce
        exact fmExecute_noExp hI hr
    | em m =>
      simp only [callExecute] at hce
      split at hce
      · cases hce
      · obtain ⟨s, hr, hce⟩ := bind_ok.mp hce
        simp only [pure_ok, Prod.mk.injEq] at hce
        obtain ⟨rfl, rfl⟩ := hce
        exact hI
    | fc m =>
      cases m with
      | updateOwnership a =>
        simp only [callExecute] at hce
        split at hce
        · cases hce
        · obtain ⟨_, _, hce⟩ := bind_ok.mp hce
          obtain ⟨o, _, hce⟩ := bind_ok.mp hce
          simp only [pure_ok, Prod.mk.injEq] at hce
          obtain ⟨rfl, rfl⟩ := hce
          exact hI
  · intro w w2 c id resp hI hcr
    refine ⟨?_, fun _ _ => trivial⟩
    unfold callReply at hcr
    split at hcr
    · obtain ⟨⟨s, r⟩, hr, hcr⟩ := bind_ok.mp hcr
      simp only [pure_ok, Prod.mk.injEq] at hcr
      obtain ⟨rfl, rfl⟩ := hcr
      exact hI
    · split at hcr
      · obtain ⟨⟨s, r⟩, hr, hcr⟩ := bind_ok.mp hcr
        simp only [pure_ok, Prod.mk.injEq] at hcr
        obtain ⟨rfl, rfl⟩ := hcr
        unfold fmReply at hr
        split at hr
        · cases hr
          exact hI
        · cases hr
      · cases hcr

/-- one transaction (committed or rejected, any sender, any injected fault) preserves the invariant -/
theorem noExp_step (w : World) (tx : Tx) (k : Option Nat) (h : NoExp w) : NoExp (step w tx k) := by
  unfold step
  cases hr : runTx w tx k with
  | error e => exact h
  | ok w' =>
    simp only
    have h0 : NoExp { w with bank := { w.bank with calls := 0, failAt := k } } := h
    cases tx with
    | exec sender c msg funds =>
      have hr' : execMsg FUEL { w with bank := { w.bank with calls := 0, failAt := k } } sender
          (.wasmExec c msg funds) = .ok w' := hr
      exact (WSys.lift_run noExp_lift FUEL).1 _ _ _ _ hr' h0 trivial
    | send frm to coins =>
      have hr' : execMsg FUEL { w with bank := { w.bank with calls := 0, failAt := k } } frm
          (.bankSend to coins) = .ok w' := hr
      exact (WSys.lift_run noExp_lift FUEL).1 _ _ _ _ hr' h0 trivial
    | advance ns =>
      simp only [runTx, Except.ok.injEq] at hr
      subst hr
      exact h

/-- every reachable state: open positions carry no expiry time -/
theorem noExp_reachable (w0 : World) (h0 : NoExp w0) (txs : List (Tx × Option Nat)) :
    NoExp (txs.foldl (fun w t => step w t.1 t.2) w0) := by
  induction txs generalizing w0 with
  | nil => exact h0
  | cons t ts ih =>
    rw [List.foldl_cons]
    exact ih _ (noExp_step w0 t.1 t.2 h0)

/-- a fresh deployment has no positions -/
theorem noExp_init (w : World) (hp : w.fm.positions = []) : NoExp w := by
  intro p hp'
  rw [show w.fm.positions = [] from hp] at hp'
  cases hp'

/-- an open position without expiry time is not expired, whatever the clock says -/
theorem not_expired_of_noExp {w : World} (h : NoExp w) {p : Position} (hmem : p ∈ w.fm.positions)
    (hopen : p.open_ = true) (now : Nat) :
    (⟨p.amount, p.unlocking, p.expiringAt⟩ : PosView).isExpired now = false := by
  have := h p hmem hopen
  unfold PosView.isExpired
  simp only [this]

end MantraDex.MonSoundGL
