/-
  Whole calls of the pool manager through the runtime, for the LP-token properties (C02Sys / C03Sys):
  * `pm_call`: a call that is not a single-asset deposit, by any sender (also the pool manager itself):
    funds move, the handler runs, its leaf sub-messages run; exact effect on supplies and on the pool
    manager's balances in terms of the response's message weights;
  * `single_tree`: a single-asset deposit by an external account = first leg (sets the buffer), a self-call
    `Swap` of the half, the reply (clears the buffer), a self-call two-asset `ProvideLiquidity`.
-/
import MantraDex.Model.System
import MantraDex.Proofs.NumLemmas
import MantraDex.Proofs.LpSysHandlers
import MantraDex.Proofs.SysLemmasSingle

set_option linter.unusedSimpArgs false
set_option linter.unusedVariables false
set_option linter.tactic.unusedName false

namespace MantraDex.LpSys
open MantraDex
open MantraDex.C01 (coinsOf amt coinsOf_cons coinsOf_nil coinsOf_singleton)

/-- the funds of a call of the pool manager have arrived -/
structure FundsIn (w w1 : World) (sender : Addr) (funds : List Coin) : Prop where
  pm : w1.pm = w.pm
  tf : w1.tfFees = w.tfFees
  fm : w1.fm = w.fm
  va : w1.validAddr = w.validAddr
  cov : Covers w1.bank
  sup : ∀ d, w1.bank.supply d = w.bank.supply d
  bal : ∀ d, w1.bank.bal PM d = w.bank.bal PM d + if sender = PM then 0 else coinsOf funds d

theorem fundsIn {w w1 : World} {sender : Addr} {funds : List Coin}
    (h : (if funds.isEmpty then pure w else do
        let b ← w.bank.send sender PM funds
        pure { w with bank := b }) = (.ok w1 : R World)) (hc : Covers w.bank) :
    FundsIn w w1 sender funds := by
  split at h
  · rename_i hf
    simp only [pure_ok] at h; subst h
    have : funds = [] := List.isEmpty_iff.1 hf
    subst this
    exact ⟨rfl, rfl, rfl, rfl, hc, fun _ => rfl, fun d => by simp⟩
  · obtain ⟨b, hb, h⟩ := bind_ok.mp h
    simp only [pure_ok] at h; subst h
    obtain ⟨c1, s1⟩ := send_covers hb hc
    refine ⟨rfl, rfl, rfl, rfl, c1, s1, fun d => ?_⟩
    by_cases hs : sender = PM
    · subst hs
      simp only [if_true, Nat.add_zero]
      exact SysPm.send_self hb d
    · obtain ⟨-, -, b1⟩ := foreign_send hs hb hc
      rw [b1 d]
      simp only [hs, if_true, if_false]

/-- a call of the pool manager that is not a single-asset deposit -/
theorem pm_call {n : Nat} {w w' : World} {sender c : Addr} {m : PmMsg} {funds : List Coin}
    (hfunds : (funds.map (·.denom)).Nodup) (hns : SysPm.NotSingle m funds) (hc : Covers w.bank)
    (h : execMsg (n + 1) w sender (.wasmExec c (.pm m) funds) = .ok w') :
    c = PM ∧ ∃ (w1 : World) (s' : PmState) (r : Response), FundsIn w w1 sender funds ∧
      pmExecute w.pm w1.pmEnv sender funds m = .ok (s', r) ∧
      w'.pm = s' ∧ w'.tfFees = w.tfFees ∧ w'.validAddr = w.validAddr ∧ Covers w'.bank ∧
      (∀ d, w'.bank.supply d + total (burnW w.tfFees d) r.msgs = w.bank.supply d + total (mintW d) r.msgs) ∧
      (∀ d, w'.bank.bal PM d + total (outW w.tfFees d) r.msgs = w1.bank.bal PM d + total (inW d) r.msgs) := by
  obtain ⟨w1, w2, resp, hw1, hce, hsubs⟩ := SysPm.wasm_inv h
  simp only [callExecute] at hce
  split at hce
  · cases hce
  rename_i hcc
  have hcc : c = PM := by simpa using hcc
  subst hcc
  obtain ⟨⟨s2, r2⟩, hpe, hce⟩ := bind_ok.mp hce
  simp only [pure_ok, Prod.mk.injEq] at hce
  obtain ⟨hw2, hresp⟩ := hce
  subst hw2; subst hresp
  have fi := fundsIn hw1 hc
  have hleaf := handler_leafOk hfunds hns hpe
  have eff := pm_leaf_subs resp.msgs n { w1 with pm := s2 } w' hleaf fi.cov hsubs
  refine ⟨rfl, w1, s2, resp, fi, by rw [← fi.pm]; exact hpe, eff.pm, eff.tf.trans fi.tf, ?_, eff.cov, fun d => ?_, fun d => ?_⟩
  · exact ((exec_va n).2 _ _ _ _ hsubs).trans fi.va
  · have := eff.sup d
    rw [fi.sup d] at this
    rw [← fi.tf]
    exact this
  · have := eff.bal d
    rw [← fi.tf]
    exact this

/-- the execution tree of a single-asset deposit sent by an external account -/
theorem single_tree {w w' : World} {sender c : Addr} {coin : Coin} {ls ss : Option Nat} {rc : Option Addr}
    {pid : String} {u : Option Nat} {l : Option String} (hs : sender ≠ PM) (hc : Covers w.bank)
    (hr : execMsg FUEL w sender (.wasmExec c (.pm (.provideLiquidity ls ss rc pid u l)) [coin]) = .ok w') :
    ∃ (w1 w3 : World) (buf : SingleSideBuffer) (ask : Denom),
      FundsIn w w1 sender [coin] ∧
      buf.offerHalf = ⟨coin.denom, coin.amount / 2⟩ ∧ buf.expectedAsk.denom = ask ∧ coin.denom ≠ ask ∧
      buf.receiver = addrOrDefault w1.pmEnv rc sender ∧ buf.poolId = pid ∧ buf.unlocking = u ∧
      (u.isSome → addrOrDefault w1.pmEnv rc sender = sender) ∧
      execMsg 62 { w1 with pm := { w.pm with buffer := some buf } } PM
        (.wasmExec PM (.pm (.swap ask none ss none pid)) [buf.offerHalf]) = .ok w3 ∧
      w3.pm.buffer = some buf ∧
      execMsg 61 { w3 with pm := { w3.pm with buffer := none } } PM
        (.wasmExec PM (.pm (.provideLiquidity buf.liqSlip buf.swapSlip (some buf.receiver) buf.poolId
          buf.unlocking buf.lockId)) [buf.offerHalf, buf.expectedAsk]) = .ok w' := by
  rw [show FUEL = 63 + 1 from rfl] at hr
  obtain ⟨w1, w2, resp, hw1, hce, hsubs⟩ := SysPm.wasm_inv hr
  simp only [callExecute] at hce
  split at hce
  · cases hce
  rename_i hcc
  have hcc : c = PM := by simpa using hcc
  subst hcc
  obtain ⟨⟨s2, r2⟩, hpe, hce⟩ := bind_ok.mp hce
  simp only [pure_ok, Prod.mk.injEq] at hce
  obtain ⟨hw2, hresp⟩ := hce
  subst hw2; subst hresp
  have fi := fundsIn hw1 hc
  -- the first leg
  simp only [pmExecute] at hpe
  obtain ⟨pool, -, -, hp, hauth, -⟩ := pl_single (agg_single coin) hpe
  obtain ⟨buf, sim, ask, hs2, hsim, hoh, hea, heo, hexa, hrecv, hpid, hu, -, -, -, hmsgs⟩ := C14.first_leg_shape hp hpe
  rw [hmsgs] at hsubs
  obtain ⟨m, w3, w4, resp4, hm, hswap, hreply, hsubs4⟩ := SysPm.subs_single_success rfl hsubs
  obtain rfl : m = 62 := by omega
  -- the nested swap
  have hswap' : execMsg (61 + 1) { w1 with pm := s2 } PM
      (.wasmExec PM (.pm (.swap ask none ss none pid)) [buf.offerHalf]) = .ok w3 := hswap
  obtain ⟨-, w2a, s3, r3, fi2, hsw, hpm3, -, -, -, -, -⟩ :=
    pm_call (w := { w1 with pm := s2 }) (funds := [buf.offerHalf]) (m := .swap ask none ss none pid) (by simp) trivial fi.cov hswap'
  have hbuf3 : w3.pm.buffer = some buf := by
    rw [hpm3, handler_buffer (funds := [buf.offerHalf]) (m := .swap ask none ss none pid) (by simp) trivial hsw, hs2]
  have hne : coin.denom ≠ ask := by
    simp only [pmExecute] at hsw
    obtain ⟨offer, sr, hoff, hps, -⟩ := C04.swapHandler_messages hsw
    have hoff' : offer = ⟨coin.denom, coin.amount / 2⟩ := by
      rw [hoh] at hoff
      simpa using hoff.symm
    subst hoff'
    have := SysPm.performSwap_denoms_ne hps
    exact this
  -- the reply
  simp only [callReply, beq_self_eq_true, if_true] at hreply
  obtain ⟨⟨s4, r4⟩, hrep, hreply⟩ := bind_ok.mp hreply
  simp only [pure_ok, Prod.mk.injEq] at hreply
  obtain ⟨rfl, rfl⟩ := hreply
  obtain ⟨-, -, hs4, hmsgs4⟩ := C14.reply_shape hbuf3 hrep
  -- the second leg
  rw [hmsgs4] at hsubs4
  obtain ⟨m, hm, hsecond⟩ := SysPm.subs_single_never rfl hsubs4
  obtain rfl : m = 61 := by omega
  subst hs4
  refine ⟨w1, w3, buf, ask, fi, hoh, by rw [hea], hne, hrecv, hpid, hu, ?_, ?_, hbuf3, hsecond⟩
  · intro hu'
    have := hauth
    rw [hu', Bool.true_and] at this
    simpa using this
  · rw [hs2, fi.pm] at hswap'
    exact hswap'

end MantraDex.LpSys
