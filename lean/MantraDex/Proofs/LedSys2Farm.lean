/-
  C07Sys, part 3: the farm side of the ledger invariant (`FL`): every stored farm's `claimed_amount` is the sum
  of the ledger entries it paid since its start epoch, those entries carry the farm's LP token and rate and lie
  before its end, and rate × (end − start) never exceeds the budget.  Preserved by every handler (`carried2_fl`)
  and by an accepted claim (`fl_claim`).
-/
import MantraDex.Properties.C06Sys
import MantraDex.Proofs.LedSys2Claim
import MantraDex.Proofs.LedSys2Run

set_option linter.unusedSimpArgs false
set_option linter.unusedVariables false

namespace MantraDex.LedSys
open MantraDex MantraDex.C06Sys MantraDex.WSys

/-- Σ of the entries paid by the farm `f` (same identifier, epoch at or after its start) -/
def ledSum (L : List Entry) (f : Farm) : Nat :=
  sumRewards (L.filter fun x => x.farm == f.id && decide (f.startEpoch ≤ x.epoch))

theorem ledSum_append (a b : List Entry) (f : Farm) : ledSum (a ++ b) f = ledSum a f + ledSum b f := by
  unfold ledSum; rw [List.filter_append, sumRewards_append]

theorem ledSum_zero {L : List Entry} {f : Farm} (h : ∀ x ∈ L, x.farm = f.id → x.epoch < f.startEpoch) :
    ledSum L f = 0 := by
  unfold ledSum
  have : L.filter (fun x => x.farm == f.id && decide (f.startEpoch ≤ x.epoch)) = [] := by
    rw [List.filter_eq_nil_iff]
    intro x hx hq
    simp only [Bool.and_eq_true, beq_iff_eq, decide_eq_true_eq] at hq
    have := h x hx hq.1
    omega
  rw [this]; rfl

theorem ledSum_congr {L : List Entry} {f g : Farm} (hid : g.id = f.id) (hs : g.startEpoch = f.startEpoch) :
    ledSum L g = ledSum L f := by
  unfold ledSum; rw [hid, hs]

structure FL (s : FmState) (L : List Entry) : Prop where
  nodup : (s.farms.map (·.id)).Nodup
  claimed : ∀ f ∈ s.farms, f.claimed = ledSum L f
  own : ∀ f ∈ s.farms, ∀ x ∈ L, x.farm = f.id → f.startEpoch ≤ x.epoch →
    x.lp = f.lpDenom ∧ x.rate = f.emissionRate ∧ x.epoch < f.endEpoch
  budget : ∀ f ∈ s.farms, f.emissionRate * (f.endEpoch - f.startEpoch) ≤ f.assetAmount
  lt : ∀ f ∈ s.farms, f.startEpoch < f.endEpoch

theorem fl_of_farms_eq {s s' : FmState} {L : List Entry} (hf : s'.farms = s.farms) (h : FL s L) : FL s' L :=
  ⟨by rw [hf]; exact h.nodup, by rw [hf]; exact h.claimed, by rw [hf]; exact h.own,
    by rw [hf]; exact h.budget, by rw [hf]; exact h.lt⟩

theorem fl_sub {s s' : FmState} {L : List Entry} (hn : (s'.farms.map (·.id)).Nodup)
    (hsub : ∀ g ∈ s'.farms, g ∈ s.farms) (h : FL s L) : FL s' L :=
  ⟨hn, fun f hf => h.claimed f (hsub f hf), fun f hf => h.own f (hsub f hf),
    fun f hf => h.budget f (hsub f hf), fun f hf => h.lt f (hsub f hf)⟩

/-! ### farm handlers -/

theorem createFarm_fl {s s' : FmState} {env : FmEnv} {sender : Addr} {funds : List Coin} {p : FarmParams}
    {r : Response} {L : List Entry} {D : Prop} (hl : LInv D s env L) (hfl : FL s L)
    (h : createFarm s env sender funds p = .ok (s', r)) : FL s' L := by
  obtain ⟨cur, flags, feeMsgs, start, end_, rate, hcur, hflags, _, _, hfm, hassert, hval, hrate, hany,
    rfl, rfl⟩ := FH.createFarm_inv h
  obtain ⟨h1, h2, _⟩ := FH.validateFarmEpochs_ok hval
  simp only [divFloorFrac_ok, Nat.mul_one] at hrate
  have hu := hfl.nodup
  have hmem : ∀ g ∈ ((FH.cfIdState (closeFarms s (FH.cfExpired s p flags)).1 p).2.saveFarm
      { id := (FH.cfIdState (closeFarms s (FH.cfExpired s p flags)).1 p).1, owner := sender, lpDenom := p.lpDenom, assetDenom := p.asset.denom, assetAmount := p.asset.amount, claimed := 0, emissionRate := rate, startEpoch := start, endEpoch := end_ }).farms,
      g = { id := (FH.cfIdState (closeFarms s (FH.cfExpired s p flags)).1 p).1, owner := sender, lpDenom := p.lpDenom, assetDenom := p.asset.denom, assetAmount := p.asset.amount, claimed := 0, emissionRate := rate, startEpoch := start, endEpoch := end_ } ∨ g ∈ s.farms := by
    intro g hg
    have := (FH.saveFarm_perm_new hany).mem_iff.1 hg
    rcases List.mem_cons.1 this with e | hg'
    · exact Or.inl e
    · rw [FH.cfIdState_farms] at hg'
      exact Or.inr (C05.closeFarms_mem hg')
  have hnew : ∀ x ∈ L, x.epoch < start := by
    intro x hx
    have := entries_le_cur hl.entries hcur x hx
    omega
  refine ⟨?_, ?_, ?_, ?_, ?_⟩
  · rw [((FH.saveFarm_perm_new hany).map _).nodup_iff]
    simp only [List.map_cons, List.nodup_cons]
    refine ⟨?_, by rw [FH.cfIdState_farms]; exact FmSys.closeFarms_nodup _ hu⟩
    intro hm
    obtain ⟨g, hg, hgid⟩ := List.mem_map.1 hm
    have := List.any_eq_false.1 hany g hg
    simp [hgid] at this
  · intro g hg
    rcases hmem g hg with rfl | hg'
    · exact (ledSum_zero (fun x hx _ => hnew x hx)).symm
    · exact hfl.claimed g hg'
  · intro g hg x hx hid hse
    rcases hmem g hg with rfl | hg'
    · have := hnew x hx
      simp only at hse
      omega
    · exact hfl.own g hg' x hx hid hse
  · intro g hg
    rcases hmem g hg with rfl | hg'
    · simp only
      rw [hrate.2.2]
      exact Nat.div_mul_le_self _ _
    · exact hfl.budget g hg'
  · intro g hg
    rcases hmem g hg with rfl | hg'
    · exact h2
    · exact hfl.lt g hg'

theorem expandFarm_fl {s s' : FmState} {env : FmEnv} {sender : Addr} {funds : List Coin} {p : FarmParams}
    {r : Response} {L : List Entry} (hfl : FL s L)
    (h : expandFarm s env sender funds p = .ok (s', r)) : FL s' L := by
  have hn' := (FmSys.expandFarm_wf hfl.nodup h).1
  unfold expandFarm at h
  cases hid : p.farmId with
  | none => simp [hid, bind, Except.bind] at h
  | some fid =>
    simp only [hid, FH.error_bind, FH.ite_err_ok, bind_ok, pure_ok, fit_ok, ckAdd_ok, Prod.mk.injEq] at h
    obtain ⟨fid', hfid', f, hf, _, cur, hcur, hlt, ex, _, _, _, reward, hone, hrw, hden, hrate, hmod, total,
      ⟨_, rfl⟩, extra, ⟨_, rfl⟩, newEnd, ⟨_, rfl⟩, rfl, rfl⟩ := h
    cases hfid'
    obtain ⟨hmem, _⟩ := FH.getFarm_ok hf
    have hrw' : reward = p.asset := by simpa using hrw
    subst hrw'
    have hcase : ∀ g ∈ (s.saveFarm { f with assetAmount := f.assetAmount + p.asset.amount, endEpoch := f.endEpoch + p.asset.amount / f.emissionRate }).farms,
        g = { f with assetAmount := f.assetAmount + p.asset.amount, endEpoch := f.endEpoch + p.asset.amount / f.emissionRate } ∨ g ∈ s.farms :=
      fun g hg => C05.mem_saveFarm_replace hfl.nodup hmem rfl hg
    refine ⟨hn', ?_, ?_, ?_, ?_⟩
    · intro g hg
      rcases hcase g hg with rfl | hg'
      · exact hfl.claimed f hmem
      · exact hfl.claimed g hg'
    · intro g hg x hx hxid hse
      rcases hcase g hg with rfl | hg'
      · obtain ⟨a, b, c⟩ := hfl.own f hmem x hx hxid hse
        refine ⟨a, b, ?_⟩
        show x.epoch < f.endEpoch + p.asset.amount / f.emissionRate
        exact Nat.lt_of_lt_of_le c (Nat.le_add_right _ _)
      · exact hfl.own g hg' x hx hxid hse
    · intro g hg
      rcases hcase g hg with rfl | hg'
      · show f.emissionRate * (f.endEpoch + p.asset.amount / f.emissionRate - f.startEpoch) ≤
            f.assetAmount + p.asset.amount
        have hb := hfl.budget f hmem
        have hd : f.emissionRate * (p.asset.amount / f.emissionRate) ≤ p.asset.amount :=
          Nat.mul_div_le _ _
        have hle : f.endEpoch + p.asset.amount / f.emissionRate - f.startEpoch ≤
            (f.endEpoch - f.startEpoch) + p.asset.amount / f.emissionRate := by
          generalize p.asset.amount / f.emissionRate = q
          omega
        have := Nat.mul_le_mul_left f.emissionRate hle
        rw [Nat.mul_add] at this
        omega
      · exact hfl.budget g hg'
    · intro g hg
      rcases hcase g hg with rfl | hg'
      · have := hfl.lt f hmem
        show f.startEpoch < f.endEpoch + p.asset.amount / f.emissionRate
        exact Nat.lt_of_lt_of_le this (Nat.le_add_right _ _)
      · exact hfl.lt g hg'

theorem closeFarm_fl {s s' : FmState} {sender : Addr} {funds : List Coin} {id : String}
    {r : Response} {L : List Entry} (hfl : FL s L)
    (h : closeFarm s sender funds id = .ok (s', r)) : FL s' L := by
  have hn' := (FmSys.closeFarm_wf hfl.nodup h).1
  unfold closeFarm at h
  simp only [FH.error_bind, FH.ite_err_ok, bind_ok, pure_ok, Prod.mk.injEq] at h
  obtain ⟨_, hnp, f, hf, _, rfl, rfl⟩ := h
  exact fl_sub hn' (fun g hg => C05.closeFarms_mem hg) hfl

/-- the farm side is carried through the runtime together with the ledger invariant -/
theorem carried2_fl (D : Prop) (env0 : FmEnv) (L : List Entry) :
    Carried2 env0 (fun s => LInv D s env0 L ∧ FL s L) := by
  intro s s' sender funds m r hp hi hwf hi' hs hnc hnu hcfg hx
  refine ⟨carried2_of_carried (carried_linv D env0 L) s s' sender funds m r hp.1 hi hwf hi' hs hnc hnu hcfg hx, ?_⟩
  cases m with
  | createFarm p => exact createFarm_fl hp.1 hp.2 hx
  | expandFarm p => exact expandFarm_fl hp.2 hx
  | closeFarm id => exact closeFarm_fl hp.2 hx
  | claim u => exact absurd rfl (hnc u)
  | createPosition id u rc => exact fl_of_farms_eq (FmSys.createPosition_wf hwf hx).2.1 hp.2
  | expandPosition id => exact fl_of_farms_eq (FmSys.expandPosition_wf hwf hx).2.1 hp.2
  | closePosition id lp => exact fl_of_farms_eq (FmSys.closePosition_wf hwf hx).2.1 hp.2
  | withdrawPosition id e => exact fl_of_farms_eq (FmSys.withdrawPosition_wf hwf hx).2.1 hp.2
  | updateConfig u => exact absurd rfl (hnu u)
  | updateOwnership a =>
    unfold fmExecute at hx
    simp only [bind_ok, pure_ok, Prod.mk.injEq] at hx
    obtain ⟨_, _, o, _, rfl, _⟩ := hx
    exact fl_of_farms_eq (s := s) rfl hp.2

/-! ### an accepted claim -/

theorem mkEntry_farm {s : FmState} {env : FmEnv} {sender : Addr} {untilE : Nat} {lp : Denom}
    (hn : (s.farms.map (·.id)).Nodup) {t : String × Nat × Nat} (ht : TermOk s env lp sender untilE t) :
    ∃ f ∈ s.farms, f.id = (mkEntry s env lp sender t).farm ∧ f.lpDenom = (mkEntry s env lp sender t).lp ∧
      (mkEntry s env lp sender t).rate = f.emissionRate ∧ f.startEpoch ≤ (mkEntry s env lp sender t).epoch ∧
      (mkEntry s env lp sender t).epoch < f.endEpoch := by
  obtain ⟨f, hf, hid, hlp, h1, h2, _⟩ := ht.farm
  refine ⟨f, hf, hid, hlp, ?_, h1, h2⟩
  show fField s t.1 (·.emissionRate) 0 = _
  rw [← hid, fField_of_mem hn hf]

theorem lpEntries_ledSum {s : FmState} {env : FmEnv} {sender : Addr} {untilE : Nat} {lp : Denom}
    (hi : FInv s env) (hsnap : ∀ l, s.lastClaimed sender = some l → ∀ lp, ∀ sn ∈ s.hist sender lp, l ≤ sn.1)
    (hn : (s.farms.map (·.id)).Nodup) {f : Farm} (hf : f ∈ s.farms) :
    sumRewards ((lpEntries s env lp sender untilE).filter
      fun x => x.farm == f.id && decide (f.startEpoch ≤ x.epoch)) = tsumId f.id (lpTerms s env lp sender untilE) := by
  rw [lpEntries_eq, sumRewards_eq, List.filter_map, List.map_map]
  unfold tsumId
  have hok := lpTerms_ok (u := untilE) (hi.hist.sorted sender lp) (hi.hist.sorted env.self lp)
    (fun l hl x hx => hsnap l hl lp x hx)
  have hfil : (lpTerms s env lp sender untilE).filter
      ((fun x => x.farm == f.id && decide (f.startEpoch ≤ x.epoch)) ∘ mkEntry s env lp sender) =
      (lpTerms s env lp sender untilE).filter (fun t => t.1 == f.id) := by
    apply List.filter_congr
    intro t ht
    show (t.1 == f.id && decide (f.startEpoch ≤ t.2.1)) = (t.1 == f.id)
    by_cases hid : t.1 = f.id
    · obtain ⟨f0, hf0, hid0, _, h1, _⟩ := (hok t ht).farm
      have := FH.nodup_key_inj Farm.id s.farms hn f0 hf0 f hf (hid0.trans hid)
      subst this
      simp [hid, h1]
    · simp [hid]
  rw [hfil]
  rfl

theorem fl_claim {s s' : FmState} {env : FmEnv} {sender : Addr} {funds : List Coin} {u : Option Nat}
    {r : Response} {L : List Entry} {D : Prop} (hi : FInv s env) (hl : LInv D s env L) (hfl : FL s L)
    (h : fmClaim s env sender funds u = .ok (s', r)) : FL s' (L ++ claimEntries s env sender u) := by
  have hn := hfl.nodup
  obtain ⟨cur, untilE, hcur, hun, hle, hfarms⟩ := claim_run2 hn h
  rw [claimEntries_eq hcur hun]
  generalize uniqueDenoms (s.positionsBy sender true) = lps at hfarms
  have hsnap : ∀ l, s.lastClaimed sender = some l → ∀ lp, ∀ sn ∈ s.hist sender lp, l ≤ sn.1 :=
    fun l hl' lp sn hsn => hl.cursorSnap sender l hl' lp sn hsn
  have hmem : ∀ g ∈ s'.farms, ∃ f ∈ s.farms, g = Split.addC (doneSum s env sender untilE lps) f := by
    intro g hg
    rw [hfarms] at hg
    obtain ⟨f, hf, rfl⟩ := List.mem_map.1 hg
    exact ⟨f, hf, rfl⟩
  have hN : ∀ y ∈ lps.flatMap (fun lp => lpEntries s env lp sender untilE),
      ∃ f ∈ s.farms, f.id = y.farm ∧ f.lpDenom = y.lp ∧ y.rate = f.emissionRate ∧ f.startEpoch ≤ y.epoch ∧
        y.epoch < f.endEpoch := by
    intro y hy
    obtain ⟨lp, hlp, hy⟩ := List.mem_flatMap.1 hy
    rw [lpEntries_eq] at hy
    obtain ⟨t, ht, rfl⟩ := List.mem_map.1 hy
    exact mkEntry_farm hn (lpTerms_ok (hi.hist.sorted sender lp) (hi.hist.sorted env.self lp)
      (fun l hl' x hx => hsnap l hl' lp x hx) t ht)
  refine ⟨?_, ?_, ?_, ?_, ?_⟩
  · rw [hfarms, Split.map_addC_ids]; exact hn
  · intro g hg
    obtain ⟨f, hf, rfl⟩ := hmem g hg
    rw [ledSum_congr (g := Split.addC (doneSum s env sender untilE lps) f) (f := f) rfl rfl, ledSum_append]
    show f.claimed + doneSum s env sender untilE lps f.id = _
    rw [hfl.claimed f hf]
    congr 1
    unfold ledSum doneSum
    rw [sumRewards_flatMap_filter]
    congr 1
    apply List.map_congr_left
    intro lp _
    exact (lpEntries_ledSum hi hsnap hn hf).symm
  · intro g hg x hx hid hse
    obtain ⟨f, hf, rfl⟩ := hmem g hg
    rcases List.mem_append.1 hx with hx | hx
    · exact hfl.own f hf x hx hid hse
    · obtain ⟨f0, hf0, h1, h2, h3, h4, h5⟩ := hN x hx
      have := FH.nodup_key_inj Farm.id s.farms hn f0 hf0 f hf (h1.trans hid)
      subst this
      exact ⟨h2.symm, h3, h5⟩
  · intro g hg
    obtain ⟨f, hf, rfl⟩ := hmem g hg
    exact hfl.budget f hf
  · intro g hg
    obtain ⟨f, hf, rfl⟩ := hmem g hg
    exact hfl.lt f hf

end MantraDex.LedSys
