/-
  C10Eq, part 5: the sum of the users' exact weights is the exact total.
-/
import MantraDex.Proofs.ExactWBase

set_option linter.unusedSimpArgs false
set_option linter.unusedVariables false

namespace MantraDex.ExactW
open MantraDex MantraDex.WSys

theorem sumU_zero (us : List Addr) : sumU us (fun _ => 0) = 0 := by
  induction us with
  | nil => rfl
  | cons u us ih => rw [sumU_cons, ih]

theorem sumU_add (us : List Addr) (f g : Addr → Nat) :
    sumU us (fun u => f u + g u) = sumU us f + sumU us g := by
  induction us with
  | nil => rfl
  | cons u us ih => rw [sumU_cons, sumU_cons, sumU_cons, ih]; omega

theorem sumU_indicator {us : List Addr} (hnd : us.Nodup) (r : Addr) (c : Nat) :
    sumU us (fun u => if u = r then c else 0) = if r ∈ us then c else 0 := by
  induction us with
  | nil => rfl
  | cons u us ih =>
    rw [List.nodup_cons] at hnd
    rw [sumU_cons, ih hnd.2]
    by_cases hu : u = r
    · subst hu
      simp [hnd.1]
    · have : r ≠ u := fun e => hu e.symm
      simp [hu, this]

theorem S_nil (q : Position → Bool) : S q [] = 0 := rfl

/-- summing the users' position weights over a duplicate-free list of users counts every open position of a
    listed receiver exactly once -/
theorem sum_users (lp : Denom) {us : List Addr} (hnd : us.Nodup) (ps : List Position) :
    sumU us (fun u => S (ofU u lp) ps) = S (fun p => inLp lp p && decide (p.receiver ∈ us)) ps := by
  induction ps with
  | nil =>
    simp only [S_nil]
    exact sumU_zero us
  | cons p ps ih =>
    have hf : (fun u => S (ofU u lp) (p :: ps)) =
        fun u => (if ofU u lp p = true then posW p else 0) + S (ofU u lp) ps := by
      funext u; exact S_cons _ _ _
    rw [hf, sumU_add, ih, S_cons]
    congr 1
    by_cases hin : inLp lp p = true
    · have hg : (fun u => if ofU u lp p = true then posW p else 0) =
          fun u => if u = p.receiver then posW p else 0 := by
        funext u
        have : ofU u lp p = (inLp lp p && p.receiver == u) := rfl
        rw [this, hin]
        by_cases hu : u = p.receiver
        · subst hu; simp
        · have : p.receiver ≠ u := fun e => hu e.symm
          simp [hu, this]
      rw [hg, sumU_indicator hnd, hin]
      by_cases hm : p.receiver ∈ us
      · simp [hm]
      · simp [hm]
    · have hin' : inLp lp p = false := by simpa using hin
      have hg : (fun u => if ofU u lp p = true then posW p else 0) = fun _ => 0 := by
        funext u
        have : ofU u lp p = (inLp lp p && p.receiver == u) := rfl
        rw [this, hin']
        simp
      rw [hg, sumU_zero, hin']
      simp

theorem total_eq_users {s : FmState} {me : Addr} (hx : ExactF s me) (lp : Denom) {us : List Addr}
    (hnd : us.Nodup) (hme : me ∉ us)
    (hall : ∀ p ∈ s.positions.filter (inLp lp), p.receiver ∈ us) :
    latestWeight (s.hist me lp) = sumU us (fun u => latestWeight (s.hist u lp)) := by
  have h1 : sumU us (fun u => latestWeight (s.hist u lp)) = sumU us (fun u => S (ofU u lp) s.positions) :=
    sumU_congr (fun a ha => hx.user a lp (fun e => hme (e ▸ ha)))
  rw [h1, sum_users lp hnd, hx.total lp]
  unfold S
  congr 1
  apply List.filter_congr
  intro p hp
  by_cases hin : inLp lp p = true
  · have := hall p (List.mem_filter.2 ⟨hp, hin⟩)
    simp [hin, this]
  · have hin' : inLp lp p = false := by simpa using hin
    simp [hin']

end MantraDex.ExactW
