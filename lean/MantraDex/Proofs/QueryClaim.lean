/-
  C07Q helpers: the Rewards query equals what an accepted Claim pays, for any number of LP tokens.

  `LedSys.Mid` (Proofs/LedSysFold.lean) already describes the evolving state of the claim loop: after the
  LP tokens `done`, the state differs from the pre-state only in the farms of the LP tokens in `done` and
  in the sender's histories of those LP tokens.  Here the list of coins collected so far is added: it is
  exactly what the query's loop collects on the unchanged pre-state.
-/
import MantraDex.Proofs.LedSysFold

set_option linter.unusedSimpArgs false
set_option linter.unusedVariables false

namespace MantraDex.QueryClaim
open MantraDex

/-- one LP token of the Rewards query (on the fixed state `s`) -/
def qStep (s : FmState) (env : FmEnv) (address : Addr) (untilE : Nat) (acc : List Coin) (lp : Denom) :
    R (List Coin) := do
  let rc ← calculateRewards s env lp address untilE
  pure (acc ++ rc.rewards)

/-- the calculation of a not yet handled LP token on the evolving state is the one on the pre-state -/
theorem mid_calc {s : FmState} {env : FmEnv} {sender : Addr} {untilE : Nat} {done : List Denom}
    {st : FmState × List Coin} {lp : Denom}
    (hm : LedSys.Mid s env sender untilE done st) (hlp : lp ∉ done) :
    calculateRewards st.1 env lp sender untilE = calculateRewards s env lp sender untilE := by
  apply LedSys.calculateRewards_congr
  · unfold FmState.farmsByLp
    rw [hm.farmsKeep lp hlp, hm.config]
  · rw [hm.last]
  · exact hm.histOther sender lp (Or.inr hlp)
  · exact hm.histOther env.self lp (Or.inr hlp)

/-- the claim loop and the query loop collect the same list of coins -/
theorem fold_eq {s : FmState} {env : FmEnv} {sender : Addr} {untilE : Nat}
    (hn : (s.farms.map (·.id)).Nodup) :
    ∀ (rest done : List Denom) (st st' : FmState × List Coin), (done ++ rest).Nodup →
    LedSys.Mid s env sender untilE done st →
    rest.foldlM (Farm.claimStep env sender untilE) st = .ok st' →
    rest.foldlM (qStep s env sender untilE) st.2 = .ok st'.2 := by
  intro rest
  induction rest with
  | nil =>
    intro done st st' _ hm h
    simp only [List.foldlM_nil, pure_ok] at h
    subst h
    rfl
  | cons lp rest ih =>
    intro done st st' hnd hm h
    simp only [List.foldlM_cons, bind_ok] at h
    obtain ⟨st1, h1, h2⟩ := h
    have hlp : lp ∉ done := by
      intro hx
      rw [List.nodup_append] at hnd
      exact hnd.2.2 lp hx lp List.mem_cons_self rfl
    obtain ⟨rc, hrc, htot, _⟩ := Farm.claimStep_ok h1
    rw [mid_calc hm hlp] at hrc
    have hm1 := LedSys.mid_step hn hm hlp h1
    have hrest := ih (done ++ [lp]) st1 st' (by rw [List.append_assoc]; exact hnd) hm1 h2
    rw [List.foldlM_cons, bind_ok]
    refine ⟨st1.2, ?_, hrest⟩
    unfold qStep
    rw [hrc, htot]
    rfl

/-- `queryRewards` in closed form, for a valid address with open positions -/
theorem queryRewards_eq {s : FmState} {env : FmEnv} {a : Addr} {u : Option Nat} {cur untilE : Nat}
    (hv : env.validAddr a = true) (hop : (s.positionsBy a true).isEmpty = false)
    (hcur : fmCurrentEpoch s env = .ok cur) (hun : untilEpochOrCurrent u cur = .ok untilE) :
    queryRewards s env a u =
      (do let total ← (uniqueDenoms (s.positionsBy a true)).foldlM (qStep s env a untilE) []
          aggregateCoins total) := by
  unfold queryRewards
  simp only [hv, hop, Bool.not_true, Bool.false_eq_true, if_false, hcur, hun]
  simp only [bind, Except.bind, hun]
  rfl

theorem query_eq_claim {s s' : FmState} {env : FmEnv} {sender : Addr} {u : Option Nat}
    {r : Response}
    (hn : (s.farms.map (·.id)).Nodup)
    (hv : env.validAddr sender = true)
    (h : fmClaim s env sender [] u = .ok (s', r)) :
    ∃ coins, queryRewards s env sender u = .ok coins ∧
      r.msgs.map (·.msg) = (if coins.isEmpty then [] else [Msg.bankSend sender coins]) := by
  obtain ⟨cur, untilE, sF, total, msgs, _, hop, hcur, hun, hfold, _, rfl, hm⟩ := Farm.fmClaim_ok h
  have hq := fold_eq hn _ [] _ _ (by rw [List.nil_append]; exact LedSys.uniqueDenoms_nodup _)
    (LedSys.mid_init s env sender untilE) hfold
  simp only at hq
  have hmsgs : (Response.ofMsgs msgs [("action", "claim")]).msgs.map (·.msg) = msgs := by
    simp [Response.ofMsgs, List.map_map, Function.comp_def]
  rw [hmsgs]
  have hqr : queryRewards s env sender u = aggregateCoins total := by
    rw [queryRewards_eq hv hop hcur hun, hq]
    rfl
  rw [hqr]
  rcases hm with ⟨hte, rfl⟩ | ⟨hte, agg, hagg, rfl⟩
  · have : total = [] := List.isEmpty_iff.1 hte
    subst this
    exact ⟨[], rfl, rfl⟩
  · refine ⟨agg, hagg, ?_⟩
    rw [Farm.aggregateCoins_isEmpty hagg, hte]
    rfl

/-- an answering query was asked for a valid address -/
theorem query_ok_valid {s : FmState} {env : FmEnv} {a : Addr} {u : Option Nat} {coins : List Coin}
    (hq : queryRewards s env a u = .ok coins) : env.validAddr a = true := by
  cases hv : env.validAddr a with
  | true => rfl
  | false =>
    unfold queryRewards at hq
    simp [hv, bind, Except.bind] at hq

end MantraDex.QueryClaim
