/-
  Helper lemmas for Properties/MonSoundF.lean (soundness of six more monitors with respect to the model).
-/
import MantraDex.Model.System
import MantraDex.Model.HistMon
import MantraDex.Model.Queries
import MantraDex.Properties.C05Sys
import MantraDex.Properties.C10Sys
import MantraDex.Properties.C11Sys
import MantraDex.Properties.C12Sys
import MantraDex.Proofs.MonSoundELemmas

set_option linter.unusedSimpArgs false
set_option linter.unusedVariables false

namespace MantraDex.MonSoundFL
open MantraDex

/-! ### sums of zeros -/

/-- the monitors' `others` / `extra` accumulator: a sum of zeros is zero -/
theorem foldl_int_zero (l : List Nat) (h : ∀ n ∈ l, n = 0) :
    l.foldl (fun (acc : Int) (n : Nat) => acc + (n : Int)) (0 : Int) = 0 := by
  induction l with
  | nil => rfl
  | cons x xs ih =>
    have hx : x = 0 := h x List.mem_cons_self
    subst hx
    simp only [List.foldl_cons]
    have : ((0 : Int) + ((0 : Nat) : Int)) = 0 := by omega
    rw [this]
    exact ih (fun n hn => h n (List.mem_cons_of_mem _ hn))

/-- a monitor with a single failing clause raises an alarm -/
theorem firstFail_false (t : String) : firstFail [(false, t)] ≠ none := by
  unfold firstFail
  simp

/-! ### ExpandFarm: the stored farm is the old one with two fields updated -/

/-- the handler stores exactly `{ f with assetAmount, endEpoch }` under the same identifier (strengthens
    `C11.expand_farm_exact`, which lists only some of the unchanged fields) -/
theorem expandFarm_stored {s s' : FmState} {env : FmEnv} {sender : Addr} {funds : List Coin}
    {p : FarmParams} {r : Response} {fid : String} {f : Farm}
    (hid : p.farmId = some fid) (hf : s.getFarm fid = .ok f)
    (h : expandFarm s env sender funds p = .ok (s', r)) :
    s'.getFarm fid = .ok { f with assetAmount := f.assetAmount + p.asset.amount,
                                  endEpoch := f.endEpoch + p.asset.amount / f.emissionRate } ∧ r.msgs = [] := by
  unfold expandFarm at h
  simp only [hid, error_bind, ite_err_ok, bind_ok, pure_ok, fit_ok, ckAdd_ok] at h
  obtain ⟨fid', hfid', f', hf', _, cur, hcur, hlt, ex, _, _, _, reward, hone, hrw, hden, hrate, hmod, total,
    ⟨_, rfl⟩, extra, ⟨_, rfl⟩, newEnd, ⟨_, rfl⟩, h⟩ := h
  subst hfid'
  rw [hf] at hf'
  cases hf'
  simp only [Prod.mk.injEq] at h
  obtain ⟨rfl, rfl⟩ := h
  have hrw' : reward = p.asset := by simpa using hrw
  subst hrw'
  unfold FmState.getFarm at hf
  split at hf
  next f0 hfind =>
    simp only [Except.ok.injEq] at hf; subst hf
    have hfid : f0.id = fid' := by simpa using List.find?_some hfind
    have hmem := List.mem_of_find?_eq_some hfind
    subst hfid
    refine ⟨?_, rfl⟩
    unfold FmState.getFarm FmState.saveFarm
    have hany : (s.farms.any (·.id == f0.id)) = true := List.any_eq_true.2 ⟨f0, hmem, by simp⟩
    simp only [hany, if_true]
    rw [FH.find_map_replace (k := Farm.id) s.farms f0 _ ?_ hfind]
    rfl
  next => cases hf

/-- transaction level: after an accepted ExpandFarm the farm stored under `fid` is the old one with the budget and the end
    updated, every other field as before -/
theorem expand_farm_stored_tx {w w' : World} {u : Addr} {p : FarmParams} {fid : String} {f : Farm} {funds : List Coin}
    {k : Option Nat} (hid : p.farmId = some fid) (hf : w.fm.getFarm fid = .ok f)
    (h : runTx w (.exec u FM (.fm (.expandFarm p)) funds) k = .ok w') :
    w'.fm.getFarm fid = .ok { f with assetAmount := f.assetAmount + p.asset.amount,
                                     endEpoch := f.endEpoch + p.asset.amount / f.emissionRate } := by
  unfold runTx at h
  simp only at h
  have h64 : FUEL = 63 + 1 := rfl
  rw [h64] at h
  obtain ⟨b, s, r, hb, hx, hsubs⟩ := FarmTx.execMsg_fm_any h
  simp only [fmExecute] at hx
  have hx' : expandFarm w.fm w.fmEnv u funds p = .ok (s, r) := hx
  obtain ⟨hg, hr⟩ := expandFarm_stored hid hf hx'
  rw [hr] at hsubs
  have hw' := FarmTx.execSubs_nil hsubs
  subst hw'
  exact hg

/-! ### CreateFarm without expired farms: the farms afterwards are the old ones and the new one -/

theorem create_farm_farms {w w' : World} {u : Addr} {p : FarmParams} {funds : List Coin}
    (hnoexp : ∀ g ∈ w.fm.farmsByLp p.lpDenom w.fm.config.maxConcurrentFarms,
      isFarmExpiredOrFalse w.fm w.fmEnv g = .ok false)
    (h : runTx w (.exec u FM (.fm (.createFarm p)) funds) = .ok w') :
    ∀ g ∈ w'.fm.farms, g ∈ w.fm.farms ∨ g.assetAmount = p.asset.amount := by
  unfold runTx at h
  simp only at h
  have h64 : FUEL = 63 + 1 := rfl
  rw [h64] at h
  obtain ⟨b1, s, r, hb, hx, hsubs⟩ := FarmTx.execMsg_fm_any h
  simp only [fmExecute] at hx
  have hx' : createFarm w.fm w.fmEnv u funds p = .ok (s, r) := hx
  obtain ⟨cur, flags, feeMsgs, start, end_, rate, hcur, hflags, _, _, hfm, hassert, _, _, hany,
    rfl, rfl⟩ := FH.createFarm_inv hx'
  have hexp := FarmTx.cfExpired_nil hnoexp hflags
  rw [hexp, FarmTx.closeFarms_nil] at hany hsubs
  simp only [List.append_nil] at hsubs
  simp only at hany
  have hsubs' : execSubs 63 _ FM (feeMsgs.map mkSub) = .ok w' := hsubs
  have hfuel := execSubs_leaf_fuel feeMsgs _ _ _ _ hsubs'
  rw [execSubs_leaf feeMsgs 63 _ FM (FarmTx.feeMsgs_leaf hfm) hfuel] at hsubs'
  obtain ⟨b2, hrun, hw'⟩ := bind_ok.mp hsubs'
  simp only [pure_ok] at hw'
  subst hw'
  intro g hg
  rcases List.mem_cons.1 ((FH.saveFarm_perm_new hany).mem_iff.1 hg) with rfl | hg'
  · exact Or.inr rfl
  · rw [FH.cfIdState_farms] at hg'
    exact Or.inl hg'

end MantraDex.MonSoundFL
