/-
  Bank invariant "the supply of a denom covers the balances of any set of distinct accounts":
  preserved by the three bank operations, hence by every execution of the runtime; under it the
  supply effect of the operations is exact (a send keeps the supply, a burn lowers it by exactly the
  burned coins, a mint raises it by exactly the minted coins).
-/
import MantraDex.Model.System
import MantraDex.Proofs.NumLemmas
import MantraDex.Proofs.BankLemmas
import MantraDex.Proofs.SysLemmasPools

set_option linter.unusedSimpArgs false
set_option linter.unusedVariables false

namespace MantraDex.LpSys
open MantraDex
open MantraDex.C01 (coinsOf amt coinsOf_cons coinsOf_nil sumNat sumNat_cons sumNat_nil)

def sumOver (as : List Addr) (f : Addr → Nat) : Nat := (as.map f).foldl (· + ·) 0

theorem sumOver_nil (f : Addr → Nat) : sumOver [] f = 0 := rfl

theorem sumOver_cons (a : Addr) (as : List Addr) (f : Addr → Nat) :
    sumOver (a :: as) f = f a + sumOver as f := by
  show sumNat (f a :: as.map f) = f a + sumNat (as.map f)
  exact sumNat_cons _ _

theorem sumOver_congr {as : List Addr} {f g : Addr → Nat} (h : ∀ a ∈ as, f a = g a) :
    sumOver as f = sumOver as g := by
  induction as with
  | nil => rfl
  | cons a as ih =>
    rw [sumOver_cons, sumOver_cons, h a (List.mem_cons_self ..),
      ih (fun x hx => h x (List.mem_cons_of_mem _ hx))]

theorem sumOver_indicator {as : List Addr} (hnd : as.Nodup) (f : Addr → Nat) (x : Addr) (c : Nat) :
    sumOver as (fun a => f a + if a = x then c else 0) = sumOver as f + if x ∈ as then c else 0 := by
  induction as with
  | nil => simp [sumOver_nil]
  | cons a as ih =>
    rw [List.nodup_cons] at hnd
    rw [sumOver_cons, sumOver_cons, ih hnd.2]
    by_cases hax : a = x
    · subst hax
      have : ¬ a ∈ as := hnd.1
      simp only [this, if_false, List.mem_cons, true_or, if_true]
      omega
    · have h1 : ¬ x = a := fun e => hax e.symm
      simp only [hax, if_false, List.mem_cons, h1, false_or]
      omega

/-- the supply of every denom covers the balances of any list of distinct accounts -/
def Covers (b : Bank) : Prop :=
  ∀ d (as : List Addr), as.Nodup → sumOver as (fun a => b.bal a d) ≤ b.supply d

theorem covers_of_eq {b b' : Bank} (hb : b'.bal = b.bal) (hs : b'.supply = b.supply) (h : Covers b) :
    Covers b' := by
  intro d as hnd
  rw [hb, hs]
  exact h d as hnd

theorem Covers.one {b : Bank} (h : Covers b) (a : Addr) (d : Denom) : b.bal a d ≤ b.supply d := by
  have := h d [a] (by simp)
  rw [sumOver_cons, sumOver_nil] at this
  omega

theorem covers_mints {b b' : Bank} {to : Addr} {cs : List Coin} (m : Mints b b' to cs) (h : Covers b) :
    Covers b' := by
  intro d as hnd
  have e : sumOver as (fun a => b'.bal a d) =
      sumOver as (fun a => b.bal a d + if a = to then coinsOf cs d else 0) :=
    sumOver_congr (fun a _ => m.bal a d)
  rw [e, sumOver_indicator hnd, m.sup]
  have := h d as hnd
  split <;> omega

theorem covers_burns {b b' : Bank} {frm : Addr} {cs : List Coin} (m : Burns b b' frm cs) (h : Covers b) :
    Covers b' := by
  intro d as hnd
  have e : sumOver as (fun a => b.bal a d) =
      sumOver as (fun a => b'.bal a d + if a = frm then coinsOf cs d else 0) :=
    sumOver_congr (fun a _ => (m.bal a d).symm)
  rw [sumOver_indicator hnd] at e
  rw [m.sup]
  have h1 := h d as hnd
  by_cases hf : frm ∈ as
  · simp only [hf, if_true] at e
    omega
  · simp only [hf, if_false] at e
    have h2 := h d (frm :: as) (List.nodup_cons.2 ⟨hf, hnd⟩)
    rw [sumOver_cons] at h2
    have h3 := m.le d
    omega

theorem burns_supply {b b' : Bank} {frm : Addr} {cs : List Coin} (m : Burns b b' frm cs) (h : Covers b)
    (d : Denom) : b'.supply d + coinsOf cs d = b.supply d := by
  have h1 := m.le d
  have h2 := h.one frm d
  rw [m.sup]
  omega

theorem tick_covers {b b' : Bank} (ht : b.tick = .ok b') (h : Covers b) : Covers b' := by
  obtain ⟨t1, t2, _⟩ := tick_ok ht
  exact covers_of_eq t1 t2 h

theorem send_covers {b b' : Bank} {frm to : Addr} {cs : List Coin} (hs : b.send frm to cs = .ok b')
    (h : Covers b) : Covers b' ∧ ∀ d, b'.supply d = b.supply d := by
  unfold Bank.send at hs
  obtain ⟨b1, h1, hs⟩ := bind_ok.mp hs
  obtain ⟨b2, h2, hs⟩ := bind_ok.mp hs
  obtain ⟨t1, t2, _⟩ := tick_ok h1
  have c1 := tick_covers h1 h
  obtain ⟨_, s⟩ := burnRaw_spec h2
  obtain ⟨_, m⟩ := mintRaw_spec hs
  have c2 := covers_burns s c1
  refine ⟨covers_mints m c2, fun d => ?_⟩
  have := burns_supply s c1 d
  rw [m.sup, ← t2]
  omega

theorem burn_covers {b b' : Bank} {frm : Addr} {cs : List Coin} (hs : b.burn frm cs = .ok b')
    (h : Covers b) : Covers b' ∧ ∀ d, b'.supply d + coinsOf cs d = b.supply d := by
  obtain ⟨_, s⟩ := burn_spec hs
  exact ⟨covers_burns s h, burns_supply s h⟩

theorem mint_covers {b b' : Bank} {to : Addr} {cs : List Coin} (hs : b.mint to cs = .ok b')
    (h : Covers b) : Covers b' ∧ ∀ d, b'.supply d = b.supply d + coinsOf cs d := by
  obtain ⟨_, m⟩ := mint_spec hs
  exact ⟨covers_mints m h, m.sup⟩

/-! ### through the runtime -/

theorem callExecute_bank {w w2 : World} {c sender : Addr} {funds : List Coin} {msg : ContractMsg}
    {resp : Response} (h : callExecute w c sender funds msg = .ok (w2, resp)) :
    w2.bank = w.bank ∧ w2.tfFees = w.tfFees := by
  cases msg with
  | pm m =>
    simp only [callExecute] at h
    split at h
    · cases h
    · obtain ⟨⟨s, r⟩, hr, h⟩ := bind_ok.mp h
      simp only [pure_ok, Prod.mk.injEq] at h
      obtain ⟨rfl, -⟩ := h
      exact ⟨rfl, rfl⟩
  | fm m =>
    simp only [callExecute] at h
    split at h
    · cases h
    · obtain ⟨⟨s, r⟩, hr, h⟩ := bind_ok.mp h
      simp only [pure_ok, Prod.mk.injEq] at h
      obtain ⟨rfl, -⟩ := h
      exact ⟨rfl, rfl⟩
  | em m =>
    simp only [callExecute] at h
    split at h
    · cases h
    · obtain ⟨s, hr, h⟩ := bind_ok.mp h
      simp only [pure_ok, Prod.mk.injEq] at h
      obtain ⟨rfl, -⟩ := h
      exact ⟨rfl, rfl⟩
  | fc m =>
    cases m with
    | updateOwnership a =>
      simp only [callExecute] at h
      split at h
      · cases h
      · obtain ⟨_, _, h⟩ := bind_ok.mp h
        obtain ⟨o, hr, h⟩ := bind_ok.mp h
        simp only [pure_ok, Prod.mk.injEq] at h
        obtain ⟨rfl, -⟩ := h
        exact ⟨rfl, rfl⟩

theorem callReply_bank {w w2 : World} {c : Addr} {id : Nat} {resp : Response}
    (h : callReply w c id = .ok (w2, resp)) : w2.bank = w.bank ∧ w2.tfFees = w.tfFees := by
  unfold callReply at h
  split at h
  · obtain ⟨⟨s, r⟩, hr, h⟩ := bind_ok.mp h
    simp only [pure_ok, Prod.mk.injEq] at h
    obtain ⟨rfl, -⟩ := h
    exact ⟨rfl, rfl⟩
  · split at h
    · obtain ⟨⟨s, r⟩, hr, h⟩ := bind_ok.mp h
      simp only [pure_ok, Prod.mk.injEq] at h
      obtain ⟨rfl, -⟩ := h
      exact ⟨rfl, rfl⟩
    · cases h

theorem fundsMove_covers {w w1 : World} {sender c : Addr} {funds : List Coin}
    (h : (if funds.isEmpty then pure w else do
        let b ← w.bank.send sender c funds
        pure { w with bank := b }) = (.ok w1 : R World)) (hc : Covers w.bank) :
    Covers w1.bank ∧ w1.tfFees = w.tfFees := by
  split at h
  · simp only [pure_ok] at h; subst h; exact ⟨hc, rfl⟩
  · obtain ⟨b, hb, h⟩ := bind_ok.mp h
    simp only [pure_ok] at h; subst h
    exact ⟨(send_covers hb hc).1, rfl⟩

/-- every execution keeps the bank invariant and the token-factory fee table -/
theorem exec_covers (fuel : Nat) :
    (∀ w sender m w', execMsg fuel w sender m = .ok w' → Covers w.bank →
      Covers w'.bank ∧ w'.tfFees = w.tfFees) ∧
    (∀ w c subs w', execSubs fuel w c subs = .ok w' → Covers w.bank →
      Covers w'.bank ∧ w'.tfFees = w.tfFees) := by
  induction fuel with
  | zero =>
    constructor
    · intro w sender m w' h; rw [execMsg] at h; cases h
    · intro w c subs w' h; rw [execSubs] at h; cases h
  | succ n ih =>
    obtain ⟨ihM, ihS⟩ := ih
    constructor
    · intro w sender m w' h hc
      cases m with
      | bankSend to coins =>
        rw [execMsg] at h
        obtain ⟨b, hb, h⟩ := bind_ok.mp h
        simp only [pure_ok] at h; subst h
        exact ⟨(send_covers hb hc).1, rfl⟩
      | bankBurn coins =>
        rw [execMsg] at h
        obtain ⟨b, hb, h⟩ := bind_ok.mp h
        simp only [pure_ok] at h; subst h
        exact ⟨(burn_covers hb hc).1, rfl⟩
      | tfCreateDenom sd =>
        rw [execMsg] at h
        obtain ⟨b, hb, h⟩ := bind_ok.mp h
        simp only [pure_ok] at h; subst h
        exact ⟨(burn_covers hb hc).1, rfl⟩
      | tfMint coin to =>
        rw [execMsg] at h
        obtain ⟨b, hb, h⟩ := bind_ok.mp h
        simp only [pure_ok] at h; subst h
        exact ⟨(mint_covers hb hc).1, rfl⟩
      | tfBurn coin =>
        rw [execMsg] at h
        obtain ⟨b, hb, h⟩ := bind_ok.mp h
        simp only [pure_ok] at h; subst h
        exact ⟨(burn_covers hb hc).1, rfl⟩
      | wasmExec c msg funds =>
        obtain ⟨w1, w2, resp, hw1, hce, h⟩ := SysPools.wasm_inv h
        obtain ⟨c1, t1⟩ := fundsMove_covers hw1 hc
        obtain ⟨e2, t2⟩ := callExecute_bank hce
        obtain ⟨c3, t3⟩ := ihS _ _ _ _ h (by rw [e2]; exact c1)
        exact ⟨c3, t3.trans (t2.trans t1)⟩
    · intro w c subs w' h hc
      cases subs with
      | nil => rw [execSubs] at h; cases h; exact ⟨hc, rfl⟩
      | cons sm rest =>
        rw [execSubs] at h
        split at h
        · rename_i w1 hw1
          obtain ⟨c1, t1⟩ := ihM _ _ _ _ hw1 hc
          split at h
          · obtain ⟨⟨w2, resp⟩, hcr, h⟩ := bind_ok.mp h
            obtain ⟨w3, h3, h⟩ := bind_ok.mp h
            obtain ⟨e2, t2⟩ := callReply_bank hcr
            obtain ⟨c3, t3⟩ := ihS _ _ _ _ h3 (by rw [e2]; exact c1)
            obtain ⟨c4, t4⟩ := ihS _ _ _ _ h c3
            exact ⟨c4, t4.trans (t3.trans (t2.trans t1))⟩
          · obtain ⟨c4, t4⟩ := ihS _ _ _ _ h c1
            exact ⟨c4, t4.trans t1⟩
        · rename_i e he
          split at h
          · obtain ⟨⟨w2, resp⟩, hcr, h⟩ := bind_ok.mp h
            obtain ⟨w3, h3, h⟩ := bind_ok.mp h
            obtain ⟨e2, t2⟩ := callReply_bank hcr
            obtain ⟨c3, t3⟩ := ihS _ _ _ _ h3 (by rw [e2]; exact hc)
            obtain ⟨c4, t4⟩ := ihS _ _ _ _ h c3
            exact ⟨c4, t4.trans (t3.trans t2)⟩
          · cases h

/-! ### `validAddr` never changes -/

theorem callExecute_va {w w2 : World} {c sender : Addr} {funds : List Coin} {msg : ContractMsg}
    {resp : Response} (h : callExecute w c sender funds msg = .ok (w2, resp)) :
    w2.validAddr = w.validAddr := by
  cases msg with
  | pm m =>
    simp only [callExecute] at h
    split at h
    · cases h
    · obtain ⟨⟨s, r⟩, hr, h⟩ := bind_ok.mp h
      simp only [pure_ok, Prod.mk.injEq] at h
      obtain ⟨rfl, -⟩ := h
      rfl
  | fm m =>
    simp only [callExecute] at h
    split at h
    · cases h
    · obtain ⟨⟨s, r⟩, hr, h⟩ := bind_ok.mp h
      simp only [pure_ok, Prod.mk.injEq] at h
      obtain ⟨rfl, -⟩ := h
      rfl
  | em m =>
    simp only [callExecute] at h
    split at h
    · cases h
    · obtain ⟨s, hr, h⟩ := bind_ok.mp h
      simp only [pure_ok, Prod.mk.injEq] at h
      obtain ⟨rfl, -⟩ := h
      rfl
  | fc m =>
    cases m with
    | updateOwnership a =>
      simp only [callExecute] at h
      split at h
      · cases h
      · obtain ⟨_, _, h⟩ := bind_ok.mp h
        obtain ⟨o, hr, h⟩ := bind_ok.mp h
        simp only [pure_ok, Prod.mk.injEq] at h
        obtain ⟨rfl, -⟩ := h
        rfl

theorem callReply_va {w w2 : World} {c : Addr} {id : Nat} {resp : Response}
    (h : callReply w c id = .ok (w2, resp)) : w2.validAddr = w.validAddr := by
  unfold callReply at h
  split at h
  · obtain ⟨⟨s, r⟩, hr, h⟩ := bind_ok.mp h
    simp only [pure_ok, Prod.mk.injEq] at h
    obtain ⟨rfl, -⟩ := h
    rfl
  · split at h
    · obtain ⟨⟨s, r⟩, hr, h⟩ := bind_ok.mp h
      simp only [pure_ok, Prod.mk.injEq] at h
      obtain ⟨rfl, -⟩ := h
      rfl
    · cases h

theorem exec_va (fuel : Nat) :
    (∀ w sender m w', execMsg fuel w sender m = .ok w' → w'.validAddr = w.validAddr) ∧
    (∀ w c subs w', execSubs fuel w c subs = .ok w' → w'.validAddr = w.validAddr) := by
  induction fuel with
  | zero =>
    constructor
    · intro w sender m w' h; rw [execMsg] at h; cases h
    · intro w c subs w' h; rw [execSubs] at h; cases h
  | succ n ih =>
    obtain ⟨ihM, ihS⟩ := ih
    constructor
    · intro w sender m w' h
      cases m with
      | bankSend to coins =>
        rw [execMsg] at h
        obtain ⟨b, hb, h⟩ := bind_ok.mp h
        simp only [pure_ok] at h; subst h; rfl
      | bankBurn coins =>
        rw [execMsg] at h
        obtain ⟨b, hb, h⟩ := bind_ok.mp h
        simp only [pure_ok] at h; subst h; rfl
      | tfCreateDenom sd =>
        rw [execMsg] at h
        obtain ⟨b, hb, h⟩ := bind_ok.mp h
        simp only [pure_ok] at h; subst h; rfl
      | tfMint coin to =>
        rw [execMsg] at h
        obtain ⟨b, hb, h⟩ := bind_ok.mp h
        simp only [pure_ok] at h; subst h; rfl
      | tfBurn coin =>
        rw [execMsg] at h
        obtain ⟨b, hb, h⟩ := bind_ok.mp h
        simp only [pure_ok] at h; subst h; rfl
      | wasmExec c msg funds =>
        obtain ⟨w1, w2, resp, hw1, hce, h⟩ := SysPools.wasm_inv h
        have e1 : w1.validAddr = w.validAddr := by
          split at hw1
          · simp only [pure_ok] at hw1; subst hw1; rfl
          · obtain ⟨b, hb, hw1⟩ := bind_ok.mp hw1
            simp only [pure_ok] at hw1; subst hw1; rfl
        exact (ihS _ _ _ _ h).trans ((callExecute_va hce).trans e1)
    · intro w c subs w' h
      cases subs with
      | nil => rw [execSubs] at h; cases h; rfl
      | cons sm rest =>
        rw [execSubs] at h
        split at h
        · rename_i w1 hw1
          have t1 := ihM _ _ _ _ hw1
          split at h
          · obtain ⟨⟨w2, resp⟩, hcr, h⟩ := bind_ok.mp h
            obtain ⟨w3, h3, h⟩ := bind_ok.mp h
            exact (ihS _ _ _ _ h).trans ((ihS _ _ _ _ h3).trans ((callReply_va hcr).trans t1))
          · exact (ihS _ _ _ _ h).trans t1
        · rename_i e he
          split at h
          · obtain ⟨⟨w2, resp⟩, hcr, h⟩ := bind_ok.mp h
            obtain ⟨w3, h3, h⟩ := bind_ok.mp h
            have t2 := callReply_va hcr
            exact (ihS _ _ _ _ h).trans ((ihS _ _ _ _ h3).trans t2)
          · cases h

end MantraDex.LpSys
