/-
  A generic lift through the message-execution runtime (`execMsg` / `execSubs`), used by
  `Properties/C15Sys.lean`:

  * `Inv`  — an invariant of the world,
  * `G`    — a reflexive, transitive relation between the world before and after,
  * `Ok`   — an authorisation predicate on pending messages `(world, sender, message)`, stable under `G`,

  such that every successful `callExecute` of an authorised call and every successful `callReply`
  re-establish `Inv`, relate the worlds by `G` and emit only authorised messages.  Then every execution of
  an authorised message tree (nested calls, replies, caught failures = rollback to an earlier world)
  preserves `Inv` and relates the worlds by `G`.
-/
import MantraDex.Model.System
import MantraDex.Proofs.NumLemmas
import MantraDex.Proofs.SysLemmasPools
import MantraDex.Proofs.DoLemmas

set_option linter.unusedSimpArgs false
set_option linter.unusedVariables false

namespace MantraDex.AuthSys
open MantraDex

structure Lift (Inv : World → Prop) (G : World → World → Prop) (Ok : World → Addr → Msg → Prop) : Prop where
  refl : ∀ w, G w w
  trans : ∀ {a b c}, G a b → G b c → G a c
  /-- the bank (and its fault counter) is irrelevant -/
  bank : ∀ (w : World) (b : Bank), Inv w → Inv { w with bank := b } ∧ G w { w with bank := b }
  stable : ∀ {w w' : World} {a : Addr} {m : Msg}, G w w' → Ok w a m → Ok w' a m
  exec : ∀ {w w2 : World} {c sender : Addr} {funds : List Coin} {msg : ContractMsg} {resp : Response},
    Inv w → Ok w sender (.wasmExec c msg funds) → callExecute w c sender funds msg = .ok (w2, resp) →
    Inv w2 ∧ G w w2 ∧ ∀ sm ∈ resp.msgs, Ok w2 c sm.msg
  reply : ∀ {w w2 : World} {c : Addr} {id : Nat} {resp : Response},
    Inv w → callReply w c id = .ok (w2, resp) →
    Inv w2 ∧ G w w2 ∧ ∀ sm ∈ resp.msgs, Ok w2 c sm.msg

theorem fundsMove {Inv G Ok} (L : Lift Inv G Ok) {w w1 : World} {sender c : Addr} {funds : List Coin}
    (hinv : Inv w)
    (h : (if funds.isEmpty then pure w else do
        let b ← w.bank.send sender c funds
        pure { w with bank := b }) = (.ok w1 : R World)) : Inv w1 ∧ G w w1 := by
  split at h
  · simp only [pure_ok] at h; subst h; exact ⟨hinv, L.refl _⟩
  · obtain ⟨b, hb, h⟩ := bind_ok.mp h
    simp only [pure_ok] at h; subst h
    exact L.bank w b hinv

theorem run_lift {Inv G Ok} (L : Lift Inv G Ok) (fuel : Nat) :
    (∀ w sender m w', execMsg fuel w sender m = .ok w' → Inv w → Ok w sender m → Inv w' ∧ G w w') ∧
    (∀ w c subs w', execSubs fuel w c subs = .ok w' → Inv w → (∀ sm ∈ subs, Ok w c sm.msg) →
      Inv w' ∧ G w w') := by
  induction fuel with
  | zero =>
    constructor
    · intro w sender m w' h; rw [execMsg] at h; cases h
    · intro w c subs w' h; rw [execSubs] at h; cases h
  | succ n ih =>
    obtain ⟨ihM, ihS⟩ := ih
    constructor
    · intro w sender m w' h hinv hok
      cases m with
      | bankSend to coins =>
        rw [execMsg] at h
        obtain ⟨b, hb, h⟩ := bind_ok.mp h
        simp only [pure_ok] at h; subst h
        exact L.bank w b hinv
      | bankBurn coins =>
        rw [execMsg] at h
        obtain ⟨b, hb, h⟩ := bind_ok.mp h
        simp only [pure_ok] at h; subst h
        exact L.bank w b hinv
      | tfCreateDenom sd =>
        rw [execMsg] at h
        obtain ⟨b, hb, h⟩ := bind_ok.mp h
        simp only [pure_ok] at h; subst h
        exact L.bank w b hinv
      | tfMint coin to =>
        rw [execMsg] at h
        obtain ⟨b, hb, h⟩ := bind_ok.mp h
        simp only [pure_ok] at h; subst h
        exact L.bank w b hinv
      | tfBurn coin =>
        rw [execMsg] at h
        obtain ⟨b, hb, h⟩ := bind_ok.mp h
        simp only [pure_ok] at h; subst h
        exact L.bank w b hinv
      | wasmExec c msg funds =>
        obtain ⟨w1, w2, resp, hw1, hce, h⟩ := SysPools.wasm_inv h
        obtain ⟨i1, g1⟩ := fundsMove L hinv hw1
        obtain ⟨i2, g2, oks⟩ := L.exec i1 (L.stable g1 hok) hce
        obtain ⟨i3, g3⟩ := ihS _ _ _ _ h i2 oks
        exact ⟨i3, L.trans (L.trans g1 g2) g3⟩
    · intro w c subs w' h hinv hok
      cases subs with
      | nil => rw [execSubs] at h; cases h; exact ⟨hinv, L.refl _⟩
      | cons sm rest =>
        have hoksm := hok sm List.mem_cons_self
        have hokrest : ∀ sm' ∈ rest, Ok w c sm'.msg := fun sm' hm => hok sm' (List.mem_cons_of_mem _ hm)
        rw [execSubs] at h
        split at h
        · rename_i w1 hw1
          obtain ⟨i1, g1⟩ := ihM _ _ _ _ hw1 hinv hoksm
          split at h
          · obtain ⟨⟨w2, resp⟩, hcr, h⟩ := bind_ok.mp h
            obtain ⟨w3, h3, h⟩ := bind_ok.mp h
            obtain ⟨i2, g2, oks⟩ := L.reply i1 hcr
            obtain ⟨i3, g3⟩ := ihS _ _ _ _ h3 i2 oks
            have g13 := L.trans (L.trans g1 g2) g3
            obtain ⟨i4, g4⟩ := ihS _ _ _ _ h i3 (fun sm' hm => L.stable g13 (hokrest sm' hm))
            exact ⟨i4, L.trans g13 g4⟩
          · obtain ⟨i4, g4⟩ := ihS _ _ _ _ h i1 (fun sm' hm => L.stable g1 (hokrest sm' hm))
            exact ⟨i4, L.trans g1 g4⟩
        · rename_i e he
          split at h
          · obtain ⟨⟨w2, resp⟩, hcr, h⟩ := bind_ok.mp h
            obtain ⟨w3, h3, h⟩ := bind_ok.mp h
            obtain ⟨i1, g1⟩ := L.bank w { w.bank with calls := w.bank.calls + sm.msg.callsWhenFailed } hinv
            obtain ⟨i2, g2, oks⟩ := L.reply i1 hcr
            obtain ⟨i3, g3⟩ := ihS _ _ _ _ h3 i2 oks
            have g13 := L.trans (L.trans g1 g2) g3
            obtain ⟨i4, g4⟩ := ihS _ _ _ _ h i3 (fun sm' hm => L.stable g13 (hokrest sm' hm))
            exact ⟨i4, L.trans g13 g4⟩
          · cases h

/-- one transaction (committed or rejected, with or without an injected fault) -/
theorem step_lift {Inv G Ok} (L : Lift Inv G Ok) (time : ∀ (w : World) (n : Nat), G w { w with nowNs := n })
    (w : World) (tx : Tx) (k : Option Nat) (hinv : Inv w)
    (hok : ∀ sender c msg funds, tx = .exec sender c msg funds →
      Ok w sender (.wasmExec c msg funds)) :
    G w (step w tx k) := by
  unfold step
  cases hr : runTx w tx k with
  | error e => exact L.refl _
  | ok w' =>
    show G w w'
    obtain ⟨i0, g0⟩ := L.bank w { w.bank with calls := 0, failAt := k } hinv
    cases tx with
    | exec sender c msg funds =>
      simp only [runTx] at hr
      have := (run_lift L FUEL).1 _ _ _ _ hr i0 (L.stable g0 (hok _ _ _ _ rfl))
      exact L.trans g0 this.2
    | send frm to coins =>
      simp only [runTx] at hr
      rw [show FUEL = 63 + 1 from rfl, execMsg] at hr
      obtain ⟨b, hb, h⟩ := bind_ok.mp hr
      simp only [pure_ok] at h; subst h
      exact (L.bank w b hinv).2
    | advance ns =>
      simp only [runTx] at hr
      cases hr
      exact time w _

/-! ### inversion of the two entry points -/

theorem callExecute_cases {w w2 : World} {c sender : Addr} {funds : List Coin} {msg : ContractMsg}
    {resp : Response} (h : callExecute w c sender funds msg = .ok (w2, resp)) :
    (∃ m s, msg = .pm m ∧ c = PM ∧ pmExecute w.pm w.pmEnv sender funds m = .ok (s, resp) ∧
      w2 = { w with pm := s }) ∨
    (∃ m s, msg = .fm m ∧ c = FM ∧ fmExecute w.fm w.fmEnv sender funds m = .ok (s, resp) ∧
      w2 = { w with fm := s }) ∨
    (∃ m s, msg = .em m ∧ c = EM ∧ emExecute w.em w.validAddr w.nowNs sender funds m = .ok s ∧
      w2 = { w with em := s } ∧ resp.msgs = []) ∨
    (∃ a o, msg = .fc (.updateOwnership a) ∧ c = FC ∧ funds = [] ∧
      w.fc.update w.validAddr w.nowNs sender a = .ok o ∧ w2 = { w with fc := o } ∧ resp.msgs = []) := by
  cases msg with
  | pm m =>
    simp only [callExecute] at h
    split at h
    · cases h
    · rename_i hc
      obtain ⟨⟨s, r⟩, hr, h⟩ := bind_ok.mp h
      simp only [pure_ok, Prod.mk.injEq] at h
      obtain ⟨rfl, rfl⟩ := h
      exact Or.inl ⟨m, s, rfl, by simpa using hc, hr, rfl⟩
  | fm m =>
    simp only [callExecute] at h
    split at h
    · cases h
    · rename_i hc
      obtain ⟨⟨s, r⟩, hr, h⟩ := bind_ok.mp h
      simp only [pure_ok, Prod.mk.injEq] at h
      obtain ⟨rfl, rfl⟩ := h
      exact Or.inr (Or.inl ⟨m, s, rfl, by simpa using hc, hr, rfl⟩)
  | em m =>
    simp only [callExecute] at h
    split at h
    · cases h
    · rename_i hc
      obtain ⟨s, hr, h⟩ := bind_ok.mp h
      simp only [pure_ok, Prod.mk.injEq] at h
      obtain ⟨rfl, rfl⟩ := h
      exact Or.inr (Or.inr (Or.inl ⟨m, s, rfl, by simpa using hc, hr, rfl, rfl⟩))
  | fc m =>
    cases m with
    | updateOwnership a =>
      simp only [callExecute] at h
      split at h
      · cases h
      · rename_i hc
        obtain ⟨_, hnp, h⟩ := bind_ok.mp h
        obtain ⟨o, hr, h⟩ := bind_ok.mp h
        simp only [pure_ok, Prod.mk.injEq] at h
        obtain ⟨rfl, rfl⟩ := h
        exact Or.inr (Or.inr (Or.inr ⟨a, o, rfl, by simpa using hc, nonpayable_ok.mp hnp, hr, rfl, rfl⟩))

theorem callReply_cases {w w2 : World} {c : Addr} {id : Nat} {resp : Response}
    (h : callReply w c id = .ok (w2, resp)) :
    (c = PM ∧ ∃ s, pmReply w.pm w.pmEnv id = .ok (s, resp) ∧ w2 = { w with pm := s }) ∨
    (c = FM ∧ w2 = w ∧ resp.msgs = []) := by
  unfold callReply at h
  split at h
  · rename_i hc
    obtain ⟨⟨s, r⟩, hr, h⟩ := bind_ok.mp h
    simp only [pure_ok, Prod.mk.injEq] at h
    obtain ⟨rfl, rfl⟩ := h
    exact Or.inl ⟨by simpa using hc, s, hr, rfl⟩
  · split at h
    · rename_i hc
      obtain ⟨⟨s, r⟩, hr, h⟩ := bind_ok.mp h
      simp only [pure_ok, Prod.mk.injEq] at h
      obtain ⟨rfl, rfl⟩ := h
      unfold fmReply at hr
      split at hr
      · cases hr; exact Or.inr ⟨by simpa using hc, rfl, rfl⟩
      · cases hr
    · cases h

end MantraDex.AuthSys
